(* C02 - proofs about the control-flow transcription of StopModel.v (axiom free: lists, nat, Z). *)
Require Import List Bool ZArith Lia Arith.
Require Import MPSV.Goal.GoalModel MPSV.Goal.StopModel.
Import ListNotations.
Local Open Scope nat_scope.

(* ------------------------------------------------------------------ the stop tests *)
Definition not_out (r : rt) : Prop := rinc r = INC_UNKNOWN \/ rinc r = INC_IN.
Definition all_computed (rs : list rt) : Prop := Forall (fun r => not_out r -> is_computed (rst r) = true) rs.

Lemma ia_scan_computed : forall m p rs, ia_scan m p rs = true -> all_computed rs.
Proof.
  intros m p rs; induction rs as [|r t IH]; simpl; intro H; constructor.
  - intros [E|E]; rewrite E in H; unfold INC_UNKNOWN, INC_IN in H; simpl Nat.eqb in H;
      destruct (is_computed (rst r)); auto; simpl in H; discriminate.
  - apply IH.
    repeat match type of H with (if ?c then false else _) = true => destruct c; [discriminate|] end.
    exact H.
Qed.

Theorem check_stop_true_computed : forall g m p rs,
  g <> GCount -> check_stop g m p rs = true -> all_computed rs.
Proof. intros g m p rs Hg H; destruct g; try congruence; apply (ia_scan_computed m p); exact H. Qed.

Lemma ia_scan_not_clustered : forall m p rs, ia_scan m p rs = true ->
  Forall (fun r => rst r = ST_CLUSTERED -> rinc r = INC_OUT) rs.
Proof.
  intros m p rs; induction rs as [|r t IH]; simpl; intro H; constructor.
  - intro E. rewrite E in H. cbn in H.
    destruct (Nat.eqb (rinc r) INC_OUT) eqn:EO; [apply Nat.eqb_eq; exact EO|].
    cbn in H. destruct (Nat.eqb (rinc r) INC_UNKNOWN || Nat.eqb (rinc r) INC_IN); cbn in H; discriminate.
  - apply IH.
    repeat match type of H with (if ?c then false else _) = true => destruct c; [discriminate|] end.
    exact H.
Qed.

Lemma sec_scan_computed : forall ph sts, ph <> NoPhase -> sec_scan ph sts = true -> forallb is_computed sts = true.
Proof.
  intros ph sts Hp; induction sts as [|s t IH]; simpl; intro H; [reflexivity|].
  destruct ph; try congruence; destruct (is_computed s); simpl in *; try discriminate; apply IH; exact H.
Qed.

Theorem sec_check_stop_true_computed : forall ph sts,
  ph <> NoPhase -> sec_check_stop false ph sts = true -> forallb is_computed sts = true.
Proof. intros ph sts Hp H; apply (sec_scan_computed ph); assumption. Qed.

(* ------------------------------------------------------------------ set_nth / upd *)
Lemma length_set_nth : forall l i x, length (set_nth i x l) = length l.
Proof. induction l as [|h t IH]; intros [|i] x; simpl; auto. Qed.

Lemma nth_set_nth_same : forall l i x d, i < length l -> nth i (set_nth i x l) d = x.
Proof. induction l as [|h t IH]; intros [|i] x d H; simpl in *; try lia; auto. apply IH; lia. Qed.

Lemma nth_set_nth_other : forall l i j x d, i <> j -> nth j (set_nth i x l) d = nth j l d.
Proof. induction l as [|h t IH]; intros [|i] [|j] x d H; simpl; auto; try congruence. Qed.

Lemma length_upd : forall i f l, length (upd i f l) = length l.
Proof. intros; unfold upd; apply length_set_nth. Qed.

Lemma nth_upd_same : forall l i f, i < length l -> nth i (upd i f l) 0 = f (nth i l 0).
Proof. intros; unfold upd; apply nth_set_nth_same; assumption. Qed.

Lemma nth_upd_other : forall l i j f, i <> j -> nth j (upd i f l) 0 = nth j l 0.
Proof. intros; unfold upd; apply nth_set_nth_other; assumption. Qed.

Lemma existsb_eqb_In : forall i l, existsb (Nat.eqb i) l = true <-> In i l.
Proof.
  intros i l; rewrite existsb_exists; split.
  - intros [x [Hx E]]; apply Nat.eqb_eq in E; subst; exact Hx.
  - intro H; exists i; split; [exact H | apply Nat.eqb_refl].
Qed.

Lemma existsb_eqb_notIn : forall i l, existsb (Nat.eqb i) l = false <-> ~ In i l.
Proof.
  intros i l; split; intro H.
  - intro C; apply existsb_eqb_In in C; congruence.
  - destruct (existsb (Nat.eqb i) l) eqn:E; [apply existsb_eqb_In in E; contradiction | reflexivity].
Qed.

(* the member loop, pointwise *)
Lemma fold_members_length : forall (g : nat -> nat -> nat) mem sts,
  length (fold_left (fun acc k => upd k (g k) acc) mem sts) = length sts.
Proof. intros g mem; induction mem as [|k t IH]; intro sts; simpl; [reflexivity|]. rewrite IH; apply length_upd. Qed.

Lemma fold_members_nth : forall (g : nat -> nat -> nat) mem sts i,
  NoDup mem -> Forall (fun k => k < length sts) mem ->
  nth i (fold_left (fun acc k => upd k (g k) acc) mem sts) 0 =
  if existsb (Nat.eqb i) mem then g i (nth i sts 0) else nth i sts 0.
Proof.
  intros g mem; induction mem as [|k t IH]; intros sts i ND HB; simpl; [reflexivity|].
  inversion ND as [|? ? Hk ND']; subst. inversion HB as [|? ? Hlt HB']; subst.
  rewrite IH; [| exact ND' | rewrite length_upd; exact HB'].
  destruct (Nat.eqb i k) eqn:E.
  - apply Nat.eqb_eq in E; subst k. simpl.
    apply existsb_eqb_notIn in Hk. rewrite Hk. apply nth_upd_same; exact Hlt.
  - simpl. apply Nat.eqb_neq in E. rewrite nth_upd_other by congruence. reflexivity.
Qed.

Definition cluster_write (v : variant) (track : bool) (c : cluster) (within : bool) : nat -> nat :=
  if Nat.eqb (cn c) 1 then singleton_write v within else member_write track within.

Lemma modify_cluster_length : forall v track w c sts, length (modify_cluster v track w c sts) = length sts.
Proof.
  intros; unfold modify_cluster. destruct (cmem c); [reflexivity|].
  destruct (Nat.eqb (cn c) 1); [apply length_upd | apply fold_members_length].
Qed.

Lemma modify_cluster_nth : forall v track w c sts i,
  cn c = length (cmem c) -> NoDup (cmem c) -> Forall (fun k => k < length sts) (cmem c) ->
  nth i (modify_cluster v track w c sts) 0 =
  if existsb (Nat.eqb i) (cmem c) then cluster_write v track c (w i) (nth i sts 0) else nth i sts 0.
Proof.
  intros v track w c sts i Hn ND HB. unfold modify_cluster, cluster_write.
  destruct (cmem c) as [|l t] eqn:Em; [reflexivity|].
  destruct (Nat.eqb (cn c) 1) eqn:E1.
  - apply Nat.eqb_eq in E1. rewrite E1 in Hn. destruct t; simpl in Hn; [|discriminate].
    simpl. inversion HB; subst.
    destruct (Nat.eqb i l) eqn:E; simpl.
    + apply Nat.eqb_eq in E; subst. apply nth_upd_same; assumption.
    + apply Nat.eqb_neq in E. apply nth_upd_other; congruence.
  - apply (fold_members_nth (fun k => member_write track (w k))); assumption.
Qed.

Lemma NoDup_app_l : forall (A : Type) (a b : list A), NoDup (a ++ b) -> NoDup a.
Proof. intros A a; induction a as [|x t IH]; intros b H; simpl in *; [constructor|].
  inversion H; subst. constructor; [intro C; apply H2; apply in_or_app; left; exact C | eapply IH; eassumption]. Qed.

Lemma NoDup_app_r : forall (A : Type) (a b : list A), NoDup (a ++ b) -> NoDup b.
Proof. intros A a; induction a as [|x t IH]; intros b H; simpl in *; [exact H|]. inversion H; subst. apply IH; assumption. Qed.

Lemma NoDup_app_disj : forall (A : Type) (a b : list A) x, NoDup (a ++ b) -> In x a -> In x b -> False.
Proof. intros A a; induction a as [|y t IH]; intros b x H Ha Hb; simpl in *; [contradiction|].
  inversion H; subst. destruct Ha as [E|Ha]; [subst; apply H2; apply in_or_app; right; exact Hb | eapply IH; eassumption]. Qed.

Definition root_write (v : variant) (track : bool) (cls : list cluster) (w : nat -> bool) (i : nat) (old : nat) : nat :=
  match cluster_of i cls with
  | Some c => cluster_write v track c (w i) old
  | None => old
  end.

Lemma fold_clusters_length : forall v track w cls sts,
  length (fold_left (fun acc c => modify_cluster v track w c acc) cls sts) = length sts.
Proof. intros v track w cls; induction cls as [|c t IH]; intro sts; simpl; [reflexivity|]. rewrite IH; apply modify_cluster_length. Qed.

Lemma cluster_of_none : forall i cls, ~ In i (concat (map cmem cls)) -> cluster_of i cls = None.
Proof.
  intros i cls; induction cls as [|c t IH]; simpl; intro H; [reflexivity|].
  destruct (existsb (Nat.eqb i) (cmem c)) eqn:E.
  - apply existsb_eqb_In in E. exfalso; apply H; apply in_or_app; left; exact E.
  - apply IH. intro C; apply H; apply in_or_app; right; exact C.
Qed.

Lemma fold_clusters_nth : forall v track w cls sts i,
  NoDup (concat (map cmem cls)) ->
  Forall (fun c => cn c = length (cmem c) /\ Forall (fun k => k < length sts) (cmem c)) cls ->
  nth i (fold_left (fun acc c => modify_cluster v track w c acc) cls sts) 0 = root_write v track cls w i (nth i sts 0).
Proof.
  intros v track w cls; induction cls as [|c t IH]; intros sts i ND WF; simpl; [reflexivity|].
  simpl in ND. inversion WF as [|? ? [Hn HB] WF']; subst.
  rewrite IH; [| eapply NoDup_app_r; exact ND |].
  - rewrite modify_cluster_nth; [| exact Hn | eapply NoDup_app_l; exact ND | exact HB].
    unfold root_write; simpl.
    destruct (existsb (Nat.eqb i) (cmem c)) eqn:E; [|reflexivity].
    apply existsb_eqb_In in E.
    rewrite cluster_of_none; [reflexivity|].
    intro C. eapply NoDup_app_disj; eassumption.
  - eapply Forall_impl; [|exact WF']. intros a [H1 H2]; split; [exact H1|].
    rewrite modify_cluster_length; exact H2.
Qed.

Lemma modify_roots_length : forall v track cls w sts, length (modify_roots v track cls w sts) = length sts.
Proof. intros; unfold modify_roots. rewrite fold_clusters_length, map_length; reflexivity. Qed.

Lemma nth_map0 : forall (f : nat -> nat) l i, i < length l -> nth i (map f l) 0 = f (nth i l 0).
Proof. intros f l i H. rewrite (nth_indep _ 0 (f 0)) by (rewrite map_length; exact H). apply map_nth. Qed.

Lemma modify_status_split : forall v track c old within,
  modify_status v track (cn c) old within = cluster_write v track c within (retag track old).
Proof.
  intros. unfold modify_status, cluster_write, singleton_write, member_write.
  destruct (Nat.eqb (cn c) 1); [|reflexivity].
  destruct (Nat.eqb (retag track old) ST_APPROXIMATED) eqn:E; [apply Nat.eqb_eq in E; congruence|].
  destruct v; reflexivity.
Qed.

(* the array function acts on every root as the per-root bookkeeping function of GoalModel.v *)
Theorem modify_roots_pointwise : forall v track cls w sts i,
  clusters_wf (length sts) cls -> i < length sts ->
  nth i (modify_roots v track cls w sts) 0 =
  match cluster_of i cls with
  | Some c => modify_status v track (cn c) (nth i sts 0) (nth i w false)
  | None => retag track (nth i sts 0)
  end.
Proof.
  intros v track cls w sts i [ND WF] Hi. unfold modify_roots.
  rewrite fold_clusters_nth; [| exact ND | rewrite map_length; exact WF].
  rewrite nth_map0 by exact Hi. unfold root_write.
  destruct (cluster_of i cls); [symmetry; apply modify_status_split | reflexivity].
Qed.

Definition reset1 (s : nat) : nat := if Nat.eqb s ST_NEW_CLUSTERED then ST_CLUSTERED else s.

(* per root: (reset o modify) is idempotent *)
Lemma root_step_idem : forall v c within old,
  reset1 (cluster_write v true c within (retag true (reset1 (cluster_write v true c within (retag true old))))) =
  reset1 (cluster_write v true c within (retag true old)).
Proof.
  intros v c within old. unfold cluster_write.
  destruct (Nat.eqb (cn c) 1); destruct v, within;
    do 8 (destruct old as [|old]; [vm_compute; reflexivity|]); vm_compute; reflexivity.
Qed.

Lemma retag_reset_idem : forall old, reset1 (retag true (reset1 (retag true old))) = reset1 (retag true old).
Proof. intro old; do 8 (destruct old as [|old]; [vm_compute; reflexivity|]); vm_compute; reflexivity. Qed.

Definition modify_step (v : variant) (cls : list cluster) (w : list bool) (sts : list nat) : list nat :=
  reset_new (modify_roots v true cls w sts).

Lemma modify_step_length : forall v cls w sts, length (modify_step v cls w sts) = length sts.
Proof. intros; unfold modify_step, reset_new. rewrite map_length; apply modify_roots_length. Qed.

Lemma modify_step_nth : forall v cls w sts i, clusters_wf (length sts) cls -> i < length sts ->
  nth i (modify_step v cls w sts) 0 =
  reset1 (root_write v true cls (fun k => nth k w false) i (retag true (nth i sts 0))).
Proof.
  intros v cls w sts i [ND WF] Hi. unfold modify_step, reset_new.
  change (fun s : nat => if Nat.eqb s ST_NEW_CLUSTERED then ST_CLUSTERED else s) with reset1.
  rewrite nth_map0 by (rewrite modify_roots_length; exact Hi).
  unfold modify_roots. rewrite fold_clusters_nth; [| exact ND | rewrite map_length; exact WF].
  rewrite nth_map0 by exact Hi. reflexivity.
Qed.

(* mps_mmodify (s, true) + the reset loop, called again on unchanged clusters and radius tests, changes nothing *)
Theorem modify_step_idempotent : forall v cls w sts,
  clusters_wf (length sts) cls ->
  modify_step v cls w (modify_step v cls w sts) = modify_step v cls w sts.
Proof.
  intros v cls w sts WF.
  apply (nth_ext _ _ 0 0); [rewrite !modify_step_length; reflexivity|].
  intros i Hi. rewrite !modify_step_length in Hi.
  rewrite modify_step_nth; [| rewrite modify_step_length; exact WF | rewrite modify_step_length; exact Hi].
  rewrite (modify_step_nth v cls w sts i WF Hi).
  unfold root_write. destruct (cluster_of i cls) as [c|].
  - apply root_step_idem.
  - apply retag_reset_idem.
Qed.

(* ------------------------------------------------------------------ mps_improve *)
Local Open Scope Z_scope.

Fixpoint napprox (sts : list nat) : Z :=
  match sts with [] => 0 | s :: t => (if is_approximated s then 1 else 0) + napprox t end.

Lemma napprox_le : forall sts, 0 <= napprox sts <= Z.of_nat (length sts).
Proof. induction sts as [|s t IH]; simpl length; simpl napprox; [lia|]. destruct (is_approximated s); lia. Qed.

Lemma napprox_full : forall sts, napprox sts = Z.of_nat (length sts) -> forallb is_approximated sts = true.
Proof.
  induction sts as [|s t IH]; simpl length; simpl napprox; intro H; [reflexivity|].
  pose proof (napprox_le t). simpl. destruct (is_approximated s); [apply IH; lia | lia].
Qed.

Lemma napprox_cons : forall s t, napprox (s :: t) = (if is_approximated s then 1 else 0) + napprox t.
Proof. reflexivity. Qed.

Lemma mark_round_spec : forall sts bits c sts' c',
  mark_round sts bits c = (sts', c') ->
  length sts' = length sts /\ c' - c = napprox sts' - napprox sts /\
  (forall i, is_approximated (nth i sts 0%nat) = true -> nth i sts' 0%nat = nth i sts 0%nat).
Proof.
  induction sts as [|s t IH]; intros bits c sts' c' H; simpl in H.
  - inversion H; subst; simpl; repeat split; try lia.
  - destruct (negb (is_approximated s) && match bits with [] => false | b :: _ => b end) eqn:E.
    + destruct (mark_round t _ (c + 1)) as [t' c''] eqn:M. inversion H; subst.
      destruct (IH _ _ _ _ M) as [L [D K]]. apply andb_true_iff in E. destruct E as [E _].
      apply negb_true_iff in E. simpl length; rewrite !napprox_cons. rewrite E.
      change (is_approximated ST_APPROXIMATED) with true. cbv iota.
      repeat split; [lia | lia |]. intros [|i] Hi; simpl in *; [congruence | apply K; exact Hi].
    + destruct (mark_round t _ c) as [t' c''] eqn:M. inversion H; subst.
      destruct (IH _ _ _ _ M) as [L [D K]]. simpl length; rewrite !napprox_cons.
      repeat split; [lia | lia |]. intros [|i] Hi; simpl in *; [reflexivity | apply K; exact Hi].
Qed.

Lemma improve_loop_cons : forall n pprec bits rest sts count cp done,
  improve_loop n pprec (bits :: rest) sts count cp done =
  if count <? n then
    let (sts', count') := mark_round sts bits count in
    if (2 * cp >? pprec) && negb (pprec =? 0) then
      match rest with [] => Some (mkImp sts' true (S done) false) | _ => None end
    else improve_loop n pprec rest sts' count' (2 * cp) (S done)
  else None.
Proof. reflexivity. Qed.

Lemma improve_loop_normal : forall rounds n pprec sts count cp done io,
  improve_loop n pprec rounds sts count cp done = Some io ->
  count = napprox sts -> n = Z.of_nat (length sts) -> io_over io = false ->
  forallb is_approximated (io_sts io) = true /\ length (io_sts io) = length sts.
Proof.
  induction rounds as [|bits rest IH]; intros n pprec sts count cp done io H Hc Hn Hov;
    [simpl in H | rewrite improve_loop_cons in H].
  - destruct (count <? n) eqn:E; [discriminate|]. inversion H; subst io; simpl in *.
    apply Z.ltb_ge in E. pose proof (napprox_le sts). split; [apply napprox_full; lia | reflexivity].
  - destruct (count <? n) eqn:E; [|discriminate].
    destruct (mark_round sts bits count) as [sts' count'] eqn:M.
    destruct (mark_round_spec _ _ _ _ _ M) as [L [D _]].
    destruct ((2 * cp >? pprec) && negb (pprec =? 0)).
    + destruct rest; [|discriminate]. inversion H; subst io; simpl in Hov; discriminate.
    + destruct (IH _ _ _ _ _ _ _ H) as [A B]; [lia | lia | exact Hov |]. split; [exact A | lia].
Qed.

Lemma count0_napprox : forall rs, Forall (fun r => rinc r <> INC_OUT) rs -> count0 rs = napprox (map rst rs).
Proof.
  induction rs as [|r t IH]; intro H; simpl; [reflexivity|]. inversion H; subst.
  rewrite IH by assumption. destruct (Nat.eqb (rinc r) INC_OUT) eqn:E; [apply Nat.eqb_eq in E; contradiction|].
  rewrite orb_false_r. reflexivity.
Qed.

(* a refinement loop that ends normally (no over_max, not the early return) leaves every root approximated,
   provided no root is OUT of the search set (the whole plane: C02's quantifier) *)
Theorem improve_normal_all_approximated : forall nonewton user pprec cp0 rounds rs io,
  improve nonewton user pprec cp0 rounds rs = Some io ->
  Forall (fun r => rinc r <> INC_OUT) rs ->
  io_over io = false -> io_skipped io = false ->
  forallb is_approximated (io_sts io) = true /\ length (io_sts io) = length rs.
Proof.
  intros nonewton user pprec cp0 rounds rs io H HO Hov Hsk. unfold improve in H.
  destruct (nonewton && negb user).
  - destruct rounds; [|discriminate]. inversion H; subst io; simpl in Hsk; discriminate.
  - destruct (improve_loop_normal _ _ _ _ _ _ _ _ H) as [A B];
      [apply count0_napprox; exact HO | rewrite map_length; reflexivity | exact Hov |].
    rewrite map_length in B. split; assumption.
Qed.

(* ------------------------------------------------------------------ mps_standard_mpsolve *)
Definition how_computed (h : how) : bool :=
  match h with HFloatStop | HDpeStop | HApproxEarly | HLoopComputed => true | HOverMax | HSilent => false end.

(* invariant of the driver state: `computed` is the result of the last stop test on l_seen *)
Definition ls_inv (cfg : scfg) (st : lstate) : Prop :=
  (l_computed st = true -> check_stop (c_goal cfg) (c_mult cfg) (c_props cfg) (l_seen st) = true
                           /\ exists tl, l_stops st = true :: tl) /\
  (l_lastmod st = None -> l_roots st = l_seen st) /\
  (forall cls w, l_lastmod st = Some (cls, w) ->
      map rst (l_roots st) = modify_step VMp cls w (map rst (l_seen st)) /\ length (l_roots st) = length (l_seen st)).

Lemma zip_rt_rst : forall sts aux, length aux = length sts -> map rst (zip_rt sts aux) = sts.
Proof.
  induction sts as [|s t IH]; intros [|[i a] u] H; simpl in *; try discriminate; try reflexivity.
  f_equal; apply IH; lia.
Qed.

Lemma zip_rt_length : forall sts aux, length aux = length sts -> length (zip_rt sts aux) = length sts.
Proof. induction sts as [|s t IH]; intros [|[i a] u] H; simpl in *; try discriminate; try reflexivity. f_equal; apply IH; lia. Qed.

Lemma mp_loop_inv : forall cfg evs st st' rest,
  mp_loop cfg evs st = Some (st', rest) -> ls_inv cfg st -> ls_inv cfg st'.
Proof.
  intros cfg evs. remember (length evs) as k eqn:Hk. revert evs Hk.
  induction k as [k IH] using lt_wf_ind. intros evs Hk.
  intros st st' rest H I. destruct evs as [|e1 evs1]; simpl in H.
  - destruct (negb (l_computed st) && (l_mpwp st <? c_mpwp_max cfg)); [discriminate | inversion H; subst; exact I].
  - destruct (negb (l_computed st) && (l_mpwp st <? c_mpwp_max cfg)); [| inversion H; subst; exact I].
    destruct e1; try discriminate. destruct evs1 as [|e2 evs2]; [discriminate|]. destruct e2; try discriminate.
    destruct (Nat.eqb (length aux) (length rs)) eqn:EL; [|discriminate]. apply Nat.eqb_eq in EL.
    eapply (IH (length evs2)); [subst k; simpl; lia | reflexivity | exact H |].
    unfold ls_inv; simpl. split; [|split].
    + intro C; split; [exact C | rewrite C; eexists; reflexivity].
    + discriminate.
    + intros cls0 w0 E; inversion E; subst. unfold modify_step.
      assert (LL : length aux = length (reset_new (modify_roots VMp true cls0 w0 (map rst rs)))).
      { unfold reset_new; rewrite map_length, modify_roots_length, map_length; exact EL. }
      split; [apply zip_rt_rst; exact LL | rewrite zip_rt_length by exact LL].
      unfold reset_new; rewrite map_length, modify_roots_length, map_length; reflexivity.
Qed.

Lemma mp_loop_exit : forall cfg evs st st' rest,
  mp_loop cfg evs st = Some (st', rest) -> l_computed st' = true \/ c_mpwp_max cfg <= l_mpwp st'.
Proof.
  intros cfg evs. remember (length evs) as k eqn:Hk. revert evs Hk.
  induction k as [k IH] using lt_wf_ind. intros evs Hk.
  intros st st' rest H. destruct evs as [|e1 evs1]; simpl in H.
  - destruct (l_computed st) eqn:C; simpl in H.
    + inversion H; subst; left; exact C.
    + destruct (l_mpwp st <? c_mpwp_max cfg) eqn:E; [discriminate|]. inversion H; subst. right; apply Z.ltb_ge; exact E.
  - destruct (l_computed st) eqn:C; simpl in H.
    + inversion H; subst; left; exact C.
    + destruct (l_mpwp st <? c_mpwp_max cfg) eqn:E.
      * destruct e1; try discriminate. destruct evs1 as [|e2 evs2]; [discriminate|]. destruct e2; try discriminate.
        destruct (Nat.eqb (length aux) (length rs)); [|discriminate].
        eapply (IH (length evs2)); [subst k; simpl; lia | reflexivity | exact H].
      * inversion H; subst. right; apply Z.ltb_ge; exact E.
Qed.

(* what exit_sub returns, in terms of the state it is entered with *)
Lemma exit_sub_spec : forall cfg h st evs o,
  exit_sub cfg h st evs = Some o ->
  so_computed o = l_computed st /\ so_seen o = l_seen st /\ so_stops o = l_stops st /\ so_lastmod o = l_lastmod st /\
  (so_exit o = XDone h \/ so_exit o = XErrInclusion) /\
  (so_improve o = None -> so_roots o = l_roots st /\ so_over_max o = l_over st) /\
  (forall io, so_improve o = Some io ->
     l_computed st = true /\ l_over st = false /\ c_goal cfg = GApproximate /\ so_over_max o = io_over io /\
     (exists cp0 rounds, improve (negb (c_newton cfg)) (c_user cfg) (c_pprec cfg) cp0 rounds (l_roots st) = Some io) /\
     (length (io_sts io) = length (l_roots st) -> map rst (so_roots o) = io_sts io /\ map rinc (so_roots o) = map rinc (l_roots st))) /\
  (so_improve o = None -> so_exit o = XDone h -> c_goal cfg = GApproximate -> l_computed st = true -> l_over st = true).
Proof.
  intros cfg h st evs o H. unfold exit_sub in H.
  destruct evs as [|e rest]; [discriminate|]. destruct e; try discriminate.
  assert (A : forall rest0 o0, exit_improve cfg h st rest0 = Some o0 ->
     so_computed o0 = l_computed st /\ so_seen o0 = l_seen st /\ so_stops o0 = l_stops st /\ so_lastmod o0 = l_lastmod st /\
     (so_exit o0 = XDone h \/ so_exit o0 = XErrInclusion) /\
     (so_improve o0 = None -> so_roots o0 = l_roots st /\ so_over_max o0 = l_over st) /\
     (forall io, so_improve o0 = Some io ->
        l_computed st = true /\ l_over st = false /\ c_goal cfg = GApproximate /\ so_over_max o0 = io_over io /\
        (exists cp0 rounds, improve (negb (c_newton cfg)) (c_user cfg) (c_pprec cfg) cp0 rounds (l_roots st) = Some io) /\
        (length (io_sts io) = length (l_roots st) -> map rst (so_roots o0) = io_sts io /\ map rinc (so_roots o0) = map rinc (l_roots st))) /\
     (so_improve o0 = None -> so_exit o0 = XDone h -> c_goal cfg = GApproximate -> l_computed st = true -> l_over st = true)).
  { intros rest0 o0 H0. unfold exit_improve in H0.
    destruct (l_computed st && negb (l_over st) && match c_goal cfg with GApproximate => true | _ => false end) eqn:EC.
    - destruct rest0 as [|e0 r1]; [discriminate|]. destruct e0; try discriminate. destruct r1; [|discriminate].
      destruct (improve _ _ _ cp0 rounds (l_roots st)) as [io|] eqn:EI; [|discriminate].
      inversion H0; subst o0; simpl.
      apply andb_true_iff in EC; destruct EC as [EC G]. apply andb_true_iff in EC; destruct EC as [C O].
      apply negb_true_iff in O. destruct (c_goal cfg) eqn:EG; try discriminate.
      do 4 (split; [reflexivity|]). split; [left; reflexivity|]. split; [discriminate|]. split; [|discriminate].
      intros io0 E; inversion E; subst io0. rewrite O. simpl.
      split; [exact C|]. split; [reflexivity|]. split; [reflexivity|]. split; [reflexivity|].
      split; [exists cp0, rounds; exact EI|].
      intro LE. split.
      + apply zip_rt_rst. rewrite map_length. symmetry; exact LE.
      + clear - LE. revert LE. generalize (io_sts io) as l. generalize (l_roots st) as rs.
        induction rs as [|r t IH]; intros [|s l] H; simpl in *; try discriminate; try reflexivity.
        f_equal; apply IH; lia.
    - destruct rest0; [|discriminate]. inversion H0; subst o0; simpl.
      do 4 (split; [reflexivity|]). split; [left; reflexivity|]. split; [intros _; split; reflexivity|]. split; [discriminate|].
      intros _ _ G C. rewrite G, C in EC. simpl in EC. rewrite andb_true_r in EC. apply negb_false_iff in EC. exact EC. }
  destruct (l_computed st && Nat.ltb nclusters (length (l_roots st))).
  - destruct rest as [|e rest']; [discriminate|]. destruct e; try discriminate.
    destruct ok; [apply (A rest'); exact H|].
    destruct rest'; [|discriminate]. inversion H; subst o; simpl.
    do 4 (split; [reflexivity|]). split; [right; reflexivity|]. split; [intros _; split; reflexivity|]. split; discriminate.
  - apply (A rest); exact H.
Qed.

(* ------------------------------------------------------------------ what every outcome of the driver satisfies *)
Definition seen_rel (roots seen : list rt) (lastmod : option (list cluster * list bool)) : Prop :=
  (lastmod = None -> roots = seen) /\
  (forall cls w, lastmod = Some (cls, w) ->
     map rst roots = modify_step VMp cls w (map rst seen) /\ length roots = length seen).

Definition OutInv (cfg : scfg) (o : sout) : Prop :=
  (forall h, so_exit o = XDone h -> so_computed o = how_computed h) /\
  (so_computed o = true ->
     check_stop (c_goal cfg) (c_mult cfg) (c_props cfg) (so_seen o) = true /\ exists tl, so_stops o = true :: tl) /\
  (so_improve o = None -> seen_rel (so_roots o) (so_seen o) (so_lastmod o)) /\
  (forall io, so_improve o = Some io ->
     c_goal cfg = GApproximate /\ so_computed o = true /\ so_over_max o = io_over io /\
     exists cp0 rounds rs,
       improve (negb (c_newton cfg)) (c_user cfg) (c_pprec cfg) cp0 rounds rs = Some io /\
       seen_rel rs (so_seen o) (so_lastmod o) /\
       (length (io_sts io) = length rs -> map rst (so_roots o) = io_sts io /\ map rinc (so_roots o) = map rinc rs)) /\
  (so_exit o = XDone HSilent -> c_fixed cfg = true -> so_over_max o = true) /\
  (so_exit o = XDone HOverMax -> so_over_max o = true) /\
  (forall h, so_exit o = XDone h -> c_goal cfg = GApproximate -> so_computed o = true -> so_over_max o = false ->
     so_improve o <> None).

Lemma exit_sub_Q : forall cfg h st evs o,
  exit_sub cfg h st evs = Some o -> ls_inv cfg st -> how_computed h = l_computed st ->
  (h = HSilent -> c_fixed cfg = true -> l_over st = true) -> (h = HOverMax -> l_over st = true) -> OutInv cfg o.
Proof.
  intros cfg h st evs o H [I1 [I2 I3]] HC HS HO.
  destruct (exit_sub_spec _ _ _ _ _ H) as [S1 [S2 [S3 [S4 [S5 [S6 [S7 S8]]]]]]].
  assert (SR : seen_rel (l_roots st) (so_seen o) (so_lastmod o)).
  { rewrite S2, S4. split; [exact I2 | exact I3]. }
  unfold OutInv. split; [|split; [|split; [|split; [|split; [|split]]]]].
  - intros h0 E. destruct S5 as [S5|S5]; rewrite S5 in E; inversion E; subst. rewrite S1; symmetry; exact HC.
  - rewrite S1, S2, S3. exact I1.
  - intro N. destruct (S6 N) as [R _]. rewrite R. exact SR.
  - intros io E. destruct (S7 io E) as [A [B [G [V [[cp0 [rounds EI]] L]]]]].
    split; [exact G|]. split; [rewrite S1; exact A|]. split; [exact V|].
    exists cp0, rounds, (l_roots st). split; [exact EI|]. split; [exact SR | exact L].
  - intros E F. destruct S5 as [S5|S5]; rewrite S5 in E; inversion E; subst.
    destruct (so_improve o) as [io|] eqn:EI.
    + destruct (S7 io eq_refl) as [A _]. rewrite <- HC in A. discriminate.
    + destruct (S6 eq_refl) as [_ R]. rewrite R. apply HS; [reflexivity | exact F].
  - intros E. destruct S5 as [S5|S5]; rewrite S5 in E; inversion E; subst.
    destruct (so_improve o) as [io|] eqn:EI.
    + destruct (S7 io eq_refl) as [A _]. rewrite <- HC in A. discriminate.
    + destruct (S6 eq_refl) as [_ R]. rewrite R. apply HO; reflexivity.
  - intros h0 E G C V N. destruct S5 as [S5|S5]; rewrite S5 in E; inversion E; subst.
    destruct (S6 N) as [_ R]. rewrite S1 in C. rewrite (S8 N S5 G C) in R. congruence.
Qed.

Lemma err_out_Q : forall cfg x o, (forall h, x <> XDone h) -> err_out x = Some o -> OutInv cfg o.
Proof.
  intros cfg x o Hx H. inversion H; subst o; unfold OutInv; simpl.
  split; [intros h E; exfalso; apply (Hx h); exact E|].
  split; [discriminate|]. split; [intros _; split; [reflexivity | discriminate]|].
  split; [discriminate|]. split; [intro E; exfalso; apply (Hx HSilent); exact E|].
  split; [intro E; exfalso; apply (Hx HOverMax); exact E|].
  intros h E; exfalso; apply (Hx h); exact E.
Qed.

Lemma mp_part_Q : forall cfg st evs o, mp_part cfg st evs = Some o -> ls_inv cfg st -> OutInv cfg o.
Proof.
  intros cfg st evs o H I. unfold mp_part in H.
  destruct (l_computed st && is_approx_goal (c_goal cfg)) eqn:E.
  - apply andb_true_iff in E; destruct E as [C _].
    eapply exit_sub_Q; [exact H | | simpl; symmetry; exact C | discriminate | discriminate].
    destruct I as [I1 [I2 I3]]; split; [|split]; simpl; assumption.
  - destruct (mp_loop cfg evs _) as [[st1 rest]|] eqn:EL; [|discriminate].
    assert (I1 : ls_inv cfg st1).
    { eapply mp_loop_inv; [exact EL|]. destruct I as [J1 [J2 J3]]; split; [|split]; simpl; assumption. }
    destruct (l_computed st1) eqn:C.
    + eapply exit_sub_Q; [exact H | exact I1 | simpl; symmetry; exact C | discriminate | discriminate].
    + destruct (l_over st1) eqn:O.
      * eapply exit_sub_Q; [exact H | exact I1 | simpl; symmetry; exact C | discriminate | intros _; exact O].
      * destruct (c_fixed cfg) eqn:F.
        -- eapply exit_sub_Q; [exact H | | simpl; reflexivity | intros _ _; reflexivity | discriminate].
           destruct I1 as [J1 [J2 J3]]; split; [|split]; simpl; [discriminate | exact J2 | exact J3].
        -- eapply exit_sub_Q; [exact H | exact I1 | simpl; symmetry; exact C | intros _ F'; rewrite F in F'; discriminate | discriminate].
Qed.

Lemma stop_state_inv : forall cfg rs over mpwp stops,
  ls_inv cfg (mkLs (check_stop (c_goal cfg) (c_mult cfg) (c_props cfg) rs) over mpwp rs
                   (check_stop (c_goal cfg) (c_mult cfg) (c_props cfg) rs :: stops) rs None).
Proof.
  intros. split; [|split]; simpl.
  - intro C; split; [exact C | rewrite C; eexists; reflexivity].
  - reflexivity.
  - discriminate.
Qed.

Lemma dpe_part_Q : forall cfg need st evs o,
  dpe_part cfg need st evs = Some o -> ls_inv cfg st -> l_lastmod st = None -> OutInv cfg o.
Proof.
  intros cfg need st evs o H I LM. unfold dpe_part in H. destruct need.
  - destruct evs as [|e rest]; [discriminate|]. destruct e; try discriminate. rewrite LM in H.
    destruct (check_stop (c_goal cfg) (c_mult cfg) (c_props cfg) rs && negb (is_approx_goal (c_goal cfg))) eqn:E.
    + apply andb_true_iff in E; destruct E as [C _].
      eapply exit_sub_Q; [exact H | apply stop_state_inv | simpl; symmetry; exact C | discriminate | discriminate].
    + eapply mp_part_Q; [exact H | apply stop_state_inv].
  - eapply mp_part_Q; eassumption.
Qed.

Theorem std_run_Q : forall cfg evs o, std_run cfg evs = Some o -> OutInv cfg o.
Proof.
  intros cfg evs o H. unfold std_run in H.
  destruct (c_resume cfg).
  { destruct evs; [|discriminate]. eapply err_out_Q; [|exact H]. discriminate. }
  destruct (negb (c_newton cfg)).
  { destruct evs; [|discriminate]. eapply err_out_Q; [|exact H]. discriminate. }
  destruct evs as [|e rest]; [discriminate|]. destruct e; try discriminate.
  destruct err.
  { destruct rest; [|discriminate]. eapply err_out_Q; [|exact H]. discriminate. }
  destruct (negb which_d).
  - destruct rest as [|e rest']; [discriminate|]. destruct e; try discriminate.
    destruct (check_stop (c_goal cfg) (c_mult cfg) (c_props cfg) rs && negb (is_approx_goal (c_goal cfg))) eqn:E.
    + apply andb_true_iff in E; destruct E as [C _].
      eapply exit_sub_Q; [exact H | apply (stop_state_inv cfg rs false 0 []) | simpl; symmetry; exact C | discriminate | discriminate].
    + eapply dpe_part_Q; [exact H | apply (stop_state_inv cfg rs false 0 []) | reflexivity].
  - eapply dpe_part_Q; [exact H | | reflexivity].
    split; [|split]; simpl; [discriminate | reflexivity | discriminate].
Qed.

Lemma std_run_newton : forall cfg evs o h, std_run cfg evs = Some o -> so_exit o = XDone h -> c_newton cfg = true.
Proof.
  intros cfg evs o h H E. unfold std_run in H.
  destruct (c_resume cfg). { destruct evs; [|discriminate]. inversion H; subst; discriminate. }
  destruct (c_newton cfg); [reflexivity|]. simpl in H. destruct evs; [|discriminate]. inversion H; subst; discriminate.
Qed.

(* ---- the isolate clause *)
Theorem std_isolate : forall cfg evs o h,
  std_run cfg evs = Some o -> so_exit o = XDone h -> c_goal cfg = GIsolate ->
  so_over_max o = false -> (h <> HSilent \/ c_fixed cfg = true) ->
  all_computed (so_seen o) /\ (exists tl, so_stops o = true :: tl) /\ so_improve o = None /\
  seen_rel (so_roots o) (so_seen o) (so_lastmod o).
Proof.
  intros cfg evs o h H E G V HS.
  destruct (std_run_Q _ _ _ H) as [Q1 [Q2 [Q3 [Q4 [Q5 [Q6 Q7]]]]]].
  assert (C : so_computed o = true).
  { rewrite (Q1 h E). destruct h; try reflexivity.
    - rewrite (Q6 E) in V; discriminate.
    - destruct HS as [HS|HS]; [congruence | rewrite (Q5 E HS) in V; discriminate]. }
  destruct (Q2 C) as [S T].
  assert (N : so_improve o = None).
  { destruct (so_improve o) as [io|] eqn:EI; [|reflexivity]. destruct (Q4 io eq_refl) as [G' _]. congruence. }
  split; [eapply check_stop_true_computed; [|exact S]; rewrite G; discriminate|].
  split; [exact T|]. split; [exact N | exact (Q3 N)].
Qed.

(* the driver's extra mps_mmodify on the operands msolve's last mps_mmodify had: same statuses *)
Corollary std_isolate_returns_seen : forall cfg evs o h,
  std_run cfg evs = Some o -> so_exit o = XDone h -> c_goal cfg = GIsolate ->
  so_over_max o = false -> (h <> HSilent \/ c_fixed cfg = true) ->
  (forall cls w, so_lastmod o = Some (cls, w) ->
     clusters_wf (length (so_seen o)) cls /\ exists s0, length s0 = length (so_seen o) /\ map rst (so_seen o) = modify_step VMp cls w s0) ->
  map rst (so_roots o) = map rst (so_seen o) /\ all_computed (so_seen o).
Proof.
  intros cfg evs o h H E G V HS HM.
  destruct (std_isolate _ _ _ _ H E G V HS) as [A [_ [_ [R1 R2]]]]. split; [|exact A].
  destruct (so_lastmod o) as [[cls w]|] eqn:EL.
  - destruct (R2 cls w eq_refl) as [R _]. destruct (HM cls w eq_refl) as [WF [s0 [L0 F]]].
    rewrite R, F. apply modify_step_idempotent. rewrite L0; exact WF.
  - rewrite (R1 eq_refl). reflexivity.
Qed.

Lemma improve_loop_not_skipped : forall rounds n pprec sts count cp done io,
  improve_loop n pprec rounds sts count cp done = Some io -> io_skipped io = false.
Proof.
  induction rounds as [|bits rest IH]; intros n pprec sts count cp done io H;
    [simpl in H | rewrite improve_loop_cons in H].
  - destruct (count <? n); [discriminate|]. inversion H; reflexivity.
  - destruct (count <? n); [|discriminate]. destruct (mark_round sts bits count) as [sts' count'].
    destruct ((2 * cp >? pprec) && negb (pprec =? 0)).
    + destruct rest; [|discriminate]. inversion H; reflexivity.
    + eapply IH; exact H.
Qed.

Lemma improve_loop_length : forall rounds n pprec sts count cp done io,
  improve_loop n pprec rounds sts count cp done = Some io -> length (io_sts io) = length sts.
Proof.
  induction rounds as [|bits rest IH]; intros n pprec sts1 count cp done io1 H;
    [simpl in H | rewrite improve_loop_cons in H].
  - destruct (count <? n); [discriminate|]. inversion H; reflexivity.
  - destruct (count <? n); [|discriminate]. destruct (mark_round sts1 bits count) as [sts' count'] eqn:M.
    destruct (mark_round_spec _ _ _ _ _ M) as [L _].
    destruct ((2 * cp >? pprec) && negb (pprec =? 0)).
    + destruct rest; [|discriminate]. inversion H; simpl; exact L.
    + rewrite (IH _ _ _ _ _ _ _ H); exact L.
Qed.

Lemma improve_length : forall nonewton user pprec cp0 rounds rs io,
  improve nonewton user pprec cp0 rounds rs = Some io -> length (io_sts io) = length rs.
Proof.
  intros nonewton user pprec cp0 rounds rs io H. unfold improve in H. destruct (nonewton && negb user).
  - destruct rounds; [|discriminate]. inversion H; simpl. apply map_length.
  - rewrite (improve_loop_length _ _ _ _ _ _ _ _ H). apply map_length.
Qed.

Lemma Forall_map_rinc : forall (P : nat -> Prop) a b,
  map rinc a = map rinc b -> Forall (fun r => P (rinc r)) a -> Forall (fun r => P (rinc r)) b.
Proof.
  intros P a; induction a as [|x t IH]; intros [|y u] E F; simpl in *; try discriminate; constructor.
  - inversion E as [[E1 E2]]; inversion F; subst. cbv beta in *. first [assumption | rewrite <- E1; assumption | rewrite E1; assumption].
  - inversion E as [[E1 E2]]; inversion F; subst. apply IH; assumption.
Qed.

(* ---- the approximate clause *)
Theorem std_approximate : forall cfg evs o h,
  std_run cfg evs = Some o -> so_exit o = XDone h -> c_goal cfg = GApproximate ->
  so_over_max o = false -> (h <> HSilent \/ c_fixed cfg = true) ->
  Forall (fun r => rinc r <> INC_OUT) (so_roots o) ->
  all_computed (so_seen o) /\ forallb is_approximated (map rst (so_roots o)) = true.
Proof.
  intros cfg evs o h H E G V HS HO.
  destruct (std_run_Q _ _ _ H) as [Q1 [Q2 [Q3 [Q4 [Q5 [Q6 Q7]]]]]].
  assert (C : so_computed o = true).
  { rewrite (Q1 h E). destruct h; try reflexivity.
    - rewrite (Q6 E) in V; discriminate.
    - destruct HS as [HS|HS]; [congruence | rewrite (Q5 E HS) in V; discriminate]. }
  destruct (Q2 C) as [S _].
  split; [eapply check_stop_true_computed; [|exact S]; rewrite G; discriminate|].
  destruct (so_improve o) as [io|] eqn:EI; [| exfalso; exact (Q7 h E G C V eq_refl)].
  destruct (Q4 io eq_refl) as [_ [_ [VO [cp0 [rounds [rs [EIm [_ L]]]]]]]].
  rewrite (std_run_newton _ _ _ _ H E) in EIm. simpl in EIm.
  destruct (L (improve_length _ _ _ _ _ _ _ EIm)) as [L1 L2].
  assert (SK : io_skipped io = false).
  { unfold improve in EIm. simpl in EIm. eapply improve_loop_not_skipped; exact EIm. }
  assert (HO' : Forall (fun r => rinc r <> INC_OUT) rs).
  { apply (Forall_map_rinc (fun i => i <> INC_OUT) (so_roots o) rs L2 HO). }
  rewrite VO in V.
  destruct (improve_normal_all_approximated _ _ _ _ _ _ _ EIm HO' V SK) as [A _].
  rewrite L1. exact A.
Qed.

(* ---- the silent exit: mpwp_max inside a gap of the precision sequence *)
Definition silent_cfg : scfg := mkScfg GIsolate false false false true false 150 64 0 false false.
Definition silent_roots : list rt := [mkRt ST_CLUSTERED INC_IN true; mkRt ST_CLUSTERED INC_IN true; mkRt ST_ISOLATED INC_IN true].
Definition silent_events : list sev :=
  [SvCheckData false false; SvFSolve false silent_roots; SvMSolve silent_roots;
   SvMModify [mkCl 2 [0; 1]; mkCl 1 [2]]%nat [false; false; false] [(INC_IN, true); (INC_IN, true); (INC_IN, true)];
   SvExitSub 2%nat].

Theorem std_silent_cap_refuted : exists cfg evs o,
  c_fixed cfg = false /\ c_goal cfg = GIsolate /\ std_run cfg evs = Some o /\
  so_exit o = XDone HSilent /\ so_over_max o = false /\ so_mpwp o = 192 /\
  exists r, In r (so_roots o) /\ rst r = ST_CLUSTERED /\ rinc r = INC_IN.
Proof.
  exists silent_cfg, silent_events.
  eexists. split; [reflexivity|]. split; [reflexivity|]. split; [vm_compute; reflexivity|].
  simpl. split; [reflexivity|]. split; [reflexivity|]. split; [reflexivity|].
  eexists; split; [left; reflexivity|]. split; reflexivity.
Qed.

(* with the repair (over_max recorded in that branch) every normal return without over_max has a true stop test *)
Theorem std_fixed_not_silent : forall cfg evs o h,
  c_fixed cfg = true -> std_run cfg evs = Some o -> so_exit o = XDone h -> so_over_max o = false ->
  so_computed o = true /\ all_computed (so_seen o) \/ c_goal cfg = GCount.
Proof.
  intros cfg evs o h F H E V.
  destruct (std_run_Q _ _ _ H) as [Q1 [Q2 [Q3 [Q4 [Q5 [Q6 Q7]]]]]].
  assert (C : so_computed o = true).
  { rewrite (Q1 h E). destruct h; try reflexivity.
    - rewrite (Q6 E) in V; discriminate.
    - rewrite (Q5 E F) in V; discriminate. }
  destruct (Q2 C) as [S _].
  destruct (c_goal cfg) eqn:G; [left | left | right; reflexivity]; (split; [exact C|]);
    (eapply check_stop_true_computed; [|exact S]); discriminate.
Qed.

(* the precision sequence 64 (2^k - 1) of the default configuration never lands in a gap below 10^8 *)
Definition default_cap : Z := 100000000.
Definition prec_seq : list Z :=
  [64; 192; 448; 960; 1984; 4032; 8128; 16320; 32704; 65472; 131008; 262080; 524224; 1048512; 2097088; 4194240;
   8388544; 16777152; 33554368; 67108800].

Definition seq_step_ok (m : Z) : bool :=
  (2 * m >? default_cap) ||
  (existsb (Z.eqb (set_prec 64 (2 * m))) prec_seq && (set_prec 64 (2 * m) <? default_cap)).

Lemma prec_seq_closed : forallb seq_step_ok prec_seq = true.
Proof. vm_compute; reflexivity. Qed.

Lemma In_prec_seq_b : forall x, existsb (Z.eqb x) prec_seq = true -> In x prec_seq.
Proof. intros x H. apply existsb_exists in H. destruct H as [y [Hy E]]. apply Z.eqb_eq in E. subst; exact Hy. Qed.

Lemma seq_step : forall m, In m prec_seq -> (2 * m >? default_cap) = false ->
  In (set_prec 64 (2 * m)) prec_seq /\ set_prec 64 (2 * m) < default_cap.
Proof.
  intros m Hin. unfold prec_seq in Hin. simpl in Hin.
  repeat (destruct Hin as [<-|Hin];
          [intro E; vm_compute in E;
           first [discriminate E | split; [apply In_prec_seq_b; vm_compute; reflexivity | vm_compute; reflexivity]] |]).
  contradiction.
Qed.

Definition cap_inv (st : lstate) : Prop := l_over st = true \/ (In (l_mpwp st) prec_seq /\ l_mpwp st < default_cap).

Lemma mp_loop_cap_inv : forall cfg evs st st' rest,
  c_mpwp_max cfg = default_cap -> c_minprec cfg = 64 ->
  mp_loop cfg evs st = Some (st', rest) -> cap_inv st -> cap_inv st'.
Proof.
  intros cfg evs. remember (length evs) as k eqn:Hk. revert evs Hk.
  induction k as [k IH] using lt_wf_ind. intros evs Hk st st' rest HM HP H I.
  destruct evs as [|e1 evs1].
  - simpl in H. destruct (negb (l_computed st) && (l_mpwp st <? c_mpwp_max cfg)); [discriminate | inversion H; subst; exact I].
  - simpl in H. destruct (negb (l_computed st) && (l_mpwp st <? c_mpwp_max cfg)); [| inversion H; subst; exact I].
    destruct e1; try discriminate. destruct evs1 as [|e2 evs2]; [discriminate|]. destruct e2; try discriminate.
    destruct (Nat.eqb (length aux) (length rs)); [|discriminate].
    eapply (IH (length evs2)); [subst k; simpl; lia | reflexivity | exact HM | exact HP | exact H |].
    unfold cap_inv; simpl. rewrite HM, HP.
    change (match l_mpwp st with 0 => 0 | Z.pos y' => Z.pos y'~0 | Z.neg y' => Z.neg y'~0 end) with (2 * l_mpwp st).
    destruct I as [I|[I1 I2]].
    + left. rewrite I. destruct (2 * l_mpwp st >? default_cap); reflexivity.
    + destruct (2 * l_mpwp st >? default_cap) eqn:E; [left; reflexivity|].
      right. apply seq_step; assumption.
Qed.

Theorem std_default_cap_not_silent : forall cfg evs o,
  c_mpwp_max cfg = default_cap -> c_minprec cfg = 64 -> std_run cfg evs = Some o -> so_exit o <> XDone HSilent.
Proof.
  intros cfg evs o HM HP H E.
  (* a silent exit comes from mp_part with a loop that ended not computed and without over_max *)
  assert (MP : forall st evs0 o0, mp_part cfg st evs0 = Some o0 -> so_exit o0 = XDone HSilent -> l_over st = false -> False).
  { intros st evs0 o0 H0 E0 OV. unfold mp_part in H0.
    destruct (l_computed st && is_approx_goal (c_goal cfg)).
    - destruct (exit_sub_spec _ _ _ _ _ H0) as [_ [_ [_ [_ [[S|S] _]]]]]; rewrite S in E0; discriminate.
    - destruct (mp_loop cfg evs0 _) as [[st1 rest]|] eqn:EL; [|discriminate].
      assert (CI : cap_inv st1).
      { eapply mp_loop_cap_inv; [exact HM | exact HP | exact EL |]. right; simpl. rewrite HP.
        split; [vm_compute; left; reflexivity | vm_compute; reflexivity]. }
      destruct (mp_loop_exit _ _ _ _ _ EL) as [C|C].
      + rewrite C in H0. destruct (exit_sub_spec _ _ _ _ _ H0) as [_ [_ [_ [_ [[S|S] _]]]]]; rewrite S in E0; discriminate.
      + destruct (l_computed st1).
        * destruct (exit_sub_spec _ _ _ _ _ H0) as [_ [_ [_ [_ [[S|S] _]]]]]; rewrite S in E0; discriminate.
        * destruct (l_over st1) eqn:O.
          -- destruct (exit_sub_spec _ _ _ _ _ H0) as [_ [_ [_ [_ [[S|S] _]]]]]; rewrite S in E0; discriminate.
          -- destruct CI as [CI|[_ CI]]; [congruence | rewrite HM in C; lia]. }
  assert (EX : forall h st evs0 o0, h <> HSilent -> exit_sub cfg h st evs0 = Some o0 -> so_exit o0 = XDone HSilent -> False).
  { intros h st evs0 o0 Hh H0 E0. destruct (exit_sub_spec _ _ _ _ _ H0) as [_ [_ [_ [_ [[S|S] _]]]]]; rewrite S in E0; [inversion E0; congruence | discriminate]. }
  assert (DP : forall need st evs0 o0, dpe_part cfg need st evs0 = Some o0 -> so_exit o0 = XDone HSilent -> l_over st = false -> False).
  { intros need st evs0 o0 H0 E0 OV. unfold dpe_part in H0. destruct need; [|eapply MP; eassumption].
    destruct evs0 as [|e r]; [discriminate|]. destruct e; try discriminate.
    destruct (_ && _); [eapply (EX HDpeStop); [discriminate | exact H0 | exact E0] | eapply MP; [exact H0 | exact E0 | exact OV]]. }
  unfold std_run in H.
  destruct (c_resume cfg). { destruct evs; [|discriminate]. inversion H; subst; discriminate. }
  destruct (negb (c_newton cfg)). { destruct evs; [|discriminate]. inversion H; subst; discriminate. }
  destruct evs as [|e rest]; [discriminate|]. destruct e; try discriminate.
  destruct err. { destruct rest; [|discriminate]. inversion H; subst; discriminate. }
  destruct (negb which_d).
  - destruct rest as [|e rest']; [discriminate|]. destruct e; try discriminate.
    destruct (_ && _); [eapply (EX HFloatStop); [discriminate | exact H | exact E] | eapply DP; [exact H | exact E | reflexivity]].
  - eapply DP; [exact H | exact E | reflexivity].
Qed.

(* ------------------------------------------------------------------ mps_secular_ga_mpsolve *)
Definition why_ok (cfg : gcfg) (w : gwhy) : Prop :=
  match w with
  | WErrors => False
  | WCrude => g_crude cfg = true
  | WAvoidMp => g_avoid_mp cfg = true
  | WStop ex ph sts => sec_check_stop ex ph sts = true /\ ph <> NoPhase
  end.

Definition gout_ok (cfg : gcfg) (o : gout) : Prop :=
  match go_exit o with
  | GDone w _ => why_ok cfg w
  | GExitAfterCopy w => why_ok cfg w
  | _ => True
  end /\
  (forall w io, go_exit o = GDone w (Some io) ->
     exists cp0 rounds, improve (g_nonewton cfg) (g_user cfg) (g_pprec cfg) cp0 rounds (go_from o) = Some io /\
                        go_final o = Some (io_sts io)).

Ltac brk H :=
  repeat match type of H with
  | (match ?x with _ => _ end) = Some _ => let E := fresh "E" in destruct x eqn:E; try discriminate H
  | (if ?x then _ else _) = Some _ => let E := fresh "E" in destruct x eqn:E; try discriminate H
  end.

Lemma sec_cleanup_ok : forall cfg w ph evs o,
  sec_cleanup cfg w ph evs = Some o -> (w = WErrors \/ why_ok cfg w) -> gout_ok cfg o.
Proof.
  intros cfg w ph evs o H W. unfold sec_cleanup in H.
  destruct evs as [|e rest]; [discriminate|]. destruct e; try discriminate.
  destruct b.
  - destruct rest; [|discriminate]. inversion H; subst; split; [exact I | discriminate].
  - destruct W as [W|W]; [subst w; discriminate|].
    destruct w; try discriminate; brk H; inversion H; subst; (split; [exact W|]); simpl; try discriminate;
      intros w0 io0 EQ; inversion EQ; subst; eexists; eexists; (split; [eassumption | reflexivity]).
Qed.

Lemma err_return_ok : forall cfg ph evs o, err_return ph evs = Some o -> gout_ok cfg o.
Proof. intros cfg ph evs o H. unfold err_return in H. destruct evs; [|discriminate]. inversion H; subst; split; [exact I | discriminate]. Qed.

Lemma sec_loop_ok : forall cfg fuel ph jr packet evs o,
  ph <> NoPhase -> sec_loop fuel cfg ph jr packet evs = Some o -> gout_ok cfg o.
Proof.
  intros cfg fuel; induction fuel as [|fuel IH]; intros ph jr packet evs o Hp H; [discriminate|].
  cbn [sec_loop] in H.
  assert (MP : MpPhase <> NoPhase) by discriminate.
  brk H;
    try (eapply err_return_ok; exact H);
    try (eapply IH; [|exact H]; first [exact Hp | exact MP | (destruct (is_mp ph); [exact Hp | exact MP])]);
    try (eapply sec_cleanup_ok; [exact H | right; simpl; first [assumption | (split; [assumption | first [exact Hp | exact MP | (destruct (is_mp ph); [exact Hp | exact MP])]])]]).
Qed.

Lemma sec_main_ok : forall cfg ph jr evs o, ph <> NoPhase -> sec_main cfg ph jr evs = Some o -> gout_ok cfg o.
Proof.
  intros cfg ph jr evs o Hp H. unfold sec_main in H.
  brk H; try (eapply err_return_ok; exact H);
    try (eapply sec_cleanup_ok; [exact H | left; reflexivity]);
    try (eapply sec_loop_ok; [exact Hp | exact H]).
Qed.

Ltac phne := repeat match goal with |- context [if ?b then _ else _] => destruct b end; first [assumption | discriminate].

Lemma sec_prelim_ok : forall cfg fuel ph evs o, sec_prelim fuel cfg ph evs = Some o -> gout_ok cfg o.
Proof.
  intros cfg fuel; induction fuel as [|fuel IH]; intros ph evs o H; [discriminate|].
  cbn [sec_prelim] in H.
  assert (FP : FloatPhase <> NoPhase) by discriminate.
  assert (DP : DpePhase <> NoPhase) by discriminate.
  brk H;
    try (eapply err_return_ok; exact H);
    try (eapply IH; exact H);
    try (eapply sec_main_ok; [|exact H]; phne);
    try (eapply sec_cleanup_ok; [exact H | first [left; reflexivity | right; simpl; first [assumption | split; [assumption | phne]]]]).
Qed.

(* the secular driver passes `cleanup:` and copies roots only in crude mode, in avoid-multiprecision mode (after an
   iteration reported best_approx), or after a stop test that returned true in a phase that is set *)
Theorem sec_run_cleanup_reasons : forall cfg evs o, sec_run cfg evs = Some o -> gout_ok cfg o.
Proof.
  intros cfg evs o H. unfold sec_run in H.
  assert (FP : FloatPhase <> NoPhase) by discriminate.
  brk H; try (eapply err_return_ok; exact H); try (eapply sec_prelim_ok; exact H);
    try (eapply sec_main_ok; [exact FP | exact H]).
Qed.

Theorem sec_run_stop_computed : forall cfg evs o w imp,
  sec_run cfg evs = Some o -> go_exit o = GDone w imp ->
  match w with
  | WStop ex ph sts => ex = false -> forallb is_computed sts = true
  | WCrude => g_crude cfg = true
  | WAvoidMp => g_avoid_mp cfg = true
  | WErrors => False
  end.
Proof.
  intros cfg evs o w imp H E. destruct (sec_run_cleanup_reasons _ _ _ H) as [K _]. rewrite E in K.
  destruct w; simpl in K; try exact K. destruct K as [K1 K2]. intro X; subst.
  eapply sec_check_stop_true_computed; eassumption.
Qed.

(* approximate goal: mps_improve runs last; when it is not skipped, ends normally, and no root is OUT, all are approximated *)
Theorem sec_run_approximate : forall cfg evs o w io,
  sec_run cfg evs = Some o -> go_exit o = GDone w (Some io) ->
  io_over io = false -> io_skipped io = false -> Forall (fun r => rinc r <> INC_OUT) (go_from o) ->
  exists sts, go_final o = Some sts /\ forallb is_approximated sts = true /\ length sts = length (go_from o).
Proof.
  intros cfg evs o w io H E V SK HO. destruct (sec_run_cleanup_reasons _ _ _ H) as [_ K].
  destruct (K w io E) as [cp0 [rounds [EI EF]]].
  destruct (improve_normal_all_approximated _ _ _ _ _ _ _ EI HO V SK) as [A B].
  exists (io_sts io). split; [exact EF | split; assumption].
Qed.

(* REFUTED (model level; replayed on the real solver: Chebyshev input, approximate goal): a normal end of the secular
   driver under the approximate goal with an ISOLATED, not approximated, root and no over_max: mps_improve returned at once *)
Definition cheb_cfg : gcfg := mkGcfg GApproximate false NoPhase false false 100000 0 true false.
Definition cheb_events : list gev :=
  [GvCheckData true false; GvStart false; GvFpe false; GvErr false; GvStop false [ST_ISOLATED; ST_ISOLATED];
   GvErr false; GvExitReq false; GvImprove 64 [] [mkRt ST_ISOLATED INC_IN true; mkRt ST_ISOLATED INC_IN true]].

Theorem sec_approximate_without_mnewton_refuted : exists cfg evs o io,
  g_goal cfg = GApproximate /\ sec_run cfg evs = Some o /\
  go_exit o = GDone (WStop false FloatPhase [ST_ISOLATED; ST_ISOLATED]) (Some io) /\
  io_over io = false /\ io_skipped io = true /\ go_final o = Some [ST_ISOLATED; ST_ISOLATED] /\
  Forall (fun r => rinc r <> INC_OUT) (go_from o).
Proof.
  exists cheb_cfg, cheb_events. eexists. eexists. split; [reflexivity|]. split; [vm_compute; reflexivity|].
  simpl. repeat split. repeat constructor; discriminate.
Qed.
