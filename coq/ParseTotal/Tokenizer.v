(* C09 model, part 1 (definitions only): the comment skipper of parser.c and the
   line tokenizer of system/input-buffer.c over an EXPLICIT memory.

   A line buffer is a capacity [cap] and a total function [get : Z -> Z] giving the
   byte at every offset relative to the start of the allocation: offsets outside
   [0,cap) are the environment (red zone, neighbouring heap objects).  The code is
   modelled with a cursor that is a plain integer and may leave [0,cap); every read
   and write is appended to a trace of offsets, so "in bounds" is a property of the
   trace and not something the model assumes.  All loops of the C code that are not
   bounded by construction take fuel and return [OutOfFuel] distinctly. *)
Require Import ZArith List Bool.
Import ListNotations.
Open Scope Z_scope.

Inductive res (A : Type) : Type :=
| Done (a : A)
| OutOfFuel
| Crash (why : Z).      (* 1 = NULL pointer arithmetic/dereference *)
Arguments Done {A} a.
Arguments OutOfFuel {A}.
Arguments Crash {A} why.

(* isspace() in the "C" locale, argument an unsigned char value or a (signed) char *)
Definition isspace (c : Z) : bool := (c =? 32) || ((9 <=? c) && (c <=? 13)).

(* ------------------------------------------------------------------ *)
(* parser.c : mps_skip_comments (stream f)

     while ((buf = fgetc (f)) == '!' || isspace (buf))
       if (buf == '!')
         while (fgetc (f) != '\n') ;
     ungetc (buf, f);

   The stream is the list of bytes not yet read; fgetc on [] returns EOF (= -1) and
   leaves the stream empty, for ever.  One unit of fuel per fgetc.  The result is the
   unread rest of the stream (ungetc (EOF) is a no-op). *)
Fixpoint skip_line (fuel : nat) (s : list Z) : res (list Z) :=
  match fuel with
  | O => OutOfFuel
  | S f =>
      match s with
      | [] => skip_line f []                       (* EOF <> '\n' : keep reading *)
      | c :: r => if c =? 10 then Done r else skip_line f r
      end
  end.

Fixpoint skip_comments (fuel : nat) (s : list Z) : res (list Z) :=
  match fuel with
  | O => OutOfFuel
  | S f =>
      match s with
      | [] => Done []
      | c :: r =>
          if c =? 33 then
            match skip_line f r with
            | Done r' => skip_comments f r'
            | OutOfFuel => OutOfFuel
            | Crash w => Crash w
            end
          else if isspace c then skip_comments f r
          else Done (c :: r)
      end
  end.

(* The repaired loop (fixes/C09_skip_comments_eof.patch):
     while ((buf = fgetc (f)) != '\n' && buf != EOF) ;                         *)
Fixpoint skip_line_fixed (fuel : nat) (s : list Z) : res (list Z) :=
  match fuel with
  | O => OutOfFuel
  | S f =>
      match s with
      | [] => Done []
      | c :: r => if c =? 10 then Done r else skip_line_fixed f r
      end
  end.

Fixpoint skip_comments_fixed (fuel : nat) (s : list Z) : res (list Z) :=
  match fuel with
  | O => OutOfFuel
  | S f =>
      match s with
      | [] => Done []
      | c :: r =>
          if c =? 33 then
            match skip_line_fixed f r with
            | Done r' => skip_comments_fixed f r'
            | OutOfFuel => OutOfFuel
            | Crash w => Crash w
            end
          else if isspace c then skip_comments_fixed f r
          else Done (c :: r)
      end
  end.

(* ------------------------------------------------------------------ *)
(* Memory of one line buffer *)
Record mem : Type := { cap : Z; get : Z -> Z }.

Definition upd (m : mem) (o v : Z) : mem :=
  {| cap := cap m; get := fun x => if x =? o then v else get m x |}.

Definition trace := list Z.             (* offsets accessed, most recent first *)
Definition in_bounds (c : Z) (t : trace) : Prop := Forall (fun o => 0 <= o < c) t.
Definition in_boundsb (c : Z) (t : trace) : bool := forallb (fun o => (0 <=? o) && (o <? c)) t.

(* bytes m[p .. p+n) *)
Fixpoint bytes_from (m : mem) (p : Z) (n : nat) : list Z :=
  match n with
  | O => []
  | S k => get m p :: bytes_from m (p + 1) k
  end.

(* input-buffer.c : mps_input_buffer_next_token, the part that works on the current
   line (buf->last_token = line + off):

     while ( *last_token != '\0' && isspace ( *last_token)) last_token++;
     if ( *last_token != '\0') token = last_token;
     while (token && *token != '\0' && !isspace ( *token)) token++;
     if (token == NULL) -> read another line
     ret = copy of [last_token, token)
     buf->last_token = token + 1;
     if ( *token == '\0') *buf->last_token = '\0';                               *)
Fixpoint skip_spaces (fuel : nat) (m : mem) (p : Z) (tr : trace) : res (Z * trace) :=
  match fuel with
  | O => OutOfFuel
  | S f =>
      let c := get m p in
      if negb (c =? 0) && isspace c then skip_spaces f m (p + 1) (p :: tr)
      else Done (p, p :: tr)
  end.

Fixpoint scan_token (fuel : nat) (m : mem) (p : Z) (tr : trace) : res (Z * trace) :=
  match fuel with
  | O => OutOfFuel
  | S f =>
      let c := get m p in
      if negb (c =? 0) && negb (isspace c) then scan_token f m (p + 1) (p :: tr)
      else Done (p, p :: tr)
  end.

Inductive tokres : Type :=
| Tok (bytes : list Z)
| NoTok.                      (* nothing left on this line: the caller reads a new one *)

(* result: token, memory afterwards, new cursor, trace of this call *)
Definition next_token_line (fuel : nat) (m : mem) (off : Z) : res (tokres * mem * Z * trace) :=
  match skip_spaces fuel m off [] with
  | Done (p, tr) =>
      if get m p =? 0 then Done (NoTok, m, p, tr)
      else
        match scan_token fuel m p tr with
        | Done (e, tr') =>
            let b := bytes_from m p (Z.to_nat (e - p)) in
            if get m e =? 0
            then Done (Tok b, upd m (e + 1) 0, e + 1, (e + 1) :: tr')     (* the write *)
            else Done (Tok b, m, e + 1, tr')
        | OutOfFuel => OutOfFuel
        | Crash w => Crash w
        end
  | OutOfFuel => OutOfFuel
  | Crash w => Crash w
  end.

(* The repaired version (fixes/C09_next_token_write_past_terminator.patch):
     buf->last_token = ( *token == '\0') ? token : token + 1;                    *)
Definition next_token_line_fixed (fuel : nat) (m : mem) (off : Z) : res (tokres * mem * Z * trace) :=
  match skip_spaces fuel m off [] with
  | Done (p, tr) =>
      if get m p =? 0 then Done (NoTok, m, p, tr)
      else
        match scan_token fuel m p tr with
        | Done (e, tr') =>
            let b := bytes_from m p (Z.to_nat (e - p)) in
            if get m e =? 0 then Done (Tok b, m, e, tr') else Done (Tok b, m, e + 1, tr')
        | OutOfFuel => OutOfFuel
        | Crash w => Crash w
        end
  | OutOfFuel => OutOfFuel
  | Crash w => Crash w
  end.

(* All the tokens of one line: call next_token until it asks for a new line.
   [n] bounds the number of calls (a line of length L holds at most L tokens). *)
Fixpoint tokens_of_line (n fuel : nat) (m : mem) (off : Z) (acc : list (list Z)) (tr : trace)
  : res (list (list Z) * trace) :=
  match n with
  | O => OutOfFuel
  | S k =>
      match next_token_line fuel m off with
      | Done (NoTok, _, _, t) => Done (rev acc, t ++ tr)
      | Done (Tok b, m', off', t) => tokens_of_line k fuel m' off' (b :: acc) (t ++ tr)
      | OutOfFuel => OutOfFuel
      | Crash w => Crash w
      end
  end.

(* ------------------------------------------------------------------ *)
(* Reading lines.  [FileStream] is getline(3) of glibc on a FILE*: the line includes
   its '\n'; a fresh buffer has 120 bytes, it grows to max (2*cap, len+1) (one stdio
   chunk assumed, i.e. lines below 4096 bytes); at end of file -1 is returned and a
   fresh buffer is left UNINITIALISED.  [MemStream] is MemoryFileStream::readline:
   1024 bytes, std::istream::getline (buf, cap-1) drops the '\n' and always stores a
   terminator; a line of more than cap-2 bytes makes the buffer grow (grow_mem). *)
Inductive skind : Type := FileStream | MemStream.

Definition garbage : Z := 190.

(* MemoryFileStream::readline as of /repo commit 5667f2e: when the line does not fit
   (more than cap-2 bytes) failbit is cleared, the buffer is doubled and the SAME line
   is continued behind what has been read, until it fits or the buffer has reached
   1 MiB (then -1 is returned with failbit still set: the stream is dead). *)
Fixpoint grow_mem (k : nat) (c len : Z) : Z :=
  match k with
  | O => c
  | S k' => if (len <=? c - 2) || (1048576 <=? c) then c else grow_mem k' (2 * c) len
  end.          (* 0xbe: what ASan's allocator puts into fresh memory *)

Fixpoint take_line (s : list Z) : list Z * list Z * bool :=   (* line without '\n', rest, '\n' seen *)
  match s with
  | [] => ([], [], false)
  | c :: r => if c =? 10 then ([], r, true)
              else let '(l, r', nl) := take_line r in (c :: l, r', nl)
  end.

Definition mem_of (c : Z) (content : list Z) (old : Z -> Z) : mem :=
  {| cap := c;
     get := fun o => if (0 <=? o) && (o <? Z.of_nat (length content))
                     then nth (Z.to_nat o) content 0 else old o |}.

(* result: read_chars, the line buffer, the rest of the stream *)
Definition fetch_line (k : skind) (prev : option mem) (s : list Z) : Z * mem * list Z :=
  match k with
  | FileStream =>
      let c0 := match prev with Some m => cap m | None => 120 end in
      let old := match prev with Some m => get m | None => fun _ => garbage end in
      match s with
      | [] => (-1, {| cap := c0; get := old |}, [])
      | _ =>
          let '(l, r, nl) := take_line s in
          let content := if nl then l ++ [10] else l in
          let len := Z.of_nat (length content) in
          let c := if len + 1 <=? c0 then c0 else Z.max (2 * c0) (len + 1) in
          (len, mem_of c (content ++ [0]) old, r)
      end
  | MemStream =>
      let c0 := match prev with Some m => cap m | None => 1024 end in
      let old := match prev with Some m => get m | None => fun _ => garbage end in
      match s with
      | [] => (-1, mem_of c0 [0] old, [])
      | _ =>
          let '(l, r, nl) := take_line s in
          let len := Z.of_nat (length l) in
          let c := grow_mem 11 c0 len in
          if len <=? c - 2 then (len + 1, mem_of c (l ++ [0]) old, r)
          else (-1, mem_of c (firstn (Z.to_nat (c - 2)) l ++ [0]) old, [])
      end
  end.

(* strstr (line, "!") : offset of the first '!' before the terminator *)
Fixpoint find_bang (fuel : nat) (m : mem) (p : Z) (tr : trace) : res (option Z * trace) :=
  match fuel with
  | O => OutOfFuel
  | S f =>
      let c := get m p in
      if c =? 0 then Done (None, p :: tr)
      else if c =? 33 then Done (Some p, p :: tr)
      else find_bang f m (p + 1) (p :: tr)
  end.

(* mps_input_buffer_readline: the do/while that drops lines which are empty after
   comment stripping.  One unit of [n] per line read. *)
Fixpoint readline (n fuel : nat) (k : skind) (prev : option mem) (s : list Z) (tr : trace)
  : res (Z * mem * list Z * trace) :=
  match n with
  | O => OutOfFuel
  | S n' =>
      let '(rc, m, r) := fetch_line k prev s in
      if 0 <? rc then
        match find_bang fuel m 0 tr with
        | Done (None, t) => Done (rc, m, r, t)
        | Done (Some p, t) =>
            if p =? 0 then readline n' fuel k (Some (upd m p 0)) r (p :: t)
            else Done (p, upd m p 0, r, p :: t)
        | OutOfFuel => OutOfFuel
        | Crash w => Crash w
        end
      else Done (rc, m, r, tr)
  end.

(* The token sequence of a whole stream: what a loop calling
   mps_input_buffer_next_token until it returns NULL sees. *)
Fixpoint tokens_stream (n fuel : nat) (k : skind) (s : list Z) (acc : list (list Z)) (oob : bool)
  : res (list (list Z) * bool) :=
  match n with
  | O => OutOfFuel
  | S n' =>
      match readline (S (length s)) fuel k None s [] with
      | Done (rc, m, r, t1) =>
          if rc <? 0 then Done (acc, oob || negb (in_boundsb (cap m) t1))
          else
            match tokens_of_line fuel fuel m 0 [] [] with
            | Done (toks, t2) =>
                tokens_stream n' fuel k r (acc ++ toks)
                              (oob || negb (in_boundsb (cap m) t1) || negb (in_boundsb (cap m) t2))
            | OutOfFuel => OutOfFuel
            | Crash w => Crash w
            end
      | OutOfFuel => OutOfFuel
      | Crash w => Crash w
      end
  end.

(* The code as it is in /repo now (commits 990a9b4, 336ceec): the tokenizer that does
   not step over the terminator.  Same drivers as above around next_token_line_fixed. *)
Fixpoint tokens_of_line_cur (n fuel : nat) (m : mem) (off : Z) (acc : list (list Z)) (tr : trace)
  : res (list (list Z) * trace) :=
  match n with
  | O => OutOfFuel
  | S k =>
      match next_token_line_fixed fuel m off with
      | Done (NoTok, _, _, t) => Done (rev acc, t ++ tr)
      | Done (Tok b, m', off', t) => tokens_of_line_cur k fuel m' off' (b :: acc) (t ++ tr)
      | OutOfFuel => OutOfFuel
      | Crash w => Crash w
      end
  end.

Fixpoint tokens_stream_cur (n fuel : nat) (k : skind) (s : list Z) (acc : list (list Z)) (oob : bool)
  : res (list (list Z) * bool) :=
  match n with
  | O => OutOfFuel
  | S n' =>
      match readline (S (length s)) fuel k None s [] with
      | Done (rc, m, r, t1) =>
          if rc <? 0 then Done (acc, oob || negb (in_boundsb (cap m) t1))
          else
            match tokens_of_line_cur fuel fuel m 0 [] [] with
            | Done (toks, t2) =>
                tokens_stream_cur n' fuel k r (acc ++ toks)
                              (oob || negb (in_boundsb (cap m) t1) || negb (in_boundsb (cap m) t2))
            | OutOfFuel => OutOfFuel
            | Crash w => Crash w
            end
      | OutOfFuel => OutOfFuel
      | Crash w => Crash w
      end
  end.
