(* C09 model, part 2 (definitions only): parser.c mps_parse_option_line with its
   pointer walk over the explicit memory of Tokenizer.v, mps_is_option, and
   mps_error / mps_raise_parsing_error as a small printf interpreter over the
   format string that the code CONSTRUCTS. *)
Require Import ZArith List Bool String Ascii.
Require Import MPSV.ParseTotal.Tokenizer.
Import ListNotations.
Open Scope Z_scope.

Definition str (s : string) : list Z :=
  List.map (fun a => Z.of_N (N_of_ascii a)) (list_ascii_of_string s).

(* ------------------------------------------------------------------ *)
(* printf: the conversions that occur in the parser's own format strings are
   %s %d %ld and %%.  Anything else, or a conversion without a matching argument
   of the right kind, reads or writes through an indeterminate value: [FWild]. *)
Inductive farg : Type := AStr (s : list Z) | AInt (z : Z).

Fixpoint dec_aux (fuel : nat) (n : Z) (acc : list Z) : list Z :=
  match fuel with
  | O => acc
  | S f => let acc' := (48 + n mod 10) :: acc in
           if n <? 10 then acc' else dec_aux f (n / 10) acc'
  end.
Definition dec (n : Z) : list Z :=
  if n <? 0 then 45 :: dec_aux (S (Z.to_nat (Z.log2 (- n)))) (- n) []
  else dec_aux (S (Z.to_nat (Z.log2 n))) n [].

Inductive fout : Type := FOk (s : list Z) (used : nat) | FWild.

Fixpoint interp (fmt : list Z) (args : list farg) (acc : list Z) (used : nat) : fout :=
  match fmt with
  | [] => FOk (rev acc) used
  | c :: r =>
      if c =? 37 then
        match r with
        | [] => FWild
        | d :: r1 =>
            if d =? 37 then interp r1 args (37 :: acc) used
            else if d =? 115 then                                     (* %s *)
              match args with
              | AStr s :: a' => interp r1 a' (rev s ++ acc) (S used)
              | _ => FWild
              end
            else if d =? 100 then                                     (* %d *)
              match args with
              | AInt z :: a' => interp r1 a' (rev (dec z) ++ acc) (S used)
              | _ => FWild
              end
            else if d =? 108 then                                     (* %ld *)
              match r1 with
              | e :: r2 =>
                  if e =? 100 then
                    match args with
                    | AInt z :: a' => interp r2 a' (rev (dec z) ++ acc) (S used)
                    | _ => FWild
                    end
                  else FWild
              | [] => FWild
              end
            else FWild                                                (* %n %x %c ... *)
        end
      else interp r args (c :: acc) used
  end.

(* input-output.c mps_error: vsnprintf into 32 bytes; when the text needs MORE than 32
   bytes (a text of exactly 32 stays cut to 31 characters) the buffer is enlarged and vsnprintf is called AGAIN WITH THE SAME va_list, i.e. the
   second pass starts after the arguments the first pass consumed. *)
Inductive merr : Type := MOk (s : list Z) | MWild.

Definition mps_error (fmt : list Z) (args : list farg) : merr :=
  match interp fmt args [] 0 with
  | FWild => MWild
  | FOk s used =>
      if 32 <? Z.of_nat (List.length s) then
        match interp fmt (skipn used args) [] 0 with
        | FOk s' _ => MOk s'
        | FWild => MWild
        end
      else if Z.of_nat (List.length s) =? 32 then MOk (firstn 31 s)   (* "> buffer_size": cut, no retry *)
      else MOk s
  end.

(* mps_error as it is in /repo now (commit cee031a): every attempt works on a va_copy
   and the loop condition is ">= buffer_size": the text always arrives complete. *)
Definition mps_error_fixed (fmt : list Z) (args : list farg) : merr :=
  match interp fmt args [] 0 with
  | FWild => MWild
  | FOk s _ => MOk s
  end.

(* parser.c mps_raise_parsing_error (token <> NULL):
     sprintf (output, "Parsing error on line %ld near the token: %s", line_number, token);
     mps_error (s, output, message);                                             *)
Definition perr_prefix (lineno : Z) : list Z :=
  str "Parsing error on line " ++ dec lineno ++ str " near the token: ".

Definition raise_parsing_error (lineno : Z) (token message : list Z) : merr :=
  mps_error (perr_prefix lineno ++ token) [AStr message].

(* the repaired version doubles every '%' of the token *)
Fixpoint escape_percent (t : list Z) : list Z :=
  match t with
  | [] => []
  | c :: r => if c =? 37 then 37 :: 37 :: escape_percent r else c :: escape_percent r
  end.
Definition raise_parsing_error_fixed (lineno : Z) (token message : list Z) : merr :=
  mps_error_fixed (perr_prefix lineno ++ escape_percent token) [AStr message].

(* ------------------------------------------------------------------ *)
(* mps_is_option (case-insensitive, leading blanks skipped, trailing blanks allowed) *)
Definition tolower (c : Z) : Z := if (65 <=? c) && (c <=? 90) then c + 32 else c.

Fixpoint drop_spaces (l : list Z) : list Z :=
  match l with
  | c :: r => if isspace c then drop_spaces r else l
  | [] => []
  end.

Fixpoint cmp_ci (a b : list Z) : list Z * list Z :=
  match a, b with
  | x :: a', y :: b' => if tolower x =? tolower y then cmp_ci a' b' else (a, b)
  | _, _ => (a, b)
  end.

Definition all_spaces (l : list Z) : bool :=
  match drop_spaces l with [] => true | _ => false end.

Definition is_option (s1 s2 : list Z) : bool :=
  let '(a, b) := cmp_ci (drop_spaces s1) (drop_spaces s2) in
  match a, b with
  | [], _ => all_spaces b
  | _, [] => all_spaces a
  | _, _ => false
  end.

Inductive flag : Type :=
| FUndefined | FInteger | FReal | FComplex | FRational | FFp | FSecular | FMonomial
| FDense | FSparse | FDegree | FPrecision | FChebyshev.

Definition keyword_flag (o : list Z) : flag :=
  let f := FUndefined in
  let f := if is_option o (str "dense") then FDense else f in
  let f := if is_option o (str "sparse") then FSparse else f in
  let f := if is_option o (str "integer") then FInteger else f in
  let f := if is_option o (str "real") then FReal else f in
  let f := if is_option o (str "complex") then FComplex else f in
  let f := if is_option o (str "rational") then FRational else f in
  let f := if is_option o (str "floatingpoint") then FFp else f in
  let f := if is_option o (str "secular") then FSecular else f in
  let f := if is_option o (str "monomial") then FMonomial else f in
  let f := if is_option o (str "chebyshev") then FChebyshev else f in
  f.

Fixpoint split_eq (o : list Z) : option (list Z * list Z) :=    (* strchr (option, '=') *)
  match o with
  | [] => None
  | c :: r => if c =? 61 then Some ([], r)
              else match split_eq r with
                   | Some (k, v) => Some (c :: k, v)
                   | None => None
                   end
  end.

Definition is_undefined (f : flag) : bool := match f with FUndefined => true | _ => false end.

(* everything after the walk: flag, value, error message *)
Definition classify (o : list Z) : flag * option (list Z) * option merr :=
  let f := keyword_flag o in
  match split_eq o with
  | None =>
      (f, None, if is_undefined f then Some (mps_error (str "Unrecognized option: %s") [AStr o]) else None)
  | Some (k, v) =>
      let f := if is_option k (str "degree") then FDegree
               else if is_option k (str "precision") then FPrecision else f in
      (f, Some v, if is_undefined f then Some (mps_error (str "Unrecognized option: %s") [AStr k]) else None)
  end.

(* ------------------------------------------------------------------ *)
(* The pointer walk of mps_parse_option_line (line, length):

     if (length > 255) error
     first_comment = strchr (line, '!');  real_length = first_comment ? first_comment - line : length;
     c_ptr = line;
     while (isspace ( *c_ptr) && ((c_ptr < first_comment) || first_comment == NULL))
       { c_ptr++; real_length--; }
     option = c_ptr;
     c_ptr = strchr (option, ';');
     while (isspace ( *--c_ptr) && real_length--) ;
     *(c_ptr + 1) = '\0';                                                        *)
Definition two64 : Z := 18446744073709551616.

Fixpoint lead_spaces (fuel : nat) (m : mem) (c : Z) (fc : option Z) (rl : Z) (tr : trace)
  : res (Z * Z * trace) :=
  match fuel with
  | O => OutOfFuel
  | S f =>
      if isspace (get m c) && (match fc with None => true | Some q => c <? q end)
      then lead_spaces f m (c + 1) fc ((rl - 1) mod two64) (c :: tr)
      else Done (c, rl, c :: tr)
  end.

Fixpoint find_semi (fuel : nat) (m : mem) (p : Z) (tr : trace) : res (option Z * trace) :=
  match fuel with
  | O => OutOfFuel
  | S f =>
      let c := get m p in
      if c =? 59 then Done (Some p, p :: tr)
      else if c =? 0 then Done (None, p :: tr)
      else find_semi f m (p + 1) (p :: tr)
  end.

(* p is c_ptr before the pre-decrement; result: c_ptr after the loop *)
Fixpoint back_scan (fuel : nat) (m : mem) (p : Z) (rl : Z) (tr : trace) : res (Z * trace) :=
  match fuel with
  | O => OutOfFuel
  | S f =>
      let q := p - 1 in
      if isspace (get m q) then
        if rl =? 0 then Done (q, q :: tr) else back_scan f m q (rl - 1) (q :: tr)
      else Done (q, q :: tr)
  end.

(* the C string starting at p *)
Fixpoint cstr (fuel : nat) (m : mem) (p : Z) (tr : trace) : res (list Z * trace) :=
  match fuel with
  | O => OutOfFuel
  | S f =>
      let c := get m p in
      if c =? 0 then Done ([], p :: tr)
      else match cstr f m (p + 1) (p :: tr) with
           | Done (l, t) => Done (c :: l, t)
           | OutOfFuel => OutOfFuel
           | Crash w => Crash w
           end
  end.

Inductive walk : Type :=
| WTooLong
| WOption (option_off : Z) (o : list Z) (m' : mem) (tr : trace).

Definition option_walk (fuel : nat) (m : mem) (len : Z) : res walk :=
  if 255 <? len then Done WTooLong
  else
    match find_bang fuel m 0 [] with
    | Done (fc, t0) =>
        let rl := match fc with Some q => q | None => len end in
        match lead_spaces fuel m 0 fc rl t0 with
        | Done (opt, rl1, t1) =>
            match find_semi fuel m opt t1 with
            | Done (Some semi, t2) =>
                match back_scan fuel m semi rl1 t2 with
                | Done (p, t3) =>
                    let m' := upd m (p + 1) 0 in
                    match cstr fuel m' opt ((p + 1) :: t3) with
                    | Done (o, t4) => Done (WOption opt o m' t4)
                    | OutOfFuel => OutOfFuel
                    | Crash w => Crash w
                    end
                | OutOfFuel => OutOfFuel
                | Crash w => Crash w
                end
            | Done (None, _) => Crash 1              (* strchr returned NULL; --c_ptr *)
            | OutOfFuel => OutOfFuel
            | Crash w => Crash w
            end
        | OutOfFuel => OutOfFuel
        | Crash w => Crash w
        end
    | OutOfFuel => OutOfFuel
    | Crash w => Crash w
    end.

(* the repaired walk (fixes/C09_option_line_leading_semicolon.patch):
     while (c_ptr > option && isspace ( *(c_ptr - 1))) c_ptr--;
     *c_ptr = '\0';                                                              *)
Fixpoint back_scan_fixed (fuel : nat) (m : mem) (opt p : Z) (tr : trace) : res (Z * trace) :=
  match fuel with
  | O => OutOfFuel
  | S f =>
      if opt <? p then
        if isspace (get m (p - 1)) then back_scan_fixed f m opt (p - 1) ((p - 1) :: tr)
        else Done (p, (p - 1) :: tr)
      else Done (p, tr)
  end.

Definition option_walk_fixed (fuel : nat) (m : mem) (len : Z) : res walk :=
  if 255 <? len then Done WTooLong
  else
    match find_bang fuel m 0 [] with
    | Done (fc, t0) =>
        let rl := match fc with Some q => q | None => len end in
        match lead_spaces fuel m 0 fc rl t0 with
        | Done (opt, _, t1) =>
            match find_semi fuel m opt t1 with
            | Done (Some semi, t2) =>
                match back_scan_fixed fuel m opt semi t2 with
                | Done (p, t3) =>
                    let m' := upd m p 0 in
                    match cstr fuel m' opt (p :: t3) with
                    | Done (o, t4) => Done (WOption opt o m' t4)
                    | OutOfFuel => OutOfFuel
                    | Crash w => Crash w
                    end
                | OutOfFuel => OutOfFuel
                | Crash w => Crash w
                end
            | Done (None, _) => Crash 1
            | OutOfFuel => OutOfFuel
            | Crash w => Crash w
            end
        | OutOfFuel => OutOfFuel
        | Crash w => Crash w
        end
    | OutOfFuel => OutOfFuel
    | Crash w => Crash w
    end.

(* A line given as its bytes (no NUL inside), in a buffer of exactly len+1 bytes *)
Definition line_mem (l : list Z) (env : Z -> Z) : mem :=
  mem_of (Z.of_nat (List.length l) + 1) (l ++ [0]) env.

Inductive optout : Type :=
| OTooLong
| OOpt (f : flag) (v : option (list Z)) (e : option merr) (oob : bool).

Definition parse_option_line (fuel : nat) (l : list Z) (env : Z -> Z) : res optout :=
  let m := line_mem l env in
  match option_walk fuel m (Z.of_nat (List.length l)) with
  | Done WTooLong => Done OTooLong
  | Done (WOption _ o _ tr) =>
      let '(f, v, e) := classify o in
      Done (OOpt f v e (negb (in_boundsb (cap m) tr)))
  | OutOfFuel => OutOfFuel
  | Crash w => Crash w
  end.

(* the same with the repaired walk and the repaired mps_error *)
Definition classify_fixed (o : list Z) : flag * option (list Z) * option merr :=
  let f := keyword_flag o in
  match split_eq o with
  | None =>
      (f, None, if is_undefined f then Some (mps_error_fixed (str "Unrecognized option: %s") [AStr o]) else None)
  | Some (k, v) =>
      let f := if is_option k (str "degree") then FDegree
               else if is_option k (str "precision") then FPrecision else f in
      (f, Some v, if is_undefined f then Some (mps_error_fixed (str "Unrecognized option: %s") [AStr k]) else None)
  end.

Definition parse_option_line_fixed (fuel : nat) (l : list Z) (env : Z -> Z) : res optout :=
  let m := line_mem l env in
  match option_walk_fixed fuel m (Z.of_nat (List.length l)) with
  | Done WTooLong => Done OTooLong
  | Done (WOption _ o _ tr) =>
      let '(f, v, e) := classify_fixed o in
      Done (OOpt f v e (negb (in_boundsb (cap m) tr)))
  | OutOfFuel => OutOfFuel
  | Crash w => Crash w
  end.
