(* C09: proofs about the comment skipper and the line tokenizer of Tokenizer.v *)
Require Import ZArith List Bool Lia ZifyBool.
Require Import MPSV.ParseTotal.Tokenizer.
Import ListNotations.
Open Scope Z_scope.

(* ---------------------------------------------------------------- skip_comments *)
Lemma skip_line_eof_loops : forall fuel, skip_line fuel [] = OutOfFuel.
Proof. induction fuel as [|f IH]; simpl; auto. Qed.

Lemma skip_line_no_newline_loops :
  forall s, ~ In 10 s -> forall fuel, skip_line fuel s = OutOfFuel.
Proof.
  induction s as [|c r IH]; intros Hn fuel.
  - apply skip_line_eof_loops.
  - destruct fuel as [|f]; simpl; auto.
    destruct (c =? 10) eqn:E.
    + exfalso. apply Hn. left. lia.
    + apply IH. intro H. apply Hn. right. exact H.
Qed.

(* "!x" without a newline: no amount of fuel is enough *)
Lemma skip_comments_bang_eof_hangs : forall fuel, skip_comments fuel [33; 120] = OutOfFuel.
Proof.
  destruct fuel as [|f]; simpl; auto.
  rewrite skip_line_no_newline_loops; auto.
  simpl. intros [H|[]]. discriminate H.
Qed.

(* the repaired skipper never runs out of fuel |s|+1, whatever the input *)
Lemma skip_line_fixed_total :
  forall s fuel, (length s < fuel)%nat ->
  exists r, skip_line_fixed fuel s = Done r /\ (length r <= length s)%nat.
Proof.
  induction s as [|c r IH]; intros fuel Hf.
  - destruct fuel as [|f]; [inversion Hf|]. simpl. exists []. split; auto.
  - destruct fuel as [|f]; [inversion Hf|]. simpl in *.
    destruct (c =? 10) eqn:E.
    + exists r. split; auto.
    + destruct (IH f) as [r' [H1 H2]]; [lia|]. exists r'. split; auto.
Qed.

Lemma skip_comments_fixed_total_aux :
  forall n s fuel, (length s <= n)%nat -> (length s < fuel)%nat ->
  exists r, skip_comments_fixed fuel s = Done r.
Proof.
  induction n as [|n IH]; intros s fuel Hn Hf.
  - destruct s; [|simpl in Hn; lia]. destruct fuel as [|f]; [inversion Hf|]. simpl. eauto.
  - destruct s as [|c r].
    + destruct fuel as [|f]; [inversion Hf|]. simpl. eauto.
    + destruct fuel as [|f]; [inversion Hf|]. simpl in *.
      destruct (c =? 33) eqn:E33.
      * destruct (skip_line_fixed_total r f) as [r' [H1 H2]]; [lia|].
        rewrite H1. apply IH; lia.
      * destruct (isspace c) eqn:Esp.
        -- apply IH; lia.
        -- eauto.
Qed.

Lemma skip_comments_fixed_total :
  forall s, exists r, skip_comments_fixed (S (length s)) s = Done r.
Proof. intro s. apply (skip_comments_fixed_total_aux (length s)); lia. Qed.

(* whenever the original returns, the repaired one returns the same *)
Lemma skip_line_agree :
  forall fuel s r, skip_line fuel s = Done r -> skip_line_fixed fuel s = Done r.
Proof.
  induction fuel as [|f IH]; intros s r H; simpl in *; [discriminate|].
  destruct s as [|c t].
  - rewrite skip_line_eof_loops in H. discriminate.
  - destruct (c =? 10); auto.
Qed.

Lemma skip_comments_agree :
  forall fuel s r, skip_comments fuel s = Done r -> skip_comments_fixed fuel s = Done r.
Proof.
  induction fuel as [|f IH]; intros s r H; simpl in *; [discriminate|].
  destruct s as [|c t]; auto.
  destruct (c =? 33).
  - destruct (skip_line f t) as [r'| |w] eqn:E; try discriminate.
    rewrite (skip_line_agree _ _ _ E). auto.
  - destruct (isspace c); auto.
Qed.

(* the original on inputs in which every '!' is followed, later, by a newline *)
Definition bangs_closed (s : list Z) : Prop :=
  forall pre post, s = pre ++ 33 :: post -> In 10 post.

Lemma skip_line_total :
  forall s fuel, In 10 s -> (length s < fuel)%nat ->
  exists r, skip_line fuel s = Done r /\ (length r < length s)%nat /\ exists mid, s = mid ++ r.
Proof.
  induction s as [|c t IH]; intros fuel Hin Hf; [inversion Hin|].
  destruct fuel as [|f]; [inversion Hf|]. simpl in *.
  destruct (c =? 10) eqn:E.
  - exists t. repeat split; auto. exists [c]. reflexivity.
  - destruct Hin as [Hc|Hin]; [lia|].
    destruct (IH f Hin) as [r [H1 [H2 [mid H3]]]]; [lia|].
    exists r. repeat split; auto. exists (c :: mid). simpl. rewrite H3. reflexivity.
Qed.

Lemma bangs_closed_tail : forall c t, bangs_closed (c :: t) -> bangs_closed t.
Proof. intros c t H pre post E. apply (H (c :: pre) post). simpl. rewrite E. reflexivity. Qed.

Lemma bangs_closed_suffix : forall mid r, bangs_closed (mid ++ r) -> bangs_closed r.
Proof.
  induction mid as [|c m IH]; intros r H; auto.
  apply IH. apply (bangs_closed_tail c). exact H.
Qed.

Lemma skip_comments_partial_aux :
  forall n s fuel, (length s <= n)%nat -> (length s < fuel)%nat -> bangs_closed s ->
  exists r, skip_comments fuel s = Done r.
Proof.
  induction n as [|n IH]; intros s fuel Hn Hf Hb.
  - destruct s; [|simpl in Hn; lia]. destruct fuel as [|f]; [inversion Hf|]. simpl. eauto.
  - destruct s as [|c t].
    + destruct fuel as [|f]; [inversion Hf|]. simpl. eauto.
    + destruct fuel as [|f]; [inversion Hf|]. simpl in *.
      destruct (c =? 33) eqn:E33.
      * assert (Hin : In 10 t). { apply (Hb [] t). simpl. f_equal. lia. }
        destruct (skip_line_total t f Hin) as [r [H1 [H2 [mid H3]]]]; [lia|].
        rewrite H1. apply IH; try lia.
        apply (bangs_closed_suffix mid). rewrite <- H3. apply (bangs_closed_tail c). exact Hb.
      * destruct (isspace c) eqn:Esp.
        -- apply IH; try lia. apply (bangs_closed_tail c). exact Hb.
        -- eauto.
Qed.

Lemma skip_comments_partial :
  forall s, bangs_closed s -> exists r, skip_comments (S (length s)) s = Done r.
Proof. intros s H. apply (skip_comments_partial_aux (length s)); auto; lia. Qed.

(* ---------------------------------------------------------------- next_token on a line *)
Lemma in_bounds_cons : forall c o t, 0 <= o < c -> in_bounds c t -> in_bounds c (o :: t).
Proof. intros. constructor; auto. Qed.

Lemma isspace_0 : isspace 0 = false.
Proof. reflexivity. Qed.

(* both scanning loops stop at or before a terminator that lies ahead *)
Lemma skip_spaces_spec :
  forall m n, get m n = 0 -> n < cap m ->
  forall fuel off tr0, 0 <= off <= n -> n - off < Z.of_nat fuel -> in_bounds (cap m) tr0 ->
  exists p tr, skip_spaces fuel m off tr0 = Done (p, tr) /\ off <= p <= n /\ in_bounds (cap m) tr
               /\ (get m p = 0 \/ isspace (get m p) = false).
Proof.
  intros m n Hn Hc. induction fuel as [|f IH]; intros off tr0 Ho Hf Hb; [simpl in Hf; lia|].
  simpl. destruct (negb (get m off =? 0) && isspace (get m off)) eqn:E.
  - assert (off <> n). { intro; subst. rewrite Hn in E. discriminate. }
    destruct (IH (off + 1) (off :: tr0)) as [p [tr [H1 [H2 [H3 H4]]]]]; try lia.
    { apply in_bounds_cons; auto; lia. }
    exists p, tr. repeat split; auto; lia.
  - exists off, (off :: tr0).
    split; [reflexivity|]. split; [lia|]. split; [apply in_bounds_cons; auto; lia|].
    destruct (get m off =? 0) eqn:E0; [left; lia|right].
    simpl in E. exact E.
Qed.

Lemma scan_token_spec :
  forall m n, get m n = 0 -> n < cap m ->
  forall fuel off tr0, 0 <= off <= n -> n - off < Z.of_nat fuel -> in_bounds (cap m) tr0 ->
  exists e tr, scan_token fuel m off tr0 = Done (e, tr) /\ off <= e <= n /\ in_bounds (cap m) tr
               /\ (get m e = 0 \/ isspace (get m e) = true).
Proof.
  intros m n Hn Hc. induction fuel as [|f IH]; intros off tr0 Ho Hf Hb; [simpl in Hf; lia|].
  simpl. destruct (negb (get m off =? 0) && negb (isspace (get m off))) eqn:E.
  - assert (off <> n). { intro; subst. rewrite Hn in E. discriminate. }
    destruct (IH (off + 1) (off :: tr0)) as [p [tr [H1 [H2 [H3 H4]]]]]; try lia.
    { apply in_bounds_cons; auto; lia. }
    exists p, tr. repeat split; auto; lia.
  - exists off, (off :: tr0).
    split; [reflexivity|]. split; [lia|]. split; [apply in_bounds_cons; auto; lia|].
    destruct (get m off =? 0) eqn:E0; [left; lia|right].
    simpl in E. destruct (isspace (get m off)); auto.
Qed.

(* The invariant under which the tokenizer is memory safe: a terminator at or after
   the cursor, and -- unless the cursor already sits on it -- one more byte after it. *)
Definition line_inv (m : mem) (off : Z) : Prop :=
  exists n, 0 <= off <= n /\ n < cap m /\ get m n = 0 /\ (n = off \/ n + 1 < cap m).

Lemma upd_same : forall m o v, get (upd m o v) o = v.
Proof. intros. simpl. rewrite Z.eqb_refl. reflexivity. Qed.

Lemma next_token_line_safe :
  forall m off fuel, line_inv m off -> cap m < Z.of_nat fuel ->
  exists r m' off' tr,
    next_token_line fuel m off = Done (r, m', off', tr)
    /\ in_bounds (cap m) tr /\ cap m' = cap m /\ line_inv m' off'.
Proof.
  intros m off fuel [n [Ho [Hc [Hn Hs]]]] Hf.
  unfold next_token_line.
  destruct (skip_spaces_spec m n Hn Hc fuel off []) as [p [tr [H1 [H2 [H3 H4]]]]]; try lia.
  { constructor. }
  rewrite H1.
  destruct (get m p =? 0) eqn:Ep.
  - exists NoTok, m, p, tr. repeat split; auto.
    exists p. repeat split; try lia.
  - assert (Hpn : p <> n) by (intro; subst; lia).
    assert (Hslack : n + 1 < cap m).
    { destruct Hs as [Hs|Hs]; auto. subst n. assert (p = off) by lia. subst p. lia. }
    destruct (scan_token_spec m n Hn Hc fuel p tr) as [e [tr' [G1 [G2 [G3 G4]]]]]; try lia; auto.
    rewrite G1.
    destruct (get m e =? 0) eqn:Ee.
    + eexists _, _, _, _. split; [reflexivity|]. repeat split.
      * apply in_bounds_cons; auto; lia.
      * exists (e + 1). repeat split; try lia.
        -- simpl. lia.
        -- apply upd_same.
    + eexists _, _, _, _. split; [reflexivity|]. repeat split; auto.
      assert (e <> n) by (intro; subst; lia).
      exists n. repeat split; try lia.
Qed.

(* the repaired tokenizer needs no byte after the terminator *)
Definition line_inv_weak (m : mem) (off : Z) : Prop :=
  exists n, 0 <= off <= n /\ n < cap m /\ get m n = 0.

Lemma next_token_line_fixed_safe :
  forall m off fuel, line_inv_weak m off -> cap m < Z.of_nat fuel ->
  exists r off' tr,
    next_token_line_fixed fuel m off = Done (r, m, off', tr)
    /\ in_bounds (cap m) tr /\ line_inv_weak m off'.
Proof.
  intros m off fuel [n [Ho [Hc Hn]]] Hf.
  unfold next_token_line_fixed.
  destruct (skip_spaces_spec m n Hn Hc fuel off []) as [p [tr [H1 [H2 [H3 H4]]]]]; try lia.
  { constructor. }
  rewrite H1.
  destruct (get m p =? 0) eqn:Ep.
  - exists NoTok, p, tr. repeat split; auto. exists n. repeat split; lia.
  - destruct (scan_token_spec m n Hn Hc fuel p tr) as [e [tr' [G1 [G2 [G3 G4]]]]]; try lia; auto.
    rewrite G1.
    destruct (get m e =? 0) eqn:Ee.
    + eexists _, _, _. split; [reflexivity|]. split; auto. exists n. repeat split; lia.
    + eexists _, _, _. split; [reflexivity|]. split; auto.
      assert (e <> n) by (intro; subst; lia). exists n. repeat split; lia.
Qed.

(* all the tokens of a line *)
Lemma tokens_of_line_safe :
  forall k fuel m off acc tr0 r,
    line_inv m off -> cap m < Z.of_nat fuel -> in_bounds (cap m) tr0 ->
    tokens_of_line k fuel m off acc tr0 = r ->
    r = OutOfFuel \/ exists toks tr, r = Done (toks, tr) /\ in_bounds (cap m) tr.
Proof.
  induction k as [|k IH]; intros fuel m off acc tr0 r Hinv Hf Hb Hr; simpl in Hr; [left; auto|].
  destruct (next_token_line_safe m off fuel Hinv Hf) as [t [m' [off' [tr [H1 [H2 [H3 H4]]]]]]].
  rewrite H1 in Hr.
  assert (Hb' : in_bounds (cap m) (tr ++ tr0)).
  { unfold in_bounds in *. apply Forall_app. split; auto. }
  destruct t as [b|].
  - rewrite <- H3 in Hb'. rewrite <- H3 in Hf.
    destruct (IH fuel m' off' (b :: acc) (tr ++ tr0) r H4 Hf Hb' Hr) as [E|[toks [tr1 [E1 E2]]]]; auto.
    right. exists toks, tr1. rewrite <- H3. auto.
  - right. eexists _, _. split; [symmetry; exact Hr|]. exact Hb'.
Qed.

(* refutation: a 120-byte getline buffer holding a 119-byte last line without '\n' *)
Definition line119 : mem := mem_of 120 (repeat 120 119 ++ [0]) (fun _ => garbage).

Lemma next_token_writes_past_buffer :
  exists tr r m' o', next_token_line 200 line119 0 = Done (r, m', o', tr) /\ In 120 tr /\ cap line119 = 120.
Proof. vm_compute. eexists _, _, _, _. split; [reflexivity|]. split; [left; reflexivity|reflexivity]. Qed.

(* every line delivered by the memory stream (as of commit 5667f2e: growing buffer)
   satisfies the invariant at offset 0, with a slack byte *)
Lemma fetch_mem_line_inv :
  forall s rc m r, fetch_line MemStream None s = (rc, m, r) -> 0 < rc -> line_inv m 0.
Proof.
  intros s rc m r H Hrc. unfold fetch_line in H.
  destruct s as [|c t]; [inversion H; subst; lia|].
  destruct (take_line (c :: t)) as [[l r'] nl].
  remember (grow_mem 11 1024 (Z.of_nat (length l))) as cc.
  destruct (Z.of_nat (length l) <=? cc - 2) eqn:E; [|inversion H; subst; lia].
  inversion H; subst rc m r; clear H.
  exists (Z.of_nat (length l)). simpl cap. repeat split; try lia.
  unfold mem_of. simpl get. rewrite app_length. simpl length.
  replace ((0 <=? Z.of_nat (length l)) && (Z.of_nat (length l) <? Z.of_nat (length l + 1))) with true by lia.
  rewrite Nat2Z.id. rewrite app_nth2; [|lia]. rewrite Nat.sub_diag. reflexivity.
Qed.

Lemma line_inv_weaken : forall m off, line_inv m off -> line_inv_weak m off.
Proof. intros m off [n [H1 [H2 [H3 _]]]]. exists n. auto. Qed.

(* all the tokens of a line, tokenizer as it is now *)
Lemma tokens_of_line_cur_safe :
  forall k fuel m off acc tr0 r,
    line_inv_weak m off -> cap m < Z.of_nat fuel -> in_bounds (cap m) tr0 ->
    tokens_of_line_cur k fuel m off acc tr0 = r ->
    r = OutOfFuel \/ exists toks tr, r = Done (toks, tr) /\ in_bounds (cap m) tr.
Proof.
  induction k as [|k IH]; intros fuel m off acc tr0 r Hinv Hf Hb Hr; simpl in Hr; [left; auto|].
  destruct (next_token_line_fixed_safe m off fuel Hinv Hf) as [t [off' [tr [H1 [H2 H4]]]]].
  rewrite H1 in Hr.
  assert (Hb' : in_bounds (cap m) (tr ++ tr0)).
  { unfold in_bounds in *. apply Forall_app. split; auto. }
  destruct t as [b|].
  - exact (IH fuel m off' (b :: acc) (tr ++ tr0) r H4 Hf Hb' Hr).
  - right. eexists _, _. split; [symmetry; exact Hr|]. exact Hb'.
Qed.

(* hence: all the tokens of any line of an in-memory string are read in bounds,
   by the old tokenizer (slack byte) and by the present one *)
Lemma mem_stream_line_tokens_in_bounds :
  forall s rc m r k fuel res,
    fetch_line MemStream None s = (rc, m, r) -> 0 < rc -> cap m < Z.of_nat fuel ->
    tokens_of_line k fuel m 0 [] [] = res ->
    res = OutOfFuel \/ exists toks tr, res = Done (toks, tr) /\ in_bounds (cap m) tr.
Proof.
  intros s rc m r k fuel res Hf Hrc Hfu Hres.
  pose proof (fetch_mem_line_inv s rc m r Hf Hrc) as Hinv.
  apply (tokens_of_line_safe k fuel m 0 [] [] res Hinv); auto. constructor.
Qed.

Lemma mem_stream_line_tokens_cur_in_bounds :
  forall s rc m r k fuel res,
    fetch_line MemStream None s = (rc, m, r) -> 0 < rc -> cap m < Z.of_nat fuel ->
    tokens_of_line_cur k fuel m 0 [] [] = res ->
    res = OutOfFuel \/ exists toks tr, res = Done (toks, tr) /\ in_bounds (cap m) tr.
Proof.
  intros s rc m r k fuel res Hf Hrc Hfu Hres.
  pose proof (line_inv_weaken _ _ (fetch_mem_line_inv s rc m r Hf Hrc)) as Hinv.
  apply (tokens_of_line_cur_safe k fuel m 0 [] [] res Hinv); auto. constructor.
Qed.

(* a FILE* line (fresh getline buffer): the terminator is inside the buffer, whatever
   the length of the line -- enough for the present tokenizer *)
Lemma fetch_file_line_inv_weak :
  forall s rc m r, fetch_line FileStream None s = (rc, m, r) -> 0 < rc -> line_inv_weak m 0.
Proof.
  intros s rc m r H Hrc. unfold fetch_line in H.
  destruct s as [|c t]; [inversion H; subst; lia|].
  destruct (take_line (c :: t)) as [[l r'] nl].
  remember (if nl then l ++ [10] else l) as content.
  inversion H; subst rc m r; clear H.
  exists (Z.of_nat (length content)). simpl cap. repeat split; try lia.
  - destruct (Z.of_nat (length content) + 1 <=? 120) eqn:E; lia.
  - unfold mem_of. simpl get. rewrite app_length. simpl length.
    replace ((0 <=? Z.of_nat (length content)) && (Z.of_nat (length content) <? Z.of_nat (length content + 1))) with true by lia.
    rewrite Nat2Z.id. rewrite app_nth2; [|lia]. rewrite Nat.sub_diag. reflexivity.
Qed.

Lemma file_stream_line_tokens_cur_in_bounds :
  forall s rc m r k fuel res,
    fetch_line FileStream None s = (rc, m, r) -> 0 < rc -> cap m < Z.of_nat fuel ->
    tokens_of_line_cur k fuel m 0 [] [] = res ->
    res = OutOfFuel \/ exists toks tr, res = Done (toks, tr) /\ in_bounds (cap m) tr.
Proof.
  intros s rc m r k fuel res Hf Hrc Hfu Hres.
  pose proof (fetch_file_line_inv_weak s rc m r Hf Hrc) as Hinv.
  apply (tokens_of_line_cur_safe k fuel m 0 [] [] res Hinv); auto. constructor.
Qed.

Lemma tokenizer_in_bounds_refuted :
  exists (m : mem) tr r m' o',
    cap m = 120 /\ bytes_from m 0 120 = repeat 120 119 ++ [0] /\
    next_token_line 200 m 0 = Done (r, m', o', tr) /\ ~ in_bounds (cap m) tr.
Proof.
  destruct next_token_writes_past_buffer as [tr [r [m' [o' [H1 [H2 H3]]]]]].
  exists line119, tr, r, m', o'. split; [exact H3|]. split; [vm_compute; reflexivity|].
  split; [exact H1|]. intro Hb. unfold in_bounds in Hb. rewrite Forall_forall in Hb.
  specialize (Hb 120 H2). rewrite H3 in Hb. lia.
Qed.
