(* C09 model, part 3a (definitions only): what GMP 6.2.1 and glibc do with a TOKEN
   (a non-empty byte string without white space and without NUL), as far as the parsers
   look at it: accept / reject of mpf_set_str and mpq_set_str in base 10 (transcribed from
   mpf/set_str.c, mpz/set_str.c, mpq/set_str.c), the numerator and denominator mpq_set_str
   stores (NOT canonicalised), strtol-based atoi and sscanf %d / %ld of glibc,
   mps_utils_parse_long (strtol with a range check, common/utils.c), and the
   `long = int_or_long * LOG2_10` conversion through a double.

   These concrete functions are used by the extracted model and by the refutation
   witnesses only; the universally quantified theorems of WholeFileProps.v take the two
   GMP functions as parameters (any accept / reject function). *)
Require Import ZArith List Bool.
Require Import MPSV.ParseTotal.Tokenizer MPSV.ParseTotal.OptionLine.
Import ListNotations.
Open Scope Z_scope.

Definition isdigit (c : Z) : bool := (48 <=? c) && (c <=? 57).

(* ------------------------------------------------------------------ mpz / mpq *)
Fixpoint digits_val (l : list Z) (acc : Z) : Z :=        (* value of the leading digits *)
  match l with
  | c :: r => if isdigit c then digits_val r (10 * acc + (c - 48)) else acc
  | [] => acc
  end.

Definition all_digits (l : list Z) : bool := forallb isdigit l.

(* mpz_set_str (x, t, 10): optional '-', then at least one digit, then digits only *)
Definition mpz_str (t : list Z) : option Z :=
  let '(neg, d) := match t with c :: r => if c =? 45 then (true, r) else (false, t) | [] => (false, t) end in
  match d with
  | [] => None
  | _ => if all_digits d then Some (if neg then - digits_val d 0 else digits_val d 0) else None
  end.

Fixpoint split_slash (t : list Z) : option (list Z * list Z) :=       (* strchr (str, '/') *)
  match t with
  | [] => None
  | c :: r => if c =? 47 then Some ([], r)
              else match split_slash r with
                   | Some (a, b) => Some (c :: a, b)
                   | None => None
                   end
  end.

(* mpq_set_str (q, t, 10) == 0 -> Some (numerator, denominator) as stored *)
Definition gmpq621 (t : list Z) : option (Z * Z) :=
  match split_slash t with
  | None => match mpz_str t with Some n => Some (n, 1) | None => None end
  | Some (a, b) =>
      match mpz_str a with
      | None => None
      | Some n => match mpz_str b with Some d => Some (n, d) | None => None end
      end
  end.

(* ------------------------------------------------------------------ mpf *)
Definition is_expmark (c : Z) : bool := (c =? 64) || (c =? 101) || (c =? 69).     (* '@' 'e' 'E' *)

(* the right-most exponent marker among str[1..]: (mantissa part of the tail, exponent) *)
Fixpoint split_last_mark (l : list Z) : option (list Z * list Z) :=
  match l with
  | [] => None
  | c :: r =>
      match split_last_mark r with
      | Some (a, b) => Some (c :: a, b)
      | None => if is_expmark c then Some ([], r) else None
      end
  end.

(* the mantissa loop: digits and at most one '.'; Some true = every digit is 0 (str_size == 0) *)
Fixpoint mant_scan (l : list Z) (dot : bool) (allzero : bool) : option bool :=
  match l with
  | [] => Some allzero
  | c :: r =>
      if c =? 46 then (if dot then None else mant_scan r true allzero)
      else if isdigit c then mant_scan r dot (allzero && (c =? 48))
      else None
  end.

Definition exp_ok (e : list Z) : bool :=
  let e1 := match e with c :: r => if (c =? 45) || (c =? 43) then r else e | [] => e end in
  match e1 with c :: _ => isdigit c | [] => false end.

(* mpf_set_str (x, t, 10) == 0 *)
Definition gmpf621 (t : list Z) : bool :=
  let s := match t with c :: r => if c =? 45 then r else t | [] => t end in
  match s with
  | [] => false
  | c :: r =>
      let first_ok :=
        if isdigit c then true
        else if c =? 46 then match r with d :: _ => isdigit d | [] => false end
        else false in
      if negb first_ok then false
      else
        match split_last_mark r with
        | None => match mant_scan s false true with Some _ => true | None => false end
        | Some (a, e) =>
            match mant_scan (c :: a) false true with
            | None => false
            | Some true => true               (* zero mantissa: returns before looking at the exponent *)
            | Some false => exp_ok e
            end
        end
  end.

(* ------------------------------------------------------------------ glibc *)
Definition long_min : Z := - 9223372036854775808.
Definition long_max : Z := 9223372036854775807.

(* strtol (s, NULL, 10): None = no conversion *)
Definition strtol10 (l : list Z) : option Z :=
  let l0 := drop_spaces l in
  let '(neg, l1) := match l0 with
                    | c :: r => if c =? 45 then (true, r) else if c =? 43 then (false, r) else (false, l0)
                    | [] => (false, l0)
                    end in
  match l1 with
  | c :: _ => if isdigit c
              then let v := digits_val l1 0 in Some (if neg then Z.max long_min (- v) else Z.min long_max v)
              else None
  | [] => None
  end.

(* the value strtol reads before it saturates: None = no conversion (end == string) *)
Definition strtol10_exact (l : list Z) : option Z :=
  let l0 := drop_spaces l in
  let '(neg, l1) := match l0 with
                    | c :: r => if c =? 45 then (true, r) else if c =? 43 then (false, r) else (false, l0)
                    | [] => (false, l0)
                    end in
  match l1 with
  | c :: _ => if isdigit c then let v := digits_val l1 0 in Some (if neg then - v else v) else None
  | [] => None
  end.

Definition int_max : Z := 2147483647.

(* common/utils.c mps_utils_parse_long (string, min, max, &value) (commit 9e1e2262):
     errno = 0; v = strtol (string, &end, 10);
     if (end == string || errno == ERANGE || v < min || v > max) return false;
   ERANGE = the digits denote a number outside the range of long.  Some v = true, *value = v *)
Definition parse_long (l : list Z) (lo hi : Z) : option Z :=
  match strtol10_exact l with
  | None => None
  | Some v => if (v <? long_min) || (long_max <? v) || (v <? lo) || (hi <? v) then None else Some v
  end.

Definition to_int (z : Z) : Z := (z + 2147483648) mod 4294967296 - 2147483648.

Definition atoi (l : list Z) : Z := to_int (match strtol10 l with Some v => v | None => 0 end).
Definition sscanf_d (t : list Z) : option Z := option_map to_int (strtol10 t).     (* "%d" *)
Definition sscanf_ld (t : list Z) : option Z := strtol10 t.                        (* "%ld" *)

(* x * 2^e (x >= 0) rounded to 53 significant bits, ties to even *)
Definition rnd53 (x e : Z) : Z * Z :=
  let b := Z.log2 x + 1 in
  if b <=? 53 then (x, e)
  else
    let sh := b - 53 in
    let q := Z.shiftr x sh in
    let r := x - Z.shiftl q sh in
    let half := Z.shiftl 1 (sh - 1) in
    let q' := if r <? half then q else if half <? r then q + 1 else if Z.even q then q else q + 1 in
    (q', e + sh).

Definition log2_10_mant : Z := 7480317065143153.      (* LOG2_10 = 0x1.a934f0979a371p+1 = mant * 2^-51 *)

(* (long) ((double) a * LOG2_10); outside the range of long: the x86-64 "indefinite" value *)
Definition mul_log2_10 (a : Z) : Z :=
  if a =? 0 then 0
  else
    let '(x1, e1) := rnd53 (Z.abs a) 0 in
    let '(x2, e2) := rnd53 (x1 * log2_10_mant) (e1 - 51) in
    let mag := if 0 <=? e2 then Z.shiftl x2 e2 else Z.shiftr x2 (- e2) in
    let v := if a <? 0 then - mag else mag in
    if (v <? long_min) || (long_max <? v) then long_min else v.
