(* C09: proofs about the whole-file model of WholeFile.v, part 2: the option loop, the
   coefficient readers and the entry points.  GMP's two string readers, the presence of
   the Chebyshev index check and the input are universally quantified. *)
Require Import ZArith List Bool Lia ZifyBool String.
Require Import MPSV.ParseTotal.Tokenizer MPSV.ParseTotal.OptionLine.
Require Import MPSV.ParseTotal.TokenizerProps MPSV.ParseTotal.OptionLineProps.
Require Import MPSV.ParseTotal.Gmp621 MPSV.ParseTotal.WholeFile MPSV.ParseTotal.WholeFileProps.
Import ListNotations.
Open Scope Z_scope.

Definition emsg_nonempty (e : emsg) : Prop :=
  match e with
  | EMsg s => s <> []
  | EIndet f => exists c r, f = c :: r /\ c <> 37       (* the text starts with a literal character *)
  end.

Ltac msg_ok :=
  vm_compute;
  first [ discriminate
        | (let HH := fresh in intro HH; discriminate HH)
        | (eexists _, _; split; [reflexivity | let HH := fresh in intro HH; discriminate HH]) ].

Lemma tok_err_nonempty : forall b tok msg, 0 <= lnum b -> emsg_nonempty (tok_err b tok msg).
Proof.
  intros b tok msg H. unfold tok_err. rewrite raise_parsing_error_fixed_literal by exact H. simpl.
  intro E. discriminate E.
Qed.

(* ---------------------------------------------------------------- messages built at end of input *)
Lemma interp_literal_prefix :
  forall pre rest args acc used, forallb (fun c => negb (c =? 37)) pre = true ->
    interp (pre ++ rest) args acc used = interp rest args (rev pre ++ acc) used.
Proof.
  induction pre as [|a pre IH]; intros rest args acc used H; [reflexivity|].
  simpl in H. apply andb_prop in H. destruct H as [Ha Hp].
  apply negb_true_iff in Ha.
  change ((a :: pre) ++ rest) with (a :: (pre ++ rest)).
  change (interp (a :: (pre ++ rest)) args acc used)
    with (if a =? 37
          then match pre ++ rest with
               | [] => FWild
               | d :: r1 =>
                   if d =? 37 then interp r1 args (37 :: acc) used
                   else if d =? 115 then match args with AStr s :: a' => interp r1 a' (rev s ++ acc) (S used) | _ => FWild end
                   else if d =? 100 then match args with AInt z :: a' => interp r1 a' (rev (dec z) ++ acc) (S used) | _ => FWild end
                   else if d =? 108 then
                     match r1 with
                     | e :: r2 => if e =? 100 then match args with AInt z :: a' => interp r2 a' (rev (dec z) ++ acc) (S used) | _ => FWild end
                                  else FWild
                     | [] => FWild
                     end
                   else FWild
               end
          else interp (pre ++ rest) args (a :: acc) used).
  rewrite Ha. rewrite IH by exact Hp. simpl. rewrite <- app_assoc. reflexivity.
Qed.

Lemma null_err_text :
  forall msg args text u, interp msg args [] 0 = FOk text u -> null_err msg args = EMsg text.
Proof.
  intros msg args text u H. unfold null_err. rewrite H. unfold mps_error_fixed.
  change (str "%s") with [37; 115]. simpl. rewrite app_nil_r, rev_involutive. reflexivity.
Qed.

(* "<literal text>%d" with its int argument *)
Lemma null_err_d :
  forall pre d, forallb (fun c => negb (c =? 37)) pre = true ->
    null_err (pre ++ str "%d") [AInt d] = EMsg (pre ++ dec d).
Proof.
  intros pre d H. eapply null_err_text. rewrite interp_literal_prefix by exact H.
  change (str "%d") with [37; 100]. simpl. rewrite app_nil_r, rev_app_distr, !rev_involutive. reflexivity.
Qed.

Lemma null_err_d_nonempty :
  forall pre d, forallb (fun c => negb (c =? 37)) pre = true -> pre <> [] ->
    emsg_nonempty (null_err (pre ++ str "%d") [AInt d]).
Proof.
  intros pre d H Hn. rewrite null_err_d by exact H. simpl. destruct pre; [congruence|discriminate].
Qed.

Lemma skip_line_fixed_len :
  forall fuel s r, skip_line_fixed fuel s = Done r -> (List.length r <= List.length s)%nat.
Proof.
  induction fuel as [|f IH]; intros s r H; simpl in H; [discriminate|].
  destruct s as [|c t]; [inversion H; subst; auto|].
  destruct (c =? 10); [inversion H; subst; simpl; lia|]. apply IH in H. simpl. lia.
Qed.

Lemma skip_comments_fixed_len :
  forall fuel s r, skip_comments_fixed fuel s = Done r -> (List.length r <= List.length s)%nat.
Proof.
  induction fuel as [|f IH]; intros s r H; simpl in H; [discriminate|].
  destruct s as [|c t]; [inversion H; subst; auto|].
  destruct (c =? 33).
  - destruct (skip_line_fixed f t) as [r'| |w] eqn:E; try discriminate.
    apply skip_line_fixed_len in E. apply IH in H. simpl. lia.
  - destruct (isspace c); [apply IH in H; simpl; lia|inversion H; subst; auto].
Qed.


(* ---------------------------------------------------------------- the option-line walk *)
Lemma find_semi_spec :
  forall m t, get m t = 0 -> t < cap m ->
  forall fuel p tr0, 0 <= p <= t -> t - p < Z.of_nat fuel -> in_bounds (cap m) tr0 ->
  exists res tr, find_semi fuel m p tr0 = Done (res, tr) /\ in_bounds (cap m) tr /\
    match res with
    | None => True
    | Some j => p <= j <= t /\ get m j = 59 /\ (forall i, p <= i < j -> get m i <> 0)
    end.
Proof.
  intros m t Ht Hc. induction fuel as [|f IH]; intros p tr0 Hp Hf Hb; [simpl in Hf; lia|].
  simpl. destruct (get m p =? 59) eqn:E1.
  - eexists _, _. split; [reflexivity|]. split; [constructor; auto; lia|].
    split; [lia|]. split; [lia|]. intros i Hi. lia.
  - destruct (get m p =? 0) eqn:E0.
    + eexists _, _. split; [reflexivity|]. split; [constructor; auto; lia|exact I].
    + assert (p <> t) by (intro; subst; lia).
      destruct (IH (p + 1) (p :: tr0)) as [res [tr [H1 [H2 H3]]]]; try lia.
      { constructor; auto; lia. }
      exists res, tr. split; auto. split; auto. destruct res as [j|]; auto.
      destruct H3 as [K1 [K2 K3]]. split; [lia|]. split; auto.
      intros i Hi. destruct (Z.eq_dec i p); [subst; lia|apply K3; lia].
Qed.

Lemma find_semi_finds :
  forall m c j, get m j = 59 -> j < c ->
  forall fuel p tr0, 0 <= p <= j -> (forall i, p <= i < j -> get m i <> 0) -> j - p < Z.of_nat fuel ->
  in_bounds c tr0 ->
  exists j' tr, find_semi fuel m p tr0 = Done (Some j', tr) /\ in_bounds c tr /\ p <= j' <= j.
Proof.
  intros m c j Hj Hc. induction fuel as [|f IH]; intros p tr0 Hp Hnz Hf Hb; [simpl in Hf; lia|].
  simpl. destruct (get m p =? 59) eqn:E1.
  - eexists _, _. split; [reflexivity|]. split; [constructor; auto; lia|lia].
  - assert (p <> j) by (intro; subst; lia).
    assert (get m p <> 0) by (apply Hnz; lia).
    replace (get m p =? 0) with false by lia.
    destruct (IH (p + 1) (p :: tr0)) as [j' [tr [H1 [H2 H3]]]]; try lia.
    { intros i Hi. apply Hnz. lia. }
    { constructor; auto; lia. }
    exists j', tr. split; auto. split; auto. lia.
Qed.

Lemma cstr_spec :
  forall m t, get m t = 0 -> t < cap m ->
  forall fuel p tr0, 0 <= p <= t -> t - p < Z.of_nat fuel -> in_bounds (cap m) tr0 ->
  exists l tr, cstr fuel m p tr0 = Done (l, tr) /\ in_bounds (cap m) tr.
Proof.
  intros m t Ht Hc. induction fuel as [|f IH]; intros p tr0 Hp Hf Hb; [simpl in Hf; lia|].
  simpl. destruct (get m p =? 0) eqn:E0.
  - eexists _, _. split; [reflexivity|]. constructor; auto; lia.
  - assert (p <> t) by (intro; subst; lia).
    destruct (IH (p + 1) (p :: tr0)) as [l [tr [H1 H2]]]; try lia.
    { constructor; auto; lia. }
    rewrite H1. eexists _, _. split; [reflexivity|]. exact H2.
Qed.

Lemma lead_spaces_spec :
  forall m c j, get m j = 59 -> j < c ->
  forall fuel fc p rl tr0, 0 <= p <= j -> j - p < Z.of_nat fuel -> in_bounds c tr0 ->
  exists opt rl' tr, lead_spaces fuel m p fc rl tr0 = Done (opt, rl', tr) /\ in_bounds c tr /\ p <= opt <= j.
Proof.
  intros m c j Hj Hc. induction fuel as [|f IH]; intros fc p rl tr0 Hp Hf Hb; [simpl in Hf; lia|].
  simpl.
  destruct (isspace (get m p) && match fc with Some q => p <? q | None => true end) eqn:E.
  - assert (p <> j).
    { intro; subst p. rewrite Hj in E. simpl in E. discriminate E. }
    destruct (IH fc (p + 1) ((rl - 1) mod two64) (p :: tr0)) as [opt [rl' [tr [H1 [H2 H3]]]]]; try lia.
    { constructor; auto; lia. }
    exists opt, rl', tr. split; auto. split; auto. lia.
  - eexists _, _, _. split; [reflexivity|]. split; [constructor; auto; lia|lia].
Qed.

(* mps_parse_option_line on a line that has a ';' before its terminator: either the
   length error, or the walk ends with every access inside the buffer and one NUL written *)
Lemma option_walk_fixed_safe :
  forall m t j fuel len,
    0 <= j -> j < t -> t < cap m -> get m t = 0 -> get m j = 59 ->
    (forall i, 0 <= i < j -> get m i <> 0) -> t < Z.of_nat fuel ->
    option_walk_fixed fuel m len = Done WTooLong \/
    exists opt o q tr, option_walk_fixed fuel m len = Done (WOption opt o (upd m q 0) tr) /\ in_bounds (cap m) tr.
Proof.
  intros m t j fuel len Hj0 Hjt Htc Ht Hj Hnz Hf. unfold option_walk_fixed.
  destruct (255 <? len); [left; reflexivity|right].
  destruct (find_bang_spec m t Ht Htc fuel 0 []) as [fc [t0 [B1 [B2 _]]]]; try lia.
  { constructor. }
  rewrite B1.
  destruct (lead_spaces_spec m (cap m) j Hj ltac:(lia) fuel fc 0
              (match fc with Some q => q | None => len end) t0) as [opt [rl1 [t1 [L1 [L2 L3]]]]]; try lia; auto.
  rewrite L1.
  destruct (find_semi_finds m (cap m) j Hj ltac:(lia) fuel opt t1) as [semi [t2 [S1 [S2 S3]]]]; try lia; auto.
  { intros i Hi. apply Hnz. lia. }
  rewrite S1.
  destruct (back_scan_fixed_in_bounds m (cap m) opt fuel semi t2) as [q [t3 [K1 [K2 K3]]]]; try lia; auto.
  rewrite K1.
  assert (Hq : get (upd m q 0) q = 0) by apply upd_same.
  destruct (cstr_spec (upd m q 0) q Hq ltac:(simpl; lia) fuel opt (q :: t3)) as [o [t4 [C1 C2]]]; try lia.
  { simpl. constructor; auto. lia. }
  rewrite C1. exists opt, o, q, t4. split; [reflexivity|]. exact C2.
Qed.

(* classify: the error is always the "Unrecognized option" one; a key has a value *)
Lemma keyword_flag_not_key : forall o, keyword_flag o <> FDegree /\ keyword_flag o <> FPrecision.
Proof.
  intro o. unfold keyword_flag. cbv zeta.
  repeat match goal with |- context [if ?c then _ else _] => destruct c end; split; discriminate.
Qed.

Lemma classify_fixed_err :
  forall o fl v me, classify_fixed o = (fl, v, Some me) ->
  exists x, me = mps_error_fixed (str "Unrecognized option: %s") [AStr x].
Proof.
  intros o fl v me H. unfold classify_fixed in H. cbv zeta in H.
  destruct (split_eq o) as [[k v']|].
  - match type of H with context [is_undefined ?f] => destruct (is_undefined f) end;
      inversion H; eauto.
  - destruct (is_undefined (keyword_flag o)); inversion H; eauto.
Qed.

Lemma classify_fixed_value :
  forall o fl e, classify_fixed o = (fl, None, e) -> fl <> FDegree /\ fl <> FPrecision.
Proof.
  intros o fl e H. unfold classify_fixed in H. cbv zeta in H.
  destruct (split_eq o) as [[k v']|]; inversion H. apply keyword_flag_not_key.
Qed.

Section Total.
  Variable gmpf : list Z -> bool.
  Variable gmpq : list Z -> option (Z * Z).
  Variable chk : bool.
  Variable B : budget.
  Variable M0 : Z.
  Hypothesis HBl : M0 + 2 <= Z.of_nat (bl B).
  Hypothesis HBs : M0 + 2 <= Z.of_nat (bs B).

  (* a token that mpq_set_str accepts with a non-positive denominator or a zero numerator *)
  Definition qbad : Prop := exists t n d, gmpq t = Some (n, d) /\ (d <= 0 \/ n = 0).

  (* the modelled undefined behaviours, and what makes them reachable *)
  Definition allowed (w : Z) : Prop := ((w = 2 \/ w = 3) /\ qbad) \/ (w = 4 /\ chk = false).

  Definition sgood {A : Type} (Q : A -> lbuf -> Prop) (s : step A) : Prop :=
    match s with
    | SOk a b => Q a b
    | SErr e b => lok b = true /\ emsg_nonempty e
    | SFuel => False
    | SCrash w b => lok b = true /\ allowed w
    end.

  Notation INV := (Inv M0).

  Lemma sgood_bind :
    forall (A C : Type) (Q : A -> lbuf -> Prop) (R : C -> lbuf -> Prop) (s : step A) (f : A -> lbuf -> step C),
      sgood Q s -> (forall a b, Q a b -> sgood R (f a b)) -> sgood R (sbind s f).
  Proof. intros A C Q R s f H1 H2. destruct s; simpl in *; auto. Qed.

  Lemma sgood_mono :
    forall (A : Type) (Q Q' : A -> lbuf -> Prop) (s : step A),
      sgood Q s -> (forall a b, Q a b -> Q' a b) -> sgood Q' s.
  Proof. intros A Q Q' s H1 H2. destruct s; simpl in *; auto. Qed.

  Definition Lt (M : Z) (A : Type) : A -> lbuf -> Prop := fun _ b' => exists M', M' < M /\ INV b' M'.
  Definition Le (M : Z) (A : Type) : A -> lbuf -> Prop := fun _ b' => exists M', M' <= M /\ INV b' M'.

  Lemma Inv_lok : forall b M, INV b M -> lok b = true.
  Proof. intros b M H. apply H. Qed.
  Lemma Inv_lnum : forall b M, INV b M -> 0 <= lnum b.
  Proof. intros b M H. apply H. Qed.

  Lemma tok_bind_good :
    forall (C : Type) (R : C -> lbuf -> Prop) b M (f : option (list Z) -> lbuf -> step C),
      INV b M ->
      (forall t b1, match t with Some _ => INV b1 (M - 1) | None => INV b1 M end -> sgood R (f t b1)) ->
      sgood R (sbind (next_token B b) f).
  Proof.
    intros C R b M f HI Hf. pose proof (next_token_good B M0 HBl HBs b M HI) as T.
    destruct (next_token B b) as [t b1|e b1| |w b1]; simpl in *; try contradiction.
    apply Hf. destruct t; exact T.
  Qed.

  (* ---------------------------------------------------------------- one token *)
  Lemma expect_f_at_good :
    forall inr msg args b M, INV b M -> emsg_nonempty (null_err msg args) -> (inr = false -> chk = false) ->
    sgood (fun _ b' => INV b' (M - 1)) (expect_f_at gmpf B inr msg args b).
  Proof.
    intros inr msg args b M HI Hm Hc. unfold expect_f_at. eapply tok_bind_good; eauto.
    intros [tok|] b1 T; simpl.
    - destruct inr; simpl.
      + destruct (gmpf tok); simpl; auto. split; [eapply Inv_lok; eauto|].
        apply tok_err_nonempty. eapply Inv_lnum; eauto.
      + split; [eapply Inv_lok; eauto|]. right. auto.
    - split; [eapply Inv_lok; eauto|auto].
  Qed.

  Definition qfrom (q : Z * Z) : Prop := exists t, gmpq t = Some q.

  Lemma expect_q_at_good :
    forall inr msg args b M, INV b M -> emsg_nonempty (null_err msg args) -> (inr = false -> chk = false) ->
    sgood (fun q b' => INV b' (M - 1) /\ qfrom q) (expect_q_at gmpq B inr msg args b).
  Proof.
    intros inr msg args b M HI Hm Hc. unfold expect_q_at. eapply tok_bind_good; eauto.
    intros [tok|] b1 T; simpl.
    - destruct inr; simpl.
      + destruct (gmpq tok) as [q|] eqn:E; simpl.
        * split; auto. exists tok. auto.
        * split; [eapply Inv_lok; eauto|]. apply tok_err_nonempty. eapply Inv_lnum; eauto.
      + split; [eapply Inv_lok; eauto|]. right. auto.
    - split; [eapply Inv_lok; eauto|auto].
  Qed.

  Lemma canon_good : forall q b M, qfrom q -> INV b M -> sgood (fun _ b' => INV b' M) (canon q b).
  Proof.
    intros [n d] b M [t Ht] HI. unfold canon. simpl. destruct (d =? 0) eqn:E; simpl; auto.
    split; [eapply Inv_lok; eauto|]. left. split; [left; auto|]. exists t, n, d. split; auto. left. lia.
  Qed.

  Lemma expect_qc_at_good :
    forall inr msg args b M, INV b M -> emsg_nonempty (null_err msg args) -> (inr = false -> chk = false) ->
    sgood (fun _ b' => INV b' (M - 1)) (expect_qc_at gmpq B inr msg args b).
  Proof.
    intros inr msg args b M HI Hm Hc. unfold expect_qc_at.
    eapply sgood_bind; [apply expect_q_at_good; eauto|].
    intros q b1 [H1 H2]. apply canon_good; auto.
  Qed.

  Lemma coef_at_good :
    forall inr k cplx m1 a1 m2 a2 b M,
      INV b M -> emsg_nonempty (null_err m1 a1) -> emsg_nonempty (null_err m2 a2) -> (inr = false -> chk = false) ->
      sgood (Lt M unit) (coef_at gmpf gmpq B inr k cplx m1 a1 m2 a2 b).
  Proof.
    intros inr k cplx m1 a1 m2 a2 b M HI H1 H2 Hc. unfold coef_at.
    assert (Hq : sgood (Lt M unit)
                   (sbind (expect_qc_at gmpq B inr m1 a1 b)
                          (fun _ b1 => if cplx then expect_qc_at gmpq B inr m2 a2 b1 else SOk tt b1))).
    { eapply sgood_bind; [apply expect_qc_at_good; eauto|].
      intros ? b1 K; cbv beta in K. destruct cplx.
      - eapply sgood_mono; [apply expect_qc_at_good; eauto|].
        intros ? b2 K2; cbv beta in K2. exists (M - 1 - 1). split; [lia|auto].
      - simpl. exists (M - 1). split; [lia|auto]. }
    destruct k; auto.
    eapply sgood_bind; [apply expect_f_at_good; eauto|].
    intros ? b1 K; cbv beta in K. destruct cplx.
    - eapply sgood_mono; [apply expect_f_at_good; eauto|].
      intros ? b2 K2; cbv beta in K2. exists (M - 1 - 1). split; [lia|auto].
    - simpl. exists (M - 1). split; [lia|auto].
  Qed.

  Lemma coef_good :
    forall k cplx m1 m2 b M,
      INV b M -> emsg_nonempty (null_err m1 []) -> emsg_nonempty (null_err m2 []) ->
      sgood (Lt M unit) (coef gmpf gmpq B k cplx m1 m2 b).
  Proof. intros. unfold coef. apply coef_at_good; auto. discriminate. Qed.

  (* ---------------------------------------------------------------- loops *)
  Lemma for_loop_good :
    forall body, (forall i b M, INV b M -> sgood (Lt M unit) (body i b)) ->
    forall fuel i hi b M, INV b M -> M < Z.of_nat fuel -> sgood (Le M unit) (for_loop fuel body i hi b).
  Proof.
    intros body Hb. induction fuel as [|f IH]; intros i hi b M HI Hf.
    - pose proof (Inv_nonneg B _ _ _ HI). simpl in Hf. lia.
    - simpl. destruct (hi <? i).
      + simpl. exists M. split; [lia|auto].
      + eapply sgood_bind; [apply Hb; eauto|].
        intros ? b1 HQ_; cbv beta in HQ_; destruct HQ_ as [M1 [L1 I1]].
        eapply sgood_mono; [apply (IH (i + 1) hi b1 M1 I1); lia|].
        intros ? b2 HQ_; cbv beta in HQ_; destruct HQ_ as [M2 [L2 I2]]. exists M2. split; [lia|auto].
  Qed.

  Lemma while_tok_good :
    forall (S : Type) (body : list Z -> S -> lbuf -> step S),
      (forall tok st b M, INV b M -> sgood (Le M S) (body tok st b)) ->
      forall fuel st b M, INV b M -> M < Z.of_nat fuel -> sgood (Le M S) (while_tok fuel B body st b).
  Proof.
    intros S body Hb. induction fuel as [|f IH]; intros st b M HI Hf.
    - pose proof (Inv_nonneg B _ _ _ HI). simpl in Hf. lia.
    - simpl. eapply tok_bind_good; eauto.
      intros [tok|] b1 T.
      + eapply sgood_bind; [apply Hb; eauto|].
        intros st' b2 [M2 [L2 I2]].
        eapply sgood_mono; [apply (IH st' b2 M2 I2); lia|].
        intros ? b3 HQ_; cbv beta in HQ_; destruct HQ_ as [M3 [L3 I3]]. exists M3. split; [lia|auto].
      + simpl. exists M. split; [lia|auto].
  Qed.

  Lemma add_work_inv : forall b w M, INV b M -> INV (add_work b w) M.
  Proof. intros b w M [H1 [H2 [H3 H4]]]. repeat split; auto. Qed.

  Definition QF : poly -> lbuf -> Prop := fun _ b' => lok b' = true.

  Lemma M_lt_bl : forall b M, INV b M -> M < Z.of_nat (bl B).
  Proof. intros b M [_ [_ [H _]]]. lia. Qed.

  Lemma finish_good :
    forall (A : Type) (s : step A) (M : Z) (p : poly),
      sgood (Le M A) s -> sgood QF (sbind s (fun _ b' => SOk p b')).
  Proof.
    intros A s M p H. eapply sgood_bind; [exact H|].
    intros ? b' [M' [_ I]]. simpl. unfold QF. eapply Inv_lok; eauto.
  Qed.

  (* ---------------------------------------------------------------- the readers *)
  Lemma sparse_body_good :
    forall n cf, (forall b M, INV b M -> sgood (Lt M unit) (cf b)) ->
    forall tok sp b M, INV b M -> sgood (Le M (list Z)) (sparse_body n cf tok sp b).
  Proof.
    intros n cf Hcf tok sp b M HI. unfold sparse_body.
    assert (He : forall msg, sgood (Le M (list Z)) (SErr (tok_err b tok msg) b)).
    { intro msg. simpl. split; [eapply Inv_lok; eauto|]. apply tok_err_nonempty. eapply Inv_lnum; eauto. }
    destruct (parse_long tok long_min long_max) as [i|]; [|apply He].
    destruct ((i <? 0) || (n <? i)); [apply He|].
    destruct (seen i sp); [apply He|].
    eapply sgood_bind; [apply Hcf; eauto|].
    intros ? b1 HQ_; cbv beta in HQ_; destruct HQ_ as [M1 [L1 I1]]. simpl. exists M1. split; [lia|auto].
  Qed.

  Lemma read_monomial_good :
    forall o b M, INV b M -> sgood QF (read_monomial gmpf gmpq B o b).
  Proof.
    intros o b M HI. unfold read_monomial.
    assert (Hcf : forall b M, INV b M -> sgood (Lt M unit) (coef gmpf gmpq B (o_kind o) (o_cplx o) msg_mono msg_mono b)).
    { intros. apply coef_good; auto; msg_ok. }
    pose proof (add_work_inv b (o_n o + 1) M HI) as HI'.
    destruct (o_sparse o).
    - eapply finish_good. apply while_tok_good; eauto.
      + intros. apply sparse_body_good; auto.
      + eapply M_lt_bl; eauto.
    - eapply finish_good. apply for_loop_good; eauto. eapply M_lt_bl; eauto.
  Qed.

  Lemma bind_coef_lt :
    forall (f g : lbuf -> step unit),
      (forall b M, INV b M -> sgood (Lt M unit) (f b)) ->
      (forall b M, INV b M -> sgood (Lt M unit) (g b)) ->
      forall b M, INV b M -> sgood (Lt M unit) (sbind (f b) (fun _ b2 => g b2)).
  Proof.
    intros f g Hf Hg b M HI. eapply sgood_bind; [apply Hf; eauto|].
    intros ? b1 HQ_; cbv beta in HQ_; destruct HQ_ as [M1 [L1 I1]]. eapply sgood_mono; [apply Hg; eauto|].
    intros ? b2 HQ_; cbv beta in HQ_; destruct HQ_ as [M2 [L2 I2]]. exists M2. split; [lia|auto].
  Qed.

  Lemma read_secular_good :
    forall o b M, INV b M -> sgood QF (read_secular gmpf gmpq B o b).
  Proof.
    intros o b M HI. unfold read_secular.
    pose proof (add_work_inv b (o_n o) M HI) as HI'.
    eapply finish_good. apply for_loop_good; eauto; [|eapply M_lt_bl; eauto].
    intros i b1 M1 I1.
    destruct (o_kind o); apply bind_coef_lt; auto; intros; apply coef_good; auto; msg_ok.
  Qed.

  Lemma cheb_sparse_body_good :
    forall o tok u b M, INV b M -> sgood (Le M unit) (cheb_sparse_body gmpf gmpq chk B o tok u b).
  Proof.
    intros o tok u b M HI. unfold cheb_sparse_body.
    assert (He : forall msg, sgood (Le M unit) (SErr (tok_err b tok msg) b)).
    { intro msg. simpl. split; [eapply Inv_lok; eauto|]. apply tok_err_nonempty. eapply Inv_lnum; eauto. }
    destruct (sscanf_d tok) as [d|]; [|apply He].
    destruct (chk && negb ((0 <=? d) && (d <=? o_n o))) eqn:Ec; [apply He|].
    assert (Hc : (0 <=? d) && (d <=? o_n o) = false -> chk = false).
    { intro E. rewrite E in Ec. simpl in Ec. destruct chk; auto. }
    assert (Hw : forall s, sgood (Lt M unit) s -> sgood (Le M unit) s).
    { intros s Hs. eapply sgood_mono; [exact Hs|]. intros ? b1 HQ_; cbv beta in HQ_; destruct HQ_ as [M1 [L1 I1]]. exists M1. split; [lia|auto]. }
    destruct (o_kind o); apply Hw; apply coef_at_good; auto;
      first [ apply null_err_d_nonempty; [vm_compute; reflexivity|vm_compute; discriminate] | msg_ok ].
  Qed.

  Lemma read_chebyshev_good :
    forall o b M, INV b M -> sgood QF (read_chebyshev gmpf gmpq chk B o b).
  Proof.
    intros o b M HI. unfold read_chebyshev.
    pose proof (add_work_inv b (o_n o + 1) M HI) as HI'.
    destruct (o_sparse o).
    - eapply finish_good. apply while_tok_good; eauto.
      + intros. apply cheb_sparse_body_good; auto.
      + eapply M_lt_bl; eauto.
    - eapply finish_good. apply for_loop_good; eauto; [|eapply M_lt_bl; eauto].
      intros i b1 M1 I1. destruct (o_kind o); apply coef_good; auto; msg_ok.
  Qed.

  (* legacy 2.x *)
  Lemma legacy_div_good :
    forall q1 q2 b M, qfrom q1 -> qfrom q2 -> INV b M -> sgood (fun _ b' => INV b' M) (legacy_div q1 q2 b).
  Proof.
    intros [n1 d1] [n2 d2] b M [t1 H1] [t2 H2] HI. unfold legacy_div. simpl.
    pose proof (Inv_lok _ _ HI) as Hl.
    destruct (n2 =? 0) eqn:E1.
    { simpl. split; auto. left. split; [left; auto|]. exists t2, n2, d2. split; auto. right. lia. }
    destruct (n1 =? 0) eqn:E2; [simpl; auto|].
    destruct (d2 <=? 0) eqn:E3.
    { simpl. split; auto. left. split; [right; auto|]. exists t2, n2, d2. split; auto. left. lia. }
    destruct (d1 =? 0) eqn:E4; [|simpl; auto].
    simpl. split; auto. left. split; [left; auto|]. exists t1, n1, d1. split; auto. left. lia.
  Qed.

  Lemma legacy_rat_part_good :
    forall b M, INV b M -> sgood (Lt M unit) (legacy_rat_part gmpq B b).
  Proof.
    intros b M HI. unfold legacy_rat_part.
    eapply sgood_bind; [apply expect_q_at_good; eauto; [msg_ok|discriminate]|].
    intros [n1 d1] b1 [I1 Q1]. simpl. destruct (d1 <? 0) eqn:E.
    - simpl. split; [eapply Inv_lok; eauto|]. left. split; [right; auto|].
      destruct Q1 as [t Ht]. exists t, n1, d1. split; auto. left. lia.
    - eapply sgood_bind; [apply expect_q_at_good; eauto; [msg_ok|discriminate]|].
      intros q2 b2 [I2 Q2]. eapply sgood_mono; [apply legacy_div_good; eauto|].
      intros ? b3 I3; cbv beta in I3. exists (M - 1 - 1). split; [lia|auto].
  Qed.

  Lemma legacy_coef_good :
    forall k cplx b M, INV b M -> sgood (Lt M unit) (legacy_coef gmpf gmpq B k cplx b).
  Proof.
    intros k cplx b M HI. unfold legacy_coef.
    destruct k; try (apply coef_good; auto; msg_ok).
    eapply sgood_bind; [apply legacy_rat_part_good; eauto|].
    intros ? b1 HQ_; cbv beta in HQ_; destruct HQ_ as [M1 [L1 I1]]. destruct cplx.
    - eapply sgood_mono; [apply legacy_rat_part_good; eauto|].
      intros ? b2 HQ_; cbv beta in HQ_; destruct HQ_ as [M2 [L2 I2]]. exists M2. split; [lia|auto].
    - simpl. exists M1. split; [lia|auto].
  Qed.

  Lemma plain_good :
    forall (A : Type) (Q : A -> lbuf -> Prop) msg b M,
      INV b M -> emsg_nonempty (plain_err msg) -> sgood Q (SErr (plain_err msg) b).
  Proof. intros A Q msg b M HI Hm. simpl. split; [eapply Inv_lok; eauto|auto]. Qed.

  Lemma read_legacy_good :
    forall b M, INV b M -> sgood QF (read_legacy gmpf gmpq B b).
  Proof.
    intros b M HI. unfold read_legacy.
    eapply tok_bind_good; eauto. intros [tok|] b1 T1; [|eapply plain_good; eauto; msg_ok].
    destruct (negb _); [eapply plain_good; eauto; msg_ok|].
    destruct (negb _); [eapply plain_good; eauto; msg_ok|].
    destruct (negb _); [eapply plain_good; eauto; msg_ok|].
    eapply tok_bind_good; eauto. intros t2 b2 T2.
    assert (I2 : INV b2 (M - 1)).
    { destruct t2; auto. eapply Inv_le; eauto; [lia|]. destruct T1 as [_ [_ [T1 _]]]. lia. }
    destruct (match t2 with Some tk => parse_long tk long_min (long_max / 4) | None => None end) as [pr|];
      [|eapply plain_good; eauto; msg_ok].
    eapply tok_bind_good; eauto. intros t3 b3 T3.
    assert (I3 : INV b3 (M - 1)).
    { destruct t3; auto. eapply Inv_le; eauto; [lia|]. destruct I2 as [_ [_ [I2 _]]]. lia. }
    destruct (match t3 with Some tk => parse_long tk 0 (int_max - 1) | None => None end) as [n|];
      [|eapply plain_good; eauto; msg_ok].
    destruct (nth 0 (firstn 3 tok) 0 =? 117); [simpl; unfold QF; eapply Inv_lok; eauto|].
    pose proof (add_work_inv b3 (n + 1) _ I3) as I4.
    destruct (nth 0 (firstn 3 tok) 0 =? 100).
    - eapply finish_good. apply for_loop_good; eauto; [|eapply M_lt_bl; eauto].
      intros. apply legacy_coef_good; auto.
    - eapply tok_bind_good; eauto. intros t5 b5 T5.
      assert (I5 : INV b5 (M - 1)).
      { destruct t5; auto. eapply Inv_le; eauto; [lia|]. destruct I4 as [_ [_ [I4 _]]]. lia. }
      eapply finish_good. apply while_tok_good; eauto; [|eapply M_lt_bl; eauto].
      intros. apply sparse_body_good; auto. intros. apply legacy_coef_good; auto.
  Qed.

  (* ---------------------------------------------------------------- the option loop *)
  Lemma set_ok_inv : forall b M, INV b M -> INV (set_ok b true) M.
  Proof. intros b M [H1 [H2 [H3 H4]]]. repeat split; auto. Qed.

  Lemma opt_loop_good :
    forall fuel first o b M, INV b M -> slen b < Z.of_nat fuel ->
    sgood (fun _ b' => INV b' M) (opt_loop fuel B first o b).
  Proof.
    induction fuel as [|f IH]; intros first o b M HI Hf.
    - unfold slen in Hf. simpl in Hf. lia.
    - simpl.
      destruct (readline_good B M0 HBl HBs b M HI) as [rc [b1 [R1 [R2 [R3 [_ R4]]]]]]. rewrite R1. simpl.
      assert (Hfin : forall bb, INV bb M ->
                 sgood (fun _ b' => INV b' M) (if first then SOk GoLegacy bb else SOk (GoReaders o) bb)).
      { intros bb Hbb. destruct first; simpl; auto. }
      destruct (lline b1) as [m|] eqn:El; [|congruence].
      destruct R4 as [[R4 R5]|[R4 [R5 R6]]].
      { subst rc. simpl. apply Hfin; auto. }
      replace (rc <? 0) with false by lia.
      pose proof R2 as [I1 [I2 [I3 I4]]]. unfold shape in I4. rewrite El, R5 in I4.
      destruct I4 as [t [T1 [T2 [T3 T4]]]].
      assert (Hsl : 0 <= slen b1) by (unfold slen; lia).
      assert (Htf : t < Z.of_nat (bs B)) by lia.
      destruct (find_semi_spec m t T3 T2 (bs B) 0 []) as [res [tr [S1 [S2 S3]]]]; try lia.
      { constructor. }
      rewrite S1. destruct res as [j|].
      2:{ apply Hfin. rewrite (chk_tr_true m tr (lok b1) I1 S2). apply set_ok_inv. auto. }
      destruct S3 as [J1 [J2 J3]].
      destruct (cstr_spec m t T3 T2 (bs B) 0 tr) as [l [tr1 [C1 C2]]]; try lia; auto.
      rewrite C1. rewrite (chk_tr_true m tr1 (lok b1) I1 C2).
      assert (Hjt : j < t) by (destruct (Z.eq_dec j t); [subst; rewrite T3 in J2; discriminate|lia]).
      destruct (option_walk_fixed_safe m t j (bs B) (Z.of_nat (List.length l))) as [W|[opt [ot [q [tr2 [W1 W2]]]]]];
        try lia; auto.
      { rewrite W. eapply plain_good; [apply set_ok_inv; eauto|msg_ok]. }
      rewrite W1. rewrite (chk_tr_true m tr2 true eq_refl W2).
      set (b2 := set_line b1 (upd m q 0) true).
      assert (I2' : INV b2 M).
      { repeat split; simpl; auto. unfold shape, slen. simpl. rewrite R5.
        exists t. repeat split; auto; try lia. destruct (t =? q); auto. }
      assert (Hs2 : slen b2 < Z.of_nat f) by (unfold slen in *; simpl; lia).
      destruct (classify_fixed ot) as [[fl v] e] eqn:Ecl.
      destruct e as [me|].
      { destruct (classify_fixed_err _ _ _ _ Ecl) as [x Hx]. subst me.
        rewrite unrecognized_option_literal. simpl. split; [reflexivity|]. intro E. discriminate E. }
      assert (Hv : v = None -> fl <> FDegree /\ fl <> FPrecision) by (intro; subst v; eapply classify_fixed_value; eauto).
      destruct fl; try (apply IH; auto).
      + destruct v as [val|]; [|exfalso; destruct (Hv eq_refl) as [Hv1 Hv2]; congruence].
        destruct (match parse_long val _ _ with Some v => v | None => 0 end <=? 0);
          [eapply plain_good; eauto; msg_ok|apply IH; auto].
      + destruct v as [val|]; [|exfalso; destruct (Hv eq_refl) as [Hv1 Hv2]; congruence].
        destruct (mul_log2_10 _ <=? 0);
          [eapply plain_good; eauto; msg_ok|apply IH; auto].
  Qed.

  (* ---------------------------------------------------------------- entry points *)
  Lemma parse_abstract_good :
    forall k s, Z.of_nat (List.length s) <= M0 -> sgood QF (parse_abstract gmpf gmpq chk B k s).
  Proof.
    intros k s Hs. unfold parse_abstract.
    assert (I0 : INV (init_buf k s) (Z.of_nat (List.length s))).
    { repeat split; simpl; auto; try lia. unfold shape, slen. simpl. lia. }
    eapply sgood_bind; [apply opt_loop_good; eauto; unfold slen; simpl; lia|].
    intros a b HQ_; cbv beta in HQ_. destruct a as [|o].
    - eapply read_legacy_good; eauto.
    - destruct (o_n o =? -1); [eapply plain_good; eauto; msg_ok|].
      destruct (o_rep o).
      + eapply read_monomial_good; eauto.
      + eapply read_secular_good; eauto.
      + eapply read_chebyshev_good; eauto.
  Qed.
End Total.

Lemma until_nul_len : forall l, (List.length (until_nul l) <= List.length l)%nat.
Proof. induction l as [|c r IH]; simpl; auto. destruct (c =? 0); simpl; lia. Qed.

Lemma budget_of_ok :
  forall input, Z.of_nat (List.length input) + 2 <= Z.of_nat (bl (budget_of input)) /\
                Z.of_nat (List.length input) + 2 <= Z.of_nat (bs (budget_of input)).
Proof. intro input. unfold budget_of. simpl. lia. Qed.

(* mps_parse_string, any input, any GMP *)
Theorem parse_string_total :
  forall gmpf gmpq chk input,
    sgood gmpq chk QF (parse_string gmpf gmpq chk (budget_of input) input).
Proof.
  intros gmpf gmpq chk input. unfold parse_string.
  destruct (budget_of_ok input) as [H1 H2].
  apply (parse_abstract_good gmpf gmpq chk (budget_of input) (Z.of_nat (List.length input)) H1 H2).
  pose proof (until_nul_len input). lia.
Qed.

(* mps_parse_stream / mps_parse_file *)
Theorem parse_stream_total :
  forall gmpf gmpq chk input,
    sgood gmpq chk QF (parse_stream gmpf gmpq chk (budget_of input) input).
Proof.
  intros gmpf gmpq chk input. unfold parse_stream.
  destruct (skip_comments_fixed_total input) as [r Hr]. rewrite Hr.
  destruct (budget_of_ok input) as [H1 H2].
  apply (parse_abstract_good gmpf gmpq chk (budget_of input) (Z.of_nat (List.length input)) H1 H2).
  apply skip_comments_fixed_len in Hr. lia.
Qed.

(* no undefined behaviour with the index check and well-behaved rationals *)
Lemma sgood_no_crash :
  forall gmpq (A : Type) (Q : A -> lbuf -> Prop) (s : step A),
    (forall t n d, gmpq t = Some (n, d) -> 0 < d /\ n <> 0) ->
    sgood gmpq true Q s -> forall w b, s <> SCrash w b.
Proof.
  intros gmpq A Q s Hq H w b E. subst s. simpl in H. destruct H as [_ [[_ [t [n [d [H1 H2]]]]]|[_ H]]].
  - destruct (Hq t n d H1). lia.
  - discriminate H.
Qed.

Lemma whole_file_no_ub :
  forall (gmpf : list Z -> bool) (gmpq : list Z -> option (Z * Z)) (input : list Z),
    (forall t n d, gmpq t = Some (n, d) -> 0 < d /\ n <> 0) ->
    (forall w b, parse_string gmpf gmpq true (budget_of input) input <> SCrash w b) /\
    (forall w b, parse_stream gmpf gmpq true (budget_of input) input <> SCrash w b).
Proof.
  intros gmpf gmpq input Hq. split.
  - eapply sgood_no_crash; [exact Hq|apply parse_string_total].
  - eapply sgood_no_crash; [exact Hq|apply parse_stream_total].
Qed.
