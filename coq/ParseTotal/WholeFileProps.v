(* C09: proofs about the whole-file model of WholeFile.v, part 1: the line buffer.

   Invariant [Inv b M]: every access so far was in bounds, and the "measure"
   (unread stream bytes + distance from the cursor to a terminator of the line) is at
   most M.  readline keeps it, every token that next_token returns lowers it by one. *)
Require Import ZArith List Bool Lia ZifyBool String.
Require Import MPSV.ParseTotal.Tokenizer MPSV.ParseTotal.OptionLine.
Require Import MPSV.ParseTotal.TokenizerProps MPSV.ParseTotal.OptionLineProps.
Require Import MPSV.ParseTotal.Gmp621 MPSV.ParseTotal.WholeFile.
Import ListNotations.
Open Scope Z_scope.

(* ---------------------------------------------------------------- small facts *)
Lemma in_boundsb_iff : forall c t, in_boundsb c t = true <-> in_bounds c t.
Proof.
  intros c t. unfold in_boundsb, in_bounds. rewrite forallb_forall, Forall_forall.
  split; intros H x Hx; specialize (H x Hx); lia.
Qed.

Lemma chk_tr_true : forall m t ok, ok = true -> in_bounds (cap m) t -> chk_tr m t ok = true.
Proof. intros m t ok H1 H2. unfold chk_tr. rewrite H1. simpl. apply in_boundsb_iff. exact H2. Qed.

Lemma get_mem_of :
  forall c content old i, (i < List.length content)%nat ->
  get (mem_of c content old) (Z.of_nat i) = nth i content 0.
Proof.
  intros c content old i Hi. unfold mem_of. simpl.
  replace ((0 <=? Z.of_nat i) && (Z.of_nat i <? Z.of_nat (List.length content))) with true by lia.
  rewrite Nat2Z.id. reflexivity.
Qed.

Lemma get_mem_of_last :
  forall c l old, get (mem_of c (l ++ [0]) old) (Z.of_nat (List.length l)) = 0.
Proof.
  intros. rewrite get_mem_of; [|rewrite app_length; simpl; lia].
  rewrite app_nth2; [|lia]. rewrite Nat.sub_diag. reflexivity.
Qed.

Lemma take_line_len :
  forall s l r nl, take_line s = (l, r, nl) ->
  (List.length l + List.length r + (if nl then 1 else 0) = List.length s)%nat.
Proof.
  induction s as [|c t IH]; intros l r nl H; simpl in H.
  - inversion H; subst. reflexivity.
  - destruct (c =? 10).
    + inversion H; subst. simpl. lia.
    + destruct (take_line t) as [[l' r'] nl'] eqn:E. inversion H; subst.
      specialize (IH l' r nl eq_refl). simpl. lia.
Qed.

(* what a line delivered by either stream looks like *)
Lemma fetch_line_spec :
  forall k prev s rc m r, fetch_line k prev s = (rc, m, r) ->
  (rc = -1 /\ r = []) \/
  (0 < rc /\ (List.length r < List.length s)%nat /\
   exists t, 0 <= t < cap m /\ get m t = 0 /\ t + Z.of_nat (List.length r) <= Z.of_nat (List.length s)).
Proof.
  intros k prev s rc m r H. unfold fetch_line in H. destruct k.
  - (* getline *)
    destruct s as [|c0 s0]; [inversion H; subst; left; auto|].
    destruct (take_line (c0 :: s0)) as [[l r'] nl] eqn:E.
    pose proof (take_line_len _ _ _ _ E) as HL.
    remember (if nl then l ++ [10] else l) as content.
    assert (Hlen : (List.length content = List.length l + (if nl then 1 else 0))%nat).
    { subst content. destruct nl; [rewrite app_length; simpl; lia|lia]. }
    inversion H; subst rc m r; clear H. right.
    assert (Hpos : (0 < List.length content)%nat).
    { destruct nl; [lia|]. simpl in E. destruct (c0 =? 10); [inversion E|].
      destruct (take_line s0) as [[a b] c]. inversion E; subst. simpl. lia. }
    split; [lia|]. split; [simpl in *; lia|].
    exists (Z.of_nat (List.length content)). simpl cap. split.
    + destruct prev as [pm|]; simpl;
        match goal with |- context [if ?c then _ else _] => destruct c eqn:?; lia end.
    + split; [apply get_mem_of_last|]. simpl in *. lia.
  - (* MemoryFileStream::readline *)
    destruct s as [|c0 s0]; [inversion H; subst; left; auto|].
    destruct (take_line (c0 :: s0)) as [[l r'] nl] eqn:E.
    pose proof (take_line_len _ _ _ _ E) as HL.
    set (c00 := match prev with Some m0 => cap m0 | None => 1024 end) in *.
    remember (grow_mem 11 c00 (Z.of_nat (List.length l))) as cc eqn:Hcc. clear Hcc.
    destruct (Z.of_nat (List.length l) <=? cc - 2) eqn:Ef.
    + inversion H; subst rc m r; clear H. right.
      assert (Hcons : (List.length r' < List.length (c0 :: s0))%nat).
      { destruct nl; [lia|]. simpl in E. destruct (c0 =? 10); [inversion E|].
        destruct (take_line s0) as [[a b] c]. inversion E; subst. simpl in HL. simpl. lia. }
      split; [lia|]. split; [exact Hcons|].
      exists (Z.of_nat (List.length l)). simpl cap. split; [lia|]. split; [apply get_mem_of_last|].
      simpl in *. lia.
    + inversion H; subst. left. auto.
Qed.

(* strstr (line, "!") *)
Lemma find_bang_spec :
  forall m t, get m t = 0 -> t < cap m ->
  forall fuel p tr0, 0 <= p <= t -> t - p < Z.of_nat fuel -> in_bounds (cap m) tr0 ->
  exists res tr, find_bang fuel m p tr0 = Done (res, tr) /\ in_bounds (cap m) tr /\
                 match res with None => True | Some q => p <= q <= t end.
Proof.
  intros m t Ht Hc. induction fuel as [|f IH]; intros p tr0 Hp Hf Hb; [simpl in Hf; lia|].
  simpl. destruct (get m p =? 0) eqn:E0.
  - eexists _, _. split; [reflexivity|]. split; [constructor; auto; lia|exact I].
  - destruct (get m p =? 33) eqn:E1.
    + eexists _, _. split; [reflexivity|]. split; [constructor; auto; lia|lia].
    + assert (p <> t) by (intro; subst; lia).
      destruct (IH (p + 1) (p :: tr0)) as [res [tr [H1 [H2 H3]]]]; try lia.
      { constructor; auto; lia. }
      exists res, tr. split; auto. split; auto. destruct res; auto. lia.
Qed.

Lemma get_upd_zero : forall m p t, get m t = 0 -> get (upd m p 0) t = 0.
Proof. intros m p t H. simpl. destruct (t =? p); auto. Qed.

(* ---------------------------------------------------------------- readline *)
Lemma rl_loop_spec :
  forall n fuel k prev s ln ok,
    (List.length s < n)%nat -> Z.of_nat (List.length s) < Z.of_nat fuel -> ok = true ->
    exists rc m r ln',
      rl_loop n fuel k prev s ln ok = Done (rc, m, r, ln', true) /\ ln <= ln' /\
      ((rc = -1 /\ r = []) \/
       (0 < rc /\ (List.length r < List.length s)%nat /\
        exists t, 0 <= t < cap m /\ get m t = 0 /\ t + Z.of_nat (List.length r) <= Z.of_nat (List.length s))).
Proof.
  induction n as [|n IH]; intros fuel k prev s ln ok Hn Hf Hok; [lia|].
  simpl. destruct (fetch_line k prev s) as [[rc m] r] eqn:E.
  destruct (fetch_line_spec _ _ _ _ _ _ E) as [[H1 H2]|[H1 [H2 [t [H3 [H4 H5]]]]]].
  - subst rc r. simpl. exists (-1), m, [], ln. split; [subst ok; reflexivity|]. split; [lia|]. left. auto.
  - replace (0 <? rc) with true by lia.
    destruct (find_bang_spec m t H4 (proj2 H3) fuel 0 []) as [res [tr [G1 [G2 G3]]]]; try lia.
    { constructor. }
    rewrite G1. destruct res as [q|].
    + assert (Hq : chk_tr m (q :: tr) ok = true).
      { apply chk_tr_true; auto. constructor; auto. lia. }
      rewrite Hq. destruct (q =? 0) eqn:Eq.
      * destruct (IH fuel k (Some (upd m q 0)) r (ln + 1) true) as [rc' [m' [r' [ln' [K1 [K2 K3]]]]]]; try lia.
        exists rc', m', r', ln'. split; [exact K1|]. split; [lia|].
        destruct K3 as [[K3 K4]|[K3 [K4 [t' [K5 [K6 K7]]]]]]; [left; auto|right].
        split; auto. split; [lia|]. exists t'. split; auto. split; auto. lia.
      * exists q, (upd m q 0), r, (ln + 1). split; [reflexivity|]. split; [lia|]. right.
        split; [lia|]. split; auto. exists q. simpl cap. split; [lia|]. split; [apply upd_same|]. lia.
    + rewrite (chk_tr_true m tr ok Hok G2).
      exists rc, m, r, (ln + 1). split; [reflexivity|]. split; [lia|]. right.
      split; auto. split; auto. exists t. auto.
Qed.

Section Buffer.
  Variable B : budget.
  Variable M0 : Z.
  Hypothesis HBl : M0 + 2 <= Z.of_nat (bl B).
  Hypothesis HBs : M0 + 2 <= Z.of_nat (bs B).

  Definition slen (b : lbuf) : Z := Z.of_nat (List.length (lstream b)).

  Definition shape (b : lbuf) (M : Z) : Prop :=
    match lline b, loff b with
    | Some m, Some off => exists t, 0 <= off <= t /\ t < cap m /\ get m t = 0 /\ slen b + (t - off) <= M
    | _, _ => slen b <= M
    end.

  Definition Inv (b : lbuf) (M : Z) : Prop :=
    lok b = true /\ 0 <= lnum b /\ M <= M0 /\ shape b M.

  Lemma shape_slen : forall b M, shape b M -> slen b <= M.
  Proof.
    intros b M H. unfold shape in H. destruct (lline b); [destruct (loff b)|]; auto.
    destruct H as [t [H1 [H2 [H3 H4]]]]. lia.
  Qed.

  Lemma Inv_nonneg : forall b M, Inv b M -> 0 <= M.
  Proof. intros b M [_ [_ [_ H]]]. apply shape_slen in H. unfold slen in H. lia. Qed.

  Lemma shape_le : forall b M M', shape b M -> M <= M' -> shape b M'.
  Proof.
    intros b M M' H L. unfold shape in *. destruct (lline b); [destruct (loff b)|]; try lia.
    destruct H as [t [H1 [H2 [H3 H4]]]]. exists t. repeat split; auto; lia.
  Qed.

  Lemma Inv_le : forall b M M', Inv b M -> M <= M' -> M' <= M0 -> Inv b M'.
  Proof.
    intros b M M' [H1 [H2 [H3 H4]]] L L'. repeat split; auto. eapply shape_le; eauto.
  Qed.

  (* readline: never out of fuel; the measure does not grow; a line that is delivered
     has used at least one byte of the stream *)
  Lemma readline_good :
    forall b M, Inv b M ->
    exists rc b', readline B b = SOk rc b' /\ Inv b' M /\ lline b' <> None /\ lwork b' = lwork b /\
      ((rc = -1 /\ loff b' = None) \/ (0 < rc /\ loff b' = Some 0 /\ slen b' < slen b)).
  Proof.
    intros b M [H1 [H2 [H3 H4]]]. pose proof (shape_slen _ _ H4) as Hs. unfold slen in Hs.
    unfold readline.
    destruct (rl_loop_spec (bl B) (bs B) (lk b) None (lstream b) (lnum b) (lok b)) as
        [rc [m [r [ln' [K1 [K2 K3]]]]]]; try lia; auto.
    rewrite K1. eexists _, _. split; [reflexivity|].
    destruct K3 as [[K3 K4]|[K3 [K4 [t [K5 [K6 K7]]]]]].
    - subst rc r. simpl. split.
      + repeat split; simpl; auto; try lia. unfold shape, slen. simpl. lia.
      + split; [discriminate|]. split; auto.
    - replace (0 <? rc) with true by lia. split.
      + repeat split; simpl; auto; try lia. unfold shape, slen. simpl.
        exists t. repeat split; try lia.
      + split; [discriminate|]. split; [reflexivity|]. right. unfold slen. simpl. repeat split; auto; lia.
  Qed.

  (* ---------------------------------------------------------------- next_token *)
  Lemma next_token_line_spec :
    forall m off t fuel, 0 <= off <= t -> t < cap m -> get m t = 0 -> t - off < Z.of_nat fuel ->
    exists r off' tr,
      next_token_line_fixed fuel m off = Done (r, m, off', tr) /\ in_bounds (cap m) tr /\
      off <= off' <= t /\ match r with Tok _ => off < off' | NoTok => True end.
  Proof.
    intros m off t fuel Ho Hc Ht Hf. unfold next_token_line_fixed.
    destruct (skip_spaces_spec m t Ht Hc fuel off []) as [p [tr [H1 [H2 [H3 H4]]]]]; try lia.
    { constructor. }
    rewrite H1. destruct (get m p =? 0) eqn:Ep.
    - exists NoTok, p, tr. repeat split; auto; lia.
    - destruct (scan_token_spec m t Ht Hc fuel p tr) as [e [tr' [G1 [G2 [G3 G4]]]]]; try lia; auto.
      rewrite G1.
      assert (Hpe : p < e).
      { destruct (Z.eq_dec p e) as [Heq|]; [|lia]. subst e.
        destruct H4 as [H4|H4]; [lia|]. destruct G4 as [G4|G4]; [lia|]. congruence. }
      destruct (get m e =? 0) eqn:Ee.
      + eexists _, _, _. split; [reflexivity|]. split; auto. split; lia.
      + assert (e <> t) by (intro; subst; lia).
        eexists _, _, _. split; [reflexivity|]. split; auto. split; lia.
  Qed.

  Definition tok_post (M : Z) (s : step (option (list Z))) : Prop :=
    match s with
    | SOk (Some _) b' => Inv b' (M - 1)
    | SOk None b' => Inv b' M
    | _ => False
    end.

  Lemma set_cursor_inv :
    forall b m off off' t M,
      Inv b M -> lline b = Some m -> loff b = Some off ->
      0 <= off' <= t -> t < cap m -> get m t = 0 -> slen b + (t - off') <= M ->
      forall M', slen b + (t - off') <= M' -> M' <= M0 -> Inv (set_cursor b off' true) M'.
  Proof.
    intros b m off off' t M [H1 [H2 [H3 H4]]] Hl Ho Hr Hc Ht Hm M' Hm' HM'.
    repeat split; simpl; auto. unfold shape, slen. simpl. rewrite Hl.
    exists t. repeat split; auto; try lia.
  Qed.

  Lemma next_token_n_good :
    forall n b M, Inv b M -> slen b < Z.of_nat n -> tok_post M (next_token_n n B b).
  Proof.
    induction n as [|n IH]; intros b M HI Hn; [pose proof (shape_slen _ _ (proj2 (proj2 (proj2 HI)))); unfold slen in *; lia|].
    simpl.
    (* the optional first readline *)
    assert (Hfirst : exists stop b1,
               (match lline b with
                | None => sbind (readline B b) (fun rc b' => SOk (rc =? -1) b')
                | Some _ => SOk false b
                end) = SOk stop b1 /\ Inv b1 M /\ slen b1 <= slen b /\
               (stop = true \/ (stop = false /\ lline b1 <> None))).
    { destruct (lline b) eqn:El.
      - exists false, b. split; auto. split; auto. split; [lia|]. right. split; auto. congruence.
      - destruct (readline_good b M HI) as [rc [b' [R1 [R2 [R3 [_ R4]]]]]]. rewrite R1. simpl.
        exists (rc =? -1), b'. split; auto. split; auto.
        destruct R4 as [[R4 R5]|[R4 [R5 R6]]].
        + subst rc. split; [|left; reflexivity].
          destruct R2 as [_ [_ [_ R2]]]. unfold readline in R1.
          destruct (rl_loop (bl B) (bs B) (lk b) None (lstream b) (lnum b) (lok b)) as [[[[[a1 a2] a3] a4] a5]| |] eqn:E; try discriminate.
          pose proof (rl_loop_spec (bl B) (bs B) (lk b) None (lstream b) (lnum b) (lok b)) as S.
          destruct HI as [I1 [I2 [I3 I4]]]. pose proof (shape_slen _ _ I4) as Hs. unfold slen in Hs.
          destruct S as [rc' [m' [r' [ln' [K1 [K2 K3]]]]]]; try lia; auto.
          rewrite E in K1. inversion K1; subst. inversion R1; subst. unfold slen. simpl.
          destruct K3 as [[_ K3]|[_ [K3 _]]]; [subst; simpl; lia|lia].
        + split; [lia|]. right. split; [lia|auto]. }
    destruct Hfirst as [stop [b1 [F1 [F2 [F3 F4]]]]]. rewrite F1. simpl.
    destruct F4 as [F4|[F4 F5]]; subst stop; [exact F2|].
    destruct (lline b1) as [m|] eqn:El; [|congruence].
    destruct (loff b1) as [off|] eqn:Eo; [|exact F2].
    pose proof F2 as [I1 [I2 [I3 I4]]]. unfold shape in I4. rewrite El, Eo in I4.
    destruct I4 as [t [T1 [T2 [T3 T4]]]].
    assert (Hsl : 0 <= slen b1) by (unfold slen; lia).
    destruct (next_token_line_spec m off t (bs B)) as [r [off' [tr [N1 [N2 [N3 N4]]]]]]; try lia.
    rewrite N1. rewrite (chk_tr_true m tr (lok b1) I1 N2).
    destruct r as [bytes|].
    - simpl. eapply set_cursor_inv; eauto; try lia.
    - assert (HI2 : Inv (set_cursor b1 off' true) M) by (eapply set_cursor_inv; eauto; lia).
      destruct (readline_good _ M HI2) as [rc [b3 [R1 [R2 [R3 [_ R4]]]]]]. rewrite R1. simpl.
      destruct R4 as [[R4 R5]|[R4 [R5 R6]]].
      + subst rc. simpl. exact R2.
      + replace (rc =? -1) with false by lia. apply IH; auto.
        unfold slen in *. simpl in R6. lia.
  Qed.

  Lemma next_token_good : forall b M, Inv b M -> tok_post M (next_token B b).
  Proof.
    intros b M HI. unfold next_token. apply next_token_n_good; auto.
    destruct HI as [_ [_ [H3 H4]]]. apply shape_slen in H4. lia.
  Qed.
End Buffer.
