(* C09: proofs about the message construction and the option-line walk of OptionLine.v *)
Require Import ZArith List Bool Lia ZifyBool String.
Require Import MPSV.ParseTotal.Tokenizer MPSV.ParseTotal.OptionLine.
Import ListNotations.
Open Scope Z_scope.

(* ---------------------------------------------------------------- printf interpreter *)
Lemma interp_no_percent :
  forall fmt args acc used, ~ In 37 fmt -> interp fmt args acc used = FOk (rev acc ++ fmt) used.
Proof.
  induction fmt as [|c r IH]; intros args acc used Hn; simpl.
  - rewrite app_nil_r. reflexivity.
  - destruct (c =? 37) eqn:E.
    + exfalso. apply Hn. left. lia.
    + rewrite IH.
      * simpl. rewrite <- app_assoc. reflexivity.
      * intro H. apply Hn. right. exact H.
Qed.

Lemma interp_app_no_percent :
  forall pre f args acc used, ~ In 37 pre ->
  interp (pre ++ f) args acc used = interp f args (rev pre ++ acc) used.
Proof.
  induction pre as [|c r IH]; intros f args acc used Hn; simpl; auto.
  destruct (c =? 37) eqn:E.
  - exfalso. apply Hn. left. lia.
  - rewrite IH.
    + rewrite <- app_assoc. reflexivity.
    + intro H. apply Hn. right. exact H.
Qed.

Lemma interp_escape :
  forall tok args acc used, interp (escape_percent tok) args acc used = FOk (rev acc ++ tok) used.
Proof.
  induction tok as [|c r IH]; intros args acc used; simpl.
  - rewrite app_nil_r. reflexivity.
  - destruct (c =? 37) eqn:E.
    + simpl. rewrite IH. simpl. rewrite <- app_assoc. simpl.
      assert (c = 37) by lia. subst c. reflexivity.
    + simpl. rewrite E. rewrite IH. simpl. rewrite <- app_assoc. reflexivity.
Qed.

Lemma dec_aux_digits :
  forall fuel n acc, Forall (fun c => 48 <= c <= 57) acc -> Forall (fun c => 48 <= c <= 57) (dec_aux fuel n acc).
Proof.
  induction fuel as [|f IH]; intros n acc Ha; simpl; auto.
  assert (Hd : 48 <= 48 + n mod 10 <= 57) by (pose proof (Z.mod_pos_bound n 10); lia).
  destruct (n <? 10); [constructor; auto|apply IH; constructor; auto].
Qed.

Lemma dec_aux_nonempty : forall fuel n acc, (0 < fuel)%nat -> dec_aux fuel n acc <> [].
Proof.
  destruct fuel as [|f]; intros n acc H; [inversion H|]. simpl.
  destruct (n <? 10); [discriminate|].
  clear H. revert n acc. induction f as [|f IH]; intros n acc; simpl; [discriminate|].
  destruct (n / 10 <? 10); [discriminate|apply IH].
Qed.

Lemma dec_no_percent : forall n, 0 <= n -> ~ In 37 (dec n).
Proof.
  intros n Hn H. unfold dec in H. destruct (n <? 0) eqn:E; [lia|].
  pose proof (dec_aux_digits (S (Z.to_nat (Z.log2 n))) n [] (Forall_nil _)) as F.
  rewrite Forall_forall in F. specialize (F 37 H). lia.
Qed.

Lemma prefix_no_percent : forall n, 0 <= n -> ~ In 37 (perr_prefix n).
Proof.
  intros n Hn H. unfold perr_prefix in H.
  apply in_app_or in H. destruct H as [H|H].
  - vm_compute in H. repeat (destruct H as [H|H]; [discriminate H|]). exact H.
  - apply in_app_or in H. destruct H as [H|H].
    + exact (dec_no_percent n Hn H).
    + vm_compute in H. repeat (destruct H as [H|H]; [discriminate H|]). exact H.
Qed.

Lemma prefix_long : forall n tok, (32 < List.length (perr_prefix n ++ tok))%nat.
Proof.
  intros. unfold perr_prefix. repeat rewrite app_length.
  change (List.length (str "Parsing error on line ")) with 22%nat.
  change (List.length (str " near the token: ")) with 17%nat. lia.
Qed.

(* a token without '%' arrives in the message literally *)
Lemma raise_parsing_error_literal :
  forall n tok msg, 0 <= n -> ~ In 37 tok ->
  raise_parsing_error n tok msg = MOk (perr_prefix n ++ tok).
Proof.
  intros n tok msg Hn Ht. unfold raise_parsing_error, mps_error.
  assert (Hp : ~ In 37 (perr_prefix n ++ tok)).
  { intro H. apply in_app_or in H. destruct H; [exact (prefix_no_percent n Hn H)|auto]. }
  pose proof (prefix_long n tok) as HL.
  remember (perr_prefix n ++ tok) as P.
  rewrite (interp_no_percent P [AStr msg] [] 0%nat Hp).
  change (rev [] ++ P) with P.
  destruct (32 <? Z.of_nat (List.length P)) eqn:E; [|lia].
  change (skipn 0 [AStr msg]) with [AStr msg].
  rewrite (interp_no_percent P [AStr msg] [] 0%nat Hp). reflexivity.
Qed.

(* the repaired construction: ANY token arrives literally *)
Lemma interp_prefix_escape :
  forall n tok args, 0 <= n ->
  interp (perr_prefix n ++ escape_percent tok) args [] 0 = FOk (perr_prefix n ++ tok) 0.
Proof.
  intros. rewrite interp_app_no_percent; [|apply prefix_no_percent; auto].
  rewrite interp_escape. rewrite app_nil_r. rewrite rev_involutive. reflexivity.
Qed.

Lemma raise_parsing_error_fixed_literal :
  forall n tok msg, 0 <= n ->
  raise_parsing_error_fixed n tok msg = MOk (perr_prefix n ++ tok).
Proof.
  intros n tok msg Hn. unfold raise_parsing_error_fixed, mps_error_fixed.
  rewrite (interp_prefix_escape n tok [AStr msg] Hn). reflexivity.
Qed.

(* the repaired mps_error with the parser's own "%s" message: the argument arrives whole *)
Lemma unrecognized_option_literal :
  forall o, mps_error_fixed (str "Unrecognized option: %s") [AStr o] = MOk (str "Unrecognized option: " ++ o).
Proof.
  intro o. unfold mps_error_fixed.
  change (str "Unrecognized option: %s") with (str "Unrecognized option: " ++ [37; 115]).
  rewrite interp_app_no_percent.
  - simpl. rewrite rev_app_distr. rewrite !rev_involutive. reflexivity.
  - vm_compute. intro H. repeat (destruct H as [H|H]; [discriminate H|]). exact H.
Qed.

(* refutations for the code as it was before the repairs *)
Lemma format_interpreted_witness :
  raise_parsing_error 7 (str "%%") (str "C09MSG") = MOk (perr_prefix 7 ++ str "%")
  /\ perr_prefix 7 ++ str "%" <> perr_prefix 7 ++ str "%%".
Proof. split; [vm_compute; reflexivity|vm_compute; discriminate]. Qed.

Lemma format_wild_witness : raise_parsing_error 7 (str "%n") (str "C09MSG") = MWild.
Proof. vm_compute. reflexivity. Qed.

Lemma va_list_reuse_witness :
  mps_error (str "Unrecognized option: %s") [AStr (str "floatingpointt")] = MWild
  /\ mps_error_fixed (str "Unrecognized option: %s") [AStr (str "floatingpointt")]
     = MOk (str "Unrecognized option: floatingpointt").
Proof. split; vm_compute; reflexivity. Qed.

(* ---------------------------------------------------------------- the backward scan *)
(* bounded by real_length whatever the memory (and its surroundings) contains *)
Lemma back_scan_total :
  forall m fuel p rl tr, 0 <= rl < Z.of_nat fuel ->
  exists q tr', back_scan fuel m p rl tr = Done (q, tr') /\ p - rl - 1 <= q < p.
Proof.
  intros m. induction fuel as [|f IH]; intros p rl tr H; [simpl in H; lia|].
  simpl. destruct (isspace (get m (p - 1))) eqn:E.
  - destruct (rl =? 0) eqn:E0.
    + eexists _, _. split; [reflexivity|lia].
    + destruct (IH (p - 1) (rl - 1) ((p - 1) :: tr)) as [q [tr' [H1 H2]]]; [lia|].
      exists q, tr'. split; auto. lia.
  - eexists _, _. split; [reflexivity|lia].
Qed.

(* ... but it does leave the buffer: the line ";" *)
Lemma option_walk_semicolon_reads_before_buffer :
  exists opt o m' tr, option_walk 100 (line_mem (str ";") (fun _ => garbage)) 1 = Done (WOption opt o m' tr)
                      /\ In (-1) tr.
Proof. vm_compute. eexists _, _, _, _. split; [reflexivity|]. simpl. auto 10. Qed.

(* the repaired scan stays inside [opt, p) *)
Lemma back_scan_fixed_in_bounds :
  forall m c opt fuel p tr, 0 <= opt <= p -> p <= c -> p - opt < Z.of_nat fuel -> in_bounds c tr ->
  exists q tr', back_scan_fixed fuel m opt p tr = Done (q, tr') /\ in_bounds c tr' /\ opt <= q <= p.
Proof.
  intros m c opt. induction fuel as [|f IH]; intros p tr Ho Hp Hf Hb.
  - simpl in Hf. lia.
  - simpl. destruct (opt <? p) eqn:E.
    + destruct (isspace (get m (p - 1))) eqn:Es.
      * destruct (IH (p - 1) ((p - 1) :: tr)) as [q [tr' [H1 [H2 H3]]]]; try lia.
        { constructor; auto. lia. }
        exists q, tr'. split; auto. split; auto. lia.
      * eexists _, _. split; [reflexivity|]. split; [constructor; auto; lia|lia].
    + eexists _, _. split; [reflexivity|]. split; auto. lia.
Qed.

Lemma option_walk_fixed_semicolon_in_bounds :
  exists opt o m' tr, option_walk_fixed 100 (line_mem (str ";") (fun _ => garbage)) 1 = Done (WOption opt o m' tr)
                      /\ in_boundsb 2 tr = true.
Proof. vm_compute. eexists _, _, _, _. split; reflexivity. Qed.
