(* C09 model, part 3b (definitions only): whole files.

   The stateful line buffer of system/input-buffer.c (stream, current line as explicit
   memory, cursor, line number), the option loop of mps_parse_abstract_stream (parser.c)
   with Degree / Precision read by mps_utils_parse_long (strtol with a range check, commit
   9e1e2262; the sparse indices of the monomial readers and the two numbers of a 2.x header
   likewise; the Chebyshev sparse reader still uses sscanf %d), the dispatch, and the token loops of the monomial reader,
   the legacy 2.x reader (monomial-parser.c), the secular reader (secular-parser.c) and
   the Chebyshev reader (chebyshev-parser.c), for mps_parse_string (memory stream, input
   cut at the first NUL) and mps_parse_stream / mps_parse_file (mps_skip_comments, then
   getline).

   GMP's mpf_set_str / mpq_set_str are PARAMETERS of the model (Section variables
   [gmpf], [gmpq]: any accept/reject function; for mpq the numerator and denominator that
   are stored).  What GMP does with the stored values is three crash codes:
     2  division by zero in mpq_canonicalize / mpq_div (SIGFPE)
     3  mpq_set / mpq_div of a rational with a non-positive denominator (outside GMP's contract)
     4  a coefficient index outside the allocation (Chebyshev sparse reader)
   (1 = NULL dereference, as in Tokenizer.v).  [chk] says whether the index check of
   fixes/C09_chebyshev_sparse_index_check.patch (commit e017eba4) is present in the source:
   it is; [chk = false] is the reader before that commit and is only kept for the
   refutation theorem about it.

   Messages: mps_error (s, "text") is [plain_err]; mps_raise_parsing_error with a token is
   [tok_err]; with token == NULL (end of input) it formats the message WITH its arguments
   (vsnprintf) and hands the finished text to mps_error through "%s" ([null_err], commits
   fb161c73 + fixes/C18_parsing_error_args.patch).

   Every access to the line buffer is checked against the capacity of the buffer it goes
   to; the conjunction of all checks is the field [lok] of the state.  [lwork] counts the
   coefficient slots that have been allocated.  Loops take their fuel from a [budget]. *)
Require Import ZArith List Bool String Ascii.
Require Import MPSV.ParseTotal.Tokenizer MPSV.ParseTotal.OptionLine MPSV.ParseTotal.Gmp621.
Import ListNotations.
Open Scope Z_scope.

Record budget : Type := { bl : nat;       (* lines read by one call, iterations of one loop *)
                          bs : nat }.     (* steps of one scan over a line *)

Record lbuf : Type := {
  lk : skind;
  lstream : list Z;          (* bytes not yet read from the stream *)
  lline : option mem;        (* buf->line *)
  loff : option Z;           (* buf->last_token - buf->line; None = NULL *)
  lnum : Z;                  (* buf->line_number *)
  lok : bool;                (* every line-buffer access so far was inside its buffer *)
  lwork : Z                  (* coefficient slots allocated *)
}.

Definition chk_tr (m : mem) (tr : trace) (ok : bool) : bool := ok && in_boundsb (cap m) tr.

Inductive emsg : Type :=
| EMsg (s : list Z)          (* the text of s->last_error *)
| EIndet (fmt : list Z).     (* mps_error (s, fmt) where fmt has a conversion without argument:
                                the text is fmt with an indeterminate value printed there *)

Inductive step (A : Type) : Type :=
| SOk (a : A) (b : lbuf)
| SErr (e : emsg) (b : lbuf)       (* mps_error has been called; the reader returns NULL *)
| SFuel
| SCrash (w : Z) (b : lbuf).
Arguments SOk {A} a b.
Arguments SErr {A} e b.
Arguments SFuel {A}.
Arguments SCrash {A} w b.

Definition sbind {A C : Type} (s : step A) (f : A -> lbuf -> step C) : step C :=
  match s with
  | SOk a b => f a b
  | SErr e b => SErr e b
  | SFuel => SFuel
  | SCrash w b => SCrash w b
  end.

Definition of_merr (fmt : list Z) (r : merr) : emsg :=
  match r with MOk s => EMsg s | MWild => EIndet fmt end.

(* mps_error (s, fmt) without further arguments *)
Definition plain_err (fmt : list Z) : emsg := of_merr fmt (mps_error_fixed fmt []).

(* mps_raise_parsing_error (s, buffer, NULL, msg, args...):
     length = vsnprintf (NULL, 0, msg, ap); text = malloc (length + 1); vsnprintf (text, length + 1, msg, ap);
     mps_error (s, "%s", text); *)
Definition null_err (msg : list Z) (args : list farg) : emsg :=
  match interp msg args [] 0 with
  | FOk text _ => of_merr (str "%s") (mps_error_fixed (str "%s") [AStr text])
  | FWild => EIndet msg
  end.

(* mps_raise_parsing_error (s, buffer, token, msg, args...) with token <> NULL: the message and
   its arguments are handed to a format that has no conversion for them *)
Definition tok_err (b : lbuf) (tok msg : list Z) : emsg :=
  of_merr (perr_prefix (lnum b) ++ escape_percent tok) (raise_parsing_error_fixed (lnum b) tok msg).

(* ------------------------------------------------------------------ input-buffer.c *)
(* the do/while of mps_input_buffer_readline ([prev] = buf->line) *)
Fixpoint rl_loop (n fuel : nat) (k : skind) (prev : option mem) (s : list Z) (ln : Z) (ok : bool)
  : res (Z * mem * list Z * Z * bool) :=
  match n with
  | O => OutOfFuel
  | S n' =>
      let '(rc, m, r) := fetch_line k prev s in
      if 0 <? rc then
        match find_bang fuel m 0 [] with
        | Done (None, t) => Done (rc, m, r, ln + 1, chk_tr m t ok)
        | Done (Some p, t) =>
            let ok' := chk_tr m (p :: t) ok in
            if p =? 0 then rl_loop n' fuel k (Some (upd m p 0)) r (ln + 1) ok'
            else Done (p, upd m p 0, r, ln + 1, ok')
        | OutOfFuel => OutOfFuel
        | Crash w => Crash w
        end
      else Done (rc, m, r, ln, ok)
  end.

Definition readline (B : budget) (b : lbuf) : step Z :=
  match rl_loop (bl B) (bs B) (lk b) None (lstream b) (lnum b) (lok b) with
  | Done (rc, m, r, ln, ok) =>
      SOk rc {| lk := lk b; lstream := r; lline := Some m;
                loff := if 0 <? rc then Some 0 else None;
                lnum := ln; lok := ok; lwork := lwork b |}
  | OutOfFuel => SFuel
  | Crash w => SCrash w b
  end.

Definition set_cursor (b : lbuf) (off : Z) (ok : bool) : lbuf :=
  {| lk := lk b; lstream := lstream b; lline := lline b; loff := Some off;
     lnum := lnum b; lok := ok; lwork := lwork b |}.

Definition set_line (b : lbuf) (m : mem) (ok : bool) : lbuf :=
  {| lk := lk b; lstream := lstream b; lline := Some m; loff := loff b;
     lnum := lnum b; lok := ok; lwork := lwork b |}.

Definition set_ok (b : lbuf) (ok : bool) : lbuf :=
  {| lk := lk b; lstream := lstream b; lline := lline b; loff := loff b;
     lnum := lnum b; lok := ok; lwork := lwork b |}.

Definition add_work (b : lbuf) (w : Z) : lbuf :=
  {| lk := lk b; lstream := lstream b; lline := lline b; loff := loff b;
     lnum := lnum b; lok := lok b; lwork := lwork b + w |}.

(* mps_input_buffer_next_token; [n] bounds the recursion (one level per line) *)
Fixpoint next_token_n (n : nat) (B : budget) (b : lbuf) : step (option (list Z)) :=
  match n with
  | O => SFuel
  | S n' =>
      sbind (match lline b with
             | None => sbind (readline B b) (fun rc b' => SOk (rc =? -1) b')
             | Some _ => SOk false b
             end)
        (fun stop b1 =>
           if stop then SOk None b1
           else
             match lline b1, loff b1 with
             | Some m, Some off =>
                 match next_token_line_fixed (bs B) m off with
                 | Done (t, _, off', tr) =>
                     let b2 := set_cursor b1 off' (chk_tr m tr (lok b1)) in
                     match t with
                     | Tok bytes => SOk (Some bytes) b2
                     | NoTok =>
                         sbind (readline B b2)
                               (fun rc b3 => if rc =? -1 then SOk None b3 else next_token_n n' B b3)
                     end
                 | OutOfFuel => SFuel
                 | Crash w => SCrash w b1
                 end
             | _, _ => SOk None b1             (* !buf->last_token *)
             end)
  end.

Definition next_token (B : budget) (b : lbuf) : step (option (list Z)) := next_token_n (bl B) B b.

(* ------------------------------------------------------------------ loops *)
(* for (i = lo; i <= hi; i++) body   -- every iteration of the loops below reads a token *)
Fixpoint for_loop (fuel : nat) (body : Z -> lbuf -> step unit) (i hi : Z) (b : lbuf) : step unit :=
  if hi <? i then SOk tt b
  else match fuel with
       | O => SFuel
       | S f => sbind (body i b) (fun _ b' => for_loop f body (i + 1) hi b')
       end.

(* while ((token = next_token (buffer)) != NULL) body *)
Fixpoint while_tok {S : Type} (fuel : nat) (B : budget) (body : list Z -> S -> lbuf -> step S)
         (st : S) (b : lbuf) : step S :=
  match fuel with
  | O => SFuel
  | S f =>
      sbind (next_token B b)
            (fun t b1 => match t with
                         | None => SOk st b1
                         | Some tok => sbind (body tok st b1) (fun st' b2 => while_tok f B body st' b2)
                         end)
  end.

(* ------------------------------------------------------------------ options *)
Inductive skd : Type := KInt | KRat | KFp.
Inductive rep : Type := RMonomial | RSecular | RChebyshev.

Record opts : Type := { o_n : Z; o_cplx : bool; o_kind : skd; o_sparse : bool; o_rep : rep; o_prec : Z }.

Definition opts0 : opts :=
  {| o_n := -1; o_cplx := true; o_kind := KFp; o_sparse := false; o_rep := RMonomial; o_prec := 0 |}.

Record poly : Type := {
  p_type : Z;          (* 0 mps_monomial_poly, 1 mps_secular_equation, 2 mps_chebyshev_poly, 3 plain mps_polynomial (user) *)
  p_deg : Z;
  p_cplx : bool; p_kind : skd;
  p_dens : Z;          (* 0 dense, 1 sparse, 2 user *)
  p_prec : Z }.

Inductive after_opts : Type := GoLegacy | GoReaders (o : opts).

Definition apply_flag (f : flag) (o : opts) : opts :=
  match f with
  | FSecular => {| o_n := o_n o; o_cplx := o_cplx o; o_kind := o_kind o; o_sparse := o_sparse o; o_rep := RSecular; o_prec := o_prec o |}
  | FMonomial => {| o_n := o_n o; o_cplx := o_cplx o; o_kind := o_kind o; o_sparse := o_sparse o; o_rep := RMonomial; o_prec := o_prec o |}
  | FChebyshev => {| o_n := o_n o; o_cplx := o_cplx o; o_kind := o_kind o; o_sparse := o_sparse o; o_rep := RChebyshev; o_prec := o_prec o |}
  | FSparse => {| o_n := o_n o; o_cplx := o_cplx o; o_kind := o_kind o; o_sparse := true; o_rep := o_rep o; o_prec := o_prec o |}
  | FDense => {| o_n := o_n o; o_cplx := o_cplx o; o_kind := o_kind o; o_sparse := false; o_rep := o_rep o; o_prec := o_prec o |}
  | FReal => {| o_n := o_n o; o_cplx := false; o_kind := o_kind o; o_sparse := o_sparse o; o_rep := o_rep o; o_prec := o_prec o |}
  | FComplex => {| o_n := o_n o; o_cplx := true; o_kind := o_kind o; o_sparse := o_sparse o; o_rep := o_rep o; o_prec := o_prec o |}
  | FInteger => {| o_n := o_n o; o_cplx := o_cplx o; o_kind := KInt; o_sparse := o_sparse o; o_rep := o_rep o; o_prec := o_prec o |}
  | FRational => {| o_n := o_n o; o_cplx := o_cplx o; o_kind := KRat; o_sparse := o_sparse o; o_rep := o_rep o; o_prec := o_prec o |}
  | FFp => {| o_n := o_n o; o_cplx := o_cplx o; o_kind := KFp; o_sparse := o_sparse o; o_rep := o_rep o; o_prec := o_prec o |}
  | _ => o
  end.

Definition set_n (o : opts) (n : Z) : opts :=
  {| o_n := n; o_cplx := o_cplx o; o_kind := o_kind o; o_sparse := o_sparse o; o_rep := o_rep o; o_prec := o_prec o |}.
Definition set_prec (o : opts) (p : Z) : opts :=
  {| o_n := o_n o; o_cplx := o_cplx o; o_kind := o_kind o; o_sparse := o_sparse o; o_rep := o_rep o; o_prec := p |}.

Definition msg_toolong : list Z := str "Maximum line length exceeded (length > 255 while parsing)".
Definition msg_degree_pos : list Z := str "Degree must be a positive integer".
Definition msg_prec_pos : list Z := str "Precision must be a positive integer".
Definition msg_degree_missing : list Z :=
  str "Degree of the polynomial must be provided via the Degree=<n> configuration option.".

(* the while (parsing_options) loop of mps_parse_abstract_stream *)
Fixpoint opt_loop (fuel : nat) (B : budget) (first : bool) (o : opts) (b : lbuf) : step after_opts :=
  match fuel with
  | O => SFuel
  | S f =>
      sbind (readline B b)
        (fun rc b1 =>
           let finish (bb : lbuf) := if first then SOk GoLegacy bb else SOk (GoReaders o) bb in
           match lline b1 with
           | None => finish b1                                      (* line == NULL *)
           | Some m =>
               if rc <? 0 then finish b1
               else
                 match find_semi (bs B) m 0 [] with                 (* strchr (line, ';') *)
                 | Done (None, tr) => finish (set_ok b1 (chk_tr m tr (lok b1)))
                 | Done (Some _, tr) =>
                     match cstr (bs B) m 0 tr with                  (* strlen (line) *)
                     | Done (l, tr1) =>
                         let ok1 := chk_tr m tr1 (lok b1) in
                         match option_walk_fixed (bs B) m (Z.of_nat (List.length l)) with
                         | Done WTooLong => SErr (plain_err msg_toolong) (set_ok b1 ok1)
                         | Done (WOption _ otext m' tr2) =>
                             let b2 := set_line b1 m' (chk_tr m tr2 ok1) in
                             let '(fl, v, e) := classify_fixed otext in
                             match e with
                             | Some me => SErr (of_merr (str "Unrecognized option: %s") me) b2
                             | None =>
                                 match fl with
                                 | FDegree =>
                                     match v with
                                     | None => SCrash 1 b2                      (* strtol (NULL) *)
                                     | Some val =>      (* if (!mps_utils_parse_long (value, 1, INT_MAX - 1, &degree)) degree = 0; *)
                                         let n := match parse_long val 1 (int_max - 1) with Some v => v | None => 0 end in
                                         if n <=? 0 then SErr (plain_err msg_degree_pos) b2
                                         else opt_loop f B false (set_n o n) b2
                                     end
                                 | FPrecision =>
                                     match v with
                                     | None => SCrash 1 b2
                                     | Some val =>
                                         (* if (!mps_utils_parse_long (value, 1, INT_MAX, &digits)) digits = 0; digits * LOG2_10 *)
                                         let p := mul_log2_10 (match parse_long val 1 int_max with Some v => v | None => 0 end) in
                                         if p <=? 0 then SErr (plain_err msg_prec_pos) b2
                                         else opt_loop f B false (set_prec o p) b2
                                     end
                                 | _ => opt_loop f B false (apply_flag fl o) b2
                                 end
                             end
                         | OutOfFuel => SFuel
                         | Crash w => SCrash w b1
                         end
                     | OutOfFuel => SFuel
                     | Crash w => SCrash w b1
                     end
                 | OutOfFuel => SFuel
                 | Crash w => SCrash w b1
                 end
           end)
  end.

(* ------------------------------------------------------------------ the coefficient readers *)
Section Readers.
  Variable gmpf : list Z -> bool.                (* mpf_set_str (x, token, 10) == 0 *)
  Variable gmpq : list Z -> option (Z * Z).      (* mpq_set_str (q, token, 10) == 0: numerator, denominator stored *)
  Variable chk : bool.                           (* the Chebyshev sparse reader checks the parsed degree *)
  Variable B : budget.

  (* token = next_token (buffer);
     if (!token || mpf_set_str (x[idx], token, 10) != 0) { mps_raise_parsing_error (s, buffer, token, msg); return NULL; }
     [inrange] = idx is inside the allocation; x[idx] is only formed when token != NULL;
     [args] = the arguments that follow msg in the call *)
  Definition expect_f_at (inrange : bool) (msg : list Z) (args : list farg) (b : lbuf) : step unit :=
    sbind (next_token B b)
          (fun t b1 => match t with
                       | None => SErr (null_err msg args) b1
                       | Some tok => if negb inrange then SCrash 4 b1
                                     else if gmpf tok then SOk tt b1 else SErr (tok_err b1 tok msg) b1
                       end).

  Definition expect_q_at (inrange : bool) (msg : list Z) (args : list farg) (b : lbuf) : step (Z * Z) :=
    sbind (next_token B b)
          (fun t b1 => match t with
                       | None => SErr (null_err msg args) b1
                       | Some tok => if negb inrange then SCrash 4 b1
                                     else match gmpq tok with
                                          | Some q => SOk q b1
                                          | None => SErr (tok_err b1 tok msg) b1
                                          end
                       end).

  (* mpq_canonicalize *)
  Definition canon (q : Z * Z) (b : lbuf) : step unit := if snd q =? 0 then SCrash 2 b else SOk tt b.

  Definition expect_qc_at (inrange : bool) (msg : list Z) (args : list farg) (b : lbuf) : step unit :=
    sbind (expect_q_at inrange msg args b) canon.

  (* one coefficient: real part, and the imaginary part when the structure is complex *)
  Definition coef_at (inrange : bool) (k : skd) (cplx : bool) (m1 : list Z) (a1 : list farg) (m2 : list Z) (a2 : list farg)
             (b : lbuf) : step unit :=
    match k with
    | KFp => sbind (expect_f_at inrange m1 a1 b) (fun _ b1 => if cplx then expect_f_at inrange m2 a2 b1 else SOk tt b1)
    | _ => sbind (expect_qc_at inrange m1 a1 b) (fun _ b1 => if cplx then expect_qc_at inrange m2 a2 b1 else SOk tt b1)
    end.
  (* the messages of the dense readers and of the monomial readers have no arguments *)
  Definition coef (k : skd) (cplx : bool) (m1 m2 : list Z) : lbuf -> step unit := coef_at true k cplx m1 [] m2 [].

  Definition mk_poly (ty : Z) (o : opts) : poly :=
    {| p_type := ty; p_deg := o_n o; p_cplx := o_cplx o; p_kind := o_kind o;
       p_dens := if o_sparse o then 1 else 0; p_prec := o_prec o |}.

  (* --- monomial-parser.c : mps_monomial_poly_read_from_stream *)
  Definition msg_mono : list Z := str "Error parsing coefficients of the polynomial".
  Definition msg_mono_idx : list Z := str "Error while parsing the degree of a monomial".
  Definition msg_mono_range : list Z := str "Degree of coefficient out of bounds".
  Definition msg_mono_twice : list Z := str "A monomial of the same degree has been inserted twice".

  Definition seen (i : Z) (l : list Z) : bool := existsb (Z.eqb i) l.

  (* body of the sparse loops of the monomial readers; [cf] reads the coefficient;
     the index is a long read by mps_utils_parse_long (token, LONG_MIN, LONG_MAX, &index) *)
  Definition sparse_body (n : Z) (cf : lbuf -> step unit) (tok : list Z) (sp : list Z) (b : lbuf)
    : step (list Z) :=
    match parse_long tok long_min long_max with
    | None => SErr (tok_err b tok msg_mono_idx) b
    | Some i =>
        if (i <? 0) || (n <? i) then SErr (tok_err b tok msg_mono_range) b
        else if seen i sp then SErr (tok_err b tok msg_mono_twice) b
        else sbind (cf b) (fun _ b' => SOk (i :: sp) b')
    end.

  Definition read_monomial (o : opts) (b : lbuf) : step poly :=
    let b0 := add_work b (o_n o + 1) in
    let cf := coef (o_kind o) (o_cplx o) msg_mono msg_mono in
    if o_sparse o
    then sbind (while_tok (bl B) B (sparse_body (o_n o) cf) [] b0) (fun _ b' => SOk (mk_poly 0 o) b')
    else sbind (for_loop (bl B) (fun _ => cf) 0 (o_n o) b0) (fun _ b' => SOk (mk_poly 0 o) b').

  (* --- secular-parser.c : mps_secular_equation_read_from_stream *)
  Definition msg_sec_fp : list Z :=
    str "Error reading some coefficients of the secular equation." ++ [10] ++ str "Please check your input file.".
  Definition msg_sec_q1 : list Z :=
    str "Error reading some coefficients of the secular equation." ++ [10] ++ str "Please check your input file".
  Definition msg_sec_q2 : list Z :=
    str "Error reading some coefficients of the secular equation.Please check your input file".

  Definition read_secular (o : opts) (b : lbuf) : step poly :=
    let b0 := add_work b (o_n o) in
    let body :=
      match o_kind o with
      | KFp => fun b1 => sbind (coef KFp (o_cplx o) msg_sec_fp msg_sec_fp b1)
                               (fun _ b2 => coef KFp (o_cplx o) msg_sec_fp msg_sec_fp b2)
      | k => fun b1 => sbind (coef k (o_cplx o) msg_sec_q1 msg_sec_q2 b1)
                             (fun _ b2 => coef k (o_cplx o) msg_sec_q2 msg_sec_q2 b2)
      end in
    sbind (for_loop (bl B) (fun _ => body) 0 (o_n o - 1) b0) (fun _ b' => SOk (mk_poly 1 o) b').

  (* --- chebyshev-parser.c : mps_chebyshev_poly_read_from_stream *)
  Definition msg_ch_re : list Z := str "Error while reading real part of coefficient".
  Definition msg_ch_im : list Z := str "Error while reading imaginary part of coefficient".
  Definition msg_ch_qre : list Z := str "Error while reading the real part of coefficient".
  Definition msg_ch_qim : list Z := str "Error while reading the imaginary part of coefficient".
  Definition msg_ch_deg : list Z := str "Cannot parse the degree of the coefficient.".
  Definition msg_ch_im_d : list Z := (msg_ch_im ++ str " ") ++ str "%d".      (* "... of coefficient %d", degree *)
  Definition msg_ch_qre_d : list Z := (msg_ch_qre ++ str " ") ++ str "%d".    (* "... of coefficient %d", i *)
  Definition msg_ch_qim_d : list Z := (msg_ch_qim ++ str " ") ++ str "%d".

  (* the argument of the FP message is the parsed degree; the rational branch passes [i], the counter of
     the loop that zeroes the coefficients before this loop: Degree + 1 *)
  Definition cheb_sparse_body (o : opts) (tok : list Z) (u : unit) (b : lbuf) : step unit :=
    match sscanf_d tok with
    | None => SErr (tok_err b tok msg_ch_deg) b
    | Some d =>
        let inr := (0 <=? d) && (d <=? o_n o) in
        if chk && negb inr then SErr (tok_err b tok msg_mono_range) b
        else
          match o_kind o with
          | KFp => coef_at inr KFp (o_cplx o) msg_ch_re [] msg_ch_im_d [AInt d] b
          | k => coef_at inr k (o_cplx o) msg_ch_qre_d [AInt (o_n o + 1)] msg_ch_qim_d [AInt (o_n o + 1)] b
          end
    end.

  Definition read_chebyshev (o : opts) (b : lbuf) : step poly :=
    let b0 := add_work b (o_n o + 1) in
    if o_sparse o
    then sbind (while_tok (bl B) B (cheb_sparse_body o) tt b0) (fun _ b' => SOk (mk_poly 2 o) b')
    else
      let cf := match o_kind o with
                | KFp => coef KFp (o_cplx o) msg_ch_re msg_ch_im
                | k => coef k (o_cplx o) msg_ch_qre msg_ch_qim
                end in
      sbind (for_loop (bl B) (fun _ => cf) 0 (o_n o) b0) (fun _ b' => SOk (mk_poly 2 o) b').

  (* --- monomial-parser.c : mps_monomial_poly_read_from_stream_v2 (MPSolve 2.x files) *)
  Definition msg_v2_file : list Z := str "Error parsing the input file".
  Definition msg_v2_dt0 : list Z := str "Found unsupported data_type in input file".
  Definition msg_v2_dt1 : list Z := str "Found unsupported data_structure in input file".
  Definition msg_v2_dt2 : list Z := str "Found unsupported data structure in input file".
  Definition msg_v2_prec : list Z := str "Error while reading the input precision of the coefficients".
  Definition msg_v2_deg : list Z := str "Error reading the degree of the polynomial".
  Definition msg_v2_num : list Z := str "Error parsing the numerator of a coefficient".
  Definition msg_v2_den : list Z := str "Error parsing the denominator of a coefficient".

  (* mpq_div (r, r, qtmp); mpq_canonicalize (r)   with r = q1 (numerator token), qtmp = q2 *)
  Definition legacy_div (q1 q2 : Z * Z) (b : lbuf) : step unit :=
    if fst q2 =? 0 then SCrash 2 b                     (* division by zero *)
    else if fst q1 =? 0 then SOk tt b                  (* 0 / x = 0/1 whatever the denominators are *)
    else if snd q2 <=? 0 then SCrash 3 b
    else if snd q1 =? 0 then SCrash 2 b                (* result n/0 reaches mpq_canonicalize *)
    else SOk tt b.

  (* numerator token, mpq_set, denominator token, mpq_div, mpq_canonicalize *)
  Definition legacy_rat_part (b : lbuf) : step unit :=
    sbind (expect_q_at true msg_v2_num [] b)
          (fun q1 b1 => if snd q1 <? 0 then SCrash 3 b1        (* mpq_set of a negative denominator *)
                        else sbind (expect_q_at true msg_v2_den [] b1) (fun q2 b2 => legacy_div q1 q2 b2)).

  Definition legacy_coef (k : skd) (cplx : bool) (b : lbuf) : step unit :=
    match k with
    | KRat => sbind (legacy_rat_part b) (fun _ b1 => if cplx then legacy_rat_part b1 else SOk tt b1)
    | k' => coef k' cplx msg_mono msg_mono b
    end.

  Definition read_legacy (b : lbuf) : step poly :=
    sbind (next_token B b)
      (fun t b1 =>
         match t with
         | None => SErr (plain_err msg_v2_file) b1
         | Some tok =>                                         (* sscanf (token, "%3s", data_type) *)
             let dt := firstn 3 tok in
             let c0 := nth 0 dt 0 in let c1 := nth 1 dt 0 in let c2 := nth 2 dt 0 in
             if negb ((c0 =? 115) || (c0 =? 100) || (c0 =? 117)) then SErr (plain_err msg_v2_dt0) b1
             else if negb ((c1 =? 114) || (c1 =? 99)) then SErr (plain_err msg_v2_dt1) b1
             else if negb ((c2 =? 113) || (c2 =? 105) || (c2 =? 102)) then SErr (plain_err msg_v2_dt2) b1
             else
               let cplx := c1 =? 99 in
               let k := if c2 =? 113 then KRat else if c2 =? 105 then KInt else KFp in
               sbind (next_token B b1)
                 (fun t2 b2 =>
                    (* !token || !mps_utils_parse_long (token, LONG_MIN, LONG_MAX / 4, &prec) *)
                    match match t2 with Some tk => parse_long tk long_min (long_max / 4) | None => None end with
                    | None => SErr (plain_err msg_v2_prec) b2
                    | Some pr =>
                        let prec := mul_log2_10 pr in
                        sbind (next_token B b2)
                          (fun t3 b3 =>
                             (* !token || !mps_utils_parse_long (token, 0, INT_MAX - 1, &degree) *)
                             match match t3 with Some tk => parse_long tk 0 (int_max - 1) | None => None end with
                             | None => SErr (plain_err msg_v2_deg) b3
                             | Some n =>
                                 if c0 =? 117
                                 then SOk {| p_type := 3; p_deg := n; p_cplx := false; p_kind := KInt; p_dens := 2; p_prec := 0 |} b3
                                 else
                                   let b4 := add_work b3 (n + 1) in
                                   let res := {| p_type := 0; p_deg := n; p_cplx := cplx; p_kind := k;
                                                 p_dens := if c0 =? 115 then 1 else 0; p_prec := prec |} in
                                   if c0 =? 100
                                   then sbind (for_loop (bl B) (fun _ => legacy_coef k cplx) 0 n b4)
                                              (fun _ b5 => SOk res b5)
                                   else
                                     (* the number of coefficients: read and ignored *)
                                     sbind (next_token B b4)
                                       (fun _ b5 =>
                                          sbind (while_tok (bl B) B (sparse_body n (legacy_coef k cplx)) [] b5)
                                                (fun _ b6 => SOk res b6))
                             end)
                    end)
         end).

  (* --- parser.c : mps_parse_abstract_stream *)
  Definition init_buf (k : skind) (s : list Z) : lbuf :=
    {| lk := k; lstream := s; lline := None; loff := None; lnum := 0; lok := true; lwork := 0 |}.

  Definition parse_abstract (k : skind) (s : list Z) : step poly :=
    sbind (opt_loop (bl B) B true opts0 (init_buf k s))
      (fun a b =>
         match a with
         | GoLegacy => read_legacy b
         | GoReaders o =>
             if o_n o =? -1 then SErr (plain_err msg_degree_missing) b
             else match o_rep o with
                  | RSecular => read_secular o b
                  | RChebyshev => read_chebyshev o b
                  | RMonomial => read_monomial o b
                  end
         end).

  Fixpoint until_nul (l : list Z) : list Z :=
    match l with
    | [] => []
    | c :: r => if c =? 0 then [] else c :: until_nul r
    end.

  (* mps_parse_string: strdup + std::istringstream see the bytes before the first NUL *)
  Definition parse_string (input : list Z) : step poly := parse_abstract MemStream (until_nul input).

  (* mps_parse_stream (and mps_parse_file = fopen + mps_parse_stream) *)
  Definition parse_stream (input : list Z) : step poly :=
    match skip_comments_fixed (S (List.length input)) input with
    | Done r => parse_abstract FileStream r
    | OutOfFuel => SFuel
    | Crash w => SCrash w (init_buf FileStream input)
    end.
End Readers.

(* the budgets of the theorems: linear in the input *)
Definition budget_of (input : list Z) : budget :=
  {| bl := List.length input + 2; bs := 2 * List.length input + 1100 |}.
