(* C04 -- theorems about the Newton primitives AS CODED (Radius/NewtonCoded.v) when the abstract arithmetic is
   a rounded arithmetic on a numClosedFieldType obeying the standard model of rounding.
   MathComp style; no axioms. *)
From mathcomp Require Import all_ssreflect all_algebra.
From mathcomp Require Import ring.
From MPSV Require Import Roots.NewtonDisc Radius.RadiusModel Radius.NewtonRadius Radius.NewtonCoded.
Set Implicit Arguments. Unset Strict Implicit. Unset Printing Implicit Defensive.
Import Order.TTheory GRing.Theory Num.Theory.
Local Open Scope ring_scope.

Lemma List_rev_rev (T : Type) (l : seq T) : List.rev l = rev l.
Proof. by elim: l => //= a l ->; rewrite rev_cons -cats1. Qed.

Section Proofs.
Variable C : numClosedFieldType.
Implicit Types (a b x y z p s c : C) (l : seq C).

(* x is within relative distance u of the non-negative real v *)
Definition near (u x v : C) : Prop := (1 - u) * v <= x /\ x <= (1 + u) * v.

(* The standard model of rounding for an arithmetic on C (K = R = D = C):
   complex product and sum with constants um, ua; moduli with uh; every real operation (on non-negative
   operands, which is all the radius computations use) with ur; integer -> double conversions and comparisons exact. *)
Record std_round (A : arith C C C) (um ua uh ur epsv : C) : Prop := StdRound {
  sr_um : 0 <= um;  sr_ua : 0 <= ua;  sr_uh : 0 <= uh;  sr_uh1 : uh < 1;  sr_ur : 0 <= ur;  sr_ur1 : ur < 1;
  sr_eps : 0 <= epsv;
  sr_cmul : forall a b, `|cmul A a b - a * b| <= um * `|a * b|;
  sr_cadd : forall a b, `|cadd A a b - (a + b)| <= ua * `|a + b|;
  sr_cmod : forall a, near uh (cmod A a) `|a|;
  sr_radd : forall a b, 0 <= a -> 0 <= b -> near ur (radd A a b) (a + b);
  sr_radd_eq : forall a b, 0 <= a -> 0 <= b -> near ur (radd_eq A a b) (a + b);
  sr_rmul : forall a b, 0 <= a -> 0 <= b -> near ur (rmul A a b) (a * b);
  sr_rmuld : forall a b, 0 <= a -> 0 <= b -> near ur (rmuld A a b) (a * b);
  sr_rdiv : forall a b, 0 <= a -> 0 < b -> near ur (rdiv A a b) (a / b);
  sr_dmul : forall a b, 0 <= a -> 0 <= b -> near ur (dmul A a b) (a * b);
  sr_dadd : forall a b, 0 <= a -> 0 <= b -> near ur (dadd A a b) (a + b);
  sr_dnat : forall n, dnat A n = n%:R;
  sr_deps : deps A = epsv;
  sr_rmin : 0 <= rmin A;
  sr_rgt : forall a b, rgt A a b = (b < a);
  sr_rlt : forall a b, rlt A a b = (a < b);
  sr_ceq0 : forall a, ceq0 A a = (a == 0);
  sr_czero : czero A = 0
}.

Section WithArith.
Variable A : arith C C C.
Variables um ua uh ur epsv : C.
Hypothesis SR : std_round A um ua uh ur epsv.

Let um0 := sr_um SR. Let ua0 := sr_ua SR. Let uh0 := sr_uh SR. Let ur0 := sr_ur SR.
Let uh1 := ltW (sr_uh1 SR). Let ur1 := ltW (sr_ur1 SR).

Lemma near_ge u x v : near u x v -> (1 - u) * v <= x. Proof. by case. Qed.
Lemma near_le u x v : near u x v -> x <= (1 + u) * v. Proof. by case. Qed.
Lemma near_ge0 u x v : u <= 1 -> 0 <= v -> near u x v -> 0 <= x.
Proof. by move=> u1 v0 [H _]; apply: le_trans H; rewrite mulr_ge0 // subr_ge0. Qed.

(* ------------------------------------------------------------------ exact Horner on high-first lists *)
Definition hex z := foldl (fun acc a => acc * z + a).
Definition habs z := foldl (fun acc a => acc * `|z| + `|a|).
Definition hfl z := foldl (fun acc a => cadd A (cmul A acc z) a).

Lemma hex_rev z cs : hex z 0 (rev cs) = (Poly cs).[z].
Proof.
elim: cs => [|a cs IH]; first by rewrite /= horner0.
by rewrite rev_cons /hex foldl_rcons -/(hex z 0 (rev cs)) IH /= horner_cons.
Qed.

Lemma habs_rev z cs : habs z 0 (rev cs) = (Poly (map Num.norm cs)).[`|z|].
Proof.
elim: cs => [|a cs IH]; first by rewrite /= horner0.
by rewrite rev_cons /habs foldl_rcons -/(habs z 0 (rev cs)) IH /= horner_cons.
Qed.

Lemma hex_head z a l : hex z 0 (a :: l) = hex z a l.
Proof. by rewrite /hex /= mul0r add0r. Qed.
Lemma habs_head z a l : habs z 0 (a :: l) = habs z `|a| l.
Proof. by rewrite /habs /= mul0r add0r. Qed.

Lemma hloop_fst z p p1 l : (hloop A z p p1 l).1 = hfl z p l.
Proof.
elim: l p p1 => [//|a l IH] p p1 /=.
by case: l IH => [//|b l] IH; rewrite IH.
Qed.

(* the growth factor of one Horner step *)
Definition g1 : C := (1 + um) * (1 + ua).
Lemma g1_ge1 : 1 <= g1.
Proof. by rewrite /g1 -[X in X <= _]mulr1 ler_pmul ?ler01 ?ler_addl. Qed.

(* one step: invariants |ph - p| <= (c - 1) s, |p| <= s *)
Lemma hstep z a ph p s c : 1 <= c -> `|ph - p| <= (c - 1) * s -> `|p| <= s ->
  `|cadd A (cmul A ph z) a - (p * z + a)| <= (c * g1 - 1) * (s * `|z| + `|a|) /\ `|p * z + a| <= s * `|z| + `|a|.
Proof.
move=> c1 H1 H2.
have s0 : 0 <= s by apply: le_trans H2.
have c0 : 0 <= c by apply: le_trans c1.
set s' := s * `|z| + `|a|.
have s'0 : 0 <= s' by rewrite addr_ge0 // mulr_ge0.
have szs' : s * `|z| <= s' by rewrite ler_addl.
split; last first.
  by apply: le_trans (ler_norm_add _ _) _; rewrite ler_add2r normrM ler_wpmul2r.
have Hph : `|ph| <= c * s.
  rewrite -[ph](subrK p); apply: le_trans (ler_norm_add _ _) _.
  have -> : c * s = (c - 1) * s + s by ring.
  exact: ler_add.
set m := cmul A ph z.
have Hd1 : `|m - ph * z| <= um * (c * s * `|z|).
  apply: le_trans (sr_cmul SR ph z) _; rewrite ler_wpmul2l // normrM ler_wpmul2r //.
have Hm : `|m| <= (1 + um) * c * (s * `|z|).
  rewrite -[m](subrK (ph * z)); apply: le_trans (ler_norm_add _ _) _.
  have -> : (1 + um) * c * (s * `|z|) = um * (c * s * `|z|) + c * s * `|z| by ring.
  by apply: ler_add => //; rewrite normrM ler_wpmul2r.
have umc1 : 1 <= (1 + um) * c.
  by rewrite -[X in X <= _]mulr1 ler_pmul ?ler01 ?ler_addl.
have Hma : `|m + a| <= (1 + um) * c * s'.
  apply: le_trans (ler_norm_add _ _) _; rewrite /s' mulrDr ler_add //.
  by rewrite -[X in X <= _]mul1r ler_wpmul2r.
have Hd2 : `|cadd A m a - (m + a)| <= ua * ((1 + um) * c * s').
  by apply: le_trans (sr_cadd SR m a) _; rewrite ler_wpmul2l.
have -> : cadd A m a - (p * z + a) = (cadd A m a - (m + a)) + ((m - ph * z) + (ph - p) * z) by ring.
apply: le_trans (ler_norm_add _ _) _.
have -> : (c * g1 - 1) * s' = ua * ((1 + um) * c * s') + (c * um + c - 1) * s' by rewrite /g1; ring.
apply: ler_add => //.
apply: le_trans (ler_norm_add _ _) _.
have k0 : 0 <= c * um + c - 1 by rewrite -addrA addr_ge0 ?mulr_ge0 // subr_ge0.
apply: (@le_trans _ _ ((c * um + c - 1) * (s * `|z|))); last by rewrite ler_wpmul2l.
have -> : (c * um + c - 1) * (s * `|z|) = um * (c * s * `|z|) + (c - 1) * s * `|z| by ring.
by apply: ler_add => //; rewrite normrM ler_wpmul2r.
Qed.

Lemma hfl_error z l ph p s c : 1 <= c -> `|ph - p| <= (c - 1) * s -> `|p| <= s ->
  `|hfl z ph l - hex z p l| <= (c * g1 ^+ size l - 1) * habs z s l /\ `|hex z p l| <= habs z s l.
Proof.
elim: l ph p s c => [|a l IH] ph p s c c1 H1 H2; first by rewrite /= expr0 mulr1.
have [H1' H2'] := hstep z a c1 H1 H2.
have c1' : 1 <= c * g1 by rewrite -[X in X <= _]mulr1 ler_pmul ?ler01 // g1_ge1.
have [E1 E2] := IH _ _ _ _ c1' H1' H2'.
by rewrite /= exprS mulrA.
Qed.

(* sum |a_i| |z|^i *)
Definition Sabs (cs : seq C) z : C := (Poly (map Num.norm cs)).[`|z|].
(* gamma_n = ((1+um)(1+ua))^n - 1 *)
Definition gam (n : nat) : C := g1 ^+ n - 1.

Lemma gam_ge0 n : 0 <= gam n.
Proof. by rewrite subr_ge0 exprn_ege1 // g1_ge1. Qed.

Lemma Sabs_ge0 cs z : 0 <= Sabs cs z.
Proof.
rewrite /Sabs -habs_rev; elim/last_ind: cs => [//|cs a IH].
by rewrite rev_rcons habs_head; elim: (rev cs) `|a| (normr_ge0 a) => //= b l IHl s s0; rewrite IHl // addr_ge0 // mulr_ge0.
Qed.

(* |p^ - p(z)| <= gamma_n sum |a_i||z|^i for the value the Horner loop of the code computes *)
Theorem horner2_value_error z cs n : size cs = n.+1 ->
  `|(horner2 A z (List.rev cs)).1 - (Poly cs).[z]| <= gam n * Sabs cs z /\ `|(Poly cs).[z]| <= Sabs cs z.
Proof.
move=> sz; rewrite List_rev_rev -hex_rev /Sabs -habs_rev.
case E: (rev cs) => [|an l]; first by move: sz; rewrite -size_rev E.
have szl : size l = n by move: sz; rewrite -size_rev E /= => -[].
rewrite hex_head habs_head /horner2 hloop_fst.
have := @hfl_error z l an an `|an| 1 (lexx _).
by rewrite !subrr normr0 mul0r mul1r szl; apply.
Qed.

(* ------------------------------------------------------------------ the running bound ap *)
(* theta = (1 - ur)^2 (1 - uh): loss of one step of the ap loop *)
Definition theta : C := (1 - ur) ^+ 2 * (1 - uh).
Definition kap (n : nat) : C := (1 - uh) * theta ^+ n.

Lemma omur0 : 0 <= 1 - ur. Proof. by rewrite subr_ge0. Qed.
Lemma omuh0 : 0 <= 1 - uh. Proof. by rewrite subr_ge0. Qed.
Lemma omur1 : 1 - ur <= 1. Proof. by rewrite ler_subl_addr ler_addl. Qed.
Lemma omuh1 : 1 - uh <= 1. Proof. by rewrite ler_subl_addr ler_addl. Qed.
Lemma theta0 : 0 <= theta. Proof. by rewrite /theta mulr_ge0 ?exprn_ge0 ?omur0 ?omuh0. Qed.
Lemma theta1 : theta <= 1.
Proof. by rewrite /theta -[X in _ <= X]mulr1 ler_pmul ?exprn_ge0 ?omur0 ?omuh0 ?omuh1 // exprn_ile1 ?omur0 ?omur1. Qed.

(* l = [(a_i, m_i)] high first; m_i >= (1-uh)|a_i| ; az >= (1-uh)|z| *)
Lemma aploop_lower z az (l : seq (C * C)) ap s k :
  (1 - uh) * `|z| <= az -> all (fun am => (1 - uh) * `|am.1| <= am.2) l ->
  0 <= k -> k <= 1 -> 0 <= s -> k * s <= ap ->
  k * theta ^+ size l * habs z s (map fst l) <= aploop A az ap (map snd l).
Proof.
move=> Haz; elim: l ap s k => [|[a m] l IH] ap s k /=; first by move=> _ _ _ _; rewrite expr0 mulr1.
case/andP => Hm Hl k0 k1 s0 Hap.
have az0 : 0 <= az by apply: le_trans Haz; rewrite mulr_ge0 ?omuh0.
have ap0 : 0 <= ap by apply: le_trans Hap; rewrite mulr_ge0.
have m0 : 0 <= m by apply: le_trans Hm; rewrite mulr_ge0 ?omuh0.
set s' := s * `|z| + `|a|.
have s'0 : 0 <= s' by rewrite addr_ge0 // mulr_ge0.
have H1 := near_ge (sr_rmul SR ap0 az0).
have t0 : 0 <= rmul A ap az by apply: le_trans H1; rewrite !mulr_ge0 ?omur0.
have H2 := near_ge (sr_radd SR t0 m0).
have kt0 : 0 <= k * theta by rewrite mulr_ge0 ?theta0.
have kt1 : k * theta <= 1 by rewrite -[X in _ <= X]mulr1 ler_pmul ?theta0 ?theta1.
have Hstep : k * theta * s' <= radd A (rmul A ap az) m.
  apply: le_trans H2.
  have -> : k * theta * s' = (1 - ur) * ((1 - ur) * (k * s * ((1 - uh) * `|z|)) + k * (1 - ur) * ((1 - uh) * `|a|)).
    by rewrite /theta /s'; ring.
  rewrite ler_wpmul2l ?omur0 // ler_add //.
    apply: le_trans H1; rewrite ler_wpmul2l ?omur0 // ler_pmul ?mulr_ge0 ?omuh0 //.
  apply: le_trans Hm; rewrite -[X in _ <= X]mul1r ler_wpmul2r ?mulr_ge0 ?omuh0 //.
  by rewrite -[X in _ <= X]mulr1 ler_pmul ?omur0 ?omur1.
have := IH _ _ _ Hl kt0 kt1 s'0 Hstep.
by rewrite exprS !mulrA.
Qed.

(* ms_ok: the table of moduli is accurate from below, entry by entry *)
Definition ms_ok (cs ms : seq C) : Prop :=
  size ms = size cs /\ all (fun am => (1 - uh) * `|am.1| <= am.2) (zip cs ms).

Theorem apsum_lower z az cs ms n : size cs = n.+1 -> ms_ok cs ms -> (1 - uh) * `|z| <= az ->
  kap n * Sabs cs z <= apsum A az (List.rev ms).
Proof.
move=> sz [szm Hall] Haz; rewrite List_rev_rev /Sabs -habs_rev.
have -> : rev ms = map snd (rev (zip cs ms)) by rewrite map_rev -/(unzip2 _) unzip2_zip // szm.
have -> : rev cs = map fst (rev (zip cs ms)) by rewrite map_rev -/(unzip1 _) unzip1_zip // szm.
have Hall' : all (fun am => (1 - uh) * `|am.1| <= am.2) (rev (zip cs ms)) by rewrite all_rev.
case E: (rev (zip cs ms)) Hall' => [|[an mn] l] Hall'.
  by move: (congr1 size E); rewrite size_rev size_zip szm minnn sz.
have szl : size l = n by move: (congr1 size E); rewrite size_rev size_zip szm minnn sz /= => -[].
move: Hall'; rewrite [all _ _]/= => /andP [Hm Hl].
rewrite [map fst _]/= [map snd _]/= habs_head /apsum /kap -szl.
by apply: (aploop_lower Haz Hl); rewrite ?omuh0 ?omuh1.
Qed.

(* ------------------------------------------------------------------ the error term dominates *)
Lemma near_mul_ge a b x : 0 <= a -> 0 <= b -> near ur x (a * b) -> (1 - ur) * (a * b) <= x.
Proof. by move=> _ _ []. Qed.

(* eps = 4 * n * DBL_EPSILON as computed by mps_fnewton *)
Lemma feps_lower n : (1 - ur) * ((4 * n)%:R * epsv) <= feps A n /\ 0 <= feps A n.
Proof.
have e0 := sr_eps SR.
have H := sr_dmul SR (ler0n C (4 * n)) e0.
rewrite /feps (sr_dnat SR) (sr_deps SR); split; first exact: (near_ge H).
by apply: near_ge0 H => //; rewrite mulr_ge0 // ler0n.
Qed.

(* eps = DBL_EPSILON * n * 4 as computed by mps_dnewton *)
Lemma deps4n_lower n : (1 - ur) ^+ 2 * ((4 * n)%:R * epsv) <= deps4n A n /\ 0 <= deps4n A n.
Proof.
have e0 := sr_eps SR.
have H1 := sr_dmul SR e0 (ler0n C n).
have t0 : 0 <= dmul A epsv n%:R by apply: near_ge0 H1 => //; rewrite mulr_ge0 // ler0n.
have H2 := sr_dmul SR t0 (ler0n C 4).
rewrite /deps4n !(sr_dnat SR) (sr_deps SR); split; last first.
  by apply: near_ge0 H2 => //; rewrite mulr_ge0 // ler0n.
apply: le_trans (near_ge H2).
have -> : (1 - ur) ^+ 2 * ((4 * n)%:R * epsv) = (1 - ur) * ((1 - ur) * (epsv * n%:R) * 4%:R).
  by rewrite natrM; ring.
by rewrite ler_wpmul2l ?omur0 // ler_wpmul2r ?ler0n // (near_ge H1).
Qed.


(* ------------------------------------------------------------------ from the coded radius to a root *)
(* COND rho e gamma eta: rho = what the rounded radius arithmetic keeps of the exact expression,
   e = lower bound of E / S (E the coded error term, S = sum |a_i||z|^i), gamma = bound of |p^ - p(z)| / S,
   eta = relative error of the computed derivative.  First order in the unit roundoffs:
   gamma + 2 uh + (1 - rho) + eta <= e. *)
Definition COND (rho e gamma eta : C) : Prop :=
  (1 + uh) * gamma <= rho * (1 - eta) * e /\
  ((1 + uh) - rho * (1 - eta) * (1 - uh)) * (1 + gamma) + (1 + uh) * gamma <= rho * (1 - eta) * e.

Lemma core_sound (p : {poly C}) z ph dh S E r rho e gamma eta :
  p != 0 -> 0 <= gamma -> 0 <= rho -> 0 <= eta -> eta < 1 ->
  `|ph - p.[z]| <= gamma * S -> `|p.[z]| <= S -> e * S <= E ->
  dh != 0 -> `|dh - p^`().[z]| <= eta * `|dh| ->
  rho * ((size p).-1%:R * ((1 - uh) * `|ph| + E) / ((1 + uh) * `|dh|)) <= r ->
  COND rho e gamma eta ->
  exists2 w, root p w & `|z - w| <= r.
Proof.
move=> pn0 g0 rho0 eta0 eta1 Hp HS HE dn0 Hd Hr [C0 C1].
apply: (@newton_deriv_error_sound _ p z r ph dh (gamma * S) eta) => //.
apply: le_trans Hr.
have d0 : 0 < `|dh| by rewrite normr_gt0.
have e1 : 0 < 1 - eta by rewrite subr_gt0.
have h1 : 0 < 1 + uh by rewrite (lt_le_trans ltr01) // ler_addl.
have S0 : 0 <= S by apply: le_trans HS.
set P := `|ph|; set n := (size p).-1%:R.
have n0 : 0 <= n by rewrite ler0n.
rewrite ler_pdivr_mulr ?mulr_gt0 //.
have -> : rho * (n * ((1 - uh) * P + E) / ((1 + uh) * `|dh|)) * (`|dh| * (1 - eta))
        = n * (rho * (1 - eta) * ((1 - uh) * P + E) / (1 + uh)).
  by field; rewrite (gt_eqF d0) (gt_eqF h1).
rewrite ler_wpmul2l // ler_pdivl_mulr //.
have re0 : 0 <= rho * (1 - eta) by rewrite mulr_ge0 // ltW.
apply: (@le_trans _ _ (rho * (1 - eta) * ((1 - uh) * P + e * S))); last first.
  by rewrite ler_wpmul2l // ler_add2l.
have P0 : 0 <= P by rewrite normr_ge0.
have PS : P <= (1 + gamma) * S.
  rewrite /P -[ph](subrK p.[z]); apply: le_trans (ler_norm_add _ _) _.
  by rewrite mulrDl mul1r addrC ler_add.
have rr : rho * (1 - eta) * (1 - uh) \is Num.real.
  by rewrite ger0_real // mulr_ge0 // omuh0.
have hr : 1 + uh \is Num.real by rewrite ger0_real // ltW.
have -> : (P + gamma * S) * (1 + uh) = (1 + uh) * P + (1 + uh) * gamma * S by ring.
have -> : rho * (1 - eta) * ((1 - uh) * P + e * S) = rho * (1 - eta) * (1 - uh) * P + rho * (1 - eta) * e * S by ring.
case: (real_leP hr rr) => Hk.
  by rewrite ler_add ?ler_wpmul2r.
set k := (1 + uh) - rho * (1 - eta) * (1 - uh) in C1.
have k0 : 0 <= k by rewrite subr_ge0 ltW.
rewrite -ler_subl_addl.
have -> : (1 + uh) * P + (1 + uh) * gamma * S - rho * (1 - eta) * (1 - uh) * P = k * P + (1 + uh) * gamma * S by rewrite /k; ring.
apply: (@le_trans _ _ ((k * (1 + gamma) + (1 + uh) * gamma) * S)); last by rewrite ler_wpmul2r.
by rewrite [X in _ <= X]mulrDl ler_add2r -mulrA ler_wpmul2l.
Qed.

(* the real-arithmetic chains *)
Lemma chain_f absp E k m : 0 <= absp -> 0 <= E -> 0 <= k -> 0 < m ->
  (1 - ur) ^+ 3 * (k * (absp + E) / m) <= rdiv A (rmuld A (radd A absp E) k) m.
Proof.
move=> a0 E0 k0 m0.
have H1 := sr_radd SR a0 E0.
have x0 : 0 <= radd A absp E by apply: near_ge0 H1 => //; rewrite addr_ge0.
have H2 := sr_rmuld SR x0 k0.
have y0 : 0 <= rmuld A (radd A absp E) k by apply: near_ge0 H2 => //; rewrite mulr_ge0.
have H3 := sr_rdiv SR y0 m0.
apply: le_trans (near_ge H3).
have -> : (1 - ur) ^+ 3 * (k * (absp + E) / m) = (1 - ur) * ((1 - ur) * ((1 - ur) * (absp + E) * k) / m) by ring.
rewrite ler_wpmul2l ?omur0 // ler_wpmul2r ?invr_ge0 ?(ltW m0) //.
apply: le_trans (near_ge H2); rewrite ler_wpmul2l ?omur0 // ler_wpmul2r //.
exact: (near_ge H1).
Qed.

Lemma chain_d absp E k m : 0 <= absp -> 0 <= E -> 0 <= k -> 0 < m ->
  (1 - ur) ^+ 3 * (k * (absp + E) / m) <= rmuld A (rdiv A (radd A absp E) m) k.
Proof.
move=> a0 E0 k0 m0.
have H1 := sr_radd SR a0 E0.
have x0 : 0 <= radd A absp E by apply: near_ge0 H1 => //; rewrite addr_ge0.
have H2 := sr_rdiv SR x0 m0.
have y0 : 0 <= rdiv A (radd A absp E) m by apply: near_ge0 H2 => //; rewrite mulr_ge0 ?invr_ge0 ?(ltW m0).
have H3 := sr_rmuld SR y0 k0.
apply: le_trans (near_ge H3).
have -> : (1 - ur) ^+ 3 * (k * (absp + E) / m) = (1 - ur) * ((1 - ur) * ((1 - ur) * (absp + E) / m) * k) by ring.
rewrite ler_wpmul2l ?omur0 // ler_wpmul2r //.
apply: le_trans (near_ge H2); rewrite ler_wpmul2l ?omur0 // ler_wpmul2r ?invr_ge0 ?(ltW m0) //.
exact: (near_ge H1).
Qed.

Lemma radd_keeps x t : 0 <= x -> 0 <= t -> (1 - ur) * x <= radd A x t.
Proof.
move=> x0 t0; apply: le_trans (near_ge (sr_radd SR x0 t0)).
by rewrite ler_wpmul2l ?omur0 // ler_addl.
Qed.



Lemma cmod_pos a : a != 0 -> 0 < cmod A a.
Proof.
move=> a0; apply: lt_le_trans (near_ge (sr_cmod SR a)).
by rewrite mulr_gt0 ?normr_gt0 // subr_gt0 (sr_uh1 SR).
Qed.
Lemma cmod_ge0 a : 0 <= cmod A a.
Proof. by apply: near_ge0 (sr_cmod SR a). Qed.

(* n (absp + E) / |p1|^  with the computed moduli is at least the expression with the exact moduli *)
Lemma frac_lower k E ph dh : 0 <= k -> 0 <= E -> dh != 0 ->
  k * ((1 - uh) * `|ph| + E) / ((1 + uh) * `|dh|) <= k * (cmod A ph + E) / cmod A dh.
Proof.
move=> k0 E0 dn0.
have d0 : 0 < `|dh| by rewrite normr_gt0.
have h1 : 0 < 1 + uh by rewrite (lt_le_trans ltr01) // ler_addl.
have m0 := cmod_pos dn0.
rewrite -!mulrA ler_wpmul2l //.
apply: ler_pmul; rewrite ?invr_ge0 ?addr_ge0 ?mulr_ge0 ?omuh0 ?(ltW h1) //.
  by rewrite ler_add2r (near_ge (sr_cmod SR ph)).
by rewrite lef_pinv ?posrE ?mulr_gt0 // (near_le (sr_cmod SR dh)).
Qed.

Lemma size_Poly_last (cs : seq C) n : size cs = n.+1 -> last 0 cs != 0 -> size (Poly cs) = n.+1.
Proof.
move=> sz Hl; rewrite -sz; congr size; apply: (@PolyK _ 0) => //.
Qed.

Definition ph_of z cs := (horner2 A z (List.rev cs)).1.
Definition dh_of z cs := (horner2 A z (List.rev cs)).2.

Lemma fnewton_le1_eq n cs ms z az :
  fnewton_le1 A n cs ms z az =
  let ph := ph_of z cs in let dh := dh_of z cs in
  let ap := apsum A az (List.rev ms) in let absp := cmod A ph in
  Nout ph dh ap absp (rgt A absp (rmuld A ap (feps A n))) (cdiv A ph dh)
    (radd A (rdiv A (rmuld A (radd A absp (rmuld A ap (feps A n))) (dnat A n)) (cmod A dh)) (rmin A)).
Proof. by rewrite /fnewton_le1 /ph_of /dh_of; case: (horner2 _ _ _). Qed.

(* lower bounds of E / S *)
Definition e_f (n : nat) : C := (1 - ur) ^+ 2 * ((4 * n)%:R * epsv) * kap n.     (* mps_fnewton *)
Definition e_d (n : nat) : C := (1 - ur) ^+ 3 * ((4 * n)%:R * epsv) * kap n.     (* mps_dnewton *)
Definition rho4 : C := (1 - ur) ^+ 4.

Lemma kap_ge0 n : 0 <= kap n. Proof. by rewrite /kap mulr_ge0 ?omuh0 ?exprn_ge0 ?theta0. Qed.

(* E = ap * eps (as rounded) is at least e * S whenever eps >= (1-ur)^j 4 n epsv *)
Lemma Eterm_lower n cs ms z az eps j : size cs = n.+1 -> ms_ok cs ms -> (1 - uh) * `|z| <= az ->
  (1 - ur) ^+ j * ((4 * n)%:R * epsv) <= eps -> 0 <= eps ->
  (1 - ur) ^+ j.+1 * ((4 * n)%:R * epsv) * kap n * Sabs cs z <= rmuld A (apsum A az (List.rev ms)) eps
  /\ 0 <= rmuld A (apsum A az (List.rev ms)) eps /\ 0 <= apsum A az (List.rev ms).
Proof.
move=> sz Hms Haz Heps eps0.
have Hap := apsum_lower sz Hms Haz.
have S0 := Sabs_ge0 cs z.
have ap0 : 0 <= apsum A az (List.rev ms) by apply: le_trans Hap; rewrite mulr_ge0 ?kap_ge0.
have H := sr_rmuld SR ap0 eps0.
split; last by split=> //; apply: near_ge0 H => //; rewrite mulr_ge0.
apply: le_trans (near_ge H).
have -> : (1 - ur) ^+ j.+1 * ((4 * n)%:R * epsv) * kap n * Sabs cs z
        = (1 - ur) * ((kap n * Sabs cs z) * ((1 - ur) ^+ j * ((4 * n)%:R * epsv))) by rewrite exprS; ring.
by rewrite ler_wpmul2l ?omur0 // ler_pmul ?mulr_ge0 ?kap_ge0 ?exprn_ge0 ?omur0 ?ler0n ?(sr_eps SR) ?omuh0 ?theta0.
Qed.

(* ------------------------------------------------------------------ mps_fnewton, |z| <= 1 *)
Section Fnewton.
Variables (n : nat) (cs ms : seq C) (z az : C).
Hypothesis sz : size cs = n.+1.
Hypothesis Hms : ms_ok cs ms.
Hypothesis Haz : (1 - uh) * `|z| <= az.
Let o := fnewton_le1 A n cs ms z az.
Let p := Poly cs.

Theorem fnewton_le1_value_error : `|o_p o - p.[z]| <= gam n * Sabs cs z.
Proof. by rewrite /o fnewton_le1_eq /=; have [] := horner2_value_error z sz. Qed.

Theorem fnewton_le1_ap_lower : kap n * Sabs cs z <= o_ap o.
Proof. by rewrite /o fnewton_le1_eq /=; apply: apsum_lower. Qed.

(* the error term the code adds, E = eps * ap, dominates the evaluation error *)
Theorem fnewton_le1_error_term : gam n <= e_f n ->
  `|o_p o - p.[z]| <= rmuld A (o_ap o) (feps A n).
Proof.
move=> Hc; apply: le_trans fnewton_le1_value_error _.
have [He e0] := feps_lower n.
have He1 : (1 - ur) ^+ 1 * ((4 * n)%:R * epsv) <= feps A n by rewrite expr1.
have [H _] := @Eterm_lower n cs ms z az (feps A n) 1 sz Hms Haz He1 e0.
rewrite /o fnewton_le1_eq /=; apply: le_trans H.
by rewrite ler_wpmul2r ?Sabs_ge0.
Qed.

Theorem fnewton_le1_sound eta : last 0 cs != 0 ->
  o_p1 o != 0 -> `|o_p1 o - p^`().[z]| <= eta * `|o_p1 o| -> 0 <= eta -> eta < 1 ->
  COND rho4 (e_f n) (gam n) eta ->
  exists2 w, root p w & `|z - w| <= o_rad o.
Proof.
move=> Hl; rewrite /o fnewton_le1_eq /= => dn0 Hd eta0 eta1 HC.
have szp : size p = n.+1 by apply: size_Poly_last.
have pn0 : p != 0 by rewrite -size_poly_eq0 szp.
have [Hv HS] := horner2_value_error z sz.
have [He e0] := feps_lower n.
have He1 : (1 - ur) ^+ 1 * ((4 * n)%:R * epsv) <= feps A n by rewrite expr1.
have [HE [E0 ap0]] := @Eterm_lower n cs ms z az (feps A n) 1 sz Hms Haz He1 e0.
apply: (@core_sound p z (ph_of z cs) (dh_of z cs) (Sabs cs z) (rmuld A (apsum A az (List.rev ms)) (feps A n)) _ rho4 (e_f n) (gam n) eta) => //.
- exact: gam_ge0.
- by rewrite exprn_ge0 ?omur0.
rewrite szp /=.
set E := rmuld A _ _ in E0 *.
have m0 := cmod_pos dn0.
have a0 := cmod_ge0 (ph_of z cs).
have H3 := @chain_f _ E n%:R _ a0 E0 (ler0n _ _) m0.
rewrite (sr_dnat SR).
set X := rdiv A _ _ in H3 *.
have X0 : 0 <= X by apply: le_trans H3; rewrite !mulr_ge0 ?exprn_ge0 ?omur0 ?invr_ge0 ?(ltW m0) ?ler0n ?addr_ge0.
apply: le_trans (radd_keeps X0 (sr_rmin SR)).
rewrite /rho4 exprS -(mulrA (1 - ur)) ler_wpmul2l ?omur0 //.
apply: le_trans H3; rewrite ler_wpmul2l ?exprn_ge0 ?omur0 //.
by apply: frac_lower => //; rewrite ler0n.
Qed.

End Fnewton.

(* the top-level function in its first branch *)
Theorem fnewton_sound n cs ms z eta : size cs = n.+1 -> ms_ok cs ms -> last 0 cs != 0 ->
  rle1 A (cmod A z) = true ->
  let o := fnewton A n cs ms z in
  o_p1 o != 0 -> `|o_p1 o - (Poly cs)^`().[z]| <= eta * `|o_p1 o| -> 0 <= eta -> eta < 1 ->
  COND rho4 (e_f n) (gam n) eta ->
  exists2 w, root (Poly cs) w & `|z - w| <= o_rad o.
Proof.
move=> sz Hms Hl Hb; rewrite /fnewton Hb.
by apply: fnewton_le1_sound => //; apply: (near_ge (sr_cmod SR z)).
Qed.

End WithArith.


Section DProofs.
Variable A : arith C C C.
Variables um ua uh ur epsv : C.
Hypothesis SR : std_round A um ua uh ur epsv.

(* ------------------------------------------------------------------ mps_dnewton *)
Lemma dnewton_eq n (cs ms : seq C) z r0 :
  dnewton A n cs ms z r0 =
  let ph := ph_of A z cs in let dh := dh_of A z cs in
  if ~~ ceq0 A ph && ceq0 A dh then Nout ph dh r0 r0 false (czero A) r0
  else
    let corr := if ceq0 A ph then czero A else cdiv A ph dh in
    let az := cmod A z in
    let ap := apsum A az (List.rev ms) in
    let absp := cmod A ph in
    let apeps := rmuld A ap (deps4n A n) in
    let again := rgt A absp apeps in
    let rnew := rdiv A (radd A absp apeps) (cmod A dh) in
    let rad := if again then rmuld A rnew (dnat A n)
               else let rnew' := rmuld A rnew (dnat A (n + 1)) in if rlt A rnew' r0 then rnew' else r0 in
    Nout ph dh ap absp again corr (radd_eq A rad (rmuld A az (dmul A (dnat A 4) (deps A)))).
Proof. by rewrite /dnewton /ph_of /dh_of; case: (horner2 _ _ _). Qed.

(* NULL DERIVATIVE branch: nothing is claimed beyond what was there *)
Theorem dnewton_null_derivative n (cs ms : seq C) z r0 :
  let o := dnewton A n cs ms z r0 in
  o_p o != 0 -> o_p1 o = 0 -> o_rad o = r0 /\ o_again o = false.
Proof.
rewrite dnewton_eq /= !(sr_ceq0 SR).
case: ifP => [_ //|]; rewrite /= => H pn0 d0; move: H.
by rewrite pn0 d0 eqxx.
Qed.

(* the radius as coded: n or n+1 times (absp + apeps)/|p1^|, or the entry radius when that is smaller, plus 4 eps |z| *)
Theorem dnewton_sound n (cs ms : seq C) z r0 eta :
  size cs = n.+1 -> ms_ok uh cs ms -> last 0 cs != 0 ->
  (forall a b, 0 <= a -> 0 <= b -> a <= radd_eq A a b) ->
  0 <= r0 -> (exists2 w, root (Poly cs) w & `|z - w| <= r0) ->
  let o := dnewton A n cs ms z r0 in
  o_p1 o != 0 -> `|o_p1 o - (Poly cs)^`().[z]| <= eta * `|o_p1 o| -> 0 <= eta -> eta < 1 ->
  COND uh (rho4 ur) (e_d uh ur epsv n) (gam um ua n) eta ->
  exists2 w, root (Poly cs) w & `|z - w| <= o_rad o.
Proof.
move=> sz Hms Hl Hmono r00 Hr0; rewrite dnewton_eq /= !(sr_ceq0 SR).
case: ifP => [/andP [_ /eqP ->] /=|_ /=]; first by rewrite eqxx.
move=> dn0 Hd eta0 eta1 HC.
set p := Poly cs.
have szp : size p = n.+1 by apply: size_Poly_last.
have pn0 : p != 0 by rewrite -size_poly_eq0 szp.
have [Hv HS] := horner2_value_error SR z sz.
have [He e0] := deps4n_lower SR n.
have Haz := near_ge (sr_cmod SR z).
have [HE [E0 ap0]] := @Eterm_lower A um ua uh ur epsv SR n cs ms z (cmod A z) (deps4n A n) 2 sz Hms Haz He e0.
set E := rmuld A _ (deps4n A n) in HE E0 *.
have m0 := cmod_pos SR dn0.
have a0 := cmod_ge0 SR (ph_of A z cs).
have az0 := cmod_ge0 SR z.
have t0 : 0 <= rmuld A (cmod A z) (dmul A (dnat A 4) (deps A)).
  have d0 : 0 <= dmul A (dnat A 4) (deps A).
    rewrite (sr_dnat SR) (sr_deps SR).
    have H4 := sr_dmul SR (ler0n _ 4) (sr_eps SR).
    apply: near_ge0 H4; first exact: (ltW (sr_ur1 SR)).
    by rewrite mulr_ge0 ?ler0n ?(sr_eps SR).
  have H5 := sr_rmuld SR az0 d0.
  apply: near_ge0 H5; first exact: (ltW (sr_ur1 SR)).
  by rewrite mulr_ge0.
have ur1' : 0 <= 1 - ur by rewrite subr_ge0 (ltW (sr_ur1 SR)).
(* the generic part: any rad' >= (1-ur)^3 n (absp+E)/m *)
have core rad' : (1 - ur) ^+ 3 * (n%:R * (cmod A (ph_of A z cs) + E) / cmod A (dh_of A z cs)) <= rad' ->
    exists2 w, root p w & `|z - w| <= radd_eq A rad' (rmuld A (cmod A z) (dmul A (dnat A 4) (deps A))).
  move=> Hrad.
  have r0' : 0 <= rad'.
    apply: le_trans Hrad; rewrite mulr_ge0 ?exprn_ge0 // mulr_ge0 ?invr_ge0 ?(ltW m0) // mulr_ge0 ?ler0n // addr_ge0 //.
  apply: (@core_sound A um ua uh ur epsv SR p z (ph_of A z cs) (dh_of A z cs) (Sabs cs z) E _ (rho4 ur) (e_d uh ur epsv n) (gam um ua n) eta) => //.
  - exact: (gam_ge0 SR).
  - by rewrite exprn_ge0.
  rewrite szp /=.
  apply: le_trans (near_ge (sr_radd_eq SR r0' t0)).
  rewrite /rho4 exprS -(mulrA (1 - ur)) ler_wpmul2l //.
  apply: (@le_trans _ _ rad'); last by rewrite ler_addl.
  apply: le_trans Hrad; rewrite ler_wpmul2l ?exprn_ge0 //.
  by apply: (frac_lower SR) => //; rewrite ler0n.
rewrite (sr_rlt SR).
case: ifP => _.
  apply: core; rewrite (sr_dnat SR); apply: (chain_d SR) => //; exact: ler0n.
case: ifP => _; last first.
  have [w rw Hw] := Hr0; exists w => //; apply: le_trans Hw _; exact: Hmono.
apply: core; rewrite (sr_dnat SR).
apply: le_trans (chain_d SR a0 E0 (ler0n _ (n + 1)) m0).
rewrite ler_wpmul2l ?exprn_ge0 // -!mulrA ler_wpmul2r ?mulr_ge0 ?invr_ge0 ?(ltW m0) ?addr_ge0 //.
by rewrite ler_nat leq_addr.
Qed.
End DProofs.


Section MProofs.
Variable A : arith C C C.
Variables um ua uh ur epsv : C.
Hypothesis SR : std_round A um ua uh ur epsv.

(* ------------------------------------------------------------------ mps_mnewton, dense polynomial *)
(* E / S >= e_m: apeps = ap * ep, ep = ep0 * n (ep0 = 2^(2-wp) in the library) *)
Definition e_m (n : nat) (ep0 : C) : C := (1 - ur) ^+ 2 * (n%:R * ep0) * kap uh ur n.
(* what the radius arithmetic keeps, the final factor 1 + 16 DBL_EPSILON included *)
Definition rho_m : C := (1 - ur) ^+ 6 * (1 + (1 - ur) * (16%:R * epsv)).

Lemma mnewton_dense_main n (cs ms : seq C) z ep0 r0 :
  let ph := ph_of A z cs in let dh := dh_of A z cs in
  ph != 0 -> dh != 0 ->
  mnewton_dense A n cs ms z ep0 r0 =
    let ep := rmuld A ep0 (dnat A n) in
    let ap := apsum A (cmod A z) (List.rev ms) in
    let absp := cmod A ph in let temp := cmod A dh in
    let apeps := rmul A ap ep in
    let again := rgt A absp apeps in
    let rnew := rdiv A (radd A absp apeps) temp in
    let rad := if again then rmuld A rnew (dnat A n) else rmuld A rnew (dnat A (n + 1)) in
    let rad := radd_eq A rad (rmul A (cmod A z) ep) in
    let rad := rmuld A rad (dadd A (dnat A 1) (dmul A (dnat A 16) (deps A))) in
    Nout ph dh ap absp again (cdiv A ph dh) rad.
Proof.
rewrite /mnewton_dense /ph_of /dh_of; case: (horner2 _ _ _) => p p1 /= pn0 dn0.
by rewrite /mnewton_tail !(sr_ceq0 SR) (negbTE pn0) (negbTE dn0) /=.
Qed.

Theorem mnewton_dense_sound n (cs ms : seq C) z ep0 r0 eta :
  size cs = n.+1 -> ms_ok uh cs ms -> last 0 cs != 0 -> 0 <= ep0 ->
  let o := mnewton_dense A n cs ms z ep0 r0 in
  ph_of A z cs != 0 -> dh_of A z cs != 0 ->
  `|dh_of A z cs - (Poly cs)^`().[z]| <= eta * `|dh_of A z cs| -> 0 <= eta -> eta < 1 ->
  COND uh rho_m (e_m n ep0) (gam um ua n) eta ->
  exists2 w, root (Poly cs) w & `|z - w| <= o_rad o.
Proof.
move=> sz Hms Hl ep00 /= pn0' dn0 Hd eta0 eta1 HC.
rewrite (mnewton_dense_main _ _ _ _ pn0' dn0) /=.
set p := Poly cs.
have szp : size p = n.+1 by apply: size_Poly_last.
have pn0 : p != 0 by rewrite -size_poly_eq0 szp.
have [Hv HS] := horner2_value_error SR z sz.
have ur1' : 0 <= 1 - ur by rewrite subr_ge0 (ltW (sr_ur1 SR)).
have Hep := sr_rmuld SR ep00 (ler0n _ n).
have ep0' : 0 <= rmuld A ep0 (dnat A n).
  by rewrite (sr_dnat SR); apply: near_ge0 Hep; rewrite ?(ltW (sr_ur1 SR)) // mulr_ge0 ?ler0n.
have Haz := near_ge (sr_cmod SR z).
have Hap := apsum_lower SR sz Hms Haz.
have S0 := Sabs_ge0 cs z.
have ap0 : 0 <= apsum A (cmod A z) (List.rev ms) by apply: le_trans Hap; rewrite mulr_ge0 ?(kap_ge0 SR).
have HE0 := sr_rmul SR ap0 ep0'.
set E := rmul A _ _ in HE0 *.
have E0 : 0 <= E by apply: near_ge0 HE0; rewrite ?(ltW (sr_ur1 SR)) // mulr_ge0.
have HE : e_m n ep0 * Sabs cs z <= E.
  apply: le_trans (near_ge HE0).
  have -> : e_m n ep0 * Sabs cs z = (1 - ur) * ((kap uh ur n * Sabs cs z) * ((1 - ur) * (ep0 * n%:R))) by rewrite /e_m; ring.
  rewrite ler_wpmul2l //; apply: ler_pmul => //.
  - by rewrite mulr_ge0 // (kap_ge0 SR).
  - by rewrite !mulr_ge0 ?ler0n.
  by rewrite (sr_dnat SR); exact: (near_ge Hep).
have m0 := cmod_pos SR dn0.
have a0 := cmod_ge0 SR (ph_of A z cs).
have az0 := cmod_ge0 SR z.
have t0 : 0 <= rmul A (cmod A z) (rmuld A ep0 (dnat A n)).
  by apply: near_ge0 (sr_rmul SR az0 ep0'); rewrite ?(ltW (sr_ur1 SR)) // mulr_ge0.
(* the constant 1 + 16 eps as computed *)
set c16 := dadd A _ _.
have Hc16 : (1 - ur) * (1 + (1 - ur) * (16%:R * epsv)) <= c16 /\ 0 <= c16.
  have H1 := sr_dmul SR (ler0n _ 16) (sr_eps SR).
  have x0 : 0 <= dmul A 16%:R epsv by apply: near_ge0 H1; rewrite ?(ltW (sr_ur1 SR)) // mulr_ge0 ?ler0n ?(sr_eps SR).
  have H2 := sr_dadd SR (ler0n _ 1) x0.
  rewrite /c16 !(sr_dnat SR) (sr_deps SR); split; last first.
    by apply: near_ge0 H2; rewrite ?(ltW (sr_ur1 SR)) // addr_ge0 ?ler0n.
  by apply: le_trans (near_ge H2); rewrite ler_wpmul2l // ler_add2l (near_ge H1).
case: Hc16 => Hc16 c160.
have core rad1 : (1 - ur) ^+ 3 * (n%:R * (cmod A (ph_of A z cs) + E) / cmod A (dh_of A z cs)) <= rad1 ->
    exists2 w, root p w & `|z - w| <= rmuld A (radd_eq A rad1 (rmul A (cmod A z) (rmuld A ep0 (dnat A n)))) c16.
  move=> Hrad.
  have r1 : 0 <= rad1.
    apply: le_trans Hrad; rewrite mulr_ge0 ?exprn_ge0 // mulr_ge0 ?invr_ge0 ?(ltW m0) // mulr_ge0 ?ler0n // addr_ge0 //.
  have H2 := sr_radd_eq SR r1 t0.
  have r2 : 0 <= radd_eq A rad1 (rmul A (cmod A z) (rmuld A ep0 (dnat A n))).
    by apply: near_ge0 H2; rewrite ?(ltW (sr_ur1 SR)) // addr_ge0.
  have H3 := sr_rmuld SR r2 c160.
  have k0 : 0 <= 1 + (1 - ur) * (16%:R * epsv) by rewrite addr_ge0 ?ler01 // !mulr_ge0 ?ler0n ?(sr_eps SR).
  apply: (@core_sound A um ua uh ur epsv SR p z (ph_of A z cs) (dh_of A z cs) (Sabs cs z) E _ rho_m (e_m n ep0) (gam um ua n) eta) => //.
  - exact: (gam_ge0 SR).
  - by rewrite /rho_m mulr_ge0 ?exprn_ge0.
  rewrite szp /=.
  apply: le_trans (near_ge H3).
  have -> : rho_m * (n%:R * ((1 - uh) * `|ph_of A z cs| + E) / ((1 + uh) * `|dh_of A z cs|))
          = (1 - ur) * (((1 - ur) * ((1 - ur) ^+ 3 * (n%:R * ((1 - uh) * `|ph_of A z cs| + E) / ((1 + uh) * `|dh_of A z cs|)))) * ((1 - ur) * (1 + (1 - ur) * (16%:R * epsv)))).
    by rewrite /rho_m; ring.
  rewrite ler_wpmul2l //.
  have omuh : 0 <= 1 - uh by rewrite subr_ge0 (ltW (sr_uh1 SR)).
  have opuh : 0 <= 1 + uh by rewrite (le_trans ler01) // ler_addl (sr_uh SR).
  have F0 : 0 <= n%:R * ((1 - uh) * `|ph_of A z cs| + E) / ((1 + uh) * `|dh_of A z cs|).
    by rewrite mulr_ge0 ?invr_ge0 // mulr_ge0 ?ler0n // addr_ge0 // mulr_ge0.
  have X0 : 0 <= (1 - ur) * ((1 - ur) ^+ 3 * (n%:R * ((1 - uh) * `|ph_of A z cs| + E) / ((1 + uh) * `|dh_of A z cs|))).
    by rewrite mulr_ge0 // mulr_ge0 ?exprn_ge0.
  have Y0 : 0 <= (1 - ur) * (1 + (1 - ur) * (16%:R * epsv)) by rewrite mulr_ge0.
  apply: (ler_pmul X0 Y0) => //.
  apply: le_trans (near_ge H2); rewrite ler_wpmul2l //.
  apply: (@le_trans _ _ rad1); last by rewrite ler_addl.
  apply: le_trans Hrad; rewrite ler_wpmul2l ?exprn_ge0 //.
  by apply: (frac_lower SR) => //; rewrite ler0n.
case: ifP => _.
  by apply: core; rewrite (sr_dnat SR); apply: (chain_d SR) => //; exact: ler0n.
apply: core; rewrite (sr_dnat SR).
apply: le_trans (chain_d SR a0 E0 (ler0n _ (n + 1)) m0).
rewrite ler_wpmul2l ?exprn_ge0 // -!mulrA ler_wpmul2r ?mulr_ge0 ?invr_ge0 ?(ltW m0) ?addr_ge0 //.
by rewrite ler_nat leq_addr.
Qed.
End MProofs.

(* ------------------------------------------------------------------ the exact arithmetic is an instance *)
Definition exactA (epsv : C) : arith C C C :=
  {| cmul := *%R; cadd := +%R; csub := fun a b => a - b; cmuld := *%R; cinv := GRing.inv; cinv_eq := GRing.inv;
     czero := 0; cone := 1; ceq0 := fun a => a == 0; cmod := Num.norm;
     radd := +%R; radd_eq := +%R; rmul := *%R; rdiv := fun a b => a / b; rmuld := *%R;
     rgt := fun a b => b < a; rlt := fun a b => a < b; req0 := fun a => a == 0; rle1 := fun a => a <= 1;
     rinv1 := GRing.inv; rmin := 0; rnat := fun n => n%:R; dnat := fun n => n%:R; dmul := *%R; dadd := +%R;
     deps := epsv |}.

Lemma near0 x : near 0 x x.
Proof. by rewrite /near subr0 addr0 mul1r. Qed.

Lemma exact_std_round epsv : 0 <= epsv -> std_round (exactA epsv) 0 0 0 0 epsv.
Proof.
move=> e0; split=> //=; rewrite ?ltr01 //; try (by move=> *; exact: near0).
- by move=> a b; rewrite subrr normr0 mul0r.
- by move=> a b; rewrite subrr normr0 mul0r.
Qed.

(* with exact operations and an exact derivative COND holds for every degree *)
Lemma exact_COND epsv n : 0 <= epsv -> COND 0 (rho4 0) (e_f 0 0 epsv n) (gam 0 0 n) 0.
Proof.
move=> e0; rewrite /COND /rho4 /e_f /gam /g1 /kap /theta !subr0 !addr0 ?expr1n ?mul1r ?mulr1 ?expr1n ?subrr ?mulr0 ?mul0r ?addr0.
by split; rewrite !mulr_ge0 ?ler0n ?ler01.
Qed.

End Proofs.
