(* Gerschgorin-type inclusion for n distinct approximations z_0..z_{n-1} of the roots of a
   polynomial p of degree n:  every root of p lies in some disc
       D(z_i, n |p(z_i)| / (|lc p| prod_{j<>i} |z_i - z_j|)).
   Proof: Lagrange interpolation of p - lc p * prod (X - z_j) (degree < n) at the z_i, evaluated at a root.
   MathComp style; any numClosedFieldType (only field + norm are used). *)
From mathcomp Require Import all_ssreflect all_algebra.
From mathcomp Require Import ring.
Set Implicit Arguments. Unset Strict Implicit. Unset Printing Implicit Defensive.
Import Order.TTheory GRing.Theory Num.Theory.
Local Open Scope ring_scope.

Section SumBound.
Variable C : numClosedFieldType.
Lemma sum_lt_all (I : Type) (r : seq I) (t : I -> C) (b : C) :
  all (fun i => t i < b) r -> (0 < size r)%N -> \sum_(i <- r) t i < (size r)%:R * b.
Proof.
elim: r => [//|i r IH] /= /andP [Hi Hr] _.
rewrite big_cons /= -addn1 natrD mulrDl mul1r addrC.
case: r IH Hr => [|j r] IH Hr; first by rewrite big_nil add0r /= mul0r add0r.
by rewrite ltr_add // IH.
Qed.
Lemma sum_lt_const (I : Type) (r : seq I) (t : I -> C) (b : C) :
  (forall i, t i < b) -> (0 < size r)%N -> \sum_(i <- r) t i < (size r)%:R * b.
Proof. by move=> H; apply: sum_lt_all; elim: r => //= i r ->; rewrite H. Qed.
End SumBound.

Section Lagrange.
Variable C : numClosedFieldType.
Variables (n : nat) (z : 'I_n -> C).
Hypothesis zinj : injective z.

Definition nodal : {poly C} := \prod_(j < n) ('X - (z j)%:P).
Definition lbasis (i : 'I_n) : {poly C} := \prod_(j < n | j != i) ('X - (z j)%:P).
Definition dprod (i : 'I_n) : C := \prod_(j < n | j != i) (z i - z j).

Lemma dprod_neq0 i : dprod i != 0.
Proof.
apply/prodf_neq0 => j ji; rewrite subr_eq0.
by apply: contraNneq ji => /zinj ->.
Qed.

Lemma lbasis_at i k : (lbasis i).[z k] = if k == i then dprod i else 0.
Proof.
rewrite /lbasis horner_prod; case: eqP => [->|/eqP ki].
  by apply: eq_bigr => j _; rewrite hornerXsubC.
by rewrite (bigD1 k) //= hornerXsubC subrr mul0r.
Qed.

Lemma nodal_split i x : nodal.[x] = (x - z i) * (lbasis i).[x].
Proof. by rewrite /nodal (bigD1 i) //= hornerM hornerXsubC. Qed.

Lemma nodal_at k : nodal.[z k] = 0.
Proof. by rewrite (nodal_split k) subrr mul0r. Qed.

Lemma nodal_monic : nodal \is monic.
Proof. by apply: monic_prod => j _; apply: monicXsubC. Qed.

Lemma size_nodal : size nodal = n.+1.
Proof.
rewrite /nodal size_prod; last by move=> j _; rewrite polyXsubC_eq0.
rewrite (eq_bigr (fun=> 2%N)); last by move=> j _; rewrite size_XsubC.
by rewrite sum_nat_const card_ord muln2 -addnn -addSn addnK.
Qed.

Lemma size_lbasis i : (size (lbasis i) <= n)%N.
Proof.
rewrite /lbasis size_prod; last by move=> j _; rewrite polyXsubC_eq0.
rewrite (eq_bigr (fun=> 2%N)); last by move=> j _; rewrite size_XsubC.
rewrite sum_nat_const muln2 -addnn -addSn addnK.
have -> : #|[pred j : 'I_n | j != i]| = n.-1 by rewrite (cardC1 i) card_ord.
by rewrite prednK // (leq_ltn_trans _ (ltn_ord i)).
Qed.

(* Lagrange form of a polynomial of degree n with leading coefficient a *)
Lemma lagrange_form (p : {poly C}) : size p = n.+1 ->
  p = lead_coef p *: nodal + \sum_(i < n) (p.[z i] / dprod i) *: lbasis i.
Proof.
move=> szp; apply/eqP; rewrite -subr_eq0 -[_ - _]/(p - (_ + _)) opprD addrA.
set R := p - _ - _.
apply/eqP; apply: contraTeq isT => Rn0.
have szR : (size R <= n)%N.
  rewrite /R (leq_trans (size_add _ _)) // geq_max size_opp; apply/andP; split; last first.
    rewrite (leq_trans (size_sum _ _ _)) //; apply/bigmax_leqP => i _.
    by rewrite (leq_trans (size_scale_leq _ _)) // size_lbasis.
  apply/leq_sizeP => j; rewrite leq_eqVlt => /orP [/eqP <-|nj].
    rewrite coefB coefZ.
    have -> : p`_n = lead_coef p by rewrite lead_coefE szp.
    have -> : nodal`_n = 1 by have /monicP := nodal_monic; rewrite lead_coefE size_nodal.
    by rewrite mulr1 subrr.
  by rewrite coefB coefZ !nth_default ?mulr0 ?subrr // ?size_nodal ?szp.
have : (size [seq z k | k <- enum 'I_n] < size R)%N.
  apply: max_poly_roots => //; last by rewrite map_inj_uniq // enum_uniq.
  apply/allP => _ /mapP [k _ ->]; rewrite /root /R !hornerE nodal_at mulr0 subr0 horner_sum.
  rewrite (bigD1 k) //= big1 => [|i ik]; last by rewrite hornerZ lbasis_at eq_sym (negbTE ik) mulr0.
  by rewrite hornerZ lbasis_at eqxx addr0 divfK ?dprod_neq0 // subrr.
by rewrite size_map size_enum_ord ltnNge szR.
Qed.

Definition gersch_radius (p : {poly C}) (i : 'I_n) : C :=
  n%:R * (`|p.[z i]| / (`|lead_coef p| * `|dprod i|)).

Theorem gersch_union (p : {poly C}) (x : C) : size p = n.+1 -> root p x ->
  exists i : 'I_n, `|x - z i| <= gersch_radius p i.
Proof.
move=> szp rx.
have lcn0 : lead_coef p != 0 by rewrite lead_coef_eq0 -size_poly_eq0 szp.
have rad_ge0 i : 0 <= gersch_radius p i.
  by rewrite /gersch_radius mulr_ge0 ?ler0n // divr_ge0 // mulr_ge0.
case: (boolP [exists i, x == z i]) => [/existsP [i /eqP ->]|].
  by exists i; rewrite subrr normr0.
rewrite negb_exists => /forallP xz.
have dn0 i : x - z i != 0 by rewrite subr_eq0 xz.
have Wn0 : nodal.[x] != 0.
  by rewrite /nodal horner_prod; apply/prodf_neq0 => j _; rewrite hornerXsubC.
pose c i := p.[z i] / (lead_coef p * dprod i).
have Hsum : \sum_(i < n) c i / (x - z i) = -1.
  have := lagrange_form szp => /(congr1 (fun q => q.[x])).
  rewrite (rootP rx) hornerD hornerZ horner_sum => /esym /eqP.
  rewrite addrC addr_eq0 => /eqP H.
  apply: (mulfI (mulf_neq0 lcn0 Wn0)); rewrite mulrN1 -H mulr_sumr.
  apply: eq_bigr => i _; rewrite hornerZ (nodal_split i) /c.
  have := dprod_neq0 i; move: (dn0 i) lcn0.
  move: (lead_coef p) (x - z i) (lbasis i).[x] (dprod i) (p.[z i]) => a d l e v d0 a0 e0.
  by field; rewrite a0 d0 e0.
case: (boolP [exists i, `|x - z i| <= gersch_radius p i]) => [/existsP [i Hi]|]; first by exists i.
rewrite negb_exists => /forallP Hall.
have n0 : (0 < n)%N.
  rewrite lt0n; apply/eqP => n_eq0; move/eqP: Hsum; rewrite big1.
    by rewrite eq_sym oppr_eq0 oner_eq0.
  by case=> m Hm _; exfalso; move: (Hm); rewrite n_eq0.
have nn0 : 0 < n%:R :> C by rewrite ltr0n.
have Ht i : `|c i / (x - z i)| < n%:R^-1.
  have ri : gersch_radius p i \is Num.real by apply: ger0_real.
  have := Hall i; rewrite -real_ltNge ?normr_real // => H.
  have -> : `|c i / (x - z i)| = (gersch_radius p i / n%:R) / `|x - z i|.
    by rewrite /gersch_radius /c normrM normfV normrM normfV normrM [n%:R * _]mulrC mulfK ?gt_eqF.
  by rewrite ltr_pdivr_mulr ?normr_gt0 // mulrC ltr_pmul2l ?invr_gt0.
have : `|\sum_(i < n) c i / (x - z i)| < 1.
  apply: le_lt_trans (ler_norm_sum _ _ _) _.
  have := @sum_lt_const C _ (index_enum (ordinal_finType n)) (fun i => `|c i / (x - z i)|) n%:R^-1 Ht.
  have -> : size (index_enum (ordinal_finType n)) = n by rewrite /index_enum unlock -enumT size_enum_ord.
  by rewrite mulfV ?gt_eqF // => /(_ n0).
by rewrite Hsum normrN1 ltxx.
Qed.

(* the coded radii: computed values ph i with |ph i - p(z_i)| <= E i, any r i at least the model expression *)
Theorem gersch_model_union (p : {poly C}) (ph E r : 'I_n -> C) (x : C) :
  size p = n.+1 -> root p x ->
  (forall i, `|ph i - p.[z i]| <= E i) ->
  (forall i, n%:R * ((`|ph i| + E i) / (`|lead_coef p| * `|dprod i|)) <= r i) ->
  exists i : 'I_n, `|x - z i| <= r i.
Proof.
move=> szp rx HE Hr; have [i Hi] := gersch_union szp rx; exists i.
apply: le_trans Hi (le_trans _ (Hr i)).
rewrite /gersch_radius ler_wpmul2l ?ler0n // ler_wpmul2r ?invr_ge0 ?mulr_ge0 //.
rewrite -[X in `|X| <= _](subrK (ph i)) -opprB addrC.
by apply: le_trans (ler_norm_add _ _) _; rewrite normrN ler_add2l.
Qed.

End Lagrange.
