(* C04 -- the Newton primitives of /repo/src/libmps/monomial/newton.c AS CODED, over an abstract arithmetic.
   Definitions only (no lemma lives here; plain Coq, no library beyond List, so that the same text is
   instantiated (a) with rounded operations on a numClosedFieldType satisfying the standard model of rounding
   (Radius/NewtonCodedProofs.v: the theorems) and (b) with Flocq binary64 / the DPE model of Dpe/DpeModel.v
   (Radius/NewtonExec.v: extracted, replayed against mps_polynomial_{f,d,m}newton on every run).

   Types: K complex numbers of the arithmetic (cplx_t / cdpe_t / mpc_t), R the reals the radius is computed in
   (double / rdpe_t), D the C doubles that scale them (double in all three variants).
   Coefficients are given LOW degree first: cs = [a_0; ...; a_n], ms = [fap[0]; ...; fap[n]] (the moduli table
   fap[] / dap[] the library keeps beside the coefficients).  n = poly->degree is passed separately as in C;
   the statements require length cs = n + 1 and 0 < n (mps_fnewton with n = 0 is never called and reads
   fpc[0] twice). *)
Require Import Bool List.
Import ListNotations.
Set Implicit Arguments.

Section Coded.
Variables K R D : Type.

Record arith : Type := Arith {
  (* complex operations: cplx_mul/cdpe_mul/mpc_mul, ..._add, ..._sub, x * (double) d, 1/x as cplx_inv (used by
     cplx_div) and as cplx_inv_eq (with its overflow guard), the constants 0 and 1, the tests == 0 *)
  cmul : K -> K -> K;  cadd : K -> K -> K;  csub : K -> K -> K;  cmuld : K -> D -> K;
  cinv : K -> K;  cinv_eq : K -> K;  czero : K;  cone : K;  ceq0 : K -> bool;
  (* modulus cplx_mod / cdpe_mod / cdpe_mod o mpc_get_cdpe *)
  cmod : K -> R;
  (* real operations of the radius arithmetic *)
  radd : R -> R -> R;  radd_eq : R -> R -> R;   (* rdpe_add / rdpe_add_eq: two functions in mt.c *)
  rmul : R -> R -> R;  rdiv : R -> R -> R;  rmuld : R -> D -> R;
  rgt : R -> R -> bool;  rlt : R -> R -> bool;  req0 : R -> bool;
  rle1 : R -> bool;            (* az <= 1 *)
  rinv1 : R -> R;              (* 1.0 / az *)
  rmin : R;                    (* DBL_MIN *)
  rnat : nat -> R;             (* (double) n where the C expression is a double one *)
  (* doubles *)
  dnat : nat -> D;             (* (double) of an int *)
  dmul : D -> D -> D;  dadd : D -> D -> D;
  deps : D                     (* DBL_EPSILON *)
}.

Variable A : arith.

(* cplx_div (rx, x1, x2): cplx_inv (ctmp, x2); cplx_mul (rx, x1, ctmp)   (cplx_div_eq: the same operations) *)
Definition cdiv (x y : K) : K := cmul A x (cinv A y).

(* The two interleaved Horner loops and the final step for p:
     p = a_n; p1 = p;
     for (i = n - 1; i > 0; i--) { p = p * z + a_i;  p1 = p1 * z + p; }
     p = p * z + a_0;
   l = the coefficients still to be consumed, highest first. *)
Fixpoint hloop (z : K) (p p1 : K) (l : list K) : K * K :=
  match l with
  | [] => (p, p1)
  | a :: l' =>
      match l' with
      | [] => (cadd A (cmul A p z) a, p1)
      | _ :: _ => let p' := cadd A (cmul A p z) a in hloop z p' (cadd A (cmul A p1 z) p') l'
      end
  end.

(* hi = [a_n; ...; a_0] *)
Definition horner2 (z : K) (hi : list K) : K * K :=
  match hi with
  | [] => (czero A, czero A)
  | an :: l => hloop z an an l
  end.

(* ap = m_n; for (i = n - 1; i >= 0; i--) ap = ap * az + m_i; *)
Fixpoint aploop (az : R) (ap : R) (l : list R) : R :=
  match l with
  | [] => ap
  | m :: l' => aploop az (radd A (rmul A ap az) m) l'
  end.
Definition apsum (az : R) (hi : list R) : R :=
  match hi with
  | [] => rmin A          (* never: length ms = n + 1 *)
  | mn :: l => aploop az mn l
  end.

(* what a call leaves behind: the values of p, p1, ap, absp (exported for the correspondence check),
   root->again, the correction, and the radius *)
Record nout : Type := Nout {
  o_p : K;  o_p1 : K;  o_ap : R;  o_absp : R;  o_again : bool;  o_corr : K;  o_rad : R
}.

(* ------------------------------------------------------------------ mps_fnewton *)
(* eps = 4 * n * DBL_EPSILON   (int product, then double product) *)
Definition feps (n : nat) : D := dmul A (dnat A (4 * n)) (deps A).

(* case |z| <= 1 *)
Definition fnewton_le1 (n : nat) (cs : list K) (ms : list R) (z : K) (az : R) : nout :=
  let eps := feps n in
  let '(p, p1) := horner2 z (rev cs) in
  let ap := apsum az (rev ms) in
  let absp := cmod A p in
  let again := rgt A absp (rmuld A ap eps) in                                      (* absp > ap * eps *)
  let rad := radd A (rdiv A (rmuld A (radd A absp (rmuld A ap eps)) (dnat A n)) (cmod A p1)) (rmin A) in
                                                       (* n * (absp + eps * ap) / cplx_mod (p1) + DBL_MIN *)
  Nout p p1 ap absp again (cdiv p p1) rad.

(* case |z| > 1: the reversed polynomial at zi = 1/z *)
Definition fnewton_gt1 (n : nat) (cs : list K) (ms : list R) (z : K) (az : R) : nout :=
  let eps := feps n in
  let zi := cinv_eq A z in
  let azi := rinv1 A az in
  let '(p, p1) := horner2 zi cs in
  let ap := apsum azi ms in
  let absp := cmod A p in
  let again := rgt A absp (rmuld A ap eps) in
  let den := cmul A (csub A (cmuld A p (dnat A n)) (cmul A p1 zi)) zi in
  if negb (req0 A (cmod A den)) then
    let ap' := rdiv A (rmuld A (radd A (rmuld A ap eps) absp) (dnat A n)) (cmod A den) in
    Nout p p1 ap absp again (cdiv p den) ap'
  else
    let ppsp := cdiv (cmul A p z) p1 in
    let den2 := csub A (cmuld A ppsp (dnat A n)) (cone A) in
    let corr := cmul A (cdiv ppsp den2) z in
    (* *radius = cplx_mod (ppsp) + (eps * ap * az) / cplx_mod (p1);  *= n / cplx_mod (den);  *= az *)
    let r1 := radd A (cmod A ppsp) (rdiv A (rmul A (rmuld A ap eps) az) (cmod A p1)) in
    let r2 := rmul A r1 (rdiv A (rnat A n) (cmod A den2)) in
    Nout p p1 ap absp again corr (rmul A r2 az).

Definition fnewton (n : nat) (cs : list K) (ms : list R) (z : K) : nout :=
  let az := cmod A z in
  if rle1 A az then fnewton_le1 n cs ms z az else fnewton_gt1 n cs ms z az.

(* ------------------------------------------------------------------ mps_dnewton *)
(* eps = DBL_EPSILON * n * 4 *)
Definition deps4n (n : nat) : D := dmul A (dmul A (deps A) (dnat A n)) (dnat A 4).

(* r0 = root->drad at entry (kept, and lowered only, when the test `again' fails) *)
Definition dnewton (n : nat) (cs : list K) (ms : list R) (z : K) (r0 : R) : nout :=
  let eps := deps4n n in
  let '(p, p1) := horner2 z (rev cs) in
  if negb (ceq0 A p) && ceq0 A p1 then
    (* NULL DERIVATIVE: corr = 0, again = false, return (radius untouched; ap and absp not computed) *)
    Nout p p1 r0 r0 false (czero A) r0
  else
    let corr := if ceq0 A p then czero A else cdiv p p1 in
    let az := cmod A z in
    let ap := apsum az (rev ms) in
    let absp := cmod A p in
    let apeps := rmuld A ap eps in
    let again := rgt A absp apeps in
    let rnew := rdiv A (radd A absp apeps) (cmod A p1) in
    let rad :=
      if again then rmuld A rnew (dnat A n)
      else let rnew' := rmuld A rnew (dnat A (n + 1)) in
           if rlt A rnew' r0 then rnew' else r0 in
    Nout p p1 ap absp again corr (radd_eq A rad (rmuld A az (dmul A (dnat A 4) (deps A)))).

(* ------------------------------------------------------------------ mps_mnewton, dense polynomial *)
(* ep0 = rdpe_set_2dl (1.0, 2 - wp); ep = ep0 * n.   The part after the Horner loops is a function of the
   computed p, p1 (so that the executable instance can be run on the values the library computed in mpf
   arithmetic, which is not modelled bit for bit). *)
Definition mnewton_tail (n : nat) (ms : list R) (z : K) (ep0 : R) (r0 : R) (p p1 : K) : nout :=
  let ep := rmuld A ep0 (dnat A n) in
  let az := cmod A z in
  let ap := apsum az (rev ms) in
  if negb (ceq0 A p) && ceq0 A p1 then
    Nout p p1 ap r0 false (czero A) r0                                  (* NULL DERIVATIVE *)
  else if ceq0 A p then
    let apeps := rmul A ap ep in
    let temp := cmod A p1 in
    if req0 A temp then Nout p p1 ap r0 false (czero A) r0              (* NULL DERIVATIVE *)
    else Nout p p1 ap r0 false (czero A) (rmuld A (rdiv A apeps temp) (dadd A (dnat A n) (dnat A 1)))
  else
    let absp := cmod A p in
    let temp := cmod A p1 in
    let apeps := rmul A ap ep in
    let again := rgt A absp apeps in
    let rnew := rdiv A (radd A absp apeps) temp in
    let rad := if again then rmuld A rnew (dnat A n) else rmuld A rnew (dnat A (n + 1)) in
    let rad := radd_eq A rad (rmul A (cmod A z) ep) in                      (* mpc_rmod (az, z); az *= ep *)
    let rad := rmuld A rad (dadd A (dnat A 1) (dmul A (dnat A 16) (deps A))) in
    Nout p p1 ap absp again (cdiv p p1) rad.

Definition mnewton_dense (n : nat) (cs : list K) (ms : list R) (z : K) (ep0 : R) (r0 : R) : nout :=
  let '(p, p1) := horner2 z (rev cs) in mnewton_tail n ms z ep0 r0 p p1.

End Coded.
