(* C04 -- executable instances of Radius/NewtonCoded.v:
     farith : the double arithmetic of /repo/src/libmps/floating-point/mt.c (the cplx_* FUNCTIONS: include/mps/mt.h
              always defines MPS_USE_BUILTIN_COMPLEX, which selects the struct implementation), Flocq binary64,
              round to nearest even, no contraction (the build uses -ffp-contract=off);
     darith : the DPE arithmetic, Dpe/DpeModel.v (tied to mt.c by the C12 check); DPE x double products are the
              REPAIRED functions of Dpe/DpeModel2.v (rdpe_mul_d_fix, cdpe_mul_d_fix: /repo 76adc971 converts the double
              with rdpe_set_d and calls the DPE x DPE function; rdpe_mul_eq = rdpe_mul in the model, so rdpe_mul_eq_d
              is the same function).  darith_asis keeps the instance for the code before that commit.
   Extracted (Extract/Extract_newtonfl.v -> bin/newtonfl) and replayed against mps_polynomial_{f,d,m}newton on
   every run of the C04 check.  Definitions only. *)
From Coq Require Import ZArith Bool List.
From Flocq Require Import Core BinarySingleNaN.
From MPSV Require Import Dpe.DpeDefs Dpe.DpeModel Dpe.DpeModel2 Radius.NewtonCoded.
Import ListNotations.
Open Scope Z_scope.

(* ---------------------------------------------------------------- doubles *)
Definition fabs : b64 -> b64 := Babs.
Definition fgt (x y : b64) : bool := match Bcompare x y with Some Gt => true | _ => false end.
Definition flt (x y : b64) : bool := match Bcompare x y with Some Lt => true | _ => false end.
Definition fle (x y : b64) : bool := match Bcompare x y with Some Lt | Some Eq => true | _ => false end.
Definition fofZ (z : Z) : b64 := binary_normalize 53 1024 eq_refl eq_refl mode_NE z 0 false.
Definition fofnat (n : nat) : b64 := fofZ (Z.of_nat n).
Definition DBL_MAX : b64 := @B754_finite 53 1024 false 9007199254740991 971 eq_refl.
Definition DBL_MIN : b64 := @B754_finite 53 1024 false 4503599627370496 (-1074) eq_refl.
Definition DBL_EPS : b64 := @B754_finite 53 1024 false 4503599627370496 (-104) eq_refl.

Definition fc : Type := (b64 * b64)%type.
(* cplx_mul (rx, x1, x2): d = Re1 * Re2 - Im1 * Im2; Im = Im1 * Re2 + Re1 * Im2; Re = d *)
Definition cplx_mul (a b : fc) : fc :=
  (fsub (fmul (fst a) (fst b)) (fmul (snd a) (snd b)), fadd (fmul (snd a) (fst b)) (fmul (fst a) (snd b))).
Definition cplx_add (a b : fc) : fc := (fadd (fst a) (fst b), fadd (snd a) (snd b)).
Definition cplx_sub (a b : fc) : fc := (fsub (fst a) (fst b), fsub (snd a) (snd b)).
Definition cplx_mul_d (a : fc) (d : b64) : fc := (fmul (fst a) d, fmul (snd a) d).
(* cplx_inv *)
Definition cplx_inv (x : fc) : fc :=
  let (re, im) := x in
  if fgt (fabs re) (fabs im) then
    let d1 := fdiv im re in
    let d2 := fdiv fone (fmul re (fadd fone (fmul d1 d1))) in
    (d2, fmul (fneg d2) d1)
  else
    let d1 := fdiv re im in
    let d2 := fdiv fone (fmul im (fadd fone (fmul d1 d1))) in
    (fmul d2 d1, fneg d2).
(* cplx_inv_eq: the guard tests fabs (Re) in BOTH branches, as coded *)
Definition cplx_inv_eq (x : fc) : fc :=
  let (re, im) := x in
  if fgt (fabs re) (fabs im) then
    let d1 := fdiv im re in
    let q := fadd fone (fmul d1 d1) in
    let d2 := if flt (fdiv DBL_MAX q) (fabs re) then fzero else fdiv fone (fmul re q) in
    (d2, fmul (fneg d2) d1)
  else
    let d1 := fdiv re im in
    let q := fadd fone (fmul d1 d1) in
    let d2 := if flt (fdiv DBL_MAX q) (fabs re) then fzero else fdiv fone (fmul im q) in
    (fmul d2 d1, fneg d2).
(* cplx_mod *)
Definition cplx_mod (x : fc) : b64 :=
  let (re, im) := x in
  if fgt (fabs re) (fabs im) then
    let d := fdiv im re in fmul (fabs re) (fsqrt (fadd fone (fmul d d)))
  else if feq im fzero then fzero
  else let d := fdiv re im in fmul (fabs im) (fsqrt (fadd fone (fmul d d))).

Definition farith : arith fc b64 b64 :=
  {| cmul := cplx_mul; cadd := cplx_add; csub := cplx_sub; cmuld := cplx_mul_d;
     cinv := cplx_inv; cinv_eq := cplx_inv_eq; czero := (fzero, fzero); cone := (fone, fzero);
     ceq0 := fun x => feq (fst x) fzero && feq (snd x) fzero;
     cmod := cplx_mod;
     radd := fadd; radd_eq := fadd; rmul := fmul; rdiv := fdiv; rmuld := fmul;
     rgt := fgt; rlt := flt; req0 := fun x => feq x fzero;
     rle1 := fun x => fle x fone; rinv1 := fun x => fdiv fone x; rmin := DBL_MIN;
     rnat := fofnat; dnat := fofnat; dmul := fmul; dadd := fadd; deps := DBL_EPS |}.

(* ---------------------------------------------------------------- DPE *)
(* the inverse cdpe_div multiplies by: conj (b / |b|^2)  (cdpe_div_e then cdpe_con_eq) *)
Definition cdpe_divinv (b : cdpe) : cdpe :=
  let t0 := cdpe_div_e b (cdpe_smod b) in Cdpe (cre t0) (rdpe_neg (cim t0)).

(* rdpe_mul_d / rdpe_mul_eq_d (re, e, d) = { rdpe_set_d (t, d); rdpe_mul (re, e, t); },
   cdpe_mul_d (rc, c, d) = { rdpe_set_d (t, d); cdpe_mul_e (rc, c, t); }     (mt.c since 76adc971) *)
Definition darith : arith cdpe rdpe b64 :=
  {| cmul := cdpe_mul; cadd := cdpe_add; csub := cdpe_sub; cmuld := cdpe_mul_d_fix;
     cinv := cdpe_divinv; cinv_eq := cdpe_inv; czero := cdpe_zero; cone := cdpe_one;
     ceq0 := fun x => cdpe_eq x cdpe_zero;        (* cdpe_eq (p1, cdpe_zero); cdpe_ne is its negation *)
     cmod := cdpe_mod;
     radd := rdpe_add; radd_eq := rdpe_add_eq; rmul := rdpe_mul; rdiv := rdpe_div; rmuld := rdpe_mul_d_fix;
     rgt := rdpe_gt; rlt := rdpe_lt; req0 := rdpe_eq_zero;
     rle1 := fun x => rdpe_le x rdpe_one; rinv1 := rdpe_inv; rmin := rdpe_set_d DBL_MIN;
     rnat := fun n => rdpe_set_d (fofnat n); dnat := fofnat; dmul := fmul; dadd := fadd; deps := DBL_EPS |}.

(* the same with the *_d functions as they were before 76adc971 (mantissa times the raw double); not extracted *)
Definition darith_asis : arith cdpe rdpe b64 :=
  {| cmul := cdpe_mul; cadd := cdpe_add; csub := cdpe_sub; cmuld := cdpe_mul_d;
     cinv := cdpe_divinv; cinv_eq := cdpe_inv; czero := cdpe_zero; cone := cdpe_one;
     ceq0 := fun x => cdpe_eq x cdpe_zero;        (* cdpe_eq (p1, cdpe_zero); cdpe_ne is its negation *)
     cmod := cdpe_mod;
     radd := rdpe_add; radd_eq := rdpe_add_eq; rmul := rdpe_mul; rdiv := rdpe_div; rmuld := rdpe_mul_d;
     rgt := rdpe_gt; rlt := rdpe_lt; req0 := rdpe_eq_zero;
     rle1 := fun x => rdpe_le x rdpe_one; rinv1 := rdpe_inv; rmin := rdpe_set_d DBL_MIN;
     rnat := fun n => rdpe_set_d (fofnat n); dnat := fofnat; dmul := fmul; dadd := fadd; deps := DBL_EPS |}.

(* ---------------------------------------------------------------- entry points on bit patterns *)
Definition fc_of (x : Z * Z) : fc := (of_bits (fst x), of_bits (snd x)).
Definition fc_to (x : fc) : Z * Z := (to_bits (fst x), to_bits (snd x)).
Definition rd_of (x : Z * Z) : rdpe := Rdpe (of_bits (fst x)) (snd x).
Definition rd_to (x : rdpe) : Z * Z := (to_bits (mnt x), esp x).
Definition cd_of (x : (Z * Z) * (Z * Z)) : cdpe := Cdpe (rd_of (fst x)) (rd_of (snd x)).
Definition cd_to (x : cdpe) : (Z * Z) * (Z * Z) := (rd_to (cre x), rd_to (cim x)).

(* results: p, p1, ap, absp, again, corr, rad *)
Definition fout : Type := ((Z * Z) * (Z * Z) * Z * Z * bool * (Z * Z) * Z)%type.
Definition fnewton_bits (n : nat) (cs : list (Z * Z)) (ms : list Z) (z : Z * Z) : fout :=
  let o := fnewton farith n (map fc_of cs) (map of_bits ms) (fc_of z) in
  (fc_to (o_p o), fc_to (o_p1 o), to_bits (o_ap o), to_bits (o_absp o), o_again o, fc_to (o_corr o), to_bits (o_rad o)).
(* which branch a call takes: 0 = |z| <= 1, 1 = |z| > 1 with den <> 0, 2 = |z| > 1 with den = 0 *)
Definition fnewton_branch (n : nat) (cs : list (Z * Z)) (ms : list Z) (z : Z * Z) : Z :=
  let A := farith in
  let zz := fc_of z in
  let az := cmod A zz in
  if rle1 A az then 0
  else
    let zi := cinv_eq A zz in
    let '(p, p1) := horner2 A zi (map fc_of cs) in
    let den := cmul A (csub A (cmuld A p (dnat A n)) (cmul A p1 zi)) zi in
    if negb (req0 A (cmod A den)) then 1 else 2.

Definition dout : Type := (((Z * Z) * (Z * Z)) * ((Z * Z) * (Z * Z)) * (Z * Z) * (Z * Z) * bool * ((Z * Z) * (Z * Z)) * (Z * Z))%type.
Definition dout_of (o : nout cdpe rdpe) : dout :=
  (cd_to (o_p o), cd_to (o_p1 o), rd_to (o_ap o), rd_to (o_absp o), o_again o, cd_to (o_corr o), rd_to (o_rad o)).
Definition dnewton_bits (n : nat) (cs : list ((Z * Z) * (Z * Z))) (ms : list (Z * Z)) (z : (Z * Z) * (Z * Z)) (r0 : Z * Z) : dout :=
  dout_of (dnewton darith n (map cd_of cs) (map rd_of ms) (cd_of z) (rd_of r0)).
(* mps_mnewton after its Horner loops, on the cdpe images (mpc_get_cdpe) of root->mvalue, p, p1; wp2 = 2 - wp *)
Definition mnewton_tail_bits (n : nat) (ms : list (Z * Z)) (z : (Z * Z) * (Z * Z)) (wp2 : Z) (r0 : Z * Z)
    (p p1 : (Z * Z) * (Z * Z)) : dout :=
  dout_of (mnewton_tail darith n (map rd_of ms) (cd_of z) (rdpe_set_2dl fone wp2) (rd_of r0) (cd_of p) (cd_of p1)).

(* mpf_get_rdpe: the value m * 2^e (m an integer) truncated towards zero to 53 bits, normalised *)
Definition rdpe_of_dyadic (m e : Z) : rdpe :=
  if m =? 0 then rdpe_zero
  else
    let a := Z.abs m in
    let d := Z.log2 a + 1 in                       (* number of bits of |m| *)
    let sh := d - 53 in
    let a' := if 0 <? sh then Z.shiftr a sh else a in
    let e' := if 0 <? sh then e + sh else e in
    let f := fofZ (if m <? 0 then - a' else a') in (* exact: |a'| < 2^53 *)
    rdpe_set_2dl f e'.
Definition rdpe_of_dyadic_bits (m e : Z) : Z * Z := rd_to (rdpe_of_dyadic m e).

(* sanity: 1.0 * 1.0 - 0 = 1.0; the modulus of 3 + 4i is 5 *)
Example farith_mul_one : fc_to (cplx_mul (fone, fzero) (fone, fzero)) = (4607182418800017408, 0).
Proof. vm_compute. reflexivity. Qed.
Example farith_mod_345 : to_bits (cplx_mod (fofZ 3, fofZ 4)) = to_bits (fofZ 5).
Proof. vm_compute. reflexivity. Qed.
