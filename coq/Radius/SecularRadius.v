(* Gerschgorin-type inclusion for a secular equation sum a_i/(x - b_i) = 1 (numerator polynomial
   secD - secN of Roots/TransformSound.v): every root lies in some D(b_i, n |a_i|). *)
From mathcomp Require Import all_ssreflect all_algebra.
From MPSV Require Import Roots.TransformSound Radius.Gerschgorin.
Set Implicit Arguments. Unset Strict Implicit. Unset Printing Implicit Defensive.
Import Order.TTheory GRing.Theory Num.Theory.
Local Open Scope ring_scope.

Section SecularRadius.
Variable C : numClosedFieldType.

Theorem secular_gersch_union (ab : seq (C * C)) (x : C) :
  root (secD ab - secN ab) x ->
  exists2 p, p \in ab & `|x - p.2| <= (size ab)%:R * `|p.1|.
Proof.
move=> rx; case: (boolP (x \in map snd ab)) => [/mapP [p pin ->]|xnot].
  by exists p => //; rewrite subrr normr0 mulr_ge0 ?ler0n.
have /(secular_root_equiv xnot) Hsum := rx.
case: (boolP (has (fun p => `|x - p.2| <= (size ab)%:R * `|p.1|) ab)) => [/hasP [p pin Hp]|].
  by exists p.
rewrite -all_predC => Hall.
have n0 : (0 < size ab)%N.
  by case: (ab) Hsum => // /eqP; rewrite big_nil eq_sym oner_eq0.
have nn0 : 0 < (size ab)%:R :> C by rewrite ltr0n.
have dn0 p : p \in ab -> x - p.2 != 0.
  by move=> pin; rewrite subr_eq0; apply: contraNneq xnot => ->; apply: map_f.
have Ht : all (fun p => `|p.1 / (x - p.2)| < (size ab)%:R^-1) ab.
  apply/allP => p pin; have /= := allP Hall p pin.
  rewrite -real_ltNge ?normr_real //; last by rewrite rpredM ?realn ?normr_real.
  move=> H; rewrite normrM normfV ltr_pdivr_mulr ?normr_gt0 ?dn0 //.
  by rewrite -(ltr_pmul2l nn0) mulrA mulfV ?gt_eqF // mul1r.
have : `|\sum_(p <- ab) p.1 / (x - p.2)| < 1.
  apply: le_lt_trans (ler_norm_sum _ _ _) _.
  by have := sum_lt_all Ht n0; rewrite mulfV ?gt_eqF.
by rewrite Hsum normr1 ltxx.
Qed.

End SecularRadius.
