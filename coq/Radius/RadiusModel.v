(* Definitions: the radius expressions of the Newton primitives as a model over an abstract field
   (exact arithmetic on the computed quantities p^ = computed p(z), d^ = computed p'(z), E = error term). *)
From mathcomp Require Import all_ssreflect all_algebra.
Set Implicit Arguments. Unset Strict Implicit. Unset Printing Implicit Defensive.
Import Order.TTheory GRing.Theory Num.Theory.
Local Open Scope ring_scope.

Section Model.
Variable C : numClosedFieldType.

(* the exact Newton bound at x *)
Definition newton_bound (p : {poly C}) (x : C) : C := (size p).-1%:R * `|p.[x] / p^`().[x]|.

(* coded expression: n (|p^| + E) / |d^| ; no radius (None) when the computed derivative vanishes
   (division by zero: +inf in double, NULL DERIVATIVE branch in DPE / multiprecision) *)
Definition newton_radius_model (n : nat) (ph E dh : C) : option C :=
  if dh == 0 then None else Some (n%:R * (`|ph| + E) / `|dh|).

(* what a returned radius claims *)
Definition disc_claim (p : {poly C}) (x : C) (r : option C) : Prop :=
  if r is Some r then exists2 w, root p w & `|x - w| <= r else True.

Definition in_disc (d : C * C) (w : C) := `|d.1 - w| <= d.2.
End Model.
