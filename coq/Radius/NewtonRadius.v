(* Theorems about the Newton radius model. *)
From mathcomp Require Import all_ssreflect all_algebra.
From mathcomp Require Import ring polyorder.
From MPSV Require Import Roots.NewtonDisc Roots.Isolate Radius.RadiusModel.
Set Implicit Arguments. Unset Strict Implicit. Unset Printing Implicit Defensive.
Import Order.TTheory GRing.Theory Num.Theory.
Local Open Scope ring_scope.

Section NewtonRadius.
Variable C : numClosedFieldType.
Implicit Types (p : {poly C}) (x r E : C).

Lemma newton_exact_sound p x r : p != 0 -> p^`().[x] != 0 -> newton_bound p x <= r ->
  exists2 w, root p w & `|x - w| <= r.
Proof.
move=> pn0 dn0 H; have [w rw Hw] := newton_disc pn0 dn0.
by exists w => //; apply: le_trans Hw H.
Qed.

(* the general form: computed value ph with error <= Ep, computed derivative dh with relative error eta *)
Lemma newton_bound_le p x ph dh Ep eta :
  `|ph - p.[x]| <= Ep -> `|dh - p^`().[x]| <= eta * `|dh| -> eta < 1 -> dh != 0 ->
  p^`().[x] != 0 /\ newton_bound p x <= (size p).-1%:R * (`|ph| + Ep) / (`|dh| * (1 - eta)).
Proof.
move=> Hp Hd eta1 dn0.
have dh0 : 0 < `|dh| by rewrite normr_gt0.
have e0 : 0 < 1 - eta by rewrite subr_gt0.
have lowd : `|dh| * (1 - eta) <= `|p^`().[x]|.
  rewrite mulrBr mulr1 ler_subl_addr mulrC.
  apply: le_trans (ler_add (lexx _) Hd).
  by rewrite -[X in `|X| <= _](subrK p^`().[x]) addrC ler_norm_add.
have pos : 0 < `|dh| * (1 - eta) by rewrite mulr_gt0.
have d0 : 0 < `|p^`().[x]| by apply: lt_le_trans pos lowd.
split; first by rewrite -normr_gt0.
rewrite /newton_bound normrM normfV -mulrA ler_wpmul2l ?ler0n //.
apply: ler_pmul; rewrite ?invr_ge0 ?normr_ge0 //; last by rewrite lef_pinv ?posrE.
rewrite -[X in `|X| <= _](subrK ph) -opprB addrC.
by apply: le_trans (ler_norm_add _ _) _; rewrite normrN ler_add2l.
Qed.

Theorem newton_deriv_error_sound p x r ph dh Ep eta :
  p != 0 -> `|ph - p.[x]| <= Ep -> `|dh - p^`().[x]| <= eta * `|dh| -> eta < 1 -> dh != 0 ->
  (size p).-1%:R * (`|ph| + Ep) / (`|dh| * (1 - eta)) <= r ->
  exists2 w, root p w & `|x - w| <= r.
Proof.
move=> pn0 Hp Hd eta1 dn0 Hr.
have [d0 Hb] := newton_bound_le Hp Hd eta1 dn0.
by apply: (newton_exact_sound pn0 d0); apply: le_trans Hb Hr.
Qed.

(* the coded expression (no 1/(1-eta) factor) is sound when the slack E - Ep of the error term absorbs eta *)
Theorem newton_model_slack_sound p x ph dh E Ep eta :
  p != 0 -> `|ph - p.[x]| <= Ep -> `|dh - p^`().[x]| <= eta * `|dh| -> eta < 1 -> dh != 0 ->
  `|ph| + Ep <= (`|ph| + E) * (1 - eta) ->
  disc_claim p x (newton_radius_model (size p).-1 ph E dh).
Proof.
move=> pn0 Hp Hd eta1 dn0 slack; rewrite /newton_radius_model (negbTE dn0) /=.
apply: (newton_deriv_error_sound pn0 Hp Hd eta1 dn0).
have dh0 : 0 < `|dh| by rewrite normr_gt0.
have e0 : 0 < 1 - eta by rewrite subr_gt0.
rewrite -!mulrA ler_wpmul2l ?ler0n // ler_pdivr_mulr ?mulr_gt0 //.
by rewrite mulrA divfK ?gt_eqF.
Qed.

(* exact derivative (eta = 0): the coded expression with |ph - p(x)| <= E *)
Theorem newton_model_sound p x ph E :
  p != 0 -> `|ph - p.[x]| <= E ->
  disc_claim p x (newton_radius_model (size p).-1 ph E p^`().[x]).
Proof.
move=> pn0 Hp; case d0: (p^`().[x] == 0); first by rewrite /newton_radius_model d0.
apply: (@newton_model_slack_sound p x ph _ E E 0) => //.
- by rewrite subrr normr0 mul0r.
- exact: ltr01.
- by rewrite d0.
- by rewrite subr0 mulr1.
Qed.

Theorem nonfinite_no_claim p x n ph E : disc_claim p x (newton_radius_model n ph E 0).
Proof. by rewrite /newton_radius_model eqxx. Qed.

(* without the factor the expression is unsound under derivative error: degree 1, eta = 1/2 *)
Theorem newton_deriv_unabsorbed_refuted :
  exists (p : {poly C}) (x ph dh E eta : C),
    (p != 0 /\ dh != 0) /\
    [/\ `|ph - p.[x]| <= E, `|dh - p^`().[x]| <= eta * `|dh|, eta < 1
      & ~ disc_claim p x (newton_radius_model (size p).-1 ph E dh)].
Proof.
exists 'X, 1, 1, 2%:R, 0, 2%:R^-1.
have two0 : (2%:R : C) != 0 by rewrite pnatr_eq0.
split; first by rewrite polyX_eq0.
split; rewrite ?derivX ?hornerE ?subrr ?normr0 //.
- by rewrite {1}mulr2n addrK normr1 normr_nat mulVf.
- by rewrite invf_lt1 ?ltr0n // ltr1n.
rewrite /newton_radius_model (negbTE two0) size_polyX /= normr1 addr0 mulr1 mul1r normr_nat.
case=> w; rewrite rootX => /eqP ->; rewrite subr0 normr1.
rewrite invf_ge1 ?ltr0n // => H.
have H2 : (1 : C) < 2%:R by rewrite ltr1n.
by have := lt_le_trans H2 H; rewrite ltxx.
Qed.

(* ---------------- the tight family (x - a)^n ---------------- *)
Theorem tight_family (a z : C) (n : nat) : (0 < n)%N -> z != a ->
  newton_bound (('X - a%:P) ^+ n) z = `|z - a|.
Proof.
case: n => // n _ za; have d0 : z - a != 0 by rewrite subr_eq0.
rewrite /newton_bound size_exp_XsubC deriv_exp derivXsubC mul1r /= hornerMn !horner_exp hornerXsubC.
have nn0 : (n.+1%:R : C) != 0 by rewrite pnatr_eq0.
have e0 : (z - a) ^+ n != 0 by rewrite expf_neq0.
have -> : (z - a) ^+ n.+1 / ((z - a) ^+ n *+ n.+1) = (z - a) / n.+1%:R.
  by rewrite exprS -[X in _ / X]mulr_natr invfM mulrA mulfK.
by rewrite normrM normfV normr_nat mulrCA mulfV ?mulr1.
Qed.

Theorem tight_family_sharp (a z r : C) (n : nat) : (0 < n)%N -> r < `|z - a| ->
  forall w, root (('X - a%:P) ^+ n) w -> ~~ (`|z - w| <= r).
Proof.
case: n => // n _ Hr w; rewrite root_exp_XsubC => /eqP ->.
have rr : r \is Num.real by rewrite (ler_real (ltW Hr)) normr_real.
by rewrite -real_ltNge ?normr_real.
Qed.

(* ---------------- pairwise disjoint Newton discs: exactly one root each ---------------- *)
Theorem newton_isolated_components p (ds : seq (C * C)) :
  p != 0 -> size ds = (size p).-1 -> pairwise (@disjoint C) ds ->
  (forall d, d \in ds -> p^`().[d.1] != 0 /\ newton_bound p d.1 <= d.2) ->
  (forall d, d \in ds -> exists w, [/\ root p w, Isolate.in_disc d w, \mu_w p = 1%N
       & forall v, root p v -> Isolate.in_disc d v -> v = w])
  /\ (forall w, root p w -> exists2 d, d \in ds & Isolate.in_disc d w).
Proof.
move=> pn0 sz pw H.
have H' d : d \in ds -> exists2 w, root p w & Isolate.in_disc d w.
  by move=> /H [d0 Hb]; apply: newton_exact_sound.
by have [A B] := isolate_by_count pn0 sz pw H'.
Qed.

End NewtonRadius.
