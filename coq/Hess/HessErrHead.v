(* C20 -- the error bound RETURNED by mps_mhessenberg_shifted_determinant as it is at HEAD
   (HessModelM.mhess_head) dominates the true error, for every order, including
     * the rounded copy into the wp-bit working matrix (mpc_set, mpc_sub of the shift),
     * the initial error vector verrors[i] = |matrix[i][n-1]| eps,
     * ROUNDED bound arithmetic: rdpe_add, rdpe_mul, mpc_rmod are only assumed to return at least
       q times the exact value (q <= 1: downward drift of up to 7 operations per entry and pass).

   Hypotheses (R values, F bounds, M the rounding model of mpc_sub / mpc_mul with constants es, em):
       N (fset x - x) <= es * N x                         mpc_set rounds like the other operations
       is0 s -> s = 0                                     mpc_eq_zero
       es <= kap * (1 - es)                               kap: relative rounding error w.r.t. the COMPUTED value
       p * (1 + kap) <= q^7                               p < 1: what one pass may lose
       em + kap <= p^n * eps                              the slack between the mpf unit roundoff (GMP keeps a
                                                          guard limb: u ~ 2^-(wp+64)) and eps = 2^(1-wp) pays for it
   Invariant: with the compressed column at index l,  N (vec^[i] - vec[i]) <= p^l * verrors[i]. *)
From mathcomp Require Import all_ssreflect all_algebra.
From mathcomp Require Import ring.
Require Import MPSV.Hess.HessModel MPSV.Hess.HessModelM MPSV.Hess.HessDet MPSV.Hess.HessApriori MPSV.Hess.HessErrVec.

Set Implicit Arguments.
Unset Strict Implicit.
Unset Printing Implicit Defensive.
Import GRing.Theory Num.Theory Order.Theory.
Local Open Scope ring_scope.

Section HeadSound.

Variables (R : comRingType) (F : numDomainType) (M : round_model R F).
Variables (fset : R -> R) (is0 : R -> bool) (eadd emul : F -> F -> F) (nrm : R -> F).
Variables (eps kap q p : F).

Local Notation N := (rm_N M).
Local Notation fsub := (rm_fsub M).
Local Notation fmul := (rm_fmul M).
Local Notation em := (rm_em M).
Local Notation es := (rm_es M).
Local Notation fo := (flops M).
Local Notation xo := (rops R).

Hypothesis fset_err : forall x, N (fset x - x) <= es * N x.
Hypothesis is0P : forall s, is0 s -> s = 0.
Hypothesis eps_ge0 : 0 <= eps.
Hypothesis kap_ge0 : 0 <= kap.
Hypothesis q_ge0 : 0 <= q.
Hypothesis q_le1 : q <= 1.
Hypothesis p_ge0 : 0 <= p.
Hypothesis eadd_lb : forall x y, 0 <= x -> 0 <= y -> q * (x + y) <= eadd x y.
Hypothesis emul_lb : forall x y, 0 <= x -> 0 <= y -> q * (x * y) <= emul x y.
Hypothesis nrm_lb : forall z, q * N z <= nrm z.
Hypothesis es_kap : es <= kap * (1 - es).
Hypothesis pq : p * (1 + kap) <= q ^+ 7.

(* ---- lower bounds through the rounded bound arithmetic: x >= q^i * x' ------------------------------- *)

Definition lb (i : nat) (x' x : F) : Prop := 0 <= x' /\ q ^+ i * x' <= x.

Lemma lb_ge0 i x' x : lb i x' x -> 0 <= x.
Proof. by case=> x0 h; apply: le_trans h; rewrite mulr_ge0 // exprn_ge0. Qed.

Lemma lb_weaken i k x' x : (i <= k)%N -> lb i x' x -> lb k x' x.
Proof.
move=> ik [x0 h]; split=> //; apply: le_trans h.
rewrite ler_wpmul2r // -(subnK ik) exprD -{2}[q ^+ i]mul1r ler_wpmul2r ?exprn_ge0 //.
by rewrite exprn_ile1.
Qed.

Lemma lb_refl x : 0 <= x -> lb 0 x x.
Proof. by move=> x0; split=> //; rewrite expr0 mul1r. Qed.

Lemma lb_nrm z : lb 1 (N z) (nrm z).
Proof. by split; rewrite ?rm_N_ge0 // expr1; exact: nrm_lb. Qed.

Lemma lb_mul i j x' x y' y : lb i x' x -> lb j y' y -> lb (i + j).+1 (x' * y') (emul x y).
Proof.
move=> hx hy; have x0 := lb_ge0 hx; have y0 := lb_ge0 hy.
case: hx => x'0 hx; case: hy => y'0 hy; split; first exact: mulr_ge0.
apply: le_trans (emul_lb x0 y0).
rewrite exprS exprD -!mulrA ler_wpmul2l //.
have -> : q ^+ i * (q ^+ j * (x' * y')) = (q ^+ i * x') * (q ^+ j * y') by ring.
by apply: ler_pmul => //; rewrite mulr_ge0 // exprn_ge0.
Qed.

Lemma lb_add i x' x y' y : lb i x' x -> lb i y' y -> lb i.+1 (x' + y') (eadd x y).
Proof.
move=> hx hy; have x0 := lb_ge0 hx; have y0 := lb_ge0 hy.
case: hx => x'0 hx; case: hy => y'0 hy; split; first exact: addr_ge0.
apply: le_trans (eadd_lb x0 y0).
by rewrite exprS -mulrA ler_wpmul2l // mulrDr ler_add.
Qed.

(* the entry of the new error vector, as computed, against the exact expression *)
Lemma lb_entry e evl (a vlh xh cc newh : R) :
  0 <= e -> 0 <= evl ->
  lb 7 (e + N newh * eps + N a * (evl + N vlh * eps) + (N xh * eps + e) * N cc)
       (eadd (eadd (eadd e (emul (nrm newh) eps)) (emul (nrm a) (eadd evl (emul (nrm vlh) eps))))
             (emul (eadd (emul (nrm xh) eps) e) (nrm cc))).
Proof.
move=> e0 evl0.
have Le := lb_refl e0; have Lv := lb_refl evl0; have Leps := lb_refl eps_ge0.
have m1 : lb 2 (N newh * eps) (emul (nrm newh) eps) by exact: (lb_mul (lb_nrm newh) Leps).
have s1 : lb 3 (e + N newh * eps) (eadd e (emul (nrm newh) eps)).
  by apply: lb_add => //; exact: (@lb_weaken 0 2).
have el : lb 3 (evl + N vlh * eps) (eadd evl (emul (nrm vlh) eps)).
  apply: lb_add; first exact: (@lb_weaken 0 2).
  exact: (lb_mul (lb_nrm vlh) Leps).
have ea : lb 5 (N a * (evl + N vlh * eps)) (emul (nrm a) (eadd evl (emul (nrm vlh) eps))).
  exact: (lb_mul (lb_nrm a) el).
have s2 : lb 6 (e + N newh * eps + N a * (evl + N vlh * eps))
               (eadd (eadd e (emul (nrm newh) eps)) (emul (nrm a) (eadd evl (emul (nrm vlh) eps)))).
  by apply: lb_add => //; exact: (@lb_weaken 3 5).
have b1 : lb 3 (N xh * eps + e) (eadd (emul (nrm xh) eps) e).
  apply: lb_add; last exact: (@lb_weaken 0 2).
  exact: (lb_mul (lb_nrm xh) Leps).
have eb : lb 5 ((N xh * eps + e) * N cc) (emul (eadd (emul (nrm xh) eps) e) (nrm cc)).
  exact: (lb_mul b1 (lb_nrm cc)).
by apply: lb_add => //; exact: (@lb_weaken 5 6).
Qed.

(* ---- rounding error relative to the computed value ------------------------------------------------- *)

Lemma rel_computed (xh x : R) : N (xh - x) <= es * N x -> N (xh - x) <= kap * N xh.
Proof.
move=> h.
have Y : N x <= N xh + es * N x.
  have T : N (xh - (xh - x)) <= N xh + N (xh - x) by exact: NB.
  have Eq : xh - (xh - x) = x by ring.
  by rewrite Eq in T; apply: le_trans T _; rewrite ler_add2l.
apply: le_trans h _.
have S1 : es * N x <= kap * (1 - es) * N x by apply: ler_wpmul2r es_kap; exact: rm_N_ge0.
have S2 : kap * (1 - es) * N x = kap * (N x - es * N x) by ring.
have S3 : N x - es * N x <= N xh by rewrite ler_subl_addr.
by apply: le_trans S1 _; rewrite S2; exact: ler_wpmul2l.
Qed.

Lemma N_exact_le (xh x : R) (d : F) : N (xh - x) <= d -> N x <= N xh + d.
Proof.
move=> h; have T : N (xh - (xh - x)) <= N xh + N (xh - x) by exact: NB.
have Eq : xh - (xh - x) = x by ring.
by rewrite Eq in T; apply: le_trans T _; rewrite ler_add2l.
Qed.

(* ---- one entry ------------------------------------------------------------------------------------------ *)
(* c : the factor of the invariant before the pass, c' after; K1, K2 what the pass needs *)
Lemma entry_head (c c' : F) (a al vlh vl xh x cc ga : R) (e evl : F) :
  0 <= c -> 0 <= c' ->
  em + kap <= c' * q ^+ 7 * eps -> c * (1 + kap) <= c' * q ^+ 7 ->
  0 <= e -> 0 <= evl ->
  N (a - al) <= kap * N a -> N (cc - ga) <= kap * N cc ->
  N (vlh - vl) <= c * evl -> N (xh - x) <= c * e ->
  N (fsub (fmul a vlh) (fmul xh cc) - (al * vl - x * ga))
  <= c' * (q ^+ 7 * (e + N (fsub (fmul a vlh) (fmul xh cc)) * eps + N a * (evl + N vlh * eps)
                     + (N xh * eps + e) * N cc)).
Proof.
move=> c0 c'0 K1 K2 e0 evl0 ha hc hl hx.
set sh := fmul a vlh; set th := fmul xh cc; set newh := fsub sh th.
have K0 : kap <= c' * q ^+ 7 * eps.
  by apply: le_trans K1; rewrite ler_addr rm_em_ge0.
have Na := rm_N_ge0 M a; have Ncc := rm_N_ge0 M cc; have Nvlh := rm_N_ge0 M vlh.
have Nxh := rm_N_ge0 M xh; have Nnew := rm_N_ge0 M newh.
have kap1 : 0 <= 1 + kap by rewrite addr_ge0 // ler01.
have -> : newh - (al * vl - x * ga)
   = (newh - (sh - th)) + (sh - a * vlh) + (a * (vlh - vl) + (a - al) * vl)
     - ((th - xh * cc) + ((xh - x) * cc + x * (cc - ga))) by ring.
have T1 : N (newh - (sh - th)) <= c' * q ^+ 7 * eps * N newh.
  apply: le_trans (rel_computed (rm_fsub_err M sh th)) _.
  exact: ler_wpmul2r.
have T2 : N (sh - a * vlh) <= em * (N a * N vlh) by exact: rm_fmul_err.
have Nvl : N vl <= N vlh + c * evl by exact: (N_exact_le hl).
have Nx : N x <= N xh + c * e by exact: (N_exact_le hx).
have T3 : N (a * (vlh - vl) + (a - al) * vl) <= (1 + kap) * c * (N a * evl) + kap * (N a * N vlh).
  apply: le_trans (rm_ND M _ _) _.
  apply: le_trans (ler_add (rm_NM M _ _) (rm_NM M _ _)) _.
  have -> : (1 + kap) * c * (N a * evl) + kap * (N a * N vlh)
            = N a * (c * evl) + (kap * N a) * (N vlh + c * evl) by ring.
  apply: ler_add; first exact: ler_wpmul2l.
  by apply: ler_pmul => //; exact: rm_N_ge0.
have T4 : N (th - xh * cc) <= em * (N xh * N cc) by exact: rm_fmul_err.
have T5 : N ((xh - x) * cc + x * (cc - ga)) <= (1 + kap) * c * (e * N cc) + kap * (N xh * N cc).
  apply: le_trans (rm_ND M _ _) _.
  apply: le_trans (ler_add (rm_NM M _ _) (rm_NM M _ _)) _.
  have -> : (1 + kap) * c * (e * N cc) + kap * (N xh * N cc)
            = (c * e) * N cc + (N xh + c * e) * (kap * N cc) by ring.
  apply: ler_add; first exact: ler_wpmul2r.
  by apply: ler_pmul => //; exact: rm_N_ge0.
have G1 : (em + kap) * (N a * N vlh) <= c' * q ^+ 7 * eps * (N a * N vlh).
  by apply: ler_wpmul2r K1; exact: mulr_ge0.
have G2 : (em + kap) * (N xh * N cc) <= c' * q ^+ 7 * eps * (N xh * N cc).
  by apply: ler_wpmul2r K1; exact: mulr_ge0.
have K2' : (1 + kap) * c <= c' * q ^+ 7 by rewrite mulrC.
have G3 : (1 + kap) * c * (N a * evl) <= c' * q ^+ 7 * (N a * evl).
  by apply: ler_wpmul2r K2'; exact: mulr_ge0.
have G4 : (1 + kap) * c * (e * N cc) <= c' * q ^+ 7 * (e * N cc).
  by apply: ler_wpmul2r K2'; exact: mulr_ge0.
have cq0 : 0 <= c' * q ^+ 7 by rewrite mulr_ge0 // exprn_ge0.
have G5 : 0 <= c' * q ^+ 7 * e by exact: mulr_ge0.
apply: le_trans (NB M _ _) _.
apply: le_trans (ler_add (le_trans (rm_ND M _ _) (ler_add (le_trans (rm_ND M _ _) (ler_add T1 T2)) T3))
                         (le_trans (rm_ND M _ _) (ler_add T4 T5))) _.
have -> : c' * q ^+ 7 * eps * N newh + em * (N a * N vlh)
          + ((1 + kap) * c * (N a * evl) + kap * (N a * N vlh))
          + (em * (N xh * N cc) + ((1 + kap) * c * (e * N cc) + kap * (N xh * N cc)))
        = c' * q ^+ 7 * eps * N newh + (em + kap) * (N a * N vlh) + (1 + kap) * c * (N a * evl)
          + (em + kap) * (N xh * N cc) + (1 + kap) * c * (e * N cc) by ring.
have -> : c' * (q ^+ 7 * (e + N newh * eps + N a * (evl + N vlh * eps) + (N xh * eps + e) * N cc))
        = c' * q ^+ 7 * eps * N newh + c' * q ^+ 7 * eps * (N a * N vlh) + c' * q ^+ 7 * (N a * evl)
          + c' * q ^+ 7 * eps * (N xh * N cc) + c' * q ^+ 7 * (e * N cc) + c' * q ^+ 7 * e by ring.
rewrite -[X in X <= _]addr0; apply: ler_add => //.
by do !apply: ler_add => //.
Qed.

(* ---- vectors ---------------------------------------------------------------------------------------- *)

Inductive erelc (c : F) : seq R -> seq R -> seq F -> Prop :=
| ECNil : erelc c [::] [::] [::]
| ECCons xh x e vh v err : 0 <= e -> N (xh - x) <= c * e -> erelc c vh v err ->
                           erelc c (xh :: vh) (x :: v) (e :: err).

Lemma erelc_nth c vh v err l :
  erelc c vh v err ->
  0 <= @nthe F 0 err l /\ N (nthd fo vh l - nthd xo v l) <= c * @nthe F 0 err l.
Proof.
move=> r; elim: r l => [|xh x e vh' v' err' e0 hx _ IH] [|l] //=; by rewrite subrr rm_N0 mulr0.
Qed.

Local Notation cerr := (@compress_err R F fo eadd emul eps nrm).

Lemma compress_head (c c' : F) (a al : nat -> R) vlh vl evl cc ga i k vh v err :
  0 <= c -> 0 <= c' ->
  em + kap <= c' * q ^+ 7 * eps -> c * (1 + kap) <= c' * q ^+ 7 ->
  0 <= evl -> N (vlh - vl) <= c * evl ->
  (forall j, N (a j - al j) <= kap * N (a j)) -> N (cc - ga) <= kap * N cc ->
  erelc c vh v err ->
  erelc c' (compress fo a vlh cc i k vh) (compress xo al vl ga i k v)
           (cerr a vlh cc (eadd evl (emul (nrm vlh) eps)) i k vh err).
Proof.
move=> c0 c'0 K1 K2 evl0 hl ha hc r.
elim: r i k => [|xh x e vh' v' err' e0 hx _ IH] i [|k] /=; try by constructor.
have [L0 L] := @lb_entry e evl (a i) vlh xh cc (fsub (fmul (a i) vlh) (fmul xh cc)) e0 evl0.
constructor; last exact: IH.
  by apply: le_trans L; rewrite mulr_ge0 // exprn_ge0.
apply: le_trans (entry_head c0 c'0 K1 K2 e0 evl0 (ha i) hc hl hx) _.
exact: ler_wpmul2l.
Qed.

(* ---- the copy and the loop ----------------------------------------------------------------------------- *)

Variables (h : nat -> nat -> R) (s : R).

Local Notation hc := (@mcopy R fo fset is0 h s).

Lemma eqbE i j : Nat.eqb i j = (i == j).
Proof. by elim: i j => [|i IH] [|j] //=. Qed.

(* every entry of the copy read by the pass l >= 1 is a rounding of the corresponding exact entry *)
Lemma copy_coef l i : N (hc i l - coef xo h s l.+1 i) <= kap * N (hc i l).
Proof.
apply: rel_computed; rewrite /mcopy /coef /= -/(Nat.eqb i l) !eqbE.
case: eqP => [->|_] /=; last exact: fset_err.
case E: (is0 s) => /=; last exact: rm_fsub_err.
by rewrite (is0P E) subr0; exact: fset_err.
Qed.

Lemma copy_sub l : N (hc l.+1 l - h l.+1 l) <= kap * N (hc l.+1 l).
Proof.
apply: rel_computed; rewrite /mcopy eqbE.
by rewrite -[_ == _]/(l.+1 == l) gtn_eqF //=; exact: fset_err.
Qed.

Variable n : nat.
Hypothesis budget : em + kap <= p ^+ n * eps.

Lemma p_le_q7 : p <= q ^+ 7.
Proof.
apply: le_trans pq; rewrite -{1}[p]mulr1 ler_wpmul2l // ler_addl //.
Qed.

Lemma p_le1 : p <= 1.
Proof. by apply: le_trans p_le_q7 _; rewrite exprn_ile1. Qed.

Lemma K1_of l : (l < n)%N -> em + kap <= p ^+ l * q ^+ 7 * eps.
Proof.
move=> ln; apply: le_trans budget _; apply: ler_wpmul2r => //.
apply: le_trans (_ : p ^+ l.+1 <= _).
  by rewrite -(subnK ln) exprD -{2}[p ^+ l.+1]mul1r ler_wpmul2r ?exprn_ge0 // exprn_ile1 // p_le1.
by rewrite exprSr ler_wpmul2l ?exprn_ge0 // p_le_q7.
Qed.

Lemma K2_of l : p ^+ l.+1 * (1 + kap) <= p ^+ l * q ^+ 7.
Proof. by rewrite exprSr -mulrA ler_wpmul2l ?exprn_ge0. Qed.

Local Notation mst := (@mstep R fo hc).
Local Notation mse := (@mstep_err R F fo eadd emul 0 eps nrm hc).
Local Notation mlp := (@mloop R F fo eadd emul 0 eps nrm hc).

Lemma step_head l vh v err :
  (l < n)%N -> erelc (p ^+ l.+1) vh v err ->
  erelc (p ^+ l) (mst l.+1 vh) (step xo h s l.+1 v) (mse l.+1 vh err).
Proof.
move=> ln r; rewrite /mstep /step /mstep_err.
have [evl0 hl] := erelc_nth l.+1 r.
apply: (@compress_head (p ^+ l.+1) (p ^+ l) (fun i => hc i l) (coef xo h s l.+1) _ _ (@nthe F 0 err l.+1)) => //;
  try exact: exprn_ge0.
- exact: K1_of.
- exact: K2_of.
- by move=> j; exact: copy_coef.
- exact: copy_sub.
Qed.

Lemma loop_head l vh v err :
  (l <= n)%N -> erelc (p ^+ l) vh v err ->
  let st := mlp l (vh, err) in erelc 1 st.1 (loop xo h s l v) st.2.
Proof.
elim: l vh v err => [|l IH] vh v err ln r /=; first by rewrite expr0 in r.
by apply: IH; [exact: ltnW | exact: step_head].
Qed.

(* initial vector and initial error vector *)
Lemma init_head l i k :
  (l < n)%N ->
  let v0 := mkvec (fun i => hc i l) i k in
  erelc (p ^+ l) v0 (mkvec (coef xo h s l.+1) i k) (@minit_err R F emul eps nrm v0).
Proof.
move=> ln; elim: k i => [|k IH] i /=; first by constructor.
constructor; last exact: IH.
  by apply: lb_ge0 (lb_mul (lb_nrm _) (lb_refl eps_ge0)).
apply: le_trans (copy_coef l i) _.
have [_ L] := lb_mul (lb_nrm (hc i l)) (lb_refl eps_ge0).
apply: le_trans (ler_wpmul2l (exprn_ge0 l p_ge0) L).
have -> : p ^+ l * (q ^+ (1 + 0).+1 * (N (hc i l) * eps)) = (p ^+ l * q ^+ 2 * eps) * N (hc i l) by ring.
apply: ler_wpmul2r; first exact: rm_N_ge0.
apply: le_trans (_ : em + kap <= _); first by rewrite ler_addr rm_em_ge0.
apply: le_trans (K1_of ln) _; rewrite ler_wpmul2r // ler_wpmul2l ?exprn_ge0 //.
have -> : 7%N = (5 + 2)%N by [].
by rewrite exprD -{2}[q ^+ 2]mul1r ler_wpmul2r ?exprn_ge0 // exprn_ile1.
Qed.

End HeadSound.

(* ---- on the C storage, every order n = m+1 ---------------------------------------------------------- *)
Theorem mhess_head_sound (R : comRingType) (F : numDomainType) (M : round_model R F)
        (fset : R -> R) (is0 : R -> bool) (eadd emul : F -> F -> F) (nrm : R -> F) (eps kap q p : F)
        (Hl : seq R) (m : nat) (s : R) :
  (forall x, rm_N M (fset x - x) <= rm_es M * rm_N M x) ->
  (forall z, is0 z -> z = 0) ->
  0 <= eps -> 0 <= kap -> 0 <= q -> q <= 1 -> 0 <= p ->
  (forall x y, 0 <= x -> 0 <= y -> q * (x + y) <= eadd x y) ->
  (forall x y, 0 <= x -> 0 <= y -> q * (x * y) <= emul x y) ->
  (forall z, q * rm_N M z <= nrm z) ->
  rm_es M <= kap * (1 - rm_es M) ->
  p * (1 + kap) <= q ^+ 7 ->
  rm_em M + kap <= p ^+ m.+1 * eps ->
  let r := @mhess_head R F (flops M) fset is0 eadd emul 0 eps nrm Hl m.+1 s in
  rm_N M (r.1 - hess_rec (rops R) Hl m.+1 s) <= r.2.
Proof.
move=> hset h0 e0 k0 q0 q1 p0 ha hm hn hes hpq hb /=.
rewrite /mhess_head /mhess_head_acc /hess_rec.
set h := elem (flops M) Hl m.+1.
have E : forall i j, elem (rops R) Hl m.+1 i j = h i j by move=> i j; rewrite /h /elem nthd_flops.
rewrite (@hess_rec_acc_ext _ (rops R) (elem (rops R) Hl m.+1) h E) /hess_rec_acc /init_vec /=.
have I := init_head hset h0 e0 k0 q0 q1 p0 hm hn hes hpq h s hb 0 m.+1 (ltnSn m).
have L := loop_head hset h0 e0 k0 q0 q1 p0 ha hm hn hes hpq h s hb (leqnSn m) I.
move: L => /= L.
by have [_] := erelc_nth 0 L; rewrite mul1r.
Qed.

(* ---- explicit drift parameters: every bound operation loses at most a factor (1 - d) -------------------
   q = 1 - d, p = 1 - 8 d:   p (1 + kap) <= 1 - 7 d <= q^7  when kap <= d,  and  p^n >= 1 - 8 n d.
   rdpe_t: d = 2^-49 covers rdpe_add / rdpe_mul (one binary64 rounding each) and mpc_rmod (truncation to a
   double mantissa, two squarings, a sum and a square root); then any n <= 2^45 leaves half of eps. *)
Section Delta.

Variable F : numDomainType.

Lemma bernoulli_sub (d : F) (k : nat) : 0 <= d -> d <= 1 -> 1 - k%:R * d <= (1 - d) ^+ k.
Proof.
move=> d0 d1; elim: k => [|k IH]; first by rewrite mul0r subr0 expr0.
have x0 : 0 <= 1 - d by rewrite subr_ge0.
rewrite exprS; apply: le_trans _ (ler_wpmul2l x0 IH).
rewrite -subr_ge0.
have -> : (1 - d) * (1 - k%:R * d) - (1 - k.+1%:R * d) = k%:R * d ^+ 2 by rewrite -addn1 natrD; ring.
by rewrite mulr_ge0 ?ler0n ?exprn_ge0.
Qed.

End Delta.

Theorem mhess_head_sound_delta (R : comRingType) (F : numDomainType) (M : round_model R F)
        (fset : R -> R) (is0 : R -> bool) (eadd emul : F -> F -> F) (nrm : R -> F) (eps kap d : F)
        (Hl : seq R) (m : nat) (s : R) :
  (forall x, rm_N M (fset x - x) <= rm_es M * rm_N M x) ->
  (forall z, is0 z -> z = 0) ->
  0 <= eps -> 0 <= kap -> kap <= d -> 8%:R * m.+1%:R * d <= 1 ->
  (forall x y, 0 <= x -> 0 <= y -> (1 - d) * (x + y) <= eadd x y) ->
  (forall x y, 0 <= x -> 0 <= y -> (1 - d) * (x * y) <= emul x y) ->
  (forall z, (1 - d) * rm_N M z <= nrm z) ->
  rm_es M <= kap * (1 - rm_es M) ->
  rm_em M + kap <= (1 - 8%:R * m.+1%:R * d) * eps ->
  let r := @mhess_head R F (flops M) fset is0 eadd emul 0 eps nrm Hl m.+1 s in
  rm_N M (r.1 - hess_rec (rops R) Hl m.+1 s) <= r.2.
Proof.
move=> hset h0 e0 k0 kd nd ha hm hn hes hb.
have d0 : 0 <= d by exact: le_trans k0 kd.
have d8 : 8%:R * d <= 1.
  apply: le_trans nd; rewrite -mulrA ler_wpmul2l ?ler0n //.
  by rewrite -{1}[d]mul1r ler_wpmul2r // ler1n.
have d1 : d <= 1.
  by apply: le_trans d8; rewrite -{1}[d]mul1r ler_wpmul2r // ler1n.
have q0 : 0 <= 1 - d by rewrite subr_ge0.
have q1 : 1 - d <= 1 by rewrite ler_subl_addr ler_addl.
have p0 : 0 <= 1 - 8%:R * d by rewrite subr_ge0.
have d80 : 0 <= 8%:R * d by rewrite mulr_ge0 // ler0n.
apply: (@mhess_head_sound R F M fset is0 eadd emul nrm eps kap (1 - d) (1 - 8%:R * d)) => //.
- apply: le_trans (_ : 1 - 7%:R * d <= _); last exact: bernoulli_sub.
  rewrite -subr_ge0.
  have -> : 1 - 7%:R * d - (1 - 8%:R * d) * (1 + kap) = (d - kap) + 8%:R * d * kap by ring.
  by rewrite addr_ge0 ?subr_ge0 // mulr_ge0.
- apply: le_trans hb _; apply: ler_wpmul2r => //.
  have -> : 8%:R * m.+1%:R * d = m.+1%:R * (8%:R * d) by rewrite mulrAC mulrC mulrA.
  exact: bernoulli_sub.
Qed.

(* ---- the hypotheses are satisfiable by operations that do round ------------------------------------- *)
Section InstanceHead.

Lemma toy2_fset_err (x : int) : `|x - x| <= 0 * `|x|.
Proof. by rewrite subrr normr0 mul0r. Qed.

Definition L3h : seq int := [:: 2; 3; 5; 7; 11; 13; 0; 17; 19].

(* exact copy and subtraction, products off by a factor 2 (em = 1, es = 0), eps = 1, exact bound arithmetic:
   shifted by 1 the function returns (704, 4877) on the 3 x 3 example whose exact value is 176; with shift 0
   (the mpc_set branch of the copy) (688, 5682), exact value 172 *)
Lemma toy_head_values :
  (@mhess_head int int (flops toy_model2) id (fun z => z == 0) +%R *%R 0 1 (fun x => `|x|) L3h 3 1 = (704, 4877))
  * (hess_rec (rops _) L3h 3 1 = 176)
  * (@mhess_head int int (flops toy_model2) id (fun z => z == 0) +%R *%R 0 1 (fun x => `|x|) L3h 3 0 = (688, 5682))
  * (hess_rec (rops _) L3h 3 0 = 172).
Proof. by []. Qed.

End InstanceHead.
