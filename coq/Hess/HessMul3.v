(* C20 -- the rounding constant of mpc_mul (src/libmps/floating-point/mpc.c) DERIVED from the
   truncating standard model of mpf arithmetic.

   mpc_mul (rc, c1, c2), c1 = a + ib, c2 = c + id, is the 3-multiplication sequence

       s1 = a - b;  s2 = c + d;  s1 = s1 * s2;  s2 = a * d;  s3 = b * c;
       Re rc = (s1 - s2) + s3;   Im rc = s2 + s3

   every mpf operation being rounded.  GMP's mpf operations truncate: with [rnd] the rounding of one
   operation,   |rnd t - t| <= u |t|   and   |rnd t| <= |t|   (no exponent overflow).  Then

       |Re rc - (ac - bd)| <= u (5 |a-b||c+d| + 3 |ad| + 2 |bc|),   |Im rc - (ad + bc)| <= 2 u (|ad| + |bc|)

   and normwise   |mpc_mul x y - x y| <= 14 u |x| |y|   (sqrt 173 < 14).  Together with the componentwise
   mpc_sub (es = u) this is a HessApriori.round_model with em = 14 u, theta <= (1+u)^16:
   the constant C = 16 of the m variant's a-priori bound. *)
From mathcomp Require Import all_ssreflect all_algebra.
From mathcomp Require Import complex.
From mathcomp Require Import ring.
Require Import MPSV.Hess.HessModel MPSV.Hess.HessDet MPSV.Hess.HessApriori MPSV.Hess.HessStd.

Set Implicit Arguments.
Unset Strict Implicit.
Unset Printing Implicit Defensive.
Import GRing.Theory Num.Theory Order.Theory.
Local Open Scope ring_scope.
Local Open Scope complex_scope.

Section TruncReal.

Variable R : rcfType.
Variables (u : R) (rnd : R -> R).
Hypothesis u_ge0 : 0 <= u.
Hypothesis rnd_err : forall t, `|rnd t - t| <= u * `|t|.
Hypothesis rnd_le : forall t, `|rnd t| <= `|t|.

(* rnd (rnd X * rnd Y) *)
Lemma trunc_prod2 (X Y : R) : `|rnd (rnd X * rnd Y) - X * Y| <= u * (3%:R * (`|X| * `|Y|)).
Proof.
set s1 := rnd X; set s2 := rnd Y.
have -> : rnd (s1 * s2) - X * Y = (rnd (s1 * s2) - s1 * s2) + ((s1 - X) * s2 + X * (s2 - Y)) by ring.
apply: le_trans (ler_norm_add _ _) _.
have -> : u * (3%:R * (`|X| * `|Y|)) = u * (`|X| * `|Y|) + ((u * `|X|) * `|Y| + `|X| * (u * `|Y|)) by ring.
apply: ler_add.
  apply: le_trans (rnd_err _) _; rewrite ler_wpmul2l // normrM.
  by apply: ler_pmul => //; exact: rnd_le.
apply: le_trans (ler_norm_add _ _) _; rewrite !normrM; apply: ler_add.
  by apply: ler_pmul => //; [exact: rnd_err | exact: rnd_le].
by apply: ler_wpmul2l => //; exact: rnd_err.
Qed.

Lemma trunc_prod2_le (X Y : R) : `|rnd (rnd X * rnd Y)| <= `|X| * `|Y|.
Proof.
apply: le_trans (rnd_le _) _; rewrite normrM.
by apply: ler_pmul => //; exact: rnd_le.
Qed.

Lemma norm_sub_le (x y bx by_ : R) : `|x| <= bx -> `|y| <= by_ -> `|x - y| <= bx + by_.
Proof. by move=> hx hy; apply: le_trans (ler_norm_sub _ _) _; exact: ler_add. Qed.

Lemma norm_add_le (x y bx by_ : R) : `|x| <= bx -> `|y| <= by_ -> `|x + y| <= bx + by_.
Proof. by move=> hx hy; apply: le_trans (ler_norm_add _ _) _; exact: ler_add. Qed.

(* real part of mpc_mul *)
Lemma mul3_re (a b c d : R) :
  `|rnd (rnd (rnd (rnd (a - b) * rnd (c + d)) - rnd (a * d)) + rnd (b * c)) - (a * c - b * d)|
  <= u * (5%:R * (`|a - b| * `|c + d|) + 3%:R * `|a * d| + 2%:R * `|b * c|).
Proof.
set P := `|a - b| * `|c + d|.
set p1 := rnd (rnd (a - b) * rnd (c + d)); set p2 := rnd (a * d); set p3 := rnd (b * c).
set r1 := rnd (p1 - p2).
have Hp1 : `|p1| <= P by exact: trunc_prod2_le.
have Hp2 : `|p2| <= `|a * d| by exact: rnd_le.
have Hp3 : `|p3| <= `|b * c| by exact: rnd_le.
have H12 : `|p1 - p2| <= P + `|a * d| by exact: norm_sub_le.
have Hr1 : `|r1| <= P + `|a * d| by exact: le_trans (rnd_le _) H12.
have E1 : `|p1 - (a - b) * (c + d)| <= u * (3%:R * P) by exact: trunc_prod2.
have E2 : `|p2 - a * d| <= u * `|a * d| by exact: rnd_err.
have E3 : `|p3 - b * c| <= u * `|b * c| by exact: rnd_err.
have E4 : `|r1 - (p1 - p2)| <= u * (P + `|a * d|).
  by apply: le_trans (rnd_err _) _; rewrite ler_wpmul2l.
have E5 : `|rnd (r1 + p3) - (r1 + p3)| <= u * (P + `|a * d| + `|b * c|).
  by apply: le_trans (rnd_err _) _; rewrite ler_wpmul2l //; exact: norm_add_le.
have -> : rnd (r1 + p3) - (a * c - b * d)
  = (rnd (r1 + p3) - (r1 + p3)) + (r1 - (p1 - p2)) + (p1 - (a - b) * (c + d)) - (p2 - a * d) + (p3 - b * c).
  by ring.
have -> : u * (5%:R * P + 3%:R * `|a * d| + 2%:R * `|b * c|)
  = u * (P + `|a * d| + `|b * c|) + u * (P + `|a * d|) + u * (3%:R * P) + u * `|a * d| + u * `|b * c|.
  by ring.
apply: norm_add_le => //; apply: norm_sub_le => //; apply: norm_add_le => //; exact: norm_add_le.
Qed.

(* imaginary part of mpc_mul *)
Lemma mul3_im (a b c d : R) :
  `|rnd (rnd (a * d) + rnd (b * c)) - (a * d + b * c)| <= u * (2%:R * (`|a * d| + `|b * c|)).
Proof.
set p2 := rnd (a * d); set p3 := rnd (b * c).
have Hp2 : `|p2| <= `|a * d| by exact: rnd_le.
have Hp3 : `|p3| <= `|b * c| by exact: rnd_le.
have E2 : `|p2 - a * d| <= u * `|a * d| by exact: rnd_err.
have E3 : `|p3 - b * c| <= u * `|b * c| by exact: rnd_err.
have E5 : `|rnd (p2 + p3) - (p2 + p3)| <= u * (`|a * d| + `|b * c|).
  by apply: le_trans (rnd_err _) _; rewrite ler_wpmul2l //; exact: norm_add_le.
have -> : rnd (p2 + p3) - (a * d + b * c) = (rnd (p2 + p3) - (p2 + p3)) + (p2 - a * d) + (p3 - b * c) by ring.
have -> : u * (2%:R * (`|a * d| + `|b * c|)) = u * (`|a * d| + `|b * c|) + u * `|a * d| + u * `|b * c| by ring.
by apply: norm_add_le => //; exact: norm_add_le.
Qed.

(* the real inequality behind the normwise constant 14 *)
Lemma mul3_core (a b c d dr di : R) :
  `|dr| <= u * (5%:R * (`|a - b| * `|c + d|) + 3%:R * `|a * d| + 2%:R * `|b * c|) ->
  `|di| <= u * (2%:R * (`|a * d| + `|b * c|)) ->
  dr ^+ 2 + di ^+ 2 <= (14%:R * u) ^+ 2 * ((a * c - b * d) ^+ 2 + (a * d + b * c) ^+ 2).
Proof.
move=> hr hi.
set A := `|a|; set B := `|b|; set C := `|c|; set D := `|d|.
have A0 : 0 <= A by exact: normr_ge0. have B0 : 0 <= B by exact: normr_ge0.
have C0 : 0 <= C by exact: normr_ge0. have D0 : 0 <= D by exact: normr_ge0.
have sq (x : R) : `|x| ^+ 2 = x ^+ 2 by rewrite real_normK // num_real.
pose S := A * C + B * D; pose T := A * D + B * C.
have S0 : 0 <= S by rewrite addr_ge0 // mulr_ge0.
have T0 : 0 <= T by rewrite addr_ge0 // mulr_ge0.
have E : (a * c - b * d) ^+ 2 + (a * d + b * c) ^+ 2 = (A ^+ 2 + B ^+ 2) * (C ^+ 2 + D ^+ 2).
  by rewrite /A /B /C /D !sq; ring.
have hr' : `|dr| <= u * (5%:R * S + 8%:R * T).
  apply: le_trans hr _; rewrite ler_wpmul2l //.
  have P1 : `|a - b| * `|c + d| <= S + T.
    have -> : S + T = (A + B) * (C + D) by rewrite /S /T; ring.
    apply: ler_pmul => //; [exact: ler_norm_sub | exact: ler_norm_add].
  have P2 : 3%:R * `|a * d| + 2%:R * `|b * c| <= 3%:R * T.
    rewrite !normrM -/A -/B -/C -/D /T mulrDr ler_add2l.
    by apply: ler_wpmul2r; rewrite ?mulr_ge0 // ler_nat.
  have -> : 5%:R * S + 8%:R * T = 5%:R * (S + T) + 3%:R * T by ring.
  by rewrite -addrA; apply: ler_add => //; rewrite ler_wpmul2l // ler0n.
have hi' : `|di| <= u * (2%:R * T) by rewrite /T /A /B /C /D -!normrM.
have h1 : dr ^+ 2 <= (u * (5%:R * S + 8%:R * T)) ^+ 2.
  rewrite -(sq dr) ler_sqr ?nnegrE ?normr_ge0 //.
  by rewrite mulr_ge0 // addr_ge0 // mulr_ge0 // ler0n.
have h2 : di ^+ 2 <= (u * (2%:R * T)) ^+ 2.
  rewrite -(sq di) ler_sqr ?nnegrE ?normr_ge0 //.
  by rewrite mulr_ge0 // mulr_ge0 // ler0n.
apply: le_trans (ler_add h1 h2) _.
rewrite E -subr_ge0.
have -> : (14%:R * u) ^+ 2 * ((A ^+ 2 + B ^+ 2) * (C ^+ 2 + D ^+ 2))
          - ((u * (5%:R * S + 8%:R * T)) ^+ 2 + (u * (2%:R * T)) ^+ 2)
  = u ^+ 2 * (65%:R * (A * D - B * C) ^+ 2 + 108%:R * (A * C - B * D) ^+ 2 + 40%:R * (S - T) ^+ 2
              + 23%:R * ((A ^+ 2 + B ^+ 2) * (C ^+ 2 + D ^+ 2))).
  by rewrite /S /T; ring.
rewrite mulr_ge0 ?sqr_ge0 // !addr_ge0 // mulr_ge0 ?ler0n ?sqr_ge0 //.
by rewrite mulr_ge0 // addr_ge0 // sqr_ge0.
Qed.

(* Bernoulli: 1 + k u <= (1 + u)^k *)
Lemma bernoulli (k : nat) : 1 + k%:R * u <= (1 + u) ^+ k.
Proof.
elim: k => [|k IH]; first by rewrite mul0r addr0 expr0.
rewrite exprS.
apply: le_trans (_ : (1 + u) * (1 + k%:R * u) <= _); last first.
  by rewrite ler_wpmul2l // addr_ge0 // ler01.
rewrite -subr_ge0.
have -> : (1 + u) * (1 + k%:R * u) - (1 + k.+1%:R * u) = k%:R * u ^+ 2 by rewrite -addn1 natrD; ring.
by rewrite mulr_ge0 ?ler0n ?sqr_ge0.
Qed.

End TruncReal.

Section MpcOps.

Variable R : rcfType.
Variables (u : R) (rnd : R -> R).
Hypothesis u_ge0 : 0 <= u.
Hypothesis rnd_err : forall t, `|rnd t - t| <= u * `|t|.
Hypothesis rnd_le : forall t, `|rnd t| <= `|t|.

Local Notation C := R[i].
Local Notation re := (@complex.Re R).
Local Notation im := (@complex.Im R).

(* mpc_mul: the sequence of mpf operations of mpc.c, each rounded by [rnd] *)
Definition mpc_fmul (x y : C) : C :=
  let s1 := rnd (re x - im x) in
  let s2 := rnd (re y + im y) in
  let s1' := rnd (s1 * s2) in
  let s2' := rnd (re x * im y) in
  let s3 := rnd (im x * re y) in
  rnd (rnd (s1' - s2') + s3) +i* rnd (s2' + s3).

Definition em3 : R := 14%:R * u.

Lemma em3_ge0 : 0 <= em3.
Proof. by rewrite /em3 mulr_ge0 // ler0n. Qed.

Theorem mpc_fmul_err (x y : C) : `|mpc_fmul x y - x * y| <= em3%:C * (`|x| * `|y|).
Proof.
rewrite -normrM; apply: normc_le; first exact: em3_ge0.
case: x y => [a b] [c d] /=.
by apply: mul3_core => //; [exact: mul3_re | exact: mul3_im].
Qed.

(* mpc_sub is componentwise: HessStd.cfsub with the same rnd, es = u *)
Definition mpc_model : round_model [comRingType of C] [numDomainType of C] :=
  @RoundModel [comRingType of C] [numDomainType of C] (fun x => `|x|) (cfsub rnd) mpc_fmul em3%:C u%:C
    (normr0 _) (@normr_ge0 _ _) (@normrN _ _) (@ler_norm_add _ _)
    (@cNM R) (real_ge0c em3_ge0) (real_ge0c u_ge0) mpc_fmul_err (cfsub_err u_ge0 rnd_err).

Lemma mpc_model_es : rm_es mpc_model <= u%:C.
Proof. by []. Qed.

Lemma mpc_model_em : rm_em mpc_model <= (1 + u%:C) ^+ 14 - 1.
Proof.
rewrite /= -[1 : C]/(1%:C) -rmorphD -rmorphX -rmorphB lecR /em3 ler_subr_addl.
exact: bernoulli.
Qed.

(* the a-priori bound of the m variant's recurrence with the DERIVED constant 16 = 14 + 2 *)
Theorem mhess_apriori_mul3 (Hl Al : seq C) (m : nat) (s sa : C) :
  (forall k, `|nth 0 Hl k| <= nth 0 Al k) -> `|s| <= sa ->
  `|hess_rec (flops mpc_model) Hl m.+1 s - hess_rec (rops _) Hl m.+1 s|
  <= ((1 + u) ^+ (16 * m.+1) - 1)%:C * hess_rec (aops _) Al m.+1 sa.
Proof.
move=> hA hs.
have := @hess_apriori_pow _ _ mpc_model u%:C 14 (real_ge0c u_ge0) mpc_model_es mpc_model_em Hl Al m s sa hA hs.
by rewrite /= -[1 : C]/(1%:C) -rmorphD -rmorphX -rmorphB.
Qed.

End MpcOps.
