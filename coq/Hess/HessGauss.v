(* C20 -- executable instances of the model over stdlib Z (extracted):
   Gaussian integers for the exact determinant, non-negative integers for the
   recurrence on moduli ("classical rounding bound": every minus becomes a plus). *)
Require Import ZArith Lia.
Require Import MPSV.Hess.HessModel.

Local Open Scope Z_scope.

Definition GI : Type := (Z * Z)%type.

Definition gadd (a b : GI) : GI := (fst a + fst b, snd a + snd b).
Definition gopp (a : GI) : GI := (- fst a, - snd a).
Definition gsub (a b : GI) : GI := (fst a - fst b, snd a - snd b).
Definition gmul (a b : GI) : GI :=
  (fst a * fst b - snd a * snd b, fst a * snd b + snd a * fst b).
Definition g0 : GI := (0, 0).
Definition g1 : GI := (1, 0).

Definition gops : ops GI := Ops g0 gsub gmul.

(* exact value of the recurrence (= determinant of H - s.I, HessTie.v) *)
Definition hess_det_gauss (rows : list (list GI)) (n : nat) (s : GI) : GI := hess_rec_rows gops rows n s.

(* what mps_dhessenberg_shifted_determinant computes as coded, exactly *)
Definition dhess_coded_gauss (rows : list (list GI)) (n : nat) (s : GI) : GI :=
  dhess_rec_coded_rows gops rows n s.

(* the recurrence on moduli *)
Definition absops : ops Z := Ops 0 Z.add Z.mul.
Definition hess_bound (A : list (list Z)) (n : nat) (sa : Z) : Z := hess_rec_rows absops A n sa.

(* integer upper bound of |z| * 2^k *)
Definition modup (k : Z) (z : GI) : Z :=
  let q := fst z * fst z + snd z * snd z in
  if q =? 0 then 0 else Z.sqrt (q * 4 ^ k) + 1.

Fixpoint map_modup (k : Z) (l : list GI) : list Z :=
  match l with nil => nil | cons z t => cons (modup k z) (map_modup k t) end.

Fixpoint map_map_modup (k : Z) (l : list (list GI)) : list (list Z) :=
  match l with nil => nil | cons r t => cons (map_modup k r) (map_map_modup k t) end.

Definition hess_bound_gauss (k : Z) (rows : list (list GI)) (n : nat) (s : GI) : Z :=
  hess_bound (map_map_modup k rows) n (modup k s).

Lemma modup_nonneg k z : 0 <= modup k z.
Proof.
unfold modup; destruct (_ =? 0) eqn:E; [lia|].
pose proof (Z.sqrt_nonneg ((fst z * fst z + snd z * snd z) * 4 ^ k)); lia.
Qed.

(* (modup k z)^2 >= |z|^2 * 4^k : modup k z is an upper bound of |z| * 2^k *)
Lemma modup_sound k z :
  0 <= k -> (fst z * fst z + snd z * snd z) * 4 ^ k <= modup k z * modup k z.
Proof.
intros Hk; unfold modup.
set (q := fst z * fst z + snd z * snd z).
destruct (q =? 0) eqn:E.
- apply Z.eqb_eq in E; rewrite E; lia.
- assert (Hq : 0 <= q * 4 ^ k).
  { apply Z.mul_nonneg_nonneg; [unfold q; nia | apply Z.pow_nonneg; lia]. }
  pose proof (Z.sqrt_spec _ Hq) as S. simpl in S. nia.
Qed.
