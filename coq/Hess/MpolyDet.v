(* C20 -- what mps_monomial_matrix_poly_meval evaluates (MathComp): the determinant of P_0 - x.I, P_0 the
   coefficient of degree 0, NOT det (P (x)); and the index guard of set_coefficient_d lets the memmove leave
   the array. *)
From mathcomp Require Import all_ssreflect all_algebra.
Require Import MPSV.Hess.HessModel MPSV.Hess.HessDet MPSV.Hess.MpolyModel MPSV.Hess.MpolyList.

Set Implicit Arguments.
Unset Strict Implicit.
Unset Printing Implicit Defensive.
Import GRing.Theory.
Local Open Scope ring_scope.

Lemma firstnE (T : Type) n (l : seq T) : List.firstn n l = take n l.
Proof. by elim: n l => [|n IH] [|x l] //=; rewrite IH. Qed.

Section MpolyDet.

Variable R : comRingType.

(* the value the function computes in exact arithmetic: the recurrence on the array mP with order m *)
Definition mpoly_meval_exact (m : nat) (s : mstore R) (x : R) : R := hess_rec (rops R) (st_mP s) m x.

(* the k-th coefficient of the matrix polynomial held in the double store *)
Definition coeff_mx (m : nat) (P : seq R) (k : nat) : 'M[R]_m := \matrix_(i, j) nth 0 P (m * m * k + i * m + j).

Lemma block_index m (i j : 'I_m) : (i * m + j < m * m)%N.
Proof.
apply: (@leq_trans (i.+1 * m)%N); last by rewrite leq_mul2r ltn_ord orbT.
by rewrite mulSn [(m + _)%N]addnC ltn_add2l.
Qed.

Theorem mpoly_meval_is_det deg m' (s0 s' : mstore R) (calls : seq (nat * seq R)) (x : R) bound :
  let m := m'.+1 in
  @wf R deg m s0 -> @mats_ok R m calls -> calls <> [::] ->
  run_calls (set_coeff_with bound deg m) s0 calls = Some s' ->
  upper_hessenberg (coeff_mx m (st_P s') 0) ->
  mpoly_meval_exact m s' x = \det (coeff_mx m (st_P s') 0 - x%:M).
Proof.
move=> m W Hc Hn Hr uh.
have [_ B] := @run_calls_block R deg m bound s0 calls s' (ssrnat.ltP (ltn0Sn m')) W Hc Hn Hr.
apply: hess_rec_is_det => // i j.
rewrite mxE muln0 add0n.
have lt := block_index i j.
by rewrite -(nth_take 0 lt) -firstnE B firstnE nth_take.
Qed.

End MpolyDet.

(* ---- refutations (witnesses replayed through the public API by checks/C20.py) --------------------------- *)

(* m = 2, degree 1: the index i = 2 passes the guard (2 <= degree * m) and the memmove writes the 4 entries
   8..11 of an array of 8 *)
Theorem mpoly_set_coeff_guard_refuted :
  exists (deg m i : nat) (s : mstore int) (mat : seq int),
    [/\ (1 <= m)%N, @wf int deg m s, size mat = (m * m)%N
      & set_coefficient_d_coded deg m s i mat = SetOverflow].
Proof.
exists 1%N, 2%N, 2%N, (MStore (nseq 8 0) (nseq 8 0)), (nseq 4 1).
by split.
Qed.

(* P (x) = [1] + [1] x at x = 1: the function's value is det (P_0 - x) = 0, the documented det (P (1)) is 2 *)
Theorem mpoly_meval_not_matrix_polynomial_refuted :
  exists (deg m : nat) (s0 s' : mstore int) (calls : seq (nat * seq int)) (x : int),
    [/\ @wf int deg m s0, @mats_ok int m calls,
        run_calls (set_coefficient_d_coded deg m) s0 calls = Some s'
      & mpoly_meval_exact m s' x <> \det (\sum_(k < deg.+1) x ^+ k *: coeff_mx m (st_P s') k)].
Proof.
exists 1%N, 1%N, (MStore [:: 7; 7] [:: 0; 0]), (MStore [:: 1; 1] [:: 1; 0]), [:: (0%N, [:: 1]); (1%N, [:: 1])], 1.
split=> //; first by do !constructor.
rewrite big_ord_recl big_ord1 det_mx11 !mxE /=.
by rewrite /mpoly_meval_exact /hess_rec /hess_rec_acc /=.
Qed.
