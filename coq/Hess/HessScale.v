(* C20 -- the power-of-two rescaling of the double variant keeps mantissa * 2^exponent,
   the DPE variant as coded is refuted, non-vacuity examples (MathComp). *)
From mathcomp Require Import all_ssreflect all_algebra.
Require Import MPSV.Hess.HessModel MPSV.Hess.HessDet.

Set Implicit Arguments.
Unset Strict Implicit.
Unset Printing Implicit Defensive.
Import GRing.Theory.
Local Open Scope ring_scope.

Section Scale.

Variable F : fieldType.
Hypothesis two_neq0 : (2%:R : F) != 0.

(* vec[j] /= 2^k *)
Definition fscale (k : int) (v : F) : F := v / 2%:R ^ k.

Let o := rops F.

Lemma map_scaleE k (vec : seq F) :
  map_scale fscale k vec = [seq v * (2%:R ^ k)^-1 | v <- vec].
Proof. by elim: vec => [|v vec IH] //=; rewrite IH. Qed.

Lemma compress_lin a vl c i k (vec : seq F) x :
  compress o a (vl * x) c i k [seq v * x | v <- vec]
  = [seq v * x | v <- compress o a vl c i k vec].
Proof.
elim: k i vec => [|k IH] i [|v vec] //=; rewrite IH; congr cons.
by rewrite mulrBl mulrA -!mulrA [x * c]mulrC.
Qed.

Lemma nthd_lin x (vec : seq F) l : nthd o [seq v * x | v <- vec] l = nthd o vec l * x.
Proof. by elim: vec l => [|v vec IH] [|l] //=; rewrite mul0r. Qed.

Lemma step_lin h s l (vec : seq F) x :
  step o h s l [seq v * x | v <- vec] = [seq v * x | v <- step o h s l vec].
Proof. by rewrite /step nthd_lin compress_lin. Qed.

Lemma loop_lin h s l (vec : seq F) x :
  loop o h s l [seq v * x | v <- vec] = [seq v * x | v <- loop o h s l vec].
Proof. by elim: l vec => [|l IH] vec //=; rewrite step_lin IH. Qed.

Lemma loop_scaled_spec pol h s l (st : seq F * int) :
  let st' := loop_scaled o +%R fscale pol h s l st in
  st'.1 = [seq v * (2%:R ^ (st'.2 - st.2))^-1 | v <- loop o h s l st.1].
Proof.
elim: l st => [|l IH] [vec a] /=.
  by rewrite subrr expr0z invr1; elim: vec => [|v vec {1}->] //=; rewrite mulr1.
rewrite IH /= map_scaleE loop_lin -map_comp; apply: eq_map => v /=.
rewrite -mulrA -invfM -expfzDr //; congr (_ * (_ ^ _)^-1).
set k := pol _ _; move: (loop_scaled _ _ _ _ _ _ _ _).2 => a'.
by rewrite [a + k]addrC opprD !addrA [k + a']addrC addrK.
Qed.

(* mantissa * 2^exponent of the returned pair = the unscaled recurrence, whatever the
   rescaling policy *)
Theorem fhess_scaled_value pol Hl n s :
  let r := fhess_scaled o +%R fscale pol 0 Hl n s in
  r.1 * 2%:R ^ r.2 = hess_rec o Hl n s.
Proof.
rewrite /fhess_scaled /hess_rec /hess_rec_acc /=.
have := loop_scaled_spec pol (elem o Hl n) s n.-1 (init_vec o (elem o Hl n) n s, 0).
move: (loop_scaled _ _ _ _ _ _ _ _) => [vec e] /= ->.
by rewrite nthd_lin subr0 mulfVK // expfz_neq0.
Qed.

Theorem fhess_scaled_is_det pol m (H : 'M[F]_m.+1) Hl s :
  upper_hessenberg H -> row_major Hl H ->
  let r := fhess_scaled o +%R fscale pol 0 Hl m.+1 s in
  r.1 * 2%:R ^ r.2 = \det (H - s%:M).
Proof. by move=> uh rm; rewrite /= fhess_scaled_value (hess_rec_is_det s uh rm). Qed.

End Scale.

(* ---- the DPE variant as coded ------------------------------------------------ *)

Section Refute.

Local Notation Z := int.

Definition H1 : 'M[Z]_1 := const_mx 1.

Lemma H1_ok : upper_hessenberg H1 /\ row_major [:: 1] H1.
Proof.
split; first by move=> i j; rewrite !ord1.
by move=> i j; rewrite !ord1 mxE.
Qed.

Theorem dhess_index_refuted :
  exists (m : nat) (H : 'M[Z]_m.+1) (Hl : seq Z) (s : Z),
    [/\ upper_hessenberg H, row_major Hl H
      & dhess_rec_coded (rops _) Hl m.+1 s <> \det (H - s%:M)].
Proof.
exists 0%N, H1, [:: 1], 1; split; try by case: H1_ok.
by rewrite det_mx11 !mxE.
Qed.

Theorem dhess_fixed_is_det (R : comRingType) m (H : 'M[R]_m.+1) Hl s :
  upper_hessenberg H -> row_major Hl H ->
  dhess_rec_fixed (rops R) Hl m.+1 s = \det (H - s%:M).
Proof. exact: hess_rec_is_det. Qed.

(* ---- a concrete 3 x 3 instance -------------------------------------------- *)

Definition L3 : seq Z := [:: 2; 3; 5; 7; 11; 13; 0; 17; 19].
Definition H3 : 'M[Z]_3 := \matrix_(i, j) nth 0 L3 (i * 3 + j).

Lemma H3_ok : upper_hessenberg H3 /\ row_major L3 H3.
Proof.
split; last by move=> i j; rewrite mxE.
by move=> [[|[|[|i]]] hi] [[|[|[|j]]] hj] //= _; rewrite mxE.
Qed.

Lemma H3_rec : hess_rec (rops _) L3 3 1 = 176.
Proof. by []. Qed.

Lemma H3_det : \det (H3 - 1%:M) = 176.
Proof. by case: H3_ok => uh rm; rewrite -(hess_rec_is_det 1 uh rm). Qed.

(* on the same instance the as-coded DPE variant returns something else *)
Lemma H3_dcoded : dhess_rec_coded (rops _) L3 3 1 = 165.
Proof. by []. Qed.

End Refute.
