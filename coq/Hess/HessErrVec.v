(* C20 -- the error vector of mps_mhessenberg_shifted_determinant dominates the actual error
   (MathComp), in the same normwise rounding model as HessApriori.v, with the bound
   arithmetic (rdpe_t in the code) idealised as exact arithmetic in F.

   Hypotheses beyond the rounding model:
     em <= eps,  es <= eps * (1 - es)      (eps = 2^(1-wp) in the code; the real unit roundoff of the
                                            mpf operations is below 2^-(wp+64))
     the shifted diagonal entries H[i,i] - s are formed exactly
   The last one is needed: the code copies matrix[i][i] = H[i,i] - shift with a rounded mpc_sub and
   starts from verrors = 0, so that rounding is not covered by the returned bound (for n = 1 the
   returned bound is 0). *)
From mathcomp Require Import all_ssreflect all_algebra.
From mathcomp Require Import ring.
Require Import MPSV.Hess.HessModel MPSV.Hess.HessDet MPSV.Hess.HessApriori.

Set Implicit Arguments.
Unset Strict Implicit.
Unset Printing Implicit Defensive.
Import GRing.Theory Num.Theory Order.Theory.
Local Open Scope ring_scope.

Section ErrVecSound.

Variables (R : comRingType) (F : numDomainType) (M : round_model R F) (eps : F).

Local Notation N := (rm_N M).
Local Notation fsub := (rm_fsub M).
Local Notation fmul := (rm_fmul M).
Local Notation em := (rm_em M).
Local Notation es := (rm_es M).
Local Notation fo := (flops M).
Local Notation xo := (rops R).

Hypothesis eps_ge0 : 0 <= eps.
Hypothesis em_eps : em <= eps.
Hypothesis es_eps : es <= eps * (1 - es).

Local Notation cerr := (@compress_err R F fo +%R *%R eps N).
Local Notation serr := (@step_err R F fo +%R *%R 0 eps N).
Local Notation lerr := (@loop_err R F fo +%R *%R 0 eps N).

Lemma entry_sound a vlh vl el xh x e c :
  N (vlh - vl) + N vlh * eps <= el -> N (xh - x) <= e ->
  N (fsub (fmul a vlh) (fmul xh c) - (a * vl - x * c))
  <= e + N (fsub (fmul a vlh) (fmul xh c)) * eps + N a * el + (N xh * eps + e) * N c.
Proof.
move=> hl hx.
set sh := fmul a vlh; set th := fmul xh c; set nh := fsub sh th.
have e0 : 0 <= e by exact: le_trans (rm_N_ge0 M _) hx.
have -> : nh - (a * vl - x * c)
   = (nh - (sh - th)) + ((sh - a * vlh) + a * (vlh - vl)) - ((th - xh * c) + (xh - x) * c) by ring.
apply: le_trans (NB M _ _) _.
have E1 : N (nh - (sh - th)) <= N nh * eps.
  have X : N (nh - (sh - th)) <= es * N (sh - th) by exact: rm_fsub_err.
  have Y : N (sh - th) <= N nh + es * N (sh - th).
    have T : N (nh - (nh - (sh - th))) <= N nh + N (nh - (sh - th)) by exact: NB.
    have Eq : nh - (nh - (sh - th)) = sh - th by ring.
    by rewrite Eq in T; apply: le_trans T _; rewrite ler_add2l.
  apply: le_trans X _.
  have S1 : es * N (sh - th) <= eps * (1 - es) * N (sh - th).
    by apply: ler_wpmul2r es_eps; exact: rm_N_ge0.
  have S2 : eps * (1 - es) * N (sh - th) = eps * (N (sh - th) - es * N (sh - th)) by ring.
  have S3 : N (sh - th) - es * N (sh - th) <= N nh by rewrite ler_subl_addr.
  have S4 := ler_wpmul2l eps_ge0 S3.
  by rewrite [N nh * eps]mulrC; apply: le_trans S1 _; rewrite S2.
have E2 : N (sh - a * vlh + a * (vlh - vl)) <= N a * el.
  apply: le_trans (rm_ND M _ _) _.
  apply: le_trans (ler_add (rm_fmul_err M _ _) (rm_NM M _ _)) _.
  apply: le_trans _ (ler_wpmul2l (rm_N_ge0 M a) hl).
  have -> : N a * (N (vlh - vl) + N vlh * eps) = eps * (N a * N vlh) + N a * N (vlh - vl) by ring.
  rewrite ler_add2r; apply: ler_wpmul2r em_eps.
  by rewrite mulr_ge0 // rm_N_ge0.
have E3 : N (th - xh * c + (xh - x) * c) <= (N xh * eps + e) * N c.
  apply: le_trans (rm_ND M _ _) _.
  apply: le_trans (ler_add (rm_fmul_err M _ _) (rm_NM M _ _)) _.
  have -> : (N xh * eps + e) * N c = eps * (N xh * N c) + e * N c by ring.
  apply: ler_add; last by rewrite ler_wpmul2r // rm_N_ge0.
  apply: ler_wpmul2r em_eps.
  by rewrite mulr_ge0 // rm_N_ge0.
have T1 := le_trans (rm_ND M _ _) (ler_add E1 E2).
apply: le_trans (ler_add T1 E3) _.
by rewrite -!addrA ler_addr.
Qed.

Inductive erel : seq R -> seq R -> seq F -> Prop :=
| ENil : erel [::] [::] [::]
| ECons xh x e vh v err : N (xh - x) <= e -> erel vh v err -> erel (xh :: vh) (x :: v) (e :: err).

Lemma erel_nth vh v err l :
  erel vh v err -> N (nthd fo vh l - nthd xo v l) <= @nthe F 0 err l.
Proof.
by move=> r; elim: r l => [|xh x e vh' v' err' hx _ IH] [|l] //=; rewrite subrr rm_N0.
Qed.

Lemma compress_sound (a : nat -> R) vlh vl el c i k vh v err :
  N (vlh - vl) + N vlh * eps <= el -> erel vh v err ->
  erel (compress fo a vlh c i k vh) (compress xo a vl c i k v) (cerr a vlh c el i k vh err).
Proof.
move=> hl r; elim: r i k => [|xh x e vh' v' err' hx _ IH] i [|k] /=; try by constructor.
constructor; last exact: IH.
exact: entry_sound.
Qed.

Variables (h : nat -> nat -> R) (s : R).
Hypothesis shift_exact : forall i, fsub (h i i) s = h i i - s.

Lemma coef_exact l i : coef fo h s l i = coef xo h s l i.
Proof. by rewrite /coef; case: (Nat.eqb _ _) => //=; exact: shift_exact. Qed.

Lemma step_sound l vh v err :
  erel vh v err ->
  erel (step fo h s l vh) (step xo h s l v) (serr h s l vh err).
Proof.
move=> r; rewrite /step /step_err.
rewrite (@compress_ext _ xo (coef xo h s l) (coef fo h s l)); last by move=> j; rewrite coef_exact.
apply: compress_sound => //.
by rewrite ler_add2r; exact: erel_nth.
Qed.

Lemma loop_sound l vh v err :
  erel vh v err ->
  let st := lerr h s l (vh, err) in
  st.1 = loop fo h s l vh /\ erel st.1 (loop xo h s l v) st.2.
Proof.
elim: l vh v err => [|l IH] vh v err r //=.
exact: (IH _ _ _ (step_sound l.+1 r)).
Qed.

Lemma init_sound n i k :
  erel (mkvec (coef fo h s n) i k) (mkvec (coef xo h s n) i k) (mkvec (fun _ => 0) i k).
Proof.
by elim: k i => [|k IH] i /=; constructor => //; rewrite coef_exact subrr rm_N0.
Qed.

End ErrVecSound.

(* on the C storage *)
Theorem mhess_error_sound (R : comRingType) (F : numDomainType) (M : round_model R F) (eps : F)
        (Hl : seq R) (n : nat) (s : R) :
  0 <= eps -> rm_em M <= eps -> rm_es M <= eps * (1 - rm_es M) ->
  (forall i, rm_fsub M (elem (rops R) Hl n i i) s = elem (rops R) Hl n i i - s) ->
  let r := @mhess_rec R F (flops M) +%R *%R 0 eps (rm_N M) Hl n s in
  r.1 = hess_rec (flops M) Hl n s /\
  rm_N M (r.1 - hess_rec (rops R) Hl n s) <= r.2.
Proof.
move=> e0 hem hes hex /=.
have E : forall i j, elem (flops M) Hl n i j = elem (rops R) Hl n i j.
  by move=> i j; rewrite /elem nthd_flops.
have hex' : forall i, rm_fsub M (elem (flops M) Hl n i i) s = elem (flops M) Hl n i i - s.
  by move=> i; rewrite E.
rewrite /hess_rec -(@hess_rec_acc_ext _ (rops R) (elem (flops M) Hl n) (elem (rops R) Hl n) E).
rewrite /mhess_rec /hess_rec_acc /init_vec.
have [H1 H2] := loop_sound e0 hem hes hex' n.-1 (init_sound hex' n 0 n).
split; first by rewrite H1.
exact: (erel_nth 0 H2).
Qed.

(* ---- the hypotheses are satisfiable: exact subtraction, product off by a factor 2 ----- *)
Section Instance2.

Definition toy2_fsub (x y : int) : int := x - y.

Lemma toy2_fsub_err (x y : int) : `|toy2_fsub x y - (x - y)| <= 0 * `|x - y|.
Proof. by rewrite /toy2_fsub subrr normr0 mul0r. Qed.

Definition toy_model2 : round_model int_comRing int_numDomainType :=
  @RoundModel int_comRing int_numDomainType (fun x => `|x|) toy2_fsub toy_fmul 1 0
    (normr0 _) (@normr_ge0 _ _) (@normrN _ _) (@ler_norm_add _ _)
    toy_NM ler01 (lexx 0) toy_fmul_err toy2_fsub_err.

Definition L3e : seq int := [:: 2; 3; 5; 7; 11; 13; 0; 17; 19].

Lemma toy2_values :
  @mhess_rec int int (flops toy_model2) +%R *%R 0 1 (fun x => `|x|) L3e 3 1 = (704, 3311).
Proof. by []. Qed.

End Instance2.
