(* C20 -- model of src/libmps/matrix/hessenberg-determinant.c  (definitions only).

   Plain Gallina, no library imported: the same definitions are
     * instantiated with a MathComp comRingType in HessDet.v (proof that the
       recurrence is the determinant of H - s.I),
     * instantiated with floating operations satisfying a standard rounding
       model in HessApriori.v,
     * instantiated with Gaussian integers over stdlib Z in HessGauss.v and
       extracted (exact oracle of the correspondence check).

   The C code (f variant; the d and m variants have the same arithmetic):

     for (i = 0; i < n; i++) vec[i] = H[i*n + (n-1)];          (last column)
     vec[n-1] -= shift;
     while (local_n-- > 1) {                                     (l = n-1 .. 1)
        for (i = 0; i < l-1; i++)
           vec[i] = H[i,l-1] * vec[l]  -  vec[i] * H[l,l-1];
        vec[l-1] = (H[l-1,l-1] - shift) * vec[l]  -  vec[l-1] * H[l,l-1];
        [ f variant, when (l-1) % 50 == 0:  vec[0..l) /= 2^e ; *acc += e ]
     }
     output = vec[0]
*)

Section Model.

Variable A : Type.

(* the operations the recurrence uses; [o0] only serves as the default of
   out-of-range reads (never reached for well-sized inputs) *)
Record ops : Type := Ops { o0 : A; osub : A -> A -> A; omul : A -> A -> A }.

Variable o : ops.

Fixpoint nthd (l : list A) (i : nat) {struct l} : A :=
  match l with
  | nil => o0 o
  | cons x t => match i with O => x | S j => nthd t j end
  end.

(* MPS_MATRIX_ELEM (M, i, j, n) = M[(i) * (n) + (j)] : row major storage, the
   accessor of the C code *)
Definition elem (H : list A) (n i j : nat) : A := nthd H (i * n + j).

(* the same matrix given as the list of its rows (used by the extracted oracle:
   with unary indices i * n + j costs O(n^2) per access) *)
Fixpoint nth_row (rows : list (list A)) (i : nat) {struct rows} : list A :=
  match rows with
  | nil => nil
  | cons r t => match i with O => r | S j => nth_row t j end
  end.
Definition elem_rows (rows : list (list A)) (i j : nat) : A := nthd (nth_row rows i) j.

(* The recurrence below is written over an accessor [h i j] of the matrix entries
   ([elem H n] for the C storage). *)

(* coefficient multiplying vec[l] in row i when column l-1 is merged into the
   compressed column: H[i,l-1], with the shift subtracted on the diagonal
   (i = l-1: "the last step require the extra accounting for the shifted case") *)
Definition coef (h : nat -> nat -> A) (s : A) (l i : nat) : A :=
  if Nat.eqb (S i) l then osub o (h i i) s else h i (pred l).

(* rows i, i+1, ... (k of them) of  a(i) * vl - vec[i] * c *)
Fixpoint compress (a : nat -> A) (vl c : A) (i k : nat) (vec : list A) {struct k} : list A :=
  match k, vec with
  | S k', cons v vec' =>
      cons (osub o (omul o (a i) vl) (omul o v c)) (compress a vl c (S i) k' vec')
  | _, _ => nil
  end.

(* one iteration of the while loop, local_n = l (after the decrement), l >= 1 *)
Definition step (h : nat -> nat -> A) (s : A) (l : nat) (vec : list A) : list A :=
  compress (coef h s l) (nthd vec l) (h l (pred l)) 0 l vec.

Fixpoint loop (h : nat -> nat -> A) (s : A) (l : nat) (vec : list A) {struct l} : list A :=
  match l with
  | O => vec
  | S l' => loop h s l' (step h s l vec)
  end.

Fixpoint mkvec (f : nat -> A) (i k : nat) {struct k} : list A :=
  match k with O => nil | S k' => cons (f i) (mkvec f (S i) k') end.

(* vec[i] = H[i,n-1]; vec[n-1] -= shift  (f and m variants) *)
Definition init_vec (h : nat -> nat -> A) (n : nat) (s : A) : list A := mkvec (coef h s n) 0 n.

(* mps_fhessenberg_shifted_determinant without the rescaling (exact arithmetic),
   = the arithmetic of mps_mhessenberg_shifted_determinant *)
Definition hess_rec_acc (h : nat -> nat -> A) (n : nat) (s : A) : A :=
  nthd (loop h s (pred n) (init_vec h n s)) 0.

Definition hess_rec (H : list A) (n : nat) (s : A) : A := hess_rec_acc (elem H n) n s.
Definition hess_rec_rows (rows : list (list A)) (n : nat) (s : A) : A := hess_rec_acc (elem_rows rows) n s.

(* mps_dhessenberg_shifted_determinant AS CODED:  cdpe_sub_eq (vec[n], shift)
   writes one element past the n-vector and leaves vec[n-1] = H[n-1,n-1] unshifted *)
Definition init_vec_dcoded (h : nat -> nat -> A) (n : nat) : list A :=
  mkvec (fun i => h i (pred n)) 0 n.

Definition dhess_rec_coded_acc (h : nat -> nat -> A) (n : nat) (s : A) : A :=
  nthd (loop h s (pred n) (init_vec_dcoded h n)) 0.

Definition dhess_rec_coded (H : list A) (n : nat) (s : A) : A := dhess_rec_coded_acc (elem H n) n s.
Definition dhess_rec_coded_rows (rows : list (list A)) (n : nat) (s : A) : A :=
  dhess_rec_coded_acc (elem_rows rows) n s.

(* ... and with the index repaired (vec[n-1]) it is the f variant's recurrence *)
Definition dhess_rec_fixed (H : list A) (n : nat) (s : A) : A := hess_rec H n s.

(* ---- power-of-two rescaling of the double variant ------------------------
   after the step with local_n = l the code may divide vec[0..l) by 2^k and
   add k to the accumulated exponent.  [K] is the type of exponents, [scale k v]
   stands for v / 2^k, [pol l vec] is the exponent chosen after step l (in the
   code: frexp of the largest modulus when (l-1) % 50 == 0, else no rescaling,
   i.e. 0).  The theorem about it holds for every policy. *)
Variable K : Type.
Variable kadd : K -> K -> K.
Variable scale : K -> A -> A.

Fixpoint map_scale (k : K) (vec : list A) : list A :=
  match vec with nil => nil | cons v t => cons (scale k v) (map_scale k t) end.

Definition rescale (k : K) (st : list A * K) : list A * K :=
  (map_scale k (fst st), kadd (snd st) k).

Fixpoint loop_scaled (pol : nat -> list A -> K) (h : nat -> nat -> A) (s : A) (l : nat)
         (st : list A * K) {struct l} : list A * K :=
  match l with
  | O => st
  | S l' =>
      let v := step h s l (fst st) in
      loop_scaled pol h s l' (rescale (pol l v) (v, snd st))
  end.

(* (mantissa, exponent) pair returned by mps_fhessenberg_shifted_determinant *)
Definition fhess_scaled (pol : nat -> list A -> K) (k0 : K) (H : list A) (n : nat) (s : A) : A * K :=
  let st := loop_scaled pol (elem H n) s (pred n) (init_vec (elem H n) n s, k0) in
  (nthd (fst st) 0, snd st).

End Model.

Arguments Ops {A}.
Arguments o0 {A}.
Arguments osub {A}.
Arguments omul {A}.
Arguments nthd {A}.
Arguments elem {A}.
Arguments nth_row {A}.
Arguments elem_rows {A}.
Arguments hess_rec_acc {A}.
Arguments hess_rec_rows {A}.
Arguments dhess_rec_coded_acc {A}.
Arguments dhess_rec_coded_rows {A}.
Arguments coef {A}.
Arguments compress {A}.
Arguments step {A}.
Arguments loop {A}.
Arguments mkvec {A}.
Arguments init_vec {A}.
Arguments hess_rec {A}.
Arguments init_vec_dcoded {A}.
Arguments dhess_rec_coded {A}.
Arguments dhess_rec_fixed {A}.
Arguments map_scale {A K}.
Arguments rescale {A K}.
Arguments loop_scaled {A} o {K}.
Arguments fhess_scaled {A} o {K}.

(* ---- error vector of mps_mhessenberg_shifted_determinant -----------------
   values in A, error bounds in E (the code: rdpe_t).  [nrm] stands for mpc_rmod,
   [eps] for 2^(1-wp).  One iteration, local_n = l, on (column l of the working
   matrix = vec, verrors):

     verrors[l] += |vec[l]| * eps
     for i < l:  err_a = |a_i| * verrors[l]
                 err_b = (|vec[i]| * eps + verrors[i]) * |c|
                 new_i = a_i * vec[l] - vec[i] * c
                 verrors[i] += |new_i| * eps + err_a + err_b                      *)
Section ErrVec.

Variable A E : Type.
Variable o : ops A.
Variable eadd emul : E -> E -> E.
Variable e0 eps : E.
Variable nrm : A -> E.

Fixpoint nthe (l : list E) (i : nat) {struct l} : E :=
  match l with nil => e0 | cons x t => match i with O => x | S j => nthe t j end end.

Fixpoint compress_err (a : nat -> A) (vl c : A) (el : E) (i k : nat)
         (vec : list A) (err : list E) {struct k} : list E :=
  match k, vec, err with
  | S k', cons v vec', cons e err' =>
      let err_a := emul (nrm (a i)) el in
      let err_b := emul (eadd (emul (nrm v) eps) e) (nrm c) in
      let new := osub o (omul o (a i) vl) (omul o v c) in
      cons (eadd (eadd (eadd e (emul (nrm new) eps)) err_a) err_b)
           (compress_err a vl c el (S i) k' vec' err')
  | _, _, _ => nil
  end.

Definition step_err (h : nat -> nat -> A) (s : A) (l : nat) (vec : list A) (err : list E) : list E :=
  let vl := nthd o vec l in
  let el := eadd (nthe err l) (emul (nrm vl) eps) in
  compress_err (coef o h s l) vl (h l (pred l)) el 0 l vec err.

Fixpoint loop_err (h : nat -> nat -> A) (s : A) (l : nat) (st : list A * list E) {struct l}
  : list A * list E :=
  match l with
  | O => st
  | S l' => loop_err h s l' (step o h s l (fst st), step_err h s l (fst st) (snd st))
  end.

(* (output, error) of mps_mhessenberg_shifted_determinant *)
Definition mhess_rec (H : list A) (n : nat) (s : A) : A * E :=
  let h := elem o H n in
  let st := loop_err h s (pred n) (init_vec o h n s, mkvec (fun _ => e0) 0 n) in
  (nthd o (fst st) 0, nthe (snd st) 0).

End ErrVec.
