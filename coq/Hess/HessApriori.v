(* C20 -- a-priori rounding bound of the Hessenberg determinant recurrence (MathComp).

   Values live in a commutative ring R, sizes in an ordered domain F; [N : R -> F] is a
   submultiplicative norm (the complex modulus in the application).  The floating
   operations [fsub], [fmul] satisfy the standard model, normwise:

       N (fmul x y - x * y)   <= em * (N x * N y)
       N (fsub x y - (x - y)) <= es * N (x - y)

   (double: es = u, em = sqrt 2 * gamma_2; DPE the same with u = 2^-52; mpc_mul's
   3-multiplication product: em <= gamma_14).  Then, with theta = (1+es)^2 (1+em),

       N (computed - exact) <= ((1+es) theta^(n-1) - 1) * B

   where B is the same recurrence run on upper bounds of the moduli with every minus
   replaced by a plus.  No underflow/overflow is part of the model (assumption). *)
From mathcomp Require Import all_ssreflect all_algebra.
From mathcomp Require Import ring.
Require Import MPSV.Hess.HessModel MPSV.Hess.HessDet.

Set Implicit Arguments.
Unset Strict Implicit.
Unset Printing Implicit Defensive.
Import GRing.Theory Num.Theory Order.Theory.
Local Open Scope ring_scope.

Record round_model (R : comRingType) (F : numDomainType) : Type := RoundModel {
  rm_N : R -> F;
  rm_fsub : R -> R -> R;
  rm_fmul : R -> R -> R;
  rm_em : F;
  rm_es : F;
  rm_N0 : rm_N 0 = 0;
  rm_N_ge0 : forall x, 0 <= rm_N x;
  rm_NN : forall x, rm_N (- x) = rm_N x;
  rm_ND : forall x y, rm_N (x + y) <= rm_N x + rm_N y;
  rm_NM : forall x y, rm_N (x * y) <= rm_N x * rm_N y;
  rm_em_ge0 : 0 <= rm_em;
  rm_es_ge0 : 0 <= rm_es;
  rm_fmul_err : forall x y, rm_N (rm_fmul x y - x * y) <= rm_em * (rm_N x * rm_N y);
  rm_fsub_err : forall x y, rm_N (rm_fsub x y - (x - y)) <= rm_es * rm_N (x - y)
}.

Section Apriori.

Variables (R : comRingType) (F : numDomainType) (M : round_model R F).

Local Notation N := (rm_N M).
Local Notation fsub := (rm_fsub M).
Local Notation fmul := (rm_fmul M).
Local Notation em := (rm_em M).
Local Notation es := (rm_es M).

(* the recurrence with the rounded operations *)
Definition flops : ops R := Ops 0 fsub fmul.
(* the recurrence on moduli: minus becomes plus *)
Definition aops : ops F := Ops 0 +%R *%R.
Local Notation xops := (rops R).

Definition theta : F := (1 + es) ^+ 2 * (1 + em).

Lemma es1_ge1 : 1 <= 1 + es. Proof. by rewrite ler_addl rm_es_ge0. Qed.
Lemma em1_ge1 : 1 <= 1 + em. Proof. by rewrite ler_addl rm_em_ge0. Qed.
Lemma es1_ge0 : 0 <= 1 + es. Proof. exact: le_trans ler01 es1_ge1. Qed.
Lemma em1_ge0 : 0 <= 1 + em. Proof. exact: le_trans ler01 em1_ge1. Qed.

Lemma mul_ge1 (x y : F) : 1 <= x -> 1 <= y -> 1 <= x * y.
Proof.
move=> x1 y1; have -> : (1 : F) = 1 * 1 by rewrite mulr1.
by apply: ler_pmul.
Qed.

Lemma NB x y : N (x - y) <= N x + N y.
Proof. by rewrite -[N y]rm_NN; exact: rm_ND. Qed.

(* x^ approximates x with relative factor rho against the majorant b *)
Definition rel (rho : F) (xh x : R) (b : F) : Prop :=
  N x <= b /\ N (xh - x) <= (rho - 1) * b.

Lemma rel_b_ge0 rho xh x b : rel rho xh x b -> 0 <= b.
Proof. by case=> xb _; exact: le_trans (rm_N_ge0 M x) xb. Qed.

Lemma rel_hat rho xh x b : rel rho xh x b -> N xh <= rho * b.
Proof.
case=> xb eb; have -> : xh = (xh - x) + x by ring.
apply: le_trans (rm_ND M _ _) _.
have -> : rho * b = (rho - 1) * b + b by ring.
exact: ler_add.
Qed.

Lemma rel_mono rho rho' xh x b : rho <= rho' -> rel rho xh x b -> rel rho' xh x b.
Proof.
move=> rr [xb eb]; split=> //; apply: le_trans eb _.
by rewrite ler_wpmul2r ?ler_sub // (le_trans (rm_N_ge0 M x) xb).
Qed.

Lemma rel_exact x b : N x <= b -> rel 1 x x b.
Proof. by move=> xb; split=> //; rewrite subrr rm_N0 subrr mul0r. Qed.

Lemma rel_zero rho : rel rho 0 0 0.
Proof. by split; rewrite ?subrr rm_N0 ?mulr0. Qed.

Lemma rel_mul r1 r2 xh x bx yh y by_ :
  1 <= r1 -> 1 <= r2 -> rel r1 xh x bx -> rel r2 yh y by_ ->
  rel ((1 + em) * (r1 * r2)) (fmul xh yh) (x * y) (bx * by_).
Proof.
move=> r1_1 r2_1 rx ry.
have bx0 := rel_b_ge0 rx; have by0 := rel_b_ge0 ry.
have r10 : 0 <= r1 by exact: le_trans ler01 r1_1.
have r20 : 0 <= r2 by exact: le_trans ler01 r2_1.
have hx := rel_hat rx; have hy := rel_hat ry.
case: rx => xb ex; case: ry => yb ey.
split.
  apply: le_trans (rm_NM M _ _) _.
  by apply: ler_pmul => //; exact: rm_N_ge0.
have -> : fmul xh yh - x * y = (fmul xh yh - xh * yh) + ((xh - x) * yh + x * (yh - y)).
  by ring.
apply: le_trans (rm_ND M _ _) _.
have -> : ((1 + em) * (r1 * r2) - 1) * (bx * by_)
          = em * ((r1 * bx) * (r2 * by_)) + (((r1 - 1) * bx) * (r2 * by_) + bx * ((r2 - 1) * by_)).
  by ring.
apply: ler_add.
  apply: le_trans (rm_fmul_err M _ _) _.
  rewrite ler_wpmul2l ?rm_em_ge0 //.
  by apply: ler_pmul => //; exact: rm_N_ge0.
apply: le_trans (rm_ND M _ _) _; apply: ler_add.
  apply: le_trans (rm_NM M _ _) _; apply: ler_pmul => //; exact: rm_N_ge0.
apply: le_trans (rm_NM M _ _) _; apply: ler_pmul => //; exact: rm_N_ge0.
Qed.

Lemma rel_sub rho r1 r2 xh x bx yh y by_ :
  1 <= rho -> r1 <= rho -> r2 <= rho -> rel r1 xh x bx -> rel r2 yh y by_ ->
  rel ((1 + es) * rho) (fsub xh yh) (x - y) (bx + by_).
Proof.
move=> rho1 r1r r2r /(rel_mono r1r) rx /(rel_mono r2r) ry.
have bx0 := rel_b_ge0 rx; have by0 := rel_b_ge0 ry.
have hx := rel_hat rx; have hy := rel_hat ry.
case: rx => xb ex; case: ry => yb ey.
split; first by apply: le_trans (NB _ _) _; exact: ler_add.
have -> : fsub xh yh - (x - y) = (fsub xh yh - (xh - yh)) + ((xh - x) - (yh - y)).
  by ring.
apply: le_trans (rm_ND M _ _) _.
have -> : ((1 + es) * rho - 1) * (bx + by_)
          = es * (rho * bx + rho * by_) + ((rho - 1) * bx + (rho - 1) * by_).
  by ring.
apply: ler_add.
  apply: le_trans (rm_fsub_err M _ _) _.
  rewrite ler_wpmul2l ?rm_es_ge0 //.
  by apply: le_trans (NB _ _) _; exact: ler_add.
by apply: le_trans (NB _ _) _; exact: ler_add.
Qed.

(* ---- vectors ------------------------------------------------------------------ *)

Inductive rel_vec (rho : F) : seq R -> seq R -> seq F -> Prop :=
| RelNil : rel_vec rho [::] [::] [::]
| RelCons xh x b vh v bs : rel rho xh x b -> rel_vec rho vh v bs ->
                           rel_vec rho (xh :: vh) (x :: v) (b :: bs).

Lemma rel_vec_nthd rho vh v bs l :
  rel_vec rho vh v bs -> rel rho (nthd flops vh l) (nthd xops v l) (nthd aops bs l).
Proof.
move=> rv; elim: rv l => [|xh x b vh' v' bs' r _ IH] [|l] //=; exact: rel_zero.
Qed.

Section Step.

Variables (h : nat -> nat -> R) (a : nat -> nat -> F) (s : R) (sa : F).
Hypothesis ha : forall i j, N (h i j) <= a i j.
Hypothesis hsa : N s <= sa.

Lemma coef_rel l i :
  rel (1 + es) (coef flops h s l i) (coef xops h s l i) (coef aops a sa l i).
Proof.
rewrite /coef; case: (Nat.eqb _ _) => /=.
  rewrite -[1 + es]mulr1.
  by apply: (@rel_sub 1 1 1) => //; exact: rel_exact.
by apply: rel_mono es1_ge1 _; exact: rel_exact.
Qed.

Lemma theta_ge1 : 1 <= theta.
Proof. by rewrite /theta expr2; do !apply: mul_ge1; rewrite ?es1_ge1 ?em1_ge1. Qed.

Lemma compress_rel rho l vlh vl bl ch c cb i k vh v bs :
  1 <= rho ->
  rel rho vlh vl bl -> rel 1 ch c cb -> rel_vec rho vh v bs ->
  rel_vec (theta * rho)
    (compress flops (coef flops h s l) vlh ch i k vh)
    (compress xops (coef xops h s l) vl c i k v)
    (compress aops (coef aops a sa l) bl cb i k bs).
Proof.
move=> rho1 rl rc rv; elim: rv i k => [|xh x b vh' v' bs' rx _ IH] i [|k] /=; try by constructor.
constructor; last exact: IH.
have r0 : 0 <= rho by exact: le_trans ler01 rho1.
have S := rel_mul es1_ge1 rho1 (coef_rel l i) rl.
have T := rel_mul rho1 (lexx 1) rx rc.
have rr : 1 <= (1 + em) * ((1 + es) * rho).
  by do !apply: mul_ge1; rewrite ?es1_ge1 ?em1_ge1.
have tr : (1 + em) * (rho * 1) <= (1 + em) * ((1 + es) * rho).
  rewrite mulr1 ler_wpmul2l ?em1_ge0 //.
  by rewrite -{1}[rho]mul1r ler_wpmul2r // es1_ge1.
have := rel_sub rr (lexx _) tr S T.
have -> // : (1 + es) * ((1 + em) * ((1 + es) * rho)) = theta * rho.
by rewrite /theta; ring.
Qed.

Lemma step_rel rho l vh v bs :
  1 <= rho -> rel_vec rho vh v bs ->
  rel_vec (theta * rho) (step flops h s l vh) (step xops h s l v) (step aops a sa l bs).
Proof.
move=> rho1 rv; rewrite /step; apply: compress_rel => //; first exact: rel_vec_nthd.
exact: rel_exact.
Qed.

Lemma loop_rel rho l vh v bs :
  1 <= rho -> rel_vec rho vh v bs ->
  rel_vec (theta ^+ l * rho) (loop flops h s l vh) (loop xops h s l v) (loop aops a sa l bs).
Proof.
elim: l rho vh v bs => [|l IH] rho vh v bs rho1 rv /=; first by rewrite expr0 mul1r.
rewrite exprSr -mulrA; apply: IH; last exact: step_rel.
by apply: mul_ge1 => //; exact: theta_ge1.
Qed.

Lemma mkvec_rel l i k :
  rel_vec (1 + es) (mkvec (coef flops h s l) i k) (mkvec (coef xops h s l) i k)
          (mkvec (coef aops a sa l) i k).
Proof. by elim: k i => [|k IH] i /=; constructor => //; exact: coef_rel. Qed.

Theorem hess_apriori_acc n :
  N (hess_rec_acc flops h n s - hess_rec_acc xops h n s)
  <= (theta ^+ n.-1 * (1 + es) - 1) * hess_rec_acc aops a n sa.
Proof.
rewrite /hess_rec_acc.
have rv := loop_rel n.-1 es1_ge1 (mkvec_rel n 0 n).
by case: (rel_vec_nthd 0 rv).
Qed.

(* the bound itself is non-negative and dominates the modulus of the exact value *)
Theorem hess_bound_dominates n :
  N (hess_rec_acc xops h n s) <= hess_rec_acc aops a n sa.
Proof.
rewrite /hess_rec_acc.
have rv := loop_rel n.-1 es1_ge1 (mkvec_rel n 0 n).
by case: (rel_vec_nthd 0 rv).
Qed.

End Step.

End Apriori.

(* the recurrence depends on the accessor only through its values *)
Section Ext.
Variables (A : Type) (o : ops A).

Lemma compress_ext (a a' : nat -> A) vl c i k vec :
  (forall j, a j = a' j) -> compress o a vl c i k vec = compress o a' vl c i k vec.
Proof. by move=> E; elim: k i vec => [|k IH] i [|v vec] //=; rewrite E IH. Qed.

Lemma mkvec_ext (f f' : nat -> A) i k : (forall j, f j = f' j) -> mkvec f i k = mkvec f' i k.
Proof. by move=> E; elim: k i => [|k IH] i //=; rewrite E IH. Qed.

Variables (h h' : nat -> nat -> A).
Hypothesis E : forall i j, h i j = h' i j.

Lemma coef_ext s l i : coef o h s l i = coef o h' s l i.
Proof. by rewrite /coef !E. Qed.

Lemma step_ext s l vec : step o h s l vec = step o h' s l vec.
Proof. by rewrite /step E; apply: compress_ext => j; exact: coef_ext. Qed.

Lemma loop_ext s l vec : loop o h s l vec = loop o h' s l vec.
Proof. by elim: l vec => [|l IH] vec //=; rewrite step_ext IH. Qed.

Lemma hess_rec_acc_ext n s : hess_rec_acc o h n s = hess_rec_acc o h' n s.
Proof.
rewrite /hess_rec_acc /init_vec loop_ext; congr (nthd _ (loop _ _ _ _ _) _).
by apply: mkvec_ext => j; exact: coef_ext.
Qed.

End Ext.

Section AprioriList.

Variables (R : comRingType) (F : numDomainType) (M : round_model R F).
Local Notation N := (rm_N M).

Lemma nthd_flops (l : seq R) i : nthd (flops M) l i = nthd (rops R) l i.
Proof. by elim: l i => [|x t IH] [|i] //=. Qed.

(* on the C storage: Hl the matrix, Al entrywise upper bounds of the moduli *)
Theorem hess_apriori (Hl : seq R) (Al : seq F) (n : nat) (s : R) (sa : F) :
  (forall k, N (nth 0 Hl k) <= nth 0 Al k) -> N s <= sa ->
  N (hess_rec (flops M) Hl n s - hess_rec (rops R) Hl n s)
  <= (theta M ^+ n.-1 * (1 + rm_es M) - 1) * hess_rec (aops F) Al n sa.
Proof.
move=> hA hs; rewrite /hess_rec.
rewrite (@hess_rec_acc_ext _ (flops M) (elem (flops M) Hl n) (elem (rops R) Hl n)); last first.
  by move=> i j; rewrite /elem nthd_flops.
apply: hess_apriori_acc => // i j.
rewrite /elem nthdE.
have -> : nthd (aops F) Al (i * n + j) = nth 0 Al (i * n + j).
  by elim: Al (i * n + j)%N {hA} => [|x t IH] [|k] //=.
exact: hA.
Qed.

End AprioriList.

(* ---- the hypotheses are satisfiable by operations that do round ------------------ *)
Section Instance.

(* R = F = int, N = |.|, "rounded" operations with relative error 1 (em = es = 1) *)
Definition toy_fsub (x y : int) : int := (x - y) + (x - y).
Definition toy_fmul (x y : int) : int := x * y + x * y.

Lemma toy_fmul_err (x y : int) : `|toy_fmul x y - x * y| <= 1 * (`|x| * `|y|).
Proof. by rewrite /toy_fmul addrK mul1r normrM. Qed.

Lemma toy_fsub_err (x y : int) : `|toy_fsub x y - (x - y)| <= 1 * `|x - y|.
Proof. by rewrite /toy_fsub addrK mul1r. Qed.

Lemma toy_NM (x y : int) : `|x * y| <= `|x| * `|y|.
Proof. by rewrite normrM. Qed.

Definition toy_model : round_model int_comRing int_numDomainType :=
  @RoundModel int_comRing int_numDomainType (fun x => `|x|) toy_fsub toy_fmul 1 1
    (normr0 _) (@normr_ge0 _ _) (@normrN _ _) (@ler_norm_add _ _)
    toy_NM ler01 ler01 toy_fmul_err toy_fsub_err.

(* on the 3 x 3 example the rounded recurrence is off, within the bound *)
Definition L3' : seq int := [:: 2; 3; 5; 7; 11; 13; 0; 17; 19].
Lemma toy_values :
  (hess_rec (flops toy_model) L3' 3 1 = 13392) * (hess_rec (rops _) L3' 3 1 = 176)
  * (hess_rec (aops _) L3' 3 1 = 2398) * (theta toy_model ^+ 2 * (1 + 1) - 1 = 127).
Proof. by []. Qed.

End Instance.
