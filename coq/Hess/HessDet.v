(* C20 -- the recurrence of hessenberg-determinant.c is the determinant of H - s.I
   (MathComp).  Proof: the (l+1)x(l+1) matrix whose first l columns are those of
   H - s.I and whose last column is the current vector [vec] has a determinant that
   one loop iteration leaves unchanged (Laplace expansion along the last row, which
   has two non-zero entries because H is upper Hessenberg, then linearity of the
   determinant in the last column). *)
From mathcomp Require Import all_ssreflect all_algebra.
Require Import MPSV.Hess.HessModel.

Set Implicit Arguments.
Unset Strict Implicit.
Unset Printing Implicit Defensive.
Import GRing.Theory.
Local Open Scope ring_scope.

Section Det.

Variable R : comRingType.

Definition rops : ops R := Ops 0 (fun x y => x - y) (fun x y => x * y).

Lemma nthdE (l : seq R) i : nthd rops l i = nth 0 l i.
Proof. by elim: l i => [|x t IH] [|i] //=. Qed.

Lemma size_compress a vl c i k (vec : seq R) :
  size (compress rops a vl c i k vec) = minn k (size vec).
Proof.
elim: k i vec => [|k IH] i [|v vec]; rewrite /= ?min0n ?minn0 //.
by rewrite IH minnSS.
Qed.

Lemma nth_compress a vl c i k (vec : seq R) j :
  (j < k)%N -> (j < size vec)%N ->
  nth 0 (compress rops a vl c i k vec) j = a (i + j)%N * vl - nth 0 vec j * c.
Proof.
elim: k i vec j => [|k IH] i [|v vec] [|j] //=; first by rewrite addn0.
by rewrite !ltnS => jk jv; rewrite IH // addSnnS.
Qed.

Lemma size_mkvec (f : nat -> R) i k : size (mkvec f i k) = k.
Proof. by elim: k i => [|k IH] i //=; rewrite IH. Qed.

Lemma nth_mkvec (f : nat -> R) i k j : (j < k)%N -> nth 0 (mkvec f i k) j = f (i + j)%N.
Proof.
elim: k i j => [|k IH] i [|j] //=; first by rewrite addn0.
by rewrite ltnS => jk; rewrite IH // addSnnS.
Qed.

(* ---- the invariant matrix ------------------------------------------------ *)

Definition Mat (g : nat -> nat -> R) l (vec : seq R) : 'M[R]_(l.+1) :=
  \matrix_(i, j) if (j < l)%N then g i j else nth 0 vec i.

Lemma det_Mat0 g vec : \det (Mat g 0 vec) = nth 0 vec 0.
Proof. by rewrite det_mx11 mxE. Qed.

Lemma det_step g l (vec vec' : seq R) :
  (forall j, (j < l)%N -> g l.+1 j = 0) ->
  (forall i, (i <= l)%N ->
     nth 0 vec' i = g i l * nth 0 vec l.+1 - nth 0 vec i * g l.+1 l) ->
  \det (Mat g l.+1 vec) = \det (Mat g l vec').
Proof.
move=> hess hvec'.
set A := Mat g l.+1 vec.
set A' := Mat g l vec'.
pose om : 'I_l.+2 := ord_max.
pose om1 : 'I_l.+2 := widen_ord (leqnSn l.+1) ord_max.
pose P := row' om (col' om A).
pose Q := row' om (col' om1 A).
have detA' : \det A' = nth 0 vec l.+1 * \det P + (- g l.+1 l) * \det Q.
  rewrite -(det_tr A') -(det_tr P) -(det_tr Q).
  apply: (@determinant_multilinear _ _ A'^T P^T Q^T ord_max).
  - apply/rowP => i; rewrite !mxE /= ltnn /bump.
    have il : (l < i)%N = false by rewrite ltnNge -ltnS ltn_ord.
    rewrite ltnn leqnn il /= !add0n add1n ltnSn ltnn hvec'; last by rewrite -ltnS ltn_ord.
    by rewrite mulNr [g i l * _]mulrC [nth 0 vec i * _]mulrC.
  - apply/matrixP => i j; rewrite !mxE /= /bump.
    have il : (l <= i)%N = false by rewrite leqNgt ltn_ord.
    have jl : (l < j)%N = false by rewrite ltnNge -ltnS ltn_ord.
    have il' : (l < i)%N = false by rewrite ltnNge ltnW // ltn_ord.
    by rewrite il jl /= !add0n il' /= add0n ltn_ord ltnS ltnW // ltn_ord.
  - apply/matrixP => i j; rewrite !mxE /= /bump.
    have il : (l <= i)%N = false by rewrite leqNgt ltn_ord.
    have jl : (l < j)%N = false by rewrite ltnNge -ltnS ltn_ord.
    by rewrite il jl /= !add0n il /= add0n ltn_ord ltnS ltnW // ltn_ord.
rewrite detA' (expand_det_row A om) big_ord_recr big_ord_recr /=.
rewrite big1 ?add0r; last first.
  by move=> i _; rewrite mxE /= (leq_trans (ltn_ord i)) // hess ?mul0r.
rewrite /cofactor !mxE /= ltnSn ltnn -/om -/om1 -/P -/Q.
have -> : (-1) ^+ (l.+1 + l.+1) = 1 :> R by rewrite addnn -signr_odd odd_double.
have -> : (-1) ^+ (l.+1 + l) = -1 :> R by rewrite addSn addnn -signr_odd oddS odd_double.
by rewrite mul1r mulN1r mulrN mulNr addrC.
Qed.

(* ---- the loop ------------------------------------------------------------ *)

Variables (n : nat) (h : nat -> nat -> R) (s : R).

(* entries of H - s.I as read by the code *)
Definition hsf (i j : nat) : R := if i == j then h i i - s else h i j.

Lemma coefE l i : coef rops h s l.+1 i = hsf i l.
Proof.
rewrite /coef /hsf /= -/(Nat.eqb i l).
have -> : Nat.eqb i l = (i == l) by elim: i l => [|i IH] [|l] //=.
by case: eqP => // ->.
Qed.

Lemma elem_sub l : h l.+1 l = hsf l.+1 l.
Proof. by rewrite /hsf -[_ == _]/(l.+1 == l) gtn_eqF. Qed.

Lemma size_step l (vec : seq R) : size vec = l.+1 -> size (step rops h s l vec) = l.
Proof. by move=> sv; rewrite /step size_compress sv; apply/minn_idPl. Qed.

Lemma nth_step l (vec : seq R) i :
  size vec = l.+2 -> (i <= l)%N ->
  nth 0 (step rops h s l.+1 vec) i = hsf i l * nth 0 vec l.+1 - nth 0 vec i * hsf l.+1 l.
Proof.
move=> sv il; rewrite /step nth_compress ?sv ?ltnS // ?(leq_trans il) //.
by rewrite add0n coefE nthdE -elem_sub.
Qed.

Hypothesis hess : forall i j, (j.+1 < i)%N -> (i < n)%N -> hsf i j = 0.

Lemma loop_det l (vec : seq R) :
  (l < n)%N -> size vec = l.+1 ->
  nth 0 (loop rops h s l vec) 0 = \det (Mat hsf l vec).
Proof.
elim: l vec => [|l IH] vec ln sv /=; first by rewrite det_Mat0.
rewrite IH ?size_step //; last exact: ltnW.
symmetry; apply: det_step => [j jl|i il]; first by rewrite hess.
exact: nth_step.
Qed.

End Det.

(* ---- main theorem ---------------------------------------------------------- *)

Section Main.

Variable R : comRingType.

(* H is upper Hessenberg: zero below the first subdiagonal *)
Definition upper_hessenberg m (H : 'M[R]_m) :=
  forall i j : 'I_m, (j.+1 < i)%N -> H i j = 0.

(* the accessor h reads the entries of H *)
Definition reads m (h : nat -> nat -> R) (H : 'M[R]_m) :=
  forall i j : 'I_m, h i j = H i j.

(* Hl is the row-major storage of H (MPS_MATRIX_ELEM) *)
Definition row_major m (Hl : seq R) (H : 'M[R]_m) :=
  forall i j : 'I_m, nth 0 Hl (i * m + j) = H i j.

(* rows is the list of the rows of H *)
Definition rows_of m (rows : seq (seq R)) (H : 'M[R]_m) :=
  forall i j : 'I_m, nth 0 (nth [::] rows i) j = H i j.

Lemma row_major_reads m Hl (H : 'M[R]_m) : row_major Hl H -> reads (elem (rops R) Hl m) H.
Proof. by move=> rm i j; rewrite /elem nthdE; exact: rm. Qed.

Lemma nth_rowE (rows : seq (seq R)) i : nth_row rows i = nth [::] rows i.
Proof. by elim: rows i => [|r t IH] [|i] //=. Qed.

Lemma rows_of_reads m rows (H : 'M[R]_m) : rows_of rows H -> reads (elem_rows (rops R) rows) H.
Proof. by move=> ro i j; rewrite /elem_rows nthdE nth_rowE; exact: ro. Qed.

Definition rowmajor_of m (H : 'M[R]_m) : seq R :=
  mkseq (fun k => if insub (k %/ m)%N is Some i then
                    if insub (k %% m)%N is Some j then H i j else 0 else 0) (m * m).

Lemma rowmajor_ofP m (H : 'M[R]_m) : row_major (rowmajor_of H) H.
Proof.
move=> i j; have m0 : (0 < m)%N by apply: leq_ltn_trans (ltn_ord i).
rewrite nth_mkseq; last first.
  apply: (@leq_trans (i.+1 * m)%N); last by rewrite leq_mul2r ltn_ord orbT.
  by rewrite mulSn [(m + _)%N]addnC ltn_add2l.
rewrite divnMDl // modnMDl divn_small ?ltn_ord // addn0 modn_small ?ltn_ord //.
by rewrite !insubT ?ltn_ord // => p q; congr (H _ _); apply: val_inj.
Qed.

Lemma hsf_mx m (H : 'M[R]_m) h s (i j : 'I_m) :
  reads h H -> hsf h s i j = (H - s%:M) i j.
Proof.
move=> rd; rewrite /hsf !mxE -val_eqE /= !rd.
by case: eqP => [/val_inj->|_]; rewrite ?eqxx ?mulr1n // mulr0n subr0.
Qed.

Lemma hsf_hess m (H : 'M[R]_m.+1) h s :
  upper_hessenberg H -> reads h H ->
  forall i j, (j.+1 < i)%N -> (i < m.+1)%N -> hsf h s i j = 0.
Proof.
move=> uh rd i j ji im.
have jm : (j < m.+1)%N by apply: ltn_trans im; apply: ltn_trans ji.
rewrite (hsf_mx s (Ordinal im) (Ordinal jm) rd) !mxE (uh (Ordinal im) (Ordinal jm) ji) /=.
by rewrite -val_eqE /= gtn_eqF ?mulr0n ?subr0 // (ltn_trans _ ji).
Qed.

Theorem hess_rec_acc_is_det m (H : 'M[R]_m.+1) h (s : R) :
  upper_hessenberg H -> reads h H ->
  hess_rec_acc (rops R) h m.+1 s = \det (H - s%:M).
Proof.
move=> uh rd; rewrite /hess_rec_acc /= nthdE.
rewrite (loop_det (hsf_hess s uh rd)) ?size_mkvec //.
congr (\det _); apply/matrixP => i j; rewrite mxE.
case: ltnP => jm; first exact: hsf_mx.
have jE : j = ord_max by apply: val_inj; apply/eqP; rewrite eqn_leq jm -ltnS ltn_ord.
rewrite nth_mkvec ?ltn_ord // add0n coefE jE; exact: (hsf_mx s i ord_max rd).
Qed.

(* the C storage convention *)
Theorem hess_rec_is_det m (H : 'M[R]_m.+1) (Hl : seq R) (s : R) :
  upper_hessenberg H -> row_major Hl H ->
  hess_rec (rops R) Hl m.+1 s = \det (H - s%:M).
Proof. by move=> uh /row_major_reads rd; exact: hess_rec_acc_is_det. Qed.

(* the list-of-rows twin (extracted oracle) *)
Theorem hess_rec_rows_is_det m (H : 'M[R]_m.+1) (rows : seq (seq R)) (s : R) :
  upper_hessenberg H -> rows_of rows H ->
  hess_rec_rows (rops R) rows m.+1 s = \det (H - s%:M).
Proof. by move=> uh /rows_of_reads rd; exact: hess_rec_acc_is_det. Qed.

(* the DPE variant as coded: shift missing on the last diagonal entry *)
Definition dcoded_mx m (H : 'M[R]_m.+1) (s : R) : 'M[R]_m.+1 :=
  \matrix_(i, j) (H i j - (s *+ ((i == j) && (j != ord_max)))).

Theorem dhess_coded_acc_is_det m (H : 'M[R]_m.+1) h (s : R) :
  upper_hessenberg H -> reads h H ->
  dhess_rec_coded_acc (rops R) h m.+1 s = \det (dcoded_mx H s).
Proof.
move=> uh rd; rewrite /dhess_rec_coded_acc /= nthdE.
rewrite (loop_det (hsf_hess s uh rd)) ?size_mkvec //.
congr (\det _); apply/matrixP => i j; rewrite !mxE.
case: ltnP => jm.
  rewrite (hsf_mx s i j rd) !mxE; congr (_ - _).
  have -> : j != ord_max by rewrite -val_eqE /= ltn_eqF.
  by rewrite andbT.
have jE : j = ord_max by apply: val_inj; apply/eqP; rewrite eqn_leq jm -ltnS ltn_ord.
rewrite nth_mkvec ?ltn_ord // add0n jE /= (rd i ord_max) eqxx andbF.
by rewrite mulr0n subr0.
Qed.

Theorem dhess_coded_is_det m (H : 'M[R]_m.+1) (Hl : seq R) (s : R) :
  upper_hessenberg H -> row_major Hl H ->
  dhess_rec_coded (rops R) Hl m.+1 s = \det (dcoded_mx H s).
Proof. by move=> uh /row_major_reads rd; exact: dhess_coded_acc_is_det. Qed.

Theorem dhess_coded_rows_is_det m (H : 'M[R]_m.+1) (rows : seq (seq R)) (s : R) :
  upper_hessenberg H -> rows_of rows H ->
  dhess_rec_coded_rows (rops R) rows m.+1 s = \det (dcoded_mx H s).
Proof. by move=> uh /rows_of_reads rd; exact: dhess_coded_acc_is_det. Qed.

End Main.
