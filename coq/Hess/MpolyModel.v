(* C20 -- model of the coefficient store of src/libmps/monomial/monomial-matrix-poly.c (definitions only).

   mps_monomial_matrix_poly_new (ctx, degree, m, monic):
       MPS_POLYNOMIAL (poly)->degree = degree * m;      (degree of the SCALAR polynomial det P(x))
       poly->degree = degree;  poly->m = m;
       P  = mps_newv (cplx_t, m * m * (degree + 1))     (not initialised: whatever malloc left)
       mP = mps_newv (mpc_t,  m * m * (degree + 1)); mpc_vinit2 (mP, ..., wp)      (zeros)

   mps_monomial_matrix_poly_set_coefficient_d (ctx, mpoly, i, matrix):
       int degree = poly->degree;                        (!! the scalar degree, degree * m)
       if (i < 0 || i > degree) { mps_error (...); return; }
       ... structure bookkeeping (only floating point coefficients are considered here) ...
       memmove (mpoly->P + (m * m) * i, matrix, sizeof (cplx_t) * (m * m));
       for (j = 0; j < m * m; j++) mpc_set_cplx (mpoly->mP[j], mpoly->P[j]);        (first block only)

   mps_monomial_matrix_poly_meval (ctx, poly, x, value, error):
       (raise_data to the precision of value: mpc_set_prec keeps the values)
       mps_mhessenberg_shifted_determinant (ctx, mpoly->mP, x, mpoly->m, value, error);

   The index i is a nat here (a negative i is rejected by the first test).  mpc_set_cplx is exact (a double
   into an mpf of >= 64 bits): the multiprecision store receives the same values. *)
Require Import List.

Section Mpoly.

Variable A : Type.

Record mstore : Type := MStore { st_P : list A; st_mP : list A }.

Inductive set_result : Type :=
| SetRejected                (* mps_error, nothing written *)
| SetOverflow                (* the memmove runs past the end of the allocated array P *)
| SetOk (s : mstore).

(* memmove (P + off, src, |src|) inside the array *)
Definition overwrite (l : list A) (off : nat) (src : list A) : list A :=
  firstn off l ++ src ++ skipn (off + length src) l.

Definition set_coeff_with (bound : nat) (deg m : nat) (s : mstore) (i : nat) (mat : list A) : set_result :=
  if Nat.ltb bound i then SetRejected
  else if Nat.ltb (m * m * (deg + 1)) (m * m * i + m * m) then SetOverflow
  else let P' := overwrite (st_P s) (m * m * i) mat in
       SetOk (MStore P' (overwrite (st_mP s) 0 (firstn (m * m) P'))).

(* as coded: the guard uses the degree of the scalar polynomial *)
Definition set_coefficient_d_coded (deg m : nat) := set_coeff_with (deg * m) deg m.
(* with fixes/C20_mpoly_coefficient_index.patch: the degree of the matrix polynomial *)
Definition set_coefficient_d_fixed (deg m : nat) := set_coeff_with deg deg m.

(* a sequence of calls; None as soon as one is rejected or overflows *)
Fixpoint run_calls (setc : mstore -> nat -> list A -> set_result) (s : mstore)
         (calls : list (nat * list A)) {struct calls} : option mstore :=
  match calls with
  | nil => Some s
  | (i, mat) :: t => match setc s i mat with SetOk s' => run_calls setc s' t | _ => None end
  end.

(* the coefficient of degree 0 after the calls: the last matrix stored with i = 0, else what was there *)
Fixpoint block0 (b : list A) (calls : list (nat * list A)) {struct calls} : list A :=
  match calls with
  | nil => b
  | (O, mat) :: t => block0 mat t
  | (S _, _) :: t => block0 b t
  end.

End Mpoly.

Arguments MStore {A}.
Arguments st_P {A}.
Arguments st_mP {A}.
Arguments SetRejected {A}.
Arguments SetOverflow {A}.
Arguments SetOk {A}.
Arguments overwrite {A}.
Arguments set_coeff_with {A}.
Arguments set_coefficient_d_coded {A}.
Arguments set_coefficient_d_fixed {A}.
Arguments run_calls {A}.
Arguments block0 {A}.
