(* C20 -- binary64 round-to-nearest satisfies the standard model used by HessStd.v with u = 2^-53,
   for arguments in the normal range (no underflow); overflow is excluded by working with the
   unbounded-exponent format FLT.  (Flocq, stdlib Reals: this file is not linked formally with the
   abstract [rnd] of HessStd.v, whose real field is any MathComp rcfType; it documents that the
   hypothesis of HessStd is the IEEE-754 one.) *)
Require Import Reals ZArith Lia Lra.
From Flocq Require Import Core Relative.

Local Open Scope R_scope.

Definition rnd64 (x : R) : R := round radix2 (FLT_exp (-1074) 53) ZnearestE x.

Lemma b64_standard_model (x : R) :
  bpow radix2 (-1022) <= Rabs x ->
  Rabs (rnd64 x - x) <= bpow radix2 (-53) * Rabs x.
Proof.
intros Hx.
assert (P : (0 < 53)%Z) by lia.
pose proof (@relative_error_N_FLT radix2 (-1074) 53 P (fun z => negb (Z.even z)) x) as H.
replace (-1074 + 53 - 1)%Z with (-1022)%Z in H by lia.
specialize (H Hx).
replace (/ 2 * bpow radix2 (- (53) + 1)) with (bpow radix2 (-53)) in H.
- exact H.
- replace (- (53) + 1)%Z with (-53 + 1)%Z by lia.
  rewrite (bpow_plus radix2 (-53) 1).
  change (bpow radix2 1) with 2.
  generalize (bpow radix2 (-53)); intro b; lra.
Qed.

(* the statement, as a closed proposition that Props/Properties_C20.v (MathComp notations) can quote *)
Definition b64_standard_model_stmt : Prop :=
  forall x : R, bpow radix2 (-1022) <= Rabs x -> Rabs (rnd64 x - x) <= bpow radix2 (-53) * Rabs x.
