(* C20 -- double variant, every order: what the loop of mps_fhessenberg_shifted_determinant holds between two
   rescalings stays below an explicit bound, and the accumulated exponent stays in range (MathComp).

   Model: HessModelF.loop_f / loop_f_tr (the loop with its test `i % 50 == 0`), rounded operations of a
   HessApriori.round_model (no underflow / overflow in the model).  With
       A    >= the moduli of all entries the passes read (the entries, and H[i][i] - shift as computed),
       G    >= max (1, (1+es)(1+em) 2A)      growth of the largest modulus in one pass,
       rho  >= the moduli after a rescaling  (frexp: max < 2^exponent, so rho = 1 + a few ulps),
       Emax >= |exponent| delivered by frexp (1074 for finite doubles),
       V    >= max (A, rho),
   every vector the loop ever holds has all moduli <= V * G^50 (a rescaling happens at l = 1, 51, 101, ...: at
   most 50 passes without one), every accumulated exponent is at most Emax * (n-1) in absolute value, and for
   n >= 2 the returned mantissa has modulus <= rho (the last pass, l = 1, always rescales).
   The period enters through HessPer.mod50_lt / mod50_pred. *)
From mathcomp Require Import all_ssreflect all_algebra.
From mathcomp Require Import ring.
Require Import MPSV.Hess.HessModel MPSV.Hess.HessModelF MPSV.Hess.HessPer MPSV.Hess.HessDet
               MPSV.Hess.HessApriori MPSV.Hess.HessScale.

Set Implicit Arguments.
Unset Strict Implicit.
Unset Printing Implicit Defensive.
Import GRing.Theory Num.Theory Order.Theory.
Local Open Scope ring_scope.

Local Arguments Nat.modulo : simpl never.

Lemma nat_eqbE i j : Nat.eqb i j = (i == j).
Proof. by elim: i j => [|i IH] [|j] //=. Qed.

Section Range.

Variables (R : comRingType) (F : numDomainType) (M : round_model R F).
Variables (scale : int -> R -> R) (ex : seq R -> int).
Variables (h : nat -> nat -> R) (s : R).
Variables (A G V rho : F) (Emax : int).

Local Notation N := (rm_N M).
Local Notation fsub := (rm_fsub M).
Local Notation fmul := (rm_fmul M).
Local Notation em := (rm_em M).
Local Notation es := (rm_es M).
Local Notation fo := (flops M).

Definition bnd (b : F) (v : seq R) : bool := all (fun x => N x <= b) v.

Hypothesis hA : forall l i, N (coef fo h s l i) <= A.
Hypothesis hC : forall i j, N (h i j) <= A.
Hypothesis G_ge1 : 1 <= G.
Hypothesis G_def : (1 + es) * (1 + em) * (A + A) <= G.
Hypothesis rho_ge0 : 0 <= rho.
Hypothesis rho_V : rho <= V.
Hypothesis A_V : A <= V.
Hypothesis ex_scale : forall v, all (fun x => N (scale (ex v) x) <= rho) v.
Hypothesis ex_range : forall v, `|ex v| <= Emax.

Lemma A_ge0 : 0 <= A. Proof. exact: le_trans (rm_N_ge0 M (h 0 0)) (hC 0 0). Qed.
Lemma V_ge0 : 0 <= V. Proof. exact: le_trans A_ge0 A_V. Qed.
Lemma G_ge0 : 0 <= G. Proof. exact: le_trans ler01 G_ge1. Qed.
Lemma Emax_ge0 : 0 <= Emax. Proof. exact: le_trans (normr_ge0 _) (ex_range [::]). Qed.

Lemma bnd_nthd b v l : 0 <= b -> bnd b v -> N (nthd fo v l) <= b.
Proof.
move=> b0; elim: v l => [|x v IH] [|l] //=; rewrite ?rm_N0 //; case/andP => // _; exact: IH.
Qed.

Lemma bnd_mono b b' v : b <= b' -> bnd b v -> bnd b' v.
Proof. by move=> bb; apply: sub_all => x hx; exact: le_trans hx bb. Qed.

Lemma bnd_map_scale v : bnd rho (map_scale scale (ex v) v).
Proof.
have := ex_scale v; move: (ex v) => k.
by elim: v => [|x v IH] //= /andP [-> /IH].
Qed.

Lemma fsub_bound x y : N (fsub x y) <= (1 + es) * (N x + N y).
Proof.
have -> : fsub x y = (fsub x y - (x - y)) + (x - y) by ring.
apply: le_trans (rm_ND M _ _) _; rewrite mulrDl mul1r addrC; apply: ler_add; first exact: NB.
by apply: le_trans (rm_fsub_err M _ _) _; rewrite ler_wpmul2l ?rm_es_ge0 // NB.
Qed.

Lemma fmul_bound x y bx by_ : N x <= bx -> N y <= by_ -> N (fmul x y) <= (1 + em) * (bx * by_).
Proof.
move=> hx hy.
have P : N x * N y <= bx * by_ by apply: ler_pmul => //; exact: rm_N_ge0.
have -> : fmul x y = (fmul x y - x * y) + x * y by ring.
apply: le_trans (rm_ND M _ _) _; rewrite mulrDl mul1r addrC; apply: ler_add.
  exact: le_trans (rm_NM M _ _) P.
by apply: le_trans (rm_fmul_err M _ _) _; rewrite ler_wpmul2l ?rm_em_ge0.
Qed.

Lemma entry_bound a vl x c b :
  0 <= b -> N a <= A -> N vl <= b -> N x <= b -> N c <= A ->
  N (fsub (fmul a vl) (fmul x c)) <= G * b.
Proof.
move=> b0 ha hvl hx hc.
apply: le_trans (fsub_bound _ _) _.
apply: le_trans (_ : (1 + es) * ((1 + em) * (A * b) + (1 + em) * (b * A)) <= _).
  rewrite ler_wpmul2l //; first by rewrite addr_ge0 ?ler01 ?rm_es_ge0.
  by apply: ler_add; exact: fmul_bound.
have -> : (1 + es) * ((1 + em) * (A * b) + (1 + em) * (b * A)) = (1 + es) * (1 + em) * (A + A) * b by ring.
exact: ler_wpmul2r.
Qed.

Lemma compress_bnd b (a : nat -> R) vl c i k v :
  0 <= b -> (forall j, N (a j) <= A) -> N vl <= b -> N c <= A -> bnd b v ->
  bnd (G * b) (compress fo a vl c i k v).
Proof.
move=> b0 ha hvl hc; elim: v i k => [|x v IH] i [|k] //= /andP [hx hv].
by apply/andP; split; [exact: entry_bound | exact: IH].
Qed.

Lemma step_bnd b l v : 0 <= b -> bnd b v -> bnd (G * b) (step fo h s l v).
Proof.
move=> b0 hv; rewrite /step.
exact: (compress_bnd _ _ b0 (hA l) (bnd_nthd l b0 hv) (hC _ _) hv).
Qed.

Local Notation fps := (@fpass R fo int +%R scale ex h s).
Local Notation ltr := (@loop_f_tr R fo int +%R scale ex h s).
Local Notation lpf := (@loop_f R fo int +%R scale ex h s).

Lemma VG_ge0 k : 0 <= V * G ^+ k.
Proof. by rewrite mulr_ge0 ?V_ge0 // exprn_ge0 // G_ge0. Qed.

Lemma VG_mono k k' : (k <= k')%N -> V * G ^+ k <= V * G ^+ k'.
Proof. by move=> kk; rewrite ler_wpmul2l ?V_ge0 // ler_weexpn2l. Qed.

(* one pass: the state after the arithmetic, and after the rescaling test *)
Lemma fpass_inv l st k c :
  (k + Nat.modulo l 50 <= 49)%N -> bnd (V * G ^+ k) st.1 -> `|st.2| <= Emax *+ c ->
  let p := fps l.+1 st in
  [/\ bnd (V * G ^+ k.+1) p.1.1, `|p.1.2| <= Emax *+ c &
      exists k', [/\ (k' <= 50)%N, (k' + Nat.modulo l.-1 50 <= 49)%N,
                     bnd (V * G ^+ k') p.2.1 & `|p.2.2| <= Emax *+ c.+1]].
Proof.
move=> hk hb ha /=.
have B1 : bnd (V * G ^+ k.+1) (step fo h s l.+1 st.1).
  by rewrite exprS mulrCA; apply: step_bnd => //; exact: VG_ge0.
have C1 : Emax *+ c <= Emax *+ c.+1 by apply: ler_wpmuln2l => //; exact: Emax_ge0.
split=> //.
have E : per50 l.+1 = (Nat.modulo l 50 == 0)%N by rewrite /per50 nat_eqbE.
rewrite E; case: eqP => [m0|m0] /=.
  exists 0%N; split=> //.
  - by rewrite add0n; have /ssrnat.ltP := mod50_lt l.-1.
  - by rewrite expr0 mulr1; apply: bnd_mono rho_V _; exact: bnd_map_scale.
  - apply: le_trans (ler_norm_add _ _) _; rewrite mulrS addrC; apply: ler_add => //; exact: ex_range.
have m1 : (0 < Nat.modulo l 50)%N by rewrite lt0n; apply/eqP.
exists k.+1; split=> //.
- exact: (leq_trans (leq_addr _ _) hk : (k < 50)%N).
- by rewrite (mod50_pred l m0) addSnnS prednK.
- exact: le_trans ha C1.
Qed.

Lemma tr_inv l st k c :
  (k + Nat.modulo l.-1 50 <= 49)%N -> bnd (V * G ^+ k) st.1 -> `|st.2| <= Emax *+ c ->
  forall st', st' \in ltr l st -> bnd (V * G ^+ 50) st'.1 && (`|st'.2| <= Emax *+ (c + l)).
Proof.
elim: l st k c => [|l IH] st k c hk hb ha st' //.
have [B1 C1 [k' [k50 hk' B2 C2]]] := fpass_inv hk hb ha.
have k49 : (k < 50)%N by apply: leq_ltn_trans (leq_addr _ _) (hk : (_ < 50)%N).
have Em m m' : (m <= m')%N -> Emax *+ m <= Emax *+ m' by move=> mm; apply: ler_wpmuln2l => //; exact: Emax_ge0.
rewrite /= !inE => /or3P [/eqP->|/eqP->|hin].
- by rewrite (bnd_mono (VG_mono k49) B1) (le_trans C1 (Em _ _ (leq_addr _ _))).
- by rewrite (bnd_mono (VG_mono k50) B2) (le_trans C2 (Em _ _ _)) // addnS ltnS leq_addr.
- by rewrite -addSnnS; exact: (IH _ k' c.+1 hk' B2 C2).
Qed.

(* the last pass always rescales *)
Lemma loop_f_last_rescaled l st :
  exists v acc, lpf l.+1 st = rescale +%R scale (ex v) (v, acc).
Proof.
elim: l st => [|l IH] st; last exact: IH.
by exists (step fo h s 1 st.1), st.2.
Qed.

Lemma loop_f_in_tr l st : lpf l st = last st (ltr l st).
Proof. by elim: l st => [|l IH] st //=; rewrite IH. Qed.

End Range.

(* ---- on the C storage ------------------------------------------------------------------------------------ *)
Section RangeList.

Variables (R : comRingType) (F : numDomainType) (M : round_model R F).
Variables (scale : int -> R -> R) (ex : seq R -> int).
Variables (Hl : seq R) (n : nat) (s : R).
Variables (A G V rho : F) (Emax : int).

Local Notation N := (rm_N M).
Local Notation fo := (flops M).

Hypothesis hH : forall k, N (nth 0 Hl k) <= A.
Hypothesis hHs : forall k, N (rm_fsub M (nth 0 Hl k) s) <= A.
Hypothesis G_ge1 : 1 <= G.
Hypothesis G_def : (1 + rm_es M) * (1 + rm_em M) * (A + A) <= G.
Hypothesis rho_ge0 : 0 <= rho.
Hypothesis rho_V : rho <= V.
Hypothesis A_V : A <= V.
Hypothesis ex_scale : forall v, all (fun x => N (scale (ex v) x) <= rho) v.
Hypothesis ex_range : forall v, `|ex v| <= Emax.

Let h := elem fo Hl n.

Lemma hC_list i j : N (h i j) <= A.
Proof. by rewrite /h /elem nthd_flops nthdE. Qed.

Lemma hA_list l i : N (coef fo h s l i) <= A.
Proof.
rewrite /coef; case: (Nat.eqb _ _) => /=; last exact: hC_list.
by rewrite /h /elem nthd_flops nthdE.
Qed.

Theorem fhess_range st :
  st \in @fhess_code_tr R fo int +%R scale ex 0 Hl n s ->
  all (fun x => N x <= V * G ^+ 50) st.1 && (`|st.2| <= Emax *+ n.-1).
Proof.
have V0 := V_ge0 hC_list A_V.
have G0 := G_ge0 G_ge1.
have I : bnd M (V * G ^+ 0) (init_vec fo h n s).
  have mk (f : nat -> R) i k : (forall j, N (f j) <= V) -> bnd M V (mkvec f i k).
    by move=> hf; elim: k i => [|k IH] i //=; rewrite hf IH.
  by rewrite expr0 mulr1 /init_vec; apply: mk => j; exact: le_trans (hA_list _ _) A_V.
rewrite /fhess_code_tr inE => /orP [/eqP->|hin] /=.
  rewrite normr0 mulrn_wge0 ?(Emax_ge0 ex_range) // andbT.
  by apply: bnd_mono I; rewrite ler_wpmul2l // ler_weexpn2l.
have hk : (0 + Nat.modulo n.-1.-1 50 <= 49)%N by rewrite add0n; have /ssrnat.ltP := mod50_lt n.-1.-1.
have ha : `|(init_vec fo h n s, (0 : int)).2| <= Emax *+ 0 by rewrite normr0 mulr0n.
have := tr_inv (l := n.-1) (st := (init_vec fo h n s, 0)) (k := 0%N) (c := 0%N)
          hA_list hC_list G_ge1 G_def rho_V A_V ex_scale ex_range hk I ha hin.
by rewrite add0n.
Qed.

(* for n >= 2 the returned mantissa comes out of a rescaling *)
Theorem fhess_mantissa m :
  n = m.+2 -> N (@fhess_code R fo int +%R scale ex 0 Hl n s).1 <= rho.
Proof.
move=> ->.
have [v [acc E]] := loop_f_last_rescaled M scale ex (elem fo Hl m.+2) s m
                       (init_vec fo (elem fo Hl m.+2) m.+2 s, 0).
rewrite /fhess_code (_ : m.+2.-1 = m.+1) // E /rescale /=.
exact: (bnd_nthd 0 rho_ge0 (bnd_map_scale ex_scale v)).
Qed.

End RangeList.

(* ---- the loop with its test, in exact arithmetic: mantissa * 2^exponent = determinant -------------------- *)
Section CodeExact.

Variable F : fieldType.
Hypothesis two_neq0 : (2%:R : F) != 0.
Variable ex : seq F -> int.

Let o := rops F.

Lemma fscale0 (v : seq F) : map_scale (@fscale F) 0 v = v.
Proof. by elim: v => [|x v IH] //=; rewrite IH /fscale expr0z divr1. Qed.

Lemma loop_f_scaled h s l (st : seq F * int) :
  @loop_f F o int +%R (@fscale F) ex h s l st
  = loop_scaled o +%R (@fscale F) (fun l v => if per50 l then ex v else 0) h s l st.
Proof.
elim: l st => [|l IH] [v a] //=; rewrite IH; congr loop_scaled.
by case: (per50 l.+1) => //; rewrite /rescale /= fscale0 addr0.
Qed.

Theorem fhess_code_is_det m (H : 'M[F]_m.+1) Hl s :
  upper_hessenberg H -> row_major Hl H ->
  let r := @fhess_code F o int +%R (@fscale F) ex 0 Hl m.+1 s in
  r.1 * 2%:R ^ r.2 = \det (H - s%:M).
Proof.
move=> uh rm; rewrite /fhess_code loop_f_scaled.
exact: (fhess_scaled_is_det two_neq0 (fun l v => if per50 l then ex v else 0) s uh rm).
Qed.

End CodeExact.

(* ---- the hypotheses are jointly satisfiable (a rescaling that flushes to zero, operations that round) ---- *)
Section InstanceRange.

Definition toy_scale (k : int) (x : int) : int := if k == 0 then x else 0.
Definition toy_ex (v : seq int) : int := if all (fun x => x == 0) v then 0 else 1.

Lemma toy_ex_scale v : all (fun x : int => `|toy_scale (toy_ex v) x| <= 0) v.
Proof.
rewrite /toy_ex; case E: (all (fun x : int => x == 0) v) => /=.
  by apply/allP => x xv; move/allP: E => /(_ x xv) /eqP ->; rewrite /toy_scale eqxx normr0.
by apply/allP => x _; rewrite /toy_scale /= normr0.
Qed.

Lemma toy_ex_range v : `|toy_ex v| <= 1.
Proof. by rewrite /toy_ex; case: (all (fun x : int => x == 0) v). Qed.

Lemma toy_range_value :
  @fhess_code int (flops toy_model) int +%R toy_scale toy_ex 0 [:: 2; 3; 5; 7; 11; 13; 0; 17; 19] 3 1 = (0, 1).
Proof. by []. Qed.

End InstanceRange.
