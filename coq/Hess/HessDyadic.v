(* C20 -- executable instance of the HEAD model of mps_mhessenberg_shifted_determinant (HessModelM.v) over
   stdlib Z, extracted (ocaml/hess.ml) and run by checks/C20.py next to the real function:
     values : Gaussian dyadics (re + i im) * 2^e with exact subtraction / multiplication / copy (the model's
              rounded operations instantiated by exact ones: the inputs of the check are dyadic),
     bounds : non-negative dyadics m * 2^e whose mantissa is kept below 2^64 by rounding UP (dy_norm), the
              modulus being the upward integer square root HessGauss.modup of the components cut to k bits.
   The returned pair is (exact determinant, the error vector recurrence of the code evaluated with upward
   rounding of relative size <= 2^-63 per operation): used for the correspondence of the error vector only. *)
Require Import ZArith Lia List.
Require Import MPSV.Hess.HessModel MPSV.Hess.HessModelM MPSV.Hess.HessGauss.

Local Open Scope Z_scope.

Definition GD : Type := (GI * Z)%type.

Definition gd_sub (x y : GD) : GD :=
  let e := Z.min (snd x) (snd y) in
  let sx := snd x - e in
  let sy := snd y - e in
  (gsub (Z.shiftl (fst (fst x)) sx, Z.shiftl (snd (fst x)) sx)
        (Z.shiftl (fst (fst y)) sy, Z.shiftl (snd (fst y)) sy), e).

Definition gd_mul (x y : GD) : GD := (gmul (fst x) (fst y), snd x + snd y).
Definition gd0 : GD := (g0, 0).
Definition gd_is0 (x : GD) : bool := andb (fst (fst x) =? 0) (snd (fst x) =? 0).
Definition gdops : ops GD := Ops gd0 gd_sub gd_mul.

Definition DY : Type := (Z * Z)%type.

(* keep at most 64 mantissa bits, rounding up *)
Definition dy_norm (x : DY) : DY :=
  let b := Z.log2 (fst x) in
  if b <? 64 then x else (Z.shiftr (fst x) (b - 63) + 1, snd x + (b - 63)).

Definition dy_add (x y : DY) : DY :=
  let e := Z.min (snd x) (snd y) in
  dy_norm (Z.shiftl (fst x) (snd x - e) + Z.shiftl (fst y) (snd y - e), e).

Definition dy_mul (x y : DY) : DY := dy_norm (fst x * fst y, snd x + snd y).
Definition dy0 : DY := (0, 0).
Definition dy_eps (wp : Z) : DY := (1, 1 - wp).
(* upper bound of the modulus: both components are brought to k bits (the longer one) first, rounding away
   from 0 when bits are dropped, then the upward integer square root HessGauss.modup is taken *)
Definition dy_nrm (k : Z) (z : GD) : DY :=
  let re := Z.abs (fst (fst z)) in
  let im := Z.abs (snd (fst z)) in
  let sh := Z.max (Z.log2 re) (Z.log2 im) - (k - 1) in
  if 0 <? sh then dy_norm (modup 0 (Z.shiftr re sh + 1, Z.shiftr im sh + 1), snd z + sh)
  else dy_norm (modup 0 (Z.shiftl re (- sh), Z.shiftl im (- sh)), snd z + sh).

Definition mhess_head_dy (k wp : Z) (rows : list (list GD)) (n : nat) (s : GD) : GD * DY :=
  mhess_head_rows GD DY gdops (fun x => x) gd_is0 dy_add dy_mul dy0 (dy_eps wp) (dy_nrm k) rows n s.

(* the normalisation never decreases the value: m <= (m >> sh + 1) << sh *)
Lemma dy_norm_up (m sh : Z) : 0 <= sh -> m <= (Z.shiftr m sh + 1) * 2 ^ sh.
Proof.
intros Hs. rewrite Z.shiftr_div_pow2 by exact Hs.
assert (P : 0 < 2 ^ sh) by (apply Z.pow_pos_nonneg; lia).
pose proof (Z.div_mod m (2 ^ sh) ltac:(lia)) as D.
pose proof (Z.mod_pos_bound m (2 ^ sh) P) as B. nia.
Qed.

Lemma dy_norm_sound (x : DY) :
  exists sh, 0 <= sh /\ snd (dy_norm x) = snd x + sh /\ fst x <= fst (dy_norm x) * 2 ^ sh.
Proof.
unfold dy_norm. destruct (Z.log2 (fst x) <? 64) eqn:E.
- exists 0. simpl. repeat split; lia.
- apply Z.ltb_ge in E. exists (Z.log2 (fst x) - 63). simpl. repeat split; try lia.
  apply dy_norm_up. lia.
Qed.

(* a 2 x 2 instance: H = [[3, 1+i], [2, 5]] / 2, s = 1/2, wp = 64, k = 12 *)
Definition rows2 : list (list GD) :=
  (((3, 0), -1) :: ((1, 1), -1) :: nil) :: (((2, 0), -1) :: ((5, 0), -1) :: nil) :: nil.
Lemma rows2_value : fst (mhess_head_dy 12 64 rows2 2 ((1, 0), -1)) = ((6, -2), -2).
Proof. vm_compute. reflexivity. Qed.
