(* C20 -- the rounding constants (em, es) of HessApriori.round_model derived from the standard model
   of floating-point arithmetic, for complex numbers stored as (re, im) pairs of floating-point numbers.

   R : any real closed field; [rnd : R -> R] any rounding with  |rnd t - t| <= u |t|  (the standard model:
   binary64 round-to-nearest with u = 2^-53, rdpe_t arithmetic with u = 2^-52, mpf with u = 2^(1-wp); no
   underflow / overflow).  The operations are those of mt.c:
       x - y = (rnd (a - c), rnd (b - d))
       x * y = (rnd (rnd (a c) - rnd (b d)), rnd (rnd (a d) + rnd (b c)))      4-multiplication product
   (cplx_mul, both the builtin _Complex version and the struct version, and cdpe_mul).
   Results, with N = complex modulus:
       es = u,   em = 3/2 ((1+u)^2 - 1)   (>= sqrt 2 * gamma_2),   theta <= (1+u)^5,
       |computed - exact| <= ((1+u)^(5n) - 1) * B <= 5 n u / (1 - 5 n u) * B      (5 n u < 1). *)
From mathcomp Require Import all_ssreflect all_algebra.
From mathcomp Require Import complex.
From mathcomp Require Import ring.
Require Import MPSV.Hess.HessModel MPSV.Hess.HessDet MPSV.Hess.HessApriori.

Set Implicit Arguments.
Unset Strict Implicit.
Unset Printing Implicit Defensive.
Import GRing.Theory Num.Theory Order.Theory.
Local Open Scope ring_scope.
Local Open Scope complex_scope.

Section RealLemmas.

Variable R : rcfType.
Variables (u : R) (rnd : R -> R).
Hypothesis u_ge0 : 0 <= u.
Hypothesis rnd_err : forall t, `|rnd t - t| <= u * `|t|.

Definition g2 : R := (1 + u) ^+ 2 - 1.

Lemma g2_ge0 : 0 <= g2.
Proof.
have -> : g2 = u * (2%:R + u) by rewrite /g2; ring.
by rewrite mulr_ge0 // addr_ge0 // ler0n.
Qed.

Lemma norm_hat (p s : R) : `|p - s| <= u * `|s| -> `|p| <= (1 + u) * `|s|.
Proof.
move=> h; have -> : p = (p - s) + s by ring.
apply: le_trans (ler_norm_add _ _) _.
by rewrite mulrDl mul1r addrC ler_add2l.
Qed.

(* sum of two already rounded terms, rounded *)
Lemma rnd_sum (p q s t : R) :
  `|p - s| <= u * `|s| -> `|q - t| <= u * `|t| ->
  `|rnd (p + q) - (s + t)| <= g2 * (`|s| + `|t|).
Proof.
move=> hp hq.
have Hp := norm_hat hp; have Hq := norm_hat hq.
have -> : rnd (p + q) - (s + t) = (rnd (p + q) - (p + q)) + ((p - s) + (q - t)) by ring.
apply: le_trans (ler_norm_add _ _) _.
have -> : g2 * (`|s| + `|t|) = u * ((1 + u) * `|s| + (1 + u) * `|t|) + (u * `|s| + u * `|t|).
  by rewrite /g2; ring.
apply: ler_add; last by apply: le_trans (ler_norm_add _ _) _; exact: ler_add.
apply: le_trans (rnd_err _) _; rewrite ler_wpmul2l //.
by apply: le_trans (ler_norm_add _ _) _; exact: ler_add.
Qed.

Lemma rnd_diff (p q s t : R) :
  `|p - s| <= u * `|s| -> `|q - t| <= u * `|t| ->
  `|rnd (p - q) - (s - t)| <= g2 * (`|s| + `|t|).
Proof.
move=> hp hq; rewrite -[`|t|]normrN; apply: rnd_sum => //.
by rewrite normrN opprK addrC -normrN opprD opprK addrC.
Qed.

Lemma sqr_le (x y : R) : `|x| <= y -> x ^+ 2 <= y ^+ 2.
Proof.
move=> h; have y0 : 0 <= y by exact: le_trans (normr_ge0 _) h.
by rewrite -[x ^+ 2]real_normK ?num_real // ler_sqr ?nnegrE.
Qed.

Lemma sqr_rnd (t : R) : (rnd t - t) ^+ 2 <= u ^+ 2 * t ^+ 2.
Proof. by rewrite -[t ^+ 2]real_normK ?num_real // -exprMn; apply: sqr_le. Qed.

(* 2 A B <= A^2 + B^2 *)
Lemma two_ab (A B : R) : A * B *+ 2 <= A ^+ 2 + B ^+ 2.
Proof.
rewrite -subr_ge0.
have -> : A ^+ 2 + B ^+ 2 - A * B *+ 2 = (A - B) ^+ 2 by ring.
exact: sqr_ge0.
Qed.

(* the real inequality behind the normwise bound of the 4-multiplication product *)
Lemma prod_core (a b c d dr di : R) :
  `|dr| <= g2 * (`|a * c| + `|b * d|) -> `|di| <= g2 * (`|a * d| + `|b * c|) ->
  dr ^+ 2 + di ^+ 2 <= (g2 * (3%:R / 2%:R)) ^+ 2 * ((a * c - b * d) ^+ 2 + (a * d + b * c) ^+ 2).
Proof.
move=> hr hi.
set A := `|a|; set B := `|b|; set C := `|c|; set D := `|d|.
have A0 : 0 <= A by exact: normr_ge0. have B0 : 0 <= B by exact: normr_ge0.
have C0 : 0 <= C by exact: normr_ge0. have D0 : 0 <= D by exact: normr_ge0.
have sq (x : R) : `|x| ^+ 2 = x ^+ 2 by rewrite real_normK // num_real.
have E : (a * c - b * d) ^+ 2 + (a * d + b * c) ^+ 2 = (A ^+ 2 + B ^+ 2) * (C ^+ 2 + D ^+ 2).
  by rewrite /A /B /C /D !sq; ring.
have h1 : dr ^+ 2 <= (g2 * (A * C + B * D)) ^+ 2.
  rewrite -(sq dr) ler_sqr ?nnegrE ?normr_ge0 //; first by rewrite /A /B /C /D -!normrM.
  by rewrite mulr_ge0 ?g2_ge0 // addr_ge0 // mulr_ge0.
have h2 : di ^+ 2 <= (g2 * (A * D + B * C)) ^+ 2.
  rewrite -(sq di) ler_sqr ?nnegrE ?normr_ge0 //; first by rewrite /A /B /C /D -!normrM.
  by rewrite mulr_ge0 ?g2_ge0 // addr_ge0 // mulr_ge0.
apply: le_trans (ler_add h1 h2) _.
have -> : (g2 * (A * C + B * D)) ^+ 2 + (g2 * (A * D + B * C)) ^+ 2
          = g2 ^+ 2 * ((A ^+ 2 + B ^+ 2) * (C ^+ 2 + D ^+ 2) + (A * B *+ 2) * (C * D *+ 2)) by ring.
rewrite E.
have P : 0 <= (A ^+ 2 + B ^+ 2) * (C ^+ 2 + D ^+ 2).
  by rewrite mulr_ge0 // addr_ge0 // sqr_ge0.
have h3 : (A * B *+ 2) * (C * D *+ 2) <= (A ^+ 2 + B ^+ 2) * (C ^+ 2 + D ^+ 2).
  by apply: ler_pmul; rewrite ?mulrn_wge0 ?mulr_ge0 ?two_ab.
have -> : (g2 * (3%:R / 2%:R)) ^+ 2 * ((A ^+ 2 + B ^+ 2) * (C ^+ 2 + D ^+ 2))
   = g2 ^+ 2 * ((A ^+ 2 + B ^+ 2) * (C ^+ 2 + D ^+ 2) + (A ^+ 2 + B ^+ 2) * (C ^+ 2 + D ^+ 2))
     + g2 ^+ 2 * ((A ^+ 2 + B ^+ 2) * (C ^+ 2 + D ^+ 2)) / 4%:R.
  by field.
apply: le_trans (_ : _ <= g2 ^+ 2 * ((A ^+ 2 + B ^+ 2) * (C ^+ 2 + D ^+ 2) +
                                      (A ^+ 2 + B ^+ 2) * (C ^+ 2 + D ^+ 2))) _.
  by rewrite ler_wpmul2l ?sqr_ge0 // ler_add2l.
by rewrite ler_addl divr_ge0 ?ler0n // mulr_ge0 ?sqr_ge0.
Qed.

End RealLemmas.

Section ComplexOps.

Variable R : rcfType.
Variables (u : R) (rnd : R -> R).
Hypothesis u_ge0 : 0 <= u.
Hypothesis rnd_err : forall t, `|rnd t - t| <= u * `|t|.

Local Notation C := R[i].
Local Notation re := (@complex.Re R).
Local Notation im := (@complex.Im R).

(* the operations of mt.c on (re, im) pairs *)
Definition cfsub (x y : C) : C := rnd (re x - re y) +i* rnd (im x - im y).
Definition cfmul (x y : C) : C :=
  rnd (rnd (re x * re y) - rnd (im x * im y)) +i* rnd (rnd (re x * im y) + rnd (im x * re y)).

Lemma normc_le (z w : C) (k : R) :
  0 <= k -> re z ^+ 2 + im z ^+ 2 <= k ^+ 2 * (re w ^+ 2 + im w ^+ 2) -> `|z| <= k%:C * `|w|.
Proof.
move=> k0 h; rewrite !normc_def -rmorphM lecR.
have -> : k * Num.sqrt (re w ^+ 2 + im w ^+ 2) = Num.sqrt (k ^+ 2 * (re w ^+ 2 + im w ^+ 2)).
  by rewrite sqrtrM ?sqr_ge0 // sqrtr_sqr ger0_norm.
exact: ler_wsqrtr.
Qed.

Lemma cfsub_err (x y : C) : `|cfsub x y - (x - y)| <= u%:C * `|x - y|.
Proof.
apply: normc_le => //; case: x y => [a b] [c d] /=.
by rewrite mulrDr; apply: ler_add; exact: sqr_rnd.
Qed.

Definition em4 : R := g2 u * (3%:R / 2%:R).

Lemma em4_ge0 : 0 <= em4.
Proof. by rewrite /em4 mulr_ge0 ?g2_ge0 // divr_ge0 ?ler0n. Qed.

Lemma cfmul_err (x y : C) : `|cfmul x y - x * y| <= em4%:C * (`|x| * `|y|).
Proof.
rewrite -normrM; apply: normc_le; first exact: em4_ge0.
case: x y => [a b] [c d] /=.
apply: prod_core => //.
  by apply: rnd_diff => //; exact: rnd_err.
by apply: rnd_sum => //; exact: rnd_err.
Qed.

Lemma cNM (x y : C) : `|x * y| <= `|x| * `|y|.
Proof. by rewrite normrM. Qed.

Lemma real_ge0c (k : R) : 0 <= k -> (0 : C) <= k%:C.
Proof. by move=> k0; rewrite (lecR 0 k). Qed.

Definition std_model : round_model [comRingType of C] [numDomainType of C] :=
  @RoundModel [comRingType of C] [numDomainType of C] (fun x => `|x|) cfsub cfmul em4%:C u%:C
    (normr0 _) (@normr_ge0 _ _) (@normrN _ _) (@ler_norm_add _ _)
    cNM (real_ge0c em4_ge0) (real_ge0c u_ge0) cfmul_err cfsub_err.

(* theta of this model is at most (1+u)^5 *)
Lemma theta_std : theta std_model <= ((1 + u) ^+ 5)%:C.
Proof.
rewrite /theta /= -!rmorphD -rmorphX -rmorphM /= lecR.
have -> : (1 + u) ^+ 5 = (1 + u) ^+ 2 * (1 + u) ^+ 3 by rewrite -exprD.
have u1 : 0 <= (1 + u) ^+ 2 by exact: sqr_ge0.
apply: ler_wpmul2l => //.
rewrite -subr_ge0 /em4 /g2.
have -> : (1 + u) ^+ 3 - (1 + ((1 + u) ^+ 2 - 1) * (3%:R / 2%:R)) = u ^+ 2 * (3%:R / 2%:R + u) by field.
by rewrite mulr_ge0 ?sqr_ge0 // addr_ge0 // divr_ge0 ?ler0n.
Qed.

End ComplexOps.

Section Final.

Variable R : rcfType.
Variables (u : R) (rnd : R -> R).
Hypothesis u_ge0 : 0 <= u.
Hypothesis rnd_err : forall t, `|rnd t - t| <= u * `|t|.

Local Notation C := R[i].
Local Notation M := (std_model u_ge0 rnd_err).

(* (1+u)^k - 1 <= k u / (1 - k u) *)
Lemma gamma_bound (k : nat) : k%:R * u < 1 -> (1 + u) ^+ k - 1 <= k%:R * u / (1 - k%:R * u).
Proof.
move=> ku.
have d0 : 0 < 1 - k%:R * u by rewrite subr_gt0.
have key : forall j, (j <= k)%N -> (1 + u) ^+ j * (1 - j%:R * u) <= 1.
  elim=> [|j IH] jk; first by rewrite expr0 mul0r subr0 mulr1.
  apply: le_trans (IH (ltnW jk)); rewrite exprS -subr_ge0.
  have -> : (1 + u) ^+ j * (1 - j%:R * u) - (1 + u) * (1 + u) ^+ j * (1 - j.+1%:R * u)
            = (1 + u) ^+ j * (u ^+ 2 * j.+1%:R).
    by rewrite -addn1 natrD; ring.
  by rewrite mulr_ge0 ?exprn_ge0 ?addr_ge0 ?ler01 // mulr_ge0 ?sqr_ge0 ?ler0n.
rewrite ler_subl_addr -(ler_pmul2r d0).
have -> : (k%:R * u / (1 - k%:R * u) + 1) * (1 - k%:R * u) = 1 by field; rewrite gt_eqF.
exact: key.
Qed.

Lemma nthd_aops (Al : seq C) k : nthd (aops _) Al k = nth 0 Al k.
Proof. by elim: Al k => [|x t IH] [|k] //=. Qed.

(* the a-priori bound of the double variant's recurrence with explicit constants *)
Theorem fhess_apriori_std (Hl Al : seq C) (m : nat) (s sa : C) :
  (forall k, `|nth 0 Hl k| <= nth 0 Al k) -> `|s| <= sa ->
  `|hess_rec (flops M) Hl m.+1 s - hess_rec (rops _) Hl m.+1 s|
  <= ((1 + u) ^+ (5 * m.+1) - 1)%:C * hess_rec (aops _) Al m.+1 sa.
Proof.
move=> hA hs.
have B0 : 0 <= hess_rec (aops [numDomainType of C]) Al m.+1 sa.
  apply: le_trans (normr_ge0 (hess_rec (rops [comRingType of C]) Hl m.+1 s)) _.
  apply: (@hess_bound_dominates _ _ M) => // i j.
  by rewrite /elem nthdE nthd_aops; exact: hA.
apply: le_trans (hess_apriori (M := M) m.+1 hA hs) _.
apply: ler_wpmul2r => //; rewrite rmorphB rmorph1 ler_add2r /=.
have t1 : 1 <= 1 + u by rewrite ler_addl.
have t0 : 0 <= 1 + u by exact: le_trans ler01 t1.
have th0 : 0 <= theta M by exact: le_trans ler01 (theta_ge1 M).
have -> : ((1 + u) ^+ (5 * m.+1))%:C = ((1 + u) ^+ 5)%:C ^+ m * ((1 + u) ^+ 5)%:C :> C.
  by rewrite -exprSr -rmorphX -exprM.
apply: ler_pmul => //.
- by rewrite exprn_ge0.
- by rewrite -rmorphD (lecR 0) .
- by rewrite ler_expn2r ?nnegrE ?theta_std // (lecR 0) exprn_ge0.
- by rewrite -rmorphD lecR ler_eexpr.
Qed.

Corollary fhess_apriori_gamma (Hl Al : seq C) (m : nat) (s sa : C) :
  (5 * m.+1)%:R * u < 1 ->
  (forall k, `|nth 0 Hl k| <= nth 0 Al k) -> `|s| <= sa ->
  `|hess_rec (flops M) Hl m.+1 s - hess_rec (rops _) Hl m.+1 s|
  <= ((5 * m.+1)%:R * u / (1 - (5 * m.+1)%:R * u))%:C * hess_rec (aops _) Al m.+1 sa.
Proof.
move=> ku hA hs.
have B0 : 0 <= hess_rec (aops [numDomainType of C]) Al m.+1 sa.
  apply: le_trans (normr_ge0 (hess_rec (rops [comRingType of C]) Hl m.+1 s)) _.
  apply: (@hess_bound_dominates _ _ M) => // i j.
  by rewrite /elem nthdE nthd_aops; exact: hA.
apply: le_trans (fhess_apriori_std m hA hs) _.
by apply: ler_wpmul2r => //; rewrite lecR; exact: gamma_bound.
Qed.

End Final.

(* ---- any rounding model whose constants are bounded by powers of (1+u) ------------------------
   es <= u and em <= (1+u)^k - 1 give theta <= (1+u)^(k+2) and the bound ((1+u)^((k+2) n) - 1) * B.
   k = 3 is the 4-multiplication product above; for mpc_mul's 3-multiplication product
   ((a-b)(c+d) - ad + bc, ad + bc) a pen-and-paper analysis gives em <= gamma_14, i.e. k = 14 and the
   constant C = 16 used by checks/C20.py for the m variant: that constant is an ASSUMPTION here. *)
Section Pow.

Variables (R : comRingType) (F : numDomainType) (M : round_model R F) (u : F) (k : nat).
Hypothesis u_ge0 : 0 <= u.
Hypothesis es_u : rm_es M <= u.
Hypothesis em_u : rm_em M <= (1 + u) ^+ k - 1.

Lemma theta_pow : theta M <= (1 + u) ^+ (k + 2).
Proof.
have t0 : 0 <= 1 + u by rewrite addr_ge0 ?ler01.
have e0 : 0 <= 1 + rm_es M by rewrite addr_ge0 ?ler01 ?rm_es_ge0.
rewrite /theta addnC exprD; apply: ler_pmul.
- exact: exprn_ge0.
- by rewrite addr_ge0 ?ler01 ?rm_em_ge0.
- by rewrite ler_expn2r ?nnegrE // ler_add2l.
- by rewrite -ler_subr_addl.
Qed.

Theorem hess_apriori_pow (Hl : seq R) (Al : seq F) (m : nat) (s : R) (sa : F) :
  (forall j, rm_N M (nth 0 Hl j) <= nth 0 Al j) -> rm_N M s <= sa ->
  rm_N M (hess_rec (flops M) Hl m.+1 s - hess_rec (rops R) Hl m.+1 s)
  <= ((1 + u) ^+ ((k + 2) * m.+1) - 1) * hess_rec (aops F) Al m.+1 sa.
Proof.
move=> hA hs.
have B0 : 0 <= hess_rec (aops F) Al m.+1 sa.
  apply: le_trans (rm_N_ge0 M (hess_rec (rops R) Hl m.+1 s)) _.
  apply: (@hess_bound_dominates _ _ M) => // i j.
  rewrite /elem nthdE.
  have -> : nthd (aops F) Al (i * m.+1 + j) = nth 0 Al (i * m.+1 + j).
    by elim: Al (i * m.+1 + j)%N {hA} => [|x t IH] [|q] //=.
  exact: hA.
apply: le_trans (hess_apriori (M := M) m.+1 hA hs) _.
apply: ler_wpmul2r => //; rewrite ler_add2r /=.
have t1 : 1 <= 1 + u by rewrite ler_addl.
have t0 : 0 <= 1 + u by exact: le_trans ler01 t1.
have th0 : 0 <= theta M by exact: le_trans ler01 (theta_ge1 M).
have -> : (1 + u) ^+ ((k + 2) * m.+1) = ((1 + u) ^+ (k + 2)) ^+ m * (1 + u) ^+ (k + 2).
  by rewrite -exprSr -exprM.
apply: ler_pmul => //.
- by rewrite exprn_ge0.
- by rewrite addr_ge0 ?ler01 ?rm_es_ge0.
- by rewrite ler_expn2r ?nnegrE ?theta_pow // exprn_ge0.
- apply: le_trans (_ : 1 + u <= _); first by rewrite ler_add2l.
  by rewrite ler_eexpr // addn2.
Qed.

End Pow.
