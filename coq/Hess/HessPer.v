(* C20 -- arithmetic of the rescaling period (stdlib nat, lia) *)
Require Import Arith Lia.

Lemma mod50_lt (l : nat) : Nat.modulo l 50 < 50.
Proof. apply Nat.mod_upper_bound. lia. Qed.

Lemma mod50_pred (l : nat) :
  Nat.modulo l 50 <> 0 -> Nat.modulo (pred l) 50 = pred (Nat.modulo l 50).
Proof.
intros H.
pose proof (Nat.div_mod l 50 ltac:(lia)) as D.
pose proof (mod50_lt l) as B.
symmetry. apply (Nat.mod_unique (pred l) 50 (l / 50)); lia.
Qed.
