(* C20 -- model of mps_mhessenberg_shifted_determinant AS IT IS AT HEAD (definitions only).

   Differences with HessModel.mhess_rec (the function before the fix `36ad797a`):
     * the working matrix is a ROUNDED copy of the input:
           matrix[i][j] = (i == j && shifted) ? mpc_sub (H[i][j], shift) : mpc_set (H[i][j])
       with  shifted = !mpc_eq_zero (shift)   ([fset] = mpc_set into a wp-bit variable, [osub] = mpc_sub);
       the recurrence then runs on the copy WITHOUT any further shift subtraction;
     * the error vector starts from  verrors[i] = mpc_rmod (matrix[i][n-1]) * epsilon;
     * the bound arithmetic [eadd], [emul], [nrm] (rdpe_add, rdpe_mul, mpc_rmod) is kept abstract: the
       theorems only assume that each operation returns at least q times the exact result.

   The C loop works in place on the matrix: at the iteration local_n = l it reads column l (the compressed
   column, [vec] here), column l-1 and row l of the copy (still untouched: only columns >= l have been
   written, and only in rows < l+1) and overwrites column l-1.  The model keeps the compressed column as a
   list and reads the untouched entries from the copy accessor [hc]. *)
Require Import MPSV.Hess.HessModel.

Section MHead.

Variables A E : Type.
Variable o : ops A.                (* osub = mpc_sub, omul = mpc_mul (both rounded to wp bits) *)
Variable fset : A -> A.            (* mpc_set into the wp-bit working matrix *)
Variable is0 : A -> bool.          (* mpc_eq_zero *)
Variables eadd emul : E -> E -> E. (* rdpe_add, rdpe_mul *)
Variables e0 eps : E.              (* 0 (memset), rdpe_set_2dl (epsilon, 1.0, 1 - wp) *)
Variable nrm : A -> E.             (* mpc_rmod *)

(* the working copy *)
Definition mcopy (h : nat -> nat -> A) (s : A) (i j : nat) : A :=
  if andb (Nat.eqb i j) (negb (is0 s)) then osub o (h i j) s else fset (h i j).

(* verrors[i] = |matrix[i][n-1]| * epsilon *)
Fixpoint minit_err (vec : list A) : list E :=
  match vec with nil => nil | cons v t => cons (emul (nrm v) eps) (minit_err t) end.

(* one iteration, local_n = l >= 1: values ... *)
Definition mstep (hc : nat -> nat -> A) (l : nat) (vec : list A) : list A :=
  compress o (fun i => hc i (pred l)) (nthd o vec l) (hc l (pred l)) 0 l vec.

(* ... and error vector (same statements as HessModel.step_err: verrors[l] += |vec[l]| eps, then for i < l
   err_a = |a_i| verrors[l], err_b = (|vec[i]| eps + verrors[i]) |c|, verrors[i] += |new_i| eps + err_a + err_b) *)
Definition mstep_err (hc : nat -> nat -> A) (l : nat) (vec : list A) (err : list E) : list E :=
  let vl := nthd o vec l in
  let el := eadd (nthe E e0 err l) (emul (nrm vl) eps) in
  compress_err A E o eadd emul eps nrm (fun i => hc i (pred l)) vl (hc l (pred l)) el 0 l vec err.

Fixpoint mloop (hc : nat -> nat -> A) (l : nat) (st : list A * list E) {struct l} : list A * list E :=
  match l with
  | O => st
  | S l' => mloop hc l' (mstep hc l (fst st), mstep_err hc l (fst st) (snd st))
  end.

(* (output, error) of mps_mhessenberg_shifted_determinant; [h] reads the input matrix *)
Definition mhess_head_acc (h : nat -> nat -> A) (n : nat) (s : A) : A * E :=
  let hc := mcopy h s in
  let v0 := mkvec (fun i => hc i (pred n)) 0 n in
  let st := mloop hc (pred n) (v0, minit_err v0) in
  (nthd o (fst st) 0, nthe E e0 (snd st) 0).

Definition mhess_head (H : list A) (n : nat) (s : A) : A * E := mhess_head_acc (elem o H n) n s.
Definition mhess_head_rows (rows : list (list A)) (n : nat) (s : A) : A * E :=
  mhess_head_acc (elem_rows o rows) n s.

End MHead.
