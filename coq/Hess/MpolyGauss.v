(* C20 -- executable instance of the coefficient-store model over Gaussian integers (extracted). *)
Require Import List ZArith.
Require Import MPSV.Hess.HessGauss MPSV.Hess.MpolyModel.

(* mps_monomial_matrix_poly_new: P holds whatever malloc left ([fill] everywhere: the harness fills every block
   it hands out with a known byte), mP is initialised to zero by mpc_vinit2 *)
Definition mpoly_new (deg m : nat) (fill : GI) : mstore GI :=
  MStore (repeat fill (m * m * (deg + 1))) (repeat g0 (m * m * (deg + 1))).

(* a sequence of set_coefficient_d calls as the C program lives it: a rejected call (status 1) leaves the
   stores as they are and the program goes on; an overflowing memmove (status 2) ends the replay *)
Fixpoint mpoly_replay (setc : mstore GI -> nat -> list GI -> set_result GI) (s : mstore GI)
         (calls : list (nat * list GI)) {struct calls} : list nat * mstore GI :=
  match calls with
  | nil => (nil, s)
  | (i, mat) :: t =>
      match setc s i mat with
      | SetOk s' => let r := mpoly_replay setc s' t in (0 :: fst r, snd r)
      | SetRejected => let r := mpoly_replay setc s t in (1 :: fst r, snd r)
      | SetOverflow => (2 :: nil, s)
      end
  end.

(* statuses and the m x m block the evaluation then hands to mps_mhessenberg_shifted_determinant *)
Definition mpoly_run (fixed : bool) (deg m : nat) (fill : GI) (calls : list (nat * list GI)) : list nat * list GI :=
  let setc := if fixed then set_coefficient_d_fixed deg m else set_coefficient_d_coded deg m in
  let r := mpoly_replay setc (mpoly_new deg m fill) calls in
  (fst r, firstn (m * m) (st_mP (snd r))).

Lemma mpoly_replay_ok setc s calls s' :
  run_calls setc s calls = Some s' -> mpoly_replay setc s calls = (repeat 0 (length calls), s').
Proof.
revert s. induction calls as [|[i mat] t IH]; intros s H; simpl in *.
- injection H as <-. reflexivity.
- destruct (setc s i mat) as [| |s1]; try discriminate.
  rewrite (IH s1 H). reflexivity.
Qed.
