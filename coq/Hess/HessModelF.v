(* C20 -- model of the loop of mps_fhessenberg_shifted_determinant WITH its rescaling test (definitions only).

     while (local_n-- > 1) {                        l = local_n after the decrement, n-1 .. 1
        for (i = 0; i < local_n - 1; i++) ...        (HessModel.step; on exit i == local_n - 1)
        ...
        if (i % 50 == 0) {                           per50 l  :=  (l - 1) % 50 == 0    (l = 1, 51, 101, 151, ...)
           max = max_j cplx_mod (vec[j]);  frexp (max, &exponent);  max = pow (2.0, exponent);
           vec[j] /= max  (j < local_n);   *acc_exponent += exponent;
        }
     }

   [ex vec] stands for the exponent delivered by frexp on the largest computed modulus, [scale k x] for
   x / 2^k, [kadd] for the addition of long ints.  Off the period the vector is NOT touched (no division by 1).
   [loop_f_tr] lists every state (vector, accumulated exponent) the loop holds: after the arithmetic of a pass
   and after its rescaling test. *)
Require Import MPSV.Hess.HessModel.

Section FCode.

Variable A : Type.
Variable o : ops A.
Variable K : Type.
Variable kadd : K -> K -> K.
Variable scale : K -> A -> A.
Variable ex : list A -> K.

Definition per50 (l : nat) : bool := Nat.eqb (Nat.modulo (pred l) 50) 0.

Definition fpass (h : nat -> nat -> A) (s : A) (l : nat) (st : list A * K) : (list A * K) * (list A * K) :=
  let v := step o h s l (fst st) in
  let st1 := (v, snd st) in
  (st1, if per50 l then rescale kadd scale (ex v) st1 else st1).

Fixpoint loop_f (h : nat -> nat -> A) (s : A) (l : nat) (st : list A * K) {struct l} : list A * K :=
  match l with
  | O => st
  | S l' => loop_f h s l' (snd (fpass h s l st))
  end.

Fixpoint loop_f_tr (h : nat -> nat -> A) (s : A) (l : nat) (st : list A * K) {struct l} : list (list A * K) :=
  match l with
  | O => nil
  | S l' => let p := fpass h s l st in cons (fst p) (cons (snd p) (loop_f_tr h s l' (snd p)))
  end.

(* (mantissa, exponent) returned by mps_fhessenberg_shifted_determinant *)
Definition fhess_code (k0 : K) (H : list A) (n : nat) (s : A) : A * K :=
  let st := loop_f (elem o H n) s (pred n) (init_vec o (elem o H n) n s, k0) in
  (nthd o (fst st) 0, snd st).

(* every state held, the initial one first *)
Definition fhess_code_tr (k0 : K) (H : list A) (n : nat) (s : A) : list (list A * K) :=
  let st0 := (init_vec o (elem o H n) n s, k0) in
  cons st0 (loop_f_tr (elem o H n) s (pred n) st0).

End FCode.
