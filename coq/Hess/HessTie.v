(* C20 -- the extracted Gaussian-integer oracle computes the determinant:
   stdlib Z * Z with the Gaussian operations of HessGauss.v is a MathComp comRingType,
   its operations are those of [gops], hence HessDet.hess_rec_rows_is_det applies. *)
From mathcomp Require Import all_ssreflect all_algebra.
Require Import ZArith.
Require Import MPSV.Hess.HessModel MPSV.Hess.HessDet MPSV.Hess.HessGauss.

Set Implicit Arguments.
Unset Strict Implicit.
Unset Printing Implicit Defensive.

(* ---- ring laws of the Gaussian operations (plain Z arithmetic) -------------------- *)
Section Laws.
Local Open Scope Z_scope.

Lemma gaddA : associative gadd.
Proof. by move=> [a b] [c d] [e f]; rewrite /gadd /=; congr pair; ring. Qed.
Lemma gaddC : commutative gadd.
Proof. by move=> [a b] [c d]; rewrite /gadd /=; congr pair; ring. Qed.
Lemma gadd0 : left_id g0 gadd.
Proof. by move=> [a b]. Qed.
Lemma gaddN : left_inverse g0 gopp gadd.
Proof. by move=> [a b]; rewrite /gadd /gopp /g0 /= !Z.add_opp_diag_l. Qed.

Lemma gmulA : associative gmul.
Proof. by move=> [a b] [c d] [e f]; rewrite /gmul /=; congr pair; ring. Qed.
Lemma gmulC : commutative gmul.
Proof. by move=> [a b] [c d]; rewrite /gmul /=; congr pair; ring. Qed.
Lemma gmul1 : left_id g1 gmul.
Proof. by move=> [a b]; rewrite /gmul /g1; cbn [fst snd]; congr pair; ring. Qed.
Lemma gmulD : left_distributive gmul gadd.
Proof. by move=> [a b] [c d] [e f]; rewrite /gmul /gadd /=; congr pair; ring. Qed.
End Laws.

(* ---- eqType / choiceType for Z through int -------------------------------------- *)
Definition Z2int (z : Z) : int :=
  match z with
  | Z0 => Posz 0
  | Zpos p => Posz (Pos.to_nat p)
  | Zneg p => Negz (Pos.to_nat p).-1
  end.

Definition int2Z (i : int) : Z :=
  match i with
  | Posz n => Z.of_nat n
  | Negz n => Z.opp (Z.of_nat n.+1)
  end.

Lemma Z2intK : cancel Z2int int2Z.
Proof.
case=> [|p|p] //; rewrite /Z2int /int2Z; first by rewrite positive_nat_Z.
rewrite prednK; last by apply/ltP; exact: Pos2Nat.is_pos.
by rewrite positive_nat_Z.
Qed.

Definition Z_eqMixin := CanEqMixin Z2intK.
Canonical Z_eqType := EqType Z Z_eqMixin.
Definition Z_choiceMixin := CanChoiceMixin Z2intK.
Canonical Z_choiceType := ChoiceType Z Z_choiceMixin.

(* ---- the ring of Gaussian integers on GI = Z * Z --------------------------------- *)
Canonical GI_eqType := [eqType of GI for prod_eqType Z_eqType Z_eqType].
Canonical GI_choiceType := [choiceType of GI for prod_choiceType Z_choiceType Z_choiceType].

Definition GI_zmodMixin := ZmodMixin gaddA gaddC gadd0 gaddN.
Canonical GI_zmodType := ZmodType GI GI_zmodMixin.

Lemma g1_neq0 : g1 != g0.
Proof. by []. Qed.

Definition GI_ringMixin := ComRingMixin gmulA gmulC gmul1 gmulD g1_neq0.
Canonical GI_ringType := RingType GI GI_ringMixin.
Canonical GI_comRingType := ComRingType GI gmulC.

Local Open Scope ring_scope.
Import GRing.Theory.

(* the operations used by the extracted code are the ring operations *)
Lemma gops_rops : gops = rops GI_comRingType.
Proof. by []. Qed.

Theorem hess_det_gauss_is_det m (H : 'M[GI_comRingType]_m.+1) (rows : seq (seq GI)) (s : GI) :
  upper_hessenberg H -> rows_of rows H ->
  hess_det_gauss rows m.+1 s = \det (H - s%:M).
Proof. by move=> uh ro; rewrite /hess_det_gauss gops_rops; exact: hess_rec_rows_is_det. Qed.

Theorem dhess_coded_gauss_is_det m (H : 'M[GI_comRingType]_m.+1) (rows : seq (seq GI)) (s : GI) :
  upper_hessenberg H -> rows_of rows H ->
  dhess_coded_gauss rows m.+1 s = \det (dcoded_mx H s).
Proof. by move=> uh ro; rewrite /dhess_coded_gauss gops_rops; exact: dhess_coded_rows_is_det. Qed.

(* concrete instance: the 3 x 3 example with Gaussian entries *)
Definition R3 : seq (seq GI) :=
  [:: [:: (2, 1); (3, 0); (5, -1)]; [:: (7, 0); (11, 2); (13, 0)]; [:: (0, 0); (17, -3); (19, 1)]]%Z.

Lemma R3_det : hess_det_gauss R3 3 (1, 1)%Z = (155, -167)%Z.
Proof. by vm_compute. Qed.
