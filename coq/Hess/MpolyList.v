(* C20 -- list surgery for the coefficient store model (stdlib lists, lia). *)
Require Import List Arith Lia.
Require Import MPSV.Hess.MpolyModel.

Section MpolyList.

Variable A : Type.
Implicit Types (l src : list A) (s : mstore A).

Lemma overwrite_length l off src :
  off + length src <= length l -> length (overwrite l off src) = length l.
Proof.
intros H. unfold overwrite. rewrite !app_length, firstn_length, skipn_length. lia.
Qed.

Lemma firstn_overwrite0 l src :
  length src <= length l -> firstn (length src) (overwrite l 0 src) = src.
Proof.
intros H. unfold overwrite. simpl.
rewrite firstn_app, Nat.sub_diag, firstn_all. simpl. apply app_nil_r.
Qed.

(* a later block does not touch the first one *)
Lemma firstn_overwrite_far l off src k :
  k <= off -> off <= length l -> firstn k (overwrite l off src) = firstn k l.
Proof.
intros H1 H2. unfold overwrite.
rewrite firstn_app, firstn_length, Nat.min_l by lia.
replace (k - off) with 0 by lia. simpl. rewrite app_nil_r.
rewrite firstn_firstn. f_equal. lia.
Qed.

Lemma firstn_overwrite_here l src k :
  length src = k -> k <= length l -> firstn k (overwrite l 0 src) = src.
Proof. intros <- H. apply firstn_overwrite0. exact H. Qed.

Variables deg m : nat.
Let L := m * m * (deg + 1).

Definition wf s := length (st_P s) = L /\ length (st_mP s) = L.

Lemma L_ge : m * m <= L.
Proof. unfold L. nia. Qed.

(* one accepted call: sizes are kept and the multiprecision first block is the double first block *)
Lemma set_ok bound s i mat s' :
  wf s -> length mat = m * m -> set_coeff_with bound deg m s i mat = SetOk s' ->
  wf s' /\ firstn (m * m) (st_mP s') = firstn (m * m) (st_P s')
  /\ st_P s' = overwrite (st_P s) (m * m * i) mat /\ i <= bound /\ i <= deg \/ m = 0 /\ wf s'.
Proof.
intros [HP HM] Hmat. unfold set_coeff_with.
destruct (Nat.ltb bound i) eqn:E1; [discriminate|].
destruct (Nat.ltb (m * m * (deg + 1)) (m * m * i + m * m)) eqn:E2; [discriminate|].
apply Nat.ltb_ge in E1. apply Nat.ltb_ge in E2.
intros H; injection H as <-. simpl.
assert (LP : length (overwrite (st_P s) (m * m * i) mat) = L).
{ rewrite overwrite_length; [exact HP|]. rewrite HP, Hmat. exact E2. }
assert (F : length (firstn (m * m) (overwrite (st_P s) (m * m * i) mat)) = m * m).
{ rewrite firstn_length, LP. pose proof L_ge. lia. }
assert (W : wf (MStore (overwrite (st_P s) (m * m * i) mat)
                       (overwrite (st_mP s) 0 (firstn (m * m) (overwrite (st_P s) (m * m * i) mat))))).
{ split; simpl; [exact LP|]. rewrite overwrite_length; [exact HM|]. rewrite F, HM. simpl. apply L_ge. }
destruct (Nat.eq_dec m 0) as [m0|m0]; [right; split; [exact m0 | exact W]|].
left. split; [exact W|]. split.
- apply firstn_overwrite_here; [exact F|]. rewrite HM. apply L_ge.
- split; [reflexivity|]. split; [exact E1|].
  unfold L in E2. assert (0 < m * m) by nia. nia.
Qed.

(* the fixed guard never lets the memmove leave the array *)
Lemma fixed_never_overflows s i mat : set_coefficient_d_fixed deg m s i mat <> SetOverflow.
Proof.
unfold set_coefficient_d_fixed, set_coeff_with.
destruct (Nat.ltb deg i) eqn:E1; [discriminate|].
apply Nat.ltb_ge in E1.
destruct (Nat.ltb (m * m * (deg + 1)) (m * m * i + m * m)) eqn:E2; [|discriminate].
apply Nat.ltb_lt in E2. nia.
Qed.

(* on the indices of the matrix polynomial the two guards agree *)
Lemma coded_fixed_agree s i mat :
  i <= deg -> 1 <= m -> set_coefficient_d_coded deg m s i mat = set_coefficient_d_fixed deg m s i mat.
Proof.
intros H1 H2. unfold set_coefficient_d_coded, set_coefficient_d_fixed, set_coeff_with.
assert (E : Nat.ltb (deg * m) i = false) by (apply Nat.ltb_ge; nia).
assert (E' : Nat.ltb deg i = false) by (apply Nat.ltb_ge; lia).
rewrite E, E'. reflexivity.
Qed.

Definition mats_ok (calls : list (nat * list A)) := Forall (fun c => length (snd c) = m * m) calls.

(* after ANY non-empty sequence of accepted calls (whatever the stores held before) *)
Lemma run_calls_block bound s calls s' :
  1 <= m -> wf s -> mats_ok calls -> calls <> nil ->
  run_calls (set_coeff_with bound deg m) s calls = Some s' ->
  wf s' /\ firstn (m * m) (st_mP s') = firstn (m * m) (st_P s').
Proof.
intros Hm. revert s. induction calls as [|[i mat] t IH]; intros s W Hc Hn H; [congruence|].
simpl in H. destruct (set_coeff_with bound deg m s i mat) as [| |s1] eqn:E; try discriminate.
inversion Hc as [|c t' Hmat Ht]; subst. simpl in Hmat.
destruct (set_ok bound s i mat s1 W Hmat E) as [[W1 [B _]]|[m0 _]]; [|lia].
destruct t as [|c2 t2].
- simpl in H. injection H as <-. split; assumption.
- apply (IH s1 W1 Ht); [discriminate|exact H].
Qed.

(* ... and the first block of P is the last matrix stored with index 0, else what it was *)
Lemma run_calls_block0 bound s calls s' :
  1 <= m -> wf s -> mats_ok calls ->
  run_calls (set_coeff_with bound deg m) s calls = Some s' ->
  firstn (m * m) (st_P s') = block0 (firstn (m * m) (st_P s)) calls.
Proof.
intros Hm. revert s. induction calls as [|[i mat] t IH]; intros s W Hc H.
- simpl in H. injection H as <-. reflexivity.
- simpl in H. destruct (set_coeff_with bound deg m s i mat) as [| |s1] eqn:E; try discriminate.
  inversion Hc as [|c t' Hmat Ht]; subst. simpl in Hmat.
  destruct (set_ok bound s i mat s1 W Hmat E) as [[W1 [_ [EP [_ Hi]]]]|[m0 _]]; [|lia].
  rewrite (IH s1 W1 Ht H). destruct W as [HP _].
  destruct i as [|i]; simpl; f_equal; rewrite EP.
  + rewrite Nat.mul_0_r. apply firstn_overwrite_here; [exact Hmat|]. rewrite HP. apply L_ge.
  + apply firstn_overwrite_far; [nia|]. rewrite HP. unfold L. nia.
Qed.

End MpolyList.
