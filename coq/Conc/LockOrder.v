(* C05 -- lock order: a generic lock semantics with a wait-for graph, and an executable acyclicity
   test for the observed "class A held while acquiring class B" relation.

   Semantics (threads = nat, locks = any type with decidable equality): a thread announces the lock it
   wants (Request; from then on it is blocked on it), is granted it when free (Grant), releases a lock
   it owns while not blocked (Release).  This is the pthread mutex semantics the scheduler shim
   implements (announce, then be chosen when enabled).
   Discipline: a thread requests lock l only while every lock it owns is strictly below l in a strict
   partial order.  Theorem: no reachable state has a cycle in the wait-for graph
   (t -> t' iff t is blocked on a lock owned by t'). *)
From Coq Require Import List Arith Lia Bool String Relations.
Import ListNotations.

Section LTS.
Variable L : Type.
Variable L_eq_dec : forall a b : L, {a = b} + {a <> b}.
Variable lt_l : L -> L -> Prop.
Hypothesis lt_irrefl : forall a, ~ lt_l a a.
Hypothesis lt_trans : forall a b c, lt_l a b -> lt_l b c -> lt_l a c.

Record lstate := { owner : L -> option nat; waiting : nat -> option L }.

Definition l_init : lstate := {| owner := fun _ => None; waiting := fun _ => None |}.

Inductive lstep : lstate -> lstate -> Prop :=
| Request s t l :
    waiting s t = None ->
    (forall h, owner s h = Some t -> lt_l h l) ->            (* the discipline *)
    lstep s {| owner := owner s; waiting := fun u => if Nat.eq_dec u t then Some l else waiting s u |}
| Grant s t l :
    waiting s t = Some l -> owner s l = None ->
    lstep s {| owner := fun h => if L_eq_dec h l then Some t else owner s h;
               waiting := fun u => if Nat.eq_dec u t then None else waiting s u |}
| Release s t l :
    owner s l = Some t -> waiting s t = None ->
    lstep s {| owner := fun h => if L_eq_dec h l then None else owner s h; waiting := waiting s |}.

Definition reachable (s : lstate) : Prop := clos_refl_trans _ lstep l_init s.

(* wait-for graph *)
Definition waits_for (s : lstate) (t t' : nat) : Prop :=
  exists l, waiting s t = Some l /\ owner s l = Some t'.

Definition ordered (s : lstate) : Prop :=
  forall t l h, waiting s t = Some l -> owner s h = Some t -> lt_l h l.

Lemma ordered_init : ordered l_init.
Proof. intros t l h H; discriminate. Qed.

Lemma ordered_step s s' : ordered s -> lstep s s' -> ordered s'.
Proof.
  intros Ho Hs; inversion Hs; subst; intros u l' h; simpl.
  - destruct (Nat.eq_dec u t) as [->|Hne]; intros Hw Hown.
    + inversion Hw; subst. auto.
    + eapply Ho; eassumption.
  - destruct (Nat.eq_dec u t) as [->|Hne]; [discriminate|]. intros Hw.
    destruct (L_eq_dec h l) as [->|Hl]; intro Hown.
    + inversion Hown; congruence.
    + eapply Ho; eassumption.
  - intros Hw. destruct (L_eq_dec h l) as [->|Hl]; [discriminate|]. intro Hown. eapply Ho; eassumption.
Qed.

Lemma ordered_reachable s : reachable s -> ordered s.
Proof.
  unfold reachable. intro H. apply clos_rt_rtn1 in H. induction H as [|s1 s2 Hst _ IH].
  - apply ordered_init.
  - eapply ordered_step; eassumption.
Qed.

Lemma waits_source s t t' : clos_trans _ (waits_for s) t t' -> exists l, waiting s t = Some l.
Proof.
  intro H. apply clos_trans_t1n in H. inversion H as [y Hy|y z Hy _]; subst; destruct Hy as (l & Hw & _); eauto.
Qed.

Lemma path_increases s : ordered s ->
  forall t t', clos_trans _ (waits_for s) t t' ->
  forall l l', waiting s t = Some l -> waiting s t' = Some l' -> lt_l l l'.
Proof.
  intros Ho t t' H. induction H as [t t' (l0 & Hw & Hown)|t u t' H1 IH1 H2 IH2]; intros l l' Hl Hl'.
  - assert (l0 = l) by congruence. subst l0. eapply Ho; eassumption.
  - destruct (waits_source _ _ _ H2) as (lu & Hlu). eapply lt_trans; [eapply IH1|eapply IH2]; eassumption.
Qed.

Theorem lock_order_no_deadlock s :
  reachable s -> forall t, ~ clos_trans _ (waits_for s) t t.
Proof.
  intros Hr t Hc. pose proof (ordered_reachable s Hr) as Ho.
  destruct (waits_source _ _ _ Hc) as (l & Hl).
  apply (lt_irrefl l). eapply path_increases; eassumption.
Qed.

(* with the discipline, a state in which somebody is blocked always has a thread that can move:
   follow the wait-for edges; they strictly increase the requested lock, so over finitely many locks
   the walk ends at a free lock (grant) or at an owner that is not blocked (it can release). *)
Theorem blocked_thread_has_runnable_successor s t l :
  reachable s -> waiting s t = Some l ->
  owner s l = None \/ exists t', owner s l = Some t' /\ t' <> t.
Proof.
  intros Hr Hw. destruct (owner s l) as [t'|] eqn:Ho; [right|left; reflexivity].
  exists t'. split; [reflexivity|]. intro; subst t'.
  apply (lt_irrefl l). eapply (ordered_reachable s Hr); eassumption.
Qed.

End LTS.

(* ------------------------------------------------------------------------------------------------ *)
(* Executable acyclicity test on the observed class relation.                                         *)

Definition lock_class := string.

Fixpoint index_of (c : lock_class) (l : list lock_class) : option nat :=
  match l with
  | [] => None
  | x :: r => if String.eqb x c then Some 0 else option_map S (index_of c r)
  end.

Definition respects (order : list lock_class) (edges : list (lock_class * lock_class)) : bool :=
  forallb (fun e => match index_of (fst e) order, index_of (snd e) order with
                    | Some i, Some j => i <? j
                    | _, _ => false
                    end) edges.

(* Kahn: repeatedly take a node without an incoming edge from the remaining nodes *)
Definition has_incoming (edges : list (lock_class * lock_class)) (nodes : list lock_class) (v : lock_class) : bool :=
  existsb (fun e => String.eqb (snd e) v && existsb (String.eqb (fst e)) nodes) edges.

Fixpoint topo (fuel : nat) (edges : list (lock_class * lock_class)) (nodes acc : list lock_class) : option (list lock_class) :=
  match fuel with
  | 0 => match nodes with [] => Some (rev acc) | _ => None end
  | S f =>
    match nodes with
    | [] => Some (rev acc)
    | _ => match find (fun v => negb (has_incoming edges nodes v)) nodes with
           | None => None
           | Some v => topo f edges (filter (fun x => negb (String.eqb x v)) nodes) (v :: acc)
           end
    end
  end.

Definition nodes_of (edges : list (lock_class * lock_class)) : list lock_class :=
  nodup string_dec (map fst edges ++ map snd edges).

Definition acyclic (edges : list (lock_class * lock_class)) : bool :=
  match topo (List.length (nodes_of edges)) edges (nodes_of edges) [] with
  | Some order => respects order edges
  | None => false
  end.

Definition class_rank (order : list lock_class) (c : lock_class) : nat :=
  match index_of c order with Some i => i | None => 0 end.

Theorem acyclic_sound edges :
  acyclic edges = true ->
  exists rank : lock_class -> nat, forall a b, In (a, b) edges -> rank a < rank b.
Proof.
  unfold acyclic. destruct (topo _ _ _ _) as [order|]; [|discriminate]. intro H.
  exists (class_rank order). intros a b Hin. unfold respects in H. rewrite forallb_forall in H.
  specialize (H _ Hin). simpl in H. unfold class_rank.
  destruct (index_of a order); [|discriminate]. destruct (index_of b order); [|discriminate].
  apply Nat.ltb_lt. assumption.
Qed.

(* hence: no cycle a1 -> a2 -> ... -> a1 in the relation *)
Corollary acyclic_no_cycle edges :
  acyclic edges = true -> forall a, ~ clos_trans _ (fun x y => In (x, y) edges) a a.
Proof.
  intros H a Hc. destruct (acyclic_sound _ H) as (rank & Hr).
  assert (Hlt : forall x y, clos_trans _ (fun x y => In (x, y) edges) x y -> rank x < rank y).
  { intros x y Hxy. induction Hxy as [x y Hxy|x y z _ IH1 _ IH2]; [auto|lia]. }
  specialize (Hlt _ _ Hc). lia.
Qed.

(* Locks of the solver: (class, index).  The order used for the discipline: class rank first, index
   second (same-class nesting must go by increasing index). *)
Definition lock := (lock_class * nat)%type.
Definition lock_lt (rank : lock_class -> nat) (a b : lock) : Prop :=
  rank (fst a) < rank (fst b) \/ (fst a = fst b /\ snd a < snd b).

Lemma lock_lt_irrefl rank a : ~ lock_lt rank a a.
Proof. intros [H|[_ H]]; lia. Qed.

Lemma lock_lt_trans rank a b c : lock_lt rank a b -> lock_lt rank b c -> lock_lt rank a c.
Proof.
  unfold lock_lt. intros [H1|[E1 H1]] [H2|[E2 H2]].
  - left; lia.
  - left; rewrite <- E2; assumption.
  - left; rewrite E1; assumption.
  - right; split; [congruence|lia].
Qed.

Definition lock_eq_dec (a b : lock) : {a = b} + {a <> b}.
Proof. decide equality; [apply Nat.eq_dec|apply string_dec]. Defined.

(* what the check verifies on every trace: each (held, acquired) pair is an edge of the list, or is
   a same-class pair with increasing index *)
Definition pair_allowed (edges : list (lock_class * lock_class)) (h a : lock) : Prop :=
  In (fst h, fst a) edges \/ (fst h = fst a /\ snd h < snd a).

Lemma allowed_lt edges rank :
  (forall a b, In (a, b) edges -> rank a < rank b) ->
  forall h a, pair_allowed edges h a -> lock_lt rank h a.
Proof. intros Hr h a [H|H]; [left; auto|right; assumption]. Qed.

(* ---- non-vacuity ---- *)
Example ex_edges : list (lock_class * lock_class) :=
  [("root", "aberth"); ("root", "gaberth"); ("gaberth", "aberth"); ("root", "coeff")]%string.
Example ex_acyclic : acyclic ex_edges = true. Proof. vm_compute. reflexivity. Qed.
Example ex_cyclic : acyclic (("aberth", "root")%string :: ex_edges) = false. Proof. vm_compute. reflexivity. Qed.
