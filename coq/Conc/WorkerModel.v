(* C05 -- small-step model of one iteration packet: k worker tasks (mps_thread_{f,d,m}polzer_worker,
   __mps_secular_ga_{f,d,m}iterate_worker) sharing a job queue, the per-root mutexes, the per-root
   Aberth mutexes, the global Aberth mutex (mpolzer), gs_mutex (secular) and the counter nzeros.

   One label = one step of one worker; a run is any interleaving of the workers' steps.
     LBegin t          the pool starts worker task t                         (Idle -> Head)
     LLockQ / LUnlockQ mps_thread_job_queue_next: lock, {compute job, advance queue} unlock
     LLockR t i        pthread_mutex_lock (&roots_mutex[i]) for the job just fetched
     LIn t op          an inner lock operation while holding roots_mutex[i]: Aberth mutex k
                       (one at a time: copy of the own root, mps_*aberth_wl reading root k), the global
                       Aberth mutex (mpolzer; Aberth mutexes nest inside it), gs_mutex (secular; leaf).
                       The four worker bodies differ only in WHICH well-nested sequence of these they
                       perform; the model admits every well-nested sequence of at most p_B operations
                       (the C loops perform at most 2n+6).  Values read under the Aberth mutexes are not
                       modelled: the correction is arbitrary (see WorkerProps, inclusion invariant).
     LFlip t           the Newton step finds root i in its root neighbourhood: again[i] := false
     LRead / LWrite    nzeros++ (through data->nzeros) as two steps (load, store of loaded+1): not atomic
     LUnlockR t i      pthread_mutex_unlock (&roots_mutex[i]) (not between LRead and LWrite; the
                       secular `isnan` branches leave after LFlip without touching nzeros: F1 allowed)
     LRet t            the worker returns: at the loop head (exit tests on excep / nzeros are
                       abstracted to "may return"), or right after a fetch (EXCEP job; secular
                       `nzeros >= n` test before the lock).
   Early return is nondeterministic, continuing is not: a worker that got EXCEP can only return. *)
From Coq Require Import List Arith Lia Bool.
From MPSV Require Import Conc.JobQueue.
Import ListNotations.

Inductive flip := F0 | F1 | F2 (v : nat) | F3.
Inductive inner_op := ALock (k : nat) | AUnlock (k : nat) | GLock | GUnlock | SLock | SUnlock.
Record inner := { in_g : bool; in_a : option nat; in_s : bool; in_fuel : nat }.

Inductive pc :=
| Idle | Done | Head | QL | Got (j : job) | InRoot (i it : nat) (inn : inner) (f : flip).

Inductive label :=
| LBegin (t : nat) | LLockQ (t : nat) | LUnlockQ (t : nat) | LLockR (t i : nat) | LUnlockR (t i : nat)
| LIn (t : nat) (o : inner_op) | LFlip (t : nat) | LRead (t : nat) | LWrite (t : nat) | LRet (t : nat).

Record params := { p_k : nat; p_max_it : nat; p_cl : list (list nat); p_B : nat }.

Record wstate := {
  w_q : qstate; w_qlock : option nat;
  w_rlock : nat -> option nat; w_alock : nat -> option nat; w_glock : option nat; w_slock : option nat;
  w_again : nat -> bool; w_nzeros : nat; w_flipped : list nat;
  w_pc : nat -> pc }.

Definition upd {A : Type} (f : nat -> A) (t : nat) (v : A) : nat -> A :=
  fun x => if x =? t then v else f x.

Definition w_init (p : params) (again0 : nat -> bool) (nz0 : nat) : wstate :=
  {| w_q := q_init (p_cl p); w_qlock := None;
     w_rlock := fun _ => None; w_alock := fun _ => None; w_glock := None; w_slock := None;
     w_again := again0; w_nzeros := nz0; w_flipped := [];
     w_pc := fun _ => Idle |}.

Definition set_pc (s : wstate) (t : nat) (c : pc) : wstate :=
  {| w_q := w_q s; w_qlock := w_qlock s; w_rlock := w_rlock s; w_alock := w_alock s; w_glock := w_glock s;
     w_slock := w_slock s; w_again := w_again s; w_nzeros := w_nzeros s; w_flipped := w_flipped s;
     w_pc := upd (w_pc s) t c |}.

Definition is_none {A} (o : option A) : bool := match o with None => true | Some _ => false end.

Definition fuel_dec (inn : inner) (g : bool) (a : option nat) (s : bool) (fu : nat) : inner :=
  {| in_g := g; in_a := a; in_s := s; in_fuel := fu |}.

Definition step_inner (s : wstate) (t i it : nat) (inn : inner) (f : flip) (o : inner_op) : option wstate :=
  match in_fuel inn with
  | 0 => None
  | S fu =>
    match o with
    | ALock k =>
      if is_none (in_a inn) && negb (in_s inn) && is_none (w_alock s k) then
        Some {| w_q := w_q s; w_qlock := w_qlock s; w_rlock := w_rlock s; w_alock := upd (w_alock s) k (Some t);
                w_glock := w_glock s; w_slock := w_slock s; w_again := w_again s; w_nzeros := w_nzeros s;
                w_flipped := w_flipped s;
                w_pc := upd (w_pc s) t (InRoot i it (fuel_dec inn (in_g inn) (Some k) (in_s inn) fu) f) |}
      else None
    | AUnlock k =>
      match in_a inn with
      | Some k' =>
        if k' =? k then
          Some {| w_q := w_q s; w_qlock := w_qlock s; w_rlock := w_rlock s; w_alock := upd (w_alock s) k None;
                  w_glock := w_glock s; w_slock := w_slock s; w_again := w_again s; w_nzeros := w_nzeros s;
                  w_flipped := w_flipped s;
                  w_pc := upd (w_pc s) t (InRoot i it (fuel_dec inn (in_g inn) None (in_s inn) fu) f) |}
        else None
      | None => None
      end
    | GLock =>
      if negb (in_g inn) && is_none (in_a inn) && negb (in_s inn) && is_none (w_glock s) then
        Some {| w_q := w_q s; w_qlock := w_qlock s; w_rlock := w_rlock s; w_alock := w_alock s;
                w_glock := Some t; w_slock := w_slock s; w_again := w_again s; w_nzeros := w_nzeros s;
                w_flipped := w_flipped s;
                w_pc := upd (w_pc s) t (InRoot i it (fuel_dec inn true None false fu) f) |}
      else None
    | GUnlock =>
      if in_g inn && is_none (in_a inn) && negb (in_s inn) then
        Some {| w_q := w_q s; w_qlock := w_qlock s; w_rlock := w_rlock s; w_alock := w_alock s;
                w_glock := None; w_slock := w_slock s; w_again := w_again s; w_nzeros := w_nzeros s;
                w_flipped := w_flipped s;
                w_pc := upd (w_pc s) t (InRoot i it (fuel_dec inn false None false fu) f) |}
      else None
    | SLock =>
      if negb (in_s inn) && is_none (in_a inn) && is_none (w_slock s) then
        Some {| w_q := w_q s; w_qlock := w_qlock s; w_rlock := w_rlock s; w_alock := w_alock s;
                w_glock := w_glock s; w_slock := Some t; w_again := w_again s; w_nzeros := w_nzeros s;
                w_flipped := w_flipped s;
                w_pc := upd (w_pc s) t (InRoot i it (fuel_dec inn (in_g inn) None true fu) f) |}
      else None
    | SUnlock =>
      if in_s inn then
        Some {| w_q := w_q s; w_qlock := w_qlock s; w_rlock := w_rlock s; w_alock := w_alock s;
                w_glock := w_glock s; w_slock := None; w_again := w_again s; w_nzeros := w_nzeros s;
                w_flipped := w_flipped s;
                w_pc := upd (w_pc s) t (InRoot i it (fuel_dec inn (in_g inn) (in_a inn) false fu) f) |}
      else None
    end
  end.

Definition inner_free (inn : inner) : bool := negb (in_g inn) && is_none (in_a inn) && negb (in_s inn).

Definition step (p : params) (s : wstate) (l : label) : option wstate :=
  match l with
  | LBegin t =>
    if t <? p_k p then match w_pc s t with Idle => Some (set_pc s t Head) | _ => None end else None
  | LLockQ t =>
    match w_pc s t, w_qlock s with
    | Head, None =>
      Some {| w_q := w_q s; w_qlock := Some t; w_rlock := w_rlock s; w_alock := w_alock s; w_glock := w_glock s;
              w_slock := w_slock s; w_again := w_again s; w_nzeros := w_nzeros s; w_flipped := w_flipped s;
              w_pc := upd (w_pc s) t QL |}
    | _, _ => None
    end
  | LUnlockQ t =>
    match w_pc s t with
    | QL =>
      let jq := q_next (p_cl p) (p_max_it p) (w_q s) in
      Some {| w_q := snd jq; w_qlock := None; w_rlock := w_rlock s; w_alock := w_alock s; w_glock := w_glock s;
              w_slock := w_slock s; w_again := w_again s; w_nzeros := w_nzeros s; w_flipped := w_flipped s;
              w_pc := upd (w_pc s) t (Got (fst jq)) |}
    | _ => None
    end
  | LLockR t i =>
    match w_pc s t with
    | Got (Job i' it) =>
      if (i' =? i) && is_none (w_rlock s i) then
        Some {| w_q := w_q s; w_qlock := w_qlock s; w_rlock := upd (w_rlock s) i (Some t); w_alock := w_alock s;
                w_glock := w_glock s; w_slock := w_slock s; w_again := w_again s; w_nzeros := w_nzeros s;
                w_flipped := w_flipped s;
                w_pc := upd (w_pc s) t (InRoot i it {| in_g := false; in_a := None; in_s := false; in_fuel := p_B p |} F0) |}
      else None
    | _ => None
    end
  | LUnlockR t i =>
    match w_pc s t with
    | InRoot i' it inn f =>
      if (i' =? i) && inner_free inn && match f with F2 _ => false | _ => true end then
        Some {| w_q := w_q s; w_qlock := w_qlock s; w_rlock := upd (w_rlock s) i None; w_alock := w_alock s;
                w_glock := w_glock s; w_slock := w_slock s; w_again := w_again s; w_nzeros := w_nzeros s;
                w_flipped := w_flipped s;
                w_pc := upd (w_pc s) t Head |}
      else None
    | _ => None
    end
  | LIn t o =>
    match w_pc s t with
    | InRoot i it inn f => step_inner s t i it inn f o
    | _ => None
    end
  | LFlip t =>
    match w_pc s t with
    | InRoot i it inn F0 =>
      if w_again s i then
        Some {| w_q := w_q s; w_qlock := w_qlock s; w_rlock := w_rlock s; w_alock := w_alock s; w_glock := w_glock s;
                w_slock := w_slock s; w_again := upd (w_again s) i false; w_nzeros := w_nzeros s;
                w_flipped := i :: w_flipped s;
                w_pc := upd (w_pc s) t (InRoot i it inn F1) |}
      else None
    | _ => None
    end
  | LRead t =>
    match w_pc s t with
    | InRoot i it inn F1 => Some (set_pc s t (InRoot i it inn (F2 (w_nzeros s))))
    | _ => None
    end
  | LWrite t =>
    match w_pc s t with
    | InRoot i it inn (F2 v) =>
      Some {| w_q := w_q s; w_qlock := w_qlock s; w_rlock := w_rlock s; w_alock := w_alock s; w_glock := w_glock s;
              w_slock := w_slock s; w_again := w_again s; w_nzeros := S v; w_flipped := w_flipped s;
              w_pc := upd (w_pc s) t (InRoot i it inn F3) |}
    | _ => None
    end
  | LRet t =>
    match w_pc s t with
    | Head => Some (set_pc s t Done)
    | Got _ => Some (set_pc s t Done)
    | _ => None
    end
  end.

Fixpoint run (p : params) (s : wstate) (tr : list label) : option wstate :=
  match tr with
  | [] => Some s
  | l :: tr' => match step p s l with Some s' => run p s' tr' | None => None end
  end.

(* executable views used by the trace validator (ocaml/worker_driver.ml) *)
Definition pc_tag (c : pc) : nat :=
  match c with Idle => 0 | Done => 1 | Head => 2 | QL => 3 | Got JExcep => 4 | Got (Job _ _) => 5 | InRoot _ _ _ _ => 6 end.
Definition pc_root (c : pc) : option nat :=
  match c with Got (Job i _) => Some i | InRoot i _ _ _ => Some i | _ => None end.
Definition holds_root (c : pc) (i : nat) : bool :=
  match c with InRoot i' _ _ _ => i' =? i | _ => false end.
(* executable mutual-exclusion test over workers 0..k-1 *)
Definition holders (s : wstate) (k i : nat) : nat :=
  length (filter (fun t => holds_root (w_pc s t) i) (seq 0 k)).
