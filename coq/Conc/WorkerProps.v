(* C05 -- properties of the worker model (WorkerModel.v), for EVERY interleaving (every label list
   accepted by `run`) and every behaviour of the arithmetic (LFlip may or may not happen). *)
From Coq Require Import List Arith Lia Bool.
From MPSV Require Import Conc.JobQueue Conc.WorkerModel.
Import ListNotations.

Arguments upd : simpl never.

Lemma upd_same {A} (f : nat -> A) t v : upd f t v t = v.
Proof. unfold upd. rewrite Nat.eqb_refl. reflexivity. Qed.
Lemma upd_other {A} (f : nat -> A) t v u : u <> t -> upd f t v u = f u.
Proof. intro H. unfold upd. apply Nat.eqb_neq in H. rewrite H. reflexivity. Qed.

Ltac inv_step H :=
  cbv zeta in H;
  repeat match type of H with
  | context [match ?x with _ => _ end] => destruct x eqn:?; try discriminate
  end; inversion H; subst; clear H.

Lemma run_app p tr1 : forall s tr2, run p s (tr1 ++ tr2) = match run p s tr1 with Some s' => run p s' tr2 | None => None end.
Proof. induction tr1 as [|l tr IH]; intros s tr2; simpl; [reflexivity|]. destruct (step p s l); [apply IH|reflexivity]. Qed.

(* induction principle: a property of the initial state preserved by every step holds after every run *)
Lemma run_ind p (P : wstate -> Prop) :
  (forall s l s', P s -> step p s l = Some s' -> P s') ->
  forall tr s s', P s -> run p s tr = Some s' -> P s'.
Proof.
  intros Hs tr; induction tr as [|l tr IH]; intros s s' H0 Hr; simpl in Hr.
  - inversion Hr; subst; assumption.
  - destruct (step p s l) eqn:E; [|discriminate]. eapply IH; [eapply Hs; eassumption|assumption].
Qed.

(* ------------------------------------------------------------------ mutual exclusion on a root *)
Definition inv_root (s : wstate) : Prop :=
  forall t i it inn f, w_pc s t = InRoot i it inn f -> w_rlock s i = Some t.

Lemma inv_root_frame s s' t c :
  inv_root s -> w_rlock s' = w_rlock s -> w_pc s' = upd (w_pc s) t c ->
  (forall i it inn f, c = InRoot i it inn f -> w_rlock s i = Some t) -> inv_root s'.
Proof.
  intros Hi Hr Hp Hc t' i it inn f Hpc. rewrite Hp in Hpc. rewrite Hr.
  destruct (Nat.eq_dec t' t) as [->|Hne].
  - rewrite upd_same in Hpc. eauto.
  - rewrite upd_other in Hpc by assumption. eauto.
Qed.

Lemma inv_root_step p s l s' : inv_root s -> step p s l = Some s' -> inv_root s'.
Proof.
  intros Hinv Hst. destruct l; simpl in Hst; unfold set_pc, step_inner in Hst; inv_step Hst;
  try (eapply inv_root_frame; [eassumption|reflexivity|reflexivity|
       intros ? ? ? ? Hc; first [discriminate Hc | inversion Hc; subst; eapply Hinv; eassumption]]).
  - (* LLockR *)
    apply andb_true_iff in Heqb. destruct Heqb as [Hi0 Hfree]. apply Nat.eqb_eq in Hi0. subst i0.
    intros t' i' it' inn' f' Hpc. simpl in *.
    destruct (Nat.eq_dec t' t) as [->|Hne].
    + rewrite upd_same in Hpc. inversion Hpc; subst. apply upd_same.
    + rewrite upd_other in Hpc by assumption. pose proof (Hinv _ _ _ _ _ Hpc) as Hl.
      destruct (Nat.eq_dec i' i) as [->|Hni].
      * rewrite Hl in Hfree. discriminate.
      * rewrite upd_other by assumption. assumption.
  - (* LUnlockR *)
    apply andb_true_iff in Heqb. destruct Heqb as [Hb _]. apply andb_true_iff in Hb. destruct Hb as [Hi0 _].
    apply Nat.eqb_eq in Hi0. subst i0.
    intros t' i' it' inn' f' Hpc. simpl in *.
    destruct (Nat.eq_dec t' t) as [->|Hne].
    + rewrite upd_same in Hpc. discriminate.
    + rewrite upd_other in Hpc by assumption. pose proof (Hinv _ _ _ _ _ Hpc) as Hl.
      destruct (Nat.eq_dec i' i) as [->|Hni].
      * pose proof (Hinv _ _ _ _ _ Heqp0) as Hl2. congruence.
      * rewrite upd_other by assumption. assumption.
Qed.

Theorem workers_mutex p again0 nz0 tr s :
  run p (w_init p again0 nz0) tr = Some s ->
  forall i t1 t2, holds_root (w_pc s t1) i = true -> holds_root (w_pc s t2) i = true -> t1 = t2.
Proof.
  intros Hr i t1 t2 H1 H2.
  assert (Hinv : inv_root s).
  { eapply (run_ind p inv_root); [apply inv_root_step| |eassumption]. intros t j it inn f H; discriminate. }
  unfold holds_root in *.
  destruct (w_pc s t1) eqn:E1; try discriminate. destruct (w_pc s t2) eqn:E2; try discriminate.
  apply Nat.eqb_eq in H1, H2. subst.
  pose proof (Hinv _ _ _ _ _ E1). pose proof (Hinv _ _ _ _ _ E2). congruence.
Qed.

(* only the holder of roots_mutex[i] writes again[i] (in the C code: the same critical section writes
   the approximation and its radius); every other step leaves the flags alone *)
Theorem workers_single_writer p again0 nz0 tr s l s' :
  run p (w_init p again0 nz0) tr = Some s -> step p s l = Some s' ->
  (forall j, w_again s' j = w_again s j) \/
  (exists t i, l = LFlip t /\ w_rlock s i = Some t /\ holds_root (w_pc s t) i = true /\
               w_again s i = true /\ w_again s' i = false /\ forall j, j <> i -> w_again s' j = w_again s j).
Proof.
  intros Hr Hst.
  assert (Hinv : inv_root s).
  { eapply (run_ind p inv_root); [apply inv_root_step| |eassumption]. intros t j it inn f H; discriminate. }
  destruct l; simpl in Hst; unfold set_pc, step_inner in Hst; inv_step Hst; simpl; try (left; reflexivity).
  right. exists t, i. split; [reflexivity|]. split; [eapply Hinv; eassumption|].
  split; [rewrite Heqp0; simpl; apply Nat.eqb_refl|]. split; [assumption|].
  split; [apply upd_same|]. intros j Hj. apply upd_other; assumption.
Qed.

(* ------------------------------------------------------------------ sums over the workers *)
Fixpoint sumf (f : nat -> nat) (k : nat) : nat := match k with 0 => 0 | S k' => sumf f k' + f k' end.

Lemma sumf_ext f g k : (forall x, x < k -> f x = g x) -> sumf f k = sumf g k.
Proof. induction k as [|k IH]; intro H; simpl; [reflexivity|]. rewrite IH, H by (intros; auto with arith). reflexivity. Qed.

Lemma sumf_upd (g : nat -> pc) (h : pc -> nat) t c k :
  t < k -> sumf (fun x => h (upd g t c x)) k + h (g t) = sumf (fun x => h (g x)) k + h c.
Proof.
  induction k as [|k IH]; intro Hlt; [lia|]. simpl.
  destruct (Nat.eq_dec t k) as [->|Hne].
  - rewrite upd_same. rewrite (sumf_ext (fun x => h (upd g k c x)) (fun x => h (g x)) k); [lia|].
    intros x Hx. rewrite upd_other by lia. reflexivity.
  - rewrite (upd_other g t c k) by lia. specialize (IH ltac:(lia)). lia.
Qed.

Definition inv_k (p : params) (s : wstate) : Prop := forall t, p_k p <= t -> w_pc s t = Idle.

Lemma inv_k_step p s l s' : inv_k p s -> step p s l = Some s' -> inv_k p s'.
Proof.
  intros Hk Hst. destruct l; simpl in Hst; unfold set_pc, step_inner in Hst; inv_step Hst;
  intros u Hu; simpl;
  (destruct (Nat.eq_dec u t) as [->|Hne];
   [ try (apply Nat.ltb_lt in Heqb; lia); rewrite (Hk _ Hu) in *; discriminate
   | rewrite upd_other by assumption; apply Hk; assumption ]).
Qed.

(* the thread that moves is one of the k workers *)
Definition actor (l : label) : nat :=
  match l with LBegin t | LLockQ t | LUnlockQ t | LLockR t _ | LUnlockR t _ | LIn t _ | LFlip t | LRead t | LWrite t | LRet t => t end.

Lemma actor_lt p s l s' : inv_k p s -> step p s l = Some s' -> actor l < p_k p.
Proof.
  intros Hk Hst. destruct (Nat.lt_ge_cases (actor l) (p_k p)) as [H|H]; [assumption|exfalso].
  pose proof (Hk _ H) as Hi.
  destruct l; simpl in *; unfold step_inner in Hst; rewrite Hi in Hst; try discriminate.
  apply Nat.ltb_ge in H. rewrite H in Hst. discriminate.
Qed.

(* ------------------------------------------------------------------ nzeros never overshoots *)
Definition pendf (c : pc) : nat :=
  match c with InRoot _ _ _ F1 => 1 | InRoot _ _ _ (F2 _) => 1 | _ => 0 end.
Definition pending (p : params) (s : wstate) : nat := sumf (fun t => pendf (w_pc s t)) (p_k p).

Definition inv_nz (p : params) (nz0 : nat) (s : wstate) : Prop :=
  inv_k p s /\
  w_nzeros s + pending p s <= nz0 + length (w_flipped s) /\
  forall t i it inn v, w_pc s t = InRoot i it inn (F2 v) -> v + pending p s <= nz0 + length (w_flipped s).

Ltac sum_pend p s :=
  match goal with
  | |- context [upd (w_pc s) ?t ?c] =>
    let H := fresh "Hsum" in
    pose proof (sumf_upd (w_pc s) pendf t c (p_k p)) as H
  end.

Lemma inv_nz_step p nz0 s l s' : inv_nz p nz0 s -> step p s l = Some s' -> inv_nz p nz0 s'.
Proof.
  intros (Hk & H1 & H2) Hst.
  pose proof (actor_lt _ _ _ _ Hk Hst) as Hlt.
  split; [eapply inv_k_step; eassumption|].
  unfold pending in *.
  destruct l; simpl in Hst, Hlt; unfold set_pc, step_inner in Hst; inv_step Hst; simpl;
  sum_pend p s; specialize (Hsum Hlt);
  match goal with Hp : w_pc s _ = _ |- _ => rewrite Hp in Hsum; simpl in Hsum end;
  (split; [try lia|
    intros t' i' it' inn' v' Hpc;
    destruct (Nat.eq_dec t' t) as [->|Hne];
    [ rewrite upd_same in Hpc; try discriminate Hpc; try (inversion Hpc; subst)
    | rewrite upd_other in Hpc by assumption; pose proof (H2 _ _ _ _ _ Hpc) ];
    try lia]).
  all: try (match goal with Hp : w_pc _ _ = InRoot _ _ _ (F2 _) |- _ => pose proof (H2 _ _ _ _ _ Hp); lia end).
Qed.

Lemma inv_nz_init p again0 nz0 : inv_nz p nz0 (w_init p again0 nz0).
Proof.
  assert (Hz : forall k, sumf (fun _ => 0) k = 0) by (induction k; simpl; lia).
  split; [intros t _; reflexivity|]. unfold pending. cbn [w_init w_pc w_nzeros w_flipped pendf length].
  rewrite Hz. split; [lia|]. intros; discriminate.
Qed.

(* the flags that were turned are distinct roots whose flag was set at the start of the packet *)
Definition inv_flip (again0 : nat -> bool) (s : wstate) : Prop :=
  NoDup (w_flipped s) /\ (forall i, In i (w_flipped s) -> w_again s i = false /\ again0 i = true) /\
  (forall i, w_again s i = true -> again0 i = true).

Lemma inv_flip_step p again0 s l s' : inv_flip again0 s -> step p s l = Some s' -> inv_flip again0 s'.
Proof.
  intros (Hnd & Hin & Hag) Hst.
  destruct l; simpl in Hst; unfold set_pc, step_inner in Hst; inv_step Hst; simpl;
  try (split; [assumption|split; assumption]).
  split; [constructor; [intro Hc; destruct (Hin _ Hc); congruence|assumption]|]. split.
  - intros j [<-|Hj].
    + split; [apply upd_same|apply Hag; assumption].
    + destruct (Hin _ Hj) as [Ha Hb]. split; [|assumption].
      cbn. destruct (Nat.eq_dec j i) as [->|Hne]; [apply upd_same|rewrite upd_other by assumption; assumption].
  - intros j Hj. cbn in Hj. destruct (Nat.eq_dec j i) as [->|Hne]; [rewrite upd_same in Hj; discriminate|].
    rewrite upd_other in Hj by assumption. apply Hag; assumption.
Qed.

Theorem workers_nzeros_never_overshoots p again0 nz0 tr s :
  run p (w_init p again0 nz0) tr = Some s ->
  w_nzeros s <= nz0 + length (w_flipped s) /\
  NoDup (w_flipped s) /\
  (forall i, In i (w_flipped s) -> again0 i = true /\ w_again s i = false).
Proof.
  intro Hr.
  assert (H1 : inv_nz p nz0 s) by (eapply (run_ind p (inv_nz p nz0)); [apply inv_nz_step|apply inv_nz_init|eassumption]).
  assert (H2 : inv_flip again0 s).
  { eapply (run_ind p (inv_flip again0)); [apply inv_flip_step| |eassumption].
    split; [constructor|]. split; [intros i []|]. intros i H; exact H. }
  destruct H1 as (_ & Hn & _). destruct H2 as (Hnd & Hin & _).
  split; [lia|]. split; [assumption|]. intros i Hi. destruct (Hin _ Hi); split; assumption.
Qed.

(* ------------------------------------------------------------------ termination *)
Section Term.
Variable p : params.
Hypothesis Hcl : wf_cl (p_cl p).
Let n := length (concat (p_cl p)).
Let C := p_B p + 9.

Definition rank (c : pc) : nat :=
  match c with
  | Done => 0
  | Got JExcep => 1
  | QL => 2
  | Head => 3
  | Idle => 4
  | InRoot _ _ inn f => 4 + in_fuel inn + match f with F0 => 3 | F1 => 2 | F2 _ => 1 | F3 => 0 end
  | Got (Job _ _) => p_B p + 8
  end.

Definition mu (s : wstate) : nat :=
  C * q_budget n (p_max_it p) (w_q s) + sumf (fun t => rank (w_pc s t)) (p_k p).

(* live = has not returned and has not been told EXCEP; used for the bound on the number of fetches *)
Definition live (c : pc) : nat := match c with Done => 0 | Got JExcep => 0 | _ => 1 end.
Definition nu (s : wstate) : nat :=
  q_budget n (p_max_it p) (w_q s) + sumf (fun t => live (w_pc s t)) (p_k p).
Definition is_fetch (l : label) : nat := match l with LUnlockQ _ => 1 | _ => 0 end.

Definition inv_q (s : wstate) : Prop :=
  qwf (w_q s) /\ forall it, q_iter (w_q s) = Some it -> it <= p_max_it p.

Definition inv_t (s : wstate) : Prop := inv_k p s /\ inv_q s.

Ltac sum_h h s :=
  match goal with
  | |- context [upd (w_pc s) ?t ?c] =>
    let H := fresh "Hsum" in
    pose proof (sumf_upd (w_pc s) h t c (p_k p)) as H
  end.

Lemma term_step s l s' :
  inv_t s -> step p s l = Some s' ->
  inv_t s' /\ mu s' < mu s /\ nu s' + is_fetch l <= nu s.
Proof.
  intros (Hk & Hq) Hst.
  pose proof (actor_lt _ _ _ _ Hk Hst) as Hlt.
  split; [split; [eapply inv_k_step; eassumption|]|].
  - destruct Hq as [Hw Hle].
    destruct l; simpl in Hst; unfold set_pc, step_inner in Hst; inv_step Hst; simpl; try (split; assumption).
    destruct (budget_step (p_cl p) (p_max_it p) Hcl (w_q s) Hw Hle) as (Hw' & Hle' & _). split; assumption.
  - unfold mu, nu.
    destruct l; simpl in Hst, Hlt; unfold set_pc, step_inner in Hst; inv_step Hst; simpl;
    sum_h rank s; specialize (Hsum Hlt); sum_h live s; specialize (Hsum0 Hlt);
    match goal with Hp : w_pc s _ = _ |- _ => rewrite Hp in Hsum, Hsum0; simpl in Hsum, Hsum0 end;
    try (split; lia).
    2: (destruct j; simpl in Hsum, Hsum0; split; lia).
    (* LUnlockQ: the fetch *)
    destruct Hq as [Hw Hle].
    destruct (budget_step (p_cl p) (p_max_it p) Hcl (w_q s) Hw Hle) as (_ & _ & Hb). fold n in Hb.
    destruct (fst (q_next (p_cl p) (p_max_it p) (w_q s))) eqn:Ej; simpl in *.
    + split; [nia|lia].
    + split; [|lia]. unfold C.
      set (b' := q_budget n (p_max_it p) (snd (q_next (p_cl p) (p_max_it p) (w_q s)))) in *.
      set (b := q_budget n (p_max_it p) (w_q s)) in *. nia.
Qed.

Lemma inv_t_init again0 nz0 : inv_t (w_init p again0 nz0).
Proof.
  split; [intros t _; reflexivity|]. split; simpl.
  - apply init_wf; assumption.
  - intros it H; inversion H; lia.
Qed.

Lemma term_run tr : forall s s',
  inv_t s -> run p s tr = Some s' ->
  inv_t s' /\ mu s' + length tr <= mu s /\ nu s' + list_sum (map is_fetch tr) <= nu s.
Proof.
  induction tr as [|l tr IH]; intros s s' Hi Hr; simpl in Hr.
  - inversion Hr; subst. simpl. split; [assumption|]. split; lia.
  - destruct (step p s l) as [s1|] eqn:E; [|discriminate].
    destruct (term_step _ _ _ Hi E) as (Hi1 & Hm & Hn).
    destruct (IH _ _ Hi1 Hr) as (Hi' & Hm' & Hn'). split; [assumption|]. simpl. split; lia.
Qed.

Lemma sumf_const c k : sumf (fun _ => c) k = k * c.
Proof. induction k; simpl; lia. Qed.

Lemma budget_init : q_budget n (p_max_it p) (q_init (p_cl p)) = p_max_it p * n + n.
Proof.
  unfold q_budget. cbn [q_init q_iter]. rewrite Nat.sub_0_r. rewrite (init_remaining (p_cl p) Hcl). reflexivity.
Qed.

(* every run is finite, with an explicit bound; and it contains at most n*(max_it+1)+k fetches *)
Theorem workers_terminate again0 nz0 tr s :
  run p (w_init p again0 nz0) tr = Some s ->
  length tr <= (p_B p + 9) * (n * (p_max_it p + 1)) + 4 * p_k p /\
  list_sum (map is_fetch tr) <= n * (p_max_it p + 1) + p_k p.
Proof.
  intro Hr. destruct (term_run tr _ _ (inv_t_init again0 nz0) Hr) as (_ & Hm & Hn).
  unfold mu, nu in Hm, Hn. simpl in Hm, Hn. rewrite budget_init in Hm, Hn.
  rewrite sumf_const in Hm, Hn. fold C in Hm. unfold C in Hm. split; nia.
Qed.

(* a worker that was handed EXCEP can only return *)
Theorem workers_after_excep s t l s' :
  w_pc s t = Got JExcep -> step p s l = Some s' -> actor l = t -> l = LRet t /\ w_pc s' t = Done.
Proof.
  intros Hp Hst Ha. destruct l; simpl in Ha; subst; simpl in Hst; unfold step_inner in Hst; rewrite Hp in Hst; try discriminate.
  - destruct (t <? p_k p); discriminate.
  - inversion Hst; subst. split; [reflexivity|]. simpl. apply upd_same.
Qed.

End Term.

(* ------------------------------------------------------------------ inclusion invariant *)
(* The data side of a worker step, over an abstract metric space (the complex plane in the code).
   While it holds roots_mutex[i] a worker replaces (z_i, r_i) either
     - by moving the centre by the Aberth-corrected Newton step and adding the length of the move to
       the radius (frad += modcorr; drad += |abcorr|): the new centre is ARBITRARY here, because the
       correction is computed from the other approximations, which are read while their owners may be
       writing them (the f and d workers read them without any lock), or
     - by a freshly certified Newton disc (mps_*newton sets the radius when it clears `again`; that this
       disc contains a root is property C01, an assumption of this step).
   Whatever the interleaving of such steps over all roots, every disc keeps containing a root. *)
From Coq Require Import Reals Lra Relations.
Section Inclusion.
Local Open Scope R_scope.
Variable X : Type.
Variable dist : X -> X -> R.
Hypothesis dist_tri : forall a b c, dist a c <= dist a b + dist b c.
Hypothesis dist_sym : forall a b, dist a b = dist b a.
Variable is_root : X -> Prop.

Definition disc : Type := (X * R)%type.
Definition contains (d : disc) : Prop := exists x, is_root x /\ dist (fst d) x <= snd d.

Inductive dstep : (nat -> disc) -> (nat -> disc) -> Prop :=
| move_enlarge d i z' r' : snd (d i) + dist (fst (d i)) z' <= r' -> dstep d (upd d i (z', r'))
| recertify d i z' r' : contains (z', r') -> dstep d (upd d i (z', r')).

Lemma dstep_contains d d' : dstep d d' -> (forall i, contains (d i)) -> forall i, contains (d' i).
Proof.
  intros Hs Hall j. destruct Hs as [d i z' r' Hr|d i z' r' Hc].
  - destruct (Nat.eq_dec j i) as [->|Hne].
    + rewrite upd_same. destruct (Hall i) as (x & Hx & Hd). exists x. split; [assumption|]. simpl.
      pose proof (dist_tri z' (fst (d i)) x) as Ht. rewrite (dist_sym z' (fst (d i))) in Ht. lra.
    + rewrite upd_other by assumption. apply Hall.
  - destruct (Nat.eq_dec j i) as [->|Hne].
    + rewrite upd_same. assumption.
    + rewrite upd_other by assumption. apply Hall.
Qed.

Theorem workers_inclusion_invariant d d' :
  clos_refl_trans _ dstep d d' -> (forall i, contains (d i)) -> forall i, contains (d' i).
Proof.
  intro H. apply clos_rt_rtn1 in H. induction H as [|d1 d2 Hst _ IH]; intro Hall; [assumption|].
  eapply dstep_contains; [eassumption|apply IH; assumption].
Qed.
End Inclusion.
