(* C05 -- properties of the refined worker model (WorkerRefined.v) for EVERY interleaving of single
   instructions, proved for an ARBITRARY program whose lock-set annotation passes `check_prog`; the six
   transcribed worker bodies pass it (all_progs_ok, by computation on the finite program texts). *)
From Coq Require Import List Arith Lia Bool Relations.
From MPSV Require Import Conc.JobQueue Conc.WorkerRefined Conc.LockOrder.
Import ListNotations.

Arguments nupd : simpl never.
Arguments oupd : simpl never.

Lemma nupd_same {A} (f : nat -> A) t v : nupd f t v t = v.
Proof. unfold nupd. rewrite Nat.eqb_refl. reflexivity. Qed.
Lemma nupd_other {A} (f : nat -> A) t v u : u <> t -> nupd f t v u = f u.
Proof. intro H. unfold nupd. apply Nat.eqb_neq in H. rewrite H. reflexivity. Qed.

Lemma lk_eqb_eq a b : lk_eqb a b = true <-> a = b.
Proof.
  destruct a, b; simpl; split; intro H; try discriminate; try reflexivity;
    try (apply Nat.eqb_eq in H; subst; reflexivity); try (inversion H; subst; apply Nat.eqb_refl).
Qed.
Lemma lk_eq_dec (a b : lk) : {a = b} + {a <> b}.
Proof. decide equality; apply Nat.eq_dec. Defined.
Lemma oupd_same f l v : oupd f l v l = v.
Proof. unfold oupd. rewrite (proj2 (lk_eqb_eq l l) eq_refl). reflexivity. Qed.
Lemma oupd_other f l v x : x <> l -> oupd f l v x = f x.
Proof. intro H. unfold oupd. destruct (lk_eqb x l) eqn:E; [apply lk_eqb_eq in E; contradiction|reflexivity]. Qed.

Lemma hst_eqb_eq a b : hst_eqb a b = true <-> a = b.
Proof. destruct a, b; simpl; split; intro H; try discriminate; reflexivity. Qed.
Lemma ann_eqb_eq a b : ann_eqb a b = true <-> a = b.
Proof.
  split.
  - unfold ann_eqb. intro H. repeat (apply andb_true_iff in H; destruct H as [H ?]).
    repeat match goal with X : hst_eqb _ _ = true |- _ => apply hst_eqb_eq in X end.
    destruct a, b; simpl in *; subst; reflexivity.
  - intros ->. unfold ann_eqb. destruct b as [[] [] [] [] [] []]; reflexivity.
Qed.
Lemma is_no_eq h : is_no h = true <-> h = HNo.
Proof. destruct h; simpl; split; intro; try discriminate; reflexivity. Qed.

Lemma aget_aset_same a m h : aget (aset a m h) m = h.
Proof. destruct m; reflexivity. Qed.
Lemma aget_aset_other a m h m' : m' <> m -> aget (aset a m h) m' = aget a m'.
Proof. destruct m, m'; simpl; intro H; try reflexivity; contradiction H; reflexivity. Qed.
Lemma mtx_eq_dec (a b : mtx) : {a = b} + {a <> b}.
Proof. decide equality. Defined.

Section Refined.
Variable p : rparams.
Variable anns : list ann.
Hypothesis Hck : check_prog (rp_prog p) anns = true.

Notation prog := (rp_prog p).
Definition ann_at (pc : nat) : ann := nth pc anns ann0.
Definition phys (h : hst) : bool := match h with HNo => false | HYes => true | HGd => negb (rp_pool1 p) end.

(* ---- what check_prog gives at one program point *)
Lemma ck_at pc ins :
  nth_error prog pc = Some ins ->
  ok_instr (ann_at pc) ins = true /\ wf_ann (ann_at pc) = true /\
  forall pc', In pc' (succs pc ins) -> pc' < length prog /\ ann_at pc' = transfer (ann_at pc) ins.
Proof.
  intro Hn. unfold check_prog in Hck.
  apply andb_true_iff in Hck. destruct Hck as [_ Hall].
  rewrite forallb_forall in Hall.
  assert (Hlt : pc < length prog) by (apply nth_error_Some; congruence).
  assert (Hinseq : In pc (seq 0 (length prog))) by (apply in_seq; lia).
  specialize (Hall pc Hinseq). cbv zeta in Hall.
  rewrite (nth_error_nth _ _ IRet Hn) in Hall.
  apply andb_true_iff in Hall. destruct Hall as [H1 H3]. apply andb_true_iff in H1. destruct H1 as [H1 H2].
  split; [exact H1|]. split; [exact H2|].
  intros pc' Hin. rewrite forallb_forall in H3. specialize (H3 _ Hin).
  apply andb_true_iff in H3. destruct H3 as [Ha Hb]. apply Nat.ltb_lt in Ha. apply ann_eqb_eq in Hb.
  split; assumption.
Qed.
Lemma ck_entry : 0 < length prog /\ ann_at 0 = ann0.
Proof.
  unfold check_prog in Hck. apply andb_true_iff in Hck. destruct Hck as [H _].
  apply andb_true_iff in H. destruct H as [H H3]. apply andb_true_iff in H. destruct H as [_ H2].
  apply Nat.ltb_lt in H2. apply ann_eqb_eq in H3. split; assumption.
Qed.

(* ---- which locks a thread holds according to the annotation of its program point *)
Definition holds_at (a : ann) (th : thr) (l : lk) : Prop :=
  exists m, phys (aget a m) = true /\ lock_of th m = l.
Definition tholds (th : thr) (l : lk) : Prop :=
  exists pc, t_st th = TRun pc /\ holds_at (ann_at pc) th l.

Record Inv (s : rstate) : Prop := {
  inv_pc : forall t pc, t_st (r_th s t) = TRun pc -> pc < length prog /\ t < rp_k p;
  inv_own : forall l t, r_own s l = Some t <-> tholds (r_th s t) l;
  inv_seq : rp_pool1 p = true -> forall t1 t2 pc1 pc2,
      t_st (r_th s t1) = TRun pc1 -> t_st (r_th s t2) = TRun pc2 -> t1 = t2 }.

Lemma inv_init again0 nz0 ex0 : Inv (r_init p again0 nz0 ex0).
Proof.
  split; simpl.
  - intros t pc H. discriminate.
  - intros l t. split; [discriminate|]. intros (pc & H & _). discriminate.
  - intros _ t1 t2 pc1 pc2 H. discriminate.
Qed.

(* a held annotation entry gives a lock that differs from the lock of any other held entry *)
Lemma lock_of_inj a th m1 m2 :
  wf_ann a = true -> phys (aget a m1) = true -> phys (aget a m2) = true ->
  lock_of th m1 = lock_of th m2 -> m1 = m2.
Proof.
  intros Hwf H1 H2 He. unfold wf_ann in Hwf. apply orb_true_iff in Hwf.
  destruct m1, m2; simpl in He; try discriminate; try reflexivity; exfalso;
    simpl in H1, H2; destruct Hwf as [Hw|Hw]; apply is_no_eq in Hw; rewrite Hw in *; simpl in *; discriminate.
Qed.

(* frame: a step of thread t that leaves the lock table alone and keeps what t holds *)
Lemma inv_local s t th' s' pc' :
  Inv s ->
  r_own s' = r_own s -> r_th s' = nupd (r_th s) t th' ->
  t_st th' = TRun pc' -> pc' < length prog -> t < rp_k p ->
  (exists pc0, t_st (r_th s t) = TRun pc0) ->
  (forall l, holds_at (ann_at pc') th' l <-> tholds (r_th s t) l) ->
  Inv s'.
Proof.
  intros [Hpc Hown Hseq] Eo Et Hst Hlt Htk (pc0 & Hrun) Hh. split.
  - intros u pc Hu. rewrite Et in Hu. destruct (Nat.eq_dec u t) as [->|Hne].
    + rewrite nupd_same in Hu. rewrite Hst in Hu. inversion Hu; subst. split; assumption.
    + rewrite nupd_other in Hu by assumption. eauto.
  - intros l u. rewrite Eo, Et. destruct (Nat.eq_dec u t) as [->|Hne].
    + rewrite nupd_same. rewrite Hown. rewrite <- Hh. unfold tholds. split.
      * intro H. exists pc'. split; assumption.
      * intros (pc & Hp & H). rewrite Hst in Hp. inversion Hp; subst. assumption.
    + rewrite nupd_other by assumption. apply Hown.
  - intros Hp1 t1 t2 pc1 pc2 H1 H2. rewrite Et in H1, H2.
    destruct (Nat.eq_dec t1 t) as [->|N1]; destruct (Nat.eq_dec t2 t) as [->|N2]; try reflexivity.
    + rewrite nupd_other in H2 by assumption. symmetry. eapply Hseq; eassumption.
    + rewrite nupd_other in H1 by assumption. eapply Hseq; eassumption.
    + rewrite nupd_other in H1, H2 by assumption. eapply Hseq; eassumption.
Qed.

(* same annotation, same lock operands: nothing changes for what is held *)
Lemma holds_same s t pc th' pc' :
  t_st (r_th s t) = TRun pc -> ann_at pc' = ann_at pc ->
  (forall m, phys (aget (ann_at pc) m) = true -> lock_of th' m = lock_of (r_th s t) m) ->
  forall l, holds_at (ann_at pc') th' l <-> tholds (r_th s t) l.
Proof.
  intros Hst Ha Hl l. rewrite Ha. unfold tholds, holds_at. split.
  - intros (m & Hp & He). exists pc. split; [assumption|]. exists m. split; [assumption|]. rewrite <- Hl by assumption. assumption.
  - intros (pc0 & Hp0 & m & Hp & He). rewrite Hst in Hp0. inversion Hp0; subst pc0.
    exists m. split; [assumption|]. rewrite Hl by assumption. assumption.
Qed.

Ltac ck_here Hn := let Hok := fresh "Hok" in let Hwf := fresh "Hwf" in let Hsucc := fresh "Hsucc" in
  destruct (ck_at _ _ Hn) as (Hok & Hwf & Hsucc).

(* the invariant is preserved by every step *)
Lemma inv_step s t ch s' : Inv s -> rstep p s t ch = Some s' -> Inv s'.
Proof.
  intros HI Hs. unfold rstep in Hs.
  destruct (t <? rp_k p) eqn:Htk; [|discriminate]. apply Nat.ltb_lt in Htk.
  destruct (t_st (r_th s t)) as [|pc|] eqn:Hst; [| |discriminate].
  - (* begin *)
    destruct (rp_pool1 p && existsb (fun u => is_running (r_th s u)) (seq 0 (rp_k p))) eqn:Hg; [discriminate|].
    inversion Hs; subst s'; clear Hs. destruct HI as [Hpc Hown Hseq]. destruct ck_entry as [Hlen Ha0]. split; simpl.
    + intros u pc Hu. destruct (Nat.eq_dec u t) as [->|Hne].
      * rewrite nupd_same in Hu. simpl in Hu. inversion Hu; subst. split; assumption.
      * rewrite nupd_other in Hu by assumption. eauto.
    + intros l u. destruct (Nat.eq_dec u t) as [->|Hne].
      * rewrite nupd_same. rewrite Hown. split.
        -- intros (pc & Hp & _). congruence.
        -- intros (pc & Hp & m & Hph & _). simpl in Hp. inversion Hp; subst pc. rewrite Ha0 in Hph.
           destruct m; discriminate.
      * rewrite nupd_other by assumption. apply Hown.
    + intros Hp1 t1 t2 pc1 pc2 H1 H2. rewrite Hp1 in Hg. simpl in Hg.
      assert (Hnone : forall u pcu, u <> t -> t_st (r_th s u) = TRun pcu -> False).
      { intros u pcu Hne Hu. destruct (Hpc _ _ Hu) as [_ Hk].
        assert (E : existsb (fun u => is_running (r_th s u)) (seq 0 (rp_k p)) = true).
        { apply existsb_exists. exists u. split; [apply in_seq; lia|]. unfold is_running. rewrite Hu. reflexivity. }
        congruence. }
      destruct (Nat.eq_dec t1 t) as [->|N1]; destruct (Nat.eq_dec t2 t) as [->|N2]; try reflexivity; exfalso.
      * rewrite nupd_other in H2 by assumption. eauto.
      * rewrite nupd_other in H1 by assumption. eauto.
      * rewrite nupd_other in H1 by assumption. eauto.
  - (* an instruction *)
    destruct (nth_error prog pc) as [ins|] eqn:Hn; [|discriminate].
    ck_here Hn.
    assert (Hrun : exists pc0, t_st (r_th s t) = TRun pc0) by eauto.
    assert (HS : forall x, In x (succs pc ins) -> x < length prog) by (intros x Hx; apply Hsucc; assumption).
    assert (HA : forall x, In x (succs pc ins) -> ann_at x = transfer (ann_at pc) ins) by (intros x Hx; apply Hsucc; assumption).
    destruct ins; simpl in Hs;
    (* all instructions that do not touch the lock table and keep i / k *)
    try (inversion Hs; subst s'; clear Hs;
         eapply inv_local; [exact HI|reflexivity|reflexivity|reflexivity| | assumption | assumption |];
         [ apply HS; simpl; auto
         | eapply holds_same; [exact Hst| rewrite HA by (simpl; auto); reflexivity | intros; reflexivity] ]; fail).
    + (* ILock *)
      destruct (effective p g) eqn:Heff.
      * destruct (r_own s (lock_of (r_th s t) m)) eqn:Hfree; [discriminate|].
        inversion Hs; subst s'; clear Hs.
        assert (Hg : phys (if g then HGd else HYes) = true).
        { unfold effective in Heff. destruct g; simpl in *; [destruct (rp_pool1 p); simpl in *; congruence|reflexivity]. }
        assert (Hno : aget (ann_at pc) m = HNo).
        { simpl in Hok. unfold held_ranks_lt in Hok. rewrite forallb_forall in Hok.
          assert (Hin : In m all_mtx) by (destruct m; simpl; auto 10).
          specialize (Hok _ Hin). apply orb_true_iff in Hok. destruct Hok as [H|H]; [apply is_no_eq; assumption|].
          apply Nat.ltb_lt in H. lia. }
        destruct HI as [Hpc Hown Hseq]. set (l0 := lock_of (r_th s t) m) in *. split; simpl.
        -- intros u pcu Hu. destruct (Nat.eq_dec u t) as [->|Hne].
           ++ rewrite nupd_same in Hu. simpl in Hu. inversion Hu; subst. split; [apply HS; simpl; auto|assumption].
           ++ rewrite nupd_other in Hu by assumption. eauto.
        -- intros l u. destruct (Nat.eq_dec u t) as [->|Hne].
           ++ rewrite nupd_same. unfold tholds. simpl.
              destruct (lk_eq_dec l l0) as [->|Hl].
              ** rewrite oupd_same. split; [intros _|reflexivity].
                 exists (S pc). split; [reflexivity|]. rewrite HA by (simpl; auto). simpl.
                 exists m. rewrite aget_aset_same. split; [assumption|reflexivity].
              ** rewrite oupd_other by assumption. rewrite Hown. unfold tholds. split.
                 --- intros (pc0 & Hp0 & m' & Hph & He). rewrite Hst in Hp0. inversion Hp0; subst pc0.
                     exists (S pc). split; [reflexivity|]. rewrite HA by (simpl; auto). simpl.
                     exists m'. rewrite aget_aset_other; [split; assumption|]. intros ->. rewrite Hno in Hph. discriminate.
                 --- intros (pc0 & Hp0 & m' & Hph & He). inversion Hp0; subst pc0. rewrite HA in Hph by (simpl; auto). simpl in Hph.
                     destruct (mtx_eq_dec m' m) as [->|Hm].
                     +++ exfalso. apply Hl. rewrite <- He. reflexivity.
                     +++ rewrite aget_aset_other in Hph by assumption. exists pc. split; [assumption|]. exists m'. split; assumption.
           ++ rewrite nupd_other by assumption.
              destruct (lk_eq_dec l l0) as [->|Hl].
              ** rewrite oupd_same. split; [intro H; inversion H; congruence|].
                 intro H. apply Hown in H. congruence.
              ** rewrite oupd_other by assumption. apply Hown.
        -- intros Hp1 t1 t2 pc1 pc2 H1 H2.
           destruct (Nat.eq_dec t1 t) as [->|N1]; destruct (Nat.eq_dec t2 t) as [->|N2]; try reflexivity.
           ++ rewrite nupd_other in H2 by assumption. symmetry. eapply Hseq; eassumption.
           ++ rewrite nupd_other in H1 by assumption. eapply Hseq; eassumption.
           ++ rewrite nupd_other in H1, H2 by assumption. eapply Hseq; eassumption.
      * (* skipped guarded lock *)
        inversion Hs; subst s'; clear Hs.
        assert (Hg : g = true /\ rp_pool1 p = true).
        { unfold effective in Heff. destruct g; simpl in Heff; [split; [reflexivity|]; destruct (rp_pool1 p); simpl in *; congruence|discriminate]. }
        destruct Hg as [-> Hp1].
        assert (Hno : aget (ann_at pc) m = HNo).
        { simpl in Hok. unfold held_ranks_lt in Hok. rewrite forallb_forall in Hok.
          assert (Hin : In m all_mtx) by (destruct m; simpl; auto 10).
          specialize (Hok _ Hin). apply orb_true_iff in Hok. destruct Hok as [H|H]; [apply is_no_eq; assumption|].
          apply Nat.ltb_lt in H. lia. }
        eapply inv_local; [exact HI|reflexivity|reflexivity|reflexivity| apply HS; simpl; auto | assumption | assumption |].
        intro l. rewrite HA by (simpl; auto). simpl. unfold tholds, holds_at. split.
        -- intros (m' & Hph & He). exists pc. split; [assumption|]. exists m'.
           destruct (mtx_eq_dec m' m) as [->|Hm].
           ++ rewrite aget_aset_same in Hph. simpl in Hph. rewrite Hp1 in Hph. discriminate.
           ++ rewrite aget_aset_other in Hph by assumption. split; assumption.
        -- intros (pc0 & Hp0 & m' & Hph & He). rewrite Hst in Hp0. inversion Hp0; subst pc0.
           exists m'. rewrite aget_aset_other; [split; assumption|]. intros ->. rewrite Hno in Hph. discriminate.
    + (* IUnlock *)
      simpl in Hok. apply hst_eqb_eq in Hok.
      destruct (effective p g) eqn:Heff.
      * destruct (r_own s (lock_of (r_th s t) m)) as [u|] eqn:Hown0; [|discriminate].
        destruct (u =? t) eqn:Hut; [|discriminate]. apply Nat.eqb_eq in Hut. subst u.
        inversion Hs; subst s'; clear Hs.
        assert (Hg : phys (aget (ann_at pc) m) = true).
        { rewrite Hok. unfold effective in Heff. destruct g; simpl in *; [destruct (rp_pool1 p); simpl in *; congruence|reflexivity]. }
        destruct HI as [Hpc Hown Hseq]. set (l0 := lock_of (r_th s t) m) in *. split; simpl.
        -- intros u pcu Hu. destruct (Nat.eq_dec u t) as [->|Hne].
           ++ rewrite nupd_same in Hu. simpl in Hu. inversion Hu; subst. split; [apply HS; simpl; auto|assumption].
           ++ rewrite nupd_other in Hu by assumption. eauto.
        -- intros l u. destruct (Nat.eq_dec u t) as [->|Hne].
           ++ rewrite nupd_same. unfold tholds. simpl.
              destruct (lk_eq_dec l l0) as [->|Hl].
              ** rewrite oupd_same. split; [discriminate|].
                 intros (pc0 & Hp0 & m' & Hph & He). exfalso. inversion Hp0; subst pc0. rewrite HA in Hph by (simpl; auto). simpl in Hph.
                 destruct (mtx_eq_dec m' m) as [->|Hm].
                 --- rewrite aget_aset_same in Hph. discriminate.
                 --- rewrite aget_aset_other in Hph by assumption. apply Hm.
                     eapply (lock_of_inj (ann_at pc) (r_th s t)); try eassumption.
              ** rewrite oupd_other by assumption. rewrite Hown. unfold tholds. split.
                 --- intros (pc0 & Hp0 & m' & Hph & He). rewrite Hst in Hp0. inversion Hp0; subst pc0.
                     exists (S pc). split; [reflexivity|]. rewrite HA by (simpl; auto). simpl.
                     exists m'. rewrite aget_aset_other; [split; assumption|]. intros ->. apply Hl. rewrite <- He. reflexivity.
                 --- intros (pc0 & Hp0 & m' & Hph & He). inversion Hp0; subst pc0. rewrite HA in Hph by (simpl; auto). simpl in Hph.
                     destruct (mtx_eq_dec m' m) as [->|Hm].
                     +++ rewrite aget_aset_same in Hph. discriminate.
                     +++ rewrite aget_aset_other in Hph by assumption. exists pc. split; [assumption|]. exists m'. split; assumption.
           ++ rewrite nupd_other by assumption.
              destruct (lk_eq_dec l l0) as [->|Hl].
              ** rewrite oupd_same. split; [discriminate|].
                 intro H. apply Hown in H. congruence.
              ** rewrite oupd_other by assumption. apply Hown.
        -- intros Hp1 t1 t2 pc1 pc2 H1 H2.
           destruct (Nat.eq_dec t1 t) as [->|N1]; destruct (Nat.eq_dec t2 t) as [->|N2]; try reflexivity.
           ++ rewrite nupd_other in H2 by assumption. symmetry. eapply Hseq; eassumption.
           ++ rewrite nupd_other in H1 by assumption. eapply Hseq; eassumption.
           ++ rewrite nupd_other in H1, H2 by assumption. eapply Hseq; eassumption.
      * (* skipped guarded unlock *)
        inversion Hs; subst s'; clear Hs.
        assert (Hg : g = true /\ rp_pool1 p = true).
        { unfold effective in Heff. destruct g; simpl in Heff; [split; [reflexivity|]; destruct (rp_pool1 p); simpl in *; congruence|discriminate]. }
        destruct Hg as [-> Hp1].
        eapply inv_local; [exact HI|reflexivity|reflexivity|reflexivity| apply HS; simpl; auto | assumption | assumption |].
        intro l. rewrite HA by (simpl; auto). simpl. unfold tholds, holds_at. split.
        -- intros (m' & Hph & He). exists pc. split; [assumption|]. exists m'.
           destruct (mtx_eq_dec m' m) as [->|Hm].
           ++ rewrite aget_aset_same in Hph. discriminate.
           ++ rewrite aget_aset_other in Hph by assumption. split; assumption.
        -- intros (pc0 & Hp0 & m' & Hph & He). rewrite Hst in Hp0. inversion Hp0; subst pc0.
           exists m'. rewrite aget_aset_other; [split; assumption|]. intros ->. rewrite Hok in Hph. simpl in Hph. rewrite Hp1 in Hph. discriminate.
    + (* IFetch: i changes, but neither roots_mutex[i] nor aberth_mutex[i] is in the lock set *)
      simpl in Hok. apply andb_true_iff in Hok. destruct Hok as [Hok HnA]. apply andb_true_iff in Hok. destruct Hok as [_ HnR].
      apply is_no_eq in HnA. apply is_no_eq in HnR.
      inversion Hs; subst s'; clear Hs.
      destruct (fst (q_next (rp_cl p) (rp_maxit p) (r_q s))) as [|j it];
      (eapply inv_local; [exact HI|reflexivity|reflexivity|reflexivity| apply HS; simpl; auto | assumption | assumption |];
       eapply holds_same; [exact Hst| rewrite HA by (simpl; auto); reflexivity |];
       intros m Hph; destruct m; try reflexivity; simpl in Hph; rewrite ?HnA, ?HnR in Hph; discriminate).
    + (* IBr *)
      inversion Hs; subst s'; clear Hs.
      eapply inv_local; [exact HI|reflexivity|reflexivity|reflexivity| | assumption | assumption |].
      * destruct (Bool.eqb _ _); apply HS; simpl; auto.
      * eapply holds_same; [exact Hst| |intros; reflexivity].
        destruct (Bool.eqb _ _); rewrite HA by (simpl; auto); reflexivity.
    + (* IKAll *)
      simpl in Hok. apply is_no_eq in Hok. inversion Hs; subst s'; clear Hs.
      eapply inv_local; [exact HI|reflexivity|reflexivity|reflexivity| apply HS; simpl; auto | assumption | assumption |].
      eapply holds_same; [exact Hst| rewrite HA by (simpl; auto); reflexivity |].
      intros m Hph; destruct m; try reflexivity. simpl in Hph. rewrite Hok in Hph. discriminate.
    + (* IKCluster *)
      simpl in Hok. apply is_no_eq in Hok. inversion Hs; subst s'; clear Hs.
      eapply inv_local; [exact HI|reflexivity|reflexivity|reflexivity| apply HS; simpl; auto | assumption | assumption |].
      eapply holds_same; [exact Hst| rewrite HA by (simpl; auto); reflexivity |].
      intros m Hph; destruct m; try reflexivity. simpl in Hph. rewrite Hok in Hph. discriminate.
    + (* IKNext *)
      simpl in Hok. apply is_no_eq in Hok. inversion Hs; subst s'; clear Hs.
      eapply inv_local; [exact HI|reflexivity|reflexivity|reflexivity| apply HS; simpl; auto | assumption | assumption |].
      eapply holds_same; [exact Hst| rewrite HA by (simpl; auto); reflexivity |].
      intros m Hph; destruct m; try reflexivity. simpl in Hph. rewrite Hok in Hph. discriminate.
    + (* IRet: the lock set is empty *)
      simpl in Hok. apply ann_eqb_eq in Hok. inversion Hs; subst s'; clear Hs.
      destruct HI as [Hpc Hown Hseq]. split; simpl.
      * intros u pcu Hu. destruct (Nat.eq_dec u t) as [->|Hne].
        -- rewrite nupd_same in Hu. discriminate.
        -- rewrite nupd_other in Hu by assumption. eauto.
      * intros l u. destruct (Nat.eq_dec u t) as [->|Hne].
        -- rewrite nupd_same. rewrite Hown. unfold tholds. split.
           ++ intros (pc0 & Hp0 & m' & Hph & _). rewrite Hst in Hp0. inversion Hp0; subst pc0. rewrite Hok in Hph. destruct m'; discriminate.
           ++ intros (pc0 & Hp0 & _). discriminate.
        -- rewrite nupd_other by assumption. apply Hown.
      * intros Hp1 t1 t2 pc1 pc2 H1 H2.
        destruct (Nat.eq_dec t1 t) as [->|N1]; [rewrite nupd_same in H1; discriminate|].
        destruct (Nat.eq_dec t2 t) as [->|N2]; [rewrite nupd_same in H2; discriminate|].
        rewrite nupd_other in H1, H2 by assumption. eapply Hseq; eassumption.
Qed.

Lemma rrun_ind (P : rstate -> Prop) :
  (forall s t ch s', P s -> rstep p s t ch = Some s' -> P s') ->
  forall tr s s', P s -> rrun p s tr = Some s' -> P s'.
Proof.
  intros Hs tr; induction tr as [|[t ch] tr IH]; intros s s' H0 Hr; simpl in Hr.
  - inversion Hr; subst; assumption.
  - destruct (rstep p s t ch) eqn:E; [|discriminate]. eapply IH; [eapply Hs; eassumption|assumption].
Qed.

Definition reach (s : rstate) : Prop :=
  exists again0 nz0 ex0 tr, rrun p (r_init p again0 nz0 ex0) tr = Some s.

Lemma reach_inv s : reach s -> Inv s.
Proof.
  intros (again0 & nz0 & ex0 & tr & Hr).
  eapply (rrun_ind Inv); [intros; eapply inv_step; eassumption|apply inv_init|exact Hr].
Qed.

(* ------------------------------------------------------------------ ownership *)
(* task t owns root i: it is at a program point whose lock set contains roots_mutex[i] *)
Definition owns (s : rstate) (t i : nat) : Prop :=
  exists pc, t_st (r_th s t) = TRun pc /\ hR (ann_at pc) <> HNo /\ t_i (r_th s t) = i.

Lemma owns_iff_exec s t i : owns s t i <-> owns_root anns (r_th s t) i = true.
Proof.
  unfold owns, owns_root, ann_at. destruct (t_st (r_th s t)) as [|pc|]; split.
  - intros (pc & H & _). discriminate.
  - discriminate.
  - intros (pc0 & H & Hn & Hi). inversion H; subst pc0. apply andb_true_iff. split.
    + destruct (hR (nth pc anns ann0)); simpl; congruence.
    + apply Nat.eqb_eq. assumption.
  - intro H. apply andb_true_iff in H. destruct H as [H1 H2]. exists pc. split; [reflexivity|].
    split; [destruct (hR (nth pc anns ann0)); simpl in *; congruence|apply Nat.eqb_eq; assumption].
  - intros (pc & H & _). discriminate.
  - discriminate.
Qed.

Theorem refined_ownership_exclusive s : reach s -> forall i t1 t2, owns s t1 i -> owns s t2 i -> t1 = t2.
Proof.
  intros Hr i t1 t2 (pc1 & H1 & Hn1 & Hi1) (pc2 & H2 & Hn2 & Hi2).
  pose proof (reach_inv s Hr) as [Hpc Hown Hseq].
  destruct (rp_pool1 p) eqn:Hp1.
  - eapply Hseq; eauto.
  - assert (Hph : forall h, h <> HNo -> phys h = true) by (intros h Hh; destruct h; simpl; [congruence|reflexivity|rewrite Hp1; reflexivity]).
    assert (O1 : r_own s (LR i) = Some t1).
    { apply Hown. exists pc1. split; [assumption|]. exists MR. split; [apply Hph; assumption|simpl; congruence]. }
    assert (O2 : r_own s (LR i) = Some t2).
    { apply Hown. exists pc2. split; [assumption|]. exists MR. split; [apply Hph; assumption|simpl; congruence]. }
    congruence.
Qed.

(* the owner holds roots_mutex[i] (unless the lock is a guarded one and the pool has a single thread, in which
   case the tasks do not interleave at all), and whoever holds roots_mutex[i] is the owner *)
Theorem refined_owner_holds_mutex s : reach s -> forall t i,
  (owns s t i -> (rp_pool1 p = false \/ exists pc, t_st (r_th s t) = TRun pc /\ hR (ann_at pc) = HYes) -> r_own s (LR i) = Some t) /\
  (r_own s (LR i) = Some t -> owns s t i).
Proof.
  intros Hr t i. pose proof (reach_inv s Hr) as [Hpc Hown Hseq]. split.
  - intros (pc & H & Hn & Hi) Hc. apply Hown. exists pc. split; [assumption|]. exists MR. split; [|simpl; congruence].
    destruct Hc as [Hp1|(pc' & H' & Hy)].
    + simpl. destruct (hR (ann_at pc)); simpl; [congruence|reflexivity|rewrite Hp1; reflexivity].
    + rewrite H in H'. inversion H'; subst pc'. simpl. rewrite Hy. reflexivity.
  - intro Ho. apply Hown in Ho. destruct Ho as (pc & H & m & Hph & He). exists pc. split; [assumption|].
    destruct m; simpl in He; try discriminate. inversion He. split; [|reflexivity].
    simpl in Hph. intro E. rewrite E in Hph. discriminate.
Qed.

(* only the owner writes the root: a step that changes again / value / aux value / radius of root i is a step of
   a task that owns root i before and after it *)
Definition root_view (s : rstate) (i : nat) := (r_again s i, r_valv s i, r_auxv s i, r_radv s i).

Theorem refined_only_owner_writes s t ch s' : reach s -> rstep p s t ch = Some s' ->
  forall i, root_view s' i <> root_view s i -> owns s t i /\ owns s' t i.
Proof.
  intros Hr Hs i Hv. pose proof (reach_inv s Hr) as HI.
  unfold rstep in Hs. destruct (t <? rp_k p); [|discriminate].
  destruct (t_st (r_th s t)) as [|pc|] eqn:Hst; [| |discriminate].
  - destruct (_ && _); [discriminate|]. inversion Hs; subst s'. exfalso. apply Hv. reflexivity.
  - destruct (nth_error prog pc) as [ins|] eqn:Hn; [|discriminate].
    ck_here Hn.
    assert (Hw : forall (s1 : rstate),
               s' = set_th s1 t (th_pc (r_th s t) (S pc)) ->
               (forall j, j <> t_i (r_th s t) -> root_view s1 j = root_view s j) ->
               ok_instr (ann_at pc) ins = negb (is_no (hR (ann_at pc))) -> transfer (ann_at pc) ins = ann_at pc ->
               In (S pc) (succs pc ins) ->
               owns s t i /\ owns s' t i).
    { intros s1 -> Hj Hokk Htr Hin.
      assert (Ei : i = t_i (r_th s t)).
      { destruct (Nat.eq_dec i (t_i (r_th s t))) as [E|E]; [assumption|]. exfalso. apply Hv. unfold root_view in *. simpl. apply (Hj i E). }
      rewrite Hokk in Hok. apply negb_true_iff in Hok.
      assert (HnR : hR (ann_at pc) <> HNo) by (intro E; rewrite E in Hok; discriminate).
      split.
      - exists pc. split; [assumption|]. split; [assumption|congruence].
      - exists (S pc). simpl. rewrite nupd_same. simpl. split; [reflexivity|]. split; [|congruence].
        destruct (Hsucc _ Hin) as [_ Ha]. rewrite Ha, Htr. assumption. }
    destruct ins; simpl in Hs;
      try (inversion Hs; subst s'; exfalso; apply Hv; reflexivity);
      try (eapply Hw; [inversion Hs; reflexivity| | reflexivity | reflexivity | simpl; auto];
           intros j Hj; unfold root_view; simpl; rewrite ?nupd_other by assumption; reflexivity).
    + destruct (effective p g); [destruct (r_own s _); [discriminate|]|]; inversion Hs; subst s'; exfalso; apply Hv; reflexivity.
    + destruct (effective p g); [destruct (r_own s _) as [u|]; [destruct (u =? t); [|discriminate]|discriminate]|];
        inversion Hs; subst s'; exfalso; apply Hv; reflexivity.
    + (* INewton *)
      eapply Hw; [inversion Hs; reflexivity| | reflexivity | reflexivity | simpl; auto].
      intros j Hj; unfold root_view; simpl. destruct ch; rewrite ?nupd_other by assumption; reflexivity.
Qed.

(* value writes happen with aberth_mutex[i] held, for the programs whose static test says so *)
Theorem refined_value_write_under_aberth s t ch s' :
  val_writes_locked prog anns = true -> rp_pool1 p = false ->
  reach s -> rstep p s t ch = Some s' ->
  forall i, r_valv s' i <> r_valv s i -> r_own s (LA i) = Some t /\ r_own s (LR i) = Some t.
Proof.
  intros Hvl Hp1 Hr Hs i Hv. pose proof (reach_inv s Hr) as [Hpc Hown Hseq].
  unfold rstep in Hs. destruct (t <? rp_k p); [|discriminate].
  destruct (t_st (r_th s t)) as [|pc|] eqn:Hst; [| |discriminate].
  - destruct (_ && _); [discriminate|]. inversion Hs; subst s'. exfalso. apply Hv. reflexivity.
  - destruct (nth_error prog pc) as [ins|] eqn:Hn; [|discriminate].
    ck_here Hn.
    destruct ins; simpl in Hs;
      try (inversion Hs; subst s'; exfalso; apply Hv; reflexivity).
    + destruct (effective p g); [destruct (r_own s _); [discriminate|]|]; inversion Hs; subst s'; exfalso; apply Hv; reflexivity.
    + destruct (effective p g); [destruct (r_own s _) as [u|]; [destruct (u =? t); [|discriminate]|discriminate]|];
        inversion Hs; subst s'; exfalso; apply Hv; reflexivity.
    + (* IWriteVal *)
      inversion Hs; subst s'; clear Hs. simpl in Hv.
      assert (Ei : i = t_i (r_th s t)).
      { destruct (Nat.eq_dec i (t_i (r_th s t))) as [E|E]; [assumption|]. exfalso. apply Hv. rewrite nupd_other by assumption. reflexivity. }
      unfold val_writes_locked in Hvl. rewrite forallb_forall in Hvl.
      assert (Hlt : pc < length prog) by (apply nth_error_Some; congruence).
      assert (Hinseq : In pc (seq 0 (length prog))) by (apply in_seq; lia).
      specialize (Hvl pc Hinseq). rewrite (nth_error_nth _ _ IRet Hn) in Hvl.
      apply negb_true_iff in Hvl. simpl in Hok. apply negb_true_iff in Hok.
      assert (Hph : forall h, is_no h = false -> phys h = true) by (intros h Hh; destruct h; simpl in *; [discriminate|reflexivity|rewrite Hp1; reflexivity]).
      split; apply Hown; exists pc; (split; [assumption|]).
      * exists MAo. split; [apply Hph; exact Hvl|simpl; congruence].
      * exists MR. split; [apply Hph; exact Hok|simpl; congruence].
Qed.

(* ------------------------------------------------------------------ lock order *)
(* a task about to perform a real lock call *)
Definition requests (s : rstate) (t : nat) (l : lk) : Prop :=
  exists pc g m, t_st (r_th s t) = TRun pc /\ nth_error prog pc = Some (ILock g m) /\ effective p g = true /\
                 lock_of (r_th s t) m = l.

Definition lk_rank (l : lk) : nat := match l with LR _ => 0 | LG => 1 | _ => 2 end.

Lemma lock_of_rank th m : lk_rank (lock_of th m) = mrank m.
Proof. destruct m; reflexivity. Qed.

(* lock requests strictly increase in the class order roots < global Aberth < {Aberth, gs, queue} *)
Theorem refined_requests_increase s : reach s -> forall t l h,
  requests s t l -> r_own s h = Some t -> lk_rank h < lk_rank l.
Proof.
  intros Hr t l h (pc & g & m & Hst & Hn & _ & Hl) Ho.
  pose proof (reach_inv s Hr) as [Hpc Hown Hseq].
  apply Hown in Ho. destruct Ho as (pc0 & Hp0 & m' & Hph & He). rewrite Hst in Hp0. inversion Hp0; subst pc0.
  ck_here Hn. simpl in Hok. unfold held_ranks_lt in Hok. rewrite forallb_forall in Hok.
  assert (Hin : In m' all_mtx) by (destruct m'; simpl; auto 10).
  specialize (Hok _ Hin). apply orb_true_iff in Hok. destruct Hok as [H|H].
  - apply is_no_eq in H. rewrite H in Hph. discriminate.
  - apply Nat.ltb_lt in H. rewrite <- He, <- Hl, !lock_of_rank. assumption.
Qed.

(* composition with LockOrder: the wait-for graph of every reachable state is acyclic *)
Definition lk_lt (a b : lk) : Prop := lk_rank a < lk_rank b.
Definition rwaiting (s : rstate) (t : nat) : option lk :=
  match t_st (r_th s t) with
  | TRun pc => match nth_error prog pc with
               | Some (ILock g m) => if effective p g then Some (lock_of (r_th s t) m) else None
               | _ => None
               end
  | _ => None
  end.
Definition lview (s : rstate) : lstate lk := {| owner := r_own s; waiting := rwaiting s |}.

Lemma rwaiting_requests s t l : rwaiting s t = Some l -> requests s t l.
Proof.
  unfold rwaiting, requests. destruct (t_st (r_th s t)) as [|pc|] eqn:Hst; try discriminate.
  destruct (nth_error prog pc) as [[g m| | | | | | | | | | | | | | | | | | | | ]|] eqn:Hn; try discriminate.
  destruct (effective p g) eqn:He; [|discriminate]. intro H. inversion H. exists pc, g, m. repeat split; assumption.
Qed.

Theorem refined_no_wait_cycle s : reach s -> forall t, ~ clos_trans _ (waits_for lk (lview s)) t t.
Proof.
  intros Hr t Hc.
  assert (Ho : ordered lk lk_lt (lview s)).
  { intros u l h Hw Hown. simpl in *. unfold lk_lt. eapply refined_requests_increase; [eassumption|apply rwaiting_requests; eassumption|assumption]. }
  destruct (waits_source lk _ _ _ Hc) as (l & Hl).
  assert (Hlt : lk_lt l l).
  { eapply (path_increases lk lk_lt); try eassumption. unfold lk_lt. intros a b c; lia. }
  unfold lk_lt in Hlt. lia.
Qed.

(* ------------------------------------------------------------------ progress *)
Definition enabled (s : rstate) (t : nat) : Prop := exists ch s', rstep p s t ch = Some s'.

(* a running task is enabled unless it stands at a real lock call whose mutex is taken *)
Lemma running_enabled_or_blocked s t pc : Inv s ->
  t_st (r_th s t) = TRun pc ->
  enabled s t \/ exists g m u, nth_error prog pc = Some (ILock g m) /\ effective p g = true /\
                               r_own s (lock_of (r_th s t) m) = Some u.
Proof.
  intros HI Hst. pose proof HI as [Hpc Hown Hseq]. destruct (Hpc _ _ Hst) as [Hlt Htk].
  destruct (nth_error prog pc) as [ins|] eqn:Hn; [|apply nth_error_None in Hn; lia].
  ck_here Hn.
  assert (E : forall r, exec p s t (r_th s t) pc ins false = Some r -> enabled s t).
  { intros r Hr. exists false, r. unfold rstep. apply Nat.ltb_lt in Htk. rewrite Htk, Hst, Hn. assumption. }
  destruct ins; try (left; eapply E; simpl; reflexivity).
  - (* ILock *)
    destruct (effective p g) eqn:Heff.
    + destruct (r_own s (lock_of (r_th s t) m)) as [u|] eqn:Ho.
      * right. exists g, m, u. repeat split; assumption.
      * left. eapply E. simpl. rewrite Heff, Ho. reflexivity.
    + left. eapply E. simpl. rewrite Heff. reflexivity.
  - (* IUnlock *)
    left. destruct (effective p g) eqn:Heff.
    + simpl in Hok. apply hst_eqb_eq in Hok.
      assert (Ho : r_own s (lock_of (r_th s t) m) = Some t).
      { apply Hown. exists pc. split; [assumption|]. exists m. split; [|reflexivity]. rewrite Hok.
        unfold effective in Heff. destruct g; simpl in *; [destruct (rp_pool1 p); simpl in *; congruence|reflexivity]. }
      eapply E. simpl. rewrite Heff, Ho, Nat.eqb_refl. reflexivity.
    + eapply E. simpl. rewrite Heff. reflexivity.
Qed.

(* a task that holds a mutex of rank r and is blocked is blocked on a mutex of larger rank *)
Lemma blocked_rank s t pc g m l : Inv s ->
  t_st (r_th s t) = TRun pc -> nth_error prog pc = Some (ILock g m) -> r_own s l = Some t -> lk_rank l < mrank m.
Proof.
  intros [Hpc Hown Hseq] Hst Hn Ho. apply Hown in Ho. destruct Ho as (pc0 & Hp0 & m' & Hph & He).
  rewrite Hst in Hp0. inversion Hp0; subst pc0.
  ck_here Hn. simpl in Hok. unfold held_ranks_lt in Hok. rewrite forallb_forall in Hok.
  assert (Hin : In m' all_mtx) by (destruct m'; simpl; auto 10).
  specialize (Hok _ Hin). apply orb_true_iff in Hok. destruct Hok as [H|H].
  - apply is_no_eq in H. rewrite H in Hph. discriminate.
  - apply Nat.ltb_lt in H. rewrite <- He, lock_of_rank. assumption.
Qed.

(* the owner of a mutex of rank >= r is enabled, or something else is: descent on 3 - rank *)
Lemma owner_chain s : Inv s -> forall d l u, 3 - lk_rank l <= d -> r_own s l = Some u -> exists v, enabled s v.
Proof.
  intros HI d. induction d as [|d IH]; intros l u Hd Ho.
  - destruct l; simpl in Hd; lia.
  - pose proof HI as [Hpc Hown Hseq]. pose proof Ho as Ho'. apply Hown in Ho'. destruct Ho' as (pc & Hst & _).
    destruct (running_enabled_or_blocked s u pc HI Hst) as [He|(g & m & w & Hn & Heff & Hw)].
    + exists u. assumption.
    + pose proof (blocked_rank s u pc g m l HI Hst Hn Ho) as Hlt.
      eapply (IH (lock_of (r_th s u) m) w); [rewrite lock_of_rank; lia|assumption].
Qed.

(* no deadlock: as long as some task has not returned, some task can make a step *)
Theorem refined_progress s : reach s ->
  (exists t, t < rp_k p /\ t_st (r_th s t) <> TDone) -> exists t, enabled s t.
Proof.
  intros Hr (t & Htk & Hnd). pose proof (reach_inv s Hr) as HI. pose proof HI as [Hpc Hown Hseq].
  destruct (t_st (r_th s t)) as [|pc|] eqn:Hst; [| |congruence].
  - (* idle *)
    destruct (rp_pool1 p && existsb (fun u => is_running (r_th s u)) (seq 0 (rp_k p))) eqn:Hg.
    + apply andb_true_iff in Hg. destruct Hg as [_ Hex]. apply existsb_exists in Hex. destruct Hex as (u & _ & Hu).
      unfold is_running in Hu. destruct (t_st (r_th s u)) as [|pcu|] eqn:Hsu; try discriminate.
      destruct (running_enabled_or_blocked s u pcu HI Hsu) as [He|(g & m & w & Hn & Heff & Hw)].
      * exists u. assumption.
      * eapply (owner_chain s HI 3); [lia|eassumption].
    + exists t, false. eexists. unfold rstep. apply Nat.ltb_lt in Htk. rewrite Htk, Hst, Hg. reflexivity.
  - destruct (running_enabled_or_blocked s t pc HI Hst) as [He|(g & m & w & Hn & Heff & Hw)].
    + exists t. assumption.
    + eapply (owner_chain s HI 3); [lia|eassumption].
Qed.

(* when the pool drains (every task has returned) every mutex of the packet is free *)
Theorem refined_drain_all_free s : reach s ->
  (forall t, t < rp_k p -> t_st (r_th s t) = TDone) -> forall l, r_own s l = None.
Proof.
  intros Hr Hd l. pose proof (reach_inv s Hr) as [Hpc Hown Hseq].
  destruct (r_own s l) as [u|] eqn:Ho; [|reflexivity]. exfalso.
  apply Hown in Ho. destruct Ho as (pc & Hst & _). destruct (Hpc _ _ Hst) as [_ Hk].
  rewrite (Hd _ Hk) in Hst. discriminate.
Qed.

(* a task returns only with the empty lock set, and a returned / not yet started task holds nothing *)
Theorem refined_idle_done_hold_nothing s : reach s -> forall t l, r_own s l = Some t -> exists pc, t_st (r_th s t) = TRun pc.
Proof.
  intros Hr t l Ho. pose proof (reach_inv s Hr) as [Hpc Hown Hseq]. apply Hown in Ho. destruct Ho as (pc & Hst & _). eauto.
Qed.

End Refined.

(* ------------------------------------------------------------------ the six transcribed programs *)
Lemma all_progs_ok : forall v, check_prog (prog_of v) (ann_of v) = true.
Proof. intro v; destruct v; vm_compute; reflexivity. Qed.

Lemma progs_val_writes_locked :
  map (fun v => val_writes_locked (prog_of v) (ann_of v)) [VF; VD; VM; VSF; VSD; VSM] = [true; false; true; true; false; true].
Proof. vm_compute. reflexivity. Qed.
Lemma progs_other_reads_locked :
  map (fun v => other_reads_locked (prog_of v) (ann_of v)) [VF; VD; VM; VSF; VSD; VSM] = [false; false; true; true; true; true].
Proof. vm_compute. reflexivity. Qed.
