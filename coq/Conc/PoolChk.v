(* PoolChk.v -- C06: the executable invariants of the trace validator follow from the proved invariants *)
Require Import List ZArith Bool Arith Lia Permutation.
Require Import MPSV.Conc.PoolModel MPSV.Conc.PoolLemmas MPSV.Conc.PoolWitness MPSV.Conc.PoolProps MPSV.Conc.PoolNested.
Import ListNotations.

(* ---- the executable invariants evaluated by the trace validator (bin/pool: chk_all in every state) are
   consequences of the proved invariants: on a trace accepted by the model they cannot fail, they are a
   cross-check of extraction and driver ---- *)
Lemma count_occ_nat_perm a b x : Permutation a b -> count_occ_nat x a = count_occ_nat x b.
Proof. induction 1; cbn; first [lia | congruence]. Qed.

Lemma same_multiset_perm a b : Permutation a b -> same_multiset a b = true.
Proof.
  intros P. unfold same_multiset. rewrite (Permutation_length P), Nat.eqb_refl. cbn.
  apply forallb_forall. intros x _. rewrite (count_occ_nat_perm a b x P). apply Nat.eqb_refl.
Qed.

Theorem inv_chk_all s : Inv s -> chk_all s = true.
Proof.
  intros ((P & N) & (BC & BF) & B & (M & FR)).
  unfold chk_all.
  apply andb_true_intro; split; [apply andb_true_intro; split; [apply andb_true_intro; split|]|].
  - apply same_multiset_perm. exact P.
  - unfold chk_busy. apply andb_true_intro. split; [apply Z.eqb_eq; exact BC|].
    apply forallb_forall. intros x I. rewrite Forall_forall in BF. specialize (BF x I). unfold BusyOk in BF.
    destruct (wtask (w_pc x)); [reflexivity | apply BF; discriminate].
  - unfold chk_barrier. destruct (pc0 s) eqn:PC; try reflexivity. destruct e; try reflexivity.
    unfold Barrier in B. rewrite PC in B. destruct (B eq_refl) as [Q R].
    unfold pending in P. rewrite PC, Q, R in P. cbn in P. apply same_multiset_perm. exact P.
  - unfold chk_final. destruct (pc0 s) eqn:PC; try reflexivity. cbn in FR. rewrite (FR eq_refl) in M. cbn in M.
    assert (G : Forall gone (workers s)).
    { apply forall_nth_Forall. intros i x E. destruct (M i x E) as [[]|G]; exact G. }
    apply andb_true_intro. split.
    + apply forallb_forall. intros x I. rewrite Forall_forall in G. destruct (G x I) as [G1 G2].
      unfold is_exited. rewrite G1, G2. reflexivity.
    + assert (R : running s = []).
      { unfold running. clear - G. induction G as [|x l [Gx _] _ IH]; cbn; auto. rewrite Gx. cbn. exact IH. }
      unfold pending in P. rewrite PC, R in P. cbn in P. apply same_multiset_perm. exact P.
Qed.

Theorem pool_chk_all_sound tr s : (run init tr = Some s \/ run init_r tr = Some s) -> chk_all s = true.
Proof. intros [H|H]; apply inv_chk_all; [eapply inv_run | eapply inv_run_r]; eauto. Qed.
