(* PoolNested.v -- C06: consequences of the invariants for nested assign (tasks handed over by task
   bodies, on a worker or inline in the client) and for the repaired pool (init_r). *)
Require Import List ZArith Bool Arith Lia Permutation.
Require Import MPSV.Conc.PoolModel MPSV.Conc.PoolLemmas MPSV.Conc.PoolWitness MPSV.Conc.PoolProps.
Import ListNotations.

(* tasks handed over are never forgotten, and an assign event (by whichever thread) hands its task over *)
Lemma assigned_mono s l s' t : step s l = Some s' -> In t (assigned s) -> In t (assigned s').
Proof.
  intros H I. break_step H; cbn -[Nat.sub] in *; auto.
Qed.

Lemma assign_event_step s w t s' : step s (LEv w (EAssign t)) = Some s' -> In t (assigned s').
Proof.
  intros H. unfold step in H. cbn [label_tid is_cont] in H. destruct w as [|w].
  - destruct (cont0 s); try discriminate. unfold cstep in H.
    destruct (pc0 s); try discriminate; destruct (mem t (assigned s)); try discriminate;
      inversion H; subst; cbn; auto.
  - unfold bind in H. destruct (get_w s (S w)) as [x|]; try discriminate.
    destruct (w_cont x); try discriminate. unfold wstep in H.
    destruct (w_pc x); try discriminate. destruct (mem t (assigned s)); try discriminate.
    inversion H; subst; cbn; auto.
Qed.

Lemma assign_event_run tr : forall s s' w t,
  run s tr = Some s' -> In (LEv w (EAssign t)) tr -> In t (assigned s').
Proof.
  induction tr as [|l r IH]; intros s s' w t H I; [destruct I|].
  simpl in H. unfold bind in H. destruct (step s l) as [s1|] eqn:E; try discriminate.
  destruct I as [->|I].
  - apply assign_event_step in E. clear IH. revert s1 E H. induction r as [|l' r IHr]; intros s1 E H; simpl in H.
    + inversion H; subst; auto.
    + unfold bind in H. destruct (step s1 l') as [s2|] eqn:E2; try discriminate.
      eapply IHr; [| exact H]. eapply assigned_mono; eauto.
  - eapply IH; eauto.
Qed.

(* BARRIER FOR SPAWNED TASKS: when mps_thread_pool_wait returns, every task handed over so far by ANY thread
   (the client's script, a task body on a worker, a task body running inline) has been executed and has
   finished *)
Theorem pool_wait_barrier_spawned_from i0 tr s w t :
  Inv i0 -> run i0 tr = Some s -> pc0 s = CRet EWaitRet -> In (LEv w (EAssign t)) tr -> In t (executed s).
Proof.
  intros I0 H PC I.
  pose proof (assign_event_run tr i0 s w t H I) as A.
  pose proof (run_inv Inv inv_step tr i0 s I0 H) as ((P & N) & _ & B & _).
  unfold Barrier in B. rewrite PC in B. destruct (B eq_refl) as [Q R].
  unfold pending in P. rewrite PC, Q, R in P. cbn in P. eapply Permutation_in; eauto.
Qed.

Theorem pool_wait_barrier_spawned tr s w t :
  run init tr = Some s -> pc0 s = CRet EWaitRet -> In (LEv w (EAssign t)) tr -> In t (executed s).
Proof. apply pool_wait_barrier_spawned_from. apply inv_init. Qed.

(* NO LATE SPAWN: from the moment the test in mps_thread_pool_wait has succeeded (under
   work_completed_mutex) until wait has returned, no worker is inside a task body, so no task can be handed
   over behind the waiter's back: the assign event of a worker is not enabled *)
Theorem pool_no_late_spawn_from i0 tr s w t :
  Inv i0 -> run i0 tr = Some s -> waitdone (pc0 s) = true ->
  running s = [] /\ step s (LEv (S w) (EAssign t)) = None.
Proof.
  intros I0 H WD.
  pose proof (run_inv Inv inv_step tr i0 s I0 H) as (_ & _ & B & _).
  destruct (B WD) as [Q R]. split; [exact R|].
  destruct (step s (LEv (S w) (EAssign t))) as [s'|] eqn:E; [exfalso | reflexivity].
  unfold step in E. cbn in E. unfold bind in E. destruct (nth_error (workers s) w) as [x|] eqn:Ex; try discriminate.
  destruct (w_cont x); try discriminate. unfold wstep in E. destruct (w_pc x) eqn:Px; try discriminate.
  rewrite running_eq in R. pose proof (running_nil_wt _ _ _ R Ex) as WX. unfold wt in WX. rewrite Px in WX. discriminate WX.
Qed.

Theorem pool_no_late_spawn tr s w t :
  run init tr = Some s -> waitdone (pc0 s) = true ->
  running s = [] /\ step s (LEv (S w) (EAssign t)) = None.
Proof. apply pool_no_late_spawn_from. apply inv_init. Qed.

(* ---- the repaired pool: the safety invariants hold from init_r as well ---- *)
Lemma inv_init_r : Inv init_r.
Proof.
  split; [split; [reflexivity | constructor]|]. split; [split; [reflexivity | constructor]|].
  split; [intros H; discriminate | split; [intros [|i] x H; discriminate | auto]].
Qed.
Lemma inv_run_r tr s : run init_r tr = Some s -> Inv s.
Proof. apply (run_inv Inv inv_step tr init_r s inv_init_r). Qed.

Theorem pool_repaired_safety tr s :
  run init_r tr = Some s ->
  Permutation (assigned s) (pending s ++ queue s ++ running s ++ executed s) /\
  NoDup (pending s ++ queue s ++ running s ++ executed s) /\
  busy_counter s = Z.of_nat (nbusy s) /\
  (pc0 s = CRet EWaitRet -> Permutation (assigned s) (executed s) /\ queue s = [] /\ running s = []) /\
  (pc0 s = CDone -> Forall (fun x => w_pc x = WExited /\ w_joined x = true) (workers s) /\
                    Permutation (assigned s) (queue s ++ executed s)).
Proof.
  intros H. pose proof (inv_run_r tr s H) as ((P & N) & (BC & BF) & B & (M & FR)).
  split; [exact P|]. split; [eapply Permutation_NoDup; eauto|]. split; [exact BC|]. split.
  - intros PC. unfold Barrier in B. rewrite PC in B. destruct (B eq_refl) as [Q R].
    unfold pending in P. rewrite PC, Q, R in P. cbn in P. auto.
  - intros PC. rewrite PC in *. cbn in *. rewrite (FR eq_refl) in M. cbn in M.
    assert (G : Forall gone (workers s)).
    { apply forall_nth_Forall. intros i x E. destruct (M i x E) as [[]|G]; exact G. }
    split; [exact G|].
    assert (R : running s = []).
    { unfold running. clear - G. induction G as [|x l [Gx _] _ IH]; cbn; auto. rewrite Gx. cbn. exact IH. }
    unfold pending in P. rewrite PC, R in P. exact P.
Qed.

Theorem pool_repaired_wait_barrier_spawned tr s w t :
  run init_r tr = Some s -> pc0 s = CRet EWaitRet -> In (LEv w (EAssign t)) tr -> In t (executed s).
Proof. apply pool_wait_barrier_spawned_from. apply inv_init_r. Qed.
