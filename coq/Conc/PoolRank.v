(* PoolRank.v -- C06: a ranking function for the time the client spends inside mps_thread_pool_wait.
   Every step other than a spurious wake-up or a nested assign (a task body handing over a new task),
   by any thread, strictly decreases [rank] while the client is in wait; a spurious wake-up raises it by
   at most [spurious_cost], a nested assign by at most [spawn_cost].  Hence an execution in which the
   client stays in wait contains at most rank + spurious_cost * #spurious + spawn_cost * #spawns other steps. *)
Require Import List ZArith Bool Arith Lia Permutation.
Require Import MPSV.Conc.PoolModel MPSV.Conc.PoolLemmas MPSV.Conc.PoolProps MPSV.Conc.PoolProgress.
Import ListNotations.
Open Scope nat_scope.

Definition waiting (p : cpc) : bool :=
  match p with CWaitLock _ | CWaitCond _ | CWaitBlocked _ | CWaitUnlock _ => true | _ => false end.

(* distance of a worker from its resting point (asleep in cond_wait, or exited); sg = it has been signalled *)
Definition wrank (sg : bool) (x : worker) : nat :=
  (if w_cont x then 1 else 0) +
  match w_pc x with
  | WExited => 0 | WExit => 1 | WExitUnlockQC => 3
  | WExitUnlockWC => 3 | WExitSignal => 8 | WExitLockWC => 9
  | WCondWait => 1 | WIdleUnlockWC => 5 | WIdleSignal => 10
  | WLockQC => 11 | WLockWC => 12 | WTop => 13 | WStart => 14
  | WRunEnd _ st => 14 + 8 * length st | WRunYield _ st => 15 + 8 * length st | WRunStart _ st => 16 + 8 * length st
  | WAsgRet _ st => 15 + 8 * length st | WAsgUnlock _ st => 17 + 8 * length st
  | WAsgSignal _ st => 35 + 8 * length st | WAsgLock _ _ st => 46 + 8 * length st
  | WRunUnlockWC _ => 18 | WRunUnlockQC _ => 20
  | WWokenUnlockQC => 15
  | WWaiting => if sg then 16 else 0
  end.
Fixpoint wsum (q : list tid) (k : nat) (l : list worker) : nat :=
  match l with [] => 0 | x :: r => wrank (negb (mem (S k) q)) x + wsum q (S k) r end.
Definition crank (s : state) : nat :=
  (if cont0 s then 1 else 0) +
  match pc0 s with
  | CWaitLock _ => 5 | CWaitCond _ => 2 | CWaitUnlock _ => 2
  | CWaitBlocked _ => if mem 0 (wc_wait s) then 0 else 4
  | _ => 0
  end.
Definition rank (s : state) : nat := 10 * length (queue s) + wsum (qc_wait s) 0 (workers s) + crank s.
Definition spurious_cost : nat := 16.

Lemma wsum_change q q' : forall l k i x y,
  nth_error l i = Some x ->
  (forall j, j <> k + i -> mem (S j) q' = mem (S j) q) ->
  wsum q' k (upd i y l) + wrank (negb (mem (S (k + i)) q)) x = wsum q k l + wrank (negb (mem (S (k + i)) q')) y.
Proof.
  induction l as [|a l IH]; intros k [|i] x y E M; simpl in *; try discriminate.
  - inversion E; subst. rewrite Nat.add_0_r in *.
    assert (W : forall r n, k < n -> wsum q' n r = wsum q n r).
    { induction r as [|b r IHr]; intros n L; simpl; auto. rewrite (M n) by lia. rewrite IHr by lia. reflexivity. }
    rewrite (W l (S k)) by lia. lia.
  - rewrite (M k) by lia.
    replace (k + S i) with (S k + i) in * by lia.
    assert (IH' := IH (S k) i x y E (fun j Hj => M j Hj)). lia.
Qed.

(* taking one thread out of the wait set of queue_changed raises the sum by at most 16 *)
Lemma wsum_remove q u : forall l k, wsum (remove_nat u q) k l <= wsum q k l + 16.
Proof.
  induction l as [|a l IH]; intros k; simpl; [lia|].
  destruct (Nat.eq_dec (S k) u) as [E|N].
  - assert (W : forall r n, k < n -> wsum (remove_nat u q) n r = wsum q n r).
    { induction r as [|b r IHr]; intros n L; simpl; auto.
      rewrite mem_remove_other by lia. rewrite IHr by lia. reflexivity. }
    rewrite (W l (S k)) by lia.
    assert (wrank (negb (mem (S k) (remove_nat u q))) a <= wrank (negb (mem (S k) q)) a + 16).
    { unfold wrank. destruct (w_pc a); try lia. destruct (negb (mem (S k) (remove_nat u q))), (negb (mem (S k) q)); lia. }
    lia.
  - rewrite mem_remove_other by congruence. specialize (IH (S k)). lia.
Qed.

Ltac wfact :=
  match goal with
  | E : nth_error (workers ?s) ?i = Some ?x |- context [wsum ?q' 0 (upd ?i ?y _)] =>
      let F := fresh "WF" in
      assert (F := wsum_change (qc_wait s) q' (workers s) 0 i x y E);
      cbn [plus] in F;
      let M := fresh "M" in
      assert (M : forall j, j <> i -> mem (S j) q' = mem (S j) (qc_wait s))
        by (intros j Hj; first [ reflexivity | apply mem_app_other; congruence | apply mem_remove_other; congruence ]);
      specialize (F M); clear M
  end.

(* a nested assign: a task body hands a new task over (inside wait only workers can) *)
Definition is_spawn (l : label) : bool := match l with LEv _ (EAssign _) => true | _ => false end.
Definition spawn_cost : nat := 32.

Lemma rank_step s l s' :
  waiting (pc0 s) = true -> step s l = Some s' ->
  (is_spurious l = false -> is_spawn l = false -> rank s' < rank s) /\
  (is_spurious l = true -> rank s' <= rank s + spurious_cost) /\
  (is_spawn l = true -> rank s' <= rank s + spawn_cost).
Proof.
  unfold rank, crank, spurious_cost, spawn_cost. intros W H.
  break_step H; cbn -[Nat.mul mem wsum Nat.sub remove_nat] in *;
    repeat match goal with C : pc0 _ = _ |- _ => rewrite C in *; cbn -[Nat.mul mem wsum Nat.sub remove_nat] in * end;
    try discriminate.
  all: (split; [| split]); intros SP; try intros SW; try discriminate; subst.
  all: repeat match goal with
              | B : _ && Bool.eqb _ _ = true |- _ => apply andb_prop in B; destruct B as [_ B]; apply eqb_prop in B
              end.
  all: try (destruct spurious; try discriminate).
  all: repeat match goal with Q : queue _ = _ |- _ => rewrite Q in *; cbn [length] in * end.
  (* client steps *)
  all: try solve [ destruct (cont0 s); lia ].
  all: try solve [ rewrite ?mem_app_same, ?mem_remove_same in *;
                   repeat match goal with |- context [if ?b then _ else _] => destruct b eqn:? end; try discriminate; lia ].
  (* worker steps *)
  all: try match goal with |- context [if negb (?t =? ?t1) then ?t1 :: remove_nat ?t ?l else remove_nat ?t ?l] =>
         change (if negb (t =? t1) then t1 :: remove_nat t l else remove_nat t l) with (remove_nat t (t1 :: l)) end.
  all: try match goal with |- context [mem 0 (remove_nat ?u ?l)] =>
         let E := fresh "E" in
         destruct (mem 0 (remove_nat u l)) eqn:E;
         [ apply mem_remove_le in E; match goal with Q : wc_wait _ = _ |- _ => rewrite <- Q in E end; rewrite E | ]
       end.
  all: try solve [ wfact; unfold wrank in WF; cbn in WF;
                   repeat match goal with P : w_pc _ = _ |- _ => rewrite P in WF end;
                   repeat match goal with P : w_cont _ = _ |- _ => rewrite P in WF end;
                   repeat match goal with P : _ = mem _ _ |- _ => rewrite <- P in WF end;
                   rewrite ?mem_app_same, ?mem_remove_same in WF; cbn in WF;
                   repeat match type of WF with context [if ?b then _ else _] => destruct b eqn:? end;
                   cbn in WF; try discriminate; try lia;
                   destruct (pc0 s); try lia;
                   repeat match goal with |- context [if ?b then _ else _] => destruct b end; lia ].
  - (* a task body pushes *)
    rewrite app_length. cbn [length]. wfact. unfold wrank in WF. cbn in WF. rewrite Heqw0, Heqb in WF. lia.
  - (* a task body signals queue_changed and releases a waiter *)
    pose proof (wsum_remove (t2 :: l) t (workers s) 0) as WR. rewrite <- Heql in WR at 2.
    match goal with |- context [wsum ?q 0 (upd _ _ _)] => set (q' := q) in * end.
    change (remove_nat t (t2 :: l)) with q' in WR. clearbody q'.
    pose proof (wsum_change q' q' (workers s) 0 t0 w
                  (set_wpc w (WAsgUnlock t1 st)) Heqo (fun j _ => eq_refl)) as WF.
    unfold wrank in WF. cbn in WF. rewrite Heqw0, Heqb in WF. lia.
Qed.

(* executions during which the client stays inside wait *)
Fixpoint stays_waiting (s : state) (tr : list label) : Prop :=
  match tr with
  | [] => True
  | l :: r => waiting (pc0 s) = true /\ match step s l with Some s1 => stays_waiting s1 r | None => True end
  end.
Definition n_spurious (tr : list label) : nat := length (filter is_spurious tr).
Definition n_other (tr : list label) : nat := length (filter (fun l => negb (is_spurious l)) tr).

Definition n_spawn (tr : list label) : nat := length (filter is_spawn tr).

Lemma pool_wait_rank_bound tr : forall s s',
  run s tr = Some s' -> stays_waiting s tr ->
  n_other tr + rank s' <= rank s + spurious_cost * n_spurious tr + (spawn_cost + 1) * n_spawn tr.
Proof.
  unfold n_other, n_spurious, n_spawn. induction tr as [|l r IH]; intros s s' H SW; simpl in *.
  - inversion H; subst. lia.
  - unfold bind in H. destruct SW as [W SW]. destruct (step s l) as [s1|] eqn:E; try discriminate.
    specialize (IH s1 s' H SW). destruct (rank_step s l s1 W E) as (D & U & V).
    unfold spurious_cost, spawn_cost in *.
    destruct (is_spurious l) eqn:SP; cbn [negb length] in *.
    + specialize (U eq_refl). assert (is_spawn l = false) by (destruct l; try discriminate SP; reflexivity).
      rewrite H0. lia.
    + destruct (is_spawn l) eqn:SW'; cbn [length].
      * specialize (V eq_refl). lia.
      * specialize (D eq_refl eq_refl). lia.
Qed.

(* termination of wait.  Assumptions, stated explicitly:
     (progress)  as long as some step other than a spurious wake-up is enabled, the system eventually takes one
                 (no fairness between threads is needed: EVERY such step, by whichever thread, lowers the rank,
                 except a task body handing over a new task, which raises it by at most spawn_cost);
     (spurious)  only finitely many spurious wake-ups occur, k say (each costs at most spurious_cost);
     (spawns)    only finitely many tasks are handed over by task bodies while the client waits, m say.
   Then, by pool_no_stuck_state / pool_repaired_no_stuck_state (such a step exists until wait has returned)
   and this bound (at most rank s + spurious_cost * k + (spawn_cost + 1) * m non-spurious steps fit while
   the client is still inside wait), wait returns. *)
Theorem pool_wait_terminates tr s s' :
  run s tr = Some s' -> stays_waiting s tr ->
  n_other tr <= rank s + spurious_cost * n_spurious tr + (spawn_cost + 1) * n_spawn tr.
Proof. intros H W. pose proof (pool_wait_rank_bound tr s s' H W). lia. Qed.
