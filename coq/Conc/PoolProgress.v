(* PoolProgress.v -- C06: progress of the pool model (deadlock freedom).
   General invariants (every trace of [step], repaired or not, with or without discipline):
   lock ownership, the waiter sleeps only for a reason, wait sets, pool list, the worker being freed.
   Consequences:
     - pool_stuck_only_in_wait: a reachable state without an enabled non-spurious step (and not
       after free) has the client inside the cond_wait of mps_thread_pool_wait: free and
       set_concurrency_limit never block themselves, whatever the pool is doing;
     - pool_no_stuck_state: with the discipline (limit lowered / pool freed only when quiescent) nothing is stuck;
     - pool_repaired_no_stuck_state: with the repair nothing is stuck, without any precondition.
   The ranking function is in PoolRank.v. *)
Require Import List ZArith Bool Arith Lia Permutation.
Require Import MPSV.Conc.PoolModel MPSV.Conc.PoolLemmas MPSV.Conc.PoolProps.
Import ListNotations.
Open Scope nat_scope.

Lemma mem_app_other j u l : j <> u -> mem j (l ++ [u]) = mem j l.
Proof.
  intros N. unfold mem. rewrite existsb_app. cbn. rewrite orb_false_r.
  destruct (Nat.eqb_spec j u); [congruence|]. apply orb_false_r.
Qed.
Lemma mem_remove_other j u l : j <> u -> mem j (remove_nat u l) = mem j l.
Proof.
  intros N. unfold mem, remove_nat. induction l as [|a l IH]; cbn; auto.
  destruct (Nat.eqb_spec u a); cbn.
  - subst. destruct (Nat.eqb_spec j a); [congruence|]. cbn. exact IH.
  - rewrite IH. reflexivity.
Qed.
Lemma mem_remove_same u l : mem u (remove_nat u l) = false.
Proof.
  unfold mem, remove_nat. induction l as [|a l IH]; cbn; auto.
  destruct (Nat.eqb_spec u a); cbn; auto. rewrite IH. destruct (Nat.eqb_spec u a); [congruence|]. reflexivity.
Qed.
Lemma mem_app_same u l : mem u (l ++ [u]) = true.
Proof. unfold mem. rewrite existsb_app. cbn. rewrite Nat.eqb_refl. cbn. apply orb_true_r. Qed.
Lemma mem_remove_le j u l : mem j (remove_nat u l) = true -> mem j l = true.
Proof. destruct (Nat.eq_dec j u) as [->|N]; [rewrite mem_remove_same; discriminate | rewrite mem_remove_other; auto]. Qed.

Definition w_holds_wc (p : wpc) : bool :=
  match p with
  | WLockQC | WRunUnlockQC _ | WRunUnlockWC _ | WIdleSignal | WIdleUnlockWC | WExitSignal | WExitUnlockWC => true
  | _ => false end.
Definition w_holds_qc (p : wpc) : bool :=
  match p with
  | WRunUnlockQC _ | WIdleSignal | WIdleUnlockWC | WCondWait | WWokenUnlockQC | WExitUnlockQC
  | WAsgSignal _ _ | WAsgUnlock _ _ => true
  | _ => false end.
Definition c_holds_wc (p : cpc) : bool := match p with CWaitCond _ | CWaitUnlock _ => true | _ => false end.
Definition c_holds_qc (p : cpc) : bool :=
  match p with CAsgSignal _ | CAsgUnlock _ | CKillBcast _ _ | CKillUnlock _ _ => true | _ => false end.

Definition OwnA (s : state) : Prop :=
  (forall i x, nth_error (workers s) i = Some x ->
     (w_holds_wc (w_pc x) = true -> wc_owner s = Some (S i)) /\
     (w_holds_qc (w_pc x) = true -> qc_owner s = Some (S i))) /\
  (c_holds_wc (pc0 s) = true -> wc_owner s = Some 0) /\
  (c_holds_qc (pc0 s) = true -> qc_owner s = Some 0).

Lemma chw_after_kills l a : c_holds_wc (after_kills l a) = false. Proof. destruct l; reflexivity. Qed.
Lemma chq_after_kills l a : c_holds_qc (after_kills l a) = false. Proof. destruct l; reflexivity. Qed.
Lemma chw_after_creates k a : c_holds_wc (after_creates k a) = false. Proof. destruct k; [destruct a|]; reflexivity. Qed.
Lemma chq_after_creates k a : c_holds_qc (after_creates k a) = false. Proof. destruct k; [destruct a|]; reflexivity. Qed.

Ltac norm_own :=
  repeat match goal with
         | E : eq_otid _ (Some _) = true |- _ => apply eq_otid_true in E
         | E : is_none (qc_owner _) = true |- _ => apply is_none_true in E
         | E : is_none (wc_owner _) = true |- _ => apply is_none_true in E
         | B : is_none _ && _ = true |- _ => apply andb_prop in B; destruct B as [B _]
         end.

Lemma owna_init : OwnA init.
Proof. split; [intros [|i] x H; discriminate | split; intros; discriminate]. Qed.

Lemma owna_step s l s' : OwnA s -> step s l = Some s' -> OwnA s'.
Proof.
  unfold OwnA. intros (A & CW & CQ) H.
  break_step H; cbn -[Nat.sub firstn skipn Z.add Z.sub] in *; norm_own;
    rewrite ?chw_after_kills, ?chq_after_kills, ?chw_after_creates, ?chq_after_creates;
    repeat match goal with C : pc0 _ = _ |- _ => rewrite C in *; cbn -[Nat.sub firstn skipn Z.add Z.sub] in * end;
    (split; [| split; try assumption; try (intros; discriminate); try reflexivity ]).
  all: try assumption.
  all: try solve [ intros HH; first [specialize (CW HH) | specialize (CQ HH)]; congruence ].
  all: try solve [ intros HH; first [specialize (CQ HH) | specialize (CW HH)]; congruence ].
  (* workers, list untouched *)
  all: try solve [ intros j y Hy; destruct (A j y Hy) as [A1 A2]; split; intros HH;
                   [specialize (A1 HH) | specialize (A2 HH)]; congruence ].
  (* create *)
  all: try solve [ intros j y Hy; destruct (Nat.lt_ge_cases j (length (workers s))) as [L|L];
                   [ rewrite nth_error_app1 in Hy by assumption; apply (A j y Hy)
                   | rewrite nth_error_app2 in Hy by assumption;
                     destruct (j - length (workers s))%nat as [|[|?]]; cbn in Hy; inversion Hy; subst; split; intros; discriminate ] ].
  (* one worker record replaced *)
  all: try solve [ intros j y Hy; apply upd_nth_inv in Hy; destruct Hy as [[<- ->]|[NE Hy]];
                   [ match goal with E : nth_error (workers _) _ = Some ?x |- _ => destruct (A _ _ E) as [A1 A2] end;
                     repeat match goal with P : w_pc _ = _ |- _ => rewrite P in * end; cbn in *;
                     split; intros HH; try discriminate; try reflexivity; auto
                   | destruct (A j y Hy) as [A1 A2]; split; intros HH;
                     [specialize (A1 HH) | specialize (A2 HH)]; congruence ] ].
  (* kill / join: pc unchanged *)
  all: try solve [ intros j y Hy; apply upd_nth_inv in Hy; destruct Hy as [[<- ->]|[NE Hy]];
                   [ match goal with E : nth_error (workers _) _ = Some ?x |- _ => destruct (A _ _ E) as [A1 A2] end;
                     cbn; split; intros HH; [specialize (A1 HH) | specialize (A2 HH)]; congruence
                   | destruct (A j y Hy) as [A1 A2];
                     cbn; split; intros HH; [specialize (A1 HH) | specialize (A2 HH)]; congruence ] ].
Qed.

Definition OwnB (s : state) : Prop :=
  (wc_owner s <> None -> c_holds_wc (pc0 s) = true \/ exists i x, nth_error (workers s) i = Some x /\ w_holds_wc (w_pc x) = true) /\
  (qc_owner s <> None -> c_holds_qc (pc0 s) = true \/ exists i x, nth_error (workers s) i = Some x /\ w_holds_qc (w_pc x) = true).

Lemma ownb_init : OwnB init.
Proof. split; intros H; exfalso; apply H; reflexivity. Qed.

Lemma nth_error_app_l {A} (l : list A) a i x : nth_error l i = Some x -> nth_error (l ++ [a]) i = Some x.
Proof. intros H. rewrite nth_error_app1; auto. apply nth_error_Some. congruence. Qed.

(* one of the two halves, after the case split *)
Ltac ownb_half OLD :=
  intros NE;
  first
    [ exfalso; apply NE; reflexivity
    | left; reflexivity
    | right; match goal with E : nth_error (workers _) ?i = Some ?x |- context [upd ?i ?y _] =>
               exists i, y; split; [apply (upd_nth_same _ _ _ _ E) | reflexivity] end
    | destruct (OLD NE) as [C | (j & y & Ej & Hj)];
      [ first [ left; first [reflexivity | assumption]
              | exfalso; discriminate C ]
      | right;
        first
          [ (* list untouched *) exists j, y; split; [first [exact Ej | apply nth_error_app_l; exact Ej] | exact Hj]
          | match goal with E : nth_error (workers _) ?i = Some ?x |- context [upd ?i ?y' _] =>
              destruct (Nat.eq_dec i j) as [EQ|NQ];
              [ subst; exists j, y'; split; [apply (upd_nth_same _ _ _ _ E) |];
                rewrite Ej in E; inversion E; subst;
                repeat match goal with P : w_pc _ = _ |- _ => rewrite P in * end; cbn in *;
                first [reflexivity | assumption | discriminate]
              | exists j, y; split; [rewrite upd_nth_other by assumption; exact Ej | exact Hj] ]
            end ] ] ].

Lemma ownb_step s l s' : OwnA s -> OwnB s -> step s l = Some s' -> OwnB s'.
Proof.
  unfold OwnB. intros (A & CW & CQ) (BW & BQ) H.
  break_step H; cbn -[Nat.sub firstn skipn Z.add Z.sub] in *; norm_own;
    rewrite ?chw_after_kills, ?chq_after_kills, ?chw_after_creates, ?chq_after_creates;
    repeat match goal with C : pc0 _ = _ |- _ => rewrite C in *; cbn -[Nat.sub firstn skipn Z.add Z.sub] in * end;
    (split; [try solve [ownb_half BW] | try solve [ownb_half BQ]]).
Qed.

(* ---- the waiter sleeps only while there is a reason ---- *)
Definition is_waitcond (p : cpc) : bool := match p with CWaitCond _ => true | _ => false end.
Definition wc_signaller (p : wpc) : bool := match p with WIdleSignal | WExitSignal => true | _ => false end.
Definition WaitInv (s : state) : Prop :=
  (forall u, In u (wc_wait s) -> u = 0) /\
  (mem 0 (wc_wait s) = true ->
     busy_counter s <> 0%Z \/ queue s <> [] \/ exists i x, nth_error (workers s) i = Some x /\ wc_signaller (w_pc x) = true) /\
  (is_waitcond (pc0 s) = true -> busy_counter s <> 0%Z \/ queue s <> []).

Lemma waitinv_init : WaitInv init.
Proof. split; [intros u []|]. split; intros; discriminate. Qed.

Lemma iwc_after_kills l a : is_waitcond (after_kills l a) = false. Proof. destruct l; reflexivity. Qed.
Lemma iwc_after_creates k a : is_waitcond (after_creates k a) = false. Proof. destruct k; [destruct a|]; reflexivity. Qed.

Lemma in_remove_nat u v l : In u (remove_nat v l) -> In u l.
Proof. unfold remove_nat. intros H. apply filter_In in H. tauto. Qed.

Lemma busy_pos ws i x : nth_error ws i = Some x -> w_busy x = true -> (1 <= length (filter w_busy ws))%nat.
Proof.
  intros E B. assert (In x (filter w_busy ws)) by (apply filter_In; split; [eapply nth_error_In; eauto | exact B]).
  destruct (filter w_busy ws); [destruct H | cbn; lia].
Qed.

Lemma check_false s : (busy_counter s =? 0)%Z && is_none (hd_error (queue s)) = false -> busy_counter s <> 0%Z \/ queue s <> [].
Proof.
  intros H. apply andb_false_iff in H. destruct H as [H|H].
  - left. apply Z.eqb_neq. exact H.
  - right. destruct (queue s); [discriminate | congruence].
Qed.

Lemma waitinv_step s l s' : OwnA s -> Busy s -> WaitInv s -> step s l = Some s' -> WaitInv s'.
Proof.
  unfold WaitInv, Busy, nbusy. intros (A & CW & CQ) [BC BF] (W1 & W2 & W3) H.
  break_step H; cbn -[Nat.sub firstn skipn Z.add Z.sub Z.of_nat mem remove_nat] in *; norm_own;
    rewrite ?iwc_after_kills, ?iwc_after_creates;
    repeat match goal with C : pc0 _ = _ |- _ => rewrite C in *; cbn -[Nat.sub firstn skipn Z.add Z.sub Z.of_nat mem remove_nat] in * end;
    (split; [| split]); try assumption; try (intros; discriminate).
  (* W3 *)
  all: try solve [ intros _; apply check_false; assumption ].
  all: try solve [ intros IW; exfalso; destruct (pc0 s); try discriminate; specialize (CW eq_refl);
                   match goal with E : nth_error (workers _) _ = Some ?x, P : w_pc ?x = _ |- _ =>
                     destruct (A _ _ E) as [A1 _]; rewrite P in A1; specialize (A1 eq_refl); congruence end ].
  (* W1 *)
  all: try solve [ intros u I; apply in_app_or in I; destruct I as [I|[<-|[]]]; auto ].
  all: try solve [ intros u I; apply in_remove_nat in I; auto ].
  (* W2: premise false after the removal, or re-established *)
  all: try solve [ rewrite mem_remove_same; intros; discriminate ].
  all: try solve [ intros _; destruct (W3 eq_refl); auto ].
  all: try solve [ intros _; right; left; destruct (queue s); discriminate ].
  all: try solve [ intros _; right; right;
                   match goal with E : nth_error (workers _) ?i = Some ?x |- context [upd ?i ?y _] =>
                     exists i, y; split; [apply (upd_nth_same _ _ _ _ E) | reflexivity] end ].
  all: try solve [ intros _; left; rewrite BC;
                   match goal with E : nth_error (workers _) _ = Some ?x, B : w_busy ?x = true |- _ =>
                     pose proof (busy_pos _ _ _ E B) end; lia ].
  all: try solve [ intros _; left; rewrite BC; lia ].
  (* W2: carried over *)
  all: try solve [ intros M; destruct (W2 M) as [Z|[Q|(j & y & Ej & Pj)]];
                   [ left; exact Z | right; left; exact Q | right; right ];
                   first
                     [ exists j, y; split; [first [exact Ej | apply nth_error_app_l; exact Ej] | exact Pj]
                     | match goal with E : nth_error (workers _) ?i = Some ?x |- context [upd ?i ?y' _] =>
                         destruct (Nat.eq_dec i j) as [EQ|NQ];
                         [ subst; rewrite Ej in E; inversion E; subst;
                           first [ congruence
                                 | solve [ repeat match goal with P : w_pc _ = _ |- _ => rewrite P in Pj end; discriminate Pj ]
                                 | exists j, y'; split; [apply (upd_nth_same _ _ _ _ Ej) | exact Pj] ]
                         | exists j, y; split; [rewrite upd_nth_other by assumption; exact Ej | exact Pj] ]
                       end ] ].
  all: try solve [ match goal with Q : wc_wait _ = [] |- _ => rewrite Q end; intros; discriminate ].
  all: try solve [ intros IW; exfalso; destruct (pc0 s); try discriminate; specialize (CW eq_refl); congruence ].
  all: try solve [ intros _; right; destruct (queue s); discriminate ].
  all: match goal with Q : wc_wait _ = ?a :: ?r, M : mem ?t (?a :: ?r) = true |- _ =>
         assert (a = 0) by (apply W1; rewrite Q; left; reflexivity);
         assert (t = 0) by (apply W1; rewrite Q; apply mem_true; exact M); subst; cbn [Nat.eqb negb];
         assert (WR : forall u, In u r -> u = 0) by (intros u I; apply W1; rewrite Q; right; exact I)
       end.
  all: first [ solve [ intros u I; apply in_remove_nat in I; auto ] | rewrite mem_remove_same; intros; discriminate ].
Qed.

(* ---- whoever is in the wait set of queue_changed is a worker inside cond_wait ---- *)
Definition QW (s : state) : Prop :=
  forall u, In u (qc_wait s) -> exists i x, u = S i /\ nth_error (workers s) i = Some x /\ w_pc x = WWaiting.

Lemma in_remove_nat2 u v l : In u (remove_nat v l) -> In u l /\ u <> v.
Proof.
  unfold remove_nat. intros H. apply filter_In in H. destruct H as [I N]. split; auto.
  intros ->. rewrite Nat.eqb_refl in N. discriminate.
Qed.

Ltac qw_carry Q :=
  intros u I;
  repeat match goal with
         | I : In _ (remove_nat _ _) |- _ => apply in_remove_nat2 in I; destruct I as [I ?]
         end;
  first
    [ destruct I
    | apply in_app_or in I; destruct I as [I|[<-|[]]];
      [| match goal with E : nth_error (workers _) ?i = Some ?x |- context [upd ?i ?y _] =>
           exists i, y; split; [reflexivity | split; [apply (upd_nth_same _ _ _ _ E) | reflexivity]] end ]
    | idtac ];
  destruct (Q u I) as (j & y & -> & Ej & Pj);
  first
    [ exists j, y; split; [reflexivity | split; [first [exact Ej | apply nth_error_app_l; exact Ej] | exact Pj]]
    | match goal with E : nth_error (workers _) ?i = Some ?x |- context [upd ?i ?y' _] =>
        destruct (Nat.eq_dec i j) as [EQ|NQ];
        [ subst; rewrite Ej in E; inversion E; subst;
          first [ congruence | exists j, y'; split; [reflexivity | split; [apply (upd_nth_same _ _ _ _ Ej) | exact Pj]] ]
        | exists j, y; split; [reflexivity | split; [rewrite upd_nth_other by assumption; exact Ej | exact Pj]] ]
      end ].

Lemma qw_init : QW init. Proof. intros u []. Qed.

Lemma qw_step s l s' : QW s -> step s l = Some s' -> QW s'.
Proof.
  unfold QW. intros Q H.
  break_step H; cbn -[Nat.sub firstn skipn Z.add Z.sub mem remove_nat] in *.
  all: try assumption.
  all: try solve [ qw_carry Q ].
  all: try solve [ intros u I;
                   match goal with W : qc_wait _ = ?a :: ?r |- _ =>
                     assert (I' : In u (a :: r)) by
                       (match type of I with In _ (if ?c then _ else _) => destruct c end;
                        [ destruct I as [<-|I]; [left; reflexivity | right; apply in_remove_nat in I; exact I]
                        | right; apply in_remove_nat in I; exact I ]);
                     rewrite <- W in I'; destruct (Q u I') as (j & y & -> & Ej & Pj); exists j, y; auto end ].
  (* a task body signals queue_changed *)
  all: try solve [ intros u I;
                   match goal with W : qc_wait _ = ?a :: ?r |- _ =>
                     assert (I' : In u (a :: r)) by
                       (match type of I with In _ (if ?c then _ else _) => destruct c end;
                        [ destruct I as [<-|I]; [left; reflexivity | right; apply in_remove_nat in I; exact I]
                        | right; apply in_remove_nat in I; exact I ]);
                     rewrite <- W in I'; destruct (Q u I') as (j & y & -> & Ej & Pj) end;
                   match goal with E : nth_error (workers _) ?i = Some ?x |- context [upd ?i ?y' _] =>
                     destruct (Nat.eq_dec i j) as [EQ|NQ];
                     [ subst; rewrite Ej in E; inversion E; subst; congruence
                     | exists j, y; split; [reflexivity | split; [rewrite upd_nth_other by assumption; exact Ej | exact Pj]] ]
                   end ].
Qed.

(* ---- exit paths are taken by freed workers only; a worker about to sleep is alive; kill lists are non-empty ---- *)
Definition is_exitpc (p : wpc) : bool :=
  match p with WExitUnlockQC | WExitLockWC | WExitSignal | WExitUnlockWC | WExit | WExited => true | _ => false end.
Definition MiscW (x : worker) : Prop :=
  (is_exitpc (w_pc x) = true -> w_alive x = false) /\ (w_pc x = WCondWait -> w_alive x = true).
Definition Misc (s : state) : Prop :=
  (forall i x, nth_error (workers s) i = Some x -> MiscW x) /\
  (inkill (pc0 s) = true -> killlist (pc0 s) <> []).

Lemma inkill_after_kills l a : inkill (after_kills l a) = true -> killlist (after_kills l a) <> [].
Proof. destruct l; cbn; intros; congruence. Qed.

Lemma misc_init : Misc init.
Proof. split; [intros [|i] x H; discriminate | intros; discriminate]. Qed.

Lemma misc_step s l s' : OwnA s -> Misc s -> step s l = Some s' -> Misc s'.
Proof.
  unfold Misc, MiscW. intros (A & CW & CQ) (M & K) H.
  break_step H; cbn -[Nat.sub firstn skipn Z.add Z.sub] in *; norm_own;
    rewrite ?inkill_after_creates;
    repeat match goal with C : pc0 _ = _ |- _ => rewrite C in *; cbn -[Nat.sub firstn skipn Z.add Z.sub] in * end;
    (split; [| try assumption; try (intros; discriminate); try (intros; congruence); try apply inkill_after_kills ]).
  all: try assumption.
  all: try solve [ intros j y Hy; destruct (Nat.lt_ge_cases j (length (workers s))) as [L|L];
                   [ rewrite nth_error_app1 in Hy by assumption; apply (M j y Hy)
                   | rewrite nth_error_app2 in Hy by assumption;
                     destruct (j - length (workers s))%nat as [|[|?]]; cbn in Hy; inversion Hy; subst; cbn; split; intros; first [discriminate | reflexivity] ] ].
  all: try solve [ intros j y Hy; apply upd_nth_inv in Hy; destruct Hy as [[<- ->]|[NE Hy]]; [| apply (M j y Hy)];
                   match goal with E : nth_error (workers _) _ = Some ?x |- _ => destruct (M _ _ E) as [M1 M2] end;
                   repeat match goal with P : w_pc _ = _ |- _ => rewrite P in * end; cbn in *;
                   split; intros HH; try discriminate; try reflexivity; auto ].
  all: intros j y Hy; apply upd_nth_inv in Hy; destruct Hy as [[<- ->]|[NE Hy]]; [| apply (M j y Hy)];
       match goal with E : nth_error (workers _) _ = Some ?x |- _ => destruct (M _ _ E) as [M1 M2]; destruct (A _ _ E) as [_ A2] end;
       cbn; split; intros HH; auto.
  exfalso. rewrite HH in A2. specialize (A2 eq_refl). congruence.
Qed.

(* ---- the pool list: distinct, valid, alive members; its length is the limit ---- *)
Definition creates_left (p : cpc) : nat := match p with CCreate k _ => k | _ => 0 end.
Definition valid_w (ws : list worker) (w : tid) : Prop := exists i x, w = S i /\ nth_error ws i = Some x.
Definition PL (s : state) : Prop :=
  NoDup (plist s ++ killlist (pc0 s)) /\
  (forall w, In w (plist s ++ killlist (pc0 s)) -> valid_w (workers s) w) /\
  (forall i x, In (S i) (plist s) -> nth_error (workers s) i = Some x -> w_alive x = true) /\
  (freeing (pc0 s) = false -> length (plist s) + creates_left (pc0 s) = climit s) /\
  (match pc0 s with CNotCreated => climit s = 0 | _ => 1 <= climit s end).

Lemma cl_after_creates k a : creates_left (after_creates k a) = k.
Proof. destruct k; [destruct a|]; reflexivity. Qed.
Lemma cl_after_kills l a : creates_left (after_kills l a) = 0.
Proof. destruct l; reflexivity. Qed.
Lemma nc_after_kills l a : match after_kills l a with CNotCreated => False | _ => True end.
Proof. destruct l; cbn; auto. Qed.
Lemma nc_after_creates k a : match after_creates k a with CNotCreated => False | _ => True end.
Proof. destruct k; [destruct a|]; cbn; auto. Qed.

Lemma valid_upd ws i y w : valid_w ws w -> valid_w (upd i y ws) w.
Proof.
  intros (j & x & -> & E). unfold valid_w. destruct (Nat.eq_dec i j) as [->|N].
  - exists j, y. split; [reflexivity | eapply upd_nth_same; eauto].
  - exists j, x. split; [reflexivity | rewrite upd_nth_other by assumption; exact E].
Qed.
Lemma valid_app ws a w : valid_w ws w -> valid_w (ws ++ [a]) w.
Proof. intros (j & x & -> & E). exists j, x. split; auto. apply nth_error_app_l; auto. Qed.
Lemma valid_lt ws w : valid_w ws w -> w <= length ws.
Proof. intros (j & x & -> & E). assert (j < length ws) by (apply nth_error_Some; congruence). lia. Qed.


Lemma pl_init : PL init.
Proof. repeat split; cbn; try constructor; try (intros ? []); try (intros ? ? []); auto. Qed.

Lemma pl_step s l s' : PL s -> step s l = Some s' -> PL s'.
Proof.
  unfold PL. intros (ND & V & AL & LEN & CL) H.
  break_step H; cbn -[Nat.sub firstn skipn Z.add Z.sub] in *;
    rewrite ?killlist_after_kills, ?killlist_after_creates, ?freeing_after_creates, ?freeing_after_kills,
            ?cl_after_creates, ?cl_after_kills;
    repeat match goal with C : pc0 _ = _ |- _ => rewrite C in *; cbn -[Nat.sub firstn skipn Z.add Z.sub] in * end.
  all: try solve [ repeat split; assumption ].
  (* worker steps *)
  all: try solve [ split; [exact ND|]; split; [intros w' I; apply valid_upd; apply V; exact I|];
                   split; [| split; assumption];
                   intros j y I Hy; apply upd_nth_inv in Hy; destruct Hy as [[<- ->]|[NE Hy]];
                   [ cbn; eapply AL; eauto | eapply AL; eauto ] ].
  - (* kill *)
    split; [exact ND|]. split; [intros w' I; apply valid_upd; apply V; exact I|]. split; [| split; assumption].
    intros j y I Hy. apply upd_nth_inv in Hy. destruct Hy as [[<- ->]|[NE Hy]]; [| eapply AL; eauto].
    exfalso. apply NoDup_remove_2 in ND. apply ND. apply in_app_iff. left. exact I.
  - (* wait returns *)
    repeat split; auto; destruct a; cbn in *; auto.
  - (* create *)
    rewrite app_nil_r in *.
    split; [constructor; [intros I; apply V in I; apply valid_lt in I; lia | exact ND]|].
    split; [intros w' [<-|I]; [exists (length (workers s)), new_worker; split; [reflexivity|];
                               rewrite nth_error_app2 by lia; rewrite Nat.sub_diag; reflexivity
                              | apply valid_app; apply V; exact I]|].
    split; [intros j y [EQ|I] Hy;
            [ inversion EQ; subst; rewrite nth_error_app2 in Hy by lia; rewrite Nat.sub_diag in Hy; inversion Hy; reflexivity
            | pose proof (valid_lt _ _ (V _ I)); rewrite nth_error_app1 in Hy by lia; eapply AL; eauto ]|].
    split; [intros _; specialize (LEN eq_refl); lia|].
    pose proof (nc_after_creates n a). destruct (after_creates n a); try contradiction; exact CL.
  - (* join *)
    assert (ND' : NoDup (plist s ++ l)) by (eapply NoDup_remove_1; exact ND).
    split; [exact ND'|].
    split; [intros w' I; apply valid_upd; apply V; apply in_app_iff; apply in_app_iff in I; destruct I; [left|right; right]; assumption|].
    split; [intros j y I Hy; apply upd_nth_inv in Hy; destruct Hy as [[<- ->]|[NE Hy]]; [| eapply AL; eauto];
            exfalso; apply NoDup_remove_2 in ND; apply ND; apply in_app_iff; left; exact I|].
    split; [exact LEN|].
    pose proof (nc_after_kills l a). destruct (after_kills l a); try contradiction; exact CL.
  - (* new *)
    specialize (LEN eq_refl). repeat split; auto; lia.
  - (* lower the limit *)
    rewrite app_nil_r in *.
    assert (LT : S n < climit s).
    { match goal with B : match climit s with _ => _ end = true |- _ =>
        destruct (climit s) as [|[|c]]; try discriminate B; apply Nat.leb_le in B; lia end. }
    specialize (LEN eq_refl).
    assert (P : Permutation (skipn (climit s - S n) (plist s) ++ firstn (climit s - S n) (plist s)) (plist s))
      by (rewrite Permutation_app_comm; rewrite firstn_skipn; reflexivity).
    split; [eapply Permutation_NoDup; [symmetry; exact P | exact ND]|].
    split; [intros w' I; apply V; eapply Permutation_in; [exact P | exact I]|].
    split; [intros j y I Hy; eapply AL; [| exact Hy]; eapply Permutation_in; [exact P|]; apply in_app_iff; left; exact I|].
    split; [intros _; rewrite skipn_length; lia|].
    pose proof (nc_after_kills (firstn (climit s - S n) (plist s)) ASetLimit).
    destruct (after_kills (firstn (climit s - S n) (plist s)) ASetLimit); try contradiction; lia.
  - (* raise the limit *)
    assert (GE : climit s <= S n).
    { match goal with B : match climit s with _ => _ end = false |- _ =>
        destruct (climit s) as [|[|c]]; try lia; apply Nat.leb_gt in B; lia end. }
    specialize (LEN eq_refl).
    split; [exact ND|]. split; [exact V|]. split; [exact AL|].
    split; [intros _; destruct (climit s); lia|].
    match goal with |- match after_creates ?k ?a with _ => _ end => pose proof (nc_after_creates k a); destruct (after_creates k a) end;
      try contradiction; lia.
  - (* free *)
    rewrite app_nil_r in *.
    split; [exact ND|]. split; [exact V|]. split; [intros j y []|]. split; [intros; discriminate|].
    pose proof (nc_after_kills (plist s) AFree). destruct (after_kills (plist s) AFree); try contradiction; exact CL.
Qed.

(* ---- a busy worker is on its way to (or in) a task, or (repaired) about to give its slot back.
        True under the discipline, and true in the repaired pool without any discipline; false in the
        unrepaired pool without discipline (C06_pool_limit_while_running_refuted). ---- *)
Definition busypc (p : wpc) : bool :=
  match p with
  | WTop | WLockWC | WLockQC | WRunUnlockQC _ | WRunUnlockWC _ | WRunStart _ _ | WRunYield _ _ | WRunEnd _ _
  | WAsgLock _ _ _ | WAsgSignal _ _ | WAsgUnlock _ _ | WAsgRet _ _ | WExitLockWC => true
  | _ => false end.
Definition BP (s : state) : Prop :=
  forall i x, nth_error (workers s) i = Some x -> w_busy x = true -> busypc (w_pc x) = true.

Lemma bp_init : BP init. Proof. intros [|i] x H; discriminate. Qed.

Ltac bp_tac B extra :=
  first
  [ assumption
  | solve [ match goal with |- context [workers ?s0 ++ _] =>
              intros j y Hy; destruct (Nat.lt_ge_cases j (length (workers s0))) as [L|L];
              [ rewrite nth_error_app1 in Hy by assumption; apply (B j y Hy)
              | rewrite nth_error_app2 in Hy by assumption;
                destruct (j - length (workers s0))%nat as [|[|?]]; cbn in Hy; inversion Hy; subst; cbn; intros; discriminate ] end ]
  | solve [ intros j y Hy BB; apply upd_nth_inv in Hy; destruct Hy as [[<- ->]|[NE Hy]]; [| apply (B j y Hy BB)];
            cbn in *; try reflexivity; try discriminate;
            match goal with E : nth_error (workers _) _ = Some ?x |- _ =>
              first [ pose proof (B _ _ E BB) as BX;
                      repeat match goal with P : w_pc _ = _ |- _ => rewrite P in * end; cbn in *;
                      first [reflexivity | discriminate | assumption | destruct (inline_mode _); reflexivity
                            | match goal with |- busypc (match ?st with _ => _ end) = true => destruct st; reflexivity end ]
                    | extra E ]
            end ] ].

Lemma bp_step s l s' : Disc s -> BP s -> step s l = Some s' -> BP s'.
Proof.
  unfold BP. intros [D K] B H.
  break_step H; cbn -[Nat.sub firstn skipn Z.add Z.sub] in *.
  all: bp_tac B ltac:(fun E => (* tau on a freed worker: not busy under the discipline *)
         match goal with AL : w_alive _ = false |- _ => destruct (D _ _ E AL) as [NB _]; congruence end).
Qed.

(* the repaired pool: no discipline needed *)
Definition BPr (s : state) : Prop := repaired s = true /\ BP s.
Lemma bpr_init : BPr init_r. Proof. split; [reflexivity | intros [|i] x H; discriminate]. Qed.
Lemma bpr_step s l s' : BPr s -> step s l = Some s' -> BPr s'.
Proof.
  unfold BPr, BP. intros [R B] H.
  break_step H; cbn -[Nat.sub firstn skipn Z.add Z.sub] in *; try discriminate R; (split; [assumption|]).
  all: bp_tac B ltac:(fun E => congruence).
Qed.

(* ---- the worker being freed is dead, and is never left asleep without a signal (any trace) ---- *)
Definition is_killbcast (p : cpc) (w : tid) : bool :=
  match p with CKillBcast (v :: _) _ => Nat.eqb v w | _ => false end.
Definition DeadW (s : state) : Prop :=
  (forall i x, nth_error (workers s) i = Some x -> killing (pc0 s) = Some (S i) -> w_alive x = false) /\
  (forall i x, nth_error (workers s) i = Some x -> w_alive x = false -> w_pc x = WWaiting ->
               mem (S i) (qc_wait s) = true -> is_killbcast (pc0 s) (S i) = true).

Lemma deadw_init : DeadW init.
Proof. split; intros [|i] x H; discriminate. Qed.

Lemma ikb_after_kills l a w : is_killbcast (after_kills l a) w = false. Proof. destruct l; reflexivity. Qed.
Lemma ikb_after_creates k a w : is_killbcast (after_creates k a) w = false. Proof. destruct k; [destruct a|]; reflexivity. Qed.

Lemma mem_if_remove a t t0 l :
  mem a (if negb (Nat.eqb t t0) then t0 :: remove_nat t l else remove_nat t l) = true -> mem a (t0 :: l) = true.
Proof.
  intros H. apply mem_true. apply mem_true in H. destruct (negb (Nat.eqb t t0)).
  - destruct H as [<-|H]; [left; reflexivity | right; apply in_remove_nat in H; exact H].
  - right. apply in_remove_nat in H. exact H.
Qed.

Lemma deadw_step s l s' : Misc s -> DeadW s -> step s l = Some s' -> DeadW s'.
Proof.
  unfold DeadW. intros [MW MK] [D1 D2] H.
  break_step H; cbn -[Nat.sub firstn skipn Z.add Z.sub mem remove_nat] in *;
    rewrite ?killing_after_kills, ?killing_after_creates, ?ikb_after_kills, ?ikb_after_creates;
    repeat match goal with C : pc0 _ = _ |- _ => rewrite C in *; cbn -[Nat.sub firstn skipn Z.add Z.sub mem remove_nat] in * end;
    (split; [try solve [intros; discriminate] | ]).
  all: try assumption.
  all: rewrite ?ikb_after_kills, ?ikb_after_creates.
  (* D1 *)
  all: try solve [ intros j y Hy KK; apply upd_nth_inv in Hy; destruct Hy as [[<- ->]|[NE Hy]];
                   [ cbn; first [reflexivity | eapply D1; eauto] | first [ eapply D1; eauto | inversion KK; congruence ] ] ].
  (* D2, client steps *)
  all: try solve [ intros j y Hy AL PW MM; exfalso;
                   first [ discriminate MM
                         | apply mem_if_remove in MM; match goal with Q : qc_wait _ = _ |- _ => rewrite <- Q in MM end;
                           pose proof (D2 _ _ Hy AL PW MM); discriminate
                         | pose proof (D2 _ _ Hy AL PW MM); discriminate ] ].
  all: try solve [ intros j y Hy AL PW MM; exfalso;
                   destruct (Nat.lt_ge_cases j (length (workers s))) as [L|L];
                   [ rewrite nth_error_app1 in Hy by assumption; pose proof (D2 _ _ Hy AL PW MM); discriminate
                   | rewrite nth_error_app2 in Hy by assumption;
                     destruct (j - length (workers s))%nat as [|[|?]]; cbn in Hy; inversion Hy; subst; discriminate ] ].
  (* D2, one worker record replaced *)
  all: try solve [ intros j y Hy AL PW MM; apply upd_nth_inv in Hy; destruct Hy as [[<- ->]|[NE Hy]];
                   [ cbn in *; first [ discriminate PW | apply Nat.eqb_refl | exfalso ];
                     match goal with E : nth_error (workers _) _ = Some ?x |- _ =>
                       first [ (* cont / alive change: same pc *)
                               solve [ eapply D2; eauto ]
                             | destruct (MW _ _ E) as [_ M2];
                               repeat match goal with P : w_pc _ = _ |- _ => rewrite P in * end;
                               first [ specialize (M2 eq_refl); congruence | congruence ] ]
                     end
                   | rewrite ?mem_app_other, ?mem_remove_other in MM by congruence;
                     first [ eapply D2; eauto
                           | exfalso; pose proof (D2 _ _ Hy AL PW MM); discriminate ] ] ].
  - intros j y Hy KK. inversion KK; subst. apply upd_nth_inv in Hy. destruct Hy as [[_ ->]|[NE _]]; [reflexivity | congruence].
  - intros j y Hy AL PW MM. apply upd_nth_inv in Hy. destruct Hy as [[<- ->]|[NE Hy]]; [cbn in * | ]; eapply D2; eauto.
  - intros j y Hy AL PW MM. exfalso. apply mem_if_remove in MM.
    match goal with Q : qc_wait s = _ |- _ =>
      assert (MM' : mem (S j) (qc_wait s) = true) by (rewrite Q; exact MM) end.
    pose proof (D2 _ _ Hy AL PW MM'). discriminate.
  - intros j y Hy AL PW MM. apply mem_if_remove in MM.
    match goal with Q : qc_wait s = _ |- _ =>
      assert (MM' : mem (S j) (qc_wait s) = true) by (rewrite Q; exact MM) end.
    apply upd_nth_inv in Hy. destruct Hy as [[<- ->]|[NE Hy]]; [cbn in PW; discriminate PW | eapply D2; eauto].
Qed.

(* ---- a non-empty queue is always being looked at (no lost wake-up on queue_changed), on every trace:
        while the pool list is non-empty, either a signal / broadcast on queue_changed is pending, or some
        worker is about to signal it, or some LIVE worker is not asleep-without-signal ---- *)
Definition is_waiting_pc (p : wpc) : bool := match p with WWaiting => true | _ => false end.
Definition is_wasgsignal (p : wpc) : bool := match p with WAsgSignal _ _ => true | _ => false end.
Definition qlook (q : list tid) (i : nat) (x : worker) : bool :=
  is_wasgsignal (w_pc x) || (w_alive x && negb (is_waiting_pc (w_pc x) && mem (S i) q)).
Definition c_sigpending (p : cpc) : bool := match p with CAsgSignal _ | CKillBcast _ _ => true | _ => false end.
Definition QInvG (s : state) : Prop :=
  queue s <> [] -> plist s <> [] ->
  c_sigpending (pc0 s) = true \/ exists i x, nth_error (workers s) i = Some x /\ qlook (qc_wait s) i x = true.

Lemma qinvg_init : QInvG init. Proof. intros H; exfalso; apply H; reflexivity. Qed.
Lemma qinvg_init_r : QInvG init_r. Proof. intros H; exfalso; apply H; reflexivity. Qed.

Lemma csp_after_kills l a : c_sigpending (after_kills l a) = false. Proof. destruct l; reflexivity. Qed.
Lemma csp_after_creates k a : c_sigpending (after_creates k a) = false. Proof. destruct k; [destruct a|]; reflexivity. Qed.

Lemma qlook_remove q u i x : qlook q i x = true -> qlook (remove_nat u q) i x = true.
Proof.
  unfold qlook. destruct (is_wasgsignal (w_pc x)); cbn; auto. destruct (w_alive x); cbn; auto.
  destruct (is_waiting_pc (w_pc x)); cbn; auto. intros H. destruct (mem (S i) (remove_nat u q)) eqn:E; auto.
  apply mem_remove_le in E. rewrite E in H. discriminate.
Qed.
Lemma mem_if_remove_same t a r :
  mem t (if negb (Nat.eqb t a) then a :: remove_nat t r else remove_nat t r) = false.
Proof.
  destruct (Nat.eqb_spec t a) as [->|N]; cbn [negb].
  - apply mem_remove_same.
  - unfold mem. cbn [existsb]. apply Nat.eqb_neq in N. rewrite N. cbn. apply mem_remove_same.
Qed.
Lemma qlook_nil i x : w_alive x = true -> qlook [] i x = true.
Proof. unfold qlook. intros ->. cbn. rewrite andb_false_r. apply orb_true_r. Qed.

(* the first member of a non-empty pool list is a live worker *)
Lemma plist_alive s : PL s -> plist s <> [] -> exists j y, nth_error (workers s) j = Some y /\ w_alive y = true /\ In (S j) (plist s).
Proof.
  intros (ND & V & AL & _) NE. destruct (plist s) as [|w pl] eqn:E; [congruence|].
  destruct (V w) as (j & y & -> & Ej); [left; reflexivity|].
  exists j, y. split; [exact Ej|]. split; [eapply AL; [left; reflexivity | exact Ej] | left; reflexivity].
Qed.

Ltac qg_same Lj :=
  unfold qlook in *; cbn [w_pc w_alive set_wpc set_wpc_cont set_wcont set_wbusy_pc set_walive set_wjoined] in *;
  repeat match goal with P : w_pc _ = _ |- _ => rewrite P in Lj end;
  cbn [is_wasgsignal is_waiting_pc orb andb negb] in *;
  rewrite ?mem_app_same, ?mem_remove_same; cbn [is_wasgsignal is_waiting_pc orb andb negb] in *;
  first [ exact Lj | discriminate Lj
        | destruct (w_alive _); cbn in *; first [reflexivity | discriminate Lj | exact Lj]
        | match goal with |- context [match ?st with _ => _ end] => destruct st end;
          destruct (w_alive _); cbn in *; first [reflexivity | discriminate Lj | exact Lj]
        | destruct (inline_mode _); destruct (w_alive _); cbn in *; first [reflexivity | discriminate Lj | exact Lj] ].
Ltac qg_other Lj :=
  first [ exact Lj | apply qlook_remove; exact Lj
        | unfold qlook in *; rewrite mem_app_other by congruence; exact Lj ].
Ltac qg_carry QI :=
  let QN := fresh "QN" in let PN := fresh "PN" in
  intros QN PN;
  match goal with s0 : state |- _ =>
    let QN0 := fresh "QN0" in let PN0 := fresh "PN0" in
    assert (QN0 : queue s0 <> []) by (first [exact QN | congruence]);
    assert (PN0 : plist s0 <> []) by (first [exact PN | congruence]);
    destruct (QI QN0 PN0) as [C | (j & y & Ej & Lj)];
    [ first [ left; exact C | discriminate C ]
    | right;
      first
        [ exists j, y; split; [first [exact Ej | apply nth_error_app_l; exact Ej] | qg_other Lj]
        | match goal with E : nth_error (workers _) ?i = Some ?x |- context [upd ?i ?y' _] =>
            destruct (Nat.eq_dec i j) as [EQ|NQ];
            [ subst; rewrite Ej in E; inversion E; subst;
              exists j, y'; split; [apply (upd_nth_same _ _ _ _ Ej) | qg_same Lj]
            | exists j, y; split; [rewrite upd_nth_other by assumption; exact Ej | qg_other Lj] ]
          end ] ]
  end.

Lemma qinvg_step s l s' :
  OwnA s -> NLW s -> QW s -> Misc s -> PL s -> DeadW s -> QInvG s -> step s l = Some s' -> QInvG s'.
Proof.
  unfold QInvG. intros (A & CW & CQ) NL Q [MW MK] PLs [D1 D2] QI H.
  pose proof (plist_alive s PLs) as PA.
  break_step H; cbn -[Nat.sub firstn skipn Z.add Z.sub mem remove_nat qlook] in *; norm_own;
    rewrite ?csp_after_kills, ?csp_after_creates;
    repeat match goal with C : pc0 _ = _ |- _ => rewrite C in *; cbn -[Nat.sub firstn skipn Z.add Z.sub mem remove_nat qlook] in * end.
  all: try assumption.
  all: try solve [ intros _ _; left; reflexivity ].
  all: try solve [ qg_carry QI ].
  - (* a task body pushes: it is about to signal *)
    intros _ _. right. exists t0. eexists. split; [apply (upd_nth_same _ _ _ _ Heqo) | reflexivity].
  - (* a live worker goes to sleep: it saw the queue empty and still holds the mutex *)
    intros QN _. exfalso. apply QN. apply (NL _ _ Heqo). rewrite Heqw0. reflexivity.
  - (* client signal releases a waiter: it is alive *)
    intros _ _. right.
    assert (I : In t (qc_wait s)) by (rewrite Heql; apply mem_true; exact Heqb0).
    destruct (Q t I) as (j & y & -> & Ej & Pj). exists j, y. split; [exact Ej|].
    unfold qlook. rewrite Pj. cbn [is_wasgsignal is_waiting_pc orb andb]. rewrite mem_if_remove_same.
    destruct (w_alive y) eqn:AL; [reflexivity|]. exfalso.
    assert (MM : mem (S j) (qc_wait s) = true) by (apply mem_true; exact I).
    pose proof (D2 _ _ Ej AL Pj MM) as F. discriminate F.
  - (* nobody was waiting *)
    intros _ PN. right. destruct (PA PN) as (j & y & Ej & ALy & _). exists j, y. split; [exact Ej|].
    rewrite Heql. apply qlook_nil. exact ALy.
  - (* a task body's signal releases a waiter: it is alive (else the client would hold the mutex) *)
    intros _ _. right.
    assert (I : In t (qc_wait s)) by (rewrite Heql; apply mem_true; exact Heqb0).
    destruct (Q t I) as (j & y & -> & Ej & Pj).
    assert (NE : t0 <> j) by (intros ->; rewrite Ej in Heqo; inversion Heqo; subst; congruence).
    exists j, y. split; [rewrite upd_nth_other by assumption; exact Ej|].
    unfold qlook. rewrite Pj. cbn [is_wasgsignal is_waiting_pc orb andb]. rewrite mem_if_remove_same.
    destruct (w_alive y) eqn:AL; [reflexivity|]. exfalso.
    assert (MM : mem (S j) (qc_wait s) = true) by (apply mem_true; exact I).
    pose proof (D2 _ _ Ej AL Pj MM) as F.
    assert (HC : c_holds_qc (pc0 s) = true) by (destruct (pc0 s); try discriminate F; reflexivity).
    specialize (CQ HC). destruct (A _ _ Heqo) as [_ A2]. rewrite Heqw0 in A2. specialize (A2 eq_refl). congruence.
  - (* nobody was waiting *)
    intros _ PN. right. destruct (PA PN) as (j & y & Ej & ALy & _).
    rewrite Heql. destruct (Nat.eq_dec t0 j) as [->|NE].
    + eexists j, _. split; [apply (upd_nth_same _ _ _ _ Heqo)|]. rewrite Ej in Heqo. inversion Heqo; subst.
      apply qlook_nil. exact ALy.
    + exists j, y. split; [rewrite upd_nth_other by assumption; exact Ej | apply qlook_nil; exact ALy].
  - (* broadcast: everybody is awake *)
    intros _ PN. right. destruct (PA PN) as (j & y & Ej & ALy & _). exists j, y. split; [exact Ej | apply qlook_nil; exact ALy].
  - (* create: the new worker *)
    intros _ _. right. exists (length (workers s)), new_worker. split.
    + rewrite nth_error_app2 by lia. rewrite Nat.sub_diag. reflexivity.
    + unfold qlook. cbn. reflexivity.
  - (* join: the joined worker is dead, it was not the witness *)
    intros QN PN. destruct (QI QN PN) as [C | (j & y & Ej & Lj)]; [discriminate C|]. right.
    destruct (Nat.eq_dec t j) as [->|NE].
    + exfalso. rewrite Ej in H0. inversion H0; subst. pose proof (D1 _ _ Ej eq_refl) as AL.
      unfold qlook in Lj. rewrite Heqw0, AL in Lj. discriminate Lj.
    + exists j, y. split; [rewrite upd_nth_other by assumption; exact Ej | exact Lj].
  - (* the limit is lowered: the remaining list is part of the old one *)
    intros QN PN.
    assert (PN0 : plist s <> []) by (intros E; rewrite E, skipn_nil in PN; apply PN; reflexivity).
    destruct (QI QN PN0) as [C | (j & y & Ej & Lj)]; [discriminate C|]. right. exists j, y. split; assumption.
Qed.

(* ---- shape of the client program counter ---- *)
Definition is_ret (e : uev) : bool :=
  match e with ENewRet | EWaitRet | ESetLimitRet | EFreeRet => true | _ => false end.
Definition CC (s : state) : Prop :=
  match pc0 s with CCreate O _ => False | CRet e => is_ret e = true | _ => True end.
Lemma cc_after_kills l a : match after_kills l a with CCreate O _ => False | CRet e => is_ret e = true | _ => True end.
Proof. destruct l; [destruct a|]; cbn; auto. Qed.
Lemma cc_after_creates k a : match after_creates k a with CCreate O _ => False | CRet e => is_ret e = true | _ => True end.
Proof. destruct k; [destruct a|]; cbn; auto. Qed.
Lemma cc_step s l s' : CC s -> step s l = Some s' -> CC s'.
Proof.
  unfold CC. intros C H.
  break_step H; cbn -[Nat.sub firstn skipn] in *;
    repeat match goal with C : pc0 _ = _ |- _ => rewrite C in *; cbn -[Nat.sub firstn skipn] in * end;
    auto; try apply cc_after_kills; try apply cc_after_creates.
  all: try solve [ destruct a; reflexivity ].
  all: try solve [ destruct (pn s =? 1); cbn; destruct (strict s); cbn; auto ].
Qed.

(* ---- the general invariants: every trace, with or without discipline, repaired or not ---- *)
Record InvG (s : state) : Prop := mkInvG {
  g_busy : Busy s; g_nlw : NLW s; g_owna : OwnA s; g_ownb : OwnB s; g_wait : WaitInv s;
  g_qw : QW s; g_misc : Misc s; g_pl : PL s; g_deadw : DeadW s; g_qinv : QInvG s; g_cc : CC s }.

Lemma invg_init : InvG init.
Proof.
  constructor; [apply busy_init | intros [|i] x H; discriminate | apply owna_init | apply ownb_init
               | apply waitinv_init | apply qw_init | apply misc_init | apply pl_init | apply deadw_init
               | apply qinvg_init | exact I].
Qed.
Lemma invg_init_r : InvG init_r.
Proof.
  constructor.
  - split; [reflexivity | constructor].
  - intros [|i] x H; discriminate.
  - split; [intros [|i] x H; discriminate | split; intros; discriminate].
  - split; intros H; exfalso; apply H; reflexivity.
  - split; [intros u []|]. split; intros; discriminate.
  - intros u [].
  - split; [intros [|i] x H; discriminate | intros; discriminate].
  - repeat split; cbn; try constructor; try (intros ? []); try (intros ? ? []); auto.
  - split; intros [|i] x H; discriminate.
  - apply qinvg_init_r.
  - exact I.
Qed.
Lemma invg_step s l s' : InvG s -> step s l = Some s' -> InvG s'.
Proof.
  intros [] H.
  constructor.
  - eapply busy_step; eauto.
  - eapply nlw_step; eauto.
  - eapply owna_step; eauto.
  - eapply ownb_step; eauto.
  - eapply waitinv_step; eauto.
  - eapply qw_step; eauto.
  - eapply misc_step; eauto.
  - eapply pl_step; eauto.
  - eapply deadw_step; eauto.
  - eapply qinvg_step; eauto.
  - eapply cc_step; eauto.
Qed.
Lemma invg_run tr s : run init tr = Some s -> InvG s.
Proof. apply (run_inv InvG invg_step tr init s invg_init). Qed.
Lemma invg_run_r tr s : run init_r tr = Some s -> InvG s.
Proof. apply (run_inv InvG invg_step tr init_r s invg_init_r). Qed.

(* ---- the disciplined model: in addition no freed worker is busy ---- *)
Record InvD (s : state) : Prop := mkInvD { i_g : InvG s; i_disc : Disc s; i_bp : BP s }.

Lemma invd_init : InvD init.
Proof. constructor; [apply invg_init | apply disc_init | apply bp_init]. Qed.
Lemma invd_step s l s' : InvD s -> step_d s l = Some s' -> InvD s'.
Proof.
  intros [G D B] H. pose proof (step_d_step _ _ _ H) as H'.
  constructor.
  - eapply invg_step; eauto.
  - eapply disc_step; eauto. apply G.
  - eapply bp_step; eauto.
Qed.
Lemma invd_run tr s : run_d init tr = Some s -> InvD s.
Proof. apply (run_d_inv InvD invd_step tr init s invd_init). Qed.

(* ---- the repaired pool, no discipline ---- *)
Record InvR (s : state) : Prop := mkInvR { r_g : InvG s; r_bp : BPr s }.
Lemma invr_run tr s : run init_r tr = Some s -> InvR s.
Proof.
  apply (run_inv InvR).
  - intros s0 l s1 [G B] H. constructor; [eapply invg_step; eauto | eapply bpr_step; eauto].
  - constructor; [apply invg_init_r | apply bpr_init].
Qed.

(* ---- who can move ---- *)
Definition wready (s : state) (i : nat) (x : worker) : bool :=
  w_cont x ||
  match w_pc x with
  | WExited => false
  | WLockWC | WExitLockWC => is_none (wc_owner s)
  | WLockQC | WAsgLock _ _ _ => is_none (qc_owner s)
  | WWaiting => negb (mem (S i) (qc_wait s)) && is_none (qc_owner s)
  | _ => true
  end.
Definition cready (s : state) : bool :=
  cont0 s ||
  match pc0 s with
  | CDone => false
  | CWaitLock _ => is_none (wc_owner s)
  | CAsgLock _ _ | CKillLock _ _ => is_none (qc_owner s)
  | CWaitBlocked _ => negb (mem 0 (wc_wait s)) && is_none (wc_owner s)
  | CKillJoin (w :: _) _ => match get_w s w with Some x => is_exited x | None => false end
  | CKillJoin [] _ => false
  | _ => true
  end.

Ltac fire :=
  eexists; split; [reflexivity | split; [reflexivity|]];
  unfold step; cbn [label_tid is_cont get_w bind];
  repeat match goal with E : nth_error (workers _) _ = Some _ |- _ => rewrite E end;
  cbn [bind]; repeat match goal with E : w_cont _ = _ |- _ => rewrite E end;
  unfold wstep, cstep; repeat match goal with E : w_pc _ = _ |- _ => rewrite E end;
  repeat match goal with E : pc0 _ = _ |- _ => rewrite E end;
  repeat match goal with E : cont0 _ = _ |- _ => rewrite E end;
  unfold lock, unlock, cwait, cwake, signal, bcast, bind; cbn [owner waitset];
  repeat match goal with E : wc_owner _ = _ |- _ => rewrite E end;
  repeat match goal with E : qc_owner _ = _ |- _ => rewrite E end;
  cbn [is_none eq_otid andb]; rewrite ?Nat.eqb_refl; cbn [andb Bool.eqb negb];
  repeat match goal with E : mem _ _ = _ |- _ => rewrite E end; cbn [Bool.eqb negb andb];
  try reflexivity.

Lemma wready_step s i x :
  OwnA s -> nth_error (workers s) i = Some x -> wready s i x = true ->
  exists l s', is_spurious l = false /\ label_tid l = S i /\ step s l = Some s'.
Proof.
  intros (A & _ & _) E R. destruct (A _ _ E) as [A1 A2]. unfold wready in R.
  destruct (w_cont x) eqn:C.
  - exists (LCont (S i)). eexists. split; [reflexivity|]. split; [reflexivity|].
    unfold step. cbn. rewrite E. cbn. rewrite C. reflexivity.
  - cbn in R. destruct (w_pc x) eqn:P; cbn in A1, A2; try discriminate R;
      try (specialize (A1 eq_refl)); try (specialize (A2 eq_refl));
      try (apply andb_prop in R; destruct R as [R1 R2]; apply negb_true_iff in R1);
      repeat match goal with R : is_none _ = true |- _ => apply is_none_true in R end.
    + exists (LBegin (S i)). fire.
    + exists (LTau (S i)). fire.
    + exists (LLock (S i) WC). fire.
    + destruct (queue s) eqn:Q; destruct (w_busy x) eqn:B; exists (LLock (S i) QC); fire; cbn; rewrite ?Q, ?B; reflexivity.
    + exists (LUnlock (S i) QC). fire.
    + exists (LUnlock (S i) WC). fire.
    + exists (LEv (S i) (EStart t)). fire.
    + exists (LYield (S i)). fire.
    + exists (LEv (S i) (EEnd t)). fire.
    + exists (LLock (S i) QC). fire.
    + destruct (qc_wait s) as [|a r] eqn:W.
      * exists (LSignal (S i) QC None). fire. rewrite W. reflexivity.
      * exists (LSignal (S i) QC (Some a)). fire. rewrite W. unfold mem. cbn. rewrite Nat.eqb_refl. reflexivity.
    + exists (LUnlock (S i) QC). fire.
    + exists (LEv (S i) EAssignRet). fire.
    + destruct (wc_wait s) as [|a r] eqn:W.
      * exists (LSignal (S i) WC None). fire. rewrite W. reflexivity.
      * exists (LSignal (S i) WC (Some a)). fire. rewrite W. unfold mem. cbn. rewrite Nat.eqb_refl. reflexivity.
    + exists (LUnlock (S i) WC). fire.
    + exists (LCWait (S i) QC). fire.
    + exists (LCWake (S i) QC false). fire.
    + exists (LUnlock (S i) QC). fire.
    + exists (LUnlock (S i) QC). fire.
    + destruct (w_busy x) eqn:B; exists (LLock (S i) WC); fire.
    + destruct (wc_wait s) as [|a r] eqn:W.
      * exists (LSignal (S i) WC None). fire. rewrite W. reflexivity.
      * exists (LSignal (S i) WC (Some a)). fire. rewrite W. unfold mem. cbn. rewrite Nat.eqb_refl. reflexivity.
    + exists (LUnlock (S i) WC). fire.
    + exists (LExit (S i)). fire.
Qed.

Ltac cfire :=
  eexists; split; [reflexivity|];
  unfold step_d, step; cbn [label_tid is_cont kill_event andb];
  repeat match goal with E : cont0 _ = _ |- _ => rewrite E end;
  unfold cstep; repeat match goal with E : pc0 _ = _ |- _ => rewrite E end;
  unfold lock, unlock, cwait, cwake, signal, bcast, bind; cbn [owner waitset];
  repeat match goal with E : wc_owner _ = _ |- _ => rewrite E end;
  repeat match goal with E : qc_owner _ = _ |- _ => rewrite E end;
  cbn [is_none eq_otid andb]; rewrite ?Nat.eqb_refl; cbn [andb Bool.eqb negb];
  repeat match goal with E : mem _ _ = _ |- _ => rewrite E end; cbn [Bool.eqb negb andb];
  try reflexivity.

Lemma cready_step s :
  OwnA s -> Misc s -> PL s -> CC s -> cready s = true ->
  exists l s', is_spurious l = false /\ step_d s l = Some s'.
Proof.
  intros (_ & CW & CQ) [_ MK] (_ & V & _) C R. unfold cready in R. unfold CC in C.
  destruct (cont0 s) eqn:C0.
  - exists (LCont 0). eexists. split; [reflexivity|]. unfold step_d, step. cbn. rewrite C0. reflexivity.
  - cbn in R. destruct (pc0 s) eqn:P; cbn in CW, CQ, MK, V, C; try discriminate R;
      try (specialize (CW eq_refl)); try (specialize (CQ eq_refl));
      try (apply andb_prop in R; destruct R as [R1 R2]; apply negb_true_iff in R1);
      repeat match goal with R : is_none _ = true |- _ => apply is_none_true in R end.
    + exists (LEv 0 (ENew 1)). cfire.
    + exists (LEv 0 EWait). cfire.
    + destruct k; [destruct C|]. exists (LCreate 0 (S (length (workers s)))). cfire.
    + exists (LLock 0 WC). cfire.
    + exists (LCWait 0 WC). cfire.
    + exists (LCWake 0 WC false). cfire.
    + exists (LUnlock 0 WC). cfire.
    + exists (LEv 0 e). destruct e; try discriminate C; cfire.
    + exists (LEv 0 (EStart t)). cfire.
    + exists (LYield 0). cfire.
    + exists (LEv 0 (EEnd t)). cfire.
    + exists (LLock 0 QC). cfire.
    + destruct (qc_wait s) as [|a r] eqn:W.
      * exists (LSignal 0 QC None). cfire. rewrite W. reflexivity.
      * exists (LSignal 0 QC (Some a)). cfire. rewrite W. unfold mem. cbn. rewrite Nat.eqb_refl. reflexivity.
    + exists (LUnlock 0 QC). cfire.
    + exists (LEv 0 EAssignRet). cfire.
    + destruct ws as [|w ws]; [exfalso; apply (MK eq_refl); reflexivity|].
      destruct (V w) as (j & x & -> & E); [apply in_app_iff; right; left; reflexivity|].
      exists (LLock 0 QC). cfire. cbn. rewrite E. reflexivity.
    + exists (LBcast 0 QC (length (qc_wait s))). cfire.
    + exists (LUnlock 0 QC). cfire.
    + destruct ws as [|w ws]; [discriminate R|].
      destruct (get_w s w) as [x|] eqn:G; [|discriminate R]. unfold is_exited in R.
      destruct (w_pc x) eqn:PX; try discriminate R.
      exists (LJoin 0 w). cfire. rewrite G. cbn. rewrite PX. reflexivity.
Qed.

Lemma indexed_dec {A} (p : nat -> A -> bool) (l : list A) : forall k,
  (exists i x, nth_error l i = Some x /\ p (k + i) x = true) \/
  (forall i x, nth_error l i = Some x -> p (k + i) x = false).
Proof.
  induction l as [|a l IH]; intros k.
  - right. intros [|i] x H; discriminate.
  - destruct (p k a) eqn:E.
    + left. exists 0, a. rewrite Nat.add_0_r. auto.
    + destruct (IH (S k)) as [(i & x & Ei & Pi)|N].
      * left. exists (S i), x. rewrite <- plus_n_Sm. auto.
      * right. intros [|i] x H; simpl in H.
        -- inversion H; subst. rewrite Nat.add_0_r. exact E.
        -- rewrite <- plus_n_Sm. apply (N i x H).
Qed.

Lemma filter_nonempty {A} (p : A -> bool) l : length (filter p l) <> 0 -> exists i x, nth_error l i = Some x /\ p x = true.
Proof.
  intros H. destruct (filter p l) as [|a r] eqn:F; [exfalso; apply H; reflexivity|].
  assert (I : In a (filter p l)) by (rewrite F; left; reflexivity).
  apply filter_In in I. destruct I as [I PA]. destruct (In_nth_error _ _ I) as [i Ei]. eauto.
Qed.

(* nobody can move (spurious wake-ups apart).  Then nobody holds a mutex, every worker has exited or is
   asleep in cond_wait (queue_changed) without a pending signal, and the client has finished (after free)
   or is asleep in the cond_wait of mps_thread_pool_wait without a pending signal.  In particular the
   client is NOT inside mps_thread_free (lock / join), whatever the pool was doing when it was called. *)
Definition all_quiet (s : state) : Prop :=
  cready s = false /\ forall i x, nth_error (workers s) i = Some x -> wready s i x = false.
Definition workers_asleep (s : state) : Prop :=
  forall i x, nth_error (workers s) i = Some x ->
    w_cont x = false /\ (w_pc x = WExited \/ (w_pc x = WWaiting /\ mem (S i) (qc_wait s) = true)).

Lemma quiet_analysis s :
  InvG s -> all_quiet s ->
  workers_asleep s /\ cont0 s = false /\
  (pc0 s = CDone \/ exists a, pc0 s = CWaitBlocked a /\ mem 0 (wc_wait s) = true).
Proof.
  intros I [CR WR].
  destruct I as [[BC BF] NL (A & CW & CQ) [BW BQ] (W1 & W2 & W3) Q [MW MK] (NDp & V & AL & LEN & CL) [D1 D2] QI C].
  unfold cready in CR. apply orb_false_iff in CR. destruct CR as [C0 CR].
  assert (WRx : forall i x, nth_error (workers s) i = Some x ->
            w_cont x = false /\
            match w_pc x with
            | WExited => true
            | WLockWC | WExitLockWC => negb (is_none (wc_owner s))
            | WLockQC | WAsgLock _ _ _ => negb (is_none (qc_owner s))
            | WWaiting => mem (S i) (qc_wait s) || negb (is_none (qc_owner s))
            | _ => false end = true).
  { intros i x E. specialize (WR i x E). unfold wready in WR. apply orb_false_iff in WR. destruct WR as [WC0 WRR].
    split; auto. destruct (w_pc x); try discriminate WRR; try reflexivity; try (rewrite WRR; reflexivity).
    apply andb_false_iff in WRR. destruct WRR as [WRR|WRR]; [apply negb_false_iff in WRR; rewrite WRR; reflexivity | rewrite WRR; apply orb_true_r]. }
  (* nobody holds queue_changed_mutex *)
  assert (QN : qc_owner s = None).
  { destruct (qc_owner s) eqn:O; auto. exfalso.
    destruct BQ as [HC | (j & y & Ej & Hj)]; [congruence | |].
    - destruct (pc0 s); try discriminate HC; discriminate CR.
    - destruct (WRx _ _ Ej) as [_ R]. destruct (w_pc y); try discriminate Hj; discriminate R. }
  (* nobody holds work_completed_mutex *)
  assert (WN : wc_owner s = None).
  { destruct (wc_owner s) eqn:O; auto. exfalso.
    destruct BW as [HC | (j & y & Ej & Hj)]; [congruence | |].
    - destruct (pc0 s); try discriminate HC; discriminate CR.
    - destruct (WRx _ _ Ej) as [_ R]. destruct (w_pc y); try discriminate Hj; try discriminate R.
      rewrite QN in R. discriminate R. }
  rewrite QN, WN in *. cbn [is_none negb orb] in *.
  assert (ASL : workers_asleep s).
  { intros i x E. destruct (WRx _ _ E) as [WC0 R]. split; auto. destruct (w_pc x); try discriminate R; auto.
    right. split; auto. rewrite orb_false_r in R. exact R. }
  split; [exact ASL|]. split; [exact C0|].
  unfold CC in C.
  destruct (pc0 s) eqn:PC; try discriminate CR; auto.
  - (* inside cond_wait of mps_thread_pool_wait *)
    right. exists a. split; auto. rewrite andb_true_r in CR. apply negb_false_iff in CR. exact CR.
  - (* pthread_join on a worker that does not exit: impossible *)
    exfalso.
    destruct ws as [|w ws]; [apply (MK eq_refl); reflexivity|].
    destruct (V w) as (j & y & -> & Ej); [apply in_app_iff; right; left; reflexivity|].
    cbn in CR. rewrite Ej in CR. unfold is_exited in CR.
    assert (DA : w_alive y = false) by (apply (D1 _ _ Ej); reflexivity).
    destruct (ASL _ _ Ej) as [_ [PX|[PX MX]]]; [rewrite PX in CR; discriminate CR|].
    pose proof (D2 _ _ Ej DA PX MX) as F. discriminate F.
Qed.

Lemma not_quiet_step s :
  InvG s -> ~ all_quiet s -> exists l s', is_spurious l = false /\ step_d s l = Some s'.
Proof.
  intros I NQ.
  destruct (cready s) eqn:CR.
  { destruct I. eapply cready_step; eauto. }
  destruct (indexed_dec (wready s) (workers s) 0) as [(i & x & E & R)|WR].
  { destruct I. destruct (wready_step s i x g_owna0 E R) as (l & s' & SP & T & ST).
    exists l, s'. split; auto. unfold step_d. destruct l; auto. cbn in T. subst. exact ST. }
  exfalso. apply NQ. split; [exact CR | exact WR].
Qed.

Lemma all_quiet_dec s : all_quiet s \/ ~ all_quiet s.
Proof.
  unfold all_quiet. destruct (cready s); [right; intros [H _]; discriminate|].
  destruct (indexed_dec (wready s) (workers s) 0) as [(i & x & E & R)|WR].
  - right. intros [_ H]. cbn [Nat.add] in R. rewrite (H i x E) in R. discriminate.
  - left. split; [reflexivity | exact WR].
Qed.

Lemma all_asleep_intro s : forall ws k,
  (forall i x, nth_error ws i = Some x -> worker_asleep s (k + i) x = true) -> all_asleep_from s k ws = true.
Proof.
  induction ws as [|a l IH]; intros k H; simpl; auto.
  apply andb_true_intro. split.
  - specialize (H 0 a eq_refl). rewrite Nat.add_0_r in H. exact H.
  - apply IH. intros i x E. specialize (H (S i) x E). rewrite <- plus_n_Sm in H. exact H.
Qed.

(* PROGRESS WITHOUT DISCIPLINE: a state of the pool (any trace, repaired or not) in which only spurious
   wake-ups are enabled, other than the final state after free, is a dead state: the client is inside the
   cond_wait of mps_thread_pool_wait. *)
Theorem pool_stuck_only_in_wait_inv s :
  InvG s -> pc0 s <> CDone ->
  (forall l s', step s l = Some s' -> is_spurious l = true) ->
  dead_state s = true /\ exists a, pc0 s = CWaitBlocked a.
Proof.
  intros I ND ST.
  destruct (all_quiet_dec s) as [AQ|NQ].
  - destruct (quiet_analysis s I AQ) as (ASL & C0 & [PC|(a & PC & M)]); [contradiction|].
    split; [| exists a; exact PC].
    unfold dead_state, client_blocked_in_wait. rewrite C0, PC, M. cbn.
    apply all_asleep_intro. intros i x E. cbn. destruct (ASL i x E) as [WC0 [PX|[PX MX]]]; unfold worker_asleep; rewrite WC0, PX; cbn; auto.
  - exfalso. destruct (not_quiet_step s I NQ) as (l & s' & SP & H). apply step_d_step in H.
    rewrite (ST _ _ H) in SP. discriminate.
Qed.

Theorem pool_stuck_only_in_wait tr s :
  run init tr = Some s -> pc0 s <> CDone ->
  (forall l s', step s l = Some s' -> is_spurious l = true) ->
  dead_state s = true /\ exists a, pc0 s = CWaitBlocked a.
Proof. intros H. apply pool_stuck_only_in_wait_inv. eapply invg_run; eauto. Qed.

(* hence free and set_concurrency_limit never block themselves: while the client is inside one of them
   (or anywhere else than in the cond_wait of wait) some step other than a spurious wake-up is enabled,
   whatever the pool is doing (tasks running, queue non-empty) *)
Theorem pool_api_never_blocks tr s :
  run init tr = Some s -> pc0 s <> CDone -> (forall a, pc0 s <> CWaitBlocked a) ->
  exists l s', is_spurious l = false /\ step s l = Some s'.
Proof.
  intros H ND NW. pose proof (invg_run tr s H) as I.
  destruct (all_quiet_dec s) as [AQ|NQ].
  - exfalso. destruct (quiet_analysis s I AQ) as (_ & _ & [PC|(a & PC & _)]); [contradiction | apply (NW a PC)].
  - destruct (not_quiet_step s I NQ) as (l & s' & SP & ST). exists l, s'. split; auto. apply step_d_step; exact ST.
Qed.

(* the client asleep in wait always has a reason, provided busy workers are where they should be *)
Lemma wait_has_reason s :
  InvG s -> BP s -> workers_asleep s -> forall a, pc0 s = CWaitBlocked a -> mem 0 (wc_wait s) = true -> False.
Proof.
  intros I BPI ASL a PC M.
  destruct I as [[BC BF] NL (A & CW & CQ) [BW BQ] (W1 & W2 & W3) Q [MW MK] PLs [D1 D2] QI C].
  destruct (W2 M) as [Z | [QE | (j & y & Ej & Pj)]].
  - assert (NB : length (filter w_busy (workers s)) <> 0) by (unfold nbusy in BC; intros Z0; rewrite Z0 in BC; apply Z; exact BC).
    destruct (filter_nonempty _ _ NB) as (j & y & Ej & Bj).
    pose proof (BPI _ _ Ej Bj) as PB. destruct (ASL _ _ Ej) as [_ [PX|[PX _]]]; rewrite PX in PB; discriminate PB.
  - assert (PN : plist s <> []).
    { destruct PLs as (_ & _ & _ & LEN & CL). rewrite PC in LEN, CL. cbn in LEN, CL. specialize (LEN eq_refl).
      intros E. rewrite E in LEN. cbn in LEN. lia. }
    destruct (QI QE PN) as [HC | (j & y & Ej & Lj)]; [rewrite PC in HC; discriminate HC|].
    unfold qlook in Lj. destruct (ASL _ _ Ej) as [_ [PX|[PX MX]]]; rewrite PX in Lj; cbn in Lj.
    + destruct (MW _ _ Ej) as [M1 _]. rewrite PX in M1. rewrite (M1 eq_refl) in Lj. discriminate Lj.
    + rewrite MX in Lj. cbn in Lj. rewrite andb_false_r in Lj. discriminate Lj.
  - destruct (ASL _ _ Ej) as [_ [PX|[PX _]]]; rewrite PX in Pj; discriminate Pj.
Qed.

(* deadlock freedom of the disciplined model *)
Theorem pool_no_stuck_inv s :
  InvD s -> pc0 s <> CDone -> exists l s', is_spurious l = false /\ step_d s l = Some s'.
Proof.
  intros [I D B] ND.
  destruct (all_quiet_dec s) as [AQ|NQ]; [| apply not_quiet_step; assumption].
  exfalso. destruct (quiet_analysis s I AQ) as (ASL & C0 & [PC|(a & PC & M)]); [contradiction|].
  eapply wait_has_reason; eauto.
Qed.

Theorem pool_no_stuck_state tr s :
  run_d init tr = Some s -> pc0 s <> CDone ->
  exists l s', is_spurious l = false /\ step_d s l = Some s'.
Proof. intros H. apply pool_no_stuck_inv. eapply invd_run; eauto. Qed.

(* deadlock freedom of the REPAIRED pool, no precondition at all: limit lowered / pool freed while tasks
   run, nested assign, ... *)
Theorem pool_repaired_no_stuck_state tr s :
  run init_r tr = Some s -> pc0 s <> CDone ->
  exists l s', is_spurious l = false /\ step s l = Some s'.
Proof.
  intros H ND. destruct (invr_run tr s H) as [I [_ B]].
  destruct (all_quiet_dec s) as [AQ|NQ].
  - exfalso. destruct (quiet_analysis s I AQ) as (ASL & C0 & [PC|(a & PC & M)]); [contradiction|].
    eapply wait_has_reason; eauto.
  - destruct (not_quiet_step s I NQ) as (l & s' & SP & ST). exists l, s'. split; auto. apply step_d_step; exact ST.
Qed.

(* the client is blocked: inside cond_wait of mps_thread_pool_wait without a pending signal, or in
   pthread_join on a worker that has not exited *)
Definition client_blocked (s : state) : Prop :=
  cont0 s = false /\
  ((exists a, pc0 s = CWaitBlocked a /\ mem 0 (wc_wait s) = true) \/
   (exists w ws a x, pc0 s = CKillJoin (w :: ws) a /\ get_w s w = Some x /\ is_exited x = false)).

Lemma blocked_client_no_step s l s' :
  client_blocked s -> step s l = Some s' -> is_spurious l = false -> label_tid l <> 0.
Proof.
  intros (C0 & B) H SP T.
  destruct l; cbn in T; subst; unfold step in H; cbn in H; rewrite C0 in H; try discriminate H;
    unfold cstep in H;
    destruct B as [(a & P & M)|(w & ws & a & x & P & G & EX)]; rewrite P in H; try discriminate H.
  all: try (destruct m; try discriminate H).
  all: try solve [ destruct spurious; [discriminate SP|]; unfold cwake, bind in H; cbn -[mem] in H; rewrite M in H;
                   destruct (is_none (wc_owner s)); discriminate H ].
  all: try solve [ destruct (u =? w); try discriminate H; rewrite G in H; cbn in H; unfold is_exited in EX;
                   destruct (w_pc x); try discriminate H; discriminate EX ].
  all: try solve [ destruct e; discriminate H ].
Qed.

(* while the client is blocked some worker can take a step that is not a spurious wake-up *)
Theorem pool_no_stuck_worker tr s :
  run_d init tr = Some s -> client_blocked s ->
  exists l s', is_spurious l = false /\ label_tid l <> 0 /\ step_d s l = Some s'.
Proof.
  intros H B.
  assert (ND : pc0 s <> CDone) by (destruct B as (_ & [(a & P & _)|(w & ws & a & x & P & _)]); rewrite P; discriminate).
  destruct (pool_no_stuck_state tr s H ND) as (l & s' & SP & ST).
  exists l, s'. split; auto. split; auto. eapply blocked_client_no_step; eauto. apply step_d_step; exact ST.
Qed.
