(* PoolProps.v -- C06: invariants of the pool model (PoolModel.v) and their consequences. *)
Require Import List ZArith Bool Arith Lia Permutation.
Require Import MPSV.Conc.PoolModel MPSV.Conc.PoolLemmas MPSV.Conc.PoolWitness.
Import ListNotations.

(* ------------------------------------------------------------------ generic lifting *)
Lemma step_d_step s l s' : step_d s l = Some s' -> step s l = Some s'.
Proof.
  unfold step_d. destruct l; auto. destruct t; auto.
  destruct (kill_event s e && negb (quiescent s)); auto; discriminate.
Qed.

Lemma run_inv (P : state -> Prop) :
  (forall s l s', P s -> step s l = Some s' -> P s') ->
  forall tr s s', P s -> run s tr = Some s' -> P s'.
Proof.
  intros HP tr; induction tr as [|l tr IH]; intros s s' Ps H; simpl in H.
  - inversion H; subst; auto.
  - unfold bind in H. destruct (step s l) as [s1|] eqn:E; try discriminate. apply (IH s1 s'); [ apply (HP s l s1 Ps E) | exact H ].
Qed.
Lemma run_d_inv (P : state -> Prop) :
  (forall s l s', P s -> step_d s l = Some s' -> P s') ->
  forall tr s s', P s -> run_d s tr = Some s' -> P s'.
Proof.
  intros HP tr; induction tr as [|l tr IH]; intros s s' Ps H; simpl in H.
  - inversion H; subst; auto.
  - unfold bind in H. destruct (step_d s l) as [s1|] eqn:E; try discriminate. apply (IH s1 s'); [ apply (HP s l s1 Ps E) | exact H ].
Qed.
Lemma run_d_run tr : forall s s', run_d s tr = Some s' -> run s tr = Some s'.
Proof.
  induction tr as [|l tr IH]; intros s s' H; simpl in *; auto.
  unfold bind in *. destruct (step_d s l) eqn:E; try discriminate.
  rewrite (step_d_step _ _ _ E). auto.
Qed.

Lemma ctask_after_kills l a : ctask (after_kills l a) = [].
Proof. destruct l; reflexivity. Qed.
Lemma ctask_after_creates k a : ctask (after_creates k a) = [].
Proof. destruct k; [destruct a|]; reflexivity. Qed.

Definition wt (x : worker) := wtask (w_pc x).
Lemma running_eq s : running s = flat_map wt (workers s).
Proof. reflexivity. Qed.

(* ------------------------------------------------------------------ conservation *)
Definition Cons (s : state) : Prop :=
  Permutation (assigned s) (pending s ++ queue s ++ running s ++ executed s) /\ NoDup (assigned s).

Ltac same_running :=
  match goal with
  | E : nth_error (workers _) ?i = Some ?x, P : w_pc ?x = _ |- _ =>
      rewrite (flat_map_upd_same wt i x) by (auto; unfold wt; cbn; rewrite P; reflexivity)
  end.

Ltac upd_fact :=
  match goal with
  | E : nth_error (workers _) ?i = Some ?x, P : w_pc ?x = _ |- context [upd ?i ?y _] =>
      let F := fresh "F" in
      pose proof (flat_map_upd wt i x y _ E) as F; unfold wt at 1 3 in F; rewrite P in F; cbn in F
  end.
Ltac qrew I := match goal with Q : queue _ = _ :: _ |- _ => rewrite Q in I end.

Lemma cons_init : Cons init.
Proof. split; [reflexivity | constructor]. Qed.

Lemma cons_step s l s' : Cons s -> step s l = Some s' -> Cons s'.
Proof.
  unfold Cons, pending. intros [I ND] H. rewrite running_eq in *.
  break_step H; cbn -[Nat.sub] in *; rewrite ?ctask_after_kills, ?ctask_after_creates; cbn [app];
    (split; [| try assumption]).
  all: try assumption.
  all: try (same_running; assumption).
  all: try solve [ match goal with E : nth_error (workers _) ?i = Some ?x |- _ => rewrite (flat_map_upd_same wt i x); auto end ].
  all: try solve [ rewrite <- app_assoc; rewrite I; apply Permutation_middle ].
  all: try solve [ qrew I; rewrite I; upd_fact; rewrite F; apply Permutation_app_head; cbn; apply Permutation_middle ].
  all: try solve [ rewrite flat_map_app; cbn; rewrite app_nil_r; assumption ].
  all: try solve [ constructor; assumption ].
  all: try solve [ constructor; auto; apply mem_false; assumption ].
  all: try solve [ match goal with C : pc0 _ = _ |- _ => rewrite C end; assumption ].
  all: try solve [ rewrite I; cbn; apply Permutation_cons_app; rewrite app_assoc; reflexivity ].
  all: try solve [ rewrite I; do 2 apply Permutation_app_head; upd_fact; rewrite <- F; cbn; apply Permutation_middle ].
  all: try solve [ rewrite I; rewrite !app_assoc; apply Permutation_middle ].
  (* nested assign *)
  all: try solve [ pcount ].
  all: try solve [ upd_fact; clear ND; pcount ].
Qed.

(* ------------------------------------------------------------------ busy_counter *)
Definition BusyOk (x : worker) : Prop := wtask (w_pc x) <> [] -> w_busy x = true.
Definition Busy (s : state) : Prop :=
  busy_counter s = Z.of_nat (nbusy s) /\ Forall BusyOk (workers s).

Lemma busy_init : Busy init.
Proof. split; [reflexivity | constructor]. Qed.

Ltac nb_fact :=
  match goal with
  | E : nth_error (workers _) ?i = Some ?x |- context [upd ?i ?y _] =>
      let F := fresh "NB" in
      pose proof (filter_upd_len w_busy i x y _ E) as F; cbn in F
  end.

Lemma busy_step s l s' : Busy s -> step s l = Some s' -> Busy s'.
Proof.
  unfold Busy, nbusy. intros [C F] H.
  break_step H; cbn -[Nat.sub Z.add Z.sub Z.of_nat] in *; (split; [| try assumption]).
  all: try assumption.
  all: try solve [ nb_fact; repeat match goal with B : w_busy _ = _ |- _ => rewrite B in * end;
                   destruct (w_busy _); lia ].
  all: try solve [ apply Forall_upd; auto;
                   match goal with E : nth_error (workers _) ?i = Some ?x |- _ =>
                     pose proof (Forall_nth_error _ _ _ _ F E) as FX end;
                   unfold BusyOk in *; cbn;
                   repeat match goal with P : w_pc _ = _ |- _ => rewrite P in * end; cbn in *;
                   try congruence; auto; intros; try (apply FX; congruence) ].
  all: try solve [ rewrite filter_app; cbn; rewrite app_nil_r; assumption ].
  all: try solve [ apply Forall_app; split; auto; constructor; [unfold BusyOk; cbn; congruence | constructor] ].

Qed.

Lemma busy_zero_running ws :
  Forall BusyOk ws -> length (filter w_busy ws) = 0%nat -> flat_map wt ws = [].
Proof.
  induction 1 as [|x l Hx Hl IH]; simpl; intros L; auto.
  destruct (w_busy x) eqn:B; simpl in L; try discriminate.
  rewrite IH by assumption. rewrite app_nil_r. unfold wt.
  destruct (wtask (w_pc x)) eqn:T; auto. unfold BusyOk in Hx. rewrite T in Hx.
  assert (w_busy x = true) by (apply Hx; congruence). congruence.
Qed.
Lemma busy_zero_notbusy ws i x :
  length (filter w_busy ws) = 0%nat -> nth_error ws i = Some x -> w_busy x = false.
Proof.
  revert i; induction ws as [|a l IH]; intros [|i] L E; simpl in *; try discriminate.
  - inversion E; subst. destruct (w_busy x); simpl in L; auto; discriminate.
  - destruct (w_busy a); simpl in L; try discriminate. eauto.
Qed.
Lemma running_nil_wt ws i x : flat_map wt ws = [] -> nth_error ws i = Some x -> wt x = [].
Proof.
  intros R E. destruct (wt x) eqn:T; auto.
  assert (In t (flat_map wt ws)) by (eapply in_flat_map_nth; eauto; rewrite T; left; auto).
  rewrite R in H. destruct H.
Qed.

(* ------------------------------------------------------------------ wait is a barrier *)
Definition waitdone (p : cpc) : bool :=
  match p with CWaitUnlock _ => true | CRet EWaitRet => true | CRet ENewRet => true | _ => false end.
Definition Barrier (s : state) : Prop := waitdone (pc0 s) = true -> queue s = [] /\ running s = [].

Lemma waitdone_after_kills l a : waitdone (after_kills l a) = false.
Proof. destruct l; [destruct a|]; reflexivity. Qed.
Lemma waitdone_after_creates k a : waitdone (after_creates k a) = false.
Proof. destruct k; [destruct a|]; reflexivity. Qed.

Lemma barrier_step s l s' : Busy s -> Barrier s -> step s l = Some s' -> Barrier s'.
Proof.
  unfold Barrier, Busy, nbusy. intros [C F] B H. rewrite running_eq in *.
  break_step H; cbn -[Nat.sub Z.add Z.sub Z.of_nat] in *;
    rewrite ?waitdone_after_kills, ?waitdone_after_creates; try (intros; discriminate).
  all: try assumption.
  all: try solve [ intros W; destruct (B W) as [Q R]; split; auto ].
  (* worker steps while the client is past the barrier test *)
  all: try solve [ intros W; destruct (B W) as [Q R]; split; auto;
                   match goal with E : nth_error (workers _) ?i = Some ?x |- _ =>
                     pose proof (running_nil_wt _ _ _ R E) as WX; unfold wt in WX;
                     apply Permutation_nil; symmetry; rewrite <- R;
                     apply (flat_map_upd_same wt i x); auto; unfold wt; cbn; rewrite WX;
                     repeat match goal with P : w_pc _ = _ |- _ => rewrite P in * end; cbn in *; congruence
                   end ].
  all: try solve [ intros W; destruct (B W) as [Q R]; congruence ].
  (* the test in mps_thread_pool_wait succeeded *)
  all: try solve [ intros _;
                   match goal with T : (_ =? 0)%Z && is_none (hd_error (queue _)) = true |- _ =>
                     apply andb_prop in T; destruct T as [T1 T2]; apply Z.eqb_eq in T1 end;
                   split; [ destruct (queue s); [reflexivity | discriminate]
                          | apply busy_zero_running; auto; lia ] ].
  all: try solve [ intros _; apply B; reflexivity ].
  all: try solve [ match goal with C : pc0 _ = _ |- _ => rewrite C in *; cbn in * end; assumption ].
  (* a worker inside a task body (pushing) while the client is past the test: impossible *)
  all: try solve [ intros W; destruct (B W) as [Q R]; exfalso;
                   match goal with E : nth_error (workers _) _ = Some ?x, P : w_pc ?x = _ |- _ =>
                     pose proof (running_nil_wt _ _ _ R E) as WX; unfold wt in WX; rewrite P in WX; discriminate WX end ].
Qed.

(* ------------------------------------------------------------------ every worker is in the pool list,
   in the list being freed, or has exited and was joined *)
Definition killlist (p : cpc) : list tid :=
  match p with CKillLock ws _ | CKillBcast ws _ | CKillUnlock ws _ | CKillJoin ws _ => ws | _ => [] end.
Definition freeing (p : cpc) : bool :=
  match p with
  | CKillLock _ AFree | CKillBcast _ AFree | CKillUnlock _ AFree | CKillJoin _ AFree => true
  | CRet EFreeRet | CDone => true
  | _ => false
  end.
Definition gone (x : worker) : Prop := w_pc x = WExited /\ w_joined x = true.
Definition Members (s : state) : Prop :=
  (forall i x, nth_error (workers s) i = Some x -> In (S i) (plist s ++ killlist (pc0 s)) \/ gone x) /\
  (freeing (pc0 s) = true -> plist s = []).

Lemma killlist_after_kills l a : killlist (after_kills l a) = l.
Proof. destruct l; reflexivity. Qed.
Lemma killlist_after_creates k a : killlist (after_creates k a) = [].
Proof. destruct k; [destruct a|]; reflexivity. Qed.
Lemma freeing_after_creates k a : freeing (after_creates k a) = false.
Proof. destruct k; [destruct a|]; reflexivity. Qed.
Lemma freeing_after_kills l a : freeing (after_kills l a) = match a with AFree => true | _ => false end.
Proof. destruct l; destruct a; reflexivity. Qed.

Lemma members_init : Members init.
Proof. split; [intros [|i] x H; discriminate | auto]. Qed.

Lemma members_step s l s' : Members s -> step s l = Some s' -> Members s'.
Proof.
  unfold Members. intros [M FR] H.
  break_step H; cbn -[Nat.sub firstn skipn] in *;
    rewrite ?killlist_after_kills, ?killlist_after_creates, ?freeing_after_creates, ?freeing_after_kills;
    repeat match goal with C : pc0 _ = _ |- _ => rewrite C in *; cbn -[Nat.sub firstn skipn] in * end;
    (split; [| try assumption; try (intros; discriminate); auto]).
  all: try assumption.
  (* a worker moved: it was not gone before, so it is still listed *)
  all: try solve [ intros j y Hy; apply upd_nth_inv in Hy; destruct Hy as [[<- ->]|[N Hy]]; [| apply M; assumption];
                   match goal with E : nth_error (workers _) _ = Some ?x |- _ =>
                     destruct (M _ _ E) as [I|[G1 G2]]; [left; assumption |] end;
                   first [ congruence | right; split; cbn; assumption ] ].
  all: try solve [ destruct a; cbn; intros; discriminate ].
  (* create *)
  all: try solve [ intros j y Hy; destruct (Nat.lt_ge_cases j (length (workers s))) as [L|L];
                   [ rewrite nth_error_app1 in Hy by assumption; destruct (M _ _ Hy) as [I|G]; [left; right; exact I | right; exact G]
                   | assert (j = length (workers s)) by
                       (assert (j < length (workers s ++ [new_worker]))%nat by (apply nth_error_Some; congruence);
                        rewrite app_length in *; cbn in *; lia);
                     subst; left; left; reflexivity ] ].
  (* join *)
  all: try solve [ intros j y Hy; apply upd_nth_inv in Hy; destruct Hy as [[<- ->]|[N Hy]];
                   [ right; split; cbn; auto
                   | destruct (M _ _ Hy) as [I|G]; [| right; exact G]; left;
                     apply in_app_iff in I; apply in_app_iff; destruct I as [I|[I|I]]; auto; congruence ] ].
  (* set_concurrency_limit, lowering; free *)
  all: try solve [ intros j y Hy; destruct (M _ _ Hy) as [I|G]; [| right; exact G]; left;
                   rewrite app_nil_r in I;
                   first [ rewrite <- (firstn_skipn (climit s - S n) (plist s)) in I;
                           apply in_app_iff in I; apply in_app_iff; tauto
                         | exact I ] ].

Qed.

(* ------------------------------------------------------------------ the discipline: limit lowered / pool
   freed only on a quiescent pool.  Then no freed worker is (or ever becomes) busy. *)
Definition inkill (p : cpc) : bool :=
  match p with CKillLock _ _ | CKillBcast _ _ | CKillUnlock _ _ | CKillJoin _ _ => true | _ => false end.
Definition killing (p : cpc) : option tid :=
  match p with CKillBcast (w :: _) _ | CKillUnlock (w :: _) _ | CKillJoin (w :: _) _ => Some w | _ => None end.
Definition Disc (s : state) : Prop :=
  (forall i x, nth_error (workers s) i = Some x -> w_alive x = false ->
               w_busy x = false /\ (w_pc x = WExited \/ killing (pc0 s) = Some (S i))) /\
  (inkill (pc0 s) = true -> queue s = [] /\ busy_counter s = 0%Z).

Lemma inkill_after_creates k a : inkill (after_creates k a) = false.
Proof. destruct k; [destruct a|]; reflexivity. Qed.
Lemma killing_after_creates k a : killing (after_creates k a) = None.
Proof. destruct k; [destruct a|]; reflexivity. Qed.
Lemma killing_after_kills l a : killing (after_kills l a) = None.
Proof. destruct l; reflexivity. Qed.

Lemma killing_inkill p w : killing p = Some w -> inkill p = true.
Proof. destruct p; cbn; try discriminate; auto. Qed.

Lemma disc_init : Disc init.
Proof. split; [intros [|i] x H; discriminate | intros; discriminate]. Qed.

Lemma quiescent_inv s : quiescent s = true -> queue s = [] /\ busy_counter s = 0%Z.
Proof.
  unfold quiescent. intros H. apply andb_prop in H. destruct H as [A B]. apply Z.eqb_eq in A.
  split; auto. destruct (queue s); [reflexivity | discriminate].
Qed.

Lemma disc_step s l s' : Busy s -> Disc s -> step_d s l = Some s' -> Disc s'.
Proof.
  unfold Disc, Busy, nbusy. intros [C F] [D K] H.
  assert (Q : forall e, l = LEv 0%nat e -> kill_event s e = true -> queue s = [] /\ busy_counter s = 0%Z).
  { intros e -> KE. unfold step_d in H. rewrite KE in H. cbn in H.
    destruct (quiescent s) eqn:QQ; try discriminate. apply quiescent_inv; auto. }
  apply step_d_step in H.
  break_step H; cbn -[Nat.sub firstn skipn Z.add Z.sub Z.of_nat] in *;
    rewrite ?inkill_after_creates, ?killing_after_creates, ?killing_after_kills;
    repeat match goal with C : pc0 _ = _ |- _ => rewrite C in *; cbn -[Nat.sub firstn skipn Z.add Z.sub Z.of_nat] in * end;
    (split; [| try assumption; try (intros; discriminate); auto]).
  all: try assumption.
  (* the two kill events: the discipline gives quiescence *)
  all: try solve [ intros _; eapply Q; [reflexivity | cbn; auto; apply Nat.ltb_lt; apply Nat.ltb_lt in Heqb0; exact Heqb0 ] ].
  all: try solve [ intros _; eapply Q; [reflexivity | cbn; auto ] ].
  (* queue non-empty or a busy worker while a kill is in progress: impossible *)
  all: try solve [ intros IK; destruct (K IK) as [K1 K2]; congruence ].
  all: try solve [ intros IK; destruct (K IK) as [K1 K2]; exfalso;
                   match goal with E : nth_error (workers _) _ = Some ?x, B : w_busy ?x = true |- _ =>
                     assert (w_busy x = false) by (eapply busy_zero_notbusy; [| exact E]; lia); congruence end ].
  (* create *)
  all: try solve [ intros j y Hy A; destruct (Nat.lt_ge_cases j (length (workers s))) as [L|L];
                   [ rewrite nth_error_app1 in Hy by assumption; apply D; assumption
                   | rewrite nth_error_app2 in Hy by assumption;
                     destruct (j - length (workers s))%nat as [|[|?]]; cbn in Hy; inversion Hy; subst; discriminate ] ].
  (* mps_thread_free: alive := false, on a quiescent pool *)
  all: try solve [ intros j y Hy A; apply upd_nth_inv in Hy; destruct Hy as [[<- ->]|[N Hy]];
                   [ split; [| right; reflexivity]; cbn; destruct (K eq_refl) as [K1 K2];
                     match goal with E : nth_error (workers _) _ = Some ?x |- _ => eapply busy_zero_notbusy; [| exact E]; lia end
                   | destruct (D _ _ Hy A) as [D1 [D2|D2]]; [split; auto | discriminate] ] ].
  (* join *)
  all: try solve [ intros j y Hy A; apply upd_nth_inv in Hy; destruct Hy as [[<- ->]|[N Hy]];
                   [ match goal with E : nth_error (workers _) _ = Some ?x |- _ => destruct (D _ _ E A) as [D1 _] end;
                     split; cbn; auto
                   | destruct (D _ _ Hy A) as [D1 [D2|D2]]; [split; auto | inversion D2; congruence] ] ].
  (* worker steps *)
  all: try solve [ intros j y Hy A; apply upd_nth_inv in Hy; destruct Hy as [[<- ->]|[N Hy]]; [| apply D; assumption];
                   cbn in A;
                   match goal with E : nth_error (workers _) _ = Some ?x |- _ => destruct (D _ _ E A) as [D1 [D2|D2]] end;
                   [ congruence | ];
                   first [ split; [cbn; solve [auto] | right; exact D2]
                         | exfalso; destruct (K (killing_inkill _ _ D2)) as [K1 K2]; congruence ] ].
  all: try solve [ intros j y Hy A; apply upd_nth_inv in Hy; destruct Hy as [[<- ->]|[N Hy]]; [| apply D; assumption];
                   cbn in *; eapply D; eauto ].
  (* a task body pushing while a kill is in progress: the worker would be busy *)
  all: try solve [ intros IK; destruct (K IK) as [K1 K2]; exfalso;
                   match goal with E : nth_error (workers _) _ = Some ?x, P : w_pc ?x = _ |- _ =>
                     pose proof (Forall_nth_error _ _ _ _ F E) as FX; unfold BusyOk in FX; rewrite P in FX;
                     assert (w_busy x = true) by (apply FX; discriminate);
                     assert (w_busy x = false) by (eapply busy_zero_notbusy; [| exact E]; lia); congruence end ].
Qed.

(* ------------------------------------------------------------------ a dead state has no way out *)
Lemma all_asleep_nth s ws : forall k i x,
  all_asleep_from s k ws = true -> nth_error ws i = Some x -> worker_asleep s (k + i) x = true.
Proof.
  induction ws as [|a l IH]; intros k [|i] x H E; simpl in *; try discriminate;
    apply andb_prop in H; destruct H as [H1 H2].
  - inversion E; subst. rewrite Nat.add_0_r. assumption.
  - rewrite <- plus_n_Sm. apply (IH (S k) i x H2 E).
Qed.

Lemma dead_state_stuck s l s' : dead_state s = true -> step s l = Some s' -> is_spurious l = true.
Proof.
  unfold dead_state, client_blocked_in_wait. intros DS H.
  apply andb_prop in DS. destruct DS as [DC DW].
  apply andb_prop in DC. destruct DC as [DC0 DC1].
  assert (W : forall i x, nth_error (workers s) i = Some x -> worker_asleep s i x = true)
    by (intros i x E; apply (all_asleep_nth s (workers s) 0 i x DW E)).
  unfold worker_asleep in W.
  break_step H; cbn -[mem] in *;
    repeat match goal with C : pc0 _ = _ |- _ => rewrite C in *; cbn -[mem] in * end;
    try discriminate;
    try (match goal with E : nth_error (workers _) _ = Some ?x |- _ =>
           specialize (W _ _ E); apply andb_prop in W; destruct W as [W0 W1] end;
         repeat match goal with P : w_pc _ = _ |- _ => rewrite P in * end;
         repeat match goal with P : w_cont _ = _ |- _ => rewrite P in * end; cbn -[mem] in *; try discriminate).
  all: try reflexivity.
  all: try solve [ match goal with B : _ && Bool.eqb ?sp ?m = true |- _ =>
                     apply andb_prop in B; destruct B as [_ B]; apply eqb_prop in B; rewrite B end;
                   match goal with M : mem _ _ = true |- _ => rewrite M end; reflexivity ].
  all: try solve [ destruct (cont0 s); discriminate ].
Qed.

(* ------------------------------------------------------------------ the invariant, on all traces *)
Definition Inv (s : state) : Prop := Cons s /\ Busy s /\ Barrier s /\ Members s.

Lemma inv_init : Inv init.
Proof.
  split; [apply cons_init|]. split; [apply busy_init|]. split; [|apply members_init].
  intros H; discriminate.
Qed.
Lemma inv_step s l s' : Inv s -> step s l = Some s' -> Inv s'.
Proof.
  intros (C & B & W & M) H.
  split; [eapply cons_step; eauto|]. split; [eapply busy_step; eauto|].
  split; [eapply barrier_step; eauto | eapply members_step; eauto].
Qed.
Lemma inv_run tr s : run init tr = Some s -> Inv s.
Proof. apply (run_inv Inv inv_step tr init s inv_init). Qed.

Lemma pool_conservation tr s :
  run init tr = Some s -> Permutation (assigned s) (pending s ++ queue s ++ running s ++ executed s).
Proof. intros H. apply inv_run in H. apply H. Qed.

Lemma pool_at_most_once tr s :
  run init tr = Some s -> NoDup (pending s ++ queue s ++ running s ++ executed s).
Proof.
  intros H. apply inv_run in H. destruct H as ((P & N) & _).
  eapply Permutation_NoDup; eauto.
Qed.

Lemma pool_never_lost tr s t :
  run init tr = Some s -> In t (assigned s) ->
  In t (pending s) \/ In t (queue s) \/ In t (running s) \/ In t (executed s).
Proof.
  intros H I. apply inv_run in H. destruct H as ((P & N) & _).
  apply (Permutation_in _ P) in I. rewrite !in_app_iff in I. tauto.
Qed.

Lemma pool_busy_exact tr s :
  run init tr = Some s ->
  busy_counter s = Z.of_nat (nbusy s) /\
  (forall i x t, nth_error (workers s) i = Some x -> In t (wtask (w_pc x)) -> w_busy x = true).
Proof.
  intros H. apply inv_run in H. destruct H as (_ & (C & F) & _). split; auto.
  intros i x t E I. apply (Forall_nth_error _ _ _ _ F E). intros Z. rewrite Z in I. destruct I.
Qed.

Lemma pool_wait_barrier tr s :
  run init tr = Some s -> pc0 s = CRet EWaitRet ->
  Permutation (assigned s) (executed s) /\ queue s = [] /\ running s = [] /\
  (forall t, In t (assigned s) -> In t (executed s)).
Proof.
  intros H PC. apply inv_run in H. destruct H as ((P & N) & _ & B & _).
  unfold Barrier in B. rewrite PC in B. destruct (B eq_refl) as [Q R].
  unfold pending in P. rewrite PC, Q, R in P. cbn in P.
  repeat split; auto. intros t I. eapply Permutation_in; eauto.
Qed.

(* the same fact on the step that returns from wait *)
Lemma pool_wait_barrier_step tr s s' t :
  run init tr = Some s -> step s (LEv 0%nat EWaitRet) = Some s' -> In t (assigned s) -> In t (executed s').
Proof.
  intros H S I.
  assert (PC : pc0 s = CRet EWaitRet /\ executed s' = executed s).
  { unfold step in S. cbn in S. destruct (cont0 s); try discriminate. unfold cstep in S.
    destruct (pc0 s); try discriminate. destruct e; try discriminate. inversion S; subst. auto. }
  destruct PC as [PC E]. rewrite E. destruct (pool_wait_barrier tr s H PC) as (_ & _ & _ & A). auto.
Qed.

Lemma forall_nth_Forall {A} (P : A -> Prop) l : (forall i x, nth_error l i = Some x -> P x) -> Forall P l.
Proof. intros H. apply Forall_forall. intros x I. destruct (In_nth_error _ _ I) as [i E]. eauto. Qed.

Lemma pool_free_joins_all tr s :
  run init tr = Some s -> pc0 s = CDone ->
  Forall (fun x => w_pc x = WExited /\ w_joined x = true) (workers s) /\
  Permutation (assigned s) (queue s ++ executed s).
Proof.
  intros H PC. apply inv_run in H. destruct H as ((P & N) & _ & _ & (M & FR)).
  rewrite PC in *. cbn in *. rewrite (FR eq_refl) in M. cbn in M.
  assert (G : Forall gone (workers s)).
  { apply forall_nth_Forall. intros i x E. destruct (M i x E) as [[]|G]; exact G. }
  split; [exact G|].
  assert (R : running s = []).
  { unfold running. clear - G. induction G as [|x l [Gx _] _ IH]; cbn; auto. rewrite Gx. cbn. exact IH. }
  unfold pending in P. rewrite PC, R in P. exact P.
Qed.

Lemma pool_limit_while_running_refuted :
  exists tr s, run init tr = Some s /\
    dead_state s = true /\
    (forall l s', step s l = Some s' -> is_spurious l = true) /\
    Permutation (assigned s) (executed s) /\ assigned s <> [] /\
    busy_counter s = 1%Z /\ running s = [] /\ queue s = [].
Proof.
  exists witness_limit_running.
  destruct (run init witness_limit_running) as [s|] eqn:E; [| vm_compute in E; discriminate].
  exists s. split; [reflexivity|].
  assert (D : dead_state s = true) by (vm_compute in E; inversion E; subst; vm_compute; reflexivity).
  split; [exact D|]. split; [intros l s' H; eapply dead_state_stuck; eauto|].
  vm_compute in E. inversion E; subst; clear E. cbn.
  repeat split; try reflexivity; try discriminate.
Qed.

Lemma disc_inv_run tr s : run_d init tr = Some s -> Busy s /\ Disc s.
Proof.
  apply (run_d_inv (fun s => Busy s /\ Disc s)).
  - intros s0 l s1 [B D] H. split.
    + apply (busy_step s0 l s1 B (step_d_step _ _ _ H)).
    + apply (disc_step s0 l s1 B D H).
  - split; [apply busy_init | apply disc_init].
Qed.

Lemma filter_ext_Forall {A} (p q : A -> bool) l : Forall (fun x => p x = q x) l -> filter p l = filter q l.
Proof. induction 1; cbn; auto. rewrite H, IHForall. reflexivity. Qed.

Lemma pool_limit_when_idle_ok tr s :
  run_d init tr = Some s ->
  (forall i x, nth_error (workers s) i = Some x -> w_alive x = false -> w_busy x = false) /\
  busy_counter s = Z.of_nat (length (filter (fun x => w_busy x && w_alive x) (workers s))).
Proof.
  intros H. apply disc_inv_run in H. destruct H as [[C F] [D K]].
  assert (A : forall i x, nth_error (workers s) i = Some x -> w_alive x = false -> w_busy x = false)
    by (intros i x E AL; destruct (D i x E AL); auto).
  split; auto. rewrite C. unfold nbusy. f_equal. f_equal.
  apply filter_ext_Forall. apply forall_nth_Forall. intros i x E.
  destruct (w_alive x) eqn:AL; [rewrite andb_true_r; reflexivity|]. rewrite (A i x E AL). reflexivity.
Qed.

(* ------------------------------------------------------------------ no lost wake-up on queue_changed (partial):
   from the moment a worker has seen the queue empty until it is inside cond_wait it owns
   queue_changed_mutex and the queue stays empty, so no assign (push + signal under that mutex)
   can fall between the test and the wait. *)
Definition idle_holds_qc (p : wpc) : bool :=
  match p with WIdleSignal | WIdleUnlockWC | WCondWait => true | _ => false end.
Definition NLW (s : state) : Prop :=
  forall i x, nth_error (workers s) i = Some x -> idle_holds_qc (w_pc x) = true ->
              qc_owner s = Some (S i) /\ queue s = [].

Lemma eq_otid_true a b : eq_otid a (Some b) = true -> a = Some b.
Proof. destruct a; cbn; try discriminate. intros H. apply Nat.eqb_eq in H. congruence. Qed.
Lemma is_none_true {A} (o : option A) : is_none o = true -> o = None.
Proof. destruct o; cbn; congruence. Qed.

Lemma nlw_step s l s' : NLW s -> step s l = Some s' -> NLW s'.
Proof.
  unfold NLW. intros N H.
  break_step H; cbn -[Nat.sub firstn skipn Z.add Z.sub] in *;
    repeat match goal with
           | E : eq_otid _ (Some _) = true |- _ => apply eq_otid_true in E
           | E : is_none (qc_owner _) = true |- _ => apply is_none_true in E
           end.
  all: try assumption.
  (* client steps that leave workers, qc_owner and queue alone, or that need QC free *)
  all: try solve [ intros j y Hy I; destruct (N j y Hy I) as [O Q]; first [ congruence | split; assumption ] ].
  (* create *)
  all: try solve [ intros j y Hy I; destruct (Nat.lt_ge_cases j (length (workers s))) as [L|L];
                   [ rewrite nth_error_app1 in Hy by assumption; apply (N j y Hy I)
                   | rewrite nth_error_app2 in Hy by assumption;
                     destruct (j - length (workers s))%nat as [|[|?]]; cbn in Hy; inversion Hy; subst; discriminate ] ].
  (* worker (or kill / join) steps *)
  all: try solve [ intros j y Hy I; apply upd_nth_inv in Hy; destruct Hy as [[<- ->]|[NE Hy]];
                   [ cbn in I; try discriminate;
                     first [ split; [reflexivity | assumption]
                           | match goal with E : nth_error (workers _) _ = Some ?x, P : w_pc ?x = _ |- _ =>
                               apply (N _ _ E); rewrite P; reflexivity end
                           | match goal with E : nth_error (workers _) _ = Some ?x |- _ => apply (N _ _ E); exact I end ]
                   | destruct (N j y Hy I) as [O Q]; first [ congruence | split; assumption ] ] ].
  all: try solve [ intros j y Hy I; exfalso; apply upd_nth_inv in Hy; destruct Hy as [[<- ->]|[NE Hy]];
                   [ match goal with E : nth_error (workers _) _ = Some ?x |- _ =>
                       assert (II : idle_holds_qc (w_pc x) = true) by (first [exact I | cbn in I; discriminate]);
                       destruct (N _ _ E II) as [O Q]; congruence end
                   | destruct (N j y Hy I) as [O Q]; congruence ] ].
  all: try solve [ match goal with B : is_none (qc_owner _) && _ = true |- _ =>
                     apply andb_prop in B; destruct B as [B _]; apply is_none_true in B end;
                   intros j y Hy I; exfalso; apply upd_nth_inv in Hy; destruct Hy as [[<- ->]|[NE Hy]];
                   [ cbn in I; discriminate | destruct (N j y Hy I) as [O Q]; congruence ] ].
Qed.

Lemma nlw_run tr s : run init tr = Some s -> NLW s.
Proof. apply (run_inv NLW nlw_step tr init s). intros [|i] x H; discriminate. Qed.

Lemma pool_no_stuck_state_partial tr s i x :
  run init tr = Some s -> nth_error (workers s) i = Some x ->
  (w_pc x = WIdleSignal \/ w_pc x = WIdleUnlockWC \/ w_pc x = WCondWait) ->
  qc_owner s = Some (S i) /\ queue s = [].
Proof.
  intros H E P. apply (nlw_run tr s H i x E). destruct P as [P|[P|P]]; rewrite P; reflexivity.
Qed.
