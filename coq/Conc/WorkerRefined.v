(* C05 -- REFINED worker model: the six worker bodies of one iteration packet transcribed instruction by
   instruction and interpreted by ONE step function.

     VF   mps_thread_fpolzer_worker           (monomial/monomial-threading.c, mps_faberth: unlocked reads)
     VD   mps_thread_dpolzer_worker           (roots_mutex guarded by `if (s->pool->n > 1)`, mps_daberth)
     VM   mps_thread_mpolzer_worker           (all locks guarded, global_aberth_mutex, mps_maberth_s_wl inlined)
     VSF  __mps_secular_ga_fiterate_worker    (secsolve/secular-iteration.c, gs_mutex, mps_faberth_wl inlined)
     VSD  __mps_secular_ga_diterate_worker    (mps_daberth_wl inlined)
     VSM  __mps_secular_ga_miterate_worker    (mps_maberth_s_wl inlined)

   One instruction = one pthread call or one access to a shared location:
     ILock g m / IUnlock g m   pthread_mutex_(un)lock; g = written under `if (s->pool->n > 1)` (a no-op when the
                               pool has one thread); m names the mutex: MQ queue->mutex, MR roots_mutex[i],
                               MG *global_aberth_mutex, MAo aberth_mutex[i] (own root), MAk aberth_mutex[k] (the
                               root the Aberth loop is reading), MS *gs_mutex
     IFetch                    the body of mps_thread_job_queue_next between its lock and unlock (JobQueue.q_next)
     IBr c sense tgt           one operand of an `if` / `while` condition (short-circuit evaluation = one IBr per
                               operand): if (c == sense) goto tgt; c reads *excep, *nzeros, root[i]->again, the
                               local job / loop variable, or is data dependent (CData: nondeterministic)
     ISetExcep, ISetAgain b    *data->excep = true;  s->root[i]->again = b
     INewton                   mps_*newton on root i: writes the radius, may clear root[i]->again (nondeterministic)
     IWriteVal                 write of the value the other workers' Aberth sums read (fvalue/dvalue/mvalue)
     IWriteAux / IWriteRad     write of another value field of root i (dvalue in the float secular phase) / radius
     IReadVal / IReadOther     read of the own value / of root k's value (no state change; kept for the text)
     ILoadNz ; IStoreNz        ( *data->nzeros)++ as load and store (not atomic);  ILoadIt ; IStoreIt: ( *data->it)++
     IKAll / IKCluster / IKNext  the Aberth loop variable: all roots 0..n-1 / the roots of job.cluster_item->cluster
     IRet                      return
   Values are not modelled: writes bump version counters (ghost state) so that "who writes" can be stated.
   Threads: Idle -(begin)-> Run pc -> Done.  When the pool has ONE thread (rp_pool1) the k tasks run one after
   the other (the pool's single thread, or inline in mps_thread_pool_assign): a task begins only when no other
   is running.  A run is any interleaving of single instructions of the k tasks.

   The lock discipline is a STATIC annotation: for every program point the set of held mutex names (HYes held,
   HGd held iff the pool has several threads).  `check_prog` verifies by computation on the finite program
   text that the annotation is consistent with every control-flow edge and that every instruction satisfies
   its side condition (lock requests strictly increase in rank roots < global Aberth < {Aberth, gs, queue};
   root writes only with roots_mutex[i] in the set; return with the empty set ...).  WorkerRefinedProps.v
   proves the dynamic properties from `check_prog = true` for an arbitrary program. *)
From Coq Require Import List Arith Lia Bool.
From MPSV Require Import Conc.JobQueue.
Import ListNotations.

(* ---------------------------------------------------------------- locks, instructions *)
Inductive lk := LQ | LR (i : nat) | LG | LA (i : nat) | LS.
Definition lk_eqb (a b : lk) : bool :=
  match a, b with
  | LQ, LQ => true | LG, LG => true | LS, LS => true
  | LR i, LR j => i =? j | LA i, LA j => i =? j
  | _, _ => false
  end.

Inductive mtx := MQ | MR | MG | MAo | MAk | MS.
Definition all_mtx : list mtx := [MQ; MR; MG; MAo; MAk; MS].
Definition mrank (m : mtx) : nat := match m with MR => 0 | MG => 1 | _ => 2 end.

Inductive dtag :=
| DExitReq    (* s->exit_required *)
| DFpe        (* cplx_check_fpe (corr) *)
| DIter0      (* rad > rad1 && rad1 != 0   (after iter == 0 && !again) *)
| DCorr       (* rad != rad1 *)
| DNotFloat   (* root->status == MPS_ROOT_STATUS_NOT_FLOAT *)
| DNan        (* isnan (abcorr) *)
| DFpeAb      (* cplx_check_fpe (abcorr) *)
| DApprox     (* s->root[i]->approximated *)
| DAbZero.    (* mpc_eq_zero (abcorr) *)

Inductive cond :=
| CExcep | CNzGeReq | CNzGtReq | CNzGeN | CNzEqN | CAgain | CJobExcep | CIter0 | CKDone | CKSelf | CData (d : dtag).

Inductive instr :=
| ILock (g : bool) (m : mtx) | IUnlock (g : bool) (m : mtx)
| IFetch | IBr (c : cond) (sense : bool) (tgt : nat) | IGoto (tgt : nat)
| ISetExcep | ISetAgain (b : bool) | INewton | IWriteVal | IWriteAux | IWriteRad | IReadVal | IReadOther
| ILoadNz | IStoreNz | ILoadIt | IStoreIt | IKAll | IKCluster | IKNext | IRet.

(* ---------------------------------------------------------------- state *)
Inductive tstat := TIdle | TRun (pc : nat) | TDone.
Record thr := { t_st : tstat; t_i : nat; t_it : option nat; t_k : list nat; t_nzl : nat; t_itl : nat }.

Record rstate := {
  r_q : qstate; r_own : lk -> option nat;
  r_again : nat -> bool; r_valv : nat -> nat; r_auxv : nat -> nat; r_radv : nat -> nat;
  r_nz : nat; r_excep : bool; r_itc : nat;
  r_th : nat -> thr }.

Record rparams := {
  rp_k : nat; rp_maxit : nat; rp_cl : list (list nat); rp_req : nat; rp_pool1 : bool; rp_prog : list instr }.

Definition rp_n (p : rparams) : nat := length (concat (rp_cl p)).

Definition nupd {A : Type} (f : nat -> A) (t : nat) (v : A) : nat -> A := fun x => if x =? t then v else f x.
Definition oupd (f : lk -> option nat) (l : lk) (v : option nat) : lk -> option nat :=
  fun x => if lk_eqb x l then v else f x.

Definition thr0 : thr := {| t_st := TIdle; t_i := 0; t_it := None; t_k := []; t_nzl := 0; t_itl := 0 |}.

Definition r_init (p : rparams) (again0 : nat -> bool) (nz0 : nat) (ex0 : bool) : rstate :=
  {| r_q := q_init (rp_cl p); r_own := fun _ => None;
     r_again := again0; r_valv := fun _ => 0; r_auxv := fun _ => 0; r_radv := fun _ => 0;
     r_nz := nz0; r_excep := ex0; r_itc := 0; r_th := fun _ => thr0 |}.

Definition th_pc (th : thr) (pc : nat) : thr :=
  {| t_st := TRun pc; t_i := t_i th; t_it := t_it th; t_k := t_k th; t_nzl := t_nzl th; t_itl := t_itl th |}.
Definition th_stat (th : thr) (st : tstat) : thr :=
  {| t_st := st; t_i := t_i th; t_it := t_it th; t_k := t_k th; t_nzl := t_nzl th; t_itl := t_itl th |}.
Definition th_job (th : thr) (pc i : nat) (it : option nat) : thr :=
  {| t_st := TRun pc; t_i := i; t_it := it; t_k := t_k th; t_nzl := t_nzl th; t_itl := t_itl th |}.
Definition th_k (th : thr) (pc : nat) (k : list nat) : thr :=
  {| t_st := TRun pc; t_i := t_i th; t_it := t_it th; t_k := k; t_nzl := t_nzl th; t_itl := t_itl th |}.
Definition th_nzl (th : thr) (pc v : nat) : thr :=
  {| t_st := TRun pc; t_i := t_i th; t_it := t_it th; t_k := t_k th; t_nzl := v; t_itl := t_itl th |}.
Definition th_itl (th : thr) (pc v : nat) : thr :=
  {| t_st := TRun pc; t_i := t_i th; t_it := t_it th; t_k := t_k th; t_nzl := t_nzl th; t_itl := v |}.

Definition set_th (s : rstate) (t : nat) (th : thr) : rstate :=
  {| r_q := r_q s; r_own := r_own s; r_again := r_again s; r_valv := r_valv s; r_auxv := r_auxv s; r_radv := r_radv s;
     r_nz := r_nz s; r_excep := r_excep s; r_itc := r_itc s; r_th := nupd (r_th s) t th |}.
Definition set_own (s : rstate) (o : lk -> option nat) : rstate :=
  {| r_q := r_q s; r_own := o; r_again := r_again s; r_valv := r_valv s; r_auxv := r_auxv s; r_radv := r_radv s;
     r_nz := r_nz s; r_excep := r_excep s; r_itc := r_itc s; r_th := r_th s |}.
Definition set_q (s : rstate) (q : qstate) : rstate :=
  {| r_q := q; r_own := r_own s; r_again := r_again s; r_valv := r_valv s; r_auxv := r_auxv s; r_radv := r_radv s;
     r_nz := r_nz s; r_excep := r_excep s; r_itc := r_itc s; r_th := r_th s |}.
Definition set_root (s : rstate) (ag : nat -> bool) (vv av rv : nat -> nat) : rstate :=
  {| r_q := r_q s; r_own := r_own s; r_again := ag; r_valv := vv; r_auxv := av; r_radv := rv;
     r_nz := r_nz s; r_excep := r_excep s; r_itc := r_itc s; r_th := r_th s |}.
Definition set_cnt (s : rstate) (nz : nat) (ex : bool) (itc : nat) : rstate :=
  {| r_q := r_q s; r_own := r_own s; r_again := r_again s; r_valv := r_valv s; r_auxv := r_auxv s; r_radv := r_radv s;
     r_nz := nz; r_excep := ex; r_itc := itc; r_th := r_th s |}.

Definition lock_of (th : thr) (m : mtx) : lk :=
  match m with
  | MQ => LQ | MR => LR (t_i th) | MG => LG | MAo => LA (t_i th) | MAk => LA (hd 0 (t_k th)) | MS => LS
  end.

(* the cluster job.cluster_item->cluster: the cluster of the clusterisation that contains the root *)
Definition cluster_of (cl : list (list nat)) (i : nat) : list nat :=
  match find (fun c => existsb (Nat.eqb i) c) cl with Some c => c | None => [] end.

Definition eval_cond (p : rparams) (s : rstate) (th : thr) (c : cond) (ch : bool) : bool :=
  match c with
  | CExcep => r_excep s
  | CNzGeReq => rp_req p <=? r_nz s
  | CNzGtReq => rp_req p <? r_nz s
  | CNzGeN => rp_n p <=? r_nz s
  | CNzEqN => r_nz s =? rp_n p
  | CAgain => r_again s (t_i th)
  | CJobExcep => match t_it th with None => true | Some _ => false end
  | CIter0 => match t_it th with Some 0 => true | _ => false end
  | CKDone => match t_k th with [] => true | _ => false end
  | CKSelf => hd 0 (t_k th) =? t_i th
  | CData _ => ch
  end.

(* is the (un)lock really performed?  guarded calls are skipped when the pool has one thread *)
Definition effective (p : rparams) (g : bool) : bool := negb (g && rp_pool1 p).

Definition exec (p : rparams) (s : rstate) (t : nat) (th : thr) (pc : nat) (ins : instr) (ch : bool) : option rstate :=
  let i := t_i th in
  match ins with
  | ILock g m =>
    if effective p g then
      match r_own s (lock_of th m) with
      | None => Some (set_th (set_own s (oupd (r_own s) (lock_of th m) (Some t))) t (th_pc th (S pc)))
      | Some _ => None
      end
    else Some (set_th s t (th_pc th (S pc)))
  | IUnlock g m =>
    if effective p g then
      match r_own s (lock_of th m) with
      | Some u => if u =? t then Some (set_th (set_own s (oupd (r_own s) (lock_of th m) None)) t (th_pc th (S pc))) else None
      | None => None
      end
    else Some (set_th s t (th_pc th (S pc)))
  | IFetch =>
    let jq := q_next (rp_cl p) (rp_maxit p) (r_q s) in
    Some (set_th (set_q s (snd jq)) t
            (match fst jq with Job j it => th_job th (S pc) j (Some it) | JExcep => th_job th (S pc) 0 None end))
  | IBr c sense tgt =>
    Some (set_th s t (th_pc th (if Bool.eqb (eval_cond p s th c ch) sense then tgt else S pc)))
  | IGoto tgt => Some (set_th s t (th_pc th tgt))
  | ISetExcep => Some (set_th (set_cnt s (r_nz s) true (r_itc s)) t (th_pc th (S pc)))
  | ISetAgain b => Some (set_th (set_root s (nupd (r_again s) i b) (r_valv s) (r_auxv s) (r_radv s)) t (th_pc th (S pc)))
  | INewton =>
    Some (set_th (set_root s (if ch then nupd (r_again s) i false else r_again s) (r_valv s) (r_auxv s)
                           (nupd (r_radv s) i (S (r_radv s i)))) t (th_pc th (S pc)))
  | IWriteVal => Some (set_th (set_root s (r_again s) (nupd (r_valv s) i (S (r_valv s i))) (r_auxv s) (r_radv s)) t (th_pc th (S pc)))
  | IWriteAux => Some (set_th (set_root s (r_again s) (r_valv s) (nupd (r_auxv s) i (S (r_auxv s i))) (r_radv s)) t (th_pc th (S pc)))
  | IWriteRad => Some (set_th (set_root s (r_again s) (r_valv s) (r_auxv s) (nupd (r_radv s) i (S (r_radv s i)))) t (th_pc th (S pc)))
  | IReadVal | IReadOther => Some (set_th s t (th_pc th (S pc)))
  | ILoadNz => Some (set_th s t (th_nzl th (S pc) (r_nz s)))
  | IStoreNz => Some (set_th (set_cnt s (S (t_nzl th)) (r_excep s) (r_itc s)) t (th_pc th (S pc)))
  | ILoadIt => Some (set_th s t (th_itl th (S pc) (r_itc s)))
  | IStoreIt => Some (set_th (set_cnt s (r_nz s) (r_excep s) (S (t_itl th))) t (th_pc th (S pc)))
  | IKAll => Some (set_th s t (th_k th (S pc) (seq 0 (rp_n p))))
  | IKCluster => Some (set_th s t (th_k th (S pc) (cluster_of (rp_cl p) i)))
  | IKNext => Some (set_th s t (th_k th (S pc) (tl (t_k th))))
  | IRet => Some (set_th s t (th_stat th TDone))
  end.

Definition is_running (th : thr) : bool := match t_st th with TRun _ => true | _ => false end.

(* one step of task t; ch resolves the nondeterminism of CData tests and of INewton *)
Definition rstep (p : rparams) (s : rstate) (t : nat) (ch : bool) : option rstate :=
  if t <? rp_k p then
    let th := r_th s t in
    match t_st th with
    | TIdle =>
      if rp_pool1 p && existsb (fun u => is_running (r_th s u)) (seq 0 (rp_k p)) then None
      else Some (set_th s t (th_pc th 0))
    | TDone => None
    | TRun pc =>
      match nth_error (rp_prog p) pc with
      | Some ins => exec p s t th pc ins ch
      | None => None
      end
    end
  else None.

Fixpoint rrun (p : rparams) (s : rstate) (tr : list (nat * bool)) : option rstate :=
  match tr with
  | [] => Some s
  | (t, ch) :: tr' => match rstep p s t ch with Some s' => rrun p s' tr' | None => None end
  end.

(* ---------------------------------------------------------------- static lock-set annotation *)
Inductive hst := HNo | HYes | HGd.
Record ann := { hQ : hst; hR : hst; hG : hst; hAo : hst; hAk : hst; hS : hst }.
Definition ann0 : ann := {| hQ := HNo; hR := HNo; hG := HNo; hAo := HNo; hAk := HNo; hS := HNo |}.
Definition aget (a : ann) (m : mtx) : hst :=
  match m with MQ => hQ a | MR => hR a | MG => hG a | MAo => hAo a | MAk => hAk a | MS => hS a end.
Definition aset (a : ann) (m : mtx) (h : hst) : ann :=
  match m with
  | MQ => {| hQ := h; hR := hR a; hG := hG a; hAo := hAo a; hAk := hAk a; hS := hS a |}
  | MR => {| hQ := hQ a; hR := h; hG := hG a; hAo := hAo a; hAk := hAk a; hS := hS a |}
  | MG => {| hQ := hQ a; hR := hR a; hG := h; hAo := hAo a; hAk := hAk a; hS := hS a |}
  | MAo => {| hQ := hQ a; hR := hR a; hG := hG a; hAo := h; hAk := hAk a; hS := hS a |}
  | MAk => {| hQ := hQ a; hR := hR a; hG := hG a; hAo := hAo a; hAk := h; hS := hS a |}
  | MS => {| hQ := hQ a; hR := hR a; hG := hG a; hAo := hAo a; hAk := hAk a; hS := h |}
  end.
Definition hst_eqb (a b : hst) : bool :=
  match a, b with HNo, HNo => true | HYes, HYes => true | HGd, HGd => true | _, _ => false end.
Definition ann_eqb (a b : ann) : bool :=
  hst_eqb (hQ a) (hQ b) && hst_eqb (hR a) (hR b) && hst_eqb (hG a) (hG b) &&
  hst_eqb (hAo a) (hAo b) && hst_eqb (hAk a) (hAk b) && hst_eqb (hS a) (hS b).
Definition is_no (h : hst) : bool := match h with HNo => true | _ => false end.

Definition held_ranks_lt (a : ann) (r : nat) : bool :=
  forallb (fun m => is_no (aget a m) || (mrank m <? r)) all_mtx.
Definition wf_ann (a : ann) : bool := is_no (hAo a) || is_no (hAk a).

Definition ok_instr (a : ann) (ins : instr) : bool :=
  match ins with
  | ILock g m => held_ranks_lt a (mrank m)
  | IUnlock g m => hst_eqb (aget a m) (if g then HGd else HYes)
  | IFetch => hst_eqb (hQ a) HYes && is_no (hR a) && is_no (hAo a)
  | ISetAgain _ | INewton | IWriteVal | IWriteAux | IWriteRad => negb (is_no (hR a))
  | IKAll | IKCluster | IKNext => is_no (hAk a)
  | IRet => ann_eqb a ann0
  | _ => true
  end.
Definition transfer (a : ann) (ins : instr) : ann :=
  match ins with
  | ILock g m => aset a m (if g then HGd else HYes)
  | IUnlock g m => aset a m HNo
  | _ => a
  end.
Definition succs (pc : nat) (ins : instr) : list nat :=
  match ins with
  | IBr _ _ tgt => [tgt; S pc]
  | IGoto tgt => [tgt]
  | IRet => []
  | _ => [S pc]
  end.

Definition check_prog (prog : list instr) (anns : list ann) : bool :=
  (length anns =? length prog) && (0 <? length prog) && ann_eqb (nth 0 anns ann0) ann0 &&
  forallb (fun pc =>
    let ins := nth pc prog IRet in
    let a := nth pc anns ann0 in
    ok_instr a ins && wf_ann a &&
    forallb (fun pc' => (pc' <? length prog) && ann_eqb (nth pc' anns ann0) (transfer a ins)) (succs pc ins))
    (seq 0 (length prog)).

(* value writes (IWriteVal) only with aberth_mutex[i] in the lock set: holds for VF VM VSF VSM, not for VD VSD *)
Definition val_writes_locked (prog : list instr) (anns : list ann) : bool :=
  forallb (fun pc => match nth pc prog IRet with IWriteVal => negb (is_no (hAo (nth pc anns ann0))) | _ => true end)
          (seq 0 (length prog)).
(* reads of other roots' values (IReadOther) only with aberth_mutex[k] in the lock set: VM VSF VSD VSM *)
Definition other_reads_locked (prog : list instr) (anns : list ann) : bool :=
  forallb (fun pc => match nth pc prog IRet with IReadOther => negb (is_no (hAk (nth pc anns ann0))) | _ => true end)
          (seq 0 (length prog)).

(* annotation inference: forward propagation from ann0 at the entry (the result is CHECKED by check_prog) *)
Fixpoint set_nth {A} (l : list A) (n : nat) (v : A) : list A :=
  match l, n with
  | [], _ => []
  | _ :: r, 0 => v :: r
  | x :: r, S n' => x :: set_nth r n' v
  end.
Definition infer_pass (prog : list instr) (anns : list (option ann)) : list (option ann) :=
  fold_left (fun acc pc =>
    match nth pc acc None with
    | Some a =>
      let ins := nth pc prog IRet in
      fold_left (fun acc' pc' => match nth pc' acc' None with None => set_nth acc' pc' (Some (transfer a ins)) | Some _ => acc' end)
                (succs pc ins) acc
    | None => acc
    end) (seq 0 (length prog)) anns.
Fixpoint iter {A} (n : nat) (f : A -> A) (x : A) : A := match n with 0 => x | S n' => iter n' f (f x) end.
Definition infer (prog : list instr) : list ann :=
  map (fun o => match o with Some a => a | None => ann0 end)
      (iter (length prog) (infer_pass prog) (Some ann0 :: repeat None (length prog - 1))).

(* ---------------------------------------------------------------- the six program texts *)
(* source form: labels + instructions whose targets are labels; `assemble` resolves labels to indices *)
Inductive item := L (l : nat) | I (ins : instr).

Fixpoint label_pos (src : list item) (l : nat) (pos : nat) : nat :=
  match src with
  | [] => pos
  | L l' :: r => if l' =? l then pos else label_pos r l pos
  | I _ :: r => label_pos r l (S pos)
  end.
Definition retarget (src : list item) (ins : instr) : instr :=
  match ins with
  | IBr c b l => IBr c b (label_pos src l 0)
  | IGoto l => IGoto (label_pos src l 0)
  | x => x
  end.
Definition assemble (src : list item) : list instr :=
  flat_map (fun it => match it with L _ => [] | I ins => [retarget src ins] end) src.

(* the Aberth sum loop over the list t_k; locked = mps_*aberth_wl / mps_maberth_s_wl, unlocked = mps_faberth / mps_daberth *)
Definition aberth_loop (locked : bool) (l_top l_next l_done : nat) : list item :=
  [ L l_top;  I (IBr CKDone true l_done);            (* for (i = 0; i < s->n; i++)  /  for (root = cluster->first; root; ...) *)
              I (IBr CKSelf true l_next) ] ++        (*   if (i == j) continue; *)
  (if locked then [ I (ILock false MAk); I IReadOther; I (IUnlock false MAk) ]   (* lock (&aberth_mutexes[i]); sub (z, froot, root[i]->value); unlock *)
   else [ I IReadOther ]) ++                         (*   cplx_sub (z, root->fvalue, s->root[i]->fvalue);  no lock *)
  [ L l_next; I IKNext; I (IGoto l_top); L l_done ].

Definition src_F : list item :=
  [ L 0;  I (IBr CExcep true 99);                    (* while (!( *data->excep) *)
          I (IBr CNzGeReq true 99);                  (*        && ( *data->nzeros) < data->required_zeros) *)
          I (ILock false MQ); I IFetch; I (IUnlock false MQ);   (* job = mps_thread_job_queue_next (s, data->queue); *)
          I (IBr CJobExcep false 1);                 (* if (job.iter == MPS_THREAD_JOB_EXCEP) *)
          I ISetExcep; I IRet;                       (*   { ( *data->excep) = true; return 0; } *)
    L 1;  I (ILock false MR);                        (* pthread_mutex_lock (&data->roots_mutex[i]); *)
          I (IBr CAgain false 6);                    (* if (s->root[i]->again) *)
          I (IBr CExcep true 7);                     (*   if ( *data->excep || *)
          I (IBr CAgain false 7);                    (*       !s->root[i]->again || *)
          I (IBr CNzGtReq true 7);                   (*       ( *data->nzeros > data->required_zeros))  { unlock; return 0; } *)
          I ILoadIt; I IStoreIt;                     (* ( *data->it)++; *)
          I (ILock false MAo); I IReadVal; I (IUnlock false MAo);   (* lock (&aberth_mutex[i]); cplx_set (froot, fvalue); unlock *)
          I INewton;                                 (* mps_polynomial_fnewton (s, p, s->root[i], corr); *)
          I (IBr (CData DFpe) false 2);              (* if (cplx_check_fpe (corr)) *)
          I IWriteRad; I (ISetAgain false);          (*   { frad = rad1; s->skip_float = true; again = false; } *)
    L 2;  I (IBr CIter0 false 3);                    (* if (iter == 0 && *)
          I (IBr CAgain true 3);                     (*     !s->root[i]->again && *)
          I (IBr (CData DIter0) false 3);            (*     frad > rad1 && rad1 != 0) *)
          I IWriteRad;                               (*   frad = rad1; *)
    L 3;  I (IBr CAgain true 4);                     (* if (s->root[i]->again || *)
          I (IBr CIter0 false 4);                    (*     iter != 0 || *)
          I (IBr (CData DCorr) false 5);             (*     frad != rad1) *)
    L 4;  I IKAll ] ++                               (* mps_faberth (s, s->root[i], abcorr): *)
  aberth_loop false 40 42 41 ++
  [       I IWriteRad;                               (* s->root[i]->frad += modcorr; *)
          I (ILock false MAo); I IWriteVal; I (IUnlock false MAo);  (* lock (&aberth_mutex[i]); cplx_set (fvalue, froot); unlock *)
    L 5;  I (IBr CAgain true 6);                     (* if (!s->root[i]->again) *)
          I ILoadNz; I IStoreNz;                     (*   ( *data->nzeros)++; *)
          I (IBr CNzGeReq false 6);                  (*   if ( *data->nzeros >= data->required_zeros) *)
          I (IUnlock false MR); I IRet;              (*     { unlock (&roots_mutex[i]); return 0; } *)
    L 6;  I (IUnlock false MR); I (IGoto 0);         (* pthread_mutex_unlock (&data->roots_mutex[i]);  } *)
    L 7;  I (IUnlock false MR); I IRet;
    L 99; I IRet ].

Definition src_D : list item :=
  [ L 0;  I (IBr CExcep true 99); I (IBr CNzGeReq true 99);      (* while (!( *data->excep) && ( *data->nzeros < data->required_zeros)) *)
          I (ILock false MQ); I IFetch; I (IUnlock false MQ);
          I (IBr CJobExcep false 1); I ISetExcep; I IRet;
    L 1;  I (ILock true MR);                         (* if (s->pool->n > 1) pthread_mutex_lock (&data->roots_mutex[i]); *)
          I (IBr CAgain false 6);
          I (IBr CExcep true 7); I (IBr CAgain false 7); I (IBr CNzGtReq true 7);
          I ILoadIt; I IStoreIt;                     (* ( *data->it)++; *)
          I INewton;                                 (* mps_polynomial_dnewton *)
          I (IBr CIter0 false 3); I (IBr CAgain true 3); I (IBr (CData DIter0) false 3); I IWriteRad;   (* if (iter == 0 && !again && rad > rad1 && rad1 != 0) rad = rad1; *)
    L 3;  I (IBr CAgain true 4); I (IBr CIter0 false 4); I (IBr (CData DCorr) false 5);                 (* if (again || iter != 0 || rad != rad1) *)
    L 4;  I IKAll ] ++                               (* mps_daberth (s, s->root[i], abcorr): no locks *)
  aberth_loop false 40 42 41 ++
  [       I IWriteVal;                               (* cdpe_sub_eq (s->root[i]->dvalue, abcorr);   NO aberth_mutex *)
          I IWriteRad;                               (* rdpe_add_eq (s->root[i]->drad, rtmp); *)
    L 5;  I (IBr CAgain true 6); I ILoadNz; I IStoreNz; I (IBr CNzGeReq false 6);
          I (IUnlock true MR); I IRet;
    L 6;  I (IUnlock true MR); I (IGoto 0);
    L 7;  I (IUnlock true MR); I IRet;
    L 99; I IRet ].

Definition src_M : list item :=
  [ L 0;  I (IBr CNzGeReq true 99);                  (* while (( *data->nzeros) < data->required_zeros) *)
          I (ILock false MQ); I IFetch; I (IUnlock false MQ);
          I (IBr CJobExcep false 1); I ISetExcep; I (IGoto 99);     (* { ( *data->excep) = true; goto endfun; } *)
    L 1;  I (ILock true MR);                         (* if (s->pool->n > 1) pthread_mutex_lock (&data->roots_mutex[l]); *)
          I (IBr CAgain false 6);
          I (IBr CExcep true 7); I (IBr CNzGeReq true 7);            (* if ( *data->excep || ( *data->nzeros) >= data->required_zeros) *)
          I ILoadIt; I IStoreIt;
          I (ILock true MAo); I IReadVal; I (IUnlock true MAo);      (* guarded lock; mpc_set (mroot, mvalue); guarded unlock *)
          I INewton;                                 (* mps_polynomial_mnewton *)
          I (IBr CIter0 false 3); I (IBr CAgain true 3); I (IBr (CData DIter0) false 3); I IWriteRad;   (* if (iter == 0 && !again && rad > rad1 && rad1 != 0) rad = rad1; *)
    L 3;  I (IBr CAgain true 4); I (IBr CIter0 false 4); I (IBr (CData DCorr) false 5);                 (* if (again || iter != 0 || rad != rad1) *)
    L 4;  I (ILock true MG);                         (* if (s->pool->n > 1) pthread_mutex_lock (data->global_aberth_mutex); *)
          I (ILock false MAo); I IReadVal; I (IUnlock false MAo);    (* mps_maberth_s_wl: lock (&aberth_mutexes[j]); mpc_set (mroot, ..); unlock *)
          I IKCluster ] ++
  aberth_loop true 40 42 41 ++
  [       I IWriteRad;                               (* rdpe_add_eq (s->root[l]->drad, rtmp); *)
          I (ILock true MAo); I IWriteVal; I (IUnlock true MAo);     (* guarded lock; mpc_set (mvalue, mroot); guarded unlock *)
          I (IUnlock true MG);
    L 5;  I (IBr CAgain true 6); I ILoadNz; I IStoreNz; I (IBr CNzGeReq false 6);
          I (IUnlock true MR); I (IGoto 99);
    L 6;  I (IUnlock true MR);
          I (IBr CNzEqN true 99);                    (* if (( *data->nzeros) == s->n) goto endfun; *)
          I (IGoto 0);
    L 7;  I (IUnlock true MR); I (IGoto 99);
    L 99; I IRet ].

Definition src_SF : list item :=
  [ L 0;  I (IBr (CData DExitReq) true 99);          (* while (true && !s->exit_required) *)
          I (ILock false MQ); I IFetch; I (IUnlock false MQ);
          I (IBr CJobExcep true 99); I (IBr CNzGeN true 99);         (* if (job.iter == EXCEP || *data->nzeros >= s->n) goto cleanup; *)
          I (ILock false MR);
          I (IBr CJobExcep true 7); I (IBr CNzGeN true 7);           (* same test again: { unlock; goto cleanup; } *)
          I (IBr CAgain false 6); I (IBr (CData DApprox) true 6);    (* if (s->root[i]->again && !s->root[i]->approximated) *)
          I (ILock false MS); I ILoadIt; I IStoreIt; I (IUnlock false MS);   (* lock (gs_mutex); ( *data->it)++; unlock *)
          I IWriteAux;                               (* cdpe_set_x (s->root[i]->dvalue, s->root[i]->fvalue); *)
          I INewton;                                 (* mps_secular_fnewton *)
          I (IBr (CData DNotFloat) false 2);
          I ISetExcep; I (IUnlock false MR); I (IGoto 99);           (* { *data->excep = true; unlock; break; } *)
    L 2;  I (ILock false MAo); I IReadVal; I (IUnlock false MAo);    (* mps_faberth_wl *)
          I IKAll ] ++
  aberth_loop true 40 42 41 ++
  [       I (IBr (CData DNan) false 3);
          I (ISetAgain false); I (IUnlock false MR); I (IGoto 0);    (* { again = false; unlock; continue; } *)
    L 3;  I (IBr (CData DFpeAb) false 4);
          I (ISetAgain false); I (IUnlock false MR); I (IGoto 0);
    L 4;  I (IBr CAgain false 5); I (IBr (CData DApprox) true 5);    (* if (!again || approximated) -> 5 else: *)
          I (ILock false MAo); I IWriteVal; I (IUnlock false MAo);   (* lock (&aberth_mutex[i]); cplx_sub_eq (fvalue, abcorr); unlock *)
          I IWriteRad;                               (* frad += modcorr; *)
          I (IGoto 6);
    L 5;  I (ILock false MS); I ILoadNz; I IStoreNz; I (IUnlock false MS);   (* lock (gs_mutex); ( *data->nzeros)++; unlock *)
    L 6;  I (IUnlock false MR); I (IGoto 0);
    L 7;  I (IUnlock false MR); I (IGoto 99);
    L 99; I IRet ].

Definition src_SD : list item :=
  [ L 0;  I (IBr (CData DExitReq) true 99);
          I (ILock false MQ); I IFetch; I (IUnlock false MQ);
          I (IBr CJobExcep true 99);                 (* if (job.iter == EXCEP) return NULL; *)
          I (ILock false MR);
          I (IBr CAgain false 6); I (IBr (CData DApprox) true 6);
          I IReadVal;                                (* cdpe_set (droot, s->root[i]->dvalue); *)
          I ILoadIt; I IStoreIt;
          I INewton;                                 (* mps_secular_dnewton *)
          I (ILock false MAo); I IReadVal; I (IUnlock false MAo);    (* mps_daberth_wl *)
          I IKAll ] ++
  aberth_loop true 40 42 41 ++
  [       I (IBr CAgain false 3); I IWriteRad;       (* if (s->root[i]->again) rdpe_add_eq (drad, modcorr); *)
    L 3;  I (IBr CAgain false 5); I (IBr (CData DApprox) true 5);
          I IWriteVal;                               (* cdpe_set (s->root[i]->dvalue, droot);   NO aberth_mutex *)
          I (IGoto 6);
    L 5;  I ILoadNz; I IStoreNz;                     (* ( *data->nzeros)++;   no gs_mutex *)
    L 6;  I (IUnlock false MR); I (IGoto 0);
    L 99; I IRet ].

Definition src_SM : list item :=
  [ L 0;  I (IBr (CData DExitReq) true 99);
          I (ILock false MQ); I IFetch; I (IUnlock false MQ);
          I (IBr CJobExcep true 99); I (IBr CNzGeN true 99);
          I (ILock false MR);
          I (IBr CJobExcep true 7); I (IBr CNzGeN true 7);
          I (IBr CAgain false 6); I (IBr (CData DApprox) true 6);
          I (ILock false MAo); I IReadVal; I (IUnlock false MAo);    (* lock (&aberth_mutex[i]); mpc_set (mroot, mvalue); unlock *)
          I (IBr CNzGeN true 7);                     (* if (( *data->nzeros) >= s->n) { unlock; goto cleanup; } *)
          I ILoadIt; I IStoreIt;
          I INewton;                                 (* mps_secular_mnewton *)
          I (ILock false MAo); I IReadVal; I (IUnlock false MAo);    (* mps_maberth_s_wl *)
          I IKCluster ] ++
  aberth_loop true 40 42 41 ++
  [       I (IBr (CData DAbZero) true 2);            (* if (!mpc_eq_zero (abcorr)) *)
          I (ILock false MAo); I (IUnlock false MAo);                (*   { lock (&aberth_mutex[i]); mpc_sub_eq (mroot, abcorr) [local]; unlock } *)
          I (IGoto 3);
    L 2;  I (ISetAgain true);                        (* else s->root[i]->again = true; *)
    L 3;  I (IBr CAgain false 5); I (IBr (CData DApprox) true 5);
          I (ILock false MAo); I IWriteVal; I (IUnlock false MAo);   (* lock; mpc_set (mvalue, mroot); unlock *)
          I IWriteRad; I IWriteRad;                  (* two radius corrections *)
          I (IGoto 6);
    L 5;  I ILoadNz; I IStoreNz;
    L 6;  I (IUnlock false MR); I (IGoto 0);
    L 7;  I (IUnlock false MR); I (IGoto 99);
    L 99; I IRet ].

Inductive variant := VF | VD | VM | VSF | VSD | VSM.
Definition src_of (v : variant) : list item :=
  match v with VF => src_F | VD => src_D | VM => src_M | VSF => src_SF | VSD => src_SD | VSM => src_SM end.
Definition prog_of (v : variant) : list instr := assemble (src_of v).
Definition ann_of (v : variant) : list ann := infer (prog_of v).

Definition mk_params (v : variant) (k maxit : nat) (cl : list (list nat)) (req : nat) (pool1 : bool) : rparams :=
  {| rp_k := k; rp_maxit := maxit; rp_cl := cl; rp_req := req; rp_pool1 := pool1; rp_prog := prog_of v |}.

(* executable views for the trace validator (ocaml/worker_driver.ml) *)
Definition instr_at (p : rparams) (s : rstate) (t : nat) : option instr :=
  match t_st (r_th s t) with TRun pc => nth_error (rp_prog p) pc | _ => None end.
Definition stat_tag (th : thr) : nat := match t_st th with TIdle => 0 | TRun _ => 1 | TDone => 2 end.
Definition pc_of (th : thr) : nat := match t_st th with TRun pc => pc | _ => 0 end.
Definition owns_root (anns : list ann) (th : thr) (i : nat) : bool :=
  match t_st th with TRun pc => negb (is_no (hR (nth pc anns ann0))) && (t_i th =? i) | _ => false end.
Definition owners (anns : list ann) (s : rstate) (k i : nat) : nat :=
  length (filter (fun t => owns_root anns (r_th s t) i) (seq 0 k)).
