(* PoolModel.v -- C06: labelled transition system for the MPSolve thread pool
   (src/libmps/system/threading.c: mps_thread_mainloop, mps_thread_pool_assign, _wait,
   _set_concurrency_limit, _free, mps_thread_free, mps_thread_pool_new).
   Definitions only.  Unbounded number of workers and tasks.

   Granularity.  One step = one pthread operation of one thread together with the
   lock-protected code that follows it, as executed under the scheduler shim
   (harness/vf_sched.h).  Two places are finer than that:
     - after every unlock the thread has a pending `LCont` step (the shim stops a
       thread right after an unlock);
     - the unprotected read of `thread->alive` at the top of the worker loop is a
       separate internal step `LTau` (it races with mps_thread_free).
   Thread 0 is the client (the only thread calling new / wait / set_concurrency_limit /
   free).  Worker w >= 1 is element w-1 of `workers` (creation order = shim tid).
   NESTED ASSIGN: a task body (EStart t; yield; ...; EEnd t) may, after its yield, call
   mps_thread_pool_assign on the same pool any number of times, on a worker as well as
   inline in the client: the call takes the queue path (lock QC; push; signal; unlock) or,
   when pool->n = 1 and not strict_async, runs the new task inline on the calling thread;
   the suspended callers are the stack `st` carried by the program counter (unbounded nesting).
   REPAIR: `repaired s = true` models threading.c with fixes/C06_limit_while_busy.patch applied
   (the worker leaving through the bottom of mps_thread_mainloop first locks
   work_completed_mutex, gives its busy slot back, signals work_completed_cond, unlocks).
   Mutexes: WC = work_completed_mutex, QC = queue_changed_mutex; each has exactly one
   condition variable (work_completed_cond, queue_changed), named by its mutex. *)
Require Import List ZArith Bool Arith.
Import ListNotations.
Open Scope Z_scope.

Definition tid := nat.
Definition task := nat.

Inductive mu := WC | QC.

Inductive uev :=
| ENew (n : nat) | ENewRet | EAssign (t : task) | EAssignRet | EWait | EWaitRet
| ESetLimit (m : nat) | ESetLimitRet | EFree | EFreeRet | EStrict (b : bool)
| EStart (t : task) | EEnd (t : task).

Inductive label :=
| LBegin (w : tid)
| LTau (w : tid)
| LLock (t : tid) (m : mu)
| LUnlock (t : tid) (m : mu)
| LCont (t : tid)
| LCWait (t : tid) (m : mu)
| LCWake (t : tid) (m : mu) (spurious : bool)
| LSignal (t : tid) (m : mu) (woken : option tid)
| LBcast (t : tid) (m : mu) (n : nat)
| LCreate (t : tid) (u : tid)
| LJoin (t : tid) (u : tid)
| LExit (t : tid)
| LYield (t : tid)
| LEv (t : tid) (e : uev).

(* worker program counter = the operation the worker performs next *)
Inductive wpc :=
| WStart                       (* created; first step pending *)
| WTop                         (* while (thread->alive): read pending *)
| WLockWC                      (* lock (work_completed_mutex) *)
| WLockQC                      (* holds WC; lock (queue_changed_mutex) *)
| WRunUnlockQC (t : task)      (* popped t, holds both; unlock QC *)
| WRunUnlockWC (t : task)      (* holds WC; unlock WC *)
| WRunStart (t : task) (st : list task)   (* item->work (item->args), or work (args) inline: body of t begins; st = suspended callers *)
| WRunYield (t : task) (st : list task)   (* inside the task body *)
| WRunEnd (t : task) (st : list task)     (* body after its yield: may call assign, or return *)
| WAsgLock (t t' : task) (st : list task) (* body of t called assign (t'), queue path: lock QC *)
| WAsgSignal (t : task) (st : list task)  (* pushed; signal queue_changed *)
| WAsgUnlock (t : task) (st : list task)  (* unlock QC *)
| WAsgRet (t : task) (st : list task)     (* assign returns into the body of t *)
| WIdleSignal                  (* queue empty, holds both; signal work_completed_cond *)
| WIdleUnlockWC                (* unlock WC *)
| WCondWait                    (* holds QC, alive; cond_wait (queue_changed) *)
| WWaiting                     (* inside cond_wait *)
| WWokenUnlockQC               (* returned from cond_wait holding QC; unlock QC *)
| WExitUnlockQC                (* !alive in the idle branch: unlock QC then pthread_exit *)
| WExitLockWC                  (* repaired only: bottom exit, lock WC *)
| WExitSignal                  (* repaired only: busy slot given back; signal work_completed_cond *)
| WExitUnlockWC                (* repaired only: unlock WC *)
| WExit                        (* pthread_exit pending (either exit) *)
| WExited.

Inductive cafter := ANew | AWait | ASetLimit | AFree.

Inductive cpc :=
| CNotCreated
| CIdle
| CCreate (k : nat) (a : cafter)        (* k more pthread_create *)
| CWaitLock (a : cafter)                (* lock WC *)
| CWaitCond (a : cafter)                (* cond_wait (work_completed_cond) *)
| CWaitBlocked (a : cafter)             (* inside cond_wait *)
| CWaitUnlock (a : cafter)              (* condition seen true; unlock WC *)
| CRet (e : uev)                        (* API call returns *)
| CInlStart (t : task) (st : list task) | CInlYield (t : task) (st : list task)
| CInlEnd (t : task) (st : list task)     (* inline execution, n = 1; st = suspended callers; CInlEnd: may assign or return *)
| CAsgLock (t : task) (st : list task) | CAsgSignal (st : list task) | CAsgUnlock (st : list task)
| CAsgRet (st : list task)                (* assign returns: to the script (st = []) or into the body of hd st *)
| CKillLock (ws : list tid) (a : cafter)   (* mps_thread_free (head ws): lock QC *)
| CKillBcast (ws : list tid) (a : cafter)
| CKillUnlock (ws : list tid) (a : cafter)
| CKillJoin (ws : list tid) (a : cafter)
| CDone.

Record worker := mkW { w_alive : bool; w_busy : bool; w_pc : wpc; w_cont : bool; w_joined : bool }.

Record state := mkS {
  queue : list task;
  busy_counter : Z;
  wc_owner : option tid; qc_owner : option tid;
  wc_wait : list tid; qc_wait : list tid;      (* waiters not yet signalled *)
  assigned : list task; executed : list task;
  workers : list worker;
  plist : list tid;                            (* pool->first linked list *)
  pn : nat; climit : nat; strict : bool;
  pc0 : cpc; cont0 : bool;
  repaired : bool }.

Definition init : state :=
  mkS [] 0 None None [] [] [] [] [] [] 0 0 false CNotCreated false false.
Definition init_r : state :=
  mkS [] 0 None None [] [] [] [] [] [] 0 0 false CNotCreated false true.

(* ---- setters ---- *)
Definition set_queue s x := mkS x (busy_counter s) (wc_owner s) (qc_owner s) (wc_wait s) (qc_wait s) (assigned s) (executed s) (workers s) (plist s) (pn s) (climit s) (strict s) (pc0 s) (cont0 s) (repaired s).
Definition set_busy_counter s x := mkS (queue s) x (wc_owner s) (qc_owner s) (wc_wait s) (qc_wait s) (assigned s) (executed s) (workers s) (plist s) (pn s) (climit s) (strict s) (pc0 s) (cont0 s) (repaired s).
Definition set_wc_owner s x := mkS (queue s) (busy_counter s) x (qc_owner s) (wc_wait s) (qc_wait s) (assigned s) (executed s) (workers s) (plist s) (pn s) (climit s) (strict s) (pc0 s) (cont0 s) (repaired s).
Definition set_qc_owner s x := mkS (queue s) (busy_counter s) (wc_owner s) x (wc_wait s) (qc_wait s) (assigned s) (executed s) (workers s) (plist s) (pn s) (climit s) (strict s) (pc0 s) (cont0 s) (repaired s).
Definition set_wc_wait s x := mkS (queue s) (busy_counter s) (wc_owner s) (qc_owner s) x (qc_wait s) (assigned s) (executed s) (workers s) (plist s) (pn s) (climit s) (strict s) (pc0 s) (cont0 s) (repaired s).
Definition set_qc_wait s x := mkS (queue s) (busy_counter s) (wc_owner s) (qc_owner s) (wc_wait s) x (assigned s) (executed s) (workers s) (plist s) (pn s) (climit s) (strict s) (pc0 s) (cont0 s) (repaired s).
Definition set_assigned s x := mkS (queue s) (busy_counter s) (wc_owner s) (qc_owner s) (wc_wait s) (qc_wait s) x (executed s) (workers s) (plist s) (pn s) (climit s) (strict s) (pc0 s) (cont0 s) (repaired s).
Definition set_executed s x := mkS (queue s) (busy_counter s) (wc_owner s) (qc_owner s) (wc_wait s) (qc_wait s) (assigned s) x (workers s) (plist s) (pn s) (climit s) (strict s) (pc0 s) (cont0 s) (repaired s).
Definition set_workers s x := mkS (queue s) (busy_counter s) (wc_owner s) (qc_owner s) (wc_wait s) (qc_wait s) (assigned s) (executed s) x (plist s) (pn s) (climit s) (strict s) (pc0 s) (cont0 s) (repaired s).
Definition set_pool s pl n cl := mkS (queue s) (busy_counter s) (wc_owner s) (qc_owner s) (wc_wait s) (qc_wait s) (assigned s) (executed s) (workers s) pl n cl (strict s) (pc0 s) (cont0 s) (repaired s).
Definition set_strict s x := mkS (queue s) (busy_counter s) (wc_owner s) (qc_owner s) (wc_wait s) (qc_wait s) (assigned s) (executed s) (workers s) (plist s) (pn s) (climit s) x (pc0 s) (cont0 s) (repaired s).
Definition set_pc0 s x := mkS (queue s) (busy_counter s) (wc_owner s) (qc_owner s) (wc_wait s) (qc_wait s) (assigned s) (executed s) (workers s) (plist s) (pn s) (climit s) (strict s) x (cont0 s) (repaired s).
Definition set_cont0 s x := mkS (queue s) (busy_counter s) (wc_owner s) (qc_owner s) (wc_wait s) (qc_wait s) (assigned s) (executed s) (workers s) (plist s) (pn s) (climit s) (strict s) (pc0 s) x (repaired s).

Definition set_wpc (x : worker) p := mkW (w_alive x) (w_busy x) p (w_cont x) (w_joined x).
Definition set_wpc_cont (x : worker) p := mkW (w_alive x) (w_busy x) p true (w_joined x).
Definition set_wcont (x : worker) b := mkW (w_alive x) (w_busy x) (w_pc x) b (w_joined x).
Definition set_wbusy_pc (x : worker) b p := mkW (w_alive x) b p (w_cont x) (w_joined x).
Definition set_walive (x : worker) b := mkW b (w_busy x) (w_pc x) (w_cont x) (w_joined x).
Definition set_wjoined (x : worker) b := mkW (w_alive x) (w_busy x) (w_pc x) (w_cont x) b.
Definition new_worker := mkW true false WStart false false.

Fixpoint upd {A} (i : nat) (x : A) (l : list A) : list A :=
  match l, i with
  | [], _ => []
  | _ :: r, O => x :: r
  | y :: r, S j => y :: upd j x r
  end.

Definition get_w (s : state) (w : tid) : option worker :=
  match w with O => None | S i => nth_error (workers s) i end.
Definition put_w (s : state) (w : tid) (x : worker) : state :=
  set_workers s (upd (pred w) x (workers s)).

Definition owner s m := match m with WC => wc_owner s | QC => qc_owner s end.
Definition set_owner s m o := match m with WC => set_wc_owner s o | QC => set_qc_owner s o end.
Definition waitset s m := match m with WC => wc_wait s | QC => qc_wait s end.
Definition set_waitset s m l := match m with WC => set_wc_wait s l | QC => set_qc_wait s l end.

Definition eq_otid (a b : option tid) : bool :=
  match a, b with Some x, Some y => Nat.eqb x y | None, None => true | _, _ => false end.
Definition is_none {A} (o : option A) : bool := match o with None => true | _ => false end.
Definition mem (x : nat) (l : list nat) : bool := existsb (Nat.eqb x) l.
Definition remove_nat (x : nat) (l : list nat) : list nat := filter (fun y => negb (Nat.eqb x y)) l.

Definition lock s t m : option state := if is_none (owner s m) then Some (set_owner s m (Some t)) else None.
Definition unlock s t m : option state := if eq_otid (owner s m) (Some t) then Some (set_owner s m None) else None.
(* cond_wait entry: release the mutex and join the wait set *)
Definition cwait s t m : option state :=
  if eq_otid (owner s m) (Some t) then Some (set_waitset (set_owner s m None) m (waitset s m ++ [t])) else None.
(* cond_wait exit: signalled (no longer in the wait set) or spurious (still in it); mutex must be free *)
Definition cwake s t m (sp : bool) : option state :=
  if is_none (owner s m) && Bool.eqb sp (mem t (waitset s m))
  then Some (set_owner (set_waitset s m (remove_nat t (waitset s m))) m (Some t)) else None.
Definition signal s m (woken : option tid) : option state :=
  match woken, waitset s m with
  | None, [] => Some s
  | Some u, (_ :: _) as l => if mem u l then Some (set_waitset s m (remove_nat u l)) else None
  | _, _ => None
  end.
Definition bcast s m (n : nat) : option state :=
  if Nat.eqb n (length (waitset s m)) then Some (set_waitset s m []) else None.

Definition bind {A B} (o : option A) (f : A -> option B) : option B := match o with Some x => f x | None => None end.
Notation "'do' x <- o ; f" := (bind o (fun x => f)) (at level 200, x name, o at level 100, f at level 200).

Definition wait_ret (a : cafter) : uev := match a with ANew => ENewRet | _ => EWaitRet end.

(* the test in mps_thread_pool_wait, evaluated holding WC *)
Definition wait_check s (a : cafter) : state :=
  if Z.eqb (busy_counter s) 0 && is_none (hd_error (queue s)) then set_pc0 s (CWaitUnlock a) else set_pc0 s (CWaitCond a).

Definition after_kills (ws : list tid) (a : cafter) : cpc :=
  match ws with [] => CRet (match a with AFree => EFreeRet | _ => ESetLimitRet end) | _ => CKillLock ws a end.
Definition after_creates (k : nat) (a : cafter) : cpc :=
  match k with
  | O => match a with ANew => CWaitLock ANew | _ => CRet ESetLimitRet end
  | S _ => CCreate k a
  end.

Definition kill_event (s : state) (e : uev) : bool :=
  match e with EFree => true | ESetLimit m => Nat.ltb m (climit s) | _ => false end.

(* the test at the top of mps_thread_pool_assign *)
Definition inline_mode (s : state) : bool := Nat.eqb (pn s) 1 && negb (strict s).

(* ---- the worker ---- *)
Definition wstep (s : state) (w : tid) (x : worker) (l : label) : option state :=
  match l, w_pc x with
  | LBegin _, WStart => Some (put_w s w (set_wpc x WTop))
  | LTau _, WTop =>
      Some (put_w s w (set_wpc x (if w_alive x then WLockWC else if repaired s then WExitLockWC else WExit)))
  | LLock _ WC, WLockWC => do s1 <- lock s w WC; Some (put_w s1 w (set_wpc x WLockQC))
  | LLock _ QC, WLockQC =>
      do s1 <- lock s w QC;
      match queue s1 with
      | t :: q =>
          let s2 := if w_busy x then s1 else set_busy_counter s1 (busy_counter s1 + 1) in
          Some (put_w (set_queue s2 q) w (set_wbusy_pc x true (WRunUnlockQC t)))
      | [] =>
          let s2 := if w_busy x then set_busy_counter s1 (busy_counter s1 - 1) else s1 in
          Some (put_w s2 w (set_wbusy_pc x false WIdleSignal))
      end
  | LUnlock _ QC, WRunUnlockQC t => do s1 <- unlock s w QC; Some (put_w s1 w (set_wpc_cont x (WRunUnlockWC t)))
  | LUnlock _ WC, WRunUnlockWC t => do s1 <- unlock s w WC; Some (put_w s1 w (set_wpc_cont x (WRunStart t [])))
  (* the task body: start; yield; any number of assign calls; end *)
  | LEv _ (EStart t'), WRunStart t st => if Nat.eqb t t' then Some (put_w s w (set_wpc x (WRunYield t st))) else None
  | LYield _, WRunYield t st => Some (put_w s w (set_wpc x (WRunEnd t st)))
  | LEv _ (EEnd t'), WRunEnd t st =>
      if Nat.eqb t t' then
        Some (put_w (set_executed s (t :: executed s)) w
                    (set_wpc x (match st with [] => WTop | u :: r => WAsgRet u r end)))
      else None
  (* mps_thread_pool_assign called by the body of t *)
  | LEv _ (EAssign t'), WRunEnd t st =>
      if mem t' (assigned s) then None else
      Some (put_w (set_assigned s (t' :: assigned s)) w
                  (set_wpc x (if inline_mode s then WRunStart t' (t :: st) else WAsgLock t t' st)))
  | LLock _ QC, WAsgLock t t' st =>
      do s1 <- lock s w QC; Some (put_w (set_queue s1 (queue s1 ++ [t'])) w (set_wpc x (WAsgSignal t st)))
  | LSignal _ QC u, WAsgSignal t st => do s1 <- signal s QC u; Some (put_w s1 w (set_wpc x (WAsgUnlock t st)))
  | LUnlock _ QC, WAsgUnlock t st => do s1 <- unlock s w QC; Some (put_w s1 w (set_wpc_cont x (WAsgRet t st)))
  | LEv _ EAssignRet, WAsgRet t st => Some (put_w s w (set_wpc x (WRunEnd t st)))
  (* queue empty *)
  | LSignal _ WC u, WIdleSignal => do s1 <- signal s WC u; Some (put_w s1 w (set_wpc x WIdleUnlockWC))
  | LUnlock _ WC, WIdleUnlockWC =>
      do s1 <- unlock s w WC;
      Some (put_w s1 w (set_wpc_cont x (if w_alive x then WCondWait else WExitUnlockQC)))
  | LCWait _ QC, WCondWait => do s1 <- cwait s w QC; Some (put_w s1 w (set_wpc x WWaiting))
  | LCWake _ QC sp, WWaiting => do s1 <- cwake s w QC sp; Some (put_w s1 w (set_wpc x WWokenUnlockQC))
  | LUnlock _ QC, WWokenUnlockQC => do s1 <- unlock s w QC; Some (put_w s1 w (set_wpc_cont x WTop))
  | LUnlock _ QC, WExitUnlockQC => do s1 <- unlock s w QC; Some (put_w s1 w (set_wpc_cont x WExit))
  (* repaired only: the bottom exit gives the busy slot back under work_completed_mutex *)
  | LLock _ WC, WExitLockWC =>
      do s1 <- lock s w WC;
      let s2 := if w_busy x then set_busy_counter s1 (busy_counter s1 - 1) else s1 in
      Some (put_w s2 w (set_wbusy_pc x false WExitSignal))
  | LSignal _ WC u, WExitSignal => do s1 <- signal s WC u; Some (put_w s1 w (set_wpc x WExitUnlockWC))
  | LUnlock _ WC, WExitUnlockWC => do s1 <- unlock s w WC; Some (put_w s1 w (set_wpc_cont x WExit))
  | LExit _, WExit => Some (put_w s w (set_wpc x WExited))
  | _, _ => None
  end.

(* ---- the client ---- *)
Definition cstep (s : state) (l : label) : option state :=
  match l, pc0 s with
  (* mps_thread_pool_new (s, n): n x insert_new_thread, then mps_thread_pool_wait *)
  | LEv _ (ENew n), CNotCreated =>
      match n with O => None | S _ => Some (set_pc0 (set_pool s (plist s) (pn s) n) (CCreate n ANew)) end
  | LCreate _ u, CCreate (S k) a =>
      if Nat.eqb u (S (length (workers s))) then
        Some (set_pc0 (set_pool (set_workers s (workers s ++ [new_worker])) (u :: plist s) (S (pn s)) (climit s))
                      (after_creates k a))
      else None
  (* mps_thread_pool_wait *)
  | LEv _ EWait, CIdle => Some (set_pc0 s (CWaitLock AWait))
  | LLock _ WC, CWaitLock a => do s1 <- lock s 0%nat WC; Some (wait_check s1 a)
  | LCWait _ WC, CWaitCond a => do s1 <- cwait s 0%nat WC; Some (set_pc0 s1 (CWaitBlocked a))
  | LCWake _ WC sp, CWaitBlocked a => do s1 <- cwake s 0%nat WC sp; Some (wait_check s1 a)
  | LUnlock _ WC, CWaitUnlock a => do s1 <- unlock s 0%nat WC; Some (set_cont0 (set_pc0 s1 (CRet (wait_ret a))) true)
  (* return events *)
  | LEv _ e, CRet e' =>
      match e, e' with
      | ENewRet, ENewRet | EWaitRet, EWaitRet | ESetLimitRet, ESetLimitRet => Some (set_pc0 s CIdle)
      | EFreeRet, EFreeRet => Some (set_pc0 s CDone)
      | _, _ => None
      end
  (* mps_thread_pool_assign, called by the script or (nested) by a task body running inline *)
  | LEv _ (EAssign t), CIdle =>
      if mem t (assigned s) then None else
      let s1 := set_assigned s (t :: assigned s) in
      Some (set_pc0 s1 (if inline_mode s then CInlStart t [] else CAsgLock t []))
  | LEv _ (EAssign t'), CInlEnd t st =>
      if mem t' (assigned s) then None else
      let s1 := set_assigned s (t' :: assigned s) in
      Some (set_pc0 s1 (if inline_mode s then CInlStart t' (t :: st) else CAsgLock t' (t :: st)))
  | LEv _ (EStart t'), CInlStart t st => if Nat.eqb t t' then Some (set_pc0 s (CInlYield t st)) else None
  | LYield _, CInlYield t st => Some (set_pc0 s (CInlEnd t st))
  | LEv _ (EEnd t'), CInlEnd t st =>
      if Nat.eqb t t' then Some (set_pc0 (set_executed s (t :: executed s)) (CAsgRet st)) else None
  | LLock _ QC, CAsgLock t st => do s1 <- lock s 0%nat QC; Some (set_pc0 (set_queue s1 (queue s1 ++ [t])) (CAsgSignal st))
  | LSignal _ QC u, CAsgSignal st => do s1 <- signal s QC u; Some (set_pc0 s1 (CAsgUnlock st))
  | LUnlock _ QC, CAsgUnlock st => do s1 <- unlock s 0%nat QC; Some (set_cont0 (set_pc0 s1 (CAsgRet st)) true)
  | LEv _ EAssignRet, CAsgRet st => Some (set_pc0 s (match st with [] => CIdle | t :: r => CInlEnd t r end))
  | LEv _ (EStrict b), CIdle => Some (set_strict s b)
  (* mps_thread_pool_set_concurrency_limit (m > 0) *)
  | LEv _ (ESetLimit m), CIdle =>
      match m with O => None | S _ =>
        if Nat.ltb m (climit s) then
          let k := (climit s - m)%nat in
          if Nat.leb k (length (plist s)) then
            Some (set_pc0 (set_pool s (skipn k (plist s)) m m) (after_kills (firstn k (plist s)) ASetLimit))
          else None
        else Some (set_pc0 (set_pool s (plist s) (pn s) m) (after_creates (m - climit s)%nat ASetLimit))
      end
  (* mps_thread_pool_free *)
  | LEv _ EFree, CIdle => Some (set_pc0 (set_pool s [] (pn s) (climit s)) (after_kills (plist s) AFree))
  (* mps_thread_free (head ws) *)
  | LLock _ QC, CKillLock (w :: ws) a =>
      do s1 <- lock s 0%nat QC;
      do x <- get_w s1 w;
      Some (set_pc0 (put_w s1 w (set_walive x false)) (CKillBcast (w :: ws) a))
  | LBcast _ QC n, CKillBcast ws a => do s1 <- bcast s QC n; Some (set_pc0 s1 (CKillUnlock ws a))
  | LUnlock _ QC, CKillUnlock ws a => do s1 <- unlock s 0%nat QC; Some (set_cont0 (set_pc0 s1 (CKillJoin ws a)) true)
  | LJoin _ u, CKillJoin (w :: ws) a =>
      if Nat.eqb u w then
        do x <- get_w s w;
        match w_pc x with
        | WExited => Some (set_pc0 (put_w s w (set_wjoined x true)) (after_kills ws a))
        | _ => None
        end
      else None
  | _, _ => None
  end.

Definition label_tid (l : label) : tid :=
  match l with
  | LBegin t | LTau t | LLock t _ | LUnlock t _ | LCont t | LCWait t _ | LCWake t _ _ | LSignal t _ _
  | LBcast t _ _ | LCreate t _ | LJoin t _ | LExit t | LYield t | LEv t _ => t
  end.
Definition is_cont (l : label) : bool := match l with LCont _ => true | _ => false end.

Definition step (s : state) (l : label) : option state :=
  match label_tid l with
  | O =>
      if is_cont l then (if cont0 s then Some (set_cont0 s false) else None)
      else if cont0 s then None else cstep s l
  | S _ as w =>
      do x <- get_w s w;
      if is_cont l then (if w_cont x then Some (put_w s w (set_wcont x false)) else None)
      else if w_cont x then None else wstep s w x l
  end.

Fixpoint run (s : state) (tr : list label) : option state :=
  match tr with [] => Some s | l :: r => do s1 <- step s l; run s1 r end.

(* ---- the discipline the solver follows: the limit is lowered / the pool freed only
        when the pool is quiescent (after a wait) ---- *)
Definition quiescent (s : state) : bool := Z.eqb (busy_counter s) 0 && is_none (hd_error (queue s)).
Definition step_d (s : state) (l : label) : option state :=
  match l with
  | LEv O e => if kill_event s e && negb (quiescent s) then None else step s l
  | _ => step s l
  end.
Fixpoint run_d (s : state) (tr : list label) : option state :=
  match tr with [] => Some s | l :: r => do s1 <- step_d s l; run_d s1 r end.

(* ---- observables used in the statements ---- *)
(* tasks in the hands of a worker: popped / running / suspended callers / handed over, not queued yet *)
Definition wtask (p : wpc) : list task :=
  match p with
  | WRunUnlockQC t | WRunUnlockWC t => [t]
  | WRunStart t st | WRunYield t st | WRunEnd t st | WAsgSignal t st | WAsgUnlock t st | WAsgRet t st => t :: st
  | WAsgLock t t' st => t' :: t :: st
  | _ => []
  end.
Definition running (s : state) : list task := flat_map (fun x => wtask (w_pc x)) (workers s).
Definition ctask (p : cpc) : list task :=
  match p with
  | CInlStart t st | CInlYield t st | CInlEnd t st | CAsgLock t st => t :: st
  | CAsgSignal st | CAsgUnlock st | CAsgRet st => st
  | _ => []
  end.
Definition pending (s : state) : list task := ctask (pc0 s).
Definition nbusy (s : state) : nat := length (filter w_busy (workers s)).
Definition is_exited (x : worker) : bool := match w_pc x with WExited => true | _ => false end.
Definition is_spurious (l : label) : bool := match l with LCWake _ _ true => true | _ => false end.

(* everybody asleep for good: the client inside cond_wait (not signalled), every worker
   exited or inside cond_wait (not signalled) *)
Definition worker_asleep (s : state) (i : nat) (x : worker) : bool :=
  negb (w_cont x) &&
  match w_pc x with WExited => true | WWaiting => mem (S i) (qc_wait s) | _ => false end.
Fixpoint all_asleep_from (s : state) (i : nat) (l : list worker) : bool :=
  match l with [] => true | x :: r => worker_asleep s i x && all_asleep_from s (S i) r end.
Definition client_blocked_in_wait (s : state) : bool :=
  negb (cont0 s) && match pc0 s with CWaitBlocked _ => mem 0%nat (wc_wait s) | _ => false end.
Definition dead_state (s : state) : bool := client_blocked_in_wait s && all_asleep_from s 0 (workers s).

(* executable versions of the invariants, evaluated by the trace validator on every state *)
Fixpoint count_occ_nat (x : nat) (l : list nat) : nat :=
  match l with [] => O | y :: r => (if Nat.eqb x y then 1 else 0) + count_occ_nat x r end.
Definition same_multiset (a b : list nat) : bool :=
  Nat.eqb (length a) (length b) && forallb (fun x => Nat.eqb (count_occ_nat x a) (count_occ_nat x b)) a.
Definition chk_conservation (s : state) : bool :=
  same_multiset (assigned s) (pending s ++ queue s ++ running s ++ executed s).
Definition chk_busy (s : state) : bool :=
  Z.eqb (busy_counter s) (Z.of_nat (nbusy s)) &&
  forallb (fun x => match wtask (w_pc x) with [] => true | _ => w_busy x end) (workers s).
Definition chk_barrier (s : state) : bool :=
  match pc0 s with
  | CRet EWaitRet => same_multiset (assigned s) (executed s)
  | _ => true
  end.
(* after free: every worker exited and joined; the tasks not executed are exactly those still queued *)
Definition chk_final (s : state) : bool :=
  match pc0 s with
  | CDone => forallb (fun x => is_exited x && w_joined x) (workers s) && same_multiset (assigned s) (queue s ++ executed s)
  | _ => true
  end.
Definition chk_all (s : state) : bool := chk_conservation s && chk_busy s && chk_barrier s && chk_final s.
