(* PoolWitness.v -- concrete traces of the pool model (definitions only).
   witness_limit_running: the concurrency limit is lowered while the worker that is
   freed runs a task; that worker leaves through the pthread_exit at the bottom of
   mps_thread_mainloop with busy_counter still counting it; the next wait blocks forever. *)
Require Import List ZArith Bool Arith.
Require Import MPSV.Conc.PoolModel.
Import ListNotations.
Open Scope nat_scope.

Definition witness_limit_running : list label :=
  [ LEv 0 (ENew 2); LCreate 0 1; LCreate 0 2; LLock 0 WC; LUnlock 0 WC; LCont 0; LEv 0 ENewRet;
    LEv 0 (EAssign 0); LLock 0 QC; LSignal 0 QC None; LUnlock 0 QC; LCont 0; LEv 0 EAssignRet; LEv 0 (ESetLimit 1);
    LBegin 2; LTau 2; LLock 2 WC; LLock 2 QC; LUnlock 2 QC; LCont 2; LUnlock 2 WC; LCont 2; LEv 2 (EStart 0);
    LLock 0 QC; LBcast 0 QC 0; LUnlock 0 QC; LCont 0;
    LYield 2; LEv 2 (EEnd 0); LTau 2; LExit 2;
    LJoin 0 2; LEv 0 ESetLimitRet; LEv 0 EWait;
    LBegin 1; LTau 1; LLock 1 WC; LLock 1 QC; LSignal 1 WC None; LUnlock 1 WC; LCont 1; LCWait 1 QC;
    LLock 0 WC; LCWait 0 WC ].

(* a normal round on a pool of two workers: new, two tasks, wait, free *)
Definition example_round : list label :=
  [ LEv 0 (ENew 2); LCreate 0 1; LCreate 0 2; LLock 0 WC; LUnlock 0 WC; LCont 0; LEv 0 ENewRet;
    LBegin 1; LTau 1; LLock 1 WC; LLock 1 QC; LSignal 1 WC None; LUnlock 1 WC; LCont 1; LCWait 1 QC;
    LEv 0 (EAssign 0); LLock 0 QC; LSignal 0 QC (Some 1); LUnlock 0 QC; LCont 0; LEv 0 EAssignRet;
    LEv 0 (EAssign 1); LLock 0 QC; LSignal 0 QC None; LUnlock 0 QC; LCont 0; LEv 0 EAssignRet;
    LEv 0 EWait; LLock 0 WC; LCWait 0 WC;
    LCWake 1 QC false; LUnlock 1 QC; LCont 1; LTau 1; LLock 1 WC; LLock 1 QC; LUnlock 1 QC; LCont 1; LUnlock 1 WC; LCont 1;
    LEv 1 (EStart 0);
    LBegin 2; LTau 2; LLock 2 WC; LLock 2 QC; LUnlock 2 QC; LCont 2; LUnlock 2 WC; LCont 2; LEv 2 (EStart 1);
    LYield 1; LEv 1 (EEnd 0); LTau 1; LLock 1 WC; LLock 1 QC; LSignal 1 WC (Some 0); LUnlock 1 WC; LCont 1; LCWait 1 QC;
    LCWake 0 WC false; LCWait 0 WC;
    LYield 2; LEv 2 (EEnd 1); LTau 2; LLock 2 WC; LLock 2 QC; LSignal 2 WC (Some 0); LUnlock 2 WC; LCont 2; LCWait 2 QC;
    LCWake 0 WC false; LUnlock 0 WC; LCont 0; LEv 0 EWaitRet;
    LEv 0 EFree; LLock 0 QC; LBcast 0 QC 2; LUnlock 0 QC; LCont 0;
    LCWake 2 QC false; LUnlock 2 QC; LCont 2; LTau 2; LExit 2; LJoin 0 2;
    LLock 0 QC; LBcast 0 QC 0; LUnlock 0 QC; LCont 0;
    LCWake 1 QC false; LUnlock 1 QC; LCont 1; LTau 1; LExit 1; LJoin 0 1; LEv 0 EFreeRet ].

Definition is_some {A} (o : option A) : bool := match o with Some _ => true | None => false end.
Definition final_ok (o : option state) (f : state -> bool) : bool := match o with Some s => f s | None => false end.

(* ---- traces recorded from the REAL pool (harness/c06_pool.c under the scheduler shim, printed by
   bin/pool --coq-trace); used as non-vacuity examples in Props/Properties_C06.v ---- *)
(* script "n2 N1 w f", default schedule: task 1 is handed over by the client, its body (on a worker) hands
   task 0 over through the queue path; wait; free *)
Definition example_nested : list label :=
  [
    LEv 0 (ENew 2); LCreate 0 1; LCreate 0 2; LLock 0 WC; LUnlock 0 WC; LCont 0; LEv 0 ENewRet; LEv 0 (EAssign 1);
    LLock 0 QC; LSignal 0 QC None; LUnlock 0 QC; LCont 0; LEv 0 EAssignRet; LEv 0 EWait; LLock 0 WC; LCWait 0 WC;
    LBegin 1; LTau 1; LLock 1 WC; LLock 1 QC; LUnlock 1 QC; LCont 1; LUnlock 1 WC; LCont 1; LEv 1 (EStart 1);
    LYield 1; LEv 1 (EAssign 0); LLock 1 QC; LSignal 1 QC None; LUnlock 1 QC; LCont 1; LEv 1 EAssignRet;
    LEv 1 (EEnd 1); LTau 1; LLock 1 WC; LLock 1 QC; LUnlock 1 QC; LCont 1; LUnlock 1 WC; LCont 1; LEv 1 (EStart 0);
    LYield 1; LEv 1 (EEnd 0); LTau 1; LLock 1 WC; LLock 1 QC; LSignal 1 WC (Some 0); LUnlock 1 WC; LCont 1;
    LCWait 1 QC; LBegin 2; LTau 2; LLock 2 WC; LLock 2 QC; LSignal 2 WC None; LUnlock 2 WC; LCont 2; LCWait 2 QC;
    LCWake 0 WC false; LUnlock 0 WC; LCont 0; LEv 0 EWaitRet; LEv 0 EFree; LLock 0 QC; LBcast 0 QC 2; LUnlock 0 QC;
    LCont 0; LCWake 1 QC false; LUnlock 1 QC; LCont 1; LTau 1; LLock 1 WC; LLock 1 QC; LSignal 1 WC None;
    LUnlock 1 WC; LCont 1; LCWait 1 QC; LCWake 2 QC false; LUnlock 2 QC; LCont 2; LTau 2; LExit 2; LJoin 0 2;
    LLock 0 QC; LBcast 0 QC 1; LUnlock 0 QC; LCont 0; LCWake 1 QC false; LUnlock 1 QC; LCont 1; LTau 1; LExit 1;
    LJoin 0 1; LEv 0 EFreeRet ].

(* script "n1 D2 w": pool of one worker, not strict: task 0 runs inline in the client, its body hands over
   task 1 which runs inline (nested) and hands over task 2 (nesting depth 3 on the client's stack); wait *)
Definition example_inline : list label :=
  [
    LEv 0 (ENew 1); LCreate 0 1; LLock 0 WC; LUnlock 0 WC; LCont 0; LEv 0 ENewRet; LEv 0 (EAssign 0);
    LEv 0 (EStart 0); LYield 0; LEv 0 (EAssign 1); LEv 0 (EStart 1); LYield 0; LEv 0 (EAssign 2); LEv 0 (EStart 2);
    LYield 0; LEv 0 (EEnd 2); LEv 0 EAssignRet; LEv 0 (EEnd 1); LEv 0 EAssignRet; LEv 0 (EEnd 0); LEv 0 EAssignRet;
    LEv 0 EWait; LLock 0 WC; LUnlock 0 WC; LCont 0; LEv 0 EWaitRet ].

(* script "n1 s D1 S w": task 0 is queued while strict_async is set, strict_async is cleared, the worker runs
   task 0 whose body hands over task 1: pool->n = 1 and not strict, so it runs inline ON THE WORKER *)
Definition example_worker_inline : list label :=
  [
    LEv 0 (ENew 1); LCreate 0 1; LLock 0 WC; LUnlock 0 WC; LCont 0; LEv 0 ENewRet; LEv 0 (EStrict true);
    LEv 0 (EAssign 0); LLock 0 QC; LSignal 0 QC None; LUnlock 0 QC; LCont 0; LEv 0 EAssignRet; LEv 0 (EStrict false);
    LEv 0 EWait; LLock 0 WC; LCWait 0 WC; LBegin 1; LTau 1; LLock 1 WC; LLock 1 QC; LUnlock 1 QC; LCont 1;
    LUnlock 1 WC; LCont 1; LEv 1 (EStart 0); LYield 1; LEv 1 (EAssign 1); LEv 1 (EStart 1); LYield 1; LEv 1 (EEnd 1);
    LEv 1 EAssignRet; LEv 1 (EEnd 0); LTau 1; LLock 1 WC; LLock 1 QC; LSignal 1 WC (Some 0); LUnlock 1 WC; LCont 1;
    LCWait 1 QC; LCWake 0 WC false; LUnlock 0 WC; LCont 0; LEv 0 EWaitRet ].

(* script "n2 a1 l1 w f" on the REPAIRED pool (fixes/C06_limit_while_busy.patch): the limit is lowered while
   worker 2 is about to run task 0; it leaves through the bottom exit, gives its busy slot back under
   work_completed_mutex; the following wait returns; free *)
Definition example_repaired : list label :=
  [
    LEv 0 (ENew 2); LCreate 0 1; LCreate 0 2; LLock 0 WC; LUnlock 0 WC; LCont 0; LEv 0 ENewRet; LEv 0 (EAssign 0);
    LLock 0 QC; LBegin 2; LTau 2; LLock 2 WC; LSignal 0 QC None; LUnlock 0 QC; LCont 0; LEv 0 EAssignRet;
    LEv 0 (ESetLimit 1); LLock 0 QC; LBcast 0 QC 0; LUnlock 0 QC; LCont 0; LLock 2 QC; LUnlock 2 QC; LCont 2;
    LUnlock 2 WC; LCont 2; LEv 2 (EStart 0); LYield 2; LEv 2 (EEnd 0); LTau 2; LLock 2 WC; LSignal 2 WC None;
    LUnlock 2 WC; LCont 2; LExit 2; LJoin 0 2; LEv 0 ESetLimitRet; LEv 0 EWait; LLock 0 WC; LUnlock 0 WC; LCont 0;
    LEv 0 EWaitRet; LEv 0 EFree; LLock 0 QC; LBcast 0 QC 0; LUnlock 0 QC; LCont 0; LBegin 1; LTau 1; LLock 1 WC;
    LSignal 1 WC None; LUnlock 1 WC; LCont 1; LExit 1; LJoin 0 1; LEv 0 EFreeRet ].
