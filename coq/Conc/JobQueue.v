(* C05 -- mps_thread_job_queue_next (system/threading.c) as a pure function.

   The C queue holds (iter, cluster_item, root): a pointer into the list of clusters and a pointer
   into the list of roots of the current cluster.  A pointer into a singly linked list is the suffix
   that starts there, so the model state is a zipper:
     q_iter : Some it | None (= MPS_THREAD_JOB_EXCEP)
     q_cur  : the roots of the current cluster from q->root on          (never empty on entry)
     q_rest : the clusters after q->cluster_item
   Branch by branch:
     if (q->iter == EXCEP) j.iter = EXCEP;
     else { j = (q->root->k, q->iter);  q->root = q->root->next;
            if (q->root == NULL) { q->cluster_item = next; if (NULL) { cluster_item = first; q->iter++; }
                                   q->root = cluster_item->cluster->first;
                                   if (j.iter == q->max_iter) { j.iter = EXCEP; q->iter = EXCEP; } } }
   Note that the max_iter test sits inside `q->root == NULL`: in sweep number max_it the roots of the
   first cluster except its last one are still handed out (with iter = max_it); the call that reaches
   the end of the first cluster returns EXCEP and latches it. *)
From Coq Require Import List Arith Lia Bool.
Import ListNotations.

Inductive job := JExcep | Job (i it : nat).

Record qstate := { q_iter : option nat; q_cur : list nat; q_rest : list (list nat) }.

Definition q_init (cl : list (list nat)) : qstate :=
  {| q_iter := Some 0; q_cur := hd [] cl; q_rest := tl cl |}.

Definition q_next (cl : list (list nat)) (max_it : nat) (q : qstate) : job * qstate :=
  match q_iter q with
  | None => (JExcep, q)
  | Some it =>
    match q_cur q with
    | [] => (JExcep, q)   (* q->root == NULL on entry: a NULL dereference in C; unreachable when every cluster is non-empty *)
    | i :: c' =>
      match c' with
      | _ :: _ => (Job i it, {| q_iter := Some it; q_cur := c'; q_rest := q_rest q |})
      | [] =>
        let '(cur', rest', it') :=
          match q_rest q with
          | c :: r => (c, r, it)
          | [] => (hd [] cl, tl cl, S it)
          end in
        if it =? max_it
        then (JExcep, {| q_iter := None; q_cur := cur'; q_rest := rest' |})
        else (Job i it, {| q_iter := Some it'; q_cur := cur'; q_rest := rest' |})
      end
    end
  end.

(* the queue after k calls, and the job returned by call number k (counting from 0) *)
Fixpoint q_after (cl : list (list nat)) (max_it k : nat) (q : qstate) : qstate :=
  match k with 0 => q | S k' => q_after cl max_it k' (snd (q_next cl max_it q)) end.
Definition q_nth (cl : list (list nat)) (max_it k : nat) : job :=
  fst (q_next cl max_it (q_after cl max_it k (q_init cl))).

(* number of real jobs the queue can still hand out (used as the termination measure of the workers) *)
Definition remaining (q : qstate) : list nat := q_cur q ++ concat (q_rest q).
Definition q_budget (n max_it : nat) (q : qstate) : nat :=
  match q_iter q with
  | None => 0
  | Some it => (max_it - it) * n + length (remaining q)
  end.

Definition wf_cl (cl : list (list nat)) : Prop := cl <> [] /\ Forall (fun c => c <> []) cl.
Definition qwf (q : qstate) : Prop := q_cur q <> [] /\ Forall (fun c => c <> []) (q_rest q).

Lemma skipn_cons_nth (l : list nat) b x xs : skipn b l = x :: xs -> nth b l 0 = x /\ skipn (S b) l = xs.
Proof.
  revert b; induction l as [|y l IH]; intros b H.
  - rewrite skipn_nil in H; discriminate.
  - destruct b; simpl in *; [inversion H; split; reflexivity|]. apply IH; assumption.
Qed.

Section Props.
Variable cl : list (list nat).
Variable max_it : nat.
Hypothesis Hcl : wf_cl cl.

Let flat := concat cl.
Let n := length flat.
Notation next := (q_next cl max_it).
Notation after := (q_after cl max_it).

Lemma flat_split : flat = hd [] cl ++ concat (tl cl).
Proof. unfold flat. destruct Hcl as [H _]. destruct cl; [congruence|reflexivity]. Qed.

Lemma hd_nonempty : hd [] cl <> [].
Proof. destruct Hcl as [H F]. destruct cl; [congruence|]. inversion F; assumption. Qed.

Lemma tl_nonempty : Forall (fun c => c <> []) (tl cl).
Proof. destruct Hcl as [H F]. destruct cl; [congruence|]. inversion F; assumption. Qed.

Lemma n_pos : 0 < n.
Proof.
  unfold n. rewrite flat_split, app_length. pose proof hd_nonempty.
  destruct (hd [] cl); [congruence|simpl; lia].
Qed.

Lemma init_wf : qwf (q_init cl).
Proof. split; simpl; [apply hd_nonempty|apply tl_nonempty]. Qed.

Lemma init_remaining : remaining (q_init cl) = flat.
Proof. unfold remaining; simpl. symmetry; apply flat_split. Qed.

Lemma after_add a b q : after (a + b) q = after b (after a q).
Proof. revert q; induction a as [|a IH]; intro q; simpl; [reflexivity|apply IH]. Qed.

(* one call on a live queue whose iteration counter differs from max_it *)
Lemma next_step q it :
  qwf q -> q_iter q = Some it -> it <> max_it ->
  exists x xs, remaining q = x :: xs /\ fst (next q) = Job x it /\ qwf (snd (next q)) /\
    ((xs <> [] /\ q_iter (snd (next q)) = Some it /\ remaining (snd (next q)) = xs) \/
     (xs = [] /\ q_iter (snd (next q)) = Some (S it) /\ remaining (snd (next q)) = flat)).
Proof.
  intros [Hc Hr] Hit Hne. destruct q as [iter cur rest]; simpl in *. subst iter.
  unfold q_next, remaining; simpl.
  destruct cur as [|i c']; [congruence|].
  destruct c' as [|i2 c''].
  - destruct rest as [|c r].
    + exists i, []. apply Nat.eqb_neq in Hne; rewrite Hne; simpl.
      split; [reflexivity|]. split; [reflexivity|]. split; [split; simpl; [apply hd_nonempty|apply tl_nonempty]|].
      right. split; [reflexivity|]. split; [reflexivity|]. symmetry; apply flat_split.
    + exists i, (c ++ concat r). apply Nat.eqb_neq in Hne; rewrite Hne; simpl.
      inversion Hr as [|? ? Hcne Hr']; subst.
      split; [reflexivity|]. split; [reflexivity|]. split; [split; simpl; assumption|].
      left. split; [destruct c; [congruence|discriminate]|]. split; reflexivity.
  - exists i, (i2 :: c'' ++ concat rest). simpl.
    split; [reflexivity|]. split; [reflexivity|]. split; [split; simpl; [discriminate|assumption]|].
    left. split; [discriminate|]. split; reflexivity.
Qed.

(* within sweep number a (< max_it): after b calls the cursor is b roots further *)
Lemma sweep_prefix a q :
  a <> max_it -> qwf q -> q_iter q = Some a -> remaining q = flat ->
  forall b, b < n ->
    qwf (after b q) /\ q_iter (after b q) = Some a /\ remaining (after b q) = skipn b flat /\
    fst (next (after b q)) = Job (nth b flat 0) a.
Proof.
  intros Ha Hw Hi Hr. induction b as [|b IH]; intro Hb.
  - simpl. split; [assumption|]. split; [assumption|]. split; [assumption|].
    destruct (next_step q a Hw Hi Ha) as (x & xs & Hrem & Hj & _).
    rewrite Hj. rewrite Hr in Hrem. rewrite Hrem. reflexivity.
  - destruct (IH ltac:(lia)) as (Hw' & Hi' & Hr' & _).
    assert (HS : after (S b) q = snd (next (after b q)))
      by (replace (S b) with (b + 1) by lia; rewrite after_add; reflexivity).
    rewrite HS.
    destruct (next_step _ a Hw' Hi' Ha) as (x & xs & Hrem & Hj & Hw'' & Hcase).
    assert (Hsk : skipn (S b) flat = xs) by (rewrite Hr' in Hrem; apply (skipn_cons_nth _ _ _ _ Hrem)).
    assert (Hlen : length (skipn (S b) flat) = n - S b) by (unfold n; apply skipn_length).
    destruct Hcase as [(Hne & Hit & Hrm)|(He & _)].
    + split; [assumption|]. split; [assumption|]. split; [rewrite Hrm; symmetry; exact Hsk|].
      destruct (next_step _ a Hw'' Hit Ha) as (x2 & xs2 & Hrem2 & Hj2 & _).
      rewrite Hj2. f_equal. rewrite Hrm, <- Hsk in Hrem2. symmetry. apply (skipn_cons_nth _ _ _ _ Hrem2).
    + subst xs. rewrite Hsk in Hlen. simpl in Hlen. lia.
Qed.

(* ... and the call that ends the sweep starts the next one *)
Lemma sweep_end a q :
  a <> max_it -> qwf q -> q_iter q = Some a -> remaining q = flat ->
  qwf (after n q) /\ q_iter (after n q) = Some (S a) /\ remaining (after n q) = flat.
Proof.
  intros Ha Hw Hi Hr. pose proof n_pos as Hn.
  destruct (sweep_prefix a q Ha Hw Hi Hr (n - 1) ltac:(lia)) as (Hw' & Hi' & Hr' & _).
  replace n with ((n - 1) + 1) at 1 2 3 by lia. rewrite after_add. simpl.
  destruct (next_step _ a Hw' Hi' Ha) as (x & xs & Hrem & Hj & Hw'' & Hcase).
  assert (Hlen : length (skipn (n - 1) flat) = 1) by (rewrite skipn_length; fold n; lia).
  rewrite <- Hr', Hrem in Hlen. simpl in Hlen.
  destruct Hcase as [(Hne & _)|(_ & Hit & Hrm)].
  - destruct xs; [congruence|simpl in Hlen; lia].
  - split; [assumption|]. split; assumption.
Qed.

Lemma sweeps a :
  a <= max_it ->
  qwf (after (a * n) (q_init cl)) /\ q_iter (after (a * n) (q_init cl)) = Some a /\
  remaining (after (a * n) (q_init cl)) = flat.
Proof.
  induction a as [|a IH]; intro Ha.
  - simpl. split; [apply init_wf|]. split; [reflexivity|apply init_remaining].
  - destruct (IH ltac:(lia)) as (Hw & Hi & Hr).
    replace (S a * n) with (a * n + n) by lia. rewrite after_add.
    apply sweep_end; try assumption. lia.
Qed.

(* (1) the first n*max_it calls: sweep a hands out the roots in clusterisation order, with iter = a *)
Theorem q_nth_sweep a b :
  a < max_it -> b < n -> q_nth cl max_it (a * n + b) = Job (nth b flat 0) a.
Proof.
  intros Ha Hb. unfold q_nth. rewrite after_add.
  destruct (sweeps a ltac:(lia)) as (Hw & Hi & Hr).
  destruct (sweep_prefix a _ ltac:(lia) Hw Hi Hr b Hb) as (_ & _ & _ & H). exact H.
Qed.

Lemma none_next q : q_iter q = None -> next q = (JExcep, q).
Proof. intro H. unfold q_next. rewrite H. reflexivity. Qed.

Lemma none_after k q : q_iter q = None -> after k q = q.
Proof. revert q; induction k as [|k IH]; intros q H; simpl; [reflexivity|]. rewrite none_next by assumption. simpl. apply IH; assumption. Qed.

(* the last sweep (iter = max_it): jobs of the first cluster, then EXCEP is latched *)
Lemma last_sweep c : forall q,
  qwf q -> q_iter q = Some max_it -> q_cur q = c ->
  (forall k, k < length c ->
     (exists x, fst (next (after k q)) = Job x max_it) \/ fst (next (after k q)) = JExcep) /\
  q_iter (after (length c) q) = None.
Proof.
  induction c as [|i c' IH]; intros q [Hc Hr] Hi Hcur.
  - congruence.
  - destruct c' as [|i2 c''].
    + assert (Hn : next q = (JExcep, snd (next q)) /\ q_iter (snd (next q)) = None).
      { destruct q as [iter cur rest]; simpl in *. subst. unfold q_next; simpl.
        rewrite Nat.eqb_refl. destruct rest; simpl; split; reflexivity. }
      destruct Hn as [Hn1 Hn2]. split.
      * intros k Hk. simpl in Hk. assert (k = 0) by lia. subst k. simpl. right. rewrite Hn1. reflexivity.
      * simpl. assumption.
    + assert (Hn : fst (next q) = Job i max_it /\ qwf (snd (next q)) /\ q_iter (snd (next q)) = Some max_it /\
                   q_cur (snd (next q)) = i2 :: c'').
      { destruct q as [iter cur rest]; simpl in *. subst. unfold q_next; simpl.
        split; [reflexivity|]. split; [split; simpl; [discriminate|assumption]|]. split; reflexivity. }
      destruct Hn as (Hj & Hw' & Hi' & Hc').
      destruct (IH _ Hw' Hi' Hc') as [IH1 IH2]. split.
      * intros k Hk. destruct k as [|k]; simpl.
        -- left. exists i. assumption.
        -- apply IH1. simpl in Hk |- *. lia.
      * simpl. simpl in IH2. assumption.
Qed.

Lemma cur_le_n q : qwf q -> remaining q = flat -> length (q_cur q) <= n.
Proof. intros _ H. unfold n. rewrite <- H. unfold remaining. rewrite app_length. lia. Qed.

(* (2) from call n*max_it on only jobs with iter = max_it or EXCEP are returned *)
Theorem q_nth_tail k :
  n * max_it <= k -> (exists x, q_nth cl max_it k = Job x max_it) \/ q_nth cl max_it k = JExcep.
Proof.
  intro Hk. unfold q_nth.
  replace k with (max_it * n + (k - n * max_it)) by lia. rewrite after_add.
  destruct (sweeps max_it (le_n _)) as (Hw & Hi & Hr).
  set (q := after (max_it * n) (q_init cl)) in *.
  destruct (last_sweep (q_cur q) q Hw Hi eq_refl) as [H1 H2].
  set (d := k - n * max_it).
  destruct (Nat.lt_ge_cases d (length (q_cur q))) as [Hd|Hd].
  - apply H1. assumption.
  - right. replace d with (length (q_cur q) + (d - length (q_cur q))) by lia.
    rewrite after_add, none_after by assumption. rewrite none_next by assumption. reflexivity.
Qed.

(* (3) after n*(max_it+1) calls every call returns EXCEP *)
Theorem q_nth_excep k : n * (max_it + 1) <= k -> q_nth cl max_it k = JExcep.
Proof.
  intro Hk. unfold q_nth.
  destruct (sweeps max_it (le_n _)) as (Hw & Hi & Hr).
  set (q := after (max_it * n) (q_init cl)) in *.
  destruct (last_sweep (q_cur q) q Hw Hi eq_refl) as [_ H2].
  pose proof (cur_le_n q Hw Hr) as Hle.
  replace k with (max_it * n + (length (q_cur q) + (k - max_it * n - length (q_cur q)))) by lia.
  rewrite after_add. fold q. rewrite after_add, none_after by assumption.
  rewrite none_next by assumption. reflexivity.
Qed.

(* each (root, iter) pair with iter < max_it is handed out by exactly one call *)
Theorem q_each_once :
  NoDup flat ->
  (forall k1 k2 x it, it < max_it ->
     q_nth cl max_it k1 = Job x it -> q_nth cl max_it k2 = Job x it -> k1 = k2) /\
  (forall x it, In x flat -> it < max_it ->
     exists k, k < n * max_it /\ q_nth cl max_it k = Job x it).
Proof.
  intro Hnd. pose proof n_pos as Hn. split.
  - assert (Hloc : forall k x it, it < max_it -> q_nth cl max_it k = Job x it ->
                     k = it * n + (k mod n) /\ k mod n < n /\ nth (k mod n) flat 0 = x).
    { intros k x it Hit Hk.
      destruct (Nat.lt_ge_cases k (n * max_it)) as [Hlt|Hge].
      - assert (Hdm : k = (k / n) * n + k mod n) by (rewrite Nat.mul_comm; apply Nat.div_mod; lia).
        assert (Hb : k mod n < n) by (apply Nat.mod_upper_bound; lia).
        assert (Ha : k / n < max_it) by (apply Nat.div_lt_upper_bound; lia).
        rewrite Hdm in Hk. rewrite (q_nth_sweep _ _ Ha Hb) in Hk. inversion Hk; subst.
        split; [assumption|]. split; [assumption|reflexivity].
      - destruct (q_nth_tail k Hge) as [[y Hy]|Hy]; rewrite Hy in Hk; inversion Hk; lia. }
    intros k1 k2 x it Hit H1 H2.
    destruct (Hloc _ _ _ Hit H1) as (E1 & B1 & N1). destruct (Hloc _ _ _ Hit H2) as (E2 & B2 & N2).
    assert (k1 mod n = k2 mod n).
    { apply (proj1 (NoDup_nth flat 0) Hnd); fold n; try assumption. congruence. }
    lia.
  - intros x it Hin Hit. destruct (In_nth flat x 0 Hin) as (b & Hb & Hnth). fold n in Hb.
    exists (it * n + b). split; [nia|]. rewrite q_nth_sweep by assumption. congruence.
Qed.

(* the budget: every call that returns a real job decreases it; EXCEP never increases it *)
Lemma budget_step q :
  qwf q -> (forall it, q_iter q = Some it -> it <= max_it) ->
  qwf (snd (next q)) /\ (forall it, q_iter (snd (next q)) = Some it -> it <= max_it) /\
  match fst (next q) with
  | Job _ _ => q_budget n max_it (snd (next q)) < q_budget n max_it q
  | JExcep => q_budget n max_it (snd (next q)) <= q_budget n max_it q
  end.
Proof.
  intros Hw Hle. destruct (q_iter q) as [it|] eqn:Hi.
  - destruct (Nat.eq_dec it max_it) as [He|Hne].
    + (* last sweep *)
      destruct q as [iter cur rest]; simpl in *. subst iter it. destruct Hw as [Hc Hr]; simpl in *.
      unfold q_next, q_budget, remaining; simpl.
      destruct cur as [|i c']; [congruence|]. destruct c' as [|i2 c''].
      * rewrite Nat.eqb_refl. destruct rest as [|c r]; simpl.
        -- split; [split; simpl; [apply hd_nonempty|apply tl_nonempty]|]. split; [discriminate|lia].
        -- inversion Hr; subst. split; [split; simpl; assumption|]. split; [discriminate|lia].
      * simpl. split; [split; simpl; [discriminate|assumption]|]. split; [intros ? H; inversion H; lia|].
        rewrite !app_length. simpl. lia.
    + destruct (next_step q it Hw Hi Hne) as (x & xs & Hrem & Hj & Hw' & Hcase).
      split; [assumption|]. rewrite Hj.
      pose proof (Hle it eq_refl) as Hit.
      destruct Hcase as [(_ & Hi' & Hr')|(Hx & Hi' & Hr')].
      * split; [intros ? H; rewrite Hi' in H; inversion H; subst; assumption|].
        unfold q_budget. rewrite Hi, Hi', Hr', Hrem. simpl. lia.
      * split; [intros ? H; rewrite Hi' in H; inversion H; subst; lia|].
        unfold q_budget. rewrite Hi, Hi', Hr', Hrem. subst xs. fold n. simpl.
        assert (max_it - it = S (max_it - S it)) by lia. nia.
  - rewrite none_next by assumption. simpl. split; [assumption|]. split; [intros ? H; congruence|]. lia.
Qed.

End Props.

(* ---- non-vacuity: three clusters {2,0} {1} {3}, max_it = 2 ---- *)
Example ex_cl : list (list nat) := [[2; 0]; [1]; [3]].
Example ex_wf : wf_cl ex_cl.
Proof. split; [discriminate|]. repeat constructor; discriminate. Qed.
Example ex_trace :
  map (q_nth ex_cl 2) (seq 0 12) =
  [Job 2 0; Job 0 0; Job 1 0; Job 3 0;  Job 2 1; Job 0 1; Job 1 1; Job 3 1;  Job 2 2; JExcep; JExcep; JExcep].
Proof. reflexivity. Qed.
