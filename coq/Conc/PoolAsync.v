(* PoolAsync.v -- C06/C18: every task body is started at most once along any trace of the pool
   model, exactly once as soon as the task counts as executed (in particular when wait returns);
   corollary for the way mps_mpsolve_async uses the pool (one private pool, one task whose body is
   mps_caller = solve; callback).
   The body of a task is sequential code run by one thread between the events EStart t and EEnd t;
   [interp body tr] is the sequence of body events a trace produces. *)
Require Import List ZArith Bool Arith Lia Permutation.
Require Import MPSV.Conc.PoolModel MPSV.Conc.PoolLemmas MPSV.Conc.PoolProps.
Import ListNotations.

Definition lstart (l : label) : list task := match l with LEv _ (EStart t) => [t] | _ => [] end.
Definition starts_of (tr : list label) : list task := flat_map lstart tr.
Definition interp {A} (body : task -> list A) (tr : list label) : list A := flat_map body (starts_of tr).

(* tasks in the hands of a thread whose body has begun (the suspended callers of an inline nested assign
   have all begun) / has not begun yet *)
Definition wstarted (p : wpc) : list task :=
  match p with
  | WRunYield t st | WRunEnd t st | WAsgLock t _ st | WAsgSignal t st | WAsgUnlock t st | WAsgRet t st => t :: st
  | WRunStart _ st => st
  | _ => [] end.
Definition wunstarted (p : wpc) : list task :=
  match p with WRunUnlockQC t | WRunUnlockWC t | WRunStart t _ => [t] | WAsgLock _ t' _ => [t'] | _ => [] end.
Definition cstarted (p : cpc) : list task :=
  match p with
  | CInlYield t st | CInlEnd t st => t :: st
  | CInlStart _ st | CAsgLock _ st | CAsgSignal st | CAsgUnlock st | CAsgRet st => st
  | _ => [] end.
Definition cunstarted (p : cpc) : list task := match p with CInlStart t _ | CAsgLock t _ => [t] | _ => [] end.
Definition ws (x : worker) := wstarted (w_pc x).
Definition started (s : state) : list task := cstarted (pc0 s) ++ flat_map ws (workers s) ++ executed s.

Lemma cstarted_after_kills l a : cstarted (after_kills l a) = [].
Proof. destruct l; reflexivity. Qed.
Lemma cstarted_after_creates k a : cstarted (after_creates k a) = [].
Proof. destruct k; [destruct a|]; reflexivity. Qed.

Ltac ws_fact :=
  match goal with
  | E : nth_error (workers _) ?i = Some ?x, P : w_pc ?x = _ |- context [upd ?i ?y _] =>
      let F := fresh "F" in
      pose proof (flat_map_upd ws i x y _ E) as F; unfold ws at 1 3 in F; rewrite P in F; cbn in F
  end.

Lemma started_step s l s' : step s l = Some s' -> Permutation (started s') (lstart l ++ started s).
Proof.
  unfold started. intros H.
  break_step H; cbn -[Nat.sub] in *; rewrite ?cstarted_after_kills, ?cstarted_after_creates;
    repeat match goal with C : pc0 _ = _ |- _ => rewrite C in *; cbn -[Nat.sub] in * end.
  all: try reflexivity.
  all: try solve [ match goal with E : nth_error (workers _) ?i = Some ?x, P : w_pc ?x = _ |- _ =>
                     rewrite (flat_map_upd_same ws i x) by (auto; unfold ws; cbn; rewrite P; reflexivity); reflexivity end ].
  all: try solve [ match goal with E : nth_error (workers _) ?i = Some ?x |- _ =>
                     rewrite (flat_map_upd_same ws i x) by (auto; unfold ws; cbn; reflexivity); reflexivity end ].
  all: try solve [ rewrite flat_map_app; cbn; rewrite app_nil_r; reflexivity ].
  all: try solve [ ws_fact; rewrite <- F; cbn; apply Permutation_app_head; symmetry; apply Permutation_middle ].
  all: try solve [ ws_fact; rewrite F; reflexivity ].
  all: try solve [ apply Permutation_app_head; symmetry; apply Permutation_middle ].
  all: try solve [ symmetry; apply Permutation_middle ].
  all: try solve [ ws_fact; rewrite F; cbn; symmetry; apply Permutation_middle ].
  all: try solve [ pcount ].
  all: try solve [ ws_fact; pcount ].
Qed.

Lemma started_run tr : forall s s', run s tr = Some s' -> Permutation (started s') (starts_of tr ++ started s).
Proof.
  induction tr as [|l r IH]; intros s s' H; simpl in H.
  - inversion H; subst. reflexivity.
  - unfold bind in H. destruct (step s l) as [s1|] eqn:E; try discriminate.
    rewrite (IH _ _ H). rewrite (started_step _ _ _ E). unfold starts_of. cbn.
    rewrite <- !app_assoc. rewrite (app_assoc (flat_map lstart r)). rewrite (app_assoc (lstart l)).
    apply Permutation_app_tail. apply Permutation_app_comm.
Qed.

Lemma flat_map_split {A B} (f g h : A -> list B) l :
  (forall x, f x = g x ++ h x) -> Permutation (flat_map f l) (flat_map g l ++ flat_map h l).
Proof.
  intros E. induction l as [|a l IH]; cbn; auto. rewrite E, IH.
  rewrite <- !app_assoc. apply Permutation_app_head. rewrite !app_assoc. apply Permutation_app_tail.
  apply Permutation_app_comm.
Qed.

(* the started tasks are part of the tasks in flight: no duplicates, all of them handed over *)
Lemma started_sub tr s :
  run init tr = Some s ->
  exists rest, Permutation (assigned s) (rest ++ started s).
Proof.
  intros H. pose proof (pool_conservation tr s H) as P.
  exists (cunstarted (pc0 s) ++ queue s ++ flat_map (fun x => wunstarted (w_pc x)) (workers s)).
  rewrite P. unfold pending, started, running.
  assert (C : ctask (pc0 s) = cunstarted (pc0 s) ++ cstarted (pc0 s)) by (destruct (pc0 s); reflexivity).
  rewrite C.
  rewrite (flat_map_split (fun x => wtask (w_pc x)) (fun x => wunstarted (w_pc x)) ws (workers s))
    by (intros x; unfold ws; destruct (w_pc x); reflexivity).
  rewrite <- !app_assoc. apply Permutation_app_head.
  rewrite !app_assoc. apply Permutation_app_tail.
  rewrite <- !app_assoc.
  rewrite (Permutation_app_comm (cstarted (pc0 s))). rewrite <- !app_assoc. apply Permutation_app_head.
  apply Permutation_app_head. apply Permutation_app_comm.
Qed.

Lemma NoDup_app_r {A} (l1 l2 : list A) : NoDup (l1 ++ l2) -> NoDup l2.
Proof. induction l1; cbn; auto. intros H. inversion H; auto. Qed.

Lemma starts_nodup tr s : run init tr = Some s -> NoDup (starts_of tr) /\ incl (starts_of tr) (assigned s).
Proof.
  intros H. destruct (started_sub tr s H) as [rest P].
  pose proof (started_run tr init s H) as Q. cbn in Q. rewrite app_nil_r in Q.
  assert (ND : NoDup (assigned s)).
  { pose proof (pool_at_most_once tr s H) as N. eapply Permutation_NoDup; [symmetry; apply (pool_conservation tr s H) | exact N]. }
  split.
  - eapply Permutation_NoDup; [exact Q|]. eapply NoDup_app_r. eapply Permutation_NoDup; [exact P | exact ND].
  - intros t I. eapply Permutation_in; [symmetry; exact P|]. apply in_app_iff. right.
    eapply Permutation_in; [symmetry; exact Q | exact I].
Qed.

(* at most once, for every task of every trace; exactly once when the task counts as executed *)
Theorem pool_body_at_most_once tr s t :
  run init tr = Some s -> (count_occ Nat.eq_dec (starts_of tr) t <= 1)%nat.
Proof.
  intros H. destruct (starts_nodup tr s H) as [N _].
  rewrite (NoDup_count_occ Nat.eq_dec) in N. apply N.
Qed.

Theorem pool_body_exactly_once tr s t :
  run init tr = Some s -> In t (executed s) -> count_occ Nat.eq_dec (starts_of tr) t = 1%nat.
Proof.
  intros H I. pose proof (pool_body_at_most_once tr s t H) as L.
  assert (In t (starts_of tr)).
  { pose proof (started_run tr init s H) as Q. cbn in Q. rewrite app_nil_r in Q.
    eapply Permutation_in; [exact Q|]. unfold started. rewrite !in_app_iff. auto. }
  apply (count_occ_In Nat.eq_dec) in H0. lia.
Qed.

Lemma nodup_incl_single (l : list nat) t : NoDup l -> incl l [t] -> l = [] \/ l = [t].
Proof.
  intros N I. destruct l as [|a [|b r]]; auto.
  - right. destruct (I a (or_introl eq_refl)) as [<-|[]]. reflexivity.
  - exfalso. destruct (I a (or_introl eq_refl)) as [<-|[]].
    destruct (I b (or_intror (or_introl eq_refl))) as [<-|[]].
    inversion N; subst. apply H1. left; reflexivity.
Qed.

(* mps_mpsolve_async: a private pool to which exactly one task t is handed (whatever its size and
   strict_async setting).  The events produced by the task body appear never or once, as one block in
   the body's own order; they have appeared once t is executed, in particular when a wait returns. *)
Theorem pool_async_once {A} (body : task -> list A) tr s t :
  run init tr = Some s -> assigned s = [t] ->
  (interp body tr = [] \/ interp body tr = body t) /\
  (In t (executed s) -> interp body tr = body t) /\
  (pc0 s = CRet EWaitRet -> interp body tr = body t).
Proof.
  intros H AS. destruct (starts_nodup tr s H) as [N I]. rewrite AS in I.
  destruct (nodup_incl_single _ t N I) as [E|E].
  - assert (X : In t (executed s) -> False).
    { intros IE. pose proof (pool_body_exactly_once tr s t H IE) as C. rewrite E in C. discriminate. }
    unfold interp. rewrite E. cbn. split; [left; reflexivity|]. split; [intros IE; destruct (X IE)|].
    intros PC. exfalso. apply X. destruct (pool_wait_barrier tr s H PC) as (_ & _ & _ & B). apply B. rewrite AS. left; reflexivity.
  - unfold interp. rewrite E. cbn. rewrite app_nil_r. auto.
Qed.

(* the scenario exists: one worker, strict_async, one task, executed by the worker, then wait returns *)
Definition example_async : list label :=
  [ LEv 0 (ENew 1); LCreate 0 1; LLock 0 WC; LUnlock 0 WC; LCont 0; LEv 0 ENewRet;
    LEv 0 (EStrict true);
    LEv 0 (EAssign 7); LLock 0 QC; LSignal 0 QC None; LUnlock 0 QC; LCont 0; LEv 0 EAssignRet;
    LEv 0 EWait; LLock 0 WC; LCWait 0 WC;
    LBegin 1; LTau 1; LLock 1 WC; LLock 1 QC; LUnlock 1 QC; LCont 1; LUnlock 1 WC; LCont 1;
    LEv 1 (EStart 7); LYield 1; LEv 1 (EEnd 7); LTau 1; LLock 1 WC; LLock 1 QC;
    LSignal 1 WC (Some 0); LUnlock 1 WC; LCont 1; LCWait 1 QC;
    LCWake 0 WC false; LUnlock 0 WC; LCont 0 ]%nat.
