(* PoolLemmas.v -- list lemmas and the case-splitting tactic used by PoolProps.v *)
Require Import List ZArith Bool Arith Lia Permutation.
Require Import MPSV.Conc.PoolModel.
Import ListNotations.

Lemma upd_length {A} i (y : A) l : length (upd i y l) = length l.
Proof. revert i; induction l; intros [|i]; simpl; auto. Qed.

Lemma upd_nth_same {A} i (x y : A) l : nth_error l i = Some x -> nth_error (upd i y l) i = Some y.
Proof. revert i; induction l; intros [|i] H; simpl in *; try discriminate; auto. Qed.

Lemma upd_nth_other {A} i j (y : A) l : i <> j -> nth_error (upd i y l) j = nth_error l j.
Proof. revert i j; induction l; intros [|i] [|j] H; simpl; auto; try congruence. Qed.

Lemma upd_nth_inv {A} i j (y z : A) l :
  nth_error (upd i y l) j = Some z -> (i = j /\ z = y) \/ (i <> j /\ nth_error l j = Some z).
Proof.
  intros H. destruct (Nat.eq_dec i j) as [->|N].
  - left; split; auto. destruct (nth_error l j) eqn:E.
    + rewrite (upd_nth_same _ _ _ _ E) in H; congruence.
    + exfalso. apply nth_error_None in E. assert (nth_error (upd j y l) j = None) by (apply nth_error_None; rewrite upd_length; auto). congruence.
  - right; split; auto. rewrite upd_nth_other in H; auto.
Qed.

Lemma flat_map_upd {A B} (f : A -> list B) i x y l :
  nth_error l i = Some x -> Permutation (f x ++ flat_map f (upd i y l)) (f y ++ flat_map f l).
Proof.
  revert i; induction l as [|a l IH]; intros [|i] H; simpl in *; try discriminate.
  - inversion H; subst. apply Permutation_app_swap_app.
  - specialize (IH _ H).
    rewrite (Permutation_app_swap_app (f x) (f a)). rewrite IH. apply Permutation_app_swap_app.
Qed.

Lemma flat_map_upd_same {A B} (f : A -> list B) i x y l :
  nth_error l i = Some x -> f y = f x -> Permutation (flat_map f (upd i y l)) (flat_map f l).
Proof. intros H E. apply (Permutation_app_inv_l (f x)). rewrite (flat_map_upd f i x y l H), E. reflexivity. Qed.

Lemma filter_upd_len {A} (p : A -> bool) i x y l :
  nth_error l i = Some x ->
  (length (filter p (upd i y l)) + (if p x then 1 else 0) = length (filter p l) + (if p y then 1 else 0))%nat.
Proof.
  revert i; induction l as [|a l IH]; intros [|i] H; simpl in *; try discriminate.
  - inversion H; subst. destruct (p x), (p y); simpl; lia.
  - specialize (IH _ H). destruct (p a); simpl; lia.
Qed.

Lemma Forall_upd {A} (P : A -> Prop) i y l : Forall P l -> P y -> Forall P (upd i y l).
Proof. intros H; revert i; induction H; intros [|i] Py; simpl; constructor; auto. Qed.

Lemma Forall_nth_error {A} (P : A -> Prop) l i x : Forall P l -> nth_error l i = Some x -> P x.
Proof. intros H E. rewrite Forall_forall in H. apply H. eapply nth_error_In; eauto. Qed.

Lemma in_flat_map_nth {A B} (f : A -> list B) l i x b : nth_error l i = Some x -> In b (f x) -> In b (flat_map f l).
Proof. intros H I. apply in_flat_map. exists x; split; auto. eapply nth_error_In; eauto. Qed.

Lemma mem_true x l : mem x l = true <-> In x l.
Proof.
  unfold mem. rewrite existsb_exists. split.
  - intros [y [I E]]. apply Nat.eqb_eq in E; subst; auto.
  - intros I. exists x; split; auto. apply Nat.eqb_refl.
Qed.
Lemma mem_false x l : mem x l = false <-> ~ In x l.
Proof. rewrite <- mem_true. destruct (mem x l); split; congruence. Qed.

(* multiset equalities by occurrence counting: every Permutation hypothesis and the goal become
   equations between occurrence counts of an arbitrary element, solved by lia *)
Ltac pcount :=
  let z := fresh "z" in
  apply (Permutation_count_occ Nat.eq_dec); intro z;
  repeat match goal with
         | H : Permutation _ _ |- _ =>
             let H' := fresh "PC" in pose proof (proj1 (Permutation_count_occ Nat.eq_dec _ _) H z) as H'; clear H
         end;
  rewrite ?count_occ_app in *; cbn [count_occ] in *; rewrite ?count_occ_app in *; cbn [count_occ] in *;
  repeat match goal with
         | |- context [Nat.eq_dec ?a z] => destruct (Nat.eq_dec a z)
         | H : context [Nat.eq_dec ?a z] |- _ => destruct (Nat.eq_dec a z)
         end; lia.

(* case split of  step s l = Some s'  into one goal per transition of the model *)
Ltac break_match H :=
  repeat (match type of H with
          | context [match ?x with _ => _ end] => destruct x eqn:?; try discriminate H
          end).
Ltac break_step H :=
  unfold step, step_d in H;
  match type of H with context [label_tid ?l] => destruct l end;
  cbn [label_tid is_cont] in H;
  unfold cstep, wstep, lock, unlock, cwait, cwake, signal, bcast, wait_check, bind in H;
  break_match H;
  inversion H; subst; clear H;
  unfold get_w in *;
  repeat match goal with
         | E : ?lhs = Some _ |- _ =>
             match lhs with
             | context [match _ with _ => _ end] => break_match E; inversion E; subst; clear E
             end
         end;
  repeat match goal with
         | E : Nat.eqb _ _ = true |- _ => apply Nat.eqb_eq in E; subst
         end.
