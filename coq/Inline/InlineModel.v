(* C11 -- inline expressions: executable model (definitions only).

   Anchors in /repo:
     src/libmps/monomial/tokenizer.l        -> [lex]
     src/libmps/monomial/yacc-parser.y      -> grammar data in Gen/GrammarGen.v, actions -> [fp_denote]
     src/libmps/formal/formal-monomial.cpp  -> [mono], [mono_neg], [mono_mul]
     src/libmps/formal/formal-polynomial.cpp-> [fp_add_mono], [fp_add], [fp_sub], [fp_mul], [fp_pow]

   Reference side (what the property text says):
     [expr], [denote] (polynomial of ordinary algebra over the Gaussian rationals),
     [parse_ref] (precedence climbing: power > unary minus > product > sum, left assoc.),
     [print_full] / [print] (fully / minimally parenthesised printers).

   Decisions about the language of the property (documented, also in checks/C11.py):
     * a number token is what tokenizer.l calls RATIONAL or FLOATING_POINT (longest match);
       "1/2" is ONE token (a rational constant); '/' is not an operator.
     * an imaginary constant is a number token followed by exactly one 'i'.
     * an exponent is an integer literal (digits only).  "x^1/2", "x^1.5", "x^2i", "x^-2",
       "x^(2)" are ill-formed.  "x^2^3" is well formed and means (x^2)^3: the exponent of
       the second '^' is the literal 3 and its base is everything that binds tighter,
       i.e. '^k' is a postfix operator.
     * unary minus may start any operand of a product or sum ("2*-x", "x--x", "--x").
     * any character outside the token set makes the expression ill-formed; a rational
       with zero denominator is ill-formed.
     * the tokenizer knows six spellings of the variable, [xXzZyY]; the grammar action maps every one
       of them to the monomial x, so "x*Y" is x^2 (the model follows the code; round 6). *)
Require Import List ZArith NArith QArith Qcanon Ascii String Bool Arith.
Import ListNotations.
Open Scope list_scope.
Open Scope Qc_scope.
Notation length := List.length.

(* ------------------------------------------------------------------ Gaussian rationals *)
Record C : Set := mkC { re : Qc; im : Qc }.
Definition C0 : C := mkC 0 0.
Definition C1 : C := mkC 1 0.
Definition Ci : C := mkC 0 1.
Definition Cadd (a b : C) : C := mkC (re a + re b) (im a + im b).
Definition Copp (a : C) : C := mkC (- re a) (- im a).
Definition Csub (a b : C) : C := mkC (re a - re b) (im a - im b).
Definition Cmul (a b : C) : C := mkC (re a * re b - im a * im b) (im a * re b + re a * im b).
Definition Qc_is0 (q : Qc) : bool := if Qc_eq_dec q 0 then true else false.
Definition Cis0 (a : C) : bool := Qc_is0 (re a) && Qc_is0 (im a).
Fixpoint Cpow (a : C) (k : nat) : C := match k with O => C1 | S k' => Cmul a (Cpow a k') end.
Definition CofQ (n : N) (d : positive) : C := mkC (Q2Qc (Z.of_N n # d)) 0.

(* ------------------------------------------------------------------ reference polynomials *)
Definition poly := list C.       (* index = degree *)

Fixpoint eval (p : poly) (x : C) : C :=
  match p with nil => C0 | a :: p' => Cadd a (Cmul x (eval p' x)) end.

Fixpoint padd (p q : poly) : poly :=
  match p, q with
  | nil, _ => q
  | _, nil => p
  | a :: p', b :: q' => Cadd a b :: padd p' q'
  end.
Definition pscale (c : C) (p : poly) : poly := map (Cmul c) p.
Definition popp (p : poly) : poly := map Copp p.
Definition psub (p q : poly) : poly := padd p (popp q).
Fixpoint pmul (p q : poly) : poly :=
  match p with nil => nil | a :: p' => padd (pscale a q) (C0 :: pmul p' q) end.
Fixpoint ppow (p : poly) (k : nat) : poly :=
  match k with O => [C1] | S k' => pmul p (ppow p k') end.

(* strip trailing zeros; the zero polynomial is [nil] *)
Fixpoint strip (p : poly) : poly :=
  match p with
  | nil => nil
  | a :: p' => match strip p' with
               | nil => if Cis0 a then nil else [a]
               | s => a :: s
               end
  end.
Definition normalised (p : poly) : Prop := strip p = p.

(* ------------------------------------------------------------------ expressions *)
(* A numeric leaf is a non-negative rational n/d as written, possibly times i. *)
Inductive expr : Set :=
| X : expr
| Num : N -> positive -> bool -> expr        (* n, d, imaginary? *)
| Add : expr -> expr -> expr
| Sub : expr -> expr -> expr
| Mul : expr -> expr -> expr
| Neg : expr -> expr
| Pow : expr -> nat -> expr.

Definition num_val (n : N) (d : positive) (imag : bool) : C :=
  if imag then Cmul Ci (CofQ n d) else CofQ n d.

(* value of an expression at a point of the coefficient ring: ordinary algebra *)
Fixpoint eval_expr (e : expr) (x : C) : C :=
  match e with
  | X => x
  | Num n d b => num_val n d b
  | Add a b => Cadd (eval_expr a x) (eval_expr b x)
  | Sub a b => Csub (eval_expr a x) (eval_expr b x)
  | Mul a b => Cmul (eval_expr a x) (eval_expr b x)
  | Neg a => Copp (eval_expr a x)
  | Pow a k => Cpow (eval_expr a x) k
  end.

Fixpoint draw (e : expr) : poly :=
  match e with
  | X => [C0; C1]
  | Num n d b => [num_val n d b]
  | Add a b => padd (draw a) (draw b)
  | Sub a b => psub (draw a) (draw b)
  | Mul a b => pmul (draw a) (draw b)
  | Neg a => popp (draw a)
  | Pow a k => ppow (draw a) k
  end.
Definition denote (e : expr) : poly := strip (draw e).

(* ------------------------------------------------------------------ tokens *)
Inductive token : Set :=
| TX | TNum (n : N) (d : positive) (intlit : bool) | TI
| TPlus | TMinus | TTimes | TPow | TLP | TRP.

(* ------------------------------------------------------------------ tokenizer.l *)
Definition is_digit (c : ascii) : bool :=
  let n := nat_of_ascii c in (48 <=? n)%nat && (n <=? 57)%nat.
Definition digit_val (c : ascii) : N := N.of_nat (nat_of_ascii c - 48).
Definition digits_val (ds : list ascii) : N :=
  fold_left (fun a c => (a * 10 + digit_val c)%N) ds 0%N.
Fixpoint span_digits (s : list ascii) : list ascii * list ascii :=
  match s with
  | c :: r => if is_digit c then let (d, r') := span_digits r in (c :: d, r') else (nil, s)
  | nil => (nil, nil)
  end.
Definition pow10 (k : nat) : positive := Pos.pow 10 (Pos.of_nat k).
Definition pow10' (k : nat) : positive := match k with O => 1%positive | _ => pow10 k end.
Definition is_e (c : ascii) : bool := (nat_of_ascii c =? 101)%nat || (nat_of_ascii c =? 69)%nat.

(* tokenizer.l: [xXzZyY] -> MONOMIAL; the grammar action gives every one of them the meaning "the variable" *)
Definition is_var (n : nat) : bool :=
  (n =? 120)%nat || (n =? 88)%nat || (n =? 122)%nat || (n =? 90)%nat || (n =? 121)%nat || (n =? 89)%nat.

(* optional exponent part [eE][+-]?[0-9]+ : returns (negative?, digits, rest) *)
Definition lex_exp (s : list ascii) : option (bool * list ascii * list ascii) :=
  match s with
  | c :: r =>
    if is_e c then
      match r with
      | sg :: r1 =>
        if (nat_of_ascii sg =? 43)%nat || (nat_of_ascii sg =? 45)%nat then
          match span_digits r1 with
          | (nil, _) => None
          | (ds, r2) => Some ((nat_of_ascii sg =? 45)%nat, ds, r2)
          end
        else match span_digits r with
             | (nil, _) => None
             | (ds, r2) => Some (false, ds, r2)
             end
      | nil => None
      end
    else None
  | nil => None
  end.

(* mantissa digits [m], [fl] fractional digits, optional exponent -> token *)
Definition fp_token (m : list ascii) (fl : nat) (ex : option (bool * list ascii)) : token :=
  let mant := digits_val m in
  match ex with
  | None => TNum mant (pow10' fl) false
  | Some (neg, eds) =>
    let e := N.to_nat (digits_val eds) in
    if neg then TNum mant (pow10' fl * pow10' e) false
    else TNum (mant * Npos (pow10' e)) (pow10' fl) false
  end.

(* a number starting at a digit: longest match of RATIONAL | FLOATING_POINT, RATIONAL on ties.
   None = zero denominator (not a rational constant). *)
Definition lex_number (s : list ascii) : option (token * list ascii) :=
  let (d1, r) := span_digits s in
  match r with
  | c :: r1 =>
    if (nat_of_ascii c =? 47)%nat then                        (* '/' *)
      match span_digits r1 with
      | (nil, _) => Some (TNum (digits_val d1) 1 true, r)       (* "12" then a stray '/' *)
      | (d2, r2) => match digits_val d2 with
                    | N0 => None
                    | Npos dd => Some (TNum (digits_val d1) dd false, r2)
                    end
      end
    else if (nat_of_ascii c =? 46)%nat then                   (* '.' *)
      let (fr, r2) := span_digits r1 in
      match lex_exp r2 with
      | Some (neg, eds, r3) => Some (fp_token (d1 ++ fr) (length fr) (Some (neg, eds)), r3)
      | None => Some (fp_token (d1 ++ fr) (length fr) None, r2)
      end
    else match lex_exp r with
         | Some (neg, eds, r3) => Some (fp_token d1 0 (Some (neg, eds)), r3)
         | None => Some (TNum (digits_val d1) 1 true, r)
         end
  | nil => Some (TNum (digits_val d1) 1 true, nil)
  end.

Fixpoint lex_fuel (fuel : nat) (s : list ascii) : option (list token) :=
  match fuel with
  | O => None
  | S f =>
    match s with
    | nil => Some nil
    | c :: r =>
      let n := nat_of_ascii c in
      let cons t := match lex_fuel f r with Some ts => Some (t :: ts) | None => None end in
      if is_digit c then
        match lex_number s with
        | Some (t, r') => match lex_fuel f r' with Some ts => Some (t :: ts) | None => None end
        | None => None
        end
      else if is_var n then cons TX                            (* [xXzZyY]: the six spellings of the variable *)
      else if (n =? 43)%nat then cons TPlus
      else if (n =? 45)%nat then cons TMinus
      else if (n =? 105)%nat then cons TI
      else if (n =? 40)%nat then cons TLP
      else if (n =? 41)%nat then cons TRP
      else if (n =? 42)%nat then cons TTimes
      else if (n =? 94)%nat then cons TPow
      else if (n =? 32)%nat || (n =? 9)%nat then lex_fuel f r   (* [ \t]+ skipped *)
      else None                                               (* not a character of the language *)
    end
  end.
Definition lex (s : string) : option (list token) :=
  let l := list_ascii_of_string s in lex_fuel (S (length l)) l.

(* ------------------------------------------------------------------ reference parser *)
(* sum ::= prod (('+'|'-') prod)*      prod ::= unary ('*' unary)*
   unary ::= '-' unary | power         power ::= atom ('^' INT)*
   atom ::= x | NUM | NUM i | '(' sum ')' *)
Fixpoint parse_sum (f : nat) (ts : list token) {struct f} : option (expr * list token) :=
  match f with O => None | S f' =>
    match parse_prod f' ts with
    | Some (e, r) => sum_loop f' e r
    | None => None
    end
  end
with sum_loop (f : nat) (acc : expr) (ts : list token) {struct f} : option (expr * list token) :=
  match f with O => None | S f' =>
    match ts with
    | TPlus :: r => match parse_prod f' r with
                    | Some (e, r') => sum_loop f' (Add acc e) r'
                    | None => None end
    | TMinus :: r => match parse_prod f' r with
                     | Some (e, r') => sum_loop f' (Sub acc e) r'
                     | None => None end
    | _ => Some (acc, ts)
    end
  end
with parse_prod (f : nat) (ts : list token) {struct f} : option (expr * list token) :=
  match f with O => None | S f' =>
    match parse_unary f' ts with
    | Some (e, r) => prod_loop f' e r
    | None => None
    end
  end
with prod_loop (f : nat) (acc : expr) (ts : list token) {struct f} : option (expr * list token) :=
  match f with O => None | S f' =>
    match ts with
    | TTimes :: r => match parse_unary f' r with
                     | Some (e, r') => prod_loop f' (Mul acc e) r'
                     | None => None end
    | _ => Some (acc, ts)
    end
  end
with parse_unary (f : nat) (ts : list token) {struct f} : option (expr * list token) :=
  match f with O => None | S f' =>
    match ts with
    | TMinus :: r => match parse_unary f' r with
                     | Some (e, r') => Some (Neg e, r')
                     | None => None end
    | _ => match parse_atom f' ts with
           | Some (e, r) => pow_loop f' e r
           | None => None end
    end
  end
with pow_loop (f : nat) (acc : expr) (ts : list token) {struct f} : option (expr * list token) :=
  match f with O => None | S f' =>
    match ts with
    | TPow :: TNum k xH true :: r => pow_loop f' (Pow acc (N.to_nat k)) r
    | TPow :: _ => None
    | _ => Some (acc, ts)
    end
  end
with parse_atom (f : nat) (ts : list token) {struct f} : option (expr * list token) :=
  match f with O => None | S f' =>
    match ts with
    | TX :: r => Some (X, r)
    | TNum n d _ :: TI :: r => Some (Num n d true, r)
    | TNum n d _ :: r => Some (Num n d false, r)
    | TLP :: r => match parse_sum f' r with
                  | Some (e, TRP :: r') => Some (e, r')
                  | _ => None end
    | _ => None
    end
  end.

(* enough fuel: every call consumes a token or descends one of 6 levels *)
Definition parse_fuel (ts : list token) : nat := 8 * length ts + 8.
Definition parse_ref (ts : list token) : option expr :=
  match parse_sum (parse_fuel ts) ts with
  | Some (e, nil) => Some e
  | _ => None
  end.

(* ------------------------------------------------------------------ printers *)
Definition num_tokens (n : N) (d : positive) (imag : bool) : list token :=
  TNum n d (Pos.eqb d 1) :: (if imag then [TI] else []).

(* fully parenthesised: every compound sub-expression is wrapped *)
Fixpoint print_full (e : expr) : list token :=
  match e with
  | X => [TX]
  | Num n d b => num_tokens n d b
  | Add a b => TLP :: print_full a ++ TPlus :: print_full b ++ [TRP]
  | Sub a b => TLP :: print_full a ++ TMinus :: print_full b ++ [TRP]
  | Mul a b => TLP :: print_full a ++ TTimes :: print_full b ++ [TRP]
  | Neg a => TLP :: TMinus :: print_full a ++ [TRP]
  | Pow a k => TLP :: print_full a ++ [TPow; TNum (N.of_nat k) 1 true; TRP]
  end.

(* minimal parentheses.  Levels: 0 sum, 1 product, 2 unary, 3 power/atom.
   [print_at l e] prints e so that it can stand where an operand of level l is expected. *)
Definition level (e : expr) : nat :=
  match e with
  | Add _ _ | Sub _ _ => 0 | Mul _ _ => 1 | Neg _ => 2 | _ => 3
  end.
Definition paren (b : bool) (ts : list token) : list token :=
  if b then TLP :: ts ++ [TRP] else ts.
Fixpoint print_at (l : nat) (e : expr) : list token :=
  paren (level e <? l)%nat
    match e with
    | X => [TX]
    | Num n d b => num_tokens n d b
    | Add a b => print_at 0 a ++ TPlus :: print_at 1 b
    | Sub a b => print_at 0 a ++ TMinus :: print_at 1 b
    | Mul a b => print_at 1 a ++ TTimes :: print_at 2 b
    | Neg a => TMinus :: print_at 2 a
    | Pow a k => print_at 3 a ++ [TPow; TNum (N.of_nat k) 1 true]
    end.
Definition print (e : expr) : list token := print_at 0 e.

(* ------------------------------------------------------------------ mps::formal (as coded) *)
(* Monomial: coefficient and its own degree field (formal-monomial.cpp) *)
Record mono : Set := mkM { mc : C; md : nat }.
Definition mono0 : mono := mkM C0 0.                       (* Monomial() and Monomial("0",0) *)
Definition mono_is0 (m : mono) : bool := Cis0 (mc m).
Definition mono_neg (m : mono) : mono := mkM (Copp (mc m)) (md m).
Definition mono_mul (a b : mono) : mono := mkM (Cmul (mc a) (mc b)) (md a + md b).

Definition fpoly := list mono.                             (* mMonomials; index = position *)
Definition fdeg (p : fpoly) : nat := length p - 1.         (* degree() = size() - 1 *)
Definition resize (n : nat) (p : fpoly) : fpoly := firstn n p ++ repeat mono0 (n - length p).
Fixpoint set_nth (i : nat) (m : mono) (p : fpoly) : fpoly :=
  match p, i with
  | nil, _ => nil
  | _ :: p', O => m :: p'
  | a :: p', S i' => a :: set_nth i' m p'
  end.
(* while (mMonomials[degree()].isZero() && degree() > 0) mMonomials.resize(degree()); *)
Fixpoint trim_loop (fuel : nat) (p : fpoly) : fpoly :=
  match fuel with
  | O => p
  | S f => if mono_is0 (last p mono0) && (0 <? fdeg p)%nat then trim_loop f (removelast p) else p
  end.
(* Polynomial::operator+=(const Monomial&) *)
Definition fp_add_mono (p : fpoly) (m : mono) : fpoly :=
  let d := md m in
  let p1 :=
    if (d <=? fdeg p)%nat then
      let cur := nth d p mono0 in
      if mono_is0 cur then set_nth d m p
      else set_nth d (mkM (Cadd (mc cur) (mc m)) d) p
    else set_nth d m (resize (d + 1) p) in
  trim_loop (length p1) p1.
(* Polynomial(Monomial m) *)
Definition fp_of_mono (m : mono) : fpoly := set_nth (md m) m (repeat mono0 (md m + 1)).
(* operator+=(const Polynomial&), operator-=(const Polynomial&): monomial by monomial, i = 0..deg *)
Definition fp_add (p q : fpoly) : fpoly := fold_left fp_add_mono q p.
Definition fp_sub (p q : fpoly) : fpoly := fold_left (fun acc m => fp_add_mono acc (mono_neg m)) q p.
(* operator*: result = Polynomial() = [0]; for i in 0..deg+deg', j in max(0,i-deg)..min(deg',i) *)
Definition fp_mul (p q : fpoly) : fpoly :=
  fold_left (fun acc i =>
    fold_left (fun acc j =>
                 if ((i - fdeg p <=? j) && (j <=? Nat.min (fdeg q) i))%nat
                 then fp_add_mono acc (mono_mul (nth (i - j) p mono0) (nth j q mono0))
                 else acc)
              (seq 0 (S (fdeg q))) acc)
    (seq 0 (S (fdeg p + fdeg q))) [mono0].
(* grammar action of "polynomial SUPERSCRIPT number": p = 1; repeat exp times p *= $1 *)
Fixpoint fp_pow_loop (k : nat) (acc b : fpoly) : fpoly :=
  match k with O => acc | S k' => fp_pow_loop k' (fp_mul acc b) b end.
Definition fp_pow (b : fpoly) (k : nat) : fpoly := fp_pow_loop k (fp_of_mono (mkM C1 0)) b.
(* action of the (patched) rule "MINUS polynomial": 0 - p *)
Definition fp_neg (p : fpoly) : fpoly := fp_sub (fp_of_mono mono0) p.

(* the semantic actions of the grammar applied along an AST *)
Fixpoint fp_denote (e : expr) : fpoly :=
  match e with
  | X => fp_of_mono (mkM C1 1)
  | Num n d b => fp_of_mono (mkM (num_val n d b) 0)
  | Add a b => fp_add (fp_denote a) (fp_denote b)
  | Sub a b => fp_sub (fp_denote a) (fp_denote b)
  | Mul a b => fp_mul (fp_denote a) (fp_denote b)
  | Neg a => fp_neg (fp_denote a)
  | Pow a k => fp_pow (fp_denote a) k
  end.

Definition fp_coeffs (p : fpoly) : poly := map mc p.
Definition fp_eval (p : fpoly) (x : C) : C := eval (fp_coeffs p) x.
(* every non-zero entry carries its own index as degree (what += and * rely on) *)
Definition fp_ok (p : fpoly) : Prop :=
  p <> nil /\ forall i, (i < length p)%nat -> mono_is0 (nth i p mono0) = false -> md (nth i p mono0) = i.
(* normal form of the C++ class: no trailing zero except for the constant polynomial *)
Definition fp_normal (p : fpoly) : Prop :=
  p <> nil /\ (length p = 1%nat \/ mono_is0 (last p mono0) = false).

(* ------------------------------------------------------------------ driver entry points *)
Definition coeff_out (c : C) : (Z * positive) * (Z * positive) :=
  ((Qnum (this (re c)), Qden (this (re c))), (Qnum (this (im c)), Qden (this (im c)))).
(* None = rejected.  Some (reference coefficients, formal-model coefficients) *)
Definition run_string (s : string)
  : option (list ((Z * positive) * (Z * positive)) * list ((Z * positive) * (Z * positive))) :=
  match lex s with
  | None => None
  | Some ts => match parse_ref ts with
               | None => None
               | Some e => Some (map coeff_out (denote e), map coeff_out (fp_coeffs (fp_denote e)))
               end
  end.
