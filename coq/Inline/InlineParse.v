(* C11 -- the reference parser: unfolding equations, round trip on the fully parenthesised
   printer (exact, for every AST). *)
Require Import List ZArith NArith Bool Arith Lia.
Require Import MPSV.Inline.InlineModel.
Import ListNotations.

(* ------------------------------------------------------------------ unfolding equations *)
Lemma parse_sum_S : forall f ts, parse_sum (S f) ts =
  match parse_prod f ts with Some (e, r) => sum_loop f e r | None => None end.
Proof. reflexivity. Qed.
Lemma sum_loop_S : forall f acc ts, sum_loop (S f) acc ts =
  match ts with
  | TPlus :: r => match parse_prod f r with Some (e, r') => sum_loop f (Add acc e) r' | None => None end
  | TMinus :: r => match parse_prod f r with Some (e, r') => sum_loop f (Sub acc e) r' | None => None end
  | _ => Some (acc, ts)
  end.
Proof. reflexivity. Qed.
Lemma parse_prod_S : forall f ts, parse_prod (S f) ts =
  match parse_unary f ts with Some (e, r) => prod_loop f e r | None => None end.
Proof. reflexivity. Qed.
Lemma prod_loop_S : forall f acc ts, prod_loop (S f) acc ts =
  match ts with
  | TTimes :: r => match parse_unary f r with Some (e, r') => prod_loop f (Mul acc e) r' | None => None end
  | _ => Some (acc, ts)
  end.
Proof. reflexivity. Qed.
Lemma parse_unary_S : forall f ts, parse_unary (S f) ts =
  match ts with
  | TMinus :: r => match parse_unary f r with Some (e, r') => Some (Neg e, r') | None => None end
  | _ => match parse_atom f ts with Some (e, r) => pow_loop f e r | None => None end
  end.
Proof. reflexivity. Qed.
Lemma pow_loop_S : forall f acc ts, pow_loop (S f) acc ts =
  match ts with
  | TPow :: TNum k xH true :: r => pow_loop f (Pow acc (N.to_nat k)) r
  | TPow :: _ => None
  | _ => Some (acc, ts)
  end.
Proof. reflexivity. Qed.
Lemma parse_atom_S : forall f ts, parse_atom (S f) ts =
  match ts with
  | TX :: r => Some (X, r)
  | TNum n d _ :: TI :: r => Some (Num n d true, r)
  | TNum n d _ :: r => Some (Num n d false, r)
  | TLP :: r => match parse_sum f r with Some (e, TRP :: r') => Some (e, r') | _ => None end
  | _ => None
  end.
Proof. reflexivity. Qed.

Global Opaque parse_sum sum_loop parse_prod prod_loop parse_unary pow_loop parse_atom.

(* ------------------------------------------------------------------ heads of token lists *)
Definition head_is (t : token) (r : list token) : bool :=
  match r, t with
  | TI :: _, TI | TPow :: _, TPow | TTimes :: _, TTimes | TPlus :: _, TPlus | TMinus :: _, TMinus => true
  | _, _ => false
  end.
(* what may follow a complete operand inside a fully parenthesised expression *)
Definition closes (r : list token) : Prop :=
  head_is TI r = false /\ head_is TPow r = false /\ head_is TTimes r = false.
Definition closes_sum (r : list token) : Prop :=
  closes r /\ head_is TPlus r = false /\ head_is TMinus r = false.

Definition atom_start (ts : list token) : Prop :=
  match ts with TX :: _ | TNum _ _ _ :: _ | TLP :: _ => True | _ => False end.
Lemma print_full_start : forall e r, atom_start (print_full e ++ r).
Proof. intros e r; destruct e; simpl; exact I. Qed.

Lemma pow_loop_stop : forall f e r, head_is TPow r = false -> pow_loop (S f) e r = Some (e, r).
Proof. intros f e r H; rewrite pow_loop_S; destruct r as [|[] r]; simpl in *; try reflexivity; discriminate. Qed.
Lemma prod_loop_stop : forall f e r, head_is TTimes r = false -> prod_loop (S f) e r = Some (e, r).
Proof. intros f e r H; rewrite prod_loop_S; destruct r as [|[] r]; simpl in *; try reflexivity; discriminate. Qed.
Lemma sum_loop_stop : forall f e r, head_is TPlus r = false -> head_is TMinus r = false ->
  sum_loop (S f) e r = Some (e, r).
Proof. intros f e r H1 H2; rewrite sum_loop_S; destruct r as [|[] r]; simpl in *; try reflexivity; discriminate. Qed.

(* an atom followed by something that closes it is also a unary and a product *)
Lemma unary_of_atom : forall f ts e r, parse_atom (S f) ts = Some (e, r) -> atom_start ts ->
  head_is TPow r = false -> parse_unary (S (S f)) ts = Some (e, r).
Proof.
  intros f ts e r H Hs Hp. rewrite parse_unary_S.
  destruct ts as [|[] ts]; simpl in Hs; try contradiction; rewrite H; apply pow_loop_stop; exact Hp.
Qed.
Lemma prod_of_atom : forall f ts e r, parse_atom (S f) ts = Some (e, r) -> atom_start ts ->
  head_is TPow r = false -> head_is TTimes r = false -> parse_prod (S (S (S f))) ts = Some (e, r).
Proof.
  intros f ts e r H Hs Hp Ht. rewrite parse_prod_S, (unary_of_atom f ts e r H Hs Hp).
  apply prod_loop_stop; exact Ht.
Qed.

Lemma closes_cons : forall t r, t = TPlus \/ t = TMinus \/ t = TTimes \/ t = TRP \/ t = TPow -> head_is TI (t :: r) = false.
Proof. intros t r [H|[H|[H|[H|H]]]]; subst; reflexivity. Qed.

(* ------------------------------------------------------------------ round trip, full parentheses *)
Lemma parse_atom_print_full : forall e r f,
  7 * length (print_full e) <= f -> head_is TI r = false ->
  parse_atom f (print_full e ++ r) = Some (e, r).
Proof.
  induction e as [|n d b|a IHa b IHb|a IHa b IHb|a IHa b IHb|a IHa|a IHa k]; intros r f Hf Hr.
  - simpl in *. destruct f as [|f]; [lia|]. rewrite parse_atom_S. reflexivity.
  - simpl in *. destruct f as [|f]; [lia|]. rewrite parse_atom_S.
    destruct b; simpl; [reflexivity|]. destruct r as [|[] r]; simpl in *; try reflexivity; discriminate.
  - (* Add *)
    simpl in Hf. rewrite app_length in Hf; simpl in Hf; rewrite app_length in Hf; simpl in Hf.
    do 6 (destruct f as [|f]; [lia|]).
    change (print_full (Add a b) ++ r) with (TLP :: (print_full a ++ TPlus :: print_full b ++ [TRP]) ++ r).
    rewrite <- app_assoc; simpl; rewrite <- app_assoc; simpl.
    rewrite parse_atom_S, parse_sum_S.
    rewrite (prod_of_atom (S f) _ a (TPlus :: print_full b ++ TRP :: r));
      [| apply IHa; [lia | reflexivity] | apply print_full_start | reflexivity | reflexivity].
    rewrite sum_loop_S.
    rewrite (prod_of_atom f _ b (TRP :: r));
      [| apply IHb; [lia | reflexivity] | apply print_full_start | reflexivity | reflexivity].
    rewrite sum_loop_stop; reflexivity.
  - (* Sub *)
    simpl in Hf. rewrite app_length in Hf; simpl in Hf; rewrite app_length in Hf; simpl in Hf.
    do 6 (destruct f as [|f]; [lia|]).
    change (print_full (Sub a b) ++ r) with (TLP :: (print_full a ++ TMinus :: print_full b ++ [TRP]) ++ r).
    rewrite <- app_assoc; simpl; rewrite <- app_assoc; simpl.
    rewrite parse_atom_S, parse_sum_S.
    rewrite (prod_of_atom (S f) _ a (TMinus :: print_full b ++ TRP :: r));
      [| apply IHa; [lia | reflexivity] | apply print_full_start | reflexivity | reflexivity].
    rewrite sum_loop_S.
    rewrite (prod_of_atom f _ b (TRP :: r));
      [| apply IHb; [lia | reflexivity] | apply print_full_start | reflexivity | reflexivity].
    rewrite sum_loop_stop; reflexivity.
  - (* Mul *)
    simpl in Hf. rewrite app_length in Hf; simpl in Hf; rewrite app_length in Hf; simpl in Hf.
    do 6 (destruct f as [|f]; [lia|]).
    change (print_full (Mul a b) ++ r) with (TLP :: (print_full a ++ TTimes :: print_full b ++ [TRP]) ++ r).
    rewrite <- app_assoc; simpl; rewrite <- app_assoc; simpl.
    rewrite parse_atom_S, parse_sum_S, parse_prod_S.
    rewrite (unary_of_atom (S f) _ a (TTimes :: print_full b ++ TRP :: r));
      [| apply IHa; [lia | reflexivity] | apply print_full_start | reflexivity].
    rewrite prod_loop_S.
    rewrite (unary_of_atom f _ b (TRP :: r));
      [| apply IHb; [lia | reflexivity] | apply print_full_start | reflexivity].
    rewrite prod_loop_stop by reflexivity.
    rewrite sum_loop_stop; reflexivity.
  - (* Neg *)
    simpl in Hf. rewrite app_length in Hf; simpl in Hf.
    do 6 (destruct f as [|f]; [lia|]).
    change (print_full (Neg a) ++ r) with (TLP :: TMinus :: (print_full a ++ [TRP]) ++ r).
    rewrite <- app_assoc; simpl.
    rewrite parse_atom_S, parse_sum_S, parse_prod_S, parse_unary_S.
    rewrite (unary_of_atom f _ a (TRP :: r));
      [| apply IHa; [lia | reflexivity] | apply print_full_start | reflexivity].
    rewrite prod_loop_stop by reflexivity.
    rewrite sum_loop_stop; reflexivity.
  - (* Pow *)
    simpl in Hf. rewrite app_length in Hf; simpl in Hf.
    do 7 (destruct f as [|f]; [lia|]).
    change (print_full (Pow a k) ++ r) with (TLP :: (print_full a ++ [TPow; TNum (N.of_nat k) 1 true; TRP]) ++ r).
    rewrite <- app_assoc; simpl.
    rewrite parse_atom_S, parse_sum_S, parse_prod_S, parse_unary_S.
    pose proof (print_full_start a (TPow :: TNum (N.of_nat k) 1 true :: TRP :: r)) as Hs.
    rewrite (IHa (TPow :: TNum (N.of_nat k) 1 true :: TRP :: r) (S (S (S f)))) by (try lia; reflexivity).
    assert (Hu : forall (X0 : option (expr * list token)) ts, atom_start ts ->
               match ts with TMinus :: _ => X0 | _ => pow_loop (S (S (S f))) a (TPow :: TNum (N.of_nat k) 1 true :: TRP :: r) end
               = pow_loop (S (S (S f))) a (TPow :: TNum (N.of_nat k) 1 true :: TRP :: r)).
    { intros X0 ts Hts; destruct ts as [|[] ts]; simpl in Hts; try contradiction; reflexivity. }
    destruct (print_full a ++ TPow :: TNum (N.of_nat k) 1 true :: TRP :: r) as [|[] l] eqn:E; simpl in Hs; try contradiction;
      rewrite pow_loop_S, pow_loop_stop by reflexivity;
      rewrite Nat2N.id, prod_loop_stop by reflexivity; rewrite sum_loop_stop; reflexivity.
Qed.

Theorem parse_ref_print_full : forall e, parse_ref (print_full e) = Some e.
Proof.
  intros e. unfold parse_ref, parse_fuel.
  set (n := length (print_full e)).
  replace (8 * n + 8) with (S (S (S (S (7 * n + n + 4))))) by lia.
  rewrite parse_sum_S.
  pose proof (parse_atom_print_full e [] (S (7 * n + n + 4))) as H.
  rewrite app_nil_r in H.
  rewrite (prod_of_atom (7 * n + n + 4) (print_full e) e []).
  - rewrite sum_loop_stop; reflexivity.
  - apply H; [unfold n; lia | reflexivity].
  - pose proof (print_full_start e []) as Hs; rewrite app_nil_r in Hs; exact Hs.
  - reflexivity.
  - reflexivity.
Qed.
