(* C11 -- a generic model of a flex scanner (definitions only).

   Anchor in /repo: src/libmps/monomial/tokenizer.l.  Its rules section is read on every run into
   Gen/LexerGen.v as a list of (regular expression, action) pairs ([lexrules]); this file gives them
   an executable meaning:

     [regex]        regular expressions over bytes with character classes (ranges, negation)
     [deriv]        Brzozowski derivative (with the usual simplifying constructors)
     [lm]           longest match / first rule wins: the (rule index, length) flex chooses at the
                    start of a non-empty input, or None when no rule matches a non-empty prefix
     [tokenize]     the scanner loop: choose, run the action (return a named token with the text,
                    return the character itself, skip, ECHO), continue after the lexeme
     [with_default] flex's default rule (any single character, newline included: ECHO) appended

   The declarative semantics ([matches], [flex_choice], [flex_tokens]) and the proofs that the
   executable functions compute exactly that are in LexSpec.v. *)
Require Import List Ascii String Bool Arith NArith.
Import ListNotations.
Open Scope list_scope.
Notation length := List.length.

(* ------------------------------------------------------------------ regular expressions *)
Inductive regex : Set :=
| REmpty | REps
| RCls (neg : bool) (ranges : list (N * N))    (* one character whose code lies in one of the ranges (or not, if neg) *)
| RCat (a b : regex) | RAlt (a b : regex) | RStar (a : regex).
Definition RPlus (r : regex) : regex := RCat r (RStar r).        (* r+ *)
Definition ROpt (r : regex) : regex := RAlt r REps.               (* r? *)

Definition in_ranges (n : N) (rs : list (N * N)) : bool :=
  existsb (fun lh => (fst lh <=? n)%N && (n <=? snd lh)%N) rs.
Definition cls_mem (neg : bool) (rs : list (N * N)) (c : ascii) : bool :=
  xorb neg (in_ranges (N_of_ascii c) rs).

Fixpoint nullable (r : regex) : bool :=
  match r with
  | REmpty => false | REps => true | RCls _ _ => false
  | RCat a b => nullable a && nullable b
  | RAlt a b => nullable a || nullable b
  | RStar _ => true
  end.

Definition is_empty (r : regex) : bool := match r with REmpty => true | _ => false end.
Definition is_eps (r : regex) : bool := match r with REps => true | _ => false end.
Definition mkCat (a b : regex) : regex :=
  if is_empty a || is_empty b then REmpty else if is_eps a then b else if is_eps b then a else RCat a b.
Definition mkAlt (a b : regex) : regex :=
  if is_empty a then b else if is_empty b then a else RAlt a b.

Fixpoint deriv (c : ascii) (r : regex) : regex :=
  match r with
  | REmpty | REps => REmpty
  | RCls neg rs => if cls_mem neg rs c then REps else REmpty
  | RCat a b => if nullable a then mkAlt (mkCat (deriv c a) b) (deriv c b) else mkCat (deriv c a) b
  | RAlt a b => mkAlt (deriv c a) (deriv c b)
  | RStar a => mkCat (deriv c a) (RStar a)
  end.

Definition matchb (r : regex) (s : list ascii) : bool := nullable (fold_left (fun r c => deriv c r) s r).

(* ------------------------------------------------------------------ longest match, first rule wins *)
Fixpoint first_nullable_from (k : nat) (rs : list regex) : option nat :=
  match rs with
  | [] => None
  | r :: t => if nullable r then Some k else first_nullable_from (S k) t
  end.
Definition first_nullable (rs : list regex) : option nat := first_nullable_from 0 rs.
Definition step (rs : list regex) (c : ascii) : list regex := map (deriv c) rs.

(* (index of the rule, length of the lexeme >= 1).  The scan stops as soon as every derivative is
   the empty language (the "jam" state of flex's automaton). *)
Fixpoint lm (rs : list regex) (s : list ascii) : option (nat * nat) :=
  match s with
  | [] => None
  | c :: s' =>
    let rs' := step rs c in
    if forallb is_empty rs' then None else
    match lm rs' s' with
    | Some (i, n) => Some (i, S n)
    | None => match first_nullable rs' with Some i => Some (i, 1) | None => None end
    end
  end.

(* ------------------------------------------------------------------ actions and the scanner loop *)
Inductive lex_action : Set :=
| AReturn (name : string) (keeps_text : bool)   (* [*yylval = strdup (yytext);] return NAME; *)
| AChar                                         (* return (unsigned char) yytext[0]; *)
| ASkip                                         (* ; *)
| AEcho                                         (* ECHO (flex's default rule) *)
| AOther (what : string).                       (* anything the reader does not know *)
Definition lexrules : Set := list (regex * lex_action).

Inductive raw_token : Set :=
| RTok (name : string) (keeps_text : bool) (text : list ascii)
| RChr (c : ascii)              (* a token number below 256: not a token of the grammar *)
| REcho (text : list ascii)     (* no token: the text is copied to yyout *)
| RBad (what : string).

Definition emit (a : lex_action) (text : list ascii) : list raw_token :=
  match a with
  | AReturn nm k => [RTok nm k text]
  | AChar => match text with c :: _ => [RChr c] | [] => [] end
  | ASkip => []
  | AEcho => [REcho text]
  | AOther w => [RBad w]
  end.

Fixpoint tokenize_fuel (fuel : nat) (rules : lexrules) (s : list ascii) : option (list raw_token) :=
  match fuel with
  | O => None
  | S f =>
    match s with
    | [] => Some []
    | _ :: _ =>
      match lm (map fst rules) s with
      | None => None
      | Some (i, n) =>
        match nth_error rules i with
        | None => None
        | Some (_, a) =>
          match tokenize_fuel f rules (skipn n s) with
          | Some out => Some (emit a (firstn n s) ++ out)
          | None => None
          end
        end
      end
    end
  end.
Definition tokenize (rules : lexrules) (s : list ascii) : option (list raw_token) :=
  tokenize_fuel (S (length s)) rules s.

(* "If no match is found, the next character in the input is considered matched and copied to the
   standard output": the default rule, last in the list. *)
Definition any_char : regex := RCls true [].
Definition with_default (rules : lexrules) : lexrules := rules ++ [(any_char, AEcho)].
