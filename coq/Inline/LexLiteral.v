(* C11 -- numeric literals: the payload the pipeline model gives to a RATIONAL / FLOATING_POINT token
   ([InlineModel.lex_number] on the lexeme) is
     (1) the decimal / rational value of the text of the literal, and
     (2) what the grammar action stores: Monomial::Monomial (const char *, long) =
         mps_utils_build_equivalent_rational_string, mpq_class::set_str (.., 10), canonicalize ()
         as modelled character by character for C10 (PolFile/DecRatModel.v; anchors: src/libmps/common/utils.c,
         src/libmps/common/inline-poly-parser.c, src/libmps/formal/formal-monomial.cpp).
   Stdlib style; the PolFile names (is_digit, digits_val, ...) are the unqualified ones here, those of the
   inline model are written InlineModel.x. *)
Require Import Ascii List ZArith NArith QArith Qcanon Bool Lia ZifyBool String.
Require MPSV.Inline.InlineModel MPSV.Inline.InlineLR.
Require Import MPSV.PolFile.Chars MPSV.PolFile.DecRatModel MPSV.PolFile.PolProofs MPSV.PolFile.DecRat.
Require Import MPSV.Inline.LexLiteralModel.
Import ListNotations.
Local Open Scope char_scope.
Local Open Scope list_scope.
Notation length := List.length.

(* ------------------------------------------------------------------ bridges between the two character models *)
Lemma is_digit_bridge : forall c, InlineModel.is_digit c = is_digit c.
Proof. intro c. destruct c as [[] [] [] [] [] [] [] []]; reflexivity. Qed.
Lemma digit_val_bridge : forall c, InlineModel.digit_val c = digit_val c.
Proof. intro c. destruct c as [[] [] [] [] [] [] [] []]; reflexivity. Qed.
Lemma digits_val_bridge : forall l, InlineModel.digits_val l = digits_val l.
Proof.
  intro l. unfold InlineModel.digits_val, digits_val. generalize 0%N.
  induction l as [|c l IH]; intro a; [reflexivity|]. cbn [fold_left digits_val_acc].
  rewrite IH, digit_val_bridge. f_equal. lia.
Qed.
Lemma all_digits_bridge : forall l, forallb InlineModel.is_digit l = true -> all_digits l.
Proof.
  induction l as [|c l IH]; intro H; [constructor|]. cbn [forallb] in H. apply andb_true_iff in H. destruct H as [H1 H2].
  constructor; [rewrite <- is_digit_bridge; exact H1 | apply IH, H2].
Qed.
Lemma span_digits_bridge : forall s d r, InlineModel.span_digits s = (d, r) ->
  s = d ++ r /\ all_digits d /\ match r with [] => True | c :: _ => is_digit c = false end.
Proof.
  induction s as [|c s IH]; intros d r H; cbn [InlineModel.span_digits] in H.
  - inversion H; subst. repeat split. constructor.
  - rewrite is_digit_bridge in H. destruct (is_digit c) eqn:Ed.
    + destruct (InlineModel.span_digits s) as [d' r'] eqn:Es. inversion H; subst. destruct (IH d' r eq_refl) as (E & D & St).
      subst s. repeat split; [constructor; assumption | exact St].
    + inversion H; subst. repeat split; [constructor | exact Ed].
Qed.

Lemma ch_eq : forall c k, (nat_of_ascii c =? k)%nat = true -> c = ascii_of_nat k.
Proof. intros c k H. apply Nat.eqb_eq in H. subst k. symmetry. apply ascii_nat_embedding. Qed.
Lemma is_e_cases : forall c, InlineModel.is_e c = true -> c = "e" \/ c = "E".
Proof. intros c H. unfold InlineModel.is_e in H. apply orb_true_iff in H. destruct H as [H|H]; apply ch_eq in H; subst; auto. Qed.

(* ------------------------------------------------------------------ powers of ten *)
Lemma pow10'_Z : forall k, Zpos (InlineModel.pow10' k) = (10 ^ Z.of_nat k)%Z.
Proof.
  intros [|k]; [reflexivity|]. unfold InlineModel.pow10', InlineModel.pow10.
  rewrite Pos2Z.inj_pow. f_equal. lia.
Qed.

(* ------------------------------------------------------------------ integers and decimals: C10's theorem applies *)
Definition mk_lit (d1 : text) (dot : bool) (fr : text) (ex : option expo) : declit :=
  {| dl_sign := []; dl_int := d1; dl_dot := dot; dl_frac := fr; dl_exp := ex |}.

Lemma declit_coeff : forall l, wf_api_lit l -> monomial_coeff (render_declit l) = Some (declit_value l).
Proof. intros l H. destruct (decrat_correct l H) as (s & E1 & E2). unfold monomial_coeff. rewrite E1. exact E2. Qed.

(* the value the hand model computes ([fp_token]) is the value of the literal *)
Lemma fp_token_value : forall d1 dot fr ex hx n d b,
  all_digits d1 -> all_digits fr -> (dot = false -> fr = []) ->
  match ex, hx with
  | None, None => True
  | Some x, Some (neg, eds) => ex_digits x = eds /\ (neg = true -> ex_sign x = EMinus) /\ (neg = false -> ex_sign x <> EMinus)
  | _, _ => False
  end ->
  InlineModel.fp_token (d1 ++ fr) (length fr) hx = InlineModel.TNum n d b ->
  Qred (Z.of_N n # d) = declit_value (mk_lit d1 dot fr ex).
Proof.
  intros d1 dot fr ex hx n d b H1 Hf Hdot Hx Ht.
  unfold declit_value, mk_lit. cbn [dl_sign dl_int dl_frac dl_exp sign_neg fold_left].
  apply Qred_complete. unfold InlineModel.fp_token in Ht. rewrite digits_val_bridge in Ht.
  set (m := Z.of_N (digits_val (d1 ++ fr))) in *.
  destruct ex as [x|]; destruct hx as [[neg eds]|]; try contradiction.
  - destruct Hx as (Ed & Hn & Hp). subst eds. rewrite digits_val_bridge in Ht.
    destruct neg.
    + inversion Ht; subst n d b. fold m. cbn [expo_value]. rewrite (Hn eq_refl).
      rewrite <- (scale_eq m 0 (length fr + N.to_nat (digits_val (ex_digits x))) _ (InlineModel.pow10' (length fr) * InlineModel.pow10' (N.to_nat (digits_val (ex_digits x))))).
      * unfold Qeq. cbn [Qnum Qden]. rewrite Z.pow_0_r. ring.
      * rewrite Pos2Z.inj_mul, !pow10'_Z, Nat2Z.inj_add, Z.pow_add_r by lia. reflexivity.
      * rewrite Nat2Z.inj_add, N_nat_Z. lia.
    + inversion Ht; subst n d b. cbn [expo_value].
      assert (Ev : (match ex_sign x with EMinus => - Z.of_N (digits_val (ex_digits x)) | _ => Z.of_N (digits_val (ex_digits x)) end
                   = Z.of_N (digits_val (ex_digits x)))%Z).
      { specialize (Hp eq_refl). destruct (ex_sign x); try reflexivity. congruence. }
      rewrite Ev.
      rewrite <- (scale_eq m (N.to_nat (digits_val (ex_digits x))) (length fr) _ (InlineModel.pow10' (length fr))).
      * unfold Qeq. cbn [Qnum Qden]. rewrite N2Z.inj_mul. fold m. cbn [Z.of_N]. rewrite pow10'_Z. reflexivity.
      * apply pow10'_Z.
      * rewrite N_nat_Z. lia.
  - inversion Ht; subst n d b. fold m. cbn [expo_value].
    rewrite <- (scale_eq m 0 (length fr) _ (InlineModel.pow10' (length fr))).
    + unfold Qeq. cbn [Qnum Qden]. rewrite Z.pow_0_r. ring.
    + apply pow10'_Z.
    + lia.
Qed.

(* ------------------------------------------------------------------ rationals "N/D": the conversion as coded *)
Lemma nosep_digits_slash : forall d1 d2, all_digits d1 -> all_digits d2 -> find_fp_separator (d1 ++ "/" :: d2) = false.
Proof.
  intros d1 d2 H1 H2.
  assert (G : forall l, all_digits l -> forall tl, find_fp_separator tl = false -> find_fp_separator (l ++ tl) = false).
  { induction 1 as [|c l Hc _ IH]; intros tl Ht; [exact Ht|].
    cbn [app find_fp_separator]. rewrite (digit_not_space c Hc), (digit_neq c "." Hc eq_refl). apply IH, Ht. }
  apply G; [exact H1|]. cbn [find_fp_separator]. change (is_space "/") with false. change ("/" =c? ".") with false. cbv iota.
  rewrite <- (app_nil_r d2). apply G; [exact H2 | reflexivity].
Qed.

Lemma has_char_ds : forall c d1 d2, is_digit c = false -> ("/" =c? c) = false -> all_digits d1 -> all_digits d2 ->
  has_char c (d1 ++ "/" :: d2) = false.
Proof.
  intros c d1 d2 Hc Hs H1 H2. rewrite has_char_app, (has_char_digits c d1 Hc H1).
  unfold has_char at 1. cbn [existsb]. fold (has_char c d2). rewrite Hs, (has_char_digits c d2 Hc H2). reflexivity.
Qed.

Lemma rat_build_ers : forall d1 d2, all_digits d1 -> d1 <> [] -> all_digits d2 ->
  exists D', build_ers (d1 ++ "/" :: d2) = Some (D' ++ "/" :: d2, 0%Z, false, true)
             /\ all_digits D' /\ D' <> [] /\ digits_val D' = digits_val d1.
Proof.
  intros d1 d2 H1 Hne H2.
  destruct (strip_lz_digits d1 ("/" :: d2) H1 Hne eq_refl) as (D' & ES & A1 & A2 & A3).
  exists D'. split; [|auto].
  set (s := d1 ++ "/" :: d2).
  assert (NS : forallb nosignb s = true).
  { unfold s. rewrite forallb_app, (digits_nosign d1 H1). cbn [forallb andb]. change (nosignb "/") with true. cbn [andb].
    apply digits_nosign, H2. }
  assert (PS : parse_sign s false = (false, s)).
  { apply (parse_sign_prefix [] s false); [constructor|].
    unfold s. destruct d1 as [|c d1']; [congruence|]. cbn [app].
    inversion H1; subst. destruct (plain_facts c (digit_plain c H3)) as (_ & _ & _ & P & M & _ & _ & S). auto. }
  assert (TR : truncated s = s).
  { destruct s as [|c r] eqn:Es; [reflexivity|]. cbn [truncated]. f_equal.
    cbn [forallb] in NS. apply andb_true_iff in NS. apply trunc_nosign, NS. }
  assert (HE : has_char "e" s = false /\ has_char "E" s = false /\ has_char "x" s = false).
  { unfold s. repeat split; apply has_char_ds; auto. }
  destruct HE as (He & HE & Hx).
  pose proof (nosep_digits_slash d1 d2 H1 H2) as SEP. fold s in SEP.
  unfold build_ers. fold s. rewrite SEP, PS, TR, He, HE. cbn [orb andb].
  assert (CL : copy_loop s false 0 [] = (rev s, 0%nat, None)).
  { unfold s. rewrite copy_digits by exact H1. rewrite app_nil_r.
    cbn [copy_loop]. change (("/" =c? "e") || ("/" =c? "E")) with false.
    change (("/" =c? "x") || ("/" =c? "+") || ("/" =c? "-")) with false. change ("/" =c? ".") with false. cbv iota.
    rewrite <- (app_nil_r d2) at 1. rewrite copy_digits by exact H2. cbn [copy_loop].
    rewrite rev_app_distr. cbn [rev]. rewrite <- app_assoc. reflexivity. }
  rewrite CL. rewrite rev_involutive, app_nil_r, (take_until_none "x" s Hx). unfold s. rewrite ES. reflexivity.
Qed.

Lemma rat_coeff : forall d1 d2, all_digits d1 -> d1 <> [] -> all_digits d2 -> d2 <> [] ->
  monomial_coeff (d1 ++ "/" :: d2) =
  match digits_val d2 with N0 => None | Npos dd => Some (Qred (Z.of_N (digits_val d1) # dd)) end.
Proof.
  intros d1 d2 H1 Hne1 H2 Hne2.
  destruct (rat_build_ers d1 d2 H1 Hne1 H2) as (D' & E & A1 & A2 & A3).
  unfold monomial_coeff, equiv_rational_string. rewrite E.
  rewrite strip_string_nonspace.
  2:{ apply Forall_app. split; [apply digits_nonspace, A1|]. constructor; [reflexivity | apply digits_nonspace, H2]. }
  unfold mpq_str_value, mpq_str_raw.
  assert (HS : has_char "/" (D' ++ "/" :: d2) = true).
  { rewrite has_char_app. cbn [has_char existsb]. rewrite Ascii.eqb_refl, orb_true_r. reflexivity. }
  rewrite HS, take_until_app, drop_until_app by (apply has_char_digits; [reflexivity | exact A1]).
  rewrite (mpz_digits D' A1 A2), (mpz_digits d2 H2 Hne2). rewrite A3.
  cbn [q_of_raw]. destruct (digits_val d2); reflexivity.
Qed.

(* the RATIONAL action of yacc-parser.y refuses exactly the zero denominators: strspn (slash + 1, "0") == strlen (slash + 1) *)
Lemma zero_denominator_iff : forall d2, all_digits d2 -> (digits_val d2 = 0%N <-> forallb (fun c => c =c? "0") d2 = true).
Proof.
  induction 1 as [|c l Hc _ IH]; [split; reflexivity|].
  rewrite digits_val_cons. cbn [forallb]. rewrite andb_true_iff, <- IH.
  assert (Hp : (10 ^ N.of_nat (length l) <> 0)%N) by (apply N.pow_nonzero; discriminate).
  assert (Hz : (c =c? "0") = true <-> digit_val c = 0%N).
  { unfold is_digit in Hc. unfold digit_val. rewrite Ascii.eqb_eq. split.
    - intro; subst; reflexivity.
    - intro E. rewrite <- (ascii_N_embedding c). replace (N_of_ascii c) with 48%N by lia. reflexivity. }
  rewrite Hz, N.eq_add_0, N.eq_mul_0. tauto.
Qed.

(* ------------------------------------------------------------------ the exponent part the hand model recognises is a well-formed exponent *)
Lemma span_all_nil : forall s d, InlineModel.span_digits s = (d, []) -> s = d /\ all_digits d.
Proof. intros s d H. destruct (span_digits_bridge _ _ _ H) as (E & A & _). rewrite app_nil_r in E. auto. Qed.

Lemma lex_exp_inv : forall r neg eds, InlineModel.lex_exp r = Some (neg, eds, []) ->
  exists x, r = render_expo (Some x) /\ wf_expo false (Some x) /\ ex_digits x = eds /\
            (neg = true -> ex_sign x = EMinus) /\ (neg = false -> ex_sign x <> EMinus).
Proof.
  intros r neg eds H. unfold InlineModel.lex_exp in H.
  destruct r as [|c r']; [discriminate|]. destruct (InlineModel.is_e c) eqn:Ee; [|discriminate].
  assert (Hm : c = "e" \/ c = "E") by (apply is_e_cases; exact Ee).
  destruct r' as [|sg r1]; [discriminate|].
  destruct ((nat_of_ascii sg =? 43)%nat) eqn:E43.
  - apply ch_eq in E43. subst sg. cbn [orb] in H.
    destruct (InlineModel.span_digits r1) as [ds r2] eqn:Sp. destruct ds as [|y ds]; [discriminate|].
    inversion H; subst neg eds r2. destruct (span_all_nil _ _ Sp) as [E A]. subst r1.
    exists {| ex_mark := c; ex_sign := EPlus; ex_digits := y :: ds |}. cbn.
    repeat split; auto; try discriminate. destruct Hm; auto.
  - cbn [orb] in H. destruct ((nat_of_ascii sg =? 45)%nat) eqn:E45.
    + apply ch_eq in E45. subst sg.
      destruct (InlineModel.span_digits r1) as [ds r2] eqn:Sp. destruct ds as [|y ds]; [discriminate|].
      inversion H; subst neg eds r2. destruct (span_all_nil _ _ Sp) as [E A]. subst r1.
      exists {| ex_mark := c; ex_sign := EMinus; ex_digits := y :: ds |}. cbn.
      repeat split; auto; try discriminate. destruct Hm; auto.
    + destruct (InlineModel.span_digits (sg :: r1)) as [ds r2] eqn:Sp. destruct ds as [|y ds]; [discriminate|].
      inversion H; subst neg eds r2. destruct (span_all_nil _ _ Sp) as [E A]. rewrite E.
      exists {| ex_mark := c; ex_sign := ENone; ex_digits := y :: ds |}. cbn.
      repeat split; auto; try discriminate. destruct Hm; auto.
Qed.

Lemma dec_case : forall d1 dot fr ex hx n d b p,
  all_digits d1 -> d1 <> [] -> all_digits fr -> (dot = false -> fr = []) -> wf_expo false ex ->
  match ex, hx with
  | None, None => True
  | Some x, Some (neg, eds) => ex_digits x = eds /\ (neg = true -> ex_sign x = EMinus) /\ (neg = false -> ex_sign x <> EMinus)
  | _, _ => False
  end ->
  p = render_declit (mk_lit d1 dot fr ex) ->
  InlineModel.fp_token (d1 ++ fr) (length fr) hx = InlineModel.TNum n d b ->
  monomial_coeff p = Some (Qred (Z.of_N n # d)) /\ text_value p (Qred (Z.of_N n # d)).
Proof.
  intros d1 dot fr ex hx n d b p H1 Hne Hf Hdot Hex Hx Ep Ht.
  assert (W : wf_api_lit (mk_lit d1 dot fr ex)).
  { split; [constructor|]. split; [|exact Hex]. repeat split; auto. cbn. intro E. apply app_eq_nil in E. tauto. }
  rewrite (fp_token_value d1 dot fr ex hx n d b H1 Hf Hdot Hx Ht). subst p.
  split; [apply declit_coeff, W | apply tv_dec; [exact W | reflexivity]].
Qed.

(* ------------------------------------------------------------------ THE literal theorem *)
Theorem literal_value : forall p n d b,
  (exists c p', p = c :: p' /\ InlineModel.is_digit c = true) ->
  InlineModel.lex_number p = Some (InlineModel.TNum n d b, []) ->
  monomial_coeff p = Some (Qred (Z.of_N n # d)) /\ text_value p (Qred (Z.of_N n # d)).
Proof.
  intros p n d b (c0 & p0 & Ep0 & Hc0) H. unfold InlineModel.lex_number in H.
  destruct (InlineModel.span_digits p) as [d1 r] eqn:Sp. destruct (span_digits_bridge _ _ _ Sp) as (Ep & H1 & Hr).
  assert (Hne : d1 <> []).
  { intro E. subst d1. cbn [app] in Ep. subst r. rewrite Ep0 in Hr. rewrite is_digit_bridge in Hc0. congruence. }
  clear c0 p0 Ep0 Hc0.
  destruct r as [|x r1].
  - (* an integer literal *)
    inversion H; subst n d b. rewrite app_nil_r in Ep. subst p.
    apply (dec_case d1 false [] None None _ _ false);
      [exact H1 | exact Hne | constructor | reflexivity | exact I | exact I | | ].
    + unfold render_declit, mk_lit. cbn. rewrite app_nil_r. reflexivity.
    + cbn [length]. unfold InlineModel.fp_token. rewrite app_nil_r. reflexivity.
  - destruct ((nat_of_ascii x =? 47)%nat) eqn:E47.
    { apply ch_eq in E47. subst x.
      destruct (InlineModel.span_digits r1) as [d2 r2] eqn:Sp2. destruct d2 as [|y d2]; [inversion H|].
      destruct (InlineModel.digits_val (y :: d2)) as [|dd] eqn:Ed; [discriminate|].
      inversion H; subst n d b r2. destruct (span_all_nil _ _ Sp2) as [E2 A2]. subst r1 p.
      rewrite digits_val_bridge in Ed. rewrite digits_val_bridge. change (ascii_of_nat 47) with "/".
      split.
      - rewrite (rat_coeff d1 (y :: d2) H1 Hne A2 ltac:(discriminate)). rewrite Ed. reflexivity.
      - apply (tv_rat d1 (y :: d2) dd H1 Hne A2 Ed). }
    destruct ((nat_of_ascii x =? 46)%nat) eqn:E46.
    { apply ch_eq in E46. subst x. change (ascii_of_nat 46) with "." in *.
      destruct (InlineModel.span_digits r1) as [fr r2] eqn:Sp2. destruct (span_digits_bridge _ _ _ Sp2) as (E2 & Hf & _).
      destruct (InlineModel.lex_exp r2) as [[[neg eds] r3]|] eqn:LE.
      - assert (r3 = []) by (inversion H; reflexivity). subst r3.
        destruct (lex_exp_inv _ _ _ LE) as (xx & Er & Wx & Ex & Hn & Hp).
        apply (dec_case d1 true fr (Some xx) (Some (neg, eds)) n d b);
          [exact H1 | exact Hne | exact Hf | discriminate | exact Wx | auto | | ].
        + subst p r1 r2. unfold render_declit, mk_lit. cbn [dl_sign dl_int dl_dot dl_frac dl_exp app]. reflexivity.
        + inversion H. reflexivity.
      - assert (r2 = []) by (inversion H; reflexivity). subst r2. rewrite app_nil_r in E2. subst r1.
        apply (dec_case d1 true fr None None n d b);
          [exact H1 | exact Hne | exact Hf | discriminate | exact I | exact I | | ].
        + subst p. unfold render_declit, mk_lit. cbn [dl_sign dl_int dl_dot dl_frac dl_exp render_expo app]. rewrite app_nil_r. reflexivity.
        + inversion H. reflexivity. }
    destruct (InlineModel.lex_exp (x :: r1)) as [[[neg eds] r3]|] eqn:LE.
    + assert (r3 = []) by (inversion H; reflexivity). subst r3.
      destruct (lex_exp_inv _ _ _ LE) as (xx & Er & Wx & Ex & Hn & Hp).
      apply (dec_case d1 false [] (Some xx) (Some (neg, eds)) n d b);
        [exact H1 | exact Hne | constructor | reflexivity | exact Wx | auto | | ].
      * subst p. rewrite Er. unfold render_declit, mk_lit. cbn [dl_sign dl_int dl_dot dl_frac dl_exp app]. reflexivity.
      * cbn [length]. rewrite app_nil_r. inversion H. reflexivity.
    + inversion H.
Qed.

(* what the scanner can return: every number lexeme is re-read by the hand model as ONE literal (LexAgree.number_choice), so the
   hypothesis of [literal_value] holds for every RATIONAL / FLOATING_POINT token that reaches the parser in [glex] *)
Corollary literal_coefficient : forall p n d b,
  (exists c p', p = c :: p' /\ InlineModel.is_digit c = true) ->
  InlineModel.lex_number p = Some (InlineModel.TNum n d b, []) ->
  option_map Q2Qc (monomial_coeff p) = Some (InlineModel.re (InlineModel.CofQ n d)) /\ InlineModel.im (InlineModel.CofQ n d) = Q2Qc 0.
Proof.
  intros p n d b Hp H. destruct (literal_value p n d b Hp H) as [E _]. rewrite E. cbn [option_map InlineModel.CofQ InlineModel.re InlineModel.im].
  split; [|reflexivity]. f_equal. apply Qc_is_canon. cbn [Q2Qc this]. rewrite Qred_involutive. reflexivity.
Qed.
