(* C11 -- mps::formal::Polynomial::operator* as coded (result = [0]; for i in 0..deg+deg',
   for j in max(0,i-deg)..min(deg',i): result += mMonomials[i-j] * other.mMonomials[j]) is an
   evaluation homomorphism; hence so are operator*=, the action of '^' (repeated *=) and the whole
   chain of grammar actions [fp_denote].  The monomials are added one at a time through
   `+= Monomial` (overwrite of a zero entry / merge of equal degrees / resize / trimming of leading
   zeros), whose effect on the value is [fp_add_mono_eval]; what is left is the re-indexing of the
   double loop (diagonals i, position j on the diagonal) into the product of the two sums. *)
Require Import List ZArith NArith QArith Qcanon Bool Arith Lia Ring.
Require Import MPSV.Inline.InlineModel MPSV.Inline.InlineAlgebra MPSV.Inline.InlineFormal MPSV.Inline.InlineFormalInv.
Import ListNotations.
Open Scope Qc_scope.

(* ------------------------------------------------------------------ finite sums over lists of indices *)
Fixpoint lsum {A : Type} (f : A -> C) (l : list A) : C :=
  match l with nil => C0 | a :: r => Cadd (f a) (lsum f r) end.

Lemma lsum_app : forall A (f : A -> C) l1 l2, lsum f (l1 ++ l2) = Cadd (lsum f l1) (lsum f l2).
Proof. induction l1 as [|a l1 IH]; intros; simpl; [ring | rewrite IH; ring]. Qed.
Lemma lsum_ext_in : forall A (f g : A -> C) l, (forall a, In a l -> f a = g a) -> lsum f l = lsum g l.
Proof.
  induction l as [|a l IH]; intros H; simpl; [reflexivity|].
  rewrite (H a) by (left; reflexivity). rewrite IH by (intros; apply H; right; assumption). reflexivity.
Qed.
Lemma lsum_zero : forall A (l : list A), lsum (fun _ => C0) l = C0.
Proof. induction l as [|a l IH]; simpl; [reflexivity | rewrite IH; ring]. Qed.
Lemma lsum_add : forall A (f g : A -> C) l, lsum (fun a => Cadd (f a) (g a)) l = Cadd (lsum f l) (lsum g l).
Proof. induction l as [|a l IH]; simpl; [ring | rewrite IH; ring]. Qed.
Lemma lsum_scale_r : forall A (f : A -> C) c l, lsum (fun a => Cmul (f a) c) l = Cmul (lsum f l) c.
Proof. induction l as [|a l IH]; simpl; [ring | rewrite IH; ring]. Qed.
Lemma lsum_scale_l : forall A (f : A -> C) c l, lsum (fun a => Cmul c (f a)) l = Cmul c (lsum f l).
Proof. induction l as [|a l IH]; simpl; [ring | rewrite IH; ring]. Qed.
Lemma lsum_map : forall A B (h : A -> B) (f : B -> C) l, lsum f (map h l) = lsum (fun a => f (h a)) l.
Proof. induction l as [|a l IH]; simpl; [reflexivity | rewrite IH; reflexivity]. Qed.
Lemma lsum_swap : forall A B (f : A -> B -> C) l1 l2,
  lsum (fun i => lsum (fun j => f i j) l2) l1 = lsum (fun j => lsum (fun i => f i j) l1) l2.
Proof.
  induction l1 as [|a l1 IH]; intros l2; simpl.
  - rewrite lsum_zero. reflexivity.
  - rewrite IH, <- lsum_add. reflexivity.
Qed.

Lemma Cpow_add : forall x a b, Cpow x (a + b) = Cmul (Cpow x a) (Cpow x b).
Proof. induction a as [|a IH]; intros; simpl; [ring | rewrite IH; ring]. Qed.

(* value of one monomial taken with its own degree field *)
Definition tv (x : C) (m : mono) : C := Cmul (mc m) (Cpow x (md m)).

Lemma tv_mono_mul : forall x a b, tv x (mono_mul a b) = Cmul (tv x a) (tv x b).
Proof. intros; unfold tv, mono_mul; simpl; rewrite Cpow_add; ring. Qed.
Lemma tv_mono0 : forall x, tv x mono0 = C0.
Proof. intros; unfold tv, mono0; simpl; ring. Qed.

Lemma terms_eval_lsum : forall q x, terms_eval q x = lsum (tv x) q.
Proof. induction q as [|m q IH]; intros; simpl; [reflexivity | rewrite IH; reflexivity]. Qed.

(* a polynomial is the sum of its entries over the index range 0..degree() *)
Lemma lsum_nth_seq : forall (q : fpoly) x k,
  lsum (fun a => tv x (nth (a - k) q mono0)) (seq k (length q)) = lsum (tv x) q.
Proof.
  induction q as [|m q IH]; intros x k; simpl; [reflexivity|].
  rewrite Nat.sub_diag. f_equal.
  rewrite <- (IH x (S k)). apply lsum_ext_in. intros a Ha. apply in_seq in Ha.
  replace (a - k)%nat with (S (a - S k)) by lia. reflexivity.
Qed.
Lemma fp_eval_as_sum : forall q x, fp_ok q ->
  fp_eval q x = lsum (fun a => tv x (nth a q mono0)) (seq 0 (S (fdeg q))).
Proof.
  intros q x Hq. rewrite <- terms_eval_ok by exact Hq. rewrite terms_eval_lsum.
  destruct Hq as [Hne _]. assert (Hl : S (fdeg q) = length q) by (unfold fdeg; destruct q; [congruence | simpl; lia]).
  rewrite Hl, <- (lsum_nth_seq q x 0). apply lsum_ext_in. intros a _. rewrite Nat.sub_0_r. reflexivity.
Qed.

(* ------------------------------------------------------------------ the loops of operator* *)
(* inner loop on one diagonal, then the outer loop: the value grows by the sum of the added terms *)
Lemma fold_cond_eval : forall (c : nat -> bool) (h : nat -> mono) x l acc, acc <> [] ->
  fold_left (fun acc j => if c j then fp_add_mono acc (h j) else acc) l acc <> [] /\
  fp_eval (fold_left (fun acc j => if c j then fp_add_mono acc (h j) else acc) l acc) x =
  Cadd (fp_eval acc x) (lsum (fun j => if c j then tv x (h j) else C0) l).
Proof.
  induction l as [|j l IH]; intros acc Hacc; simpl.
  - split; [exact Hacc | ring].
  - destruct (c j) eqn:Ec.
    + destruct (IH (fp_add_mono acc (h j)) (fp_add_mono_nonempty acc (h j) Hacc)) as [H1 H2].
      split; [exact H1|]. rewrite H2, fp_add_mono_eval by exact Hacc. unfold tv. ring.
    + destruct (IH acc Hacc) as [H1 H2]. split; [exact H1|]. rewrite H2. ring.
Qed.

Lemma fold_diag_eval : forall (c : nat -> nat -> bool) (h : nat -> nat -> mono) x l2 l1 acc, acc <> [] ->
  fold_left (fun acc i => fold_left (fun acc j => if c i j then fp_add_mono acc (h i j) else acc) l2 acc) l1 acc <> [] /\
  fp_eval (fold_left (fun acc i => fold_left (fun acc j => if c i j then fp_add_mono acc (h i j) else acc) l2 acc) l1 acc) x =
  Cadd (fp_eval acc x) (lsum (fun i => lsum (fun j => if c i j then tv x (h i j) else C0) l2) l1).
Proof.
  induction l1 as [|i l1 IH]; intros acc Hacc; simpl.
  - split; [exact Hacc | ring].
  - destruct (fold_cond_eval (c i) (h i) x l2 acc Hacc) as [H1 H2].
    destruct (IH _ H1) as [H3 H4]. split; [exact H3|]. rewrite H4, H2. ring.
Qed.

Lemma map_add_seq : forall j n s, map (fun a => (j + a)%nat) (seq s n) = seq (j + s) n.
Proof.
  induction n as [|n IH]; intros s; simpl; [reflexivity|].
  rewrite IH, Nat.add_succ_r. reflexivity.
Qed.

(* one column of the double loop: for a fixed j <= dq the diagonals i that pass the bounds test
   max(0,i-dp) <= j <= min(dq,i) are exactly i = j .. j+dp, and i-j runs over 0..dp *)
Lemma column_sum : forall (g : nat -> C) dp dq j, (j <= dq)%nat ->
  lsum (fun i => if ((i - dp <=? j) && (j <=? Nat.min dq i))%nat then g (i - j)%nat else C0) (seq 0 (S (dp + dq)))
  = lsum g (seq 0 (S dp)).
Proof.
  intros g dp dq j Hj.
  replace (S (dp + dq)) with (j + (S dp + (dq - j)))%nat by lia.
  rewrite seq_app, seq_app, !lsum_app. simpl (0 + j)%nat.
  rewrite (lsum_ext_in _ _ (fun _ => C0) (seq 0 j)).
  2:{ intros i Hi. apply in_seq in Hi.
      replace (j <=? Nat.min dq i)%nat with false by (symmetry; apply Nat.leb_gt; lia).
      rewrite andb_false_r. reflexivity. }
  rewrite (lsum_ext_in _ _ (fun _ => C0) (seq (j + S dp) (dq - j))).
  2:{ intros i Hi. apply in_seq in Hi.
      replace (i - dp <=? j)%nat with false by (symmetry; apply Nat.leb_gt; lia). reflexivity. }
  rewrite !lsum_zero.
  rewrite (lsum_ext_in _ _ (fun i => g (i - j)%nat) (seq j (S dp))).
  2:{ intros i Hi. apply in_seq in Hi.
      replace (i - dp <=? j)%nat with true by (symmetry; apply Nat.leb_le; lia).
      replace (j <=? Nat.min dq i)%nat with true by (symmetry; apply Nat.leb_le; lia). reflexivity. }
  replace (seq j (S dp)) with (map (fun a => (j + a)%nat) (seq 0 (S dp))).
  2:{ rewrite map_add_seq, Nat.add_0_r. reflexivity. }
  rewrite lsum_map. rewrite (lsum_ext_in _ _ g).
  2:{ intros a _. f_equal. lia. }
  ring.
Qed.

(* Polynomial::operator*(const Polynomial&) const *)
Theorem fp_mul_eval : forall p q x, fp_ok p -> fp_ok q ->
  fp_eval (fp_mul p q) x = Cmul (fp_eval p x) (fp_eval q x).
Proof.
  intros p q x Hp Hq. unfold fp_mul.
  rewrite (proj2 (fold_diag_eval
            (fun i j => ((i - fdeg p <=? j) && (j <=? Nat.min (fdeg q) i))%nat)
            (fun i j => mono_mul (nth (i - j) p mono0) (nth j q mono0)) x
            (seq 0 (S (fdeg q))) (seq 0 (S (fdeg p + fdeg q))) [mono0] ltac:(discriminate))).
  replace (fp_eval [mono0] x) with C0 by (unfold fp_eval, fp_coeffs, mono0; simpl; ring).
  rewrite lsum_swap.
  rewrite (lsum_ext_in _ _ (fun j => Cmul (fp_eval p x) (tv x (nth j q mono0)))).
  - rewrite lsum_scale_l, <- fp_eval_as_sum by exact Hq. ring.
  - intros j Hj. apply in_seq in Hj.
    transitivity (lsum (fun a => Cmul (tv x (nth a p mono0)) (tv x (nth j q mono0))) (seq 0 (S (fdeg p)))).
    + rewrite <- (column_sum (fun a => Cmul (tv x (nth a p mono0)) (tv x (nth j q mono0))) (fdeg p) (fdeg q) j) by lia.
      apply lsum_ext_in. intros i _.
      destruct ((i - fdeg p <=? j) && (j <=? Nat.min (fdeg q) i))%nat; [apply tv_mono_mul | reflexivity].
    + rewrite lsum_scale_r, <- fp_eval_as_sum by exact Hp. reflexivity.
Qed.

(* the action of "polynomial SUPERSCRIPT RATIONAL": p = 1; for (i = 0; i < exp; i++) p *= $1 *)
Lemma fp_pow_loop_eval : forall b x, fp_ok b -> forall k acc, fp_ok acc ->
  fp_eval (fp_pow_loop k acc b) x = Cmul (fp_eval acc x) (Cpow (fp_eval b x) k).
Proof.
  intros b x Hb. induction k as [|k IH]; intros acc Hacc; simpl; [ring|].
  rewrite IH by (apply (proj1 (fp_mul_inv acc b))). rewrite fp_mul_eval by assumption. ring.
Qed.
Theorem fp_pow_eval : forall b k x, fp_ok b -> fp_eval (fp_pow b k) x = Cpow (fp_eval b x) k.
Proof.
  intros b k x Hb. unfold fp_pow. rewrite fp_pow_loop_eval by (try exact Hb; apply (proj1 (fp_inv_const C1))).
  unfold fp_eval, fp_coeffs, fp_of_mono; simpl. ring.
Qed.

(* the grammar actions applied along any expression compute the value of the expression *)
Theorem fp_denote_eval : forall e x, fp_eval (fp_denote e) x = eval_expr e x.
Proof.
  induction e; intros x; simpl.
  - unfold fp_eval, fp_coeffs, fp_of_mono; simpl. ring.
  - unfold fp_eval, fp_coeffs, fp_of_mono; simpl. ring.
  - rewrite fp_add_eval, IHe1, IHe2; [reflexivity | apply (proj1 (proj1 (fp_denote_inv e1))) | apply (proj1 (fp_denote_inv e2))].
  - rewrite fp_sub_eval, IHe1, IHe2; [reflexivity | apply (proj1 (proj1 (fp_denote_inv e1))) | apply (proj1 (fp_denote_inv e2))].
  - rewrite fp_mul_eval, IHe1, IHe2; [reflexivity | apply (proj1 (fp_denote_inv e1)) | apply (proj1 (fp_denote_inv e2))].
  - rewrite fp_neg_eval, IHe; [reflexivity | apply (proj1 (fp_denote_inv e))].
  - rewrite fp_pow_eval, IHe; [reflexivity | apply (proj1 (fp_denote_inv e))].
Qed.
