(* C11 -- the language of the property as a declarative (relational) grammar: which token
   lists are well-formed expressions and which AST each one denotes.  Definitions only.
     sum ::= prod | sum '+' prod | sum '-' prod          (left associative)
     prod ::= unary | prod '*' unary                     (left associative)
     unary ::= power | '-' unary
     power ::= atom | power '^' INTEGER-LITERAL
     atom ::= x | NUM | NUM i | '(' sum ')' *)
Require Import List NArith.
Require Import MPSV.Inline.InlineModel.
Import ListNotations.

Inductive d_atom : list token -> expr -> Prop :=
| d_x : d_atom [TX] X
| d_num : forall n d b, d_atom [TNum n d b] (Num n d false)
| d_inum : forall n d b, d_atom [TNum n d b; TI] (Num n d true)
| d_paren : forall ts e, d_sum ts e -> d_atom (TLP :: ts ++ [TRP]) e
with d_power : list token -> expr -> Prop :=
| d_pw_atom : forall ts e, d_atom ts e -> d_power ts e
| d_pw_pow : forall ts e k, d_power ts e -> d_power (ts ++ [TPow; TNum k 1 true]) (Pow e (N.to_nat k))
with d_unary : list token -> expr -> Prop :=
| d_un_power : forall ts e, d_power ts e -> d_unary ts e
| d_un_neg : forall ts e, d_unary ts e -> d_unary (TMinus :: ts) (Neg e)
with d_prod : list token -> expr -> Prop :=
| d_pr_unary : forall ts e, d_unary ts e -> d_prod ts e
| d_pr_mul : forall ts1 e1 ts2 e2, d_prod ts1 e1 -> d_unary ts2 e2 -> d_prod (ts1 ++ TTimes :: ts2) (Mul e1 e2)
with d_sum : list token -> expr -> Prop :=
| d_s_prod : forall ts e, d_prod ts e -> d_sum ts e
| d_s_add : forall ts1 e1 ts2 e2, d_sum ts1 e1 -> d_prod ts2 e2 -> d_sum (ts1 ++ TPlus :: ts2) (Add e1 e2)
| d_s_sub : forall ts1 e1 ts2 e2, d_sum ts1 e1 -> d_prod ts2 e2 -> d_sum (ts1 ++ TMinus :: ts2) (Sub e1 e2).

(* a token list is a well-formed expression of the property's language *)
Definition well_formed (ts : list token) : Prop := exists e, d_sum ts e.
