(* C11 -- bison's LALR automaton for yacc-parser.y (Gen/AutomatonGen.v, from `bison --xml`):
   its rules are those of GrammarGen, every conflict was resolved exactly as the %left/%right/%prec
   table of GrammarGen prescribes, nothing was left to bison's defaults, and the table-driven
   parser agrees with the reference parser on EVERY token list of length <= 6 (bounded, by
   computation in the kernel's VM). *)
Require Import List String Bool Arith Lia.
Require Import MPSV.Inline.InlineModel MPSV.Inline.InlineGrammar MPSV.Inline.InlineLR
               MPSV.Inline.Gen.GrammarGen MPSV.Inline.Gen.AutomatonGen.
Import ListNotations.
Open Scope list_scope.
Notation length := List.length.

Lemma table_from_precedence :
  rules_match grammar_gen automaton_gen = true /\
  solved_by_precedence grammar_gen automaton_gen = true /\
  deterministic automaton_gen = true.
Proof. vm_compute. repeat split. Qed.

Lemma agree_upto_S : forall a n suffix, agree_upto a (S n) suffix =
  agree a suffix && forallb (fun y => agree_upto a n (y :: suffix)) alphabet.
Proof. reflexivity. Qed.
Lemma lists_upto_S : forall n suffix, lists_upto (S n) suffix =
  suffix :: flat_map (fun y => lists_upto n (y :: suffix)) alphabet.
Proof. reflexivity. Qed.

Lemma agree_upto_sound : forall a n suffix, agree_upto a n suffix = true ->
  forall ys, In ys (lists_upto n suffix) -> agree a ys = true.
Proof.
  induction n as [|n IH]; intros suffix H ys Hin.
  - simpl in H, Hin. apply andb_prop in H. destruct H as [H _]. destruct Hin as [<-|[]]. exact H.
  - rewrite agree_upto_S in H. rewrite lists_upto_S in Hin.
    apply andb_prop in H. destruct H as [H1 H2]. destruct Hin as [<-|Hin]; [exact H1|].
    apply in_flat_map in Hin. destruct Hin as (y & Hy & Hin).
    rewrite forallb_forall in H2. apply (IH (y :: suffix)); [apply H2; exact Hy | exact Hin].
Qed.

Lemma lists_upto_complete : forall l n suffix, length l <= n -> Forall (fun y => In y alphabet) l ->
  In (rev l ++ suffix) (lists_upto n suffix).
Proof.
  induction l as [|y l IH]; intros n suffix Hn Hall.
  - destruct n; [simpl; left; reflexivity | rewrite lists_upto_S; left; reflexivity].
  - destruct n as [|n]; [simpl in Hn; lia|]. inversion Hall as [|? ? Hy Hl]; subst.
    rewrite lists_upto_S. right. apply in_flat_map. exists y. split; [exact Hy|].
    change (rev (y :: l)) with (rev l ++ [y]). rewrite <- app_assoc. apply IH; [simpl in Hn; lia | exact Hl].
Qed.

Lemma agree_6 : agree_upto automaton_gen 6 [] = true.
Proof. vm_cast_no_check (eq_refl true). Qed.

Theorem yacc_agrees_ref_bounded : forall ys : list ytoken,
  length ys <= 6 -> Forall (fun y => In y alphabet) ys -> agree automaton_gen ys = true.
Proof.
  intros ys Hn Hall. apply (agree_upto_sound automaton_gen 6 [] agree_6).
  rewrite <- (rev_involutive ys), <- (app_nil_r (rev (rev ys))).
  apply lists_upto_complete; [rewrite rev_length; exact Hn | apply Forall_rev; exact Hall].
Qed.
