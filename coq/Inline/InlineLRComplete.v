(* C11 -- completeness of bison's table for the declarative grammar, inputs of ANY length: every
   well-formed expression (d_sum) is accepted by the table-driven parser with exactly its AST, within
   the fuel of [lr_run].  Proved for the imported table by following the derivation: for each state
   that expects an operand (it has a goto on `polynomial`) and each precedence level it allows, a
   derivation at that level drives the parser from any stack with that state on top to the same stack
   with the goto state holding the AST, provided the lookahead does not bind tighter. *)
Require Import List String Bool Arith NArith Lia.
Require Import MPSV.Inline.InlineModel MPSV.Inline.InlineDecl MPSV.Inline.InlineGrammar MPSV.Inline.InlineLR
               MPSV.Inline.InlineLRSound MPSV.Inline.Gen.AutomatonGen.
Import ListNotations.
Open Scope string_scope.
Open Scope list_scope.
Notation length := List.length.

Notation A := automaton_gen.
Definition Reach (k : nat) (st1 : list (nat * sval)) (in1 : list ytoken) (st2 : list (nat * sval)) (in2 : list ytoken) : Prop :=
  forall f, lr_loop A (k + f) st1 in1 = lr_loop A f st2 in2.

Lemma reach_trans : forall k1 k2 s1 i1 s2 i2 s3 i3,
  Reach k1 s1 i1 s2 i2 -> Reach k2 s2 i2 s3 i3 -> Reach (k1 + k2) s1 i1 s3 i3.
Proof. intros k1 k2 s1 i1 s2 i2 s3 i3 H1 H2 f. rewrite <- Nat.add_assoc, H1. apply H2. Qed.

(* states that expect an operand: state, its goto on `polynomial`, weakest level allowed *)
Definition EX (s g l : nat) : Prop :=
  In (s, g, l) [(0, 6, 0); (4, 11, 0); (13, 19, 1); (14, 20, 1); (15, 21, 2); (3, 10, 2)].

Ltac excases H := unfold EX in H; simpl in H;
  repeat (destruct H as [H|H]; [inversion H; subst; clear H|]); try contradiction.
Ltac excasesH HE Hs := revert Hs; excases HE; intros Hs.
Ltac st1 Hs := rewrite lr_loop_S; rewrite ?Hs; cbn -[lr_loop]; rewrite ?Hs; cbn -[lr_loop].

Ltac st1la Hs H1 H2 := rewrite lr_loop_S; rewrite ?Hs; cbn -[lr_loop]; unfold chosen; cbn -[lr_loop]; rewrite ?H1, ?H2; cbn -[lr_loop];
  rewrite ?Hs; cbn -[lr_loop].
Definition IMAG := "IMAGINARY_UNIT".

Lemma L_x : forall s g l stack rest, EX s g l -> top_state stack = s ->
  Reach 3 stack (("MONOMIAL", TX) :: rest) ((g, VE X) :: stack) rest.
Proof.
  intros s g l stack rest HE Hs f. change (3 + f) with (S (S (S f))).
  excasesH HE Hs; st1 Hs; st1 Hs; st1 Hs; reflexivity.
Qed.

Lemma L_num : forall s g l stack rest nm n d b, EX s g l -> top_state stack = s ->
  nm = "RATIONAL" \/ nm = "FLOATING_POINT" -> la_of rest <> IMAG ->
  Reach 5 stack ((nm, TNum n d b) :: rest) ((g, VE (Num n d false)) :: stack) rest.
Proof.
  intros s g l stack rest nm n d b HE Hs Hn Hla f. change (5 + f) with (S (S (S (S (S f))))).
  apply String.eqb_neq in Hla. unfold IMAG in Hla.
  destruct Hn; subst nm; excasesH HE Hs; st1 Hs; st1 Hs;
    st1la Hs Hla Hla; st1 Hs; st1 Hs; reflexivity.
Qed.

Lemma L_inum : forall s g l stack rest nm n d b, EX s g l -> top_state stack = s ->
  nm = "RATIONAL" \/ nm = "FLOATING_POINT" ->
  Reach 6 stack ((nm, TNum n d b) :: ("IMAGINARY_UNIT", TI) :: rest) ((g, VE (Num n d true)) :: stack) rest.
Proof.
  intros s g l stack rest nm n d b HE Hs Hn f. change (6 + f) with (S (S (S (S (S (S f)))))).
  destruct Hn; subst nm; excasesH HE Hs; st1 Hs; st1 Hs; st1 Hs; st1 Hs; st1 Hs; st1 Hs; reflexivity.
Qed.

Lemma L_shift_operand : forall s g l stack rest, EX s g l -> top_state stack = s ->
  Reach 1 stack (("LEFT_BRACKET", TLP) :: rest) ((4, VT TLP) :: stack) rest /\
  Reach 1 stack (("MINUS", TMinus) :: rest) ((3, VT TMinus) :: stack) rest.
Proof.
  intros s g l stack rest HE Hs. split; intros f; change (1 + f) with (S f); excasesH HE Hs; st1 Hs; reflexivity.
Qed.

Lemma L_rparen : forall s g l stack rest e, EX s g l -> top_state stack = s ->
  Reach 2 ((11, VE e) :: (4, VT TLP) :: stack) (("RIGHT_BRACKET", TRP) :: rest) ((g, VE e) :: stack) rest.
Proof.
  intros s g l stack rest e HE Hs f. change (2 + f) with (S (S f)).
  st1 Hs. excasesH HE Hs; st1 Hs; reflexivity.
Qed.

Lemma L_pow : forall s g l stack rest e k, EX s g l -> top_state stack = s ->
  Reach 3 ((g, VE e) :: stack) (("SUPERSCRIPT", TPow) :: ("RATIONAL", TNum k 1 true) :: rest)
          ((g, VE (Pow e (N.to_nat k))) :: stack) rest.
Proof.
  intros s g l stack rest e k HE Hs f. change (3 + f) with (S (S (S f))).
  excasesH HE Hs; st1 Hs; st1 Hs; st1 Hs; reflexivity.
Qed.

Lemma L_neg : forall s g l stack rest e, EX s g l -> top_state stack = s -> la_of rest <> "SUPERSCRIPT" ->
  Reach 1 ((10, VE e) :: (3, VT TMinus) :: stack) rest ((g, VE (Neg e)) :: stack) rest.
Proof.
  intros s g l stack rest e HE Hs Hla f. change (1 + f) with (S f). apply String.eqb_neq in Hla.
  excasesH HE Hs; st1la Hs Hla Hla; reflexivity.
Qed.

Lemma L_times : forall s g l stack rest e, EX s g l -> l <= 1 ->
  Reach 1 ((g, VE e) :: stack) (("TIMES", TTimes) :: rest) ((15, VT TTimes) :: (g, VE e) :: stack) rest.
Proof.
  intros s g l stack rest e HE Hl f. change (1 + f) with (S f).
  excases HE; try lia; rewrite lr_loop_S; cbn -[lr_loop]; reflexivity.
Qed.

Lemma L_mul : forall s g l stack rest e1 e2, EX s g l -> top_state stack = s -> la_of rest <> "SUPERSCRIPT" ->
  Reach 1 ((21, VE e2) :: (15, VT TTimes) :: (g, VE e1) :: stack) rest ((g, VE (Mul e1 e2)) :: stack) rest.
Proof.
  intros s g l stack rest e1 e2 HE Hs Hla f. change (1 + f) with (S f). apply String.eqb_neq in Hla.
  excasesH HE Hs; st1la Hs Hla Hla; reflexivity.
Qed.

Lemma L_plusminus : forall s g stack rest e, EX s g 0 ->
  Reach 1 ((g, VE e) :: stack) (("PLUS", TPlus) :: rest) ((13, VT TPlus) :: (g, VE e) :: stack) rest /\
  Reach 1 ((g, VE e) :: stack) (("MINUS", TMinus) :: rest) ((14, VT TMinus) :: (g, VE e) :: stack) rest.
Proof.
  intros s g stack rest e HE. split; intros f; change (1 + f) with (S f);
    excases HE; rewrite lr_loop_S; cbn -[lr_loop]; reflexivity.
Qed.

Lemma L_addsub : forall s g l stack rest e1 e2, EX s g l -> top_state stack = s ->
  la_of rest <> "SUPERSCRIPT" -> la_of rest <> "TIMES" ->
  Reach 1 ((19, VE e2) :: (13, VT TPlus) :: (g, VE e1) :: stack) rest ((g, VE (Add e1 e2)) :: stack) rest /\
  Reach 1 ((20, VE e2) :: (14, VT TMinus) :: (g, VE e1) :: stack) rest ((g, VE (Sub e1 e2)) :: stack) rest.
Proof.
  intros s g l stack rest e1 e2 HE Hs H1 H2. apply String.eqb_neq in H1. apply String.eqb_neq in H2.
  split; intros f; change (1 + f) with (S f); excasesH HE Hs; st1la Hs H1 H2; reflexivity.
Qed.

Lemma L_accept : forall e f, lr_loop A (2 + f) [(6, VE e)] [] = LAccept e.
Proof. intros. reflexivity. Qed.

(* ------------------------------------------------------------------ following a derivation *)
Definition la_ok (lv : nat) (la : string) : Prop :=
  la <> IMAG /\ (lv < 3 -> la <> "SUPERSCRIPT") /\ (lv < 1 -> la <> "TIMES").

Definition Q (lv : nat) (ts : list token) (e : expr) : Prop :=
  forall s g l stack ys rest, EX s g l -> l <= lv -> top_state stack = s ->
    map snd ys = ts -> Forall ytok_ok ys -> la_ok lv (la_of rest) ->
    exists k, k <= 6 * length ts /\ Reach k stack (ys ++ rest) ((g, VE e) :: stack) rest.

Scheme d_atom_mi := Minimality for d_atom Sort Prop
  with d_power_mi := Minimality for d_power Sort Prop
  with d_unary_mi := Minimality for d_unary Sort Prop
  with d_prod_mi := Minimality for d_prod Sort Prop
  with d_sum_mi := Minimality for d_sum Sort Prop.
Combined Scheme d_all_mi from d_atom_mi, d_power_mi, d_unary_mi, d_prod_mi, d_sum_mi.

Lemma split_map : forall (ts1 : list token) t ts2 (ys : list ytoken), map snd ys = ts1 ++ t :: ts2 ->
  exists ys1 n ys2, ys = ys1 ++ (n, t) :: ys2 /\ map snd ys1 = ts1 /\ map snd ys2 = ts2.
Proof.
  induction ts1 as [|t1 ts1 IH]; intros t ts2 ys H.
  - destruct ys as [|[n t'] ys]; simpl in H; [discriminate|]. inversion H; subst.
    exists [], n, ys. repeat split.
  - destruct ys as [|[n t'] ys]; simpl in H; [discriminate|]. inversion H as [[E1 E2]]; subst.
    destruct (IH _ _ _ E2) as (ys1 & n' & ys2 & -> & H1 & H2).
    exists ((n, t1) :: ys1), n', ys2. repeat split; simpl; congruence.
Qed.

Lemma la_ok_weaken : forall lv lv' la, lv <= lv' -> la_ok lv la -> la_ok lv' la.
Proof. intros lv lv' la H (H1 & H2 & H3). repeat split; auto; intros; [apply H2 | apply H3]; lia. Qed.

Lemma EX_any : forall s g l, EX s g l -> l <= 2.
Proof. intros s g l H. excases H; lia. Qed.

Ltac lensolve :=
  repeat match goal with H : _ <= 6 * _ |- _ => rewrite ?map_length, ?app_length in H; cbn [List.length] in H; revert H end; intros;
  cbn [List.length]; rewrite ?map_length, ?app_length; cbn [List.length]; rewrite ?map_length, ?app_length; cbn [List.length]; lia.

Lemma derive_all :
  (forall ts e, d_atom ts e -> Q 3 ts e) /\ (forall ts e, d_power ts e -> Q 3 ts e) /\
  (forall ts e, d_unary ts e -> Q 2 ts e) /\ (forall ts e, d_prod ts e -> Q 1 ts e) /\
  (forall ts e, d_sum ts e -> Q 0 ts e).
Proof.
  apply d_all_mi.
  - (* x *) intros s g l stack ys rest HE Hl Hs Hm Hall Hla. subst s. pose proof (eq_refl (top_state stack)) as Hs.
    destruct ys as [|[n t] [|? ?]]; simpl in Hm; try discriminate. inversion Hm; subst t.
    inversion Hall as [|? ? Hy _]; subst. unfold ytok_ok in Hy; simpl in Hy; subst n.
    exists 3. split; [lensolve|]. eapply L_x; eassumption.
  - (* num *) intros n d b s g l stack ys rest HE Hl Hs Hm Hall Hla. subst s. pose proof (eq_refl (top_state stack)) as Hs.
    destruct ys as [|[nm t] [|? ?]]; simpl in Hm; try discriminate. inversion Hm; subst t.
    inversion Hall as [|? ? Hy _]; subst. unfold ytok_ok in Hy; simpl in Hy.
    exists 5. split; [lensolve|]. eapply L_num; try eassumption.
    + destruct b; [left; exact Hy | exact Hy].
    + apply Hla.
  - (* num i *) intros n d b s g l stack ys rest HE Hl Hs Hm Hall Hla. subst s. pose proof (eq_refl (top_state stack)) as Hs.
    destruct ys as [|[nm t] [|[nm2 t2] [|? ?]]]; simpl in Hm; try discriminate. inversion Hm; subst t t2.
    inversion Hall as [|? ? Hy Hall2]; subst. inversion Hall2 as [|? ? Hy2 _]; subst.
    unfold ytok_ok in Hy, Hy2; simpl in Hy, Hy2. subst nm2.
    exists 6. split; [lensolve|]. eapply L_inum; try eassumption.
    destruct b; [left; exact Hy | exact Hy].
  - (* ( sum ) *) intros ts e _ IH s g l stack ys rest HE Hl Hs Hm Hall Hla. subst s. pose proof (eq_refl (top_state stack)) as Hs.
    destruct ys as [|[n1 t1] ys]; simpl in Hm; [discriminate|]. inversion Hm as [[E1 E2]]; subst t1.
    destruct (split_map _ _ _ _ E2) as (ys1 & n2 & ys2 & -> & M1 & M2).
    destruct ys2; [|discriminate]. clear M2.
    inversion Hall as [|? ? Hy1 Hall1]; subst. apply Forall_app in Hall1. destruct Hall1 as [Hall1 Hall2].
    inversion Hall2 as [|? ? Hy2 _]; subst. unfold ytok_ok in Hy1, Hy2; simpl in Hy1, Hy2. subst n1 n2.
    destruct (L_shift_operand (top_state stack) g l stack ((ys1 ++ [("RIGHT_BRACKET", TRP)]) ++ rest) HE Hs) as [R1 _].
    destruct (IH 4 11 0 ((4, VT TLP) :: stack) ys1 (("RIGHT_BRACKET", TRP) :: rest)) as (k & Hk & R2); auto.
    { unfold EX; simpl; tauto. }
    { simpl. repeat split; intros; discriminate. }
    pose proof (L_rparen (top_state stack) g l stack rest e HE Hs) as R3.
    exists (1 + (k + 2)). split; [lensolve|].
    eapply reach_trans; [exact R1|]. rewrite <- app_assoc; cbn [app]. eapply reach_trans; [exact R2 | exact R3].
  - (* power: atom *) intros ts e _ IH. exact IH.
  - (* power ^ k *) intros ts e k _ IH s g l stack ys rest HE Hl Hs Hm Hall Hla. subst s. pose proof (eq_refl (top_state stack)) as Hs.
    destruct (split_map _ _ _ _ Hm) as (ys1 & n1 & ys2 & -> & M1 & M2).
    destruct ys2 as [|[n2 t2] [|? ?]]; simpl in M2; try discriminate. inversion M2; subst t2.
    apply Forall_app in Hall. destruct Hall as [Hall1 Hall2].
    inversion Hall2 as [|? ? Hy1 Hall3]; subst. inversion Hall3 as [|? ? Hy2 _]; subst.
    unfold ytok_ok in Hy1, Hy2; simpl in Hy1, Hy2. subst n1 n2.
    destruct (IH (top_state stack) g l stack ys1 (("SUPERSCRIPT", TPow) :: ("RATIONAL", TNum k 1 true) :: rest)) as (k1 & Hk & R1); auto.
    { simpl. repeat split; intros; try discriminate; lia. }
    pose proof (L_pow (top_state stack) g l stack rest e k HE Hs) as R2.
    exists (k1 + 3). split; [lensolve|].
    rewrite <- app_assoc; cbn [app]. eapply reach_trans; [exact R1 | exact R2].
  - (* unary: power *) intros ts e _ IH s g l stack ys rest HE Hl Hs Hm Hall Hla. subst s. pose proof (eq_refl (top_state stack)) as Hs.
    pose proof (EX_any _ _ _ HE); apply (IH (top_state stack) g l stack ys rest HE); auto; try lia; try (eapply la_ok_weaken; [|exact Hla]; lia).
  - (* - unary *) intros ts e _ IH s g l stack ys rest HE Hl Hs Hm Hall Hla. subst s. pose proof (eq_refl (top_state stack)) as Hs.
    destruct ys as [|[n1 t1] ys]; simpl in Hm; [discriminate|]. inversion Hm as [[E1 E2]]; subst t1.
    inversion Hall as [|? ? Hy1 Hall1]; subst. unfold ytok_ok in Hy1; simpl in Hy1. subst n1.
    destruct (L_shift_operand (top_state stack) g l stack (ys ++ rest) HE Hs) as [_ R1].
    destruct (IH 3 10 2 ((3, VT TMinus) :: stack) ys rest) as (k & Hk & R2); auto.
    { unfold EX; simpl; tauto. }
    assert (Hc : la_of rest <> "SUPERSCRIPT") by (apply Hla; lia).
    pose proof (L_neg (top_state stack) g l stack rest e HE Hs Hc) as R3.
    exists (1 + (k + 1)). split; [lensolve|].
    eapply reach_trans; [exact R1|]. eapply reach_trans; [exact R2 | exact R3].
  - (* prod: unary *) intros ts e _ IH s g l stack ys rest HE Hl Hs Hm Hall Hla. subst s. pose proof (eq_refl (top_state stack)) as Hs.
    pose proof (EX_any _ _ _ HE); apply (IH (top_state stack) g l stack ys rest HE); auto; try lia; try (eapply la_ok_weaken; [|exact Hla]; lia).
  - (* prod * unary *) intros ts1 e1 ts2 e2 _ IH1 _ IH2 s g l stack ys rest HE Hl Hs Hm Hall Hla. subst s. pose proof (eq_refl (top_state stack)) as Hs.
    destruct (split_map _ _ _ _ Hm) as (ys1 & n1 & ys2 & -> & M1 & M2).
    apply Forall_app in Hall. destruct Hall as [Hall1 Hall2]. inversion Hall2 as [|? ? Hy1 Hall3]; subst.
    unfold ytok_ok in Hy1; simpl in Hy1. subst n1.
    destruct (IH1 (top_state stack) g l stack ys1 (("TIMES", TTimes) :: ys2 ++ rest)) as (k1 & Hk1 & R1); auto.
    { simpl. repeat split; intros; try discriminate; lia. }
    pose proof (L_times (top_state stack) g l stack (ys2 ++ rest) e1 HE Hl) as R2.
    destruct (IH2 15 21 2 ((15, VT TTimes) :: (g, VE e1) :: stack) ys2 rest) as (k2 & Hk2 & R3); auto.
    { unfold EX; simpl; tauto. }
    { destruct Hla as (H1 & H2 & H3). split; [exact H1|]. split; intros; [apply H2; lia | exfalso; lia]. }
    assert (Hc : la_of rest <> "SUPERSCRIPT") by (apply Hla; lia).
    pose proof (L_mul (top_state stack) g l stack rest e1 e2 HE Hs Hc) as R4.
    exists (k1 + (1 + (k2 + 1))). split; [lensolve|].
    rewrite <- app_assoc; cbn [app].
    eapply reach_trans; [exact R1|]. eapply reach_trans; [exact R2|]. eapply reach_trans; [exact R3 | exact R4].
  - (* sum: prod *) intros ts e _ IH s g l stack ys rest HE Hl Hs Hm Hall Hla. subst s. pose proof (eq_refl (top_state stack)) as Hs.
    pose proof (EX_any _ _ _ HE); apply (IH (top_state stack) g l stack ys rest HE); auto; try lia; try (eapply la_ok_weaken; [|exact Hla]; lia).
  - (* sum + prod *) intros ts1 e1 ts2 e2 _ IH1 _ IH2 s g l stack ys rest HE Hl Hs Hm Hall Hla. subst s. pose proof (eq_refl (top_state stack)) as Hs.
    assert (l = 0) by lia. subst l.
    destruct (split_map _ _ _ _ Hm) as (ys1 & n1 & ys2 & -> & M1 & M2).
    apply Forall_app in Hall. destruct Hall as [Hall1 Hall2]. inversion Hall2 as [|? ? Hy1 Hall3]; subst.
    unfold ytok_ok in Hy1; simpl in Hy1. subst n1.
    destruct (IH1 (top_state stack) g 0 stack ys1 (("PLUS", TPlus) :: ys2 ++ rest)) as (k1 & Hk1 & R1); auto.
    { simpl. repeat split; intros; discriminate. }
    destruct (L_plusminus (top_state stack) g stack (ys2 ++ rest) e1 HE) as [R2 _].
    destruct (IH2 13 19 1 ((13, VT TPlus) :: (g, VE e1) :: stack) ys2 rest) as (k2 & Hk2 & R3); auto.
    { unfold EX; simpl; tauto. }
    { destruct Hla as (H1 & H2 & H3). split; [exact H1|]. split; intros; [apply H2; lia | exfalso; lia]. }
    assert (Hc1 : la_of rest <> "SUPERSCRIPT") by (apply Hla; lia).
    assert (Hc2 : la_of rest <> "TIMES") by (apply Hla; lia).
    destruct (L_addsub (top_state stack) g 0 stack rest e1 e2 HE Hs Hc1 Hc2) as [R4 _].
    exists (k1 + (1 + (k2 + 1))). split; [lensolve|].
    rewrite <- app_assoc; cbn [app].
    eapply reach_trans; [exact R1|]. eapply reach_trans; [exact R2|]. eapply reach_trans; [exact R3 | exact R4].
  - (* sum - prod *) intros ts1 e1 ts2 e2 _ IH1 _ IH2 s g l stack ys rest HE Hl Hs Hm Hall Hla. subst s. pose proof (eq_refl (top_state stack)) as Hs.
    assert (l = 0) by lia. subst l.
    destruct (split_map _ _ _ _ Hm) as (ys1 & n1 & ys2 & -> & M1 & M2).
    apply Forall_app in Hall. destruct Hall as [Hall1 Hall2]. inversion Hall2 as [|? ? Hy1 Hall3]; subst.
    unfold ytok_ok in Hy1; simpl in Hy1. subst n1.
    destruct (IH1 (top_state stack) g 0 stack ys1 (("MINUS", TMinus) :: ys2 ++ rest)) as (k1 & Hk1 & R1); auto.
    { simpl. repeat split; intros; discriminate. }
    destruct (L_plusminus (top_state stack) g stack (ys2 ++ rest) e1 HE) as [_ R2].
    destruct (IH2 14 20 1 ((14, VT TMinus) :: (g, VE e1) :: stack) ys2 rest) as (k2 & Hk2 & R3); auto.
    { unfold EX; simpl; tauto. }
    { destruct Hla as (H1 & H2 & H3). split; [exact H1|]. split; intros; [apply H2; lia | exfalso; lia]. }
    assert (Hc1 : la_of rest <> "SUPERSCRIPT") by (apply Hla; lia).
    assert (Hc2 : la_of rest <> "TIMES") by (apply Hla; lia).
    destruct (L_addsub (top_state stack) g 0 stack rest e1 e2 HE Hs Hc1 Hc2) as [_ R4].
    exists (k1 + (1 + (k2 + 1))). split; [lensolve|].
    rewrite <- app_assoc; cbn [app].
    eapply reach_trans; [exact R1|]. eapply reach_trans; [exact R2|]. eapply reach_trans; [exact R3 | exact R4].
Qed.

(* fuel left over does not matter once the run has finished *)
Theorem yacc_complete : forall ys e, Forall ytok_ok ys -> d_sum (map snd ys) e -> lr_run A ys = LAccept e.
Proof.
  intros ys e Hall D.
  pose proof (proj2 (proj2 (proj2 (proj2 derive_all))) _ _ D) as HQ.
  assert (HE : EX 0 6 0) by (unfold EX; simpl; tauto).
  assert (Hla : la_ok 0 (la_of [])) by (simpl; repeat split; intros; discriminate).
  destruct (HQ 0 6 0 [] ys [] HE (le_n 0) eq_refl eq_refl Hall Hla) as (k & Hk & R).
  unfold lr_run. rewrite map_length in Hk. rewrite app_nil_r in R.
  unfold ytoken in *.
  replace (8 * length ys + 16) with (k + (2 + (8 * length ys + 14 - k))) by lia.
  rewrite R. apply L_accept.
Qed.
