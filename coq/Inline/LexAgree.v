(* C11 -- the hand-written scanner model (InlineModel.lex / InlineLR.ylex) agrees with the scanner GENERATED from
   tokenizer.l on every string. *)
Require Import List Ascii String Bool Arith NArith Lia.
Require Import MPSV.Inline.InlineModel MPSV.Inline.InlineGrammar MPSV.Inline.InlineLR MPSV.Inline.LexModel MPSV.Inline.LexSpec
               MPSV.Inline.Gen.LexerGen MPSV.Inline.LexPipeline MPSV.Inline.LexPipelineProofs.
Import ListNotations.
Open Scope list_scope.
Notation ch c k := (nat_of_ascii c =? k)%nat.

Local Arguments is_digit : simpl never.
Local Arguments is_e : simpl never.
Local Arguments nat_of_ascii : simpl never.

Definition R : lexrules := with_default expected_lexer.
Definition Rs : list regex := map fst R.

(* ------------------------------------------------------------------ generic facts about [lm] *)
Lemma lm_cons : forall rs c s, lm rs (c :: s) =
  if forallb is_empty (step rs c) then None else
  match lm (step rs c) s with
  | Some (i, n) => Some (i, S n)
  | None => match first_nullable (step rs c) with Some i => Some (i, 1) | None => None end
  end.
Proof. reflexivity. Qed.

Lemma lm_same_steps : forall rs1 rs2, (forall c, step rs1 c = step rs2 c) -> forall s, lm rs1 s = lm rs2 s.
Proof. intros rs1 rs2 H [|c s]; [reflexivity|]. rewrite !lm_cons, H. reflexivity. Qed.

Definition final (r : regex) : bool := is_empty r || is_eps r.
Lemma final_step : forall rs c, forallb final rs = true -> forallb is_empty (step rs c) = true.
Proof.
  induction rs as [|r rs IH]; intros c H; [reflexivity|]. simpl in H. apply andb_true_iff in H. destruct H as [H1 H2].
  simpl. rewrite (IH c H2), andb_true_r. destruct r; try discriminate; reflexivity.
Qed.
Lemma lm_final : forall rs s, forallb final rs = true -> lm rs s = None.
Proof. intros rs [|c s] H; [reflexivity|]. rewrite lm_cons, (final_step rs c H). reflexivity. Qed.
Lemma lm_dead_step : forall rs c s, forallb is_empty (step rs c) = true -> lm rs (c :: s) = None.
Proof. intros rs c s H. rewrite lm_cons, H. reflexivity. Qed.

(* a state that loops on the characters of a class *)
Lemma lm_loop : forall (S : list regex) (P : ascii -> bool) (idx : nat),
  (forall c, P c = true -> step S c = S) -> forallb is_empty S = false -> first_nullable S = Some idx ->
  forall ds r, forallb P ds = true ->
  lm S (ds ++ r) = match lm S r with
                   | Some (i, n) => Some (i, length ds + n)
                   | None => match ds with [] => None | _ => Some (idx, length ds) end
                   end.
Proof.
  intros S P idx HS HE HF ds r. induction ds as [|d ds IH]; intro HP.
  - simpl. destruct (lm S r) as [[i n]|]; reflexivity.
  - simpl in HP. apply andb_true_iff in HP. destruct HP as [Hd Hds].
    change ((d :: ds) ++ r) with (d :: (ds ++ r)). rewrite lm_cons, (HS d Hd), HE, (IH Hds), HF.
    destruct (lm S r) as [[i n]|]; [reflexivity|]. destruct ds; reflexivity.
Qed.

(* ------------------------------------------------------------------ the automaton of the generated rules, by computation *)
Open Scope char_scope.
Definition A1 := step Rs "0".
Definition A := step A1 "0".
Definition B := step A "/".
Definition Cd := step B "0".
Definition F := step A ".".
Definition E1 := step A "e".
Definition E2 := step E1 "+".
Definition E3 := step E1 "0".
Definition W1 := step Rs " ".
Definition W2 := step W1 " ".
Definition Dead := map (fun _ : regex => REmpty) Rs.
Close Scope char_scope.

Definition is_blank (c : ascii) : bool := ch c 32 || ch c 9.
Definition is_sign (c : ascii) : bool := ch c 43 || ch c 45.
Local Arguments is_blank : simpl never.
Local Arguments is_sign : simpl never.

Ltac all_chars c H :=
  destruct c as [[] [] [] [] [] [] [] []]; vm_compute in H; try discriminate H; vm_compute; reflexivity.

Lemma Rs_digit : forall c, is_digit c = true -> step Rs c = A1.  Proof. intros c H. all_chars c H. Qed.
Lemma Rs_blank : forall c, is_blank c = true -> step Rs c = W1.  Proof. intros c H. all_chars c H. Qed.
Lemma A1_as_A : forall c, step A1 c = step A c.
Proof. intro c. destruct c as [[] [] [] [] [] [] [] []]; vm_compute; reflexivity. Qed.
Lemma A_digit : forall c, is_digit c = true -> step A c = A.  Proof. intros c H. all_chars c H. Qed.
Lemma A_slash : forall c, ch c 47 = true -> step A c = B.  Proof. intros c H. all_chars c H. Qed.
Lemma A_dot : forall c, ch c 46 = true -> step A c = F.  Proof. intros c H. all_chars c H. Qed.
Lemma A_e : forall c, is_e c = true -> step A c = E1.  Proof. intros c H. all_chars c H. Qed.
Lemma A_other : forall c, negb (is_digit c) && negb (ch c 47) && negb (ch c 46) && negb (is_e c) = true -> step A c = Dead.
Proof. intros c H. all_chars c H. Qed.
Lemma B_digit : forall c, is_digit c = true -> step B c = Cd.  Proof. intros c H. all_chars c H. Qed.
Lemma B_other : forall c, is_digit c = false -> step B c = Dead.  Proof. intros c H. all_chars c H. Qed.
Lemma C_digit : forall c, is_digit c = true -> step Cd c = Cd.  Proof. intros c H. all_chars c H. Qed.
Lemma C_other : forall c, is_digit c = false -> step Cd c = Dead.  Proof. intros c H. all_chars c H. Qed.
Lemma F_digit : forall c, is_digit c = true -> step F c = F.  Proof. intros c H. all_chars c H. Qed.
Lemma F_e : forall c, is_e c = true -> step F c = E1.  Proof. intros c H. all_chars c H. Qed.
Lemma F_other : forall c, negb (is_digit c) && negb (is_e c) = true -> step F c = Dead.  Proof. intros c H. all_chars c H. Qed.
Lemma E1_sign : forall c, is_sign c = true -> step E1 c = E2.  Proof. intros c H. all_chars c H. Qed.
Lemma E1_digit : forall c, is_digit c = true -> step E1 c = E3.  Proof. intros c H. all_chars c H. Qed.
Lemma E1_other : forall c, negb (is_digit c) && negb (is_sign c) = true -> step E1 c = Dead.  Proof. intros c H. all_chars c H. Qed.
Lemma E2_digit : forall c, is_digit c = true -> step E2 c = E3.  Proof. intros c H. all_chars c H. Qed.
Lemma E2_other : forall c, is_digit c = false -> step E2 c = Dead.  Proof. intros c H. all_chars c H. Qed.
Lemma E3_digit : forall c, is_digit c = true -> step E3 c = E3.  Proof. intros c H. all_chars c H. Qed.
Lemma E3_other : forall c, is_digit c = false -> step E3 c = Dead.  Proof. intros c H. all_chars c H. Qed.
Lemma W1_blank : forall c, is_blank c = true -> step W1 c = W2.  Proof. intros c H. all_chars c H. Qed.
Lemma W1_other : forall c, is_blank c = false -> step W1 c = Dead.  Proof. intros c H. all_chars c H. Qed.
Lemma W2_blank : forall c, is_blank c = true -> step W2 c = W2.  Proof. intros c H. all_chars c H. Qed.
Lemma W2_other : forall c, is_blank c = false -> step W2 c = Dead.  Proof. intros c H. all_chars c H. Qed.

Lemma AE_Dead : forallb is_empty Dead = true.  Proof. reflexivity. Qed.
Lemma AE_A1 : forallb is_empty A1 = false.  Proof. reflexivity. Qed.
Lemma AE_A : forallb is_empty A = false.  Proof. reflexivity. Qed.
Lemma AE_B : forallb is_empty B = false.  Proof. reflexivity. Qed.
Lemma AE_C : forallb is_empty Cd = false.  Proof. reflexivity. Qed.
Lemma AE_F : forallb is_empty F = false.  Proof. reflexivity. Qed.
Lemma AE_E1 : forallb is_empty E1 = false.  Proof. reflexivity. Qed.
Lemma AE_E2 : forallb is_empty E2 = false.  Proof. reflexivity. Qed.
Lemma AE_E3 : forallb is_empty E3 = false.  Proof. reflexivity. Qed.
Lemma AE_W1 : forallb is_empty W1 = false.  Proof. reflexivity. Qed.
Lemma AE_W2 : forallb is_empty W2 = false.  Proof. reflexivity. Qed.
Lemma FN_A1 : first_nullable A1 = Some 0.  Proof. reflexivity. Qed.
Lemma FN_A : first_nullable A = Some 0.  Proof. reflexivity. Qed.
Lemma FN_B : first_nullable B = None.  Proof. reflexivity. Qed.
Lemma FN_C : first_nullable Cd = Some 0.  Proof. reflexivity. Qed.
Lemma FN_F : first_nullable F = Some 1.  Proof. reflexivity. Qed.
Lemma FN_E1 : first_nullable E1 = None.  Proof. reflexivity. Qed.
Lemma FN_E2 : first_nullable E2 = None.  Proof. reflexivity. Qed.
Lemma FN_E3 : first_nullable E3 = Some 1.  Proof. reflexivity. Qed.
Lemma FN_W1 : first_nullable W1 = Some 10.  Proof. reflexivity. Qed.
Lemma FN_W2 : first_nullable W2 = Some 10.  Proof. reflexivity. Qed.

(* ------------------------------------------------------------------ character classes of the hand-written model *)
Ltac chars_fact c H := destruct c as [[] [] [] [] [] [] [] []]; vm_compute in H; try discriminate H; vm_compute; auto.
Lemma e_not_digit : forall c, is_e c = true -> is_digit c = false.  Proof. intros c H. chars_fact c H. Qed.
Lemma e_not_sign : forall c, is_e c = true -> is_sign c = false.  Proof. intros c H. chars_fact c H. Qed.
Lemma sign_not_digit : forall c, is_sign c = true -> is_digit c = false.  Proof. intros c H. chars_fact c H. Qed.
Lemma slash_facts : forall c, ch c 47 = true -> is_digit c = false /\ ch c 46 = false /\ is_e c = false.  Proof. intros c H. chars_fact c H. Qed.
Lemma dot_facts : forall c, ch c 46 = true -> is_digit c = false /\ ch c 47 = false /\ is_e c = false.  Proof. intros c H. chars_fact c H. Qed.
Lemma e_facts : forall c, is_e c = true -> ch c 47 = false /\ ch c 46 = false.  Proof. intros c H. chars_fact c H. Qed.

Definition stopd (r : list ascii) : Prop := match r with [] => True | c :: _ => is_digit c = false end.

Lemma span_digits_spec : forall s d r, span_digits s = (d, r) -> s = d ++ r /\ forallb is_digit d = true /\ stopd r.
Proof.
  induction s as [|c s IH]; intros d r H; simpl in H.
  - inversion H; subst. repeat split.
  - destruct (is_digit c) eqn:Ed.
    + destruct (span_digits s) as [d' r'] eqn:Es. inversion H; subst. destruct (IH d' r eq_refl) as (E & D & St).
      subst s. simpl. rewrite Ed, D. repeat split. exact St.
    + inversion H; subst. simpl. repeat split. exact Ed.
Qed.
Lemma span_digits_app : forall d r, forallb is_digit d = true -> stopd r -> span_digits (d ++ r) = (d, r).
Proof.
  induction d as [|c d IH]; intros r Hd Hr; simpl.
  - destruct r as [|c r]; [reflexivity|]. simpl in Hr. simpl. rewrite Hr. reflexivity.
  - simpl in Hd. apply andb_true_iff in Hd. destruct Hd as [Hc Hd]. rewrite Hc, (IH r Hd Hr). reflexivity.
Qed.
Lemma span_digits_all : forall d, forallb is_digit d = true -> span_digits d = (d, []).
Proof. intros d H. rewrite <- (app_nil_r d) at 1. apply span_digits_app; [exact H | exact I]. Qed.

(* ------------------------------------------------------------------ runs of digits in the looping states *)
Lemma lm_nil : forall rs, lm rs [] = None.  Proof. reflexivity. Qed.

Lemma stop_dead : forall S r, (forall c, is_digit c = false -> step S c = Dead) -> stopd r -> lm S r = None.
Proof.
  intros S [|c r] HS Hr; [reflexivity|]. simpl in Hr. apply lm_dead_step. rewrite (HS c Hr). exact AE_Dead.
Qed.

Lemma run_loop : forall S idx, (forall c, is_digit c = true -> step S c = S) -> (forall c, is_digit c = false -> step S c = Dead) ->
  forallb is_empty S = false -> first_nullable S = Some idx ->
  forall ds r, forallb is_digit ds = true -> stopd r ->
  lm S (ds ++ r) = match ds with [] => None | _ => Some (idx, length ds) end.
Proof.
  intros S idx H1 H2 H3 H4 ds r Hd Hr. rewrite (lm_loop S is_digit idx H1 H3 H4 ds r Hd), (stop_dead S r H2 Hr). reflexivity.
Qed.
(* a state that must see one digit before it loops in S' *)
Lemma run_enter : forall S S' idx, (forall c, is_digit c = true -> step S c = S') -> (forall c, is_digit c = false -> step S c = Dead) ->
  (forall c, is_digit c = true -> step S' c = S') -> (forall c, is_digit c = false -> step S' c = Dead) ->
  forallb is_empty S' = false -> first_nullable S' = Some idx ->
  forall ds r, forallb is_digit ds = true -> stopd r ->
  lm S (ds ++ r) = match ds with [] => None | _ => Some (idx, length ds) end.
Proof.
  intros S S' idx H1 H2 H3 H4 H5 H6 [|d ds] r Hd Hr.
  - simpl. apply stop_dead; assumption.
  - simpl in Hd. apply andb_true_iff in Hd. destruct Hd as [Hc Hd].
    change ((d :: ds) ++ r) with (d :: (ds ++ r)). rewrite lm_cons, (H1 d Hc), H5, (run_loop S' idx H3 H4 H5 H6 ds r Hd Hr), H6.
    destruct ds; reflexivity.
Qed.

Lemma run_C : forall ds r, forallb is_digit ds = true -> stopd r -> lm Cd (ds ++ r) = match ds with [] => None | _ => Some (0, length ds) end.
Proof. apply (run_loop Cd 0 C_digit C_other AE_C FN_C). Qed.
Lemma run_B : forall ds r, forallb is_digit ds = true -> stopd r -> lm B (ds ++ r) = match ds with [] => None | _ => Some (0, length ds) end.
Proof. apply (run_enter B Cd 0 B_digit B_other C_digit C_other AE_C FN_C). Qed.
Lemma run_E3 : forall ds r, forallb is_digit ds = true -> stopd r -> lm E3 (ds ++ r) = match ds with [] => None | _ => Some (1, length ds) end.
Proof. apply (run_loop E3 1 E3_digit E3_other AE_E3 FN_E3). Qed.
Lemma run_E2 : forall ds r, forallb is_digit ds = true -> stopd r -> lm E2 (ds ++ r) = match ds with [] => None | _ => Some (1, length ds) end.
Proof. apply (run_enter E2 E3 1 E2_digit E2_other E3_digit E3_other AE_E3 FN_E3). Qed.

(* after the exponent marker *)
Lemma run_E1_sign : forall sg ds r, is_sign sg = true -> forallb is_digit ds = true -> stopd r ->
  lm E1 (sg :: ds ++ r) = match ds with [] => None | _ => Some (1, S (length ds)) end.
Proof.
  intros sg ds r Hs Hd Hr. rewrite lm_cons, (E1_sign sg Hs), AE_E2, (run_E2 ds r Hd Hr), FN_E2. destruct ds; reflexivity.
Qed.
Lemma run_E1_digits : forall ds r, forallb is_digit ds = true -> stopd r ->
  (ds = [] -> match r with c :: _ => is_sign c = false | [] => True end) ->
  lm E1 (ds ++ r) = match ds with [] => None | _ => Some (1, length ds) end.
Proof.
  intros [|d ds] r Hd Hr Hs.
  - simpl. destruct r as [|c r]; [reflexivity|]. simpl in Hr. specialize (Hs eq_refl). simpl in Hs.
    apply lm_dead_step. rewrite E1_other; [exact AE_Dead | rewrite Hr, Hs; reflexivity].
  - simpl in Hd. apply andb_true_iff in Hd. destruct Hd as [Hc Hd].
    change ((d :: ds) ++ r) with (d :: (ds ++ r)). rewrite lm_cons, (E1_digit d Hc), AE_E3, (run_E3 ds r Hd Hr), FN_E3.
    destruct ds; reflexivity.
Qed.

(* the exponent part, seen from a state S that goes to E1 on 'e' / 'E': in terms of the hand-written [lex_exp] *)
Lemma lm_exp_some : forall S r neg eds r3, (forall c, is_e c = true -> step S c = E1) ->
  lex_exp r = Some (neg, eds, r3) ->
  exists pre, r = pre ++ r3 /\ lex_exp pre = Some (neg, eds, []) /\ lm S r = Some (1, length pre) /\ stopd pre /\ pre <> [].
Proof.
  intros S r neg eds r3 HS H. unfold lex_exp in H.
  destruct r as [|c r']; [discriminate|]. destruct (is_e c) eqn:Ee; [|discriminate].
  destruct r' as [|sg r1]; [discriminate|].
  fold (is_sign sg) in H. destruct (is_sign sg) eqn:Es.
  - destruct (span_digits r1) as [ds r2] eqn:Sp. destruct ds as [|d ds]; [discriminate|]. inversion H; subst neg eds r3. clear H.
    destruct (span_digits_spec _ _ _ Sp) as (E & Hd & Hr). subst r1.
    exists (c :: sg :: d :: ds). split; [simpl; reflexivity|]. split.
    + unfold lex_exp. rewrite Ee. fold (is_sign sg). rewrite Es. rewrite (span_digits_all _ Hd). reflexivity.
    + split; [|split; [simpl; apply e_not_digit; exact Ee | discriminate]].
      rewrite lm_cons, (HS c Ee), AE_E1, (run_E1_sign sg (d :: ds) r2 Es Hd Hr). reflexivity.
  - destruct (span_digits (sg :: r1)) as [ds r2] eqn:Sp. destruct ds as [|d ds]; [discriminate|]. inversion H; subst neg eds r3. clear H.
    destruct (span_digits_spec _ _ _ Sp) as (E & Hd & Hr).
    exists (c :: d :: ds). split; [simpl; rewrite E; reflexivity|]. split.
    + unfold lex_exp. rewrite Ee.
      assert (Ed : d = sg) by (simpl in E; inversion E; reflexivity). subst d.
      fold (is_sign sg). rewrite Es. rewrite (span_digits_all _ Hd). reflexivity.
    + split; [|split; [simpl; apply e_not_digit; exact Ee | discriminate]].
      rewrite lm_cons, (HS c Ee), AE_E1, E. rewrite (run_E1_digits (d :: ds) r2 Hd Hr); [reflexivity | discriminate].
Qed.

Lemma lm_exp_none : forall S r, (forall c, is_e c = true -> step S c = E1) ->
  lex_exp r = None ->
  match r with c :: _ => is_e c = false -> step S c = Dead | [] => True end ->
  lm S r = None.
Proof.
  intros S r HS H HD. unfold lex_exp in H.
  destruct r as [|c r']; [reflexivity|]. destruct (is_e c) eqn:Ee.
  2:{ apply lm_dead_step. rewrite (HD eq_refl). exact AE_Dead. }
  rewrite lm_cons, (HS c Ee), AE_E1, FN_E1.
  assert (G : lm E1 r' = None); [|rewrite G; reflexivity].
  destruct r' as [|sg r1]; [reflexivity|].
  fold (is_sign sg) in H. destruct (is_sign sg) eqn:Es.
  - destruct (span_digits r1) as [ds r2] eqn:Sp. destruct ds as [|d ds]; [|discriminate].
    destruct (span_digits_spec _ _ _ Sp) as (E & Hd & Hr). subst r1.
    apply (run_E1_sign sg [] r2 Es eq_refl Hr).
  - destruct (span_digits (sg :: r1)) as [ds r2] eqn:Sp. destruct ds as [|d ds]; [|discriminate].
    destruct (span_digits_spec _ _ _ Sp) as (E & Hd & Hr). simpl in E. subst r2.
    apply (run_E1_digits [] (sg :: r1) eq_refl Hr). intros _. exact Es.
Qed.

(* ------------------------------------------------------------------ numbers *)
Lemma lm_int : forall d1 r, d1 <> [] -> forallb is_digit d1 = true ->
  lm Rs (d1 ++ r) = match lm A r with Some (i, n) => Some (i, length d1 + n) | None => Some (0, length d1) end.
Proof.
  intros [|c d1] r Hne Hd; [congruence|]. simpl in Hd. apply andb_true_iff in Hd. destruct Hd as [Hc Hd].
  change ((c :: d1) ++ r) with (c :: (d1 ++ r)). rewrite lm_cons, (Rs_digit c Hc), AE_A1, FN_A1.
  rewrite (lm_same_steps A1 A A1_as_A), (lm_loop A is_digit 0 A_digit AE_A FN_A d1 r Hd).
  destruct (lm A r) as [[i n]|]; [reflexivity|]. destruct d1; reflexivity.
Qed.

Lemma lex_number_digits : forall d1, forallb is_digit d1 = true -> lex_number d1 = Some (TNum (digits_val d1) 1 true, []) /\ number_name d1 = "RATIONAL"%string.
Proof. intros d1 H. unfold lex_number, number_name. rewrite (span_digits_all d1 H). split; reflexivity. Qed.

Lemma app_cons_head : forall (c : ascii) r1 pre r3, c :: r1 = pre ++ r3 -> pre <> [] -> exists pre', pre = c :: pre'.
Proof. intros c r1 [|x pre] r3 H Hne; [congruence|]. simpl in H. inversion H; subst. eexists; reflexivity. Qed.

Lemma number_choice : forall c s', is_digit c = true ->
  exists p r' i nm, c :: s' = p ++ r' /\ p <> [] /\ lm Rs (c :: s') = Some (i, length p) /\
    ((i = 0 /\ nm = "RATIONAL"%string) \/ (i = 1 /\ nm = "FLOATING_POINT"%string)) /\
    match lex_number (c :: s') with
    | Some (t, r'') => r'' = r' /\ lex_number p = Some (t, []) /\ number_name p = nm /\ number_name (c :: s') = nm
    | None => lex_number p = None
    end.
Proof.
  intros c s' Hc. set (s := c :: s').
  destruct (span_digits s) as [d1 r] eqn:Sp. destruct (span_digits_spec _ _ _ Sp) as (Es & Hd1 & Hr).
  assert (Hne : d1 <> []).
  { intro E. subst d1. simpl in Es. subst r. unfold s in Hr. simpl in Hr. congruence. }
  destruct (lex_number_digits d1 Hd1) as [LD ND].
  unfold lex_number at 1, number_name at 2. rewrite Sp. rewrite Es.
  destruct r as [|x r1].
  - (* digits up to the end *)
    exists d1, [], 0, "RATIONAL"%string. rewrite (lm_int d1 [] Hne Hd1), lm_nil.
    repeat split; auto.
  - simpl in Hr. destruct (ch x 47) eqn:E47.
    { (* '/' *)
      destruct (slash_facts x E47) as (_ & E46 & Ee).
      destruct (span_digits r1) as [d2 r2] eqn:Sp2. destruct (span_digits_spec _ _ _ Sp2) as (E2s & Hd2 & Hr2). subst r1.
      destruct d2 as [|y d2].
      - exists d1, (x :: [] ++ r2), 0, "RATIONAL"%string. rewrite (lm_int d1 _ Hne Hd1).
        rewrite lm_cons, (A_slash x E47), AE_B, (run_B [] r2 eq_refl Hr2), FN_B.
        repeat split; auto.
      - exists (d1 ++ x :: y :: d2), r2, 0, "RATIONAL"%string.
        split; [rewrite <- app_assoc; reflexivity|]. split; [destruct d1; discriminate|]. split.
        { rewrite (lm_int d1 _ Hne Hd1). rewrite lm_cons, (A_slash x E47), AE_B, (run_B (y :: d2) r2 Hd2 Hr2).
          rewrite app_length. reflexivity. }
        split; [left; auto|].
        assert (LP : lex_number (d1 ++ x :: y :: d2) =
                     match digits_val (y :: d2) with N0 => None | Npos dd => Some (TNum (digits_val d1) dd false, []) end).
        { unfold lex_number. rewrite (span_digits_app d1 (x :: y :: d2) Hd1 Hr), E47, (span_digits_all _ Hd2). reflexivity. }
        assert (NP : number_name (d1 ++ x :: y :: d2) = "RATIONAL"%string).
        { unfold number_name. rewrite (span_digits_app d1 (x :: y :: d2) Hd1 Hr), E47. reflexivity. }
        rewrite LP. destruct (digits_val (y :: d2)); [reflexivity|]. repeat split; auto. }
    destruct (ch x 46) eqn:E46.
    { (* '.' *)
      destruct (dot_facts x E46) as (_ & _ & Ee).
      destruct (span_digits r1) as [fr r2] eqn:Sp2. destruct (span_digits_spec _ _ _ Sp2) as (E2s & Hfr & Hr2). subst r1.
      destruct (lex_exp r2) as [[[neg eds] r3]|] eqn:LE.
      - destruct (lm_exp_some F r2 neg eds r3 F_e LE) as (pre & Epre & LEp & LMp & Stp & Pne). subst r2.
        exists (d1 ++ x :: fr ++ pre), r3, 1, "FLOATING_POINT"%string.
        split; [rewrite <- !app_assoc; simpl; rewrite <- app_assoc; reflexivity|]. split; [destruct d1; discriminate|]. split.
        { rewrite (lm_int d1 _ Hne Hd1). rewrite lm_cons, (A_dot x E46), AE_F.
          rewrite (lm_loop F is_digit 1 F_digit AE_F FN_F fr _ Hfr), LMp.
          rewrite !app_length. simpl. rewrite app_length. reflexivity. }
        split; [right; auto|].
        assert (LP : lex_number (d1 ++ x :: fr ++ pre) = Some (fp_token (d1 ++ fr) (length fr) (Some (neg, eds)), [])).
        { unfold lex_number. rewrite (span_digits_app d1 (x :: fr ++ pre) Hd1 Hr), E47, E46, (span_digits_app fr pre Hfr Stp), LEp. reflexivity. }
        assert (NP : number_name (d1 ++ x :: fr ++ pre) = "FLOATING_POINT"%string).
        { unfold number_name. rewrite (span_digits_app d1 (x :: fr ++ pre) Hd1 Hr), E47, E46. reflexivity. }
        repeat split; auto.
      - exists (d1 ++ x :: fr), r2, 1, "FLOATING_POINT"%string.
        split; [rewrite <- !app_assoc; reflexivity|]. split; [destruct d1; discriminate|]. split.
        { rewrite (lm_int d1 _ Hne Hd1). rewrite lm_cons, (A_dot x E46), AE_F, FN_F.
          rewrite (lm_loop F is_digit 1 F_digit AE_F FN_F fr _ Hfr).
          rewrite (lm_exp_none F r2 F_e LE).
          2:{ destruct r2 as [|z r2]; [exact I|]. simpl in Hr2. intro Hz. apply F_other. rewrite Hr2, Hz. reflexivity. }
          rewrite app_length. simpl. destruct fr; simpl; rewrite ?Nat.add_0_r; reflexivity. }
        split; [right; auto|].
        assert (LP : lex_number (d1 ++ x :: fr) = Some (fp_token (d1 ++ fr) (length fr) None, [])).
        { unfold lex_number. rewrite (span_digits_app d1 (x :: fr) Hd1 Hr), E47, E46, (span_digits_all fr Hfr). reflexivity. }
        assert (NP : number_name (d1 ++ x :: fr) = "FLOATING_POINT"%string).
        { unfold number_name. rewrite (span_digits_app d1 (x :: fr) Hd1 Hr), E47, E46. reflexivity. }
        repeat split; auto. }
    (* exponent directly after the integer part, or nothing *)
    destruct (lex_exp (x :: r1)) as [[[neg eds] r3]|] eqn:LE.
    + destruct (lm_exp_some A (x :: r1) neg eds r3 A_e LE) as (pre & Epre & LEp & LMp & Stp & Pne).
      destruct (app_cons_head x r1 pre r3 Epre Pne) as [pre' Ep']. 
      exists (d1 ++ pre), r3, 1, "FLOATING_POINT"%string.
      split; [rewrite <- app_assoc, <- Epre; reflexivity|]. split; [destruct d1; [congruence | discriminate]|]. split.
      { rewrite (lm_int d1 _ Hne Hd1), LMp, app_length. reflexivity. }
      split; [right; auto|].
      assert (LP : lex_number (d1 ++ pre) = Some (fp_token d1 0 (Some (neg, eds)), [])).
      { unfold lex_number. rewrite (span_digits_app d1 pre Hd1 Stp). subst pre. rewrite E47, E46, LEp. reflexivity. }
      assert (NP : number_name (d1 ++ pre) = "FLOATING_POINT"%string).
      { unfold number_name. rewrite (span_digits_app d1 pre Hd1 Stp). subst pre. rewrite E47, E46, LEp. reflexivity. }
      repeat split; auto.
    + exists d1, (x :: r1), 0, "RATIONAL"%string.
      split; [reflexivity|]. split; [exact Hne|]. split.
      { rewrite (lm_int d1 _ Hne Hd1). rewrite (lm_exp_none A (x :: r1) A_e LE); [reflexivity|].
        intro Hx. apply A_other. rewrite Hr, E47, E46, Hx. reflexivity. }
      split; [left; auto|]. repeat split; auto.
Qed.

(* ------------------------------------------------------------------ single-character tokens, blanks *)
Definition idx (c : ascii) : nat :=
  if is_var (nat_of_ascii c) then 2 else if ch c 43 then 3 else if ch c 45 then 4 else if ch c 105 then 5
  else if ch c 40 then 6 else if ch c 41 then 7 else if ch c 42 then 8 else if ch c 94 then 9 else 11.

Lemma Rs_single : forall c, negb (is_digit c) && negb (is_blank c) = true ->
  forallb final (step Rs c) = true /\ first_nullable (step Rs c) = Some (idx c).
Proof. intros c H. destruct c as [[] [] [] [] [] [] [] []]; vm_compute in H; try discriminate H; vm_compute; split; reflexivity. Qed.

Lemma first_nullable_not_all_empty : forall rs k i, first_nullable_from k rs = Some i -> forallb is_empty rs = false.
Proof.
  induction rs as [|r rs IH]; intros k i H; [discriminate|]. simpl in H. simpl.
  destruct (nullable r) eqn:N.
  - destruct r; try discriminate; reflexivity.
  - rewrite (IH _ _ H). apply andb_false_r.
Qed.

Lemma single_choice : forall c s', is_digit c = false -> is_blank c = false -> lm Rs (c :: s') = Some (idx c, 1).
Proof.
  intros c s' Hd Hb. destruct (Rs_single c) as [Hf Hn]; [rewrite Hd, Hb; reflexivity|].
  rewrite lm_cons, (first_nullable_not_all_empty _ _ _ Hn), (lm_final _ s' Hf), Hn. reflexivity.
Qed.

Definition stopb (r : list ascii) : Prop := match r with [] => True | c :: _ => is_blank c = false end.
Fixpoint span_blanks (s : list ascii) : list ascii * list ascii :=
  match s with
  | c :: r => if is_blank c then let (b, r') := span_blanks r in (c :: b, r') else ([], s)
  | [] => ([], [])
  end.
Lemma span_blanks_spec : forall s b r, span_blanks s = (b, r) -> s = b ++ r /\ forallb is_blank b = true /\ stopb r.
Proof.
  induction s as [|c s IH]; intros b r H; simpl in H.
  - inversion H; subst. repeat split.
  - destruct (is_blank c) eqn:Eb.
    + destruct (span_blanks s) as [b' r'] eqn:Es. inversion H; subst. destruct (IH b' r eq_refl) as (E & D & St).
      subst s. simpl. rewrite Eb, D. repeat split. exact St.
    + inversion H; subst. simpl. repeat split. exact Eb.
Qed.

Lemma blank_choice : forall c bl r, is_blank c = true -> forallb is_blank bl = true -> stopb r ->
  lm Rs (c :: bl ++ r) = Some (10, S (length bl)).
Proof.
  intros c bl r Hc Hbl Hr. rewrite lm_cons, (Rs_blank c Hc), AE_W1, FN_W1.
  assert (D2 : lm W2 r = None).
  { destruct r as [|x r]; [reflexivity|]. simpl in Hr. apply lm_dead_step. rewrite (W2_other x Hr). exact AE_Dead. }
  destruct bl as [|b bl].
  - simpl. assert (D1 : lm W1 r = None).
    { destruct r as [|x r]; [reflexivity|]. simpl in Hr. apply lm_dead_step. rewrite (W1_other x Hr). exact AE_Dead. }
    rewrite D1. reflexivity.
  - simpl in Hbl. apply andb_true_iff in Hbl. destruct Hbl as [Hb Hbl].
    change ((b :: bl) ++ r) with (b :: (bl ++ r)). rewrite lm_cons, (W1_blank b Hb), AE_W2, FN_W2.
    rewrite (lm_loop W2 is_blank 10 W2_blank AE_W2 FN_W2 bl r Hbl), D2. destruct bl; reflexivity.
Qed.

(* ------------------------------------------------------------------ the scanner loop, one step *)
Lemma tokenize_fuel_indep : forall rules f1 f2 l, length l < f1 -> length l < f2 ->
  tokenize_fuel f1 rules l = tokenize_fuel f2 rules l.
Proof.
  intros rules f1 f2 l H1 H2.
  destruct (tokenize_fuel f1 rules l) as [o1|] eqn:E1.
  - symmetry. apply tokenize_fuel_complete; [apply (tokenize_fuel_sound _ _ _ _ E1) | exact H2].
  - destruct (tokenize_fuel f2 rules l) as [o2|] eqn:E2; [|reflexivity].
    rewrite (tokenize_fuel_complete _ _ _ (tokenize_fuel_sound _ _ _ _ E2) f1 H1) in E1. discriminate.
Qed.

Lemma conv_all_app : forall a b, conv_all (a ++ b) =
  match conv_all a, conv_all b with Some x, Some y => Some (x ++ y) | _, _ => None end.
Proof.
  induction a as [|t a IH]; intro b; simpl.
  - destruct (conv_all b); reflexivity.
  - rewrite IH. destruct (conv_token t) as [[y|]|]; destruct (conv_all a); destruct (conv_all b); reflexivity.
Qed.

Definition G (l : list ascii) : option (list ytoken) := glex_with expected_lexer l.

Lemma tokenize_fuel_S : forall f rules c s', tokenize_fuel (S f) rules (c :: s') =
  match lm (map fst rules) (c :: s') with
  | None => None
  | Some (i, n) =>
    match nth_error rules i with
    | None => None
    | Some (_, a) =>
      match tokenize_fuel f rules (skipn n (c :: s')) with
      | Some out => Some (emit a (firstn n (c :: s')) ++ out)
      | None => None
      end
    end
  end.
Proof. reflexivity. Qed.

Lemma tokenize_step : forall rules l i n r a, l <> [] -> lm (map fst rules) l = Some (i, n) -> nth_error rules i = Some (r, a) ->
  tokenize rules l = match tokenize rules (skipn n l) with Some out => Some (emit a (firstn n l) ++ out) | None => None end.
Proof.
  intros rules l i n r a Hne L E. destruct l as [|c s']; [congruence|].
  destruct (lm_index_bound _ _ _ _ L) as [_ Hn].
  unfold tokenize at 1. rewrite tokenize_fuel_S, L, E.
  rewrite (tokenize_fuel_indep rules (length (c :: s')) (S (length (skipn n (c :: s')))) (skipn n (c :: s'))).
  - reflexivity.
  - rewrite skipn_length. cbn [length] in *. lia.
  - lia.
Qed.

Lemma G_step : forall l i n r a, l <> [] -> lm Rs l = Some (i, n) -> nth_error R i = Some (r, a) ->
  G l = match conv_all (emit a (firstn n l)), G (skipn n l) with Some y1, Some y2 => Some (y1 ++ y2) | _, _ => None end.
Proof.
  intros l i n r a Hne L E. unfold G, glex_with. fold R.
  rewrite (tokenize_step R l i n r a Hne L E).
  destruct (tokenize R (skipn n l)) as [out|].
  - apply conv_all_app.
  - destruct (conv_all (emit a (firstn n l))); reflexivity.
Qed.

Lemma firstn_len_app : forall (a b : list ascii), firstn (length a) (a ++ b) = a.
Proof. induction a as [|x a IH]; intro b; simpl; [reflexivity | rewrite IH; reflexivity]. Qed.
Lemma skipn_len_app : forall (a b : list ascii), skipn (length a) (a ++ b) = b.
Proof. induction a as [|x a IH]; intro b; simpl; [reflexivity | apply IH]. Qed.

(* ------------------------------------------------------------------ the hand-written scanner *)
Lemma lex_number_shorter : forall c s' t r', is_digit c = true -> lex_number (c :: s') = Some (t, r') -> length r' < length (c :: s').
Proof.
  intros c s' t r' Hc L. destruct (number_choice c s' Hc) as (p & r0 & i & nm & E & Pne & _ & _ & M).
  rewrite L in M. destruct M as (Er & _). subst r0. rewrite E, app_length. destruct p; [congruence | simpl; lia].
Qed.

Lemma ylex_fuel_indep : forall f1 f2 l, length l < f1 -> length l < f2 -> ylex_fuel f1 l = ylex_fuel f2 l.
Proof.
  induction f1 as [|f1 IH]; intros f2 l H1 H2; [lia|]. destruct f2 as [|f2]; [lia|].
  destruct l as [|c r]; [reflexivity|]. cbn [length] in H1, H2.
  assert (E : ylex_fuel f1 r = ylex_fuel f2 r) by (apply IH; lia).
  simpl. rewrite E. destruct (is_digit c) eqn:Hc; [|reflexivity].
  destruct (lex_number (c :: r)) as [[t r']|] eqn:L; [|reflexivity].
  pose proof (lex_number_shorter c r t r' Hc L) as Hl. cbn [length] in Hl.
  rewrite (IH f2 r'); [reflexivity | lia | lia].
Qed.

Lemma blank_chain : forall c, is_blank c = true ->
  is_digit c = false /\ is_var (nat_of_ascii c) = false /\ ch c 43 = false /\ ch c 45 = false /\ ch c 105 = false /\
  ch c 40 = false /\ ch c 41 = false /\ ch c 42 = false /\ ch c 94 = false.
Proof. intros c H. destruct c as [[] [] [] [] [] [] [] []]; vm_compute in H; try discriminate H; vm_compute; repeat split. Qed.

Lemma ylex_skip_blanks : forall bl r f, forallb is_blank bl = true -> length (bl ++ r) < f -> ylex_fuel f (bl ++ r) = ylex_fuel f r.
Proof.
  induction bl as [|b bl IH]; intros r f Hb Hf; [reflexivity|].
  simpl in Hb. apply andb_true_iff in Hb. destruct Hb as [Hb Hbl].
  destruct f as [|f]; [cbn [length app] in Hf; lia|]. cbn [app length] in Hf.
  destruct (blank_chain b Hb) as (B0 & B1 & B2 & B3 & B4 & B5 & B6 & B7 & B8).
  change ((b :: bl) ++ r) with (b :: (bl ++ r)).
  transitivity (ylex_fuel f (bl ++ r)).
  - simpl. rewrite B0, B1, B2, B3, B4, B5, B6, B7, B8. unfold is_blank in Hb. rewrite Hb. reflexivity.
  - rewrite (IH r f Hbl) by lia. apply ylex_fuel_indep; rewrite app_length in Hf; lia.
Qed.

(* ------------------------------------------------------------------ THE agreement *)
Theorem glex_expected_agrees : forall n l f, length l <= n -> length l < f -> G l = ylex_fuel f l.
Proof.
  induction n as [|n IH]; intros l f Hn Hf.
  { destruct l; [|cbn [length] in Hn; lia]. destruct f; [lia|]. reflexivity. }
  destruct l as [|c s']; [destruct f; [lia|]; reflexivity|].
  destruct f as [|f]; [lia|]. cbn [length] in Hn, Hf.
  destruct (is_digit c) eqn:Hc.
  { (* a number *)
    destruct (number_choice c s' Hc) as (p & r' & i & nm & E & Pne & L & Hi & M).
    assert (Ea : nth_error R i = Some (match i with 0 => rx_rational | _ => rx_floating end, AReturn nm true)).
    { destruct Hi as [[Ei En]|[Ei En]]; subst; reflexivity. }
    rewrite (G_step (c :: s') i (length p) _ _ ltac:(discriminate) L Ea).
    rewrite E, firstn_len_app, skipn_len_app. rewrite <- E.
    assert (Hr' : length r' <= n /\ length r' < f).
    { assert (length (c :: s') = length p + length r') by (rewrite E, app_length; reflexivity).
      cbn [length] in H. destruct p; [congruence|]. cbn [length] in H. lia. }
    simpl ylex_fuel. rewrite Hc.
    cbn [emit conv_all conv_token].
    assert (Enm : ((nm =? "RATIONAL") || (nm =? "FLOATING_POINT"))%string = true) by (destruct Hi as [[_ En]|[_ En]]; subst; reflexivity).
    rewrite Enm.
    destruct (lex_number (c :: s')) as [[t r'']|] eqn:LN.
    - destruct M as (Er & LP & NP & NS). subst r''. rewrite LP, NP, NS, String.eqb_refl.
      rewrite (IH r' f (proj1 Hr') (proj2 Hr')). destruct (ylex_fuel f r'); reflexivity.
    - rewrite M. reflexivity. }
  destruct (is_blank c) eqn:Hb.
  { (* a run of blanks *)
    destruct (span_blanks s') as [bl r] eqn:Sb. destruct (span_blanks_spec _ _ _ Sb) as (Es & Hbl & Hr). subst s'.
    assert (Ea : nth_error R 10 = Some (RPlus (RCls false [(9, 9)%N; (32, 32)%N]), ASkip)) by reflexivity.
    rewrite (G_step (c :: bl ++ r) 10 (S (length bl)) _ _ ltac:(discriminate) (blank_choice c bl r Hb Hbl Hr) Ea).
    cbn [emit conv_all skipn]. rewrite skipn_len_app.
    rewrite app_length in Hn, Hf.
    rewrite (IH r f) by lia.
    destruct (blank_chain c Hb) as (B0 & B1 & B2 & B3 & B4 & B5 & B6 & B7 & B8).
    simpl ylex_fuel. rewrite B0, B1, B2, B3, B4, B5, B6, B7, B8. unfold is_blank in Hb. rewrite Hb.
    rewrite (ylex_skip_blanks bl r f Hbl) by (rewrite app_length; lia).
    destruct (ylex_fuel f r); reflexivity. }
  (* a single character *)
  pose proof (single_choice c s' Hc Hb) as L.
  assert (IHs : G s' = ylex_fuel f s') by (apply IH; lia).
  simpl ylex_fuel. rewrite Hc. unfold is_blank in Hb. rewrite Hb. unfold idx in L.
  destruct (is_var (nat_of_ascii c)).
  { rewrite (G_step (c :: s') 2 1 _ _ ltac:(discriminate) L eq_refl). cbn [firstn skipn]. rewrite IHs. destruct (ylex_fuel f s'); reflexivity. }
  destruct (ch c 43).
  { rewrite (G_step (c :: s') 3 1 _ _ ltac:(discriminate) L eq_refl). cbn [firstn skipn]. rewrite IHs. destruct (ylex_fuel f s'); reflexivity. }
  destruct (ch c 45).
  { rewrite (G_step (c :: s') 4 1 _ _ ltac:(discriminate) L eq_refl). cbn [firstn skipn]. rewrite IHs. destruct (ylex_fuel f s'); reflexivity. }
  destruct (ch c 105).
  { rewrite (G_step (c :: s') 5 1 _ _ ltac:(discriminate) L eq_refl). cbn [firstn skipn]. rewrite IHs. destruct (ylex_fuel f s'); reflexivity. }
  destruct (ch c 40).
  { rewrite (G_step (c :: s') 6 1 _ _ ltac:(discriminate) L eq_refl). cbn [firstn skipn]. rewrite IHs. destruct (ylex_fuel f s'); reflexivity. }
  destruct (ch c 41).
  { rewrite (G_step (c :: s') 7 1 _ _ ltac:(discriminate) L eq_refl). cbn [firstn skipn]. rewrite IHs. destruct (ylex_fuel f s'); reflexivity. }
  destruct (ch c 42).
  { rewrite (G_step (c :: s') 8 1 _ _ ltac:(discriminate) L eq_refl). cbn [firstn skipn]. rewrite IHs. destruct (ylex_fuel f s'); reflexivity. }
  destruct (ch c 94).
  { rewrite (G_step (c :: s') 9 1 _ _ ltac:(discriminate) L eq_refl). cbn [firstn skipn]. rewrite IHs. destruct (ylex_fuel f s'); reflexivity. }
  rewrite (G_step (c :: s') 11 1 _ _ ltac:(discriminate) L eq_refl). reflexivity.
Qed.

Theorem glex_agrees : forall s, glex s = ylex s.
Proof.
  intro s. unfold glex, ylex. rewrite lexer_shape. fold (G (list_ascii_of_string s)).
  apply (glex_expected_agrees (length (list_ascii_of_string s))); lia.
Qed.
