(* C11 -- mps::formal::Polynomial as coded: `+= Monomial` (overwrite / add / resize, then trim)
   adds exactly one term to the value of the polynomial; `+=`/`-=` of polynomials follow. *)
Require Import List ZArith NArith QArith Qcanon Bool Arith Lia Ring.
Require Import MPSV.Inline.InlineModel MPSV.Inline.InlineAlgebra.
Import ListNotations.
Open Scope Qc_scope.

Lemma eval_app : forall l l' x, eval (l ++ l') x = Cadd (eval l x) (Cmul (Cpow x (length l)) (eval l' x)).
Proof. induction l as [|a l IH]; intros; simpl; [ring | rewrite IH; ring]. Qed.

Lemma eval_repeat0 : forall n x, eval (map mc (repeat mono0 n)) x = C0.
Proof. induction n; intros; simpl; [reflexivity | rewrite IHn; unfold mono0; simpl; ring]. Qed.

Lemma mono_is0_true : forall m, mono_is0 m = true -> mc m = C0.
Proof. intros m H; apply Cis0_true; exact H. Qed.

Lemma fp_eval_set_nth : forall p d m x, (d < length p)%nat ->
  fp_eval (set_nth d m p) x = Cadd (fp_eval p x) (Cmul (Csub (mc m) (mc (nth d p mono0))) (Cpow x d)).
Proof.
  unfold fp_eval, fp_coeffs.
  induction p as [|a p IH]; intros d m x Hd; simpl in Hd; [lia|].
  destruct d as [|d]; simpl.
  - ring.
  - rewrite IH by lia. ring.
Qed.

Lemma fp_eval_removelast : forall p x, mono_is0 (last p mono0) = true -> fp_eval (removelast p) x = fp_eval p x.
Proof.
  intros p x H. destruct p as [|a p]; [reflexivity|].
  remember (last (a :: p) mono0) as lm eqn:El. remember (removelast (a :: p)) as rl eqn:Er.
  assert (E : a :: p = rl ++ [lm]) by (subst; apply app_removelast_last; discriminate).
  rewrite E. unfold fp_eval, fp_coeffs. rewrite map_app, eval_app. simpl.
  rewrite (mono_is0_true _ H). ring.
Qed.

Lemma fp_eval_trim : forall f p x, fp_eval (trim_loop f p) x = fp_eval p x.
Proof.
  induction f as [|f IH]; intros p x; simpl; [reflexivity|].
  destruct (mono_is0 (last p mono0)) eqn:E; simpl; [|reflexivity].
  destruct (0 <? fdeg p)%nat; [|reflexivity].
  rewrite IH. apply fp_eval_removelast; exact E.
Qed.

Lemma resize_grow : forall n p, (length p <= n)%nat -> resize n p = p ++ repeat mono0 (n - length p).
Proof. intros n p H; unfold resize; rewrite firstn_all2 by exact H; reflexivity. Qed.

Lemma nth_repeat0 : forall k n, nth k (repeat mono0 n) mono0 = mono0.
Proof. induction k; destruct n; simpl; auto. Qed.

(* Polynomial::operator+=(const Monomial&): the value grows by exactly  c * x^d *)
Theorem fp_add_mono_eval : forall p m x, p <> [] ->
  fp_eval (fp_add_mono p m) x = Cadd (fp_eval p x) (Cmul (mc m) (Cpow x (md m))).
Proof.
  intros p m x Hp. unfold fp_add_mono. rewrite fp_eval_trim.
  assert (Hlen : (0 < length p)%nat) by (destruct p; [congruence | simpl; lia]).
  destruct (md m <=? fdeg p)%nat eqn:Ed.
  - apply Nat.leb_le in Ed. unfold fdeg in Ed.
    destruct (mono_is0 (nth (md m) p mono0)) eqn:Ez.
    + rewrite fp_eval_set_nth by lia. rewrite (mono_is0_true _ Ez). ring.
    + rewrite fp_eval_set_nth by lia. simpl. ring.
  - apply Nat.leb_gt in Ed. unfold fdeg in Ed.
    rewrite resize_grow by lia.
    rewrite fp_eval_set_nth by (rewrite app_length, repeat_length; lia).
    rewrite app_nth2 by lia. rewrite nth_repeat0.
    unfold fp_eval, fp_coeffs. rewrite map_app, eval_app, eval_repeat0. unfold mono0; simpl. ring.
Qed.

(* the result of += is never the empty vector, so the operations can be chained *)
Lemma set_nth_length : forall p d m, length (set_nth d m p) = length p.
Proof. induction p as [|a p IH]; intros [|d] m; simpl; auto. Qed.
Lemma trim_loop_nonempty : forall f p, p <> [] -> trim_loop f p <> [].
Proof.
  induction f as [|f IH]; intros p Hp; simpl; [exact Hp|].
  destruct (mono_is0 (last p mono0) && (0 <? fdeg p)%nat) eqn:E; [|exact Hp].
  apply IH. apply andb_prop in E. destruct E as [_ E]. apply Nat.ltb_lt in E. unfold fdeg in E.
  destruct p as [|a [|b p]]; simpl in *; try lia. discriminate.
Qed.
Lemma fp_add_mono_nonempty : forall p m, p <> [] -> fp_add_mono p m <> [].
Proof.
  intros p m Hp. unfold fp_add_mono. apply trim_loop_nonempty.
  intros E. apply (f_equal (@length mono)) in E. simpl in E.
  assert (Hlen : (0 < length p)%nat) by (destruct p; [congruence | simpl; lia]).
  destruct (md m <=? fdeg p)%nat.
  - destruct (mono_is0 (nth (md m) p mono0)); rewrite set_nth_length in E; lia.
  - rewrite set_nth_length in E. unfold resize in E. rewrite app_length, repeat_length in E.
    destruct (Nat.le_gt_cases (md m + 1) (length p)).
    + rewrite firstn_length_le in E by lia. lia.
    + rewrite firstn_all2 in E by lia. lia.
Qed.

(* value of a list of monomials taken with their own degree fields *)
Fixpoint terms_eval (q : list mono) (x : C) : C :=
  match q with nil => C0 | m :: q' => Cadd (Cmul (mc m) (Cpow x (md m))) (terms_eval q' x) end.

Lemma fold_add_mono_eval : forall q p x, p <> [] ->
  fold_left fp_add_mono q p <> [] /\
  fp_eval (fold_left fp_add_mono q p) x = Cadd (fp_eval p x) (terms_eval q x).
Proof.
  induction q as [|m q IH]; intros p x Hp; simpl.
  - split; [exact Hp | ring].
  - destruct (IH (fp_add_mono p m) x (fp_add_mono_nonempty p m Hp)) as [H1 H2].
    split; [exact H1|]. rewrite H2, fp_add_mono_eval by exact Hp. ring.
Qed.

(* under the class invariant (a non-zero entry carries its index as degree) the terms are the value *)
Lemma terms_eval_ok_from : forall q k x,
  (forall i, (i < length q)%nat -> mono_is0 (nth i q mono0) = false -> md (nth i q mono0) = (k + i)%nat) ->
  terms_eval q x = Cmul (Cpow x k) (eval (map mc q) x).
Proof.
  induction q as [|m q IH]; intros k x H; simpl; [ring|].
  rewrite (IH (S k) x).
  - destruct (mono_is0 m) eqn:Em.
    + rewrite (mono_is0_true _ Em). simpl. ring.
    + pose proof (H 0%nat ltac:(simpl; lia) Em) as H0. simpl in H0. rewrite H0, Nat.add_0_r. simpl. ring.
  - intros i Hi Hz. pose proof (H (S i) ltac:(simpl; lia) Hz) as H1. simpl in H1. lia.
Qed.
Lemma terms_eval_ok : forall q x, fp_ok q -> terms_eval q x = fp_eval q x.
Proof.
  intros q x [_ H]. rewrite (terms_eval_ok_from q 0 x) by (intros; simpl; apply H; assumption).
  unfold fp_eval, fp_coeffs. simpl. ring.
Qed.

(* Polynomial::operator+=(const Polynomial&) and operator-= *)
Theorem fp_add_eval : forall p q x, p <> [] -> fp_ok q ->
  fp_eval (fp_add p q) x = Cadd (fp_eval p x) (fp_eval q x).
Proof. intros p q x Hp Hq. unfold fp_add. rewrite (proj2 (fold_add_mono_eval q p x Hp)), terms_eval_ok by exact Hq. reflexivity. Qed.

Lemma fold_sub_as_add : forall q p,
  fold_left (fun acc m => fp_add_mono acc (mono_neg m)) q p = fold_left fp_add_mono (map mono_neg q) p.
Proof. induction q as [|m q IH]; intros p; simpl; [reflexivity | apply IH]. Qed.
Lemma terms_eval_neg : forall q x, terms_eval (map mono_neg q) x = Copp (terms_eval q x).
Proof. induction q as [|m q IH]; intros x; simpl; [ring | rewrite IH; ring]. Qed.

Theorem fp_sub_eval : forall p q x, p <> [] -> fp_ok q ->
  fp_eval (fp_sub p q) x = Csub (fp_eval p x) (fp_eval q x).
Proof.
  intros p q x Hp Hq. unfold fp_sub. rewrite fold_sub_as_add.
  rewrite (proj2 (fold_add_mono_eval (map mono_neg q) p x Hp)), terms_eval_neg, terms_eval_ok by exact Hq. ring.
Qed.

Theorem fp_neg_eval : forall p x, fp_ok p -> fp_eval (fp_neg p) x = Copp (fp_eval p x).
Proof.
  intros p x Hp. unfold fp_neg. rewrite fp_sub_eval by (try exact Hp; discriminate).
  unfold fp_eval, fp_coeffs, fp_of_mono; simpl. ring.
Qed.
