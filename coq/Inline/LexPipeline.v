(* C11 -- the inline-expression pipeline with the scanner GENERATED from tokenizer.l (definitions only).

     [expected_lexer]   the rules section of tokenizer.l this development was carried out for (with
                        fixes/C11_newline.patch: the catch-all rule is `.|\n`), as the reader emits it
     [unfixed_lexer]    the same with the catch-all rule `.` (newline falls through to flex's default rule)
     [conv_token]       what the parser gets from a raw token: the token NAME the scanner returns and the
                        payload the grammar actions compute from the text ($1): for RATIONAL / FLOATING_POINT the
                        value of the literal ([InlineModel.lex_number] applied to the lexeme alone; LexLiteral.v
                        proves that this is the decimal / rational value of the text and what
                        mps_formal_monomial_new_with_string stores); a token number below 256 (catch-all rule), a
                        zero denominator (the action of `real_number: RATIONAL` calls yyerror and YYABORTs) or an
                        action the reader does not know make the parse fail: the parser can only accept after
                        shifting every token
     [glex]             tokenizer.l as generated: [tokenize] over Gen/LexerGen.v with flex's default rule
     [run_gen]          mps_parse_inline_poly_from_string as generated: flex rules -> bison's table -> actions *)
Require Import List Ascii String Bool Arith NArith.
Require Import MPSV.Inline.InlineModel MPSV.Inline.InlineGrammar MPSV.Inline.InlineLR MPSV.Inline.LexModel MPSV.Inline.Gen.LexerGen.
Import ListNotations.
Open Scope string_scope.
Open Scope list_scope.

Definition digit_cls : regex := RCls false [(48, 57)%N].
Definition rx_rational : regex :=
  RCat (RPlus digit_cls) (ROpt (RCat (RCls false [(47, 47)%N]) (RPlus digit_cls))).
Definition rx_floating : regex :=
  RCat (RPlus digit_cls)
    (RCat (ROpt (RCat (RCls false [(46, 46)%N]) (RStar digit_cls)))
          (ROpt (RCat (RCls false [(69, 69)%N; (101, 101)%N]) (RCat (ROpt (RCls false [(43, 43)%N; (45, 45)%N])) (RPlus digit_cls))))).

Definition lexer_with_catch_all (catch_all : regex) : lexrules := [
  (rx_rational, AReturn "RATIONAL" true);
  (rx_floating, AReturn "FLOATING_POINT" true);
  (RCls false [(88, 90)%N; (120, 122)%N], AReturn "MONOMIAL" true);
  (RCls false [(43, 43)%N], AReturn "PLUS" false);
  (RCls false [(45, 45)%N], AReturn "MINUS" false);
  (RCls false [(105, 105)%N], AReturn "IMAGINARY_UNIT" false);
  (RCls false [(40, 40)%N], AReturn "LEFT_BRACKET" false);
  (RCls false [(41, 41)%N], AReturn "RIGHT_BRACKET" false);
  (RCls false [(42, 42)%N], AReturn "TIMES" false);
  (RCls false [(94, 94)%N], AReturn "SUPERSCRIPT" false);
  (RPlus (RCls false [(9, 9)%N; (32, 32)%N]), ASkip);
  (catch_all, AChar)
].
Definition expected_lexer : lexrules := lexer_with_catch_all (RCls false [(0, 255)%N]).            (* .|\n *)
Definition unfixed_lexer : lexrules := lexer_with_catch_all (RCls false [(0, 9)%N; (11, 255)%N]).    (* .    *)

(* ------------------------------------------------------------------ raw tokens -> what the parser consumes *)
Definition simple_token (name : string) : option token :=
  if name =? "PLUS" then Some TPlus else if name =? "MINUS" then Some TMinus
  else if name =? "IMAGINARY_UNIT" then Some TI else if name =? "LEFT_BRACKET" then Some TLP
  else if name =? "RIGHT_BRACKET" then Some TRP else if name =? "TIMES" then Some TTimes
  else if name =? "SUPERSCRIPT" then Some TPow else None.

(* None: the parse fails on this token.  Some None: no token (ECHO).  Some (Some y): token y. *)
Definition conv_token (rt : raw_token) : option (option ytoken) :=
  match rt with
  | RTok nm keeps text =>
    if (nm =? "RATIONAL") || (nm =? "FLOATING_POINT") then
      if keeps then
        match lex_number text with
        | Some (t, []) => if number_name text =? nm then Some (Some (nm, t)) else None
        | _ => None
        end
      else None
    else if nm =? "MONOMIAL" then (if keeps then Some (Some (nm, TX)) else None)
    else match simple_token nm with Some t => Some (Some (nm, t)) | None => None end
  | RChr _ => None
  | REcho _ => Some None
  | RBad _ => None
  end.
Fixpoint conv_all (rts : list raw_token) : option (list ytoken) :=
  match rts with
  | [] => Some []
  | rt :: r =>
    match conv_token rt, conv_all r with
    | Some (Some y), Some ys => Some (y :: ys)
    | Some None, Some ys => Some ys
    | _, _ => None
    end
  end.

Definition glex_with (rules : lexrules) (l : list ascii) : option (list ytoken) :=
  match tokenize (with_default rules) l with
  | Some rts => conv_all rts
  | None => None
  end.
Definition glex (s : string) : option (list ytoken) := glex_with lexer_gen (list_ascii_of_string s).

Definition run_gen (a : automaton) (s : string) : option (list C) :=
  match glex s with
  | None => None
  | Some ys => match lr_run a ys with
               | LAccept e => Some (fp_coeffs (fp_denote e))
               | _ => None
               end
  end.

(* what the scanner copies to yyout while scanning s (flex's default rule) *)
Definition echoed_with (rules : lexrules) (l : list ascii) : list ascii :=
  match tokenize (with_default rules) l with
  | Some rts => flat_map (fun rt => match rt with REcho t => t | _ => [] end) rts
  | None => []
  end.

(* ------------------------------------------------------------------ driver entry points *)
Definition raw_tokens_string (s : string) : option (list raw_token) :=
  tokenize (with_default lexer_gen) (list_ascii_of_string s).
