(* C11 -- soundness of the reference parser for the declarative grammar: whatever parse_ref
   accepts is a well-formed expression with exactly that reading; hence every token list that
   is not well-formed is rejected. *)
Require Import List ZArith NArith Bool Arith Lia.
Require Import MPSV.Inline.InlineModel MPSV.Inline.InlineParse MPSV.Inline.InlineDecl.
Import ListNotations.

Definition S_sum f := forall ts e r, parse_sum f ts = Some (e, r) -> exists pre, ts = pre ++ r /\ d_sum pre e.
Definition S_sloop f := forall acc ts e r pre0, d_sum pre0 acc -> sum_loop f acc ts = Some (e, r) ->
  exists pre, ts = pre ++ r /\ d_sum (pre0 ++ pre) e.
Definition S_prod f := forall ts e r, parse_prod f ts = Some (e, r) -> exists pre, ts = pre ++ r /\ d_prod pre e.
Definition S_ploop f := forall acc ts e r pre0, d_prod pre0 acc -> prod_loop f acc ts = Some (e, r) ->
  exists pre, ts = pre ++ r /\ d_prod (pre0 ++ pre) e.
Definition S_unary f := forall ts e r, parse_unary f ts = Some (e, r) -> exists pre, ts = pre ++ r /\ d_unary pre e.
Definition S_wloop f := forall acc ts e r pre0, d_power pre0 acc -> pow_loop f acc ts = Some (e, r) ->
  exists pre, ts = pre ++ r /\ d_power (pre0 ++ pre) e.
Definition S_atom f := forall ts e r, parse_atom f ts = Some (e, r) -> exists pre, ts = pre ++ r /\ d_atom pre e.

Lemma parse_0 : forall ts acc,
  parse_sum 0 ts = None /\ sum_loop 0 acc ts = None /\ parse_prod 0 ts = None /\ prod_loop 0 acc ts = None /\
  parse_unary 0 ts = None /\ pow_loop 0 acc ts = None /\ parse_atom 0 ts = None.
Proof. intros. Transparent parse_sum sum_loop parse_prod prod_loop parse_unary pow_loop parse_atom.
  repeat split; reflexivity.
  Opaque parse_sum sum_loop parse_prod prod_loop parse_unary pow_loop parse_atom. Qed.

Lemma sound_all : forall f,
  S_sum f /\ S_sloop f /\ S_prod f /\ S_ploop f /\ S_unary f /\ S_wloop f /\ S_atom f.
Proof.
  induction f as [|f IH].
  - repeat split; red; intros; match goal with H : _ = Some _ |- _ =>
      first [ rewrite (proj1 (parse_0 ts X)) in H
            | rewrite (proj1 (proj2 (parse_0 ts acc))) in H
            | rewrite (proj1 (proj2 (proj2 (parse_0 ts X)))) in H
            | rewrite (proj1 (proj2 (proj2 (proj2 (parse_0 ts acc))))) in H
            | rewrite (proj1 (proj2 (proj2 (proj2 (proj2 (parse_0 ts X)))))) in H
            | rewrite (proj1 (proj2 (proj2 (proj2 (proj2 (proj2 (parse_0 ts acc))))))) in H
            | rewrite (proj2 (proj2 (proj2 (proj2 (proj2 (proj2 (parse_0 ts X))))))) in H ]; discriminate end.
  - destruct IH as (Isum & Isl & Iprod & Ipl & Iun & Iwl & Iat).
    repeat split; red.
    + (* sum *) intros ts e r H. rewrite parse_sum_S in H.
      destruct (parse_prod f ts) as [[e0 r0]|] eqn:E; [|discriminate].
      apply Iprod in E. destruct E as (pre & -> & D).
      eapply Isl in H; [| apply d_s_prod; exact D]. destruct H as (pre' & -> & D').
      exists (pre ++ pre'). split; [rewrite app_assoc; reflexivity | exact D'].
    + (* sum_loop *) intros acc ts e r pre0 D0 H. rewrite sum_loop_S in H.
      destruct ts as [|t ts].
      { inversion H; subst. exists []. split; [reflexivity | rewrite app_nil_r; exact D0]. }
      destruct t; try (inversion H; subst; exists []; split; [reflexivity | rewrite app_nil_r; exact D0]).
      * destruct (parse_prod f ts) as [[e0 r0]|] eqn:E; [|discriminate].
        apply Iprod in E. destruct E as (pre & -> & D).
        eapply Isl in H; [| eapply d_s_add; [exact D0 | exact D]]. destruct H as (pre' & -> & D').
        exists (TPlus :: pre ++ pre'). split; [simpl; rewrite app_assoc; reflexivity|].
        replace (pre0 ++ TPlus :: pre ++ pre') with ((pre0 ++ TPlus :: pre) ++ pre') by (rewrite <- app_assoc; reflexivity).
        exact D'.
      * destruct (parse_prod f ts) as [[e0 r0]|] eqn:E; [|discriminate].
        apply Iprod in E. destruct E as (pre & -> & D).
        eapply Isl in H; [| eapply d_s_sub; [exact D0 | exact D]]. destruct H as (pre' & -> & D').
        exists (TMinus :: pre ++ pre'). split; [simpl; rewrite app_assoc; reflexivity|].
        replace (pre0 ++ TMinus :: pre ++ pre') with ((pre0 ++ TMinus :: pre) ++ pre') by (rewrite <- app_assoc; reflexivity).
        exact D'.
    + (* prod *) intros ts e r H. rewrite parse_prod_S in H.
      destruct (parse_unary f ts) as [[e0 r0]|] eqn:E; [|discriminate].
      apply Iun in E. destruct E as (pre & -> & D).
      eapply Ipl in H; [| apply d_pr_unary; exact D]. destruct H as (pre' & -> & D').
      exists (pre ++ pre'). split; [rewrite app_assoc; reflexivity | exact D'].
    + (* prod_loop *) intros acc ts e r pre0 D0 H. rewrite prod_loop_S in H.
      destruct ts as [|t ts].
      { inversion H; subst. exists []. split; [reflexivity | rewrite app_nil_r; exact D0]. }
      destruct t; try (inversion H; subst; exists []; split; [reflexivity | rewrite app_nil_r; exact D0]).
      destruct (parse_unary f ts) as [[e0 r0]|] eqn:E; [|discriminate].
      apply Iun in E. destruct E as (pre & -> & D).
      eapply Ipl in H; [| eapply d_pr_mul; [exact D0 | exact D]]. destruct H as (pre' & -> & D').
      exists (TTimes :: pre ++ pre'). split; [simpl; rewrite app_assoc; reflexivity|].
      replace (pre0 ++ TTimes :: pre ++ pre') with ((pre0 ++ TTimes :: pre) ++ pre') by (rewrite <- app_assoc; reflexivity).
      exact D'.
    + (* unary *) intros ts e r H. rewrite parse_unary_S in H.
      assert (Hat : match parse_atom f ts with Some (e1, r1) => pow_loop f e1 r1 | None => None end = Some (e, r) ->
                    exists pre, ts = pre ++ r /\ d_unary pre e).
      { intros H'. destruct (parse_atom f ts) as [[e0 r0]|] eqn:E; [|discriminate].
        apply Iat in E. destruct E as (pre & -> & D).
        eapply Iwl in H'; [| apply d_pw_atom; exact D]. destruct H' as (pre' & -> & D').
        exists (pre ++ pre'). split; [rewrite app_assoc; reflexivity | apply d_un_power; exact D']. }
      destruct ts as [|t ts]; [apply Hat; exact H|].
      destruct t; try (apply Hat; exact H).
      destruct (parse_unary f ts) as [[e0 r0]|] eqn:E; [|discriminate].
      inversion H; subst. apply Iun in E. destruct E as (pre & -> & D).
      exists (TMinus :: pre). split; [reflexivity | apply d_un_neg; exact D].
    + (* pow_loop *) intros acc ts e r pre0 D0 H. rewrite pow_loop_S in H.
      destruct ts as [|t ts].
      { inversion H; subst. exists []. split; [reflexivity | rewrite app_nil_r; exact D0]. }
      destruct t; try (inversion H; subst; exists []; split; [reflexivity | rewrite app_nil_r; exact D0]).
      destruct ts as [|t ts]; [discriminate|].
      destruct t; try discriminate. destruct d; try discriminate. destruct intlit; try discriminate.
      eapply Iwl in H; [| eapply d_pw_pow; exact D0]. destruct H as (pre' & -> & D').
      exists (TPow :: TNum n 1 true :: pre'). split; [reflexivity|].
      replace (pre0 ++ TPow :: TNum n 1 true :: pre') with ((pre0 ++ [TPow; TNum n 1 true]) ++ pre')
        by (rewrite <- app_assoc; reflexivity).
      exact D'.
    + (* atom *) intros ts e r H. rewrite parse_atom_S in H.
      destruct ts as [|t ts]; [discriminate|].
      destruct t; try discriminate.
      * inversion H; subst. exists [TX]. split; [reflexivity | constructor].
      * destruct ts as [|t' ts'].
        { inversion H; subst. exists [TNum n d intlit]. split; [reflexivity | constructor]. }
        destruct t'; inversion H; subst;
          try (exists [TNum n d intlit]; split; [reflexivity | constructor]).
        exists [TNum n d intlit; TI]. split; [reflexivity | constructor].
      * destruct (parse_sum f ts) as [[e0 r0]|] eqn:E; [|discriminate].
        destruct r0 as [|t0 r0]; [discriminate|]. destruct t0; try discriminate.
        inversion H; subst. apply Isum in E. destruct E as (pre & -> & D).
        exists (TLP :: pre ++ [TRP]). split; [simpl; rewrite <- app_assoc; reflexivity | constructor; exact D].
Qed.

Theorem parse_ref_sound : forall ts e, parse_ref ts = Some e -> d_sum ts e.
Proof.
  intros ts e H. unfold parse_ref in H.
  destruct (parse_sum (parse_fuel ts) ts) as [[e0 r0]|] eqn:E; [|discriminate].
  destruct r0; [|discriminate]. inversion H; subst.
  apply (proj1 (sound_all _)) in E. destruct E as (pre & E1 & D).
  rewrite app_nil_r in E1; subst; exact D.
Qed.

Theorem illformed_rejected : forall ts, ~ well_formed ts -> parse_ref ts = None.
Proof.
  intros ts H. destruct (parse_ref ts) as [e|] eqn:E; [|reflexivity].
  exfalso; apply H; exists e; apply parse_ref_sound; exact E.
Qed.

(* ------------------------------------------------------------------ concrete ill-formed classes *)
(* every well-formed expression ends in x, a number, i or ')' -- so a dangling operator,
   an open parenthesis at the end or the empty string are never well-formed *)
Definition closer (t : token) : bool :=
  match t with TX | TNum _ _ _ | TI | TRP => true | _ => false end.
Definition ends_closed (ts : list token) : Prop := ts <> [] /\ closer (last ts TPlus) = true.

Lemma last_app_ne : forall (a b : list token) d, b <> [] -> last (a ++ b) d = last b d.
Proof.
  induction a as [|x a IH]; intros b d Hb; simpl; [reflexivity|].
  destruct (a ++ b) eqn:E.
  - apply app_eq_nil in E; destruct E; contradiction.
  - rewrite <- E. apply IH; exact Hb.
Qed.
Lemma ends_closed_app : forall a b, ends_closed b -> ends_closed (a ++ b).
Proof.
  intros a b [Hn Hl]. split.
  - intros E; apply app_eq_nil in E; destruct E; contradiction.
  - rewrite last_app_ne by exact Hn. exact Hl.
Qed.

Scheme d_atom_mind := Minimality for d_atom Sort Prop
  with d_power_mind := Minimality for d_power Sort Prop
  with d_unary_mind := Minimality for d_unary Sort Prop
  with d_prod_mind := Minimality for d_prod Sort Prop
  with d_sum_mind := Minimality for d_sum Sort Prop.

Lemma d_sum_ends_closed : forall ts e, d_sum ts e -> ends_closed ts.
Proof.
  intros ts e H.
  apply (d_sum_mind (fun ts _ => ends_closed ts) (fun ts _ => ends_closed ts) (fun ts _ => ends_closed ts)
                    (fun ts _ => ends_closed ts) (fun ts _ => ends_closed ts)) with (e := e); try exact H; clear; intros.
  - split; [discriminate | reflexivity].
  - split; [discriminate | reflexivity].
  - split; [discriminate | reflexivity].
  - change (TLP :: ts ++ [TRP]) with ((TLP :: ts) ++ [TRP]). apply ends_closed_app. split; [discriminate | reflexivity].
  - assumption.
  - apply ends_closed_app. split; [discriminate | reflexivity].
  - assumption.
  - change (TMinus :: ts) with ([TMinus] ++ ts). apply ends_closed_app; assumption.
  - assumption.
  - change (ts1 ++ TTimes :: ts2) with (ts1 ++ [TTimes] ++ ts2). rewrite app_assoc. apply ends_closed_app; assumption.
  - assumption.
  - change (ts1 ++ TPlus :: ts2) with (ts1 ++ [TPlus] ++ ts2). rewrite app_assoc. apply ends_closed_app; assumption.
  - change (ts1 ++ TMinus :: ts2) with (ts1 ++ [TMinus] ++ ts2). rewrite app_assoc. apply ends_closed_app; assumption.
Qed.

Theorem dangling_rejected : forall ts t, closer t = false -> parse_ref (ts ++ [t]) = None.
Proof.
  intros ts t Ht. apply illformed_rejected. intros [e D].
  apply d_sum_ends_closed in D. destruct D as [_ D]. rewrite last_last in D. congruence.
Qed.
Theorem empty_rejected : parse_ref [] = None.
Proof. reflexivity. Qed.
