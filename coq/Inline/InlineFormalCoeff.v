(* C11 -- from values to coefficients.  Two polynomials over the Gaussian rationals that take the
   same value at every point have the same coefficients (up to trailing zeros): the Gaussian rationals
   are an integral domain with infinitely many elements, so a polynomial with more roots than
   coefficients is zero (factor theorem by Horner division, one root at a time).  Consequence: the
   coefficient vector that mps::formal::Polynomial holds after the grammar actions -- what
   createMonomialPoly copies into the mps_monomial_poly -- IS [denote e], the zero polynomial being
   stored as the single coefficient 0. *)
Require Import List ZArith NArith QArith Qcanon Bool Arith Lia Ring Lqa.
Require Import MPSV.Inline.InlineModel MPSV.Inline.InlineAlgebra MPSV.Inline.InlineFormal
               MPSV.Inline.InlineFormalInv MPSV.Inline.InlineFormalMul.
Import ListNotations.
Open Scope Qc_scope.

(* ------------------------------------------------------------------ the Gaussian rationals are an integral domain *)
Lemma Qc_sumsq_zero : forall a b : Qc, a * a + b * b = 0 -> a = 0 /\ b = 0.
Proof.
  intros a b H.
  assert (HQ : (this a * this a + this b * this b == 0)%Q).
  { unfold Qcplus, Qcmult in H. apply Q2Qc_eq_iff in H.
    cbn [this Q2Qc] in H. rewrite !Qred_correct in H. exact H. }
  assert (Ha : (this a == 0)%Q) by nra.
  assert (Hb : (this b == 0)%Q) by nra.
  split; apply Qc_is_canon; simpl; assumption.
Qed.

Lemma Cmul_integral : forall a b, Cmul a b = C0 -> a = C0 \/ b = C0.
Proof.
  intros [a1 a2] [b1 b2] H.
  assert (Hre : a1 * b1 - a2 * b2 = 0) by (apply (f_equal re) in H; exact H).
  assert (Him : a2 * b1 + a1 * b2 = 0) by (apply (f_equal im) in H; exact H).
  clear H.
  assert (E1 : (a1 * a1 + a2 * a2) * b1 = 0)
    by (replace ((a1 * a1 + a2 * a2) * b1) with (a1 * (a1 * b1 - a2 * b2) + a2 * (a2 * b1 + a1 * b2)) by ring;
        rewrite Hre, Him; ring).
  assert (E2 : (a1 * a1 + a2 * a2) * b2 = 0)
    by (replace ((a1 * a1 + a2 * a2) * b2) with (a1 * (a2 * b1 + a1 * b2) - a2 * (a1 * b1 - a2 * b2)) by ring;
        rewrite Hre, Him; ring).
  apply Qcmult_integral in E1. apply Qcmult_integral in E2.
  destruct E1 as [E1|E1]; [left; destruct (Qc_sumsq_zero _ _ E1); subst; reflexivity|].
  destruct E2 as [E2|E2]; [left; destruct (Qc_sumsq_zero _ _ E2); subst; reflexivity|].
  right. subst. reflexivity.
Qed.

(* infinitely many points: the natural numbers *)
Definition pt (k : nat) : C := mkC (Q2Qc (inject_Z (Z.of_nat k))) 0.
Lemma pt_inj : forall i j, pt i = pt j -> i = j.
Proof.
  intros i j H. apply (f_equal re) in H. unfold pt in H. cbn [re] in H.
  apply Q2Qc_eq_iff in H. unfold Qeq, inject_Z in H. cbn [Qnum Qden] in H. lia.
Qed.

(* ------------------------------------------------------------------ factor theorem *)
(* quotient of p by (x - r), Horner's scheme from the top *)
Fixpoint hdiv (p : poly) (r : C) : poly :=
  match p with
  | nil => nil
  | a :: p' => match p' with nil => nil | _ => eval p' r :: hdiv p' r end
  end.
Lemma hdiv_length : forall p r, length (hdiv p r) = (length p - 1)%nat.
Proof.
  induction p as [|a p IH]; intros r; [reflexivity|].
  destruct p as [|b p]; [reflexivity|].
  change (hdiv (a :: b :: p) r) with (eval (b :: p) r :: hdiv (b :: p) r).
  change (length (eval (b :: p) r :: hdiv (b :: p) r)) with (S (length (hdiv (b :: p) r))).
  rewrite IH. simpl. lia.
Qed.
Lemma hdiv_spec : forall p r x, eval p x = Cadd (Cmul (Csub x r) (eval (hdiv p r) x)) (eval p r).
Proof.
  induction p as [|a p IH]; intros r x; [simpl; ring|].
  destruct p as [|b p]; [simpl; ring|].
  change (hdiv (a :: b :: p) r) with (eval (b :: p) r :: hdiv (b :: p) r).
  change (eval (a :: b :: p) x) with (Cadd a (Cmul x (eval (b :: p) x))).
  change (eval (a :: b :: p) r) with (Cadd a (Cmul r (eval (b :: p) r))).
  change (eval (eval (b :: p) r :: hdiv (b :: p) r) x) with (Cadd (eval (b :: p) r) (Cmul x (eval (hdiv (b :: p) r) x))).
  rewrite (IH r x) at 1. ring.
Qed.
Definition all0 (p : poly) : Prop := Forall (fun c => c = C0) p.
Lemma hdiv_all0 : forall p r, all0 (hdiv p r) -> eval p r = C0 -> all0 p.
Proof.
  induction p as [|a p IH]; intros r Hq Hr; [constructor|].
  destruct p as [|b p].
  - simpl in Hr. constructor; [|constructor]. rewrite <- Hr. ring.
  - change (hdiv (a :: b :: p) r) with (eval (b :: p) r :: hdiv (b :: p) r) in Hq.
    inversion Hq as [|? ? Hq1 Hq2]; subst.
    pose proof (IH r Hq2 Hq1) as Hp.
    cbn [eval] in Hr, Hq1. rewrite Hq1 in Hr.
    constructor; [|exact Hp]. rewrite <- Hr. ring.
Qed.

(* a polynomial vanishing at all the points pt m, pt (m+1), ... has only zero coefficients *)
Lemma roots_all0 : forall n p m, (length p <= n)%nat -> (forall k, (m <= k)%nat -> eval p (pt k) = C0) -> all0 p.
Proof.
  induction n as [|n IH]; intros p m Hl Hz.
  - destruct p; [constructor | simpl in Hl; lia].
  - apply (hdiv_all0 p (pt m)); [| apply Hz; lia].
    apply (IH _ (S m)); [rewrite hdiv_length; lia|].
    intros k Hk. pose proof (Hz k ltac:(lia)) as E. rewrite (hdiv_spec p (pt m) (pt k)) in E.
    rewrite (Hz m) in E by lia.
    assert (E' : Cmul (Csub (pt k) (pt m)) (eval (hdiv p (pt m)) (pt k)) = C0) by (rewrite <- E; ring).
    apply Cmul_integral in E'. destruct E' as [E'|E']; [|exact E'].
    exfalso. assert (pt k = pt m) by (replace (pt k) with (Cadd (Csub (pt k) (pt m)) (pt m)) by ring; rewrite E'; ring).
    apply pt_inj in H. lia.
Qed.

Lemma all0_strip : forall p, all0 p -> strip p = nil.
Proof.
  induction p as [|a p IH]; intros H; [reflexivity|]. inversion H; subst. simpl. rewrite IH by assumption. reflexivity.
Qed.
Lemma sub_all0_strip : forall p q, all0 (psub p q) -> strip p = strip q.
Proof.
  unfold psub. induction p as [|a p IH]; intros q H.
  - simpl in H. simpl. symmetry. apply all0_strip.
    clear -H. induction q as [|b q IH]; [constructor|]. simpl in H. inversion H as [|? ? H1 H2]; subst.
    constructor; [| apply IH; exact H2]. replace b with (Copp (Copp b)) by ring. rewrite H1. ring.
  - destruct q as [|b q].
    + simpl in H. rewrite (all0_strip _ H). reflexivity.
    + simpl in H. inversion H as [|? ? H1 H2]; subst.
      assert (a = b) by (replace a with (Cadd (Cadd a (Copp b)) b) by ring; rewrite H1; ring). subst b.
      simpl. rewrite (IH q H2). reflexivity.
Qed.

(* identity theorem: equal values everywhere (even: at all natural numbers) -> equal normal forms *)
Theorem eval_eq_strip_eq : forall p q, (forall x, eval p x = eval q x) -> strip p = strip q.
Proof.
  intros p q H. apply sub_all0_strip. apply (roots_all0 (length (psub p q)) _ 0%nat (le_n _)).
  intros k _. rewrite eval_psub, H. ring.
Qed.

(* ------------------------------------------------------------------ the stored coefficient vector *)
Lemma strip_last_id : forall l, l <> nil -> Cis0 (last l C0) = false -> strip l = l.
Proof.
  induction l as [|a l IH]; intros Hne Hl; [congruence|].
  destruct l as [|b l].
  - simpl in *. rewrite Hl. reflexivity.
  - change (last (a :: b :: l) C0) with (last (b :: l) C0) in Hl.
    change (strip (a :: b :: l)) with (match strip (b :: l) with nil => if Cis0 a then nil else [a] | s => a :: s end).
    rewrite (IH ltac:(discriminate) Hl). reflexivity.
Qed.
Lemma last_map_mc : forall p, p <> nil -> last (map mc p) C0 = mc (last p mono0).
Proof.
  induction p as [|a p IH]; intros H; [congruence|]. destruct p as [|b p]; [reflexivity|].
  change (last (map mc (a :: b :: p)) C0) with (last (map mc (b :: p)) C0).
  change (last (a :: b :: p) mono0) with (last (b :: p) mono0). apply IH. discriminate.
Qed.

(* what the vector looks like as a function of its normal form: the zero polynomial is [0] *)
Definition stored (d : poly) : poly := match d with nil => [C0] | _ => d end.
Lemma fp_normal_stored : forall p, fp_normal p -> fp_coeffs p = stored (strip (fp_coeffs p)).
Proof.
  intros p [Hne [Hl|Hl]].
  - destruct p as [|m [|? ?]]; simpl in Hl; try congruence; try lia.
    unfold fp_coeffs; simpl. destruct (Cis0 (mc m)) eqn:E; [apply Cis0_true in E; rewrite E|]; reflexivity.
  - unfold fp_coeffs. rewrite strip_last_id.
    + destruct p; [congruence | reflexivity].
    + destruct p; [congruence | discriminate].
    + rewrite last_map_mc by exact Hne. exact Hl.
Qed.

(* end to end for the model of formal-polynomial.cpp / formal-monomial.cpp: the coefficients held after
   the grammar actions along e are exactly those of the polynomial e denotes *)
Theorem fp_denote_coeffs : forall e, fp_coeffs (fp_denote e) = stored (denote e).
Proof.
  intros e. rewrite (fp_normal_stored _ (proj2 (fp_denote_inv e))). f_equal.
  unfold denote. apply eval_eq_strip_eq. intros x.
  change (eval (fp_coeffs (fp_denote e)) x) with (fp_eval (fp_denote e) x).
  rewrite fp_denote_eval, eval_draw. reflexivity.
Qed.

(* operator* at the level of coefficients: the normal form of the product vector is the product *)
Theorem fp_mul_coeffs : forall p q, fp_ok p -> fp_ok q ->
  fp_coeffs (fp_mul p q) = stored (strip (pmul (fp_coeffs p) (fp_coeffs q))).
Proof.
  intros p q Hp Hq. rewrite (fp_normal_stored _ (proj2 (fp_mul_inv p q))). f_equal.
  apply eval_eq_strip_eq. intros x.
  change (eval (fp_coeffs (fp_mul p q)) x) with (fp_eval (fp_mul p q) x).
  rewrite fp_mul_eval, eval_pmul by assumption. reflexivity.
Qed.
