(* C11 -- class invariant of mps::formal::Polynomial as coded: the vector is never empty, a
   non-zero entry carries its own index as degree, and there is no trailing zero except in the
   constant polynomial.  Every operation used by the grammar actions (+=, -=, *, ^k, unary minus)
   preserves it, because all of them go through `+= Monomial` and its trimming loop. *)
Require Import List ZArith NArith QArith Qcanon Bool Arith Lia.
Require Import MPSV.Inline.InlineModel MPSV.Inline.InlineAlgebra MPSV.Inline.InlineFormal.
Import ListNotations.
Notation length := List.length.
Open Scope nat_scope.

Definition fp_inv (p : fpoly) : Prop := fp_ok p /\ fp_normal p.

Lemma nth_set_nth : forall p d m i, d < length p ->
  nth i (set_nth d m p) mono0 = if Nat.eqb i d then m else nth i p mono0.
Proof.
  induction p as [|a p IH]; intros d m i Hd; simpl in Hd; [lia|].
  destruct d as [|d]; destruct i as [|i]; simpl; try reflexivity.
  apply IH. lia.
Qed.

Lemma nth_removelast : forall (p : fpoly) i, i < length p - 1 -> nth i (removelast p) mono0 = nth i p mono0.
Proof.
  induction p as [|a p IH]; intros i Hi; simpl in *; [lia|].
  destruct p as [|b p]; [simpl in Hi; lia|].
  destruct i as [|i]; [reflexivity|]. apply IH. simpl in *. lia.
Qed.
Lemma removelast_length : forall (p : fpoly), length (removelast p) = length p - 1.
Proof.
  intros p. destruct p as [|a p]; [reflexivity|].
  assert (Hne : a :: p <> []) by discriminate.
  pose proof (app_removelast_last mono0 Hne) as E.
  apply (f_equal (@List.length mono)) in E. rewrite app_length in E. simpl in E. simpl. lia.
Qed.

Definition entries_ok (p : fpoly) : Prop :=
  forall i, i < length p -> mono_is0 (nth i p mono0) = false -> md (nth i p mono0) = i.

Lemma trim_entries_ok : forall f p, entries_ok p -> entries_ok (trim_loop f p).
Proof.
  induction f as [|f IH]; intros p H; simpl; [exact H|].
  destruct (mono_is0 (last p mono0) && (0 <? fdeg p)); [|exact H].
  apply IH. intros i Hi Hz. rewrite removelast_length in Hi.
  rewrite nth_removelast in * by exact Hi. apply H; [lia | exact Hz].
Qed.

Lemma trim_normal : forall f p, p <> [] -> length p <= S f -> fp_normal (trim_loop f p).
Proof.
  induction f as [|f IH]; intros p Hp Hl; simpl.
  - split; [exact Hp|]. left. destruct p; [congruence | simpl in *; lia].
  - destruct (mono_is0 (last p mono0)) eqn:Ez; simpl.
    + destruct (0 <? fdeg p) eqn:Ed.
      * apply Nat.ltb_lt in Ed. unfold fdeg in Ed. apply IH.
        -- intros E. apply (f_equal (@length mono)) in E. rewrite removelast_length in E. simpl in E. lia.
        -- rewrite removelast_length. lia.
      * apply Nat.ltb_ge in Ed. unfold fdeg in Ed. split; [exact Hp|]. left.
        destruct p; [congruence | simpl in *; lia].
    + split; [exact Hp | right; exact Ez].
Qed.

Lemma repeat0_nth_is0 : forall k n, mono_is0 (nth k (repeat mono0 n) mono0) = true.
Proof. intros; rewrite nth_repeat0; reflexivity. Qed.

Theorem fp_add_mono_inv : forall p m, p <> [] -> entries_ok p -> fp_inv (fp_add_mono p m).
Proof.
  intros p m Hp Hok.
  assert (Hlen : 0 < length p) by (destruct p; [congruence | simpl; lia]).
  unfold fp_add_mono.
  set (p1 := if md m <=? fdeg p
             then if mono_is0 (nth (md m) p mono0) then set_nth (md m) m p
                  else set_nth (md m) (mkM (Cadd (mc (nth (md m) p mono0)) (mc m)) (md m)) p
             else set_nth (md m) m (resize (md m + 1) p)).
  assert (H1 : p1 <> [] /\ entries_ok p1).
  { unfold p1. destruct (md m <=? fdeg p) eqn:Ed.
    - apply Nat.leb_le in Ed. unfold fdeg in Ed.
      destruct (mono_is0 (nth (md m) p mono0)) eqn:Ez.
      + split.
        * intros E. apply (f_equal (@length mono)) in E. rewrite set_nth_length in E. simpl in E. lia.
        * intros i Hi Hz. rewrite set_nth_length in Hi. rewrite nth_set_nth in * by lia.
          destruct (Nat.eqb i (md m)) eqn:Ei; [apply Nat.eqb_eq in Ei; congruence | apply Hok; assumption].
      + split.
        * intros E. apply (f_equal (@length mono)) in E. rewrite set_nth_length in E. simpl in E. lia.
        * intros i Hi Hz. rewrite set_nth_length in Hi. rewrite nth_set_nth in * by lia.
          destruct (Nat.eqb i (md m)) eqn:Ei; [apply Nat.eqb_eq in Ei; simpl; congruence | apply Hok; assumption].
    - apply Nat.leb_gt in Ed. unfold fdeg in Ed.
      rewrite resize_grow by lia.
      assert (Hl2 : length (p ++ repeat mono0 (md m + 1 - length p)) = md m + 1)
        by (rewrite app_length, repeat_length; lia).
      split.
      + intros E. apply (f_equal (@length mono)) in E. rewrite set_nth_length, Hl2 in E. simpl in E. lia.
      + intros i Hi Hz. rewrite set_nth_length, Hl2 in Hi. rewrite nth_set_nth in * by lia.
        destruct (Nat.eqb i (md m)) eqn:Ei; [apply Nat.eqb_eq in Ei; congruence|].
        destruct (Nat.lt_ge_cases i (length p)) as [Hlt|Hge].
        * rewrite app_nth1 in * by exact Hlt. apply Hok; assumption.
        * rewrite app_nth2 in Hz by exact Hge. rewrite repeat0_nth_is0 in Hz. discriminate. }
  destruct H1 as [Hne Hok1]. split.
  - split; [apply trim_loop_nonempty; exact Hne | apply trim_entries_ok; exact Hok1].
  - apply trim_normal; [exact Hne | lia].
Qed.

Lemma fp_inv_nonempty : forall p, fp_inv p -> p <> [] /\ entries_ok p.
Proof. intros p [[H1 H2] _]. split; assumption. Qed.

(* any chain of `+= Monomial` keeps the invariant *)
Lemma fold_add_mono_inv : forall q p, fp_inv p -> fp_inv (fold_left fp_add_mono q p).
Proof.
  induction q as [|m q IH]; intros p Hp; simpl; [exact Hp|].
  apply IH. destruct (fp_inv_nonempty p Hp). apply fp_add_mono_inv; assumption.
Qed.

Theorem fp_add_inv : forall p q, fp_inv p -> fp_inv (fp_add p q).
Proof. intros; unfold fp_add; apply fold_add_mono_inv; assumption. Qed.
Theorem fp_sub_inv : forall p q, fp_inv p -> fp_inv (fp_sub p q).
Proof. intros; unfold fp_sub; rewrite fold_sub_as_add; apply fold_add_mono_inv; assumption. Qed.

Lemma fp_inv_const : forall c, fp_inv (fp_of_mono (mkM c 0)).
Proof.
  intros c. unfold fp_of_mono; simpl. split; [split; [discriminate|] | split; [discriminate | left; reflexivity]].
  intros [|i] Hi Hz; simpl in *; [reflexivity | lia].
Qed.
Lemma fp_inv_x : fp_inv (fp_of_mono (mkM C1 1)).
Proof.
  unfold fp_of_mono; simpl. split; [split; [discriminate|] | split; [discriminate | right; reflexivity]].
  intros [|[|i]] Hi Hz; simpl in *; try reflexivity; try discriminate; lia.
Qed.

Theorem fp_neg_inv : forall p, fp_inv (fp_neg p).
Proof. intros; unfold fp_neg; apply fp_sub_inv; apply (fp_inv_const C0). Qed.

(* operator*: the double loop only ever does `+= Monomial` on a result that starts as [0] *)
Lemma fold_cond_inv : forall (A : Type) (c : A -> bool) (h : A -> mono) l acc, fp_inv acc ->
  fp_inv (fold_left (fun acc j => if c j then fp_add_mono acc (h j) else acc) l acc).
Proof.
  induction l as [|j l IH]; intros acc H; simpl; [exact H|].
  apply IH. destruct (c j); [|exact H]. destruct (fp_inv_nonempty acc H). apply fp_add_mono_inv; assumption.
Qed.
Theorem fp_mul_inv : forall p q, fp_inv (fp_mul p q).
Proof.
  intros p q. unfold fp_mul.
  generalize (seq 0 (S (fdeg q))). intros l2.
  generalize (seq 0 (S (fdeg p + fdeg q))). intros l.
  assert (H0 : fp_inv [mono0]) by apply (fp_inv_const C0).
  revert H0. generalize [mono0]. induction l as [|i l IH]; intros acc H; simpl; [exact H|].
  apply IH. apply fold_cond_inv. exact H.
Qed.
Theorem fp_pow_inv : forall b k, fp_inv (fp_pow b k).
Proof.
  intros b k. unfold fp_pow. assert (H : fp_inv (fp_of_mono (mkM C1 0))) by apply fp_inv_const.
  revert H. generalize (fp_of_mono (mkM C1 0)). induction k as [|k IH]; intros acc H; simpl; [exact H|].
  apply IH. apply fp_mul_inv.
Qed.

(* the polynomial built by the grammar actions along any expression satisfies the invariant *)
Theorem fp_denote_inv : forall e, fp_inv (fp_denote e).
Proof.
  induction e; simpl.
  - apply fp_inv_x.
  - apply fp_inv_const.
  - apply fp_add_inv; assumption.
  - apply fp_sub_inv; assumption.
  - apply fp_mul_inv.
  - apply fp_neg_inv.
  - apply fp_pow_inv.
Qed.
