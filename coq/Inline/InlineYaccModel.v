(* C11 -- driver entry point for the pipeline as generated (definitions only): flex token names,
   bison's imported LALR table (Gen/AutomatonGen.v) run by the yacc skeleton model, the grammar
   actions on the formal-polynomial model. *)
Require Import List String ZArith QArith Qcanon.
Require Import MPSV.Inline.InlineModel MPSV.Inline.InlineLR MPSV.Inline.Gen.AutomatonGen.

Definition run_yacc_string (s : string) : option (list ((Z * positive) * (Z * positive))) :=
  option_map (map coeff_out) (run_yacc automaton_gen s).
