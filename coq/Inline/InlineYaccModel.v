(* C11 -- driver entry points for the pipeline as generated (definitions only): flex token names,
   bison's imported LALR table (Gen/AutomatonGen.v) run by the yacc skeleton model, the grammar
   actions on the formal-polynomial model; with the hand-written scanner model ([run_yacc_string]) and
   with the scanner generated from tokenizer.l ([run_gen_string]). *)
Require Import List String ZArith QArith Qcanon.
Require Import MPSV.Inline.InlineModel MPSV.Inline.InlineLR MPSV.Inline.Gen.AutomatonGen MPSV.Inline.LexPipeline.

Definition run_yacc_string (s : string) : option (list ((Z * positive) * (Z * positive))) :=
  option_map (map coeff_out) (run_yacc automaton_gen s).
Definition run_gen_string (s : string) : option (list ((Z * positive) * (Z * positive))) :=
  option_map (map coeff_out) (run_gen automaton_gen s).
