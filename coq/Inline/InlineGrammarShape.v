(* C11 -- the grammar file as regenerated from the source tree is the grammar the proofs
   and the reference parser were written for.  Any edit of yacc-parser.y that changes the
   token set, the precedence table, a production or the calls made by an action breaks
   [grammar_shape] and sends the check into its failing-input search. *)
Require Import List String Bool.
Require Import MPSV.Inline.InlineGrammar MPSV.Inline.Gen.GrammarGen.

Lemma grammar_shape : grammar_gen = expected_grammar.
Proof. vm_compute. reflexivity. Qed.

Lemma expected_precedence : grammar_encodes_precedence expected_grammar = true.
Proof. vm_compute. reflexivity. Qed.

Lemma gen_precedence : grammar_encodes_precedence grammar_gen = true.
Proof. rewrite grammar_shape. exact expected_precedence. Qed.
