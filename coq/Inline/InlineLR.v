(* C11 -- executable model of the parser bison generates: data model of an LALR automaton as
   reported by `bison --xml`, the table-driven LR driver of the yacc skeleton (shift / reduce /
   default reduction / accept / syntax error), the semantic actions of yacc-parser.y lifted to
   ASTs, and yacc's precedence rule for resolving shift/reduce conflicts.  Definitions only. *)
Require Import List String Bool Arith NArith.
Require Import MPSV.Inline.InlineModel MPSV.Inline.InlineGrammar.
Import ListNotations.
Open Scope string_scope.
Notation length := List.length.

Inductive action : Set := Shift (s : nat) | Reduce (r : nat) | Accept | ErrorAct.
Inductive resolution : Set := ResShift | ResReduce | ResError.
Record lrstate : Set := mkSt {
  st_actions : list (string * action);      (* on a lookahead terminal *)
  st_default : option action;               (* $default *)
  st_gotos : list (nat * nat)               (* nonterminal id -> state *)
}.
Record automaton : Set := {
  a_rules : list (nat * list sym);          (* rule k (k >= 1) at position k-1: lhs id, rhs *)
  a_states : list lrstate;
  a_solved : list (nat * nat * string * resolution);   (* state, rule, lookahead, bison's decision *)
  a_unresolved_warnings : nat
}.

(* ------------------------------------------------------------------ yacc's conflict resolution *)
(* rule precedence vs lookahead-token precedence: higher token -> shift, lower -> reduce,
   equal: %left reduce, %right shift, %nonassoc error *)
Definition resolve (g : grammar) (rule : nat) (tok : string) : option resolution :=
  match nth_error (g_prods g) (rule - 1) with
  | None => None
  | Some p =>
    match prod_prec g p, prec_of g tok with
    | Some (lr, _), Some (lt, a) =>
      if (lr <? lt)%nat then Some ResShift
      else if (lt <? lr)%nat then Some ResReduce
      else match a with
           | AssocLeft => Some ResReduce | AssocRight => Some ResShift
           | AssocNone => Some ResError | AssocPrec => None
           end
    | _, _ => None
    end
  end.
Definition resolution_eqb (a b : resolution) : bool :=
  match a, b with ResShift, ResShift | ResReduce, ResReduce | ResError, ResError => true | _, _ => false end.
Definition solved_by_precedence (g : grammar) (a : automaton) : bool :=
  forallb (fun c => match c with (_, r, t, d) =>
             match resolve g r t with Some d' => resolution_eqb d d' | None => false end end) (a_solved a).

(* every (state, lookahead) has at most one action: nothing was left to bison's defaults *)
Fixpoint nodup_keys (l : list (string * action)) : bool :=
  match l with
  | nil => true
  | (k, _) :: r => negb (existsb (fun x => String.eqb (fst x) k) r) && nodup_keys r
  end.
Definition deterministic (a : automaton) : bool :=
  forallb (fun s => nodup_keys (st_actions s)) (a_states a) && Nat.eqb (a_unresolved_warnings a) 0.

Definition rules_match (g : grammar) (a : automaton) : bool :=
  let fix eq (x : list (nat * list sym)) (y : list production) : bool :=
    match x, y with
    | nil, nil => true
    | (l, r) :: x', p :: y' => Nat.eqb l (p_lhs p) && syms_eqb r (p_rhs p) && eq x' y'
    | _, _ => false
    end in eq (a_rules a) (g_prods g).

(* ------------------------------------------------------------------ semantic actions *)
Inductive sval : Set := VE (e : expr) | VT (t : token).

(* The actions of yacc-parser.y (pinned by their tags in GrammarGen), on ASTs instead of
   mps_formal_polynomial values.  None = the action calls yyerror and YYABORT. *)
Definition sem (rhs : list sym) (vals : list sval) : option sval :=
  match rhs, vals with
  | [NT _], [v] => Some v                                                    (* $$ = $1 / new_with_monomial *)
  | [T "LEFT_BRACKET"; NT _; T "RIGHT_BRACKET"], [_; v; _] => Some v
  | [NT _; T "TIMES"; NT _], [VE a; _; VE b] => Some (VE (Mul a b))          (* polynomial_mul_eq *)
  | [NT _; T "PLUS"; NT _], [VE a; _; VE b] => Some (VE (Add a b))           (* polynomial_sum_eq_p *)
  | [NT _; T "MINUS"; NT _], [VE a; _; VE b] => Some (VE (Sub a b))          (* polynomial_sub_eq_p *)
  | [T "MINUS"; NT _], [_; VE a] => Some (VE (Neg a))                        (* 0 - $2 *)
  | [NT _; T "SUPERSCRIPT"; T "RATIONAL"], [VE a; _; VT (TNum k xH true)] => Some (VE (Pow a (N.to_nat k)))
  | [NT _; T "SUPERSCRIPT"; T "RATIONAL"], _ => None                         (* '/' in the exponent: yyerror, YYABORT *)
  | [T "MONOMIAL"], [VT TX] => Some (VE X)
  | [T "RATIONAL"], [VT (TNum n d _)] => Some (VE (Num n d false))
  | [T "FLOATING_POINT"], [VT (TNum n d _)] => Some (VE (Num n d false))
  | [NT _; T "IMAGINARY_UNIT"], [VE (Num n d false); _] => Some (VE (Num n d true))   (* i * $1 *)
  | _, _ => None
  end.

(* ------------------------------------------------------------------ the LR driver *)
Inductive lr_result : Set := LAccept (e : expr) | LReject | LFuel | LBadTable.

Fixpoint lookup_act (k : string) (l : list (string * action)) : option action :=
  match l with nil => None | (k', a) :: r => if String.eqb k k' then Some a else lookup_act k r end.
Fixpoint lookup_goto (k : nat) (l : list (nat * nat)) : option nat :=
  match l with nil => None | (k', s) :: r => if Nat.eqb k k' then Some s else lookup_goto k r end.
Definition top_state (stack : list (nat * sval)) : nat := match stack with (s, _) :: _ => s | nil => 0 end.
Fixpoint first_expr (stack : list (nat * sval)) : option expr :=
  match stack with nil => None | (_, VE e) :: _ => Some e | _ :: r => first_expr r end.

Definition ytoken : Set := (string * token)%type.   (* terminal name as the lexer returns it, payload *)

Fixpoint lr_loop (a : automaton) (fuel : nat) (stack : list (nat * sval)) (input : list ytoken) : lr_result :=
  match fuel with
  | O => LFuel
  | S f =>
    match nth_error (a_states a) (top_state stack) with
    | None => LBadTable
    | Some st =>
      let la := match input with (n, _) :: _ => n | nil => "$end" end in
      let act := match lookup_act la (st_actions st) with Some x => Some x | None => st_default st end in
      match act with
      | None | Some ErrorAct => LReject                                   (* syntax error: yyerror *)
      | Some Accept => match first_expr stack with Some e => LAccept e | None => LBadTable end
      | Some (Shift s) =>
        match input with
        | (_, tok) :: rest => lr_loop a f ((s, VT tok) :: stack) rest
        | nil => lr_loop a f ((s, VT TRP) :: stack) nil                   (* shifting $end *)
        end
      | Some (Reduce r) =>
        match nth_error (a_rules a) (r - 1) with
        | None => LBadTable
        | Some (lhs, rhs) =>
          let n := length rhs in
          if (length stack <? n)%nat then LBadTable else
          match sem rhs (rev (map snd (firstn n stack))) with
          | None => LReject                                               (* YYABORT after yyerror *)
          | Some v =>
            let stack' := skipn n stack in
            match nth_error (a_states a) (top_state stack') with
            | None => LBadTable
            | Some st' => match lookup_goto lhs (st_gotos st') with
                          | None => LBadTable
                          | Some s' => lr_loop a f ((s', v) :: stack') input
                          end
            end
          end
        end
      end
    end
  end.
Definition lr_run (a : automaton) (input : list ytoken) : lr_result :=
  lr_loop a (8 * length input + 16) nil input.

(* ------------------------------------------------------------------ bounded exhaustive comparison *)
(* one representative payload per kind of token the lexer can deliver *)
Definition alphabet : list ytoken :=
  [("MONOMIAL", TX); ("RATIONAL", TNum 2 1 true); ("RATIONAL", TNum 3 4 false);
   ("FLOATING_POINT", TNum 3 2 false); ("IMAGINARY_UNIT", TI); ("PLUS", TPlus); ("MINUS", TMinus);
   ("TIMES", TTimes); ("SUPERSCRIPT", TPow); ("LEFT_BRACKET", TLP); ("RIGHT_BRACKET", TRP)].

Fixpoint expr_eqb (a b : expr) : bool :=
  match a, b with
  | X, X => true
  | Num n d i, Num n' d' i' => N.eqb n n' && Pos.eqb d d' && Bool.eqb i i'
  | Add x y, Add x' y' | Sub x y, Sub x' y' | Mul x y, Mul x' y' => expr_eqb x x' && expr_eqb y y'
  | Neg x, Neg x' => expr_eqb x x'
  | Pow x k, Pow x' k' => expr_eqb x x' && Nat.eqb k k'
  | _, _ => false
  end.
Definition agree (a : automaton) (ys : list ytoken) : bool :=
  match lr_run a ys, parse_ref (map snd ys) with
  | LAccept e, Some e' => expr_eqb e e'
  | LReject, None => true
  | _, _ => false
  end.
(* all token lists of length <= n that end in [suffix] (built by consing in front) *)
Fixpoint agree_upto (a : automaton) (n : nat) (suffix : list ytoken) : bool :=
  agree a suffix &&
  match n with
  | O => true
  | S n' => forallb (fun y => agree_upto a n' (y :: suffix)) alphabet
  end.
(* the enumeration as a list, to state the bounded theorem over an explicit quantifier *)
Fixpoint lists_upto (n : nat) (suffix : list ytoken) : list (list ytoken) :=
  suffix :: match n with
            | O => nil
            | S n' => flat_map (fun y => lists_upto n' (y :: suffix)) alphabet
            end.

(* ------------------------------------------------------------------ the whole pipeline as generated *)
(* tokenizer.l as the parser sees it: the token NAME flex returns together with the payload.  Same scan
   as [InlineModel.lex_fuel]; a number is RATIONAL when rule 1 ([0-9]+(\/[0-9]+)?) wins (digits, or
   digits '/' digits; ties go to the first rule) and FLOATING_POINT when rule 2 matches longer. *)
Definition number_name (s : list Ascii.ascii) : string :=
  let (_, r) := span_digits s in
  match r with
  | c :: r1 =>
    if (Ascii.nat_of_ascii c =? 47)%nat then "RATIONAL"
    else if (Ascii.nat_of_ascii c =? 46)%nat then "FLOATING_POINT"
    else match lex_exp r with Some _ => "FLOATING_POINT" | None => "RATIONAL" end
  | nil => "RATIONAL"
  end.
Fixpoint ylex_fuel (fuel : nat) (s : list Ascii.ascii) : option (list ytoken) :=
  match fuel with
  | O => None
  | S f =>
    match s with
    | nil => Some nil
    | c :: r =>
      let n := Ascii.nat_of_ascii c in
      let cons t := match ylex_fuel f r with Some ts => Some (t :: ts) | None => None end in
      if is_digit c then
        match lex_number s with
        | Some (t, r') => match ylex_fuel f r' with Some ts => Some ((number_name s, t) :: ts) | None => None end
        | None => None
        end
      else if is_var n then cons ("MONOMIAL", TX)
      else if (n =? 43)%nat then cons ("PLUS", TPlus)
      else if (n =? 45)%nat then cons ("MINUS", TMinus)
      else if (n =? 105)%nat then cons ("IMAGINARY_UNIT", TI)
      else if (n =? 40)%nat then cons ("LEFT_BRACKET", TLP)
      else if (n =? 41)%nat then cons ("RIGHT_BRACKET", TRP)
      else if (n =? 42)%nat then cons ("TIMES", TTimes)
      else if (n =? 94)%nat then cons ("SUPERSCRIPT", TPow)
      else if (n =? 32)%nat || (n =? 9)%nat then ylex_fuel f r
      else None
    end
  end.
Definition ylex (s : string) : option (list ytoken) :=
  let l := list_ascii_of_string s in ylex_fuel (S (length l)) l.

(* mps_parse_inline_poly_from_string as generated: flex tokens -> bison's table-driven parser with the
   semantic actions -> the coefficient vector of the mps::formal::Polynomial left in data->p
   (createMonomialPoly copies it out).  None = an error was raised. *)
Definition run_yacc (a : automaton) (s : string) : option (list C) :=
  match ylex s with
  | None => None
  | Some ys => match lr_run a ys with
               | LAccept e => Some (fp_coeffs (fp_denote e))
               | _ => None
               end
  end.
