(* C11 -- soundness of the table-driven parser for ALL inputs (no bound on the length, any fuel):
   whenever [lr_loop] over an LALR table accepts a token list with AST e, that token list is a
   well-formed expression of the declarative grammar of the property (InlineDecl: power > unary minus >
   product > sum, left associative) and e is exactly its reading.

   Method: a typing of the LR stack that is generic in the automaton.  An annotation gives every state
   a [kind]: the symbol it is entered on and, for states entered on `polynomial`, the weakest
   precedence level of a value that may sit there (0 sum, 1 product, 2 unary; e.g. the state after
   "polynomial TIMES polynomial" only ever holds operands that bind at least as tightly as a unary
   minus).  [lr_check] is a boolean, table-only check (run once by vm_compute on bison's table) of the
   local conditions that make the typing an invariant of every shift and reduce:
     - shifts and gotos enter states of the right kind; a default action is never a shift;
     - wherever a rule can be reduced, ALL paths into that state spell the right-hand side [back_ok];
     - the state where rule Mul/Add/Sub/Neg is reduced holds a tight enough right operand, and the
       reduction is never chosen when the lookahead binds tighter ('^' for Mul and Neg, '^' and '*' for
       Add and Sub): this is what yacc's precedence resolution must have produced;
     - a polynomial state that shifts '*' accepts products, one that shifts '+'/'-' accepts sums;
     - accept only after $end, $end only after a complete polynomial at the bottom of the stack.
   The invariant [SI] says: the consumed input is the concatenation of one segment per stack entry, and
   each `polynomial` entry holds an AST that the declarative grammar derives from its segment at some
   level l with  kind-level <= l, where l = 3 (power) if the next symbol is '^' and l >= 1 if it is '*'. *)
Require Import List String Bool Arith NArith Lia.
Require Import MPSV.Inline.InlineModel MPSV.Inline.InlineDecl MPSV.Inline.InlineGrammar MPSV.Inline.InlineLR.
Import ListNotations.
Open Scope string_scope.
Open Scope list_scope.
Notation length := List.length.

(* ------------------------------------------------------------------ annotation and table check *)
Inductive kind : Set := KBot | KEnd | KT (n : string) | KP (l : nat) | KM | KN | KR.

Definition kind_eqb (a b : kind) : bool :=
  match a, b with
  | KBot, KBot | KEnd, KEnd | KM, KM | KN, KN | KR, KR => true
  | KT n, KT m => String.eqb n m
  | KP l, KP m => Nat.eqb l m
  | _, _ => false
  end.
Definition sym_of (k : kind) : option sym :=
  match k with
  | KBot => None | KEnd => Some (T "$end") | KT n => Some (T n)
  | KP _ => Some (NT 0) | KM => Some (NT 1) | KN => Some (NT 2) | KR => Some (NT 3)
  end.
Definition fname (k : kind) : string := match k with KT n => n | KEnd => "$end" | _ => "" end.
Definition lvl_of (k : kind) : nat := match k with KP l => l | _ => 0 end.
Definition osym_eqb (a : option sym) (b : sym) : bool := match a with Some x => sym_eqb x b | None => false end.

(* the rules the semantic actions [sem] are written for (position = rule number - 1) *)
Definition rules0 : list (nat * list sym) :=
  [ (0, [NT 1]); (0, [T "LEFT_BRACKET"; NT 0; T "RIGHT_BRACKET"]); (0, [NT 0; T "TIMES"; NT 0]);
    (0, [NT 0; T "PLUS"; NT 0]); (0, [NT 0; T "MINUS"; NT 0]); (0, [T "MINUS"; NT 0]);
    (0, [NT 0; T "SUPERSCRIPT"; T "RATIONAL"]); (1, [T "MONOMIAL"]); (1, [NT 2]); (2, [NT 3]);
    (2, [NT 3; T "IMAGINARY_UNIT"]); (3, [T "RATIONAL"]); (3, [T "FLOATING_POINT"]) ].
(* per rule (index = number - 1): level the right operand must have; lookaheads on which it must not be reduced *)
Definition top_lvl (ri : nat) : nat := match ri with 2 => 2 | 3 => 1 | 4 => 1 | 5 => 2 | _ => 0 end.
Definition forb (ri : nat) : list string :=
  match ri with 2 => ["SUPERSCRIPT"] | 3 => ["SUPERSCRIPT"; "TIMES"] | 4 => ["SUPERSCRIPT"; "TIMES"] | 5 => ["SUPERSCRIPT"] | _ => [] end.

Section Check.
Variable a : automaton.
Variable kinds : list kind.
Definition kd (s : nat) : kind := nth s kinds KBot.

Definition trans (s : nat) (Y : sym) : option nat :=
  match nth_error (a_states a) s with
  | None => None
  | Some st => match Y with
               | T n => match lookup_act n (st_actions st) with Some (Shift s') => Some s' | _ => None end
               | NT i => lookup_goto i (st_gotos st)
               end
  end.
(* does state t have some transition into s? *)
Definition leads_to (s : nat) (st : lrstate) : bool :=
  existsb (fun x => match snd x with Shift s' => Nat.eqb s' s | _ => false end) (st_actions st) ||
  existsb (fun x => Nat.eqb (snd x) s) (st_gotos st).
Definition preds (s : nat) : list nat :=
  filter (fun t => match nth_error (a_states a) t with Some st => leads_to s st | None => false end)
         (seq 0 (length (a_states a))).
(* every path into s spells (the reverse of) syms *)
Fixpoint back_ok (syms : list sym) (s : nat) : bool :=
  match syms with
  | nil => true
  | Y :: more => osym_eqb (sym_of (kd s)) Y && forallb (back_ok more) (preds s)
  end.

Definition has_end_shift (t : nat) : bool :=
  match nth_error (a_states a) t with
  | Some st => match lookup_act "$end" (st_actions st) with Some (Shift _) => true | _ => false end
  | None => false
  end.
Definition is_some {A} (o : option A) : bool := match o with Some _ => true | None => false end.
Definition mem (x : string) (l : list string) : bool := existsb (String.eqb x) l.

(* a reduction by rule r available in state s, on lookahead [Some la] or by default [None] *)
Definition chk_red (s : nat) (st : lrstate) (r : nat) (la : option string) : bool :=
  match nth_error (a_rules a) (r - 1) with
  | None => false
  | Some (_, rhs) =>
    back_ok (rev rhs) s && (top_lvl (r - 1) <=? lvl_of (kd s))%nat &&
    match la with
    | Some x => negb (mem x (forb (r - 1)))
    | None => forallb (fun f => is_some (lookup_act f (st_actions st))) (forb (r - 1))
    end
  end.
Definition chk_action (s : nat) (st : lrstate) (x : string * action) : bool :=
  match snd x with
  | Shift s' => kind_eqb (kd s') (if String.eqb (fst x) "$end" then KEnd else KT (fst x)) &&
                match kd s with
                | KP l => if String.eqb (fst x) "TIMES" then (l <=? 1)%nat
                          else if String.eqb (fst x) "PLUS" || String.eqb (fst x) "MINUS" then Nat.eqb l 0
                          else if String.eqb (fst x) "$end" then true else true
                | _ => negb (String.eqb (fst x) "$end")
                end
  | Reduce r => chk_red s st r (Some (fst x))
  | Accept => kind_eqb (kd s) KEnd
  | ErrorAct => true
  end.
Definition chk_default (s : nat) (st : lrstate) : bool :=
  match st_default st with
  | None | Some ErrorAct => true
  | Some (Shift _) => false
  | Some (Reduce r) => chk_red s st r None
  | Some Accept => kind_eqb (kd s) KEnd
  end.
Definition chk_goto (s : nat) (x : nat * nat) : bool :=
  osym_eqb (sym_of (kd (snd x))) (NT (fst x)) && (lvl_of (kd (snd x)) <=? 2)%nat &&
  (if Nat.eqb (fst x) 0 && has_end_shift (snd x) then Nat.eqb s 0 else true).
Definition chk_state (s : nat) (st : lrstate) : bool :=
  forallb (chk_action s st) (st_actions st) && chk_default s st && forallb (chk_goto s) (st_gotos st).
Definition lr_check : bool :=
  kind_eqb (kd 0) KBot &&
  forallb (fun s => match nth_error (a_states a) s with Some st => chk_state s st | None => false end)
          (seq 0 (length (a_states a))).

(* ------------------------------------------------------------------ the stack invariant *)
Definition tok_ok (n : string) (t : token) : Prop :=
  match t with
  | TX => n = "MONOMIAL"
  | TNum _ _ true => n = "RATIONAL"
  | TNum _ _ false => n = "RATIONAL" \/ n = "FLOATING_POINT"
  | TI => n = "IMAGINARY_UNIT" | TPlus => n = "PLUS" | TMinus => n = "MINUS" | TTimes => n = "TIMES"
  | TPow => n = "SUPERSCRIPT" | TLP => n = "LEFT_BRACKET" | TRP => n = "RIGHT_BRACKET"
  end.
Definition ytok_ok (y : ytoken) : Prop := tok_ok (fst y) (snd y).

Definition dl (l : nat) (ts : list token) (e : expr) : Prop :=
  match l with 0 => d_sum ts e | 1 => d_prod ts e | 2 => d_unary ts e | _ => d_power ts e end.
Definition fc (f : string) (l : nat) : Prop := (f = "SUPERSCRIPT" -> l = 3) /\ (f = "TIMES" -> 1 <= l).
Definition leaf (e : expr) : Prop := e = X \/ exists n d b, e = Num n d b.

Definition ety (k : kind) (v : sval) (seg : list token) (follow : string) : Prop :=
  match k, v with
  | KT n, VT t => seg = [t] /\ tok_ok n t
  | KEnd, VT _ => seg = []
  | KP l, VE e => exists m, dl m seg e /\ l <= m /\ m <= 3 /\ fc follow m
  | KM, VE e => leaf e /\ d_atom seg e
  | KN, VE e => (exists n d b, e = Num n d b) /\ d_atom seg e
  | KR, VE e => exists n d b, e = Num n d false /\ seg = [TNum n d b]
  | _, _ => False
  end.

Fixpoint SI (stack : list (nat * sval)) (segs : list (list token)) (follow : string) : Prop :=
  match stack, segs with
  | nil, nil => True
  | (s, v) :: st, seg :: sg =>
    ety (kd s) v seg follow /\ (exists X, sym_of (kd s) = Some X /\ trans (top_state st) X = Some s) /\
    SI st sg (fname (kd s))
  | _, _ => False
  end.

Definition la_of (input : list ytoken) : string := match input with (n, _) :: _ => n | nil => "$end" end.

(* ------------------------------------------------------------------ small facts *)
Lemma dl_weaken : forall l l' ts e, l' <= l -> dl l ts e -> dl l' ts e.
Proof.
  intros l l' ts e Hle H.
  assert (P3 : forall m, 3 <= m -> dl m ts e -> d_power ts e) by (intros [|[|[|m]]] ?; try lia; auto).
  assert (W32 : d_power ts e -> d_unary ts e) by (apply d_un_power).
  assert (W21 : d_unary ts e -> d_prod ts e) by (apply d_pr_unary).
  assert (W10 : d_prod ts e -> d_sum ts e) by (apply d_s_prod).
  destruct l as [|[|[|l]]]; destruct l' as [|[|[|l']]]; simpl in *; try lia; auto.
Qed.

Lemma fc_empty : forall m, fc "" m.
Proof. intros m; split; intros H; discriminate. Qed.

Lemma ety_weaken : forall k v seg f, ety k v seg f -> ety k v seg "".
Proof.
  intros k v seg f H. destruct k, v; simpl in *; auto.
  destruct H as (m & H1 & H2 & H3 & _). exists m. repeat split; auto; intros; discriminate.
Qed.
Lemma SI_weaken : forall st sg f, SI st sg f -> SI st sg "".
Proof.
  intros [|[s v] st] [|seg sg] f H; simpl in *; auto.
  destruct H as (H1 & H2 & H3). split; [eapply ety_weaken; exact H1 | split; assumption].
Qed.

Lemma lookup_act_In : forall k l x, lookup_act k l = Some x -> In (k, x) l.
Proof.
  induction l as [|[k' y] l IH]; intros x H; simpl in *; [discriminate|].
  destruct (String.eqb k k') eqn:E.
  - apply String.eqb_eq in E. inversion H; subst. left; reflexivity.
  - right. apply IH; exact H.
Qed.
Lemma lookup_goto_In : forall k l x, lookup_goto k l = Some x -> In (k, x) l.
Proof.
  induction l as [|[k' y] l IH]; intros x H; simpl in *; [discriminate|].
  destruct (Nat.eqb k k') eqn:E.
  - apply Nat.eqb_eq in E. inversion H; subst. left; reflexivity.
  - right. apply IH; exact H.
Qed.
Lemma kind_eqb_eq : forall x y, kind_eqb x y = true -> x = y.
Proof.
  intros [] [] H; simpl in H; try discriminate; try reflexivity.
  - apply String.eqb_eq in H; subst; reflexivity.
  - apply Nat.eqb_eq in H; subst; reflexivity.
Qed.
Lemma sym_eqb_eq : forall x y, sym_eqb x y = true -> x = y.
Proof.
  intros [n|i] [m|j] H; simpl in H; try discriminate.
  - apply String.eqb_eq in H; subst; reflexivity.
  - apply Nat.eqb_eq in H; subst; reflexivity.
Qed.
Lemma osym_eqb_eq : forall o X, osym_eqb o X = true -> o = Some X.
Proof. intros [x|] X0 H; simpl in H; [apply sym_eqb_eq in H; subst; reflexivity | discriminate]. Qed.

Hypothesis Hrules : a_rules a = rules0.
Hypothesis Hchk : lr_check = true.

Lemma kd0 : kd 0 = KBot.
Proof. unfold lr_check in Hchk. apply andb_prop in Hchk. destruct Hchk as [H _]. apply kind_eqb_eq; exact H. Qed.
Lemma chk_at : forall s st, nth_error (a_states a) s = Some st -> chk_state s st = true.
Proof.
  intros s st H. unfold lr_check in Hchk. apply andb_prop in Hchk. destruct Hchk as [_ H2].
  rewrite forallb_forall in H2. specialize (H2 s). rewrite H in H2. apply H2.
  apply in_seq. split; [lia|]. simpl. apply nth_error_Some. congruence.
Qed.
Lemma chk_action_at : forall s st x, nth_error (a_states a) s = Some st -> In x (st_actions st) -> chk_action s st x = true.
Proof.
  intros s st x H Hin. pose proof (chk_at s st H) as C. unfold chk_state in C.
  apply andb_prop in C. destruct C as [C _]. apply andb_prop in C. destruct C as [C _].
  rewrite forallb_forall in C. apply C; exact Hin.
Qed.
Lemma chk_default_at : forall s st, nth_error (a_states a) s = Some st -> chk_default s st = true.
Proof.
  intros s st H. pose proof (chk_at s st H) as C. unfold chk_state in C.
  apply andb_prop in C. destruct C as [C _]. apply andb_prop in C. destruct C as [_ C]. exact C.
Qed.
Lemma chk_goto_at : forall s st x, nth_error (a_states a) s = Some st -> In x (st_gotos st) -> chk_goto s x = true.
Proof.
  intros s st x H Hin. pose proof (chk_at s st H) as C. unfold chk_state in C.
  apply andb_prop in C. destruct C as [_ C]. rewrite forallb_forall in C. apply C; exact Hin.
Qed.

Lemma trans_pred : forall t X s, trans t X = Some s -> In t (preds s).
Proof.
  intros t X s H. unfold trans in H. destruct (nth_error (a_states a) t) as [st|] eqn:E; [|discriminate].
  unfold preds. apply filter_In. split.
  - apply in_seq. split; [lia|]. simpl. apply nth_error_Some. congruence.
  - rewrite E. unfold leads_to. apply orb_true_iff. destruct X as [n|i].
    + left. destruct (lookup_act n (st_actions st)) as [[s'| | |]|] eqn:L; try discriminate.
      inversion H; subst. apply lookup_act_In in L. apply existsb_exists. exists (n, Shift s). split; [exact L|].
      simpl. apply Nat.eqb_refl.
    + right. apply lookup_goto_In in H. apply existsb_exists. exists (i, s). split; [exact H|]. simpl. apply Nat.eqb_refl.
Qed.

(* an entry never sits in state 0, so "exposed state 0" means "empty stack" *)
Lemma SI_top0 : forall st sg f, SI st sg f -> top_state st = 0 -> st = [] /\ sg = [].
Proof.
  intros [|[s v] st] [|seg sg] f H H0; simpl in *; try contradiction; auto.
  subst s. destruct H as (H1 & _). rewrite kd0 in H1. destruct v; contradiction.
Qed.

(* peel one stack entry along [back_ok] *)
Lemma back_cons : forall X more stack segs f, back_ok (X :: more) (top_state stack) = true -> SI stack segs f ->
  exists s v st seg sg, stack = (s, v) :: st /\ segs = seg :: sg /\ sym_of (kd s) = Some X /\
    ety (kd s) v seg f /\ trans (top_state st) X = Some s /\ SI st sg (fname (kd s)) /\
    back_ok more (top_state st) = true.
Proof.
  intros X0 more stack segs f Hb H.
  destruct stack as [|[s v] st].
  - simpl in Hb. rewrite kd0 in Hb. simpl in Hb. discriminate.
  - destruct segs as [|seg sg]; [simpl in H; contradiction|].
    simpl in H. destruct H as (H1 & (X' & H2 & H3) & H4).
    simpl in Hb. apply andb_prop in Hb. destruct Hb as [Hb1 Hb2].
    apply osym_eqb_eq in Hb1. rewrite H2 in Hb1. inversion Hb1; subst X'.
    exists s, v, st, seg, sg. repeat split; auto.
    rewrite forallb_forall in Hb2. apply Hb2. eapply trans_pred; exact H3.
Qed.

(* what the table check says about the action chosen in state s on lookahead la *)
Definition chosen (st : lrstate) (la : string) : option action :=
  match lookup_act la (st_actions st) with Some x => Some x | None => st_default st end.

Lemma mem_In : forall x l, mem x l = true <-> In x l.
Proof.
  intros x l. unfold mem. rewrite existsb_exists. split.
  - intros (y & Hy & E). apply String.eqb_eq in E. subst. exact Hy.
  - intros H. exists x. split; [exact H | apply String.eqb_refl].
Qed.

Lemma chosen_reduce : forall s st la r, nth_error (a_states a) s = Some st -> chosen st la = Some (Reduce r) ->
  exists lhs rhs, nth_error rules0 (r - 1) = Some (lhs, rhs) /\ back_ok (rev rhs) s = true /\
    top_lvl (r - 1) <= lvl_of (kd s) /\ ~ In la (forb (r - 1)).
Proof.
  intros s st la r Hs Hc. unfold chosen in Hc.
  assert (K : exists o, chk_red s st r o = true /\
             match o with Some x => x = la | None => lookup_act la (st_actions st) = None end).
  { destruct (lookup_act la (st_actions st)) as [x|] eqn:L.
    - inversion Hc; subst x. apply lookup_act_In in L. pose proof (chk_action_at s st _ Hs L) as C.
      simpl in C. exists (Some la). split; [exact C | reflexivity].
    - pose proof (chk_default_at s st Hs) as C. unfold chk_default in C. rewrite Hc in C.
      exists None. split; [exact C | reflexivity]. }
  destruct K as (o & C & Ho). unfold chk_red in C. rewrite Hrules in C.
  destruct (nth_error rules0 (r - 1)) as [[lhs rhs]|] eqn:R; [|discriminate].
  apply andb_prop in C. destruct C as [C C3]. apply andb_prop in C. destruct C as [C1 C2].
  exists lhs, rhs. repeat split; auto.
  - apply Nat.leb_le; exact C2.
  - intros Hin. destruct o as [x|].
    + subst x. apply negb_true_iff in C3. apply mem_In in Hin. congruence.
    + rewrite forallb_forall in C3. specialize (C3 la Hin). rewrite Ho in C3. discriminate.
Qed.

Lemma chosen_shift : forall s st la s', nth_error (a_states a) s = Some st -> chosen st la = Some (Shift s') ->
  lookup_act la (st_actions st) = Some (Shift s') /\
  kd s' = (if String.eqb la "$end" then KEnd else KT la) /\
  (forall l, kd s = KP l -> (la = "TIMES" -> l <= 1) /\ (la = "PLUS" \/ la = "MINUS" -> l = 0)) /\
  (la = "$end" -> exists l, kd s = KP l).
Proof.
  intros s st la s' Hs Hc. unfold chosen in Hc.
  destruct (lookup_act la (st_actions st)) as [x|] eqn:L.
  - inversion Hc; subst x. split; [reflexivity|]. apply lookup_act_In in L.
    pose proof (chk_action_at s st _ Hs L) as C. simpl in C. apply andb_prop in C. destruct C as [C1 C2].
    apply kind_eqb_eq in C1. split; [exact C1|]. split.
    + intros l Hk. rewrite Hk in C2. split.
      * intros ->. simpl in C2. apply Nat.leb_le; exact C2.
      * intros [-> | ->]; simpl in C2; apply Nat.eqb_eq; exact C2.
    + intros ->. destruct (kd s); simpl in C2; try discriminate. eexists; reflexivity.
  - pose proof (chk_default_at s st Hs) as C. unfold chk_default in C. rewrite Hc in C. discriminate.
Qed.

Lemma chosen_accept : forall s st la, nth_error (a_states a) s = Some st -> chosen st la = Some Accept -> kd s = KEnd.
Proof.
  intros s st la Hs Hc. unfold chosen in Hc. destruct (lookup_act la (st_actions st)) as [x|] eqn:L.
  - inversion Hc; subst x. apply lookup_act_In in L. pose proof (chk_action_at s st _ Hs L) as C. simpl in C.
    apply kind_eqb_eq; exact C.
  - pose proof (chk_default_at s st Hs) as C. unfold chk_default in C. rewrite Hc in C. apply kind_eqb_eq; exact C.
Qed.

Lemma goto_kind : forall u i s, trans u (NT i) = Some s ->
  sym_of (kd s) = Some (NT i) /\ lvl_of (kd s) <= 2 /\ (i = 0 -> has_end_shift s = true -> u = 0).
Proof.
  intros u i s H. unfold trans in H. destruct (nth_error (a_states a) u) as [st|] eqn:E; [|discriminate].
  apply lookup_goto_In in H. pose proof (chk_goto_at u st _ E H) as C. unfold chk_goto in C. simpl in C.
  apply andb_prop in C. destruct C as [C C3]. apply andb_prop in C. destruct C as [C1 C2].
  split; [apply osym_eqb_eq; exact C1|]. split; [apply Nat.leb_le; exact C2|].
  intros -> He. rewrite He in C3. simpl in C3. apply Nat.eqb_eq; exact C3.
Qed.

Lemma sym_KP : forall k, sym_of k = Some (NT 0) -> exists l, k = KP l.
Proof. intros [] H; simpl in H; try discriminate; try (inversion H; fail). eexists; reflexivity. Qed.
Lemma sym_KT : forall k n, sym_of k = Some (T n) -> n <> "$end" -> k = KT n.
Proof. intros k n0 H Hn; destruct k; simpl in H; try discriminate; inversion H; subst; [congruence | reflexivity]. Qed.

(* ------------------------------------------------------------------ one reduction preserves the invariant *)
Lemma concat_rev_cons : forall (A : Type) (x : list A) l, List.concat (rev (x :: l)) = List.concat (rev l) ++ x.
Proof. intros. simpl. rewrite List.concat_app. simpl. rewrite app_nil_r. reflexivity. Qed.

Ltac catsolve :=
  simpl; repeat rewrite List.concat_app; simpl; repeat rewrite app_nil_r; repeat rewrite <- app_assoc; simpl; reflexivity.

Ltac tokinv H :=
  match type of H with tok_ok _ ?t =>
    destruct t as [|? ? [|]| | | | | | |]; simpl in H; try discriminate; try (destruct H; discriminate) end.

Ltac peel Hb Hsi :=
  let s := fresh "s" in let v := fresh "v" in let st := fresh "st" in let seg := fresh "seg" in let sg := fresh "sg" in
  let E1 := fresh "Es" in let E2 := fresh "Eg" in let Hk := fresh "Hk" in let He := fresh "Hety" in
  let Ht := fresh "Htr" in
  destruct (back_cons _ _ _ _ _ Hb Hsi) as (s & v & st & seg & sg & E1 & E2 & Hk & He & Ht & Hsi' & Hb');
  subst; clear Hb Hsi; rename Hsi' into Hsi; rename Hb' into Hb.

Lemma reduce_step : forall stack segs la r lhs rhs,
  SI stack segs la ->
  nth_error rules0 (r - 1) = Some (lhs, rhs) -> back_ok (rev rhs) (top_state stack) = true ->
  top_lvl (r - 1) <= lvl_of (kd (top_state stack)) -> ~ In la (forb (r - 1)) ->
  (length stack <? length rhs)%nat = false /\
  forall v s'', sem rhs (rev (map snd (firstn (length rhs) stack))) = Some v ->
    trans (top_state (skipn (length rhs) stack)) (NT lhs) = Some s'' ->
    exists segs', SI ((s'', v) :: skipn (length rhs) stack) segs' la /\ List.concat (rev segs') = List.concat (rev segs).
Proof.
  intros stack segs la r lhs rhs Hsi Hr Hb Hl Hf.
  remember (r - 1) as ri eqn:Eri. clear Eri r.
  do 13 (try (destruct ri as [|ri])); simpl in Hr; try discriminate; inversion Hr; subst; clear Hr; simpl rev in Hb;
    simpl top_lvl in Hl; simpl forb in Hf.
  - (* 1: polynomial: monomial *)
    destruct (back_cons _ _ _ _ _ Hb Hsi) as (s & v & st & seg & sg & -> & -> & Hk & He & Ht & Hsi' & _).
    split; [reflexivity|]. intros v' s'' Hsem Hg. simpl in Hsem, Hg |- *. inversion Hsem; subst v'.
    destruct (goto_kind _ _ _ Hg) as (G1 & G2 & _). destruct (sym_KP _ G1) as (l'' & K''). rewrite K'' in G2. simpl in G2.
    exists (seg :: sg). split; [|reflexivity]. simpl. rewrite K''.
    destruct (kd s) eqn:Ks; simpl in Hk; try discriminate. destruct v as [e|t]; simpl in He; [|contradiction].
    destruct He as (Hleaf & Hat). split; [|split].
    + exists 3. simpl. split; [apply d_pw_atom; exact Hat|]. split; [lia|]. split; [lia|]. split; intros; [reflexivity | lia].
    + exists (NT 0). split; [reflexivity | exact Hg].
    + simpl. eapply SI_weaken. exact Hsi'.
  - (* 2: ( polynomial ) *)
    destruct (back_cons _ _ _ _ _ Hb Hsi) as (s3 & v3 & st3 & seg3 & sg3 & -> & -> & Hk3 & He3 & Ht3 & Hsi3 & Hb3).
    destruct (back_cons _ _ _ _ _ Hb3 Hsi3) as (s2 & v2 & st2 & seg2 & sg2 & -> & -> & Hk2 & He2 & Ht2 & Hsi2 & Hb2).
    destruct (back_cons _ _ _ _ _ Hb2 Hsi2) as (s1 & v1 & st1 & seg1 & sg1 & -> & -> & Hk1 & He1 & Ht1 & Hsi1 & _).
    split; [reflexivity|]. intros v' s'' Hsem Hg. simpl in Hsem, Hg |- *. inversion Hsem; subst v'.
    destruct (goto_kind _ _ _ Hg) as (G1 & G2 & _). destruct (sym_KP _ G1) as (l'' & K''). rewrite K'' in G2. simpl in G2.
    exists ((seg1 ++ seg2 ++ seg3) :: sg1). split.
    + simpl. rewrite K''.
      apply sym_KT in Hk3; [|discriminate]. apply sym_KT in Hk1; [|discriminate]. destruct (sym_KP _ Hk2) as (l2 & K2).
      rewrite Hk3 in He3. rewrite Hk1 in He1. rewrite K2 in He2.
      destruct v3 as [?|t3]; simpl in He3; [contradiction|]. destruct v1 as [?|t1]; simpl in He1; [contradiction|].
      destruct v2 as [e|?]; simpl in He2; [|contradiction].
      destruct He3 as (-> & T3). destruct He1 as (-> & T1). destruct He2 as (m & D & _ & Hm & _).
      tokinv T3.
      tokinv T1.
      split; [|split].
      * exists 3. simpl. split.
        { apply d_pw_atom. apply (d_paren seg2 e). apply (dl_weaken m 0); [lia | exact D]. }
        split; [lia|]. split; [lia|]. split; intros; [reflexivity | lia].
      * exists (NT 0). split; [reflexivity | exact Hg].
      * simpl. eapply SI_weaken. exact Hsi1.
    + catsolve.
  - (* 3: polynomial TIMES polynomial *)
    destruct (back_cons _ _ _ _ _ Hb Hsi) as (s3 & v3 & st3 & seg3 & sg3 & -> & -> & Hk3 & He3 & Ht3 & Hsi3 & Hb3).
    destruct (back_cons _ _ _ _ _ Hb3 Hsi3) as (s2 & v2 & st2 & seg2 & sg2 & -> & -> & Hk2 & He2 & Ht2 & Hsi2 & Hb2).
    destruct (back_cons _ _ _ _ _ Hb2 Hsi2) as (s1 & v1 & st1 & seg1 & sg1 & -> & -> & Hk1 & He1 & Ht1 & Hsi1 & _).
    split; [reflexivity|].
    destruct (sym_KP _ Hk3) as (l3 & K3). destruct (sym_KP _ Hk1) as (l1 & K1). apply sym_KT in Hk2; [|discriminate].
    rewrite K3 in He3. rewrite K1 in He1. rewrite Hk2 in He2, Hsi2, He1. simpl top_state in Hl. rewrite K3 in Hl. simpl in Hl.
    destruct v3 as [b|?]; simpl in He3; [|contradiction]. destruct v1 as [a0|?]; simpl in He1; [|contradiction].
    destruct v2 as [?|t2]; simpl in He2; [contradiction|].
    destruct He2 as (-> & T2). destruct He3 as (m3 & D3 & L3 & M3 & _). simpl fname in He1. destruct He1 as (m1 & D1 & L1 & M1 & F1).
    tokinv T2.
    intros v' s'' Hsem Hg. simpl in Hsem, Hg |- *. inversion Hsem; subst v'.
    simpl in Ht1. rewrite Ht1 in Hg. inversion Hg; subst s''.
    (* the state of the left operand shifts TIMES *)
    assert (Hl1 : l1 <= 1).
    { simpl in Ht2. unfold trans in Ht2. destruct (nth_error (a_states a) s1) as [stt|] eqn:E1; [|discriminate].
      destruct (lookup_act "TIMES" (st_actions stt)) as [[sx| | |]|] eqn:L; try discriminate.
      assert (Hc : chosen stt "TIMES" = Some (Shift sx)) by (unfold chosen; rewrite L; reflexivity).
      destruct (chosen_shift _ _ _ _ E1 Hc) as (_ & _ & P & _). destruct (P _ K1) as [P1 _]. apply P1; reflexivity. }
    exists ((seg1 ++ [TTimes] ++ seg3) :: sg1). split.
    + simpl. rewrite K1. split; [|split].
      * exists 1. simpl. split.
        { apply d_pr_mul; [apply (dl_weaken m1 1); [apply F1; reflexivity | exact D1] | apply (dl_weaken m3 2); [lia | exact D3]]. }
        split; [exact Hl1|]. split; [lia|]. split; intros E; [subst la; exfalso; apply Hf; left; reflexivity | lia].
      * exists (NT 0). split; [reflexivity | exact Ht1].
      * simpl. eapply SI_weaken. exact Hsi1.
    + catsolve.
  - (* 4: polynomial PLUS polynomial *)
    destruct (back_cons _ _ _ _ _ Hb Hsi) as (s3 & v3 & st3 & seg3 & sg3 & -> & -> & Hk3 & He3 & Ht3 & Hsi3 & Hb3).
    destruct (back_cons _ _ _ _ _ Hb3 Hsi3) as (s2 & v2 & st2 & seg2 & sg2 & -> & -> & Hk2 & He2 & Ht2 & Hsi2 & Hb2).
    destruct (back_cons _ _ _ _ _ Hb2 Hsi2) as (s1 & v1 & st1 & seg1 & sg1 & -> & -> & Hk1 & He1 & Ht1 & Hsi1 & _).
    split; [reflexivity|].
    destruct (sym_KP _ Hk3) as (l3 & K3). destruct (sym_KP _ Hk1) as (l1 & K1). apply sym_KT in Hk2; [|discriminate].
    rewrite K3 in He3. rewrite K1 in He1. rewrite Hk2 in He2, Hsi2, He1. simpl top_state in Hl. rewrite K3 in Hl. simpl in Hl.
    destruct v3 as [b|?]; simpl in He3; [|contradiction]. destruct v1 as [a0|?]; simpl in He1; [|contradiction].
    destruct v2 as [?|t2]; simpl in He2; [contradiction|].
    destruct He2 as (-> & T2). destruct He3 as (m3 & D3 & L3 & M3 & _). simpl fname in He1. destruct He1 as (m1 & D1 & L1 & M1 & F1).
    tokinv T2.
    intros v' s'' Hsem Hg. simpl in Hsem, Hg |- *. inversion Hsem; subst v'.
    simpl in Ht1. rewrite Ht1 in Hg. inversion Hg; subst s''.
    assert (Hl1 : l1 = 0).
    { simpl in Ht2. unfold trans in Ht2. destruct (nth_error (a_states a) s1) as [stt|] eqn:E1; [|discriminate].
      destruct (lookup_act "PLUS" (st_actions stt)) as [[sx| | |]|] eqn:L; try discriminate.
      assert (Hc : chosen stt "PLUS" = Some (Shift sx)) by (unfold chosen; rewrite L; reflexivity).
      destruct (chosen_shift _ _ _ _ E1 Hc) as (_ & _ & P & _). destruct (P _ K1) as [_ P1]. apply P1; left; reflexivity. }
    exists ((seg1 ++ [TPlus] ++ seg3) :: sg1). split.
    + simpl. rewrite K1. split; [|split].
      * exists 0. simpl. split.
        { apply d_s_add; [apply (dl_weaken m1 0); [lia | exact D1] | apply (dl_weaken m3 1); [lia | exact D3]]. }
        split; [lia|]. split; [lia|].
        split; intros E; subst la; exfalso; apply Hf; [left | right; left]; reflexivity.
      * exists (NT 0). split; [reflexivity | exact Ht1].
      * simpl. eapply SI_weaken. exact Hsi1.
    + catsolve.
  - (* 5: polynomial MINUS polynomial *)
    destruct (back_cons _ _ _ _ _ Hb Hsi) as (s3 & v3 & st3 & seg3 & sg3 & -> & -> & Hk3 & He3 & Ht3 & Hsi3 & Hb3).
    destruct (back_cons _ _ _ _ _ Hb3 Hsi3) as (s2 & v2 & st2 & seg2 & sg2 & -> & -> & Hk2 & He2 & Ht2 & Hsi2 & Hb2).
    destruct (back_cons _ _ _ _ _ Hb2 Hsi2) as (s1 & v1 & st1 & seg1 & sg1 & -> & -> & Hk1 & He1 & Ht1 & Hsi1 & _).
    split; [reflexivity|].
    destruct (sym_KP _ Hk3) as (l3 & K3). destruct (sym_KP _ Hk1) as (l1 & K1). apply sym_KT in Hk2; [|discriminate].
    rewrite K3 in He3. rewrite K1 in He1. rewrite Hk2 in He2, Hsi2, He1. simpl top_state in Hl. rewrite K3 in Hl. simpl in Hl.
    destruct v3 as [b|?]; simpl in He3; [|contradiction]. destruct v1 as [a0|?]; simpl in He1; [|contradiction].
    destruct v2 as [?|t2]; simpl in He2; [contradiction|].
    destruct He2 as (-> & T2). destruct He3 as (m3 & D3 & L3 & M3 & _). simpl fname in He1. destruct He1 as (m1 & D1 & L1 & M1 & F1).
    tokinv T2.
    intros v' s'' Hsem Hg. simpl in Hsem, Hg |- *. inversion Hsem; subst v'.
    simpl in Ht1. rewrite Ht1 in Hg. inversion Hg; subst s''.
    assert (Hl1 : l1 = 0).
    { simpl in Ht2. unfold trans in Ht2. destruct (nth_error (a_states a) s1) as [stt|] eqn:E1; [|discriminate].
      destruct (lookup_act "MINUS" (st_actions stt)) as [[sx| | |]|] eqn:L; try discriminate.
      assert (Hc : chosen stt "MINUS" = Some (Shift sx)) by (unfold chosen; rewrite L; reflexivity).
      destruct (chosen_shift _ _ _ _ E1 Hc) as (_ & _ & P & _). destruct (P _ K1) as [_ P1]. apply P1; right; reflexivity. }
    exists ((seg1 ++ [TMinus] ++ seg3) :: sg1). split.
    + simpl. rewrite K1. split; [|split].
      * exists 0. simpl. split.
        { apply d_s_sub; [apply (dl_weaken m1 0); [lia | exact D1] | apply (dl_weaken m3 1); [lia | exact D3]]. }
        split; [lia|]. split; [lia|].
        split; intros E; subst la; exfalso; apply Hf; [left | right; left]; reflexivity.
      * exists (NT 0). split; [reflexivity | exact Ht1].
      * simpl. eapply SI_weaken. exact Hsi1.
    + catsolve.
  - (* 6: MINUS polynomial *)
    destruct (back_cons _ _ _ _ _ Hb Hsi) as (s2 & v2 & st2 & seg2 & sg2 & -> & -> & Hk2 & He2 & Ht2 & Hsi2 & Hb2).
    destruct (back_cons _ _ _ _ _ Hb2 Hsi2) as (s1 & v1 & st1 & seg1 & sg1 & -> & -> & Hk1 & He1 & Ht1 & Hsi1 & _).
    split; [reflexivity|].
    destruct (sym_KP _ Hk2) as (l2 & K2). apply sym_KT in Hk1; [|discriminate].
    rewrite K2 in He2. rewrite Hk1 in He1. simpl top_state in Hl. rewrite K2 in Hl. simpl in Hl.
    destruct v2 as [b|?]; simpl in He2; [|contradiction]. destruct v1 as [?|t1]; simpl in He1; [contradiction|].
    destruct He1 as (-> & T1). destruct He2 as (m2 & D2 & L2 & M2 & _).
    tokinv T1.
    intros v' s'' Hsem Hg. simpl in Hsem, Hg |- *. inversion Hsem; subst v'.
    destruct (goto_kind _ _ _ Hg) as (G1 & G2 & _). destruct (sym_KP _ G1) as (l'' & K''). rewrite K'' in G2. simpl in G2.
    exists (([TMinus] ++ seg2) :: sg1). split.
    + simpl. rewrite K''. split; [|split].
      * exists 2. simpl. split; [apply d_un_neg; apply (dl_weaken m2 2); [lia | exact D2]|].
        split; [lia|]. split; [lia|]. split; intros E; [subst la; exfalso; apply Hf; left; reflexivity | lia].
      * exists (NT 0). split; [reflexivity | exact Hg].
      * simpl. eapply SI_weaken. exact Hsi1.
    + catsolve.
  - (* 7: polynomial SUPERSCRIPT RATIONAL *)
    destruct (back_cons _ _ _ _ _ Hb Hsi) as (s3 & v3 & st3 & seg3 & sg3 & -> & -> & Hk3 & He3 & Ht3 & Hsi3 & Hb3).
    destruct (back_cons _ _ _ _ _ Hb3 Hsi3) as (s2 & v2 & st2 & seg2 & sg2 & -> & -> & Hk2 & He2 & Ht2 & Hsi2 & Hb2).
    destruct (back_cons _ _ _ _ _ Hb2 Hsi2) as (s1 & v1 & st1 & seg1 & sg1 & -> & -> & Hk1 & He1 & Ht1 & Hsi1 & _).
    split; [reflexivity|].
    apply sym_KT in Hk3; [|discriminate]. destruct (sym_KP _ Hk1) as (l1 & K1). apply sym_KT in Hk2; [|discriminate].
    rewrite Hk3 in He3. rewrite K1 in He1. rewrite Hk2 in He2, Hsi2, He1.
    destruct v3 as [?|t3]; simpl in He3; [contradiction|]. destruct v1 as [a0|?]; simpl in He1; [|contradiction].
    destruct v2 as [?|t2]; simpl in He2; [contradiction|].
    destruct He2 as (-> & T2). destruct He3 as (-> & T3). simpl fname in He1. destruct He1 as (m1 & D1 & L1 & M1 & F1).
    tokinv T2.
    intros v' s'' Hsem Hg. simpl in Hsem, Hg |- *.
    destruct t3 as [|k d il| | | | | | |]; try discriminate. destruct d; try discriminate. destruct il; try discriminate.
    inversion Hsem; subst v'.
    simpl in Ht1. rewrite Ht1 in Hg. inversion Hg; subst s''.
    exists ((seg1 ++ [TPow] ++ [TNum k 1 true]) :: sg1). split.
    + simpl. rewrite K1. split; [|split].
      * exists 3. simpl. split.
        { apply (d_pw_pow seg1 a0 k). destruct F1 as [F1 _]. rewrite (F1 eq_refl) in D1. exact D1. }
        split; [lia|]. split; [lia|]. split; intros; [reflexivity | lia].
      * exists (NT 0). split; [reflexivity | exact Ht1].
      * simpl. eapply SI_weaken. exact Hsi1.
    + catsolve.
  - (* 8: monomial: MONOMIAL *)
    destruct (back_cons _ _ _ _ _ Hb Hsi) as (s & v & st & seg & sg & -> & -> & Hk & He & Ht & Hsi' & _).
    split; [reflexivity|]. apply sym_KT in Hk; [|discriminate]. rewrite Hk in He.
    destruct v as [?|t]; simpl in He; [contradiction|]. destruct He as (-> & T1).
    intros v' s'' Hsem Hg. simpl in Hsem, Hg |- *.
    destruct t; try discriminate. inversion Hsem; subst v'.
    destruct (goto_kind _ _ _ Hg) as (G1 & _ & _).
    exists ([TX] :: sg). split; [|reflexivity]. simpl.
    destruct (kd s'') eqn:K''; simpl in G1; try discriminate; try (inversion G1; fail).
    split; [|split].
    + split; [left; reflexivity | constructor].
    + exists (NT 1). split; [reflexivity | exact Hg].
    + simpl. eapply SI_weaken. exact Hsi'.
  - (* 9: monomial: number *)
    destruct (back_cons _ _ _ _ _ Hb Hsi) as (s & v & st & seg & sg & -> & -> & Hk & He & Ht & Hsi' & _).
    split; [reflexivity|].
    intros v' s'' Hsem Hg. simpl in Hsem, Hg |- *. inversion Hsem; subst v'.
    destruct (goto_kind _ _ _ Hg) as (G1 & _ & _).
    exists (seg :: sg). split; [|reflexivity]. simpl.
    destruct (kd s'') eqn:K''; simpl in G1; try discriminate; try (inversion G1; fail).
    destruct (kd s) eqn:Ks; simpl in Hk; try discriminate; try (inversion Hk; fail).
    destruct v as [e|?]; simpl in He; [|contradiction]. destruct He as (Hn & Hat).
    split; [|split].
    + split; [right; exact Hn | exact Hat].
    + exists (NT 1). split; [reflexivity | exact Hg].
    + simpl. eapply SI_weaken. exact Hsi'.
  - (* 10: number: real_number *)
    destruct (back_cons _ _ _ _ _ Hb Hsi) as (s & v & st & seg & sg & -> & -> & Hk & He & Ht & Hsi' & _).
    split; [reflexivity|].
    intros v' s'' Hsem Hg. simpl in Hsem, Hg |- *. inversion Hsem; subst v'.
    destruct (goto_kind _ _ _ Hg) as (G1 & _ & _).
    exists (seg :: sg). split; [|reflexivity]. simpl.
    destruct (kd s'') eqn:K''; simpl in G1; try discriminate; try (inversion G1; fail).
    destruct (kd s) eqn:Ks; simpl in Hk; try discriminate; try (inversion Hk; fail).
    destruct v as [e|?]; simpl in He; [|contradiction]. destruct He as (n & d & b & -> & ->).
    split; [|split].
    + split; [exists n, d, false; reflexivity | constructor].
    + exists (NT 2). split; [reflexivity | exact Hg].
    + simpl. eapply SI_weaken. exact Hsi'.
  - (* 11: number: real_number IMAGINARY_UNIT *)
    destruct (back_cons _ _ _ _ _ Hb Hsi) as (s2 & v2 & st2 & seg2 & sg2 & -> & -> & Hk2 & He2 & Ht2 & Hsi2 & Hb2).
    destruct (back_cons _ _ _ _ _ Hb2 Hsi2) as (s1 & v1 & st1 & seg1 & sg1 & -> & -> & Hk1 & He1 & Ht1 & Hsi1 & _).
    split; [reflexivity|].
    apply sym_KT in Hk2; [|discriminate]. rewrite Hk2 in He2.
    destruct (kd s1) eqn:Ks; simpl in Hk1; try discriminate; try (inversion Hk1; fail).
    destruct v2 as [?|t2]; simpl in He2; [contradiction|]. destruct v1 as [e|?]; simpl in He1; [|contradiction].
    destruct He2 as (-> & T2). destruct He1 as (n & d & b & -> & ->).
    tokinv T2.
    intros v' s'' Hsem Hg. simpl in Hsem, Hg |- *. inversion Hsem; subst v'.
    destruct (goto_kind _ _ _ Hg) as (G1 & _ & _).
    exists (([TNum n d b] ++ [TI]) :: sg1). split.
    + simpl. destruct (kd s'') eqn:K''; simpl in G1; try discriminate; try (inversion G1; fail).
      split; [|split].
      * split; [exists n, d, true; reflexivity | constructor].
      * exists (NT 2). split; [reflexivity | exact Hg].
      * simpl. eapply SI_weaken. exact Hsi1.
    + catsolve.
  - (* 12: real_number: RATIONAL *)
    destruct (back_cons _ _ _ _ _ Hb Hsi) as (s & v & st & seg & sg & -> & -> & Hk & He & Ht & Hsi' & _).
    split; [reflexivity|]. apply sym_KT in Hk; [|discriminate]. rewrite Hk in He.
    destruct v as [?|t]; simpl in He; [contradiction|]. destruct He as (-> & T1).
    intros v' s'' Hsem Hg. simpl in Hsem, Hg |- *.
    destruct t as [|n d il| | | | | | |]; try discriminate. inversion Hsem; subst v'.
    destruct (goto_kind _ _ _ Hg) as (G1 & _ & _).
    exists ([TNum n d il] :: sg). split; [|reflexivity]. simpl.
    destruct (kd s'') eqn:K''; simpl in G1; try discriminate; try (inversion G1; fail).
    split; [|split].
    + exists n, d, il. split; reflexivity.
    + exists (NT 3). split; [reflexivity | exact Hg].
    + simpl. eapply SI_weaken. exact Hsi'.
  - (* 13: real_number: FLOATING_POINT *)
    destruct (back_cons _ _ _ _ _ Hb Hsi) as (s & v & st & seg & sg & -> & -> & Hk & He & Ht & Hsi' & _).
    split; [reflexivity|]. apply sym_KT in Hk; [|discriminate]. rewrite Hk in He.
    destruct v as [?|t]; simpl in He; [contradiction|]. destruct He as (-> & T1).
    intros v' s'' Hsem Hg. simpl in Hsem, Hg |- *.
    destruct t as [|n d il| | | | | | |]; try discriminate. inversion Hsem; subst v'.
    destruct (goto_kind _ _ _ Hg) as (G1 & _ & _).
    exists ([TNum n d il] :: sg). split; [|reflexivity]. simpl.
    destruct (kd s'') eqn:K''; simpl in G1; try discriminate; try (inversion G1; fail).
    split; [|split].
    + exists n, d, il. split; reflexivity.
    + exists (NT 3). split; [reflexivity | exact Hg].
    + simpl. eapply SI_weaken. exact Hsi'.
  - destruct ri; discriminate.
Qed.

(* ------------------------------------------------------------------ the run *)
Lemma lr_loop_S : forall f stack input, lr_loop a (S f) stack input =
  match nth_error (a_states a) (top_state stack) with
  | None => LBadTable
  | Some st =>
    match chosen st (la_of input) with
    | None | Some ErrorAct => LReject
    | Some Accept => match first_expr stack with Some e => LAccept e | None => LBadTable end
    | Some (Shift s) =>
      match input with
      | (_, tok) :: rest => lr_loop a f ((s, VT tok) :: stack) rest
      | nil => lr_loop a f ((s, VT TRP) :: stack) nil
      end
    | Some (Reduce r) =>
      match nth_error (a_rules a) (r - 1) with
      | None => LBadTable
      | Some (lhs, rhs) =>
        if (length stack <? length rhs)%nat then LBadTable else
        match sem rhs (rev (map snd (firstn (length rhs) stack))) with
        | None => LReject
        | Some v =>
          match nth_error (a_states a) (top_state (skipn (length rhs) stack)) with
          | None => LBadTable
          | Some st' => match lookup_goto lhs (st_gotos st') with
                        | None => LBadTable
                        | Some s' => lr_loop a f ((s', v) :: skipn (length rhs) stack) input
                        end
          end
        end
      end
    end
  end.
Proof. intros. destruct input as [|[n t] r]; reflexivity. Qed.

Definition is_end (k : kind) : bool := match k with KEnd => true | _ => false end.

Lemma tok_ok_not_end : forall n t, tok_ok n t -> n <> "$end".
Proof.
  intros n t H E. subst n. destruct t; simpl in H; try discriminate.
  destruct intlit; [discriminate | destruct H; discriminate].
Qed.

Lemma lr_sound_gen : forall f stack segs rest e,
  SI stack segs (la_of rest) -> Forall ytok_ok rest ->
  (is_end (kd (top_state stack)) = true -> rest = []) ->
  lr_loop a f stack rest = LAccept e ->
  d_sum (List.concat (rev segs) ++ map snd rest) e.
Proof.
  induction f as [|f IH]; intros stack segs rest e Hsi Hall Hend Hrun; [discriminate|].
  rewrite lr_loop_S in Hrun.
  destruct (nth_error (a_states a) (top_state stack)) as [st|] eqn:Est; [|discriminate].
  destruct (chosen st (la_of rest)) as [[s'|r| |]|] eqn:Hc; try discriminate.
  - (* shift *)
    destruct (chosen_shift _ _ _ _ Est Hc) as (L & Ks' & _ & _).
    destruct rest as [|[n tok] rest'].
    + simpl in Ks', L. apply (IH _ ([] :: segs)) in Hrun.
      * rewrite concat_rev_cons, app_nil_r in Hrun. exact Hrun.
      * simpl. rewrite Ks'. simpl. split; [reflexivity|]. split; [|exact Hsi].
        exists (T "$end"). split; [reflexivity|]. unfold trans. rewrite Est, L. reflexivity.
      * constructor.
      * reflexivity.
    + inversion Hall as [|? ? Hy Hall']; subst. unfold ytok_ok in Hy. simpl in Hy, Ks', L.
      pose proof (tok_ok_not_end _ _ Hy) as Hne.
      assert (En : String.eqb n "$end" = false) by (apply String.eqb_neq; exact Hne). rewrite En in Ks'.
      apply (IH _ ([tok] :: segs)) in Hrun.
      * rewrite concat_rev_cons in Hrun. simpl. rewrite <- app_assoc in Hrun. exact Hrun.
      * simpl. rewrite Ks'. simpl. split; [split; [reflexivity | exact Hy]|]. split; [|exact Hsi].
        exists (T n). split; [reflexivity|]. unfold trans. rewrite Est, L. reflexivity.
      * exact Hall'.
      * simpl. rewrite Ks'. discriminate.
  - (* reduce *)
    destruct (chosen_reduce _ _ _ _ Est Hc) as (lhs & rhs & R & Hb & Hl & Hf).
    rewrite Hrules, R in Hrun.
    destruct (reduce_step stack segs (la_of rest) r lhs rhs Hsi R Hb Hl Hf) as (Hlen & Hstep).
    rewrite Hlen in Hrun.
    destruct (sem rhs (rev (map snd (firstn (length rhs) stack)))) as [v|] eqn:Hsem; [|discriminate].
    destruct (nth_error (a_states a) (top_state (skipn (length rhs) stack))) as [st'|] eqn:Est'; [|discriminate].
    destruct (lookup_goto lhs (st_gotos st')) as [s''|] eqn:Hg; [|discriminate].
    assert (Htr : trans (top_state (skipn (length rhs) stack)) (NT lhs) = Some s'') by (unfold trans; rewrite Est'; exact Hg).
    destruct (Hstep v s'' eq_refl Htr) as (segs' & Hsi' & Hcat).
    rewrite <- Hcat. apply (IH _ _ _ _ Hsi' Hall); [|exact Hrun].
    simpl. destruct (goto_kind _ _ _ Htr) as (G1 & _ & _). intros Hk. destruct (kd s''); simpl in G1, Hk; discriminate.
  - (* accept *)
    pose proof (chosen_accept _ _ _ Est Hc) as Kend.
    assert (Hrest : rest = []) by (apply Hend; rewrite Kend; reflexivity). subst rest.
    destruct stack as [|[s v] st0]; [simpl in Kend; rewrite kd0 in Kend; discriminate|].
    destruct segs as [|seg sg]; [simpl in Hsi; contradiction|].
    simpl in Kend. simpl in Hsi. destruct Hsi as (He & (X0 & Hx & Ht) & Hsi0). rewrite Kend in He, Hx, Hsi0.
    destruct v as [?|t]; simpl in He; [contradiction|]. subst seg. simpl in Hx. inversion Hx; subst X0. clear Hx.
    (* the state below has the $end shift: it holds a complete polynomial *)
    assert (Hes : has_end_shift (top_state st0) = true).
    { unfold trans in Ht. unfold has_end_shift. destruct (nth_error (a_states a) (top_state st0)); [|discriminate].
      destruct (lookup_act "$end" (st_actions l)) as [[| | |]|]; try discriminate. reflexivity. }
    assert (Hkp : exists l, kd (top_state st0) = KP l).
    { unfold trans in Ht. destruct (nth_error (a_states a) (top_state st0)) as [stt|] eqn:E1; [|discriminate].
      destruct (lookup_act "$end" (st_actions stt)) as [[sx| | |]|] eqn:L; try discriminate.
      assert (Hc' : chosen stt "$end" = Some (Shift sx)) by (unfold chosen; rewrite L; reflexivity).
      destruct (chosen_shift _ _ _ _ E1 Hc') as (_ & _ & _ & P). apply P; reflexivity. }
    destruct Hkp as (l & Kp).
    destruct st0 as [|[s1 v1] st1]; [simpl in Kp; rewrite kd0 in Kp; discriminate|].
    destruct sg as [|seg1 sg1]; [simpl in Hsi0; contradiction|].
    simpl in Kp, Hes. simpl in Hsi0. destruct Hsi0 as (He1 & (X1 & Hx1 & Ht1) & Hsi1). rewrite Kp in He1, Hx1.
    simpl in Hx1. inversion Hx1; subst X1. clear Hx1.
    destruct v1 as [e1|?]; simpl in He1; [|contradiction]. destruct He1 as (m & D & _ & _ & _).
    destruct (goto_kind _ _ _ Ht1) as (_ & _ & G3). pose proof (G3 eq_refl Hes) as H0.
    destruct (SI_top0 _ _ _ Hsi1 H0) as (-> & ->).
    simpl in Hrun. inversion Hrun; subst e.
    simpl. rewrite !app_nil_r. apply (dl_weaken m 0); [lia | exact D].
  Unshelve. all: exact 0.
Qed.

Theorem lr_sound : forall f ys e, Forall ytok_ok ys -> lr_loop a f [] ys = LAccept e -> d_sum (map snd ys) e.
Proof.
  intros f ys e Hall Hrun.
  apply (lr_sound_gen f [] [] ys e) in Hrun; [exact Hrun | exact I | exact Hall |].
  simpl. rewrite kd0. discriminate.
Qed.
End Check.
