(* C11 -- declarative semantics of a flex scanner and correctness of the executable model of LexModel.v.

     [matches r s]                the string s belongs to the language of r
     [flex_choice rs s i n]       flex's rule selection at the start of s: n >= 1 is the length of the LONGEST
                                  prefix of s matched by ANY rule, and i is the FIRST rule that matches that prefix
     [flex_none rs s]             no rule matches a non-empty prefix of s
     [flex_tokens rules s out]    the scanner loop: at every position the chosen rule's action is run on the
                                  lexeme and scanning goes on behind it

   Theorems: derivatives are correct ([deriv_spec], [matchb_spec]); [lm] computes exactly flex's choice
   ([lm_some_iff], [lm_none_iff]); [tokenize] computes exactly [flex_tokens] ([tokenize_iff]); with the default
   rule the scanner is total ([tokenize_total]). *)
Require Import List Ascii String Bool Arith Lia.
Require Import MPSV.Inline.LexModel.
Import ListNotations.
Open Scope list_scope.

Inductive matches : regex -> list ascii -> Prop :=
| m_eps : matches REps []
| m_cls : forall neg rs c, cls_mem neg rs c = true -> matches (RCls neg rs) [c]
| m_cat : forall a b s t, matches a s -> matches b t -> matches (RCat a b) (s ++ t)
| m_altl : forall a b s, matches a s -> matches (RAlt a b) s
| m_altr : forall a b s, matches b s -> matches (RAlt a b) s
| m_star0 : forall a, matches (RStar a) []
| m_star1 : forall a s t, matches a s -> matches (RStar a) t -> matches (RStar a) (s ++ t).

(* ------------------------------------------------------------------ nullable, smart constructors *)
Lemma nullable_spec : forall r, nullable r = true <-> matches r [].
Proof.
  induction r as [| |neg rs|a IHa b IHb|a IHa b IHb|a IHa]; simpl.
  - split; [discriminate | intro H; inversion H].
  - split; [constructor | reflexivity].
  - split; [discriminate | intro H; inversion H].
  - rewrite andb_true_iff, IHa, IHb. split.
    + intros [H1 H2]. change (@nil ascii) with (@nil ascii ++ []). constructor; assumption.
    + intro H. inversion H as [| |a' b' s t H1 H2 E1 E2| | | |]; subst.
      apply app_eq_nil in E2. destruct E2; subst. split; assumption.
  - rewrite orb_true_iff, IHa, IHb. split.
    + intros [H|H]; [apply m_altl | apply m_altr]; exact H.
    + intro H. inversion H; subst; [left | right]; assumption.
  - split; [constructor | reflexivity].
Qed.

Lemma is_empty_true : forall r, is_empty r = true -> r = REmpty.
Proof. destruct r; simpl; intro H; try discriminate; reflexivity. Qed.
Lemma is_eps_true : forall r, is_eps r = true -> r = REps.
Proof. destruct r; simpl; intro H; try discriminate; reflexivity. Qed.
Lemma no_match_empty : forall s, ~ matches REmpty s.
Proof. intros s H; inversion H. Qed.

Lemma mkCat_spec : forall a b s, matches (mkCat a b) s <-> matches (RCat a b) s.
Proof.
  intros a b s. unfold mkCat.
  destruct (is_empty a) eqn:Ea; simpl.
  { apply is_empty_true in Ea; subst. split; intro H; [inversion H | inversion H as [| |? ? ? ? H1 _| | | |]; subst; inversion H1]. }
  destruct (is_empty b) eqn:Eb; simpl.
  { apply is_empty_true in Eb; subst. split; intro H; [inversion H | inversion H as [| |? ? ? ? _ H2| | | |]; subst; inversion H2]. }
  destruct (is_eps a) eqn:Pa.
  { apply is_eps_true in Pa; subst. split; intro H.
    - change s with ([] ++ s). constructor; [constructor | exact H].
    - inversion H as [| |? ? ? ? H1 H2| | | |]; subst. inversion H1; subst. exact H2. }
  destruct (is_eps b) eqn:Pb.
  { apply is_eps_true in Pb; subst. split; intro H.
    - rewrite <- (app_nil_r s). constructor; [exact H | constructor].
    - inversion H as [| |? ? ? ? H1 H2| | | |]; subst. inversion H2; subst. rewrite app_nil_r. exact H1. }
  tauto.
Qed.

Lemma mkAlt_spec : forall a b s, matches (mkAlt a b) s <-> matches (RAlt a b) s.
Proof.
  intros a b s. unfold mkAlt.
  destruct (is_empty a) eqn:Ea.
  { apply is_empty_true in Ea; subst. split; intro H; [apply m_altr; exact H | inversion H as [| | |? ? ? Hl|? ? ? Hr| |]; subst; [inversion Hl | assumption]]. }
  destruct (is_empty b) eqn:Eb.
  { apply is_empty_true in Eb; subst. split; intro H; [apply m_altl; exact H | inversion H as [| | |? ? ? Hl|? ? ? Hr| |]; subst; [assumption | inversion Hr]]. }
  tauto.
Qed.

(* ------------------------------------------------------------------ derivatives *)
Lemma star_cons_inv : forall a c s, matches (RStar a) (c :: s) ->
  exists s1 s2, s = s1 ++ s2 /\ matches a (c :: s1) /\ matches (RStar a) s2.
Proof.
  intros a c s H. remember (RStar a) as r eqn:Er. remember (c :: s) as w eqn:Ew.
  revert a c s Er Ew.
  induction H as [| | | | | |a' u t H1 _ H2 IH2]; intros a0 c0 s0 Er Ew; try discriminate.
  inversion Er; subst a'.
  destruct u as [|x u'].
  - simpl in Ew. apply (IH2 a0 c0 s0 eq_refl Ew).
  - simpl in Ew. inversion Ew; subst. exists u', t. split; [reflexivity | split; assumption].
Qed.

Lemma deriv_spec : forall r c s, matches (deriv c r) s <-> matches r (c :: s).
Proof.
  induction r as [| |neg rs|a IHa b IHb|a IHa b IHb|a IHa]; intros c s; simpl.
  - split; intro H; inversion H.
  - split; intro H; inversion H.
  - destruct (cls_mem neg rs c) eqn:E.
    + split; intro H.
      * inversion H; subst. constructor. exact E.
      * inversion H; subst. constructor.
    + split; intro H; [inversion H | inversion H; subst; congruence].
  - assert (Hcat : matches (mkCat (deriv c a) b) s <-> exists s1 s2, s = s1 ++ s2 /\ matches a (c :: s1) /\ matches b s2).
    { rewrite mkCat_spec. split.
      - intro H. inversion H as [| |? ? s1 s2 H1 H2| | | |]; subst. exists s1, s2. rewrite <- IHa. auto.
      - intros (s1 & s2 & E & H1 & H2). subst. constructor; [apply IHa; exact H1 | exact H2]. }
    assert (Hinv : matches (RCat a b) (c :: s) <->
                   (exists s1 s2, s = s1 ++ s2 /\ matches a (c :: s1) /\ matches b s2) \/ (matches a [] /\ matches b (c :: s))).
    { split.
      - intro H. inversion H as [| |? ? u t H1 H2 E1 E2| | | |]; subst.
        destruct u as [|x u'].
        + right. simpl in E2. subst. auto.
        + left. simpl in E2. inversion E2; subst. exists u', t. auto.
      - intros [(s1 & s2 & E & H1 & H2) | [H1 H2]].
        + subst. change (c :: s1 ++ s2) with ((c :: s1) ++ s2). constructor; assumption.
        + change (c :: s) with ([] ++ c :: s). constructor; assumption. }
    rewrite Hinv. destruct (nullable a) eqn:Na.
    + rewrite mkAlt_spec. split.
      * intro H. inversion H; subst; [left; apply Hcat; assumption | right; split; [apply nullable_spec; exact Na | apply IHb; assumption]].
      * intros [H | [_ H]]; [apply m_altl, Hcat; exact H | apply m_altr, IHb; exact H].
    + rewrite Hcat. split; [auto|]. intros [H | [H _]]; [exact H|].
      apply nullable_spec in H. congruence.
  - rewrite mkAlt_spec. split; intro H; inversion H; subst;
      solve [apply m_altl; apply IHa; assumption | apply m_altr; apply IHb; assumption].
  - rewrite mkCat_spec. split.
    + intro H. inversion H as [| |? ? s1 s2 H1 H2| | | |]; subst.
      change (c :: s1 ++ s2) with ((c :: s1) ++ s2). apply m_star1; [apply IHa; exact H1 | exact H2].
    + intro H. apply star_cons_inv in H. destruct H as (s1 & s2 & E & H1 & H2). subst.
      constructor; [apply IHa; exact H1 | exact H2].
Qed.

Theorem matchb_spec : forall s r, matchb r s = true <-> matches r s.
Proof.
  unfold matchb. induction s as [|c s IH]; intro r; simpl.
  - apply nullable_spec.
  - rewrite IH. apply deriv_spec.
Qed.

(* ------------------------------------------------------------------ flex's choice *)
(* rule j matches the prefix of length m *)
Definition mp (rs : list regex) (j m : nat) (s : list ascii) : Prop :=
  exists r, nth_error rs j = Some r /\ matches r (firstn m s).

Definition flex_choice (rs : list regex) (s : list ascii) (i n : nat) : Prop :=
  1 <= n <= length s /\ mp rs i n s /\
  (forall j, j < i -> ~ mp rs j n s) /\
  (forall j m, n < m <= length s -> ~ mp rs j m s).
Definition flex_none (rs : list regex) (s : list ascii) : Prop :=
  forall j m, 1 <= m <= length s -> ~ mp rs j m s.

Lemma flex_choice_unique : forall rs s i n i' n', flex_choice rs s i n -> flex_choice rs s i' n' -> i = i' /\ n = n'.
Proof.
  intros rs s i n i' n' (L & M & F & G) (L' & M' & F' & G').
  assert (n = n').
  { destruct (lt_eq_lt_dec n n') as [[H|H]|H]; [|exact H|].
    - exfalso. apply (G i' n'); [lia | exact M'].
    - exfalso. apply (G' i n); [lia | exact M]. }
  subst n'. split; [|reflexivity].
  destruct (lt_eq_lt_dec i i') as [[H|H]|H]; [|exact H|].
  - exfalso. apply (F' i H M).
  - exfalso. apply (F i' H M').
Qed.

Lemma mp_step : forall rs c s j m, mp (step rs c) j m s <-> mp rs j (S m) (c :: s).
Proof.
  intros rs c s j m. unfold mp, step. rewrite nth_error_map. simpl. split.
  - intros (r' & E & H). destruct (nth_error rs j) as [r|]; [|discriminate]. simpl in E. inversion E; subst.
    exists r. split; [reflexivity | apply deriv_spec; exact H].
  - intros (r & E & H). rewrite E. simpl. exists (deriv c r). split; [reflexivity | apply deriv_spec; exact H].
Qed.

Lemma first_nullable_from_spec : forall rs k i, first_nullable_from k rs = Some i ->
  k <= i /\ (exists r, nth_error rs (i - k) = Some r /\ nullable r = true) /\
  (forall j r, j < i - k -> nth_error rs j = Some r -> nullable r = false).
Proof.
  induction rs as [|r t IH]; intros k i H; simpl in H; [discriminate|].
  destruct (nullable r) eqn:N.
  - inversion H; subst. split; [lia|]. rewrite Nat.sub_diag. split; [exists r; auto|]. intros j r' Hj; lia.
  - apply IH in H. destruct H as (L & (r' & E & N') & F). split; [lia|].
    replace (i - k) with (S (i - S k)) by lia. split; [exists r'; auto|].
    intros j r'' Hj E'. destruct j as [|j]; simpl in E'; [inversion E'; subst; exact N|].
    apply (F j r''); [lia | exact E'].
Qed.
Lemma first_nullable_from_none : forall rs k, first_nullable_from k rs = None ->
  forall j r, nth_error rs j = Some r -> nullable r = false.
Proof.
  induction rs as [|r t IH]; intros k H j r' E; [destruct j; discriminate|].
  simpl in H. destruct (nullable r) eqn:N; [discriminate|].
  destruct j as [|j]; simpl in E; [inversion E; subst; exact N | eapply IH; eassumption].
Qed.

Lemma all_empty_no_match : forall rs, forallb is_empty rs = true -> forall j m s, ~ mp rs j m s.
Proof.
  intros rs H j m s (r & E & M). rewrite forallb_forall in H.
  apply nth_error_In in E. apply H in E. apply is_empty_true in E. subst. inversion M.
Qed.

Lemma firstn_0_matches : forall rs j s, mp rs j 0 s <-> exists r, nth_error rs j = Some r /\ nullable r = true.
Proof. intros. unfold mp. simpl. split; intros (r & E & H); exists r; (split; [exact E | apply nullable_spec; exact H]). Qed.

Lemma lm_sound : forall s rs,
  match lm rs s with
  | Some (i, n) => flex_choice rs s i n
  | None => flex_none rs s
  end.
Proof.
  induction s as [|c s IH]; intro rs; simpl.
  - intros j m Hm. simpl in Hm. lia.
  - destruct (forallb is_empty (step rs c)) eqn:AE.
    { intros j m Hm M. destruct m as [|m]; [lia|]. apply mp_step in M. exact (all_empty_no_match _ AE _ _ _ M). }
    specialize (IH (step rs c)).
    destruct (lm (step rs c) s) as [[i n]|].
    + destruct IH as (L & M & F & G). split; [simpl; lia|]. split; [apply mp_step; exact M|]. split.
      * intros j Hj Hm. apply mp_step in Hm. exact (F j Hj Hm).
      * intros j m Hm Hmp. destruct m as [|m]; [lia|]. apply mp_step in Hmp. apply (G j m); [simpl in Hm; lia | exact Hmp].
    + destruct (first_nullable (step rs c)) as [i|] eqn:FN.
      * unfold first_nullable in FN. apply first_nullable_from_spec in FN. destruct FN as (_ & (r & E & N) & F).
        rewrite Nat.sub_0_r in E, F. split; [simpl; lia|]. split.
        { apply mp_step. apply firstn_0_matches. exists r; auto. }
        split.
        { intros j Hj Hm. apply mp_step in Hm. apply firstn_0_matches in Hm. destruct Hm as (r' & E' & N').
          rewrite (F j r' Hj E') in N'. discriminate. }
        { intros j m Hm Hmp. destruct m as [|m]; [lia|]. apply mp_step in Hmp. apply (IH j m); [simpl in Hm; lia | exact Hmp]. }
      * intros j m Hm Hmp. destruct m as [|m]; [lia|]. apply mp_step in Hmp. destruct m as [|m].
        { apply firstn_0_matches in Hmp. destruct Hmp as (r' & E' & N').
          rewrite (first_nullable_from_none _ _ FN j r' E') in N'. discriminate. }
        { apply (IH j (S m)); [simpl in Hm; lia | exact Hmp]. }
Qed.

Lemma choice_not_none : forall rs s i n, flex_choice rs s i n -> ~ flex_none rs s.
Proof. intros rs s i n (L & M & _) H. exact (H i n L M). Qed.

Theorem lm_some_iff : forall rs s i n, lm rs s = Some (i, n) <-> flex_choice rs s i n.
Proof.
  intros rs s i n. pose proof (lm_sound s rs) as H. split.
  - intro E. rewrite E in H. exact H.
  - intro C. destruct (lm rs s) as [[i' n']|].
    + destruct (flex_choice_unique _ _ _ _ _ _ H C). subst. reflexivity.
    + exfalso. exact (choice_not_none _ _ _ _ C H).
Qed.
Theorem lm_none_iff : forall rs s, lm rs s = None <-> flex_none rs s.
Proof.
  intros rs s. pose proof (lm_sound s rs) as H. split.
  - intro E. rewrite E in H. exact H.
  - intro N. destruct (lm rs s) as [[i n]|]; [|reflexivity]. exfalso. exact (choice_not_none _ _ _ _ H N).
Qed.

(* ------------------------------------------------------------------ the scanner loop *)
Inductive flex_tokens (rules : lexrules) : list ascii -> list raw_token -> Prop :=
| ft_nil : flex_tokens rules [] []
| ft_step : forall s i n r a out, s <> [] -> flex_choice (map fst rules) s i n -> nth_error rules i = Some (r, a) ->
    flex_tokens rules (skipn n s) out -> flex_tokens rules s (emit a (firstn n s) ++ out).

Lemma tokenize_fuel_sound : forall f rules s out, tokenize_fuel f rules s = Some out -> flex_tokens rules s out.
Proof.
  induction f as [|f IH]; intros rules s out H; [discriminate|].
  simpl in H. destruct s as [|c s']; [inversion H; constructor|].
  destruct (lm (map fst rules) (c :: s')) as [[i n]|] eqn:L; [|discriminate].
  destruct (nth_error rules i) as [[r a]|] eqn:E; [|discriminate].
  destruct (tokenize_fuel f rules (skipn n (c :: s'))) as [o|] eqn:T; [|discriminate].
  inversion H; subst. eapply ft_step; [discriminate | apply lm_some_iff; exact L | exact E | apply IH; exact T].
Qed.

Lemma tokenize_fuel_complete : forall rules s out, flex_tokens rules s out ->
  forall f, length s < f -> tokenize_fuel f rules s = Some out.
Proof.
  intros rules s out H. induction H as [|s i n r a out Hne C E _ IH]; intros f Hf.
  - destruct f; [lia | reflexivity].
  - destruct f as [|f]; [lia|]. simpl. destruct s as [|c s']; [congruence|].
    apply lm_some_iff in C. rewrite C, E.
    rewrite IH; [reflexivity|].
    apply lm_some_iff in C. destruct C as (L & _). rewrite skipn_length. cbn [length] in *. lia.
Qed.

Theorem tokenize_iff : forall rules s out, tokenize rules s = Some out <-> flex_tokens rules s out.
Proof.
  intros. unfold tokenize. split; [apply tokenize_fuel_sound | intro H; apply tokenize_fuel_complete; [exact H | lia]].
Qed.

Lemma flex_tokens_functional : forall rules s o1 o2, flex_tokens rules s o1 -> flex_tokens rules s o2 -> o1 = o2.
Proof.
  intros rules s o1 o2 H1 H2. apply tokenize_iff in H1. apply tokenize_iff in H2. congruence.
Qed.

(* ------------------------------------------------------------------ totality with the default rule *)
Lemma any_char_matches : forall c, matches any_char [c].
Proof. intro c. constructor. reflexivity. Qed.

Lemma default_not_none : forall rules c s, lm (map fst (with_default rules)) (c :: s) <> None.
Proof.
  intros rules c s H. apply lm_none_iff in H. apply (H (length rules) 1); [simpl; lia|].
  exists any_char. split; [|apply any_char_matches].
  unfold with_default. rewrite map_app. rewrite nth_error_app2 by (rewrite map_length; lia).
  rewrite map_length, Nat.sub_diag. reflexivity.
Qed.

Lemma lm_index_bound : forall rs s i n, lm rs s = Some (i, n) -> i < length rs /\ 1 <= n <= length s.
Proof.
  intros rs s i n H. apply lm_some_iff in H. destruct H as (L & (r & E & _) & _). split; [|exact L].
  apply nth_error_Some. congruence.
Qed.

Theorem tokenize_total : forall rules s, exists out, tokenize (with_default rules) s = Some out.
Proof.
  intros rules s. unfold tokenize.
  assert (G : forall f s, length s < f -> exists out, tokenize_fuel f (with_default rules) s = Some out).
  { clear s. induction f as [|f IH]; intros s Hf; [lia|]. simpl. destruct s as [|c s']; [eexists; reflexivity|].
    destruct (lm (map fst (with_default rules)) (c :: s')) as [[i n]|] eqn:L; [|exfalso; exact (default_not_none _ _ _ L)].
    destruct (lm_index_bound _ _ _ _ L) as [Hi Hn]. rewrite map_length in Hi.
    destruct (nth_error (with_default rules) i) as [[r a]|] eqn:E; [|apply nth_error_None in E; lia].
    destruct (IH (skipn n (c :: s'))) as [o Ho]; [rewrite skipn_length; cbn [length] in *; lia|].
    rewrite Ho. eexists; reflexivity. }
  apply G. lia.
Qed.
