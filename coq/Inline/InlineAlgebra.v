(* C11 -- algebra of the reference semantics: Gaussian rationals form a commutative ring,
   polynomial operations are evaluation homomorphisms, [denote] is ordinary algebra. *)
Require Import List ZArith NArith QArith Qcanon Bool Arith Lia Ring.
Require Import MPSV.Inline.InlineModel.
Import ListNotations.
Open Scope Qc_scope.

Lemma C_eq : forall a b, re a = re b -> im a = im b -> a = b.
Proof. intros [a1 a2] [b1 b2]; simpl; intros; subst; reflexivity. Qed.

Ltac csimp := intros; apply C_eq; simpl; ring.

Lemma C_ring_theory : ring_theory C0 C1 Cadd Cmul Csub Copp (@eq C).
Proof.
  constructor.
  - intros [a b]; csimp.
  - intros [a b] [c d]; csimp.
  - intros [a b] [c d] [e f]; csimp.
  - intros [a b]; csimp.
  - intros [a b] [c d]; csimp.
  - intros [a b] [c d] [e f]; csimp.
  - intros [a b] [c d] [e f]; csimp.
  - intros [a b] [c d]; csimp.
  - intros [a b]; csimp.
Qed.
Add Ring C_ring : C_ring_theory.

Lemma Ci_square : Cmul Ci Ci = Copp C1.
Proof. apply C_eq; simpl; ring. Qed.

Lemma Qc_is0_true : forall q, Qc_is0 q = true -> q = 0.
Proof. intros q; unfold Qc_is0; destruct (Qc_eq_dec q 0); [auto | discriminate]. Qed.
Lemma Qc_is0_false : forall q, Qc_is0 q = false -> q <> 0.
Proof. intros q; unfold Qc_is0; destruct (Qc_eq_dec q 0); [discriminate | auto]. Qed.
Lemma Cis0_true : forall a, Cis0 a = true -> a = C0.
Proof.
  intros [a b]; unfold Cis0; simpl; intros H; apply andb_prop in H; destruct H as [H1 H2].
  apply Qc_is0_true in H1; apply Qc_is0_true in H2; subst; reflexivity.
Qed.
Lemma Cis0_C0 : Cis0 C0 = true.
Proof. reflexivity. Qed.
Lemma Cis0_false : forall a, Cis0 a = false -> a <> C0.
Proof. intros a H E; subst; discriminate. Qed.

(* ------------------------------------------------------------------ evaluation homomorphisms *)
Lemma eval_padd : forall p q x, eval (padd p q) x = Cadd (eval p x) (eval q x).
Proof.
  induction p as [|a p IH]; intros q x; simpl.
  - ring.
  - destruct q as [|b q]; simpl; [ring | rewrite IH; ring].
Qed.
Lemma eval_pscale : forall c p x, eval (pscale c p) x = Cmul c (eval p x).
Proof. induction p as [|a p IH]; intros x; simpl; [ring | rewrite IH; ring]. Qed.
Lemma eval_popp : forall p x, eval (popp p) x = Copp (eval p x).
Proof. induction p as [|a p IH]; intros x; simpl; [ring | rewrite IH; ring]. Qed.
Lemma eval_psub : forall p q x, eval (psub p q) x = Csub (eval p x) (eval q x).
Proof. intros; unfold psub; rewrite eval_padd, eval_popp; ring. Qed.
Lemma eval_pmul : forall p q x, eval (pmul p q) x = Cmul (eval p x) (eval q x).
Proof.
  induction p as [|a p IH]; intros q x; simpl.
  - ring.
  - rewrite eval_padd, eval_pscale; simpl; rewrite IH; ring.
Qed.
Lemma eval_ppow : forall p k x, eval (ppow p k) x = Cpow (eval p x) k.
Proof. induction k as [|k IH]; intros x; simpl; [ring | rewrite eval_pmul, IH; ring]. Qed.

Lemma eval_strip : forall p x, eval (strip p) x = eval p x.
Proof.
  induction p as [|a p IH]; intros x; simpl; [reflexivity|].
  specialize (IH x). destruct (strip p) as [|b s] eqn:E.
  - simpl in IH. destruct (Cis0 a) eqn:Ea; simpl; rewrite <- IH.
    + apply Cis0_true in Ea; subst; ring.
    + ring.
  - simpl; simpl in IH; rewrite IH; reflexivity.
Qed.

Lemma strip_idem : forall p, strip (strip p) = strip p.
Proof.
  induction p as [|a p IH]; simpl; [reflexivity|].
  destruct (strip p) as [|b s] eqn:E.
  - destruct (Cis0 a) eqn:Ea; simpl; [reflexivity | rewrite Ea; reflexivity].
  - simpl. simpl in IH. rewrite IH. reflexivity.
Qed.

(* a stripped polynomial has no trailing zero *)
Lemma strip_last_nonzero : forall p, strip p <> nil -> Cis0 (last (strip p) C0) = false.
Proof.
  induction p as [|a p IH]; simpl; [congruence|].
  destruct (strip p) as [|b s] eqn:E.
  - destruct (Cis0 a) eqn:Ea; simpl; [congruence | auto].
  - intros _. change (last (a :: b :: s) C0) with (last (b :: s) C0). apply IH; congruence.
Qed.

Lemma eval_draw : forall e x, eval (draw e) x = eval_expr e x.
Proof.
  induction e; intros x; simpl.
  - ring.
  - ring.
  - rewrite eval_padd, IHe1, IHe2; reflexivity.
  - rewrite eval_psub, IHe1, IHe2; reflexivity.
  - rewrite eval_pmul, IHe1, IHe2; reflexivity.
  - rewrite eval_popp, IHe; reflexivity.
  - rewrite eval_ppow, IHe; reflexivity.
Qed.

Lemma denote_is_algebra : forall e x, eval (denote e) x = eval_expr e x.
Proof. intros; unfold denote; rewrite eval_strip; apply eval_draw. Qed.

Lemma denote_normalised : forall e, normalised (denote e).
Proof. intros; unfold normalised, denote; apply strip_idem. Qed.
