(* C11 -- data model of a yacc grammar file (what checks/c11_yacc_reader.py emits) and the
   grammar the C11 development was carried out for ([expected_grammar] = yacc-parser.y with
   fixes/C11_grammar.patch applied).  Definitions only. *)
Require Import List String Bool Arith.
Import ListNotations.
Open Scope string_scope.

Inductive assoc : Set := AssocLeft | AssocRight | AssocNone | AssocPrec.
Inductive sym : Set := T (name : string) | NT (id : nat).
Record production : Set := mkProd {
  p_lhs : nat;                 (* nonterminal, numbered by first appearance as a left-hand side *)
  p_rhs : list sym;
  p_prec : option string;      (* %prec override *)
  p_action : string            (* calls / parser macros / $-references made by the action, in order *)
}.
Record grammar : Set := {
  g_tokens : list string;
  g_prec : list (assoc * list string);     (* file order = increasing precedence *)
  g_nonterminals : nat;
  g_prods : list production
}.

(* precedence level (1-based position of the declaration line) and associativity of a token *)
Fixpoint prec_level_from (k : nat) (tbl : list (assoc * list string)) (t : string) : option (nat * assoc) :=
  match tbl with
  | nil => None
  | (a, ts) :: r => if existsb (String.eqb t) ts then Some (k, a) else prec_level_from (S k) r t
  end.
Definition prec_of (g : grammar) (t : string) : option (nat * assoc) := prec_level_from 1 (g_prec g) t.

(* yacc: precedence of a production = its %prec token, else its last terminal *)
Fixpoint last_terminal (l : list sym) : option string :=
  match l with
  | nil => None
  | T n :: r => match last_terminal r with Some m => Some m | None => Some n end
  | NT _ :: r => last_terminal r
  end.
Definition prod_prec (g : grammar) (p : production) : option (nat * assoc) :=
  match p_prec p with
  | Some t => prec_of g t
  | None => match last_terminal (p_rhs p) with Some t => prec_of g t | None => None end
  end.

Definition sym_eqb (a b : sym) : bool :=
  match a, b with
  | T x, T y => String.eqb x y
  | NT i, NT j => Nat.eqb i j
  | _, _ => false
  end.
Fixpoint syms_eqb (a b : list sym) : bool :=
  match a, b with
  | nil, nil => true
  | x :: a', y :: b' => sym_eqb x y && syms_eqb a' b'
  | _, _ => false
  end.
Notation length := List.length.
Definition find_prod (g : grammar) (lhs : nat) (rhs : list sym) : option production :=
  find (fun p => Nat.eqb (p_lhs p) lhs && syms_eqb (p_rhs p) rhs) (g_prods g).

Definition level_of (o : option (nat * assoc)) : nat := match o with Some (k, _) => k | None => 0 end.
Definition is_left (o : option (nat * assoc)) : bool := match o with Some (_, AssocLeft) => true | _ => false end.

(* The facts about the grammar data that encode the precedence clause of the property:
   binary PLUS/MINUS (lowest, left), TIMES (left), the unary-minus production with a %prec
   strictly between TIMES and SUPERSCRIPT, and an exponent that is a bare RATIONAL token. *)
Definition grammar_encodes_precedence (g : grammar) : bool :=
  match find_prod g 0 [NT 0; T "PLUS"; NT 0], find_prod g 0 [NT 0; T "MINUS"; NT 0],
        find_prod g 0 [NT 0; T "TIMES"; NT 0], find_prod g 0 [T "MINUS"; NT 0],
        find_prod g 0 [NT 0; T "SUPERSCRIPT"; T "RATIONAL"] with
  | Some pp, Some pm, Some pt, Some pu, Some pw =>
    let lp := level_of (prod_prec g pp) in let lm := level_of (prod_prec g pm) in
    let lt := level_of (prod_prec g pt) in let lu := level_of (prod_prec g pu) in
    (* the exponent production ends in RATIONAL and never takes part in a conflict; what
       competes with the other rules is the lookahead token SUPERSCRIPT *)
    let lw := level_of (prec_of g "SUPERSCRIPT") in
    ((0 <? lp) && (lp =? lm) && (lp <? lt) && (lt <? lu) && (lu <? lw)
    && is_left (prod_prec g pp) && is_left (prod_prec g pm) && is_left (prod_prec g pt)
    (* no other production mentions MINUS or SUPERSCRIPT *)
    && (length (filter (fun p => existsb (sym_eqb (T "MINUS")) (p_rhs p)) (g_prods g)) =? 2)
    && (length (filter (fun p => existsb (sym_eqb (T "SUPERSCRIPT")) (p_rhs p)) (g_prods g)) =? 1))%nat
  | _, _, _, _, _ => false
  end.

(* yacc-parser.y with fixes/C11_grammar.patch applied, as read by the translator *)
Definition expected_grammar : grammar := {|
  g_tokens := ["RATIONAL"; "FLOATING_POINT"; "PLUS"; "MINUS"; "IMAGINARY_UNIT"; "TIMES"; "LEFT_BRACKET"; "RIGHT_BRACKET"; "MONOMIAL"; "SUPERSCRIPT"];
  g_prec := [
    (AssocLeft, ["PLUS"; "MINUS"]);
    (AssocLeft, ["TIMES"]);
    (AssocRight, ["UMINUS"]);
    (AssocRight, ["SUPERSCRIPT"]);
    (AssocRight, ["IMAGINARY_UNIT"])
  ];
  g_nonterminals := 4;
  g_prods := [
    mkProd 0 [NT 1] None "$$ polynomial_new_with_monomial $1 monomial_free $1 $$";
    mkProd 0 [T "LEFT_BRACKET"; NT 0; T "RIGHT_BRACKET"] None "$$ $2";
    mkProd 0 [NT 0; T "TIMES"; NT 0] None "$$ polynomial_mul_eq $1 $3 polynomial_free $3 $$";
    mkProd 0 [NT 0; T "PLUS"; NT 0] None "$$ polynomial_sum_eq_p $1 $3 polynomial_free $3 $$";
    mkProd 0 [NT 0; T "MINUS"; NT 0] None "$$ polynomial_sub_eq_p $1 $3 polynomial_free $3 $$";
    mkProd 0 [T "MINUS"; NT 0] (Some "UMINUS") "monomial_new_with_string $$ polynomial_new_with_monomial monomial_free $$ polynomial_sub_eq_p $$ $2 polynomial_free $2 $$";
    mkProd 0 [NT 0; T "SUPERSCRIPT"; T "RATIONAL"] None "strchr $3 yyerror free $3 YYABORT atoi $3 monomial_new_with_string polynomial_new_with_monomial polynomial_mul_eq $1 polynomial_free $1 $$ $$ monomial_free free $3";
    mkProd 1 [T "MONOMIAL"] None "strchr $1 atoi $$ monomial_new_with_string free $1";
    mkProd 1 [NT 2] None "$$ $1";
    mkProd 2 [NT 3] None "$$ $1";
    mkProd 2 [NT 3; T "IMAGINARY_UNIT"] None "monomial_new_with_strings $$ monomial_mul_eq $1 monomial_free $1";
    mkProd 3 [T "RATIONAL"] None "strchr $1 strspn yyerror free $1 YYABORT $$ monomial_new_with_string $1 free $1";
    mkProd 3 [T "FLOATING_POINT"] None "monomial_new_with_string $1 free $1 $$"
  ]
|}.
