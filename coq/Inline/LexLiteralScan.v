(* C11 -- every RATIONAL / FLOATING_POINT token the generated scanner hands to the parser carries the value of its text,
   which is also what the grammar action stores (LexLiteral.literal_value applied to the lexemes of the scanner). *)
Require Import List Ascii String Bool Arith NArith ZArith QArith Lia.
Require Import MPSV.Inline.InlineModel MPSV.Inline.InlineGrammar MPSV.Inline.InlineLR MPSV.Inline.InlineLRSound MPSV.Inline.InlineLRAll
               MPSV.Inline.LexModel MPSV.Inline.LexSpec MPSV.Inline.LexPipeline MPSV.Inline.LexPipelineProofs MPSV.Inline.LexLiteralModel MPSV.Inline.LexLiteral.
Import ListNotations.
Open Scope list_scope.
Open Scope string_scope.
Local Arguments is_digit : simpl never.

Lemma number_rule_first_char : forall c, is_digit c = false -> deriv c rx_rational = REmpty /\ deriv c rx_floating = REmpty.
Proof. intros c H. destruct c as [[] [] [] [] [] [] [] []]; vm_compute in H; try discriminate H; vm_compute; split; reflexivity. Qed.

Lemma number_lexeme_starts_with_digit : forall r p, r = rx_rational \/ r = rx_floating -> matches r p ->
  exists c p', p = c :: p' /\ is_digit c = true.
Proof.
  intros r p Hr M. destruct p as [|c p'].
  - apply nullable_spec in M. destruct Hr; subst; discriminate.
  - exists c, p'. split; [reflexivity|]. destruct (is_digit c) eqn:E; [reflexivity|].
    apply deriv_spec in M. destruct (number_rule_first_char c E) as [E1 E2].
    destruct Hr; subst; [rewrite E1 in M | rewrite E2 in M]; inversion M.
Qed.

Lemma number_rule_index : forall i r nm k, nth_error (with_default expected_lexer) i = Some (r, AReturn nm k) ->
  nm = "RATIONAL" \/ nm = "FLOATING_POINT" -> r = rx_rational \/ r = rx_floating.
Proof.
  intros i r nm k H Hn. do 13 (destruct i as [|i]; [simpl in H; inversion H; subst; auto; destruct Hn; discriminate|]).
  simpl in H. destruct i; discriminate.
Qed.

Lemma lex_number_TNum : forall s t r, lex_number s = Some (t, r) -> exists n d b, t = TNum n d b.
Proof.
  intros s t r H. pose proof (lex_number_ok s t r H) as K.
  assert (N : number_name s = "RATIONAL" \/ number_name s = "FLOATING_POINT").
  { unfold number_name. destruct (span_digits s) as [d0 r0]. destruct r0 as [|c r1]; [auto|].
    destruct (nat_of_ascii c =? 47)%nat; [auto|]. destruct (nat_of_ascii c =? 46)%nat; [auto|]. destruct (lex_exp (c :: r1)); auto. }
  destruct t; try (simpl in K; destruct N as [N|N]; rewrite N in K; discriminate).
  eexists _, _, _; reflexivity.
Qed.

Theorem scanner_literal_values : forall l rts, tokenize (with_default expected_lexer) l = Some rts ->
  forall nm k text t, In (RTok nm k text) rts -> nm = "RATIONAL" \/ nm = "FLOATING_POINT" ->
  conv_token (RTok nm k text) = Some (Some (nm, t)) ->
  exists n d b, t = TNum n d b /\
    monomial_coeff text = Some (Qred (Z.of_N n # d)) /\ text_value text (Qred (Z.of_N n # d)).
Proof.
  intros l rts H. apply tokenize_iff in H.
  induction H as [|s i n r a out Hne C E _ IH]; intros nm k text t Hin Hnm Hc; [destruct Hin|].
  apply in_app_or in Hin. destruct Hin as [Hin|Hin]; [|exact (IH nm k text t Hin Hnm Hc)].
  assert (Ea : a = AReturn nm k /\ text = firstn n s).
  { destruct a as [nm' k'| | | |w]; simpl in Hin.
    - destruct Hin as [Hin|[]]. inversion Hin; subst. auto.
    - destruct (firstn n s); [destruct Hin | destruct Hin as [Hin|[]]; discriminate].
    - destruct Hin.
    - destruct Hin as [Hin|[]]; discriminate.
    - destruct Hin as [Hin|[]]; discriminate. }
  destruct Ea as [Ea Et]. subst a.
  pose proof (number_rule_index i r nm k E Hnm) as Hr.
  destruct C as (_ & (r' & E' & M) & _).
  assert (r' = r).
  { rewrite nth_error_map, E in E'. simpl in E'. inversion E'; reflexivity. }
  subst r'. rewrite <- Et in M.
  destruct (number_lexeme_starts_with_digit r text Hr M) as (c & p' & Ep & Hd).
  simpl in Hc.
  assert (Enm : ((nm =? "RATIONAL") || (nm =? "FLOATING_POINT")) = true) by (destruct Hnm; subst; reflexivity).
  rewrite Enm in Hc. destruct k; [|discriminate].
  destruct (lex_number text) as [[t' [|x rr]]|] eqn:L; try discriminate.
  destruct (number_name text =? nm); [|discriminate]. inversion Hc; subst t'.
  destruct (lex_number_TNum _ _ _ L) as (n0 & d0 & b0 & Et0). subst t.
  exists n0, d0, b0. split; [reflexivity|].
  apply (literal_value text n0 d0 b0); [exists c, p'; auto | exact L].
Qed.
