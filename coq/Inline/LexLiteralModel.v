(* C11 -- numeric literals (definitions only): the model of the conversion done by the grammar actions
   `real_number: RATIONAL | FLOATING_POINT` of yacc-parser.y,
       mps_formal_monomial_new_with_string -> Monomial::Monomial (const char *, long)   (src/libmps/formal/formal-monomial.cpp)
         = mps_utils_build_equivalent_rational_string (src/libmps/common/utils.c, inline-poly-parser.c), mpq_class::set_str (.., 10), canonicalize (),
   in terms of the character-level model written for C10 (PolFile/DecRatModel.v), and the declarative value of a literal text. *)
Require Import Ascii List ZArith NArith QArith Bool String.
Require MPSV.Inline.InlineModel.
Require Import MPSV.PolFile.Chars MPSV.PolFile.DecRatModel.
Import ListNotations.
Local Open Scope char_scope.
Local Open Scope list_scope.

(* Monomial::Monomial (const char * coeff_string, long degree): None = NULL string, set_str failure or zero denominator *)
Definition monomial_coeff (text : list ascii) : option Q :=
  match equiv_rational_string text with
  | Some s => mpq_str_value s
  | None => None
  end.

(* driver entry point: the payload of the hand model and the C conversion model agree on a lexeme (never false on a
   lexeme of the scanner: [literal_value]; checked on every literal of every input of the scanner stage) *)
Definition literal_consistent (text : list ascii) : bool :=
  match InlineModel.lex_number text, monomial_coeff text with
  | Some (InlineModel.TNum n d _, []), Some q => Qeq_bool q (Z.of_N n # d)
  | None, None => true
  | _, _ => false
  end.

(* "the decimal / rational value of its text" *)
Inductive text_value : list ascii -> Q -> Prop :=
| tv_dec : forall l, wf_api_lit l -> dl_sign l = [] -> text_value (render_declit l) (declit_value l)
| tv_rat : forall d1 d2 dd, all_digits d1 -> d1 <> [] -> all_digits d2 -> digits_val d2 = Npos dd ->
    text_value (d1 ++ "/" :: d2) (Qred (Z.of_N (digits_val d1) # dd)).

