(* C11 -- bison's table for yacc-parser.y (Gen/AutomatonGen.v, regenerated from `bison --xml` on every
   run) passes the table check of InlineLRSound with a state annotation that is COMPUTED from the table;
   hence the generated parser is sound for the declarative grammar on inputs of ANY length.  Together
   with the tokenizer-name lemma and the coefficient theorem of InlineFormalCoeff this gives the
   property for the whole modelled pipeline [run_yacc]. *)
Require Import List String Bool Arith NArith Ascii Lia.
Require Import MPSV.Inline.InlineModel MPSV.Inline.InlineDecl MPSV.Inline.InlineGrammar MPSV.Inline.InlineLR
               MPSV.Inline.InlineLRSound MPSV.Inline.Gen.AutomatonGen MPSV.Inline.InlineLRComplete
               MPSV.Inline.InlineSound MPSV.Inline.InlineFormalCoeff.
Import ListNotations.
Open Scope string_scope.
Open Scope list_scope.
Notation length := List.length.

(* ------------------------------------------------------------------ the annotation, computed from the table *)
Definition in_sym (st : lrstate) (s : nat) : option sym :=
  match find (fun x => match snd x with Shift s' => Nat.eqb s' s | _ => false end) (st_actions st) with
  | Some (n, _) => Some (T n)
  | None => match find (fun x => Nat.eqb (snd x) s) (st_gotos st) with
            | Some (i, _) => Some (NT i)
            | None => None
            end
  end.
Definition entry_sym (a : automaton) (s : nat) : option sym :=
  fold_right (fun st acc => match in_sym st s with Some y => Some y | None => acc end) None (a_states a).
Definition reduces_in (st : lrstate) : list nat :=
  flat_map (fun x => match snd x with Reduce r => [r] | _ => [] end) (st_actions st) ++
  match st_default st with Some (Reduce r) => [r] | _ => [] end.
(* a `polynomial` state must hold operands at least as tight as the rules reduced there demand *)
Definition infer_kind (a : automaton) (s : nat) (st : lrstate) : kind :=
  match entry_sym a s with
  | None => KBot
  | Some (T n) => if String.eqb n "$end" then KEnd else KT n
  | Some (NT 0) => KP (fold_right Nat.max 0 (map (fun r => top_lvl (r - 1)) (reduces_in st)))
  | Some (NT 1) => KM
  | Some (NT 2) => KN
  | Some (NT _) => KR
  end.
Definition infer_kinds (a : automaton) : list kind :=
  map (fun x => infer_kind a (fst x) (snd x)) (combine (seq 0 (length (a_states a))) (a_states a)).

Lemma gen_rules : a_rules automaton_gen = rules0.
Proof. reflexivity. Qed.
Lemma gen_check : lr_check automaton_gen (infer_kinds automaton_gen) = true.
Proof. vm_compute. reflexivity. Qed.

(* the generated parser, any length, any fuel: accepted => well formed, with that reading *)
Theorem yacc_sound : forall f ys e, Forall ytok_ok ys ->
  lr_loop automaton_gen f [] ys = LAccept e -> d_sum (map snd ys) e.
Proof. exact (lr_sound automaton_gen (infer_kinds automaton_gen) gen_rules gen_check). Qed.

(* ------------------------------------------------------------------ the tokenizer with names *)
Lemma lex_number_ok : forall s t r, lex_number s = Some (t, r) -> tok_ok (number_name s) t.
Proof.
  intros s t r H. unfold lex_number, number_name in *.
  destruct (span_digits s) as [d1 r0].
  destruct r0 as [|c r1].
  - inversion H; subst. reflexivity.
  - destruct (nat_of_ascii c =? 47)%nat.
    + destruct (span_digits r1) as [[|x d2] r2].
      * inversion H; subst. reflexivity.
      * destruct (digits_val (x :: d2)); [discriminate|]. inversion H; subst. left; reflexivity.
    + destruct (nat_of_ascii c =? 46)%nat.
      * destruct (span_digits r1) as [fr r2].
        destruct (lex_exp r2) as [[[neg eds] r3]|]; inversion H; subst; unfold fp_token;
          [destruct neg|]; right; reflexivity.
      * destruct (lex_exp (c :: r1)) as [[[neg eds] r3]|]; inversion H; subst.
        -- unfold fp_token. destruct neg; right; reflexivity.
        -- reflexivity.
Qed.

Lemma ylex_fuel_spec : forall f s ys, ylex_fuel f s = Some ys ->
  lex_fuel f s = Some (map snd ys) /\ Forall ytok_ok ys.
Proof.
  induction f as [|f IH]; intros s ys H; [discriminate|].
  simpl in H |- *. destruct s as [|c r]; [inversion H; subst; split; [reflexivity | constructor]|].
  destruct (is_digit c).
  - destruct (lex_number (c :: r)) as [[t r']|] eqn:L; [|discriminate].
    destruct (ylex_fuel f r') as [ts|] eqn:E; [|discriminate]. inversion H; subst.
    destruct (IH _ _ E) as [H1 H2]. rewrite H1. split; [reflexivity|].
    constructor; [unfold ytok_ok; simpl; eapply lex_number_ok; exact L | exact H2].
  - repeat match goal with
      | H : (if ?b then _ else _) = Some _ |- _ => destruct b
      end;
    try discriminate;
    try (destruct (ylex_fuel f r) as [ts|] eqn:E; [|discriminate]; inversion H; subst;
         destruct (IH _ _ E) as [H1 H2]; rewrite H1; split; [reflexivity | constructor; [reflexivity | exact H2]]).
    apply IH; exact H.
Qed.

Lemma ylex_spec : forall s ys, ylex s = Some ys -> lex s = Some (map snd ys) /\ Forall ytok_ok ys.
Proof. intros s ys H. unfold ylex in H. unfold lex. apply ylex_fuel_spec; exact H. Qed.

(* the tokenizer with names accepts exactly what the payload-only tokenizer accepts *)
Lemma ylex_fuel_complete : forall f s ts, lex_fuel f s = Some ts -> exists ys, ylex_fuel f s = Some ys /\ map snd ys = ts.
Proof.
  induction f as [|f IH]; intros s ts H; [discriminate|].
  simpl in H |- *. destruct s as [|c r]; [inversion H; subst; exists []; split; reflexivity|].
  destruct (is_digit c).
  - destruct (lex_number (c :: r)) as [[t r']|] eqn:L; [|discriminate].
    destruct (lex_fuel f r') as [ts'|] eqn:E; [|discriminate]. inversion H; subst.
    destruct (IH _ _ E) as (ys & H1 & H2). rewrite H1. eexists; split; [reflexivity | simpl; rewrite H2; reflexivity].
  - repeat match goal with
      | H : (if ?b then _ else _) = Some _ |- _ => destruct b
      end;
    try discriminate;
    try (destruct (lex_fuel f r) as [ts'|] eqn:E; [|discriminate]; inversion H; subst;
         destruct (IH _ _ E) as (ys & H1 & H2); rewrite H1; eexists; split; [reflexivity | simpl; rewrite H2; reflexivity]).
Qed.
Lemma ylex_complete : forall s ts, lex s = Some ts -> exists ys, ylex s = Some ys /\ map snd ys = ts.
Proof. intros s ts H. unfold lex in H. unfold ylex. apply ylex_fuel_complete; exact H. Qed.

(* ------------------------------------------------------------------ sound AND complete, all lengths *)
Theorem yacc_iff : forall ys e, Forall ytok_ok ys ->
  (lr_run automaton_gen ys = LAccept e <-> d_sum (map snd ys) e).
Proof.
  intros ys e Hall. split.
  - unfold lr_run. apply yacc_sound; exact Hall.
  - apply yacc_complete; exact Hall.
Qed.

(* whatever the reference parser accepts, the generated parser accepts with the same AST; and it accepts nothing
   else than well-formed expressions *)
Theorem yacc_agrees_ref_all : forall ys e, Forall ytok_ok ys ->
  parse_ref (map snd ys) = Some e -> lr_run automaton_gen ys = LAccept e.
Proof. intros ys e Hall H. apply yacc_complete; [exact Hall | apply parse_ref_sound; exact H]. Qed.

(* a name for every token (any choice consistent with [tok_ok]) *)
Definition name_of (t : token) : string :=
  match t with
  | TX => "MONOMIAL" | TNum _ _ true => "RATIONAL" | TNum _ _ false => "FLOATING_POINT" | TI => "IMAGINARY_UNIT"
  | TPlus => "PLUS" | TMinus => "MINUS" | TTimes => "TIMES" | TPow => "SUPERSCRIPT" | TLP => "LEFT_BRACKET" | TRP => "RIGHT_BRACKET"
  end.
Lemma named_ok : forall ts, Forall ytok_ok (map (fun t => (name_of t, t)) ts) /\ map snd (map (fun t => (name_of t, t)) ts) = ts.
Proof.
  induction ts as [|t ts [IH1 IH2]]; [split; [constructor | reflexivity]|]. split.
  - constructor; [|exact IH1]. unfold ytok_ok; simpl. destruct t; simpl; auto. destruct intlit; auto.
  - simpl. rewrite IH2. reflexivity.
Qed.
(* consequence: the declarative grammar of the property is unambiguous (every well-formed expression has ONE reading) *)
Corollary d_sum_unambiguous : forall ts e e', d_sum ts e -> d_sum ts e' -> e = e'.
Proof.
  intros ts e e' H H'. destruct (named_ok ts) as [N1 N2].
  rewrite <- N2 in H, H'. apply (yacc_complete _ _ N1) in H. apply (yacc_complete _ _ N1) in H'. congruence.
Qed.

(* ------------------------------------------------------------------ the property for the modelled pipeline *)
(* Whatever string the generated pipeline accepts is a well-formed expression (its token list is derivable
   in the declarative grammar) and the coefficient vector handed to the solver is the polynomial that
   expression denotes.  Consequently a string that is not a well-formed expression is never accepted. *)
Theorem run_yacc_property : forall s cs, run_yacc automaton_gen s = Some cs ->
  exists ts e, lex s = Some ts /\ d_sum ts e /\ cs = stored (denote e).
Proof.
  intros s cs H. unfold run_yacc in H.
  destruct (ylex s) as [ys|] eqn:E; [|discriminate].
  destruct (ylex_spec _ _ E) as [H1 H2].
  destruct (lr_run automaton_gen ys) as [e| | |] eqn:R; try discriminate. inversion H; subst cs.
  exists (map snd ys), e. split; [exact H1|]. split; [|apply fp_denote_coeffs].
  unfold lr_run in R. eapply yacc_sound; eassumption.
Qed.

Corollary run_yacc_rejects_illformed : forall s ts, lex s = Some ts -> ~ well_formed ts -> run_yacc automaton_gen s = None.
Proof.
  intros s ts Hl Hn. destruct (run_yacc automaton_gen s) as [cs|] eqn:E; [|reflexivity].
  destruct (run_yacc_property _ _ E) as (ts' & e & H1 & H2 & _). rewrite Hl in H1. inversion H1; subst ts'.
  exfalso. apply Hn. exists e. exact H2.
Qed.
Corollary run_yacc_rejects_unlexable : forall s, lex s = None -> run_yacc automaton_gen s = None.
Proof.
  intros s Hl. destruct (run_yacc automaton_gen s) as [cs|] eqn:E; [|reflexivity].
  destruct (run_yacc_property _ _ E) as (ts' & e & H1 & _). congruence.
Qed.

(* ... and conversely every string that IS a well-formed expression is accepted (completeness of the table) *)
Theorem run_yacc_complete : forall s ts e, lex s = Some ts -> d_sum ts e -> run_yacc automaton_gen s = Some (stored (denote e)).
Proof.
  intros s ts e Hl D. destruct (ylex_complete _ _ Hl) as (ys & Hy & Hm). destruct (ylex_spec _ _ Hy) as [_ Hall].
  unfold run_yacc. rewrite Hy. subst ts. rewrite (yacc_complete _ _ Hall D). rewrite fp_denote_coeffs. reflexivity.
Qed.
