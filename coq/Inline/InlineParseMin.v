(* C11 -- round trip of the reference parser on the MINIMAL-parentheses printer, exact, for
   every AST:  parse_ref (print e) = Some e.
   Method: "eventually" judgements (the fuelled function returns x for every fuel >= B) that
   compose like big-step rules, and a continuation-style invariant per precedence level for
   the left-recursive levels (sum, product, power). *)
Require Import List ZArith NArith Bool Arith Lia.
Require Import MPSV.Inline.InlineModel MPSV.Inline.InlineParse.
Import ListNotations.
Notation length := List.length.

Definition Ev {A : Type} (g : nat -> option A) (B : nat) (x : A) : Prop := forall f, B <= f -> g f = Some x.

Lemma ev_weaken : forall A (g : nat -> option A) B B' x, Ev g B x -> B <= B' -> Ev g B' x.
Proof. intros A g B B' x H Hle f Hf. apply H. lia. Qed.

Lemma ev_sum : forall ts e r B1 B2 x,
  Ev (fun f => parse_prod f ts) B1 (e, r) -> Ev (fun f => sum_loop f e r) B2 x ->
  Ev (fun f => parse_sum f ts) (S (max B1 B2)) x.
Proof. intros ts e r B1 B2 x H1 H2 f Hf. destruct f; [lia|]. rewrite parse_sum_S, H1 by lia. apply H2; lia. Qed.
Lemma ev_sl_stop : forall acc r, head_is TPlus r = false -> head_is TMinus r = false ->
  Ev (fun f => sum_loop f acc r) 1 (acc, r).
Proof. intros acc r H1 H2 f Hf. destruct f; [lia|]. apply sum_loop_stop; assumption. Qed.
Lemma ev_sl_plus : forall acc ts e r B1 B2 x,
  Ev (fun f => parse_prod f ts) B1 (e, r) -> Ev (fun f => sum_loop f (Add acc e) r) B2 x ->
  Ev (fun f => sum_loop f acc (TPlus :: ts)) (S (max B1 B2)) x.
Proof. intros acc ts e r B1 B2 x H1 H2 f Hf. destruct f; [lia|]. rewrite sum_loop_S, H1 by lia. apply H2; lia. Qed.
Lemma ev_sl_minus : forall acc ts e r B1 B2 x,
  Ev (fun f => parse_prod f ts) B1 (e, r) -> Ev (fun f => sum_loop f (Sub acc e) r) B2 x ->
  Ev (fun f => sum_loop f acc (TMinus :: ts)) (S (max B1 B2)) x.
Proof. intros acc ts e r B1 B2 x H1 H2 f Hf. destruct f; [lia|]. rewrite sum_loop_S, H1 by lia. apply H2; lia. Qed.

Lemma ev_prod : forall ts e r B1 B2 x,
  Ev (fun f => parse_unary f ts) B1 (e, r) -> Ev (fun f => prod_loop f e r) B2 x ->
  Ev (fun f => parse_prod f ts) (S (max B1 B2)) x.
Proof. intros ts e r B1 B2 x H1 H2 f Hf. destruct f; [lia|]. rewrite parse_prod_S, H1 by lia. apply H2; lia. Qed.
Lemma ev_pl_stop : forall acc r, head_is TTimes r = false -> Ev (fun f => prod_loop f acc r) 1 (acc, r).
Proof. intros acc r H f Hf. destruct f; [lia|]. apply prod_loop_stop; assumption. Qed.
Lemma ev_pl_times : forall acc ts e r B1 B2 x,
  Ev (fun f => parse_unary f ts) B1 (e, r) -> Ev (fun f => prod_loop f (Mul acc e) r) B2 x ->
  Ev (fun f => prod_loop f acc (TTimes :: ts)) (S (max B1 B2)) x.
Proof. intros acc ts e r B1 B2 x H1 H2 f Hf. destruct f; [lia|]. rewrite prod_loop_S, H1 by lia. apply H2; lia. Qed.

Lemma ev_un_neg : forall ts e r B, Ev (fun f => parse_unary f ts) B (e, r) ->
  Ev (fun f => parse_unary f (TMinus :: ts)) (S B) (Neg e, r).
Proof. intros ts e r B H f Hf. destruct f; [lia|]. rewrite parse_unary_S, H by lia. reflexivity. Qed.
Lemma ev_un_atom : forall ts a r0 B1 B2 x, atom_start ts ->
  Ev (fun f => parse_atom f ts) B1 (a, r0) -> Ev (fun f => pow_loop f a r0) B2 x ->
  Ev (fun f => parse_unary f ts) (S (max B1 B2)) x.
Proof.
  intros ts a r0 B1 B2 x Hs H1 H2 f Hf. destruct f; [lia|]. rewrite parse_unary_S.
  destruct ts as [|[] ts]; simpl in Hs; try contradiction; rewrite H1 by lia; apply H2; lia.
Qed.
Lemma ev_wl_stop : forall acc r, head_is TPow r = false -> Ev (fun f => pow_loop f acc r) 1 (acc, r).
Proof. intros acc r H f Hf. destruct f; [lia|]. apply pow_loop_stop; assumption. Qed.
Lemma ev_wl_pow : forall acc k r B x, Ev (fun f => pow_loop f (Pow acc (N.to_nat k)) r) B x ->
  Ev (fun f => pow_loop f acc (TPow :: TNum k 1 true :: r)) (S B) x.
Proof. intros acc k r B x H f Hf. destruct f; [lia|]. rewrite pow_loop_S. apply H; lia. Qed.

Lemma ev_at_x : forall r, Ev (fun f => parse_atom f (TX :: r)) 1 (X, r).
Proof. intros r f Hf. destruct f; [lia|]. rewrite parse_atom_S. reflexivity. Qed.
Lemma ev_at_num : forall n d b r, head_is TI r = false ->
  Ev (fun f => parse_atom f (TNum n d b :: r)) 1 (Num n d false, r).
Proof.
  intros n d b r H f Hf. destruct f; [lia|]. rewrite parse_atom_S.
  destruct r as [|[] r]; simpl in H; try reflexivity; discriminate.
Qed.
Lemma ev_at_inum : forall n d b r, Ev (fun f => parse_atom f (TNum n d b :: TI :: r)) 1 (Num n d true, r).
Proof. intros n d b r f Hf. destruct f; [lia|]. rewrite parse_atom_S. reflexivity. Qed.
Lemma ev_at_paren : forall ts e r B, Ev (fun f => parse_sum f ts) B (e, TRP :: r) ->
  Ev (fun f => parse_atom f (TLP :: ts)) (S B) (e, r).
Proof. intros ts e r B H f Hf. destruct f; [lia|]. rewrite parse_atom_S, H by lia. reflexivity. Qed.

(* a bound below which a fuelled function cannot have succeeded *)
Lemma ev_pos_sum_loop : forall acc r B x, Ev (fun f => sum_loop f acc r) B x -> 1 <= B.
Proof.
  intros acc r B x H. destruct B; [|lia]. specialize (H 0 (le_n 0)).
  Transparent sum_loop. simpl in H. Opaque sum_loop. discriminate.
Qed.
Lemma ev_pos_prod_loop : forall acc r B x, Ev (fun f => prod_loop f acc r) B x -> 1 <= B.
Proof.
  intros acc r B x H. destruct B; [|lia]. specialize (H 0 (le_n 0)).
  Transparent prod_loop. simpl in H. Opaque prod_loop. discriminate.
Qed.
Lemma ev_pos_pow_loop : forall acc r B x, Ev (fun f => pow_loop f acc r) B x -> 1 <= B.
Proof.
  intros acc r B x H. destruct B; [|lia]. specialize (H 0 (le_n 0)).
  Transparent pow_loop. simpl in H. Opaque pow_loop. discriminate.
Qed.

(* ------------------------------------------------------------------ what may follow an operand *)
Definition Fol3 (r : list token) : Prop := head_is TI r = false.
Definition Fol1 (r : list token) : Prop := head_is TI r = false /\ head_is TPow r = false.
Definition Fol0 (r : list token) : Prop := Fol1 r /\ head_is TTimes r = false.

Notation L l e := (length (print_at l e)).

(* invariants per level; F is the bound of the continuation *)
Definition MSum (e : expr) : Prop := forall r x F, Fol0 r -> Ev (fun f => sum_loop f e r) F x ->
  exists p0 r0, Ev (fun f => parse_prod f (print_at 0 e ++ r)) (F + 7 * L 0 e + 4) (p0, r0) /\
                Ev (fun f => sum_loop f p0 r0) (F + 7 * L 0 e + 4) x.
Definition MProd (e : expr) : Prop := forall r x F, Fol1 r -> Ev (fun f => prod_loop f e r) F x ->
  exists u0 r0, Ev (fun f => parse_unary f (print_at 1 e ++ r)) (F + 7 * L 1 e + 2) (u0, r0) /\
                Ev (fun f => prod_loop f u0 r0) (F + 7 * L 1 e + 2) x.
Definition MUn (e : expr) : Prop := forall r, Fol1 r ->
  Ev (fun f => parse_unary f (print_at 2 e ++ r)) (7 * L 2 e + 2) (e, r).
Definition MPw (e : expr) : Prop := forall r x F, Fol3 r -> Ev (fun f => pow_loop f e r) F x ->
  atom_start (print_at 3 e ++ r) /\
  exists a0 r0, Ev (fun f => parse_atom f (print_at 3 e ++ r)) (F + 7 * L 3 e) (a0, r0) /\
                Ev (fun f => pow_loop f a0 r0) (F + 7 * L 3 e) x.

(* ------------------------------------------------------------------ moving between levels *)
Lemma paren_atom : forall e r, MSum e ->
  Ev (fun f => parse_atom f (TLP :: print_at 0 e ++ TRP :: r)) (7 * L 0 e + 7) (e, r).
Proof.
  intros e r HS.
  destruct (HS (TRP :: r) (e, TRP :: r) 1) as (p0 & r0 & H1 & H2).
  - repeat split; reflexivity.
  - apply ev_sl_stop; reflexivity.
  - eapply ev_weaken; [apply ev_at_paren; eapply ev_sum; [exact H1 | exact H2] | lia].
Qed.

Lemma up_sum : forall e, print_at 0 e = print_at 1 e -> MProd e -> MSum e.
Proof.
  intros e E HP r x F [HC1 Ht] Hk. rewrite E.
  destruct (HP r (e, r) 1 HC1 (ev_pl_stop e r Ht)) as (u0 & r0 & H1 & H2).
  pose proof (ev_pos_sum_loop _ _ _ _ Hk).
  exists e, r. split.
  - eapply ev_weaken; [eapply ev_prod; [exact H1 | exact H2] | lia].
  - eapply ev_weaken; [exact Hk | lia].
Qed.
Lemma up_prod : forall e, print_at 1 e = print_at 2 e -> MUn e -> MProd e.
Proof.
  intros e E HU r x F HC1 Hk. rewrite E. exists e, r. split.
  - eapply ev_weaken; [apply HU; exact HC1 | lia].
  - eapply ev_weaken; [exact Hk | lia].
Qed.
Lemma up_un : forall e, print_at 2 e = print_at 3 e -> MPw e -> MUn e.
Proof.
  intros e E HW r [HI HP]. rewrite E.
  destruct (HW r (e, r) 1 HI (ev_wl_stop e r HP)) as (Hs & a0 & r0 & H1 & H2).
  eapply ev_weaken; [eapply ev_un_atom; [exact Hs | exact H1 | exact H2] | lia].
Qed.

Lemma low_pw : forall e, print_at 3 e = TLP :: print_at 0 e ++ [TRP] -> MSum e -> MPw e.
Proof.
  intros e E HS r x F HI Hk. rewrite E. simpl. rewrite <- app_assoc. simpl. split; [exact I|].
  exists e, r. split.
  - eapply ev_weaken; [apply paren_atom; exact HS|]. rewrite app_length. simpl. lia.
  - eapply ev_weaken; [exact Hk | lia].
Qed.
Lemma low_un : forall e, print_at 2 e = TLP :: print_at 0 e ++ [TRP] -> MSum e -> MUn e.
Proof.
  intros e E HS r [HI HP]. rewrite E. simpl. rewrite <- app_assoc. simpl.
  eapply ev_weaken; [eapply ev_un_atom; [exact I | apply paren_atom; exact HS | apply ev_wl_stop; exact HP]|].
  rewrite app_length. simpl. lia.
Qed.
Lemma low_prod : forall e, print_at 1 e = TLP :: print_at 0 e ++ [TRP] -> MSum e -> MProd e.
Proof.
  intros e E HS r x F [HI HP] Hk. rewrite E. simpl. rewrite <- app_assoc. simpl.
  pose proof (ev_pos_prod_loop _ _ _ _ Hk).
  exists e, r. split.
  - eapply ev_weaken; [eapply ev_un_atom; [exact I | apply paren_atom; exact HS | apply ev_wl_stop; exact HP]|].
    rewrite app_length. simpl. lia.
  - eapply ev_weaken; [exact Hk | lia].
Qed.

(* ------------------------------------------------------------------ the invariant holds for every AST *)
Lemma all_levels : forall e, MSum e /\ MProd e /\ MUn e /\ MPw e.
Proof.
  induction e as [|n d b|a IHa b IHb|a IHa b IHb|a IHa b IHb|a IHa|a IHa k].
  - (* X *)
    assert (HW : MPw X).
    { intros r x F HI Hk. split; [exact I|]. exists X, r. split.
      - eapply ev_weaken; [apply ev_at_x | simpl; lia].
      - eapply ev_weaken; [exact Hk | lia]. }
    assert (HU : MUn X) by (apply up_un; [reflexivity | exact HW]).
    assert (HP : MProd X) by (apply up_prod; [reflexivity | exact HU]).
    (split; [|split; [|split]]); try assumption. apply up_sum; [reflexivity | exact HP].
  - (* Num *)
    assert (HW : MPw (Num n d b)).
    { intros r x F HI Hk. destruct b.
      - split; [exact I|]. exists (Num n d true), r. split.
        + eapply ev_weaken; [apply ev_at_inum | simpl; lia].
        + eapply ev_weaken; [exact Hk | lia].
      - split; [exact I|]. exists (Num n d false), r. split.
        + eapply ev_weaken; [apply ev_at_num; exact HI | simpl; lia].
        + eapply ev_weaken; [exact Hk | lia]. }
    assert (HU : MUn (Num n d b)) by (apply up_un; [reflexivity | exact HW]).
    assert (HP : MProd (Num n d b)) by (apply up_prod; [reflexivity | exact HU]).
    (split; [|split; [|split]]); try assumption. apply up_sum; [reflexivity | exact HP].
  - (* Add *)
    destruct IHa as (Sa & _). destruct IHb as (_ & Pb & _).
    assert (HS : MSum (Add a b)).
    { intros r x F [[HI HPw] Ht] Hk.
      pose proof (ev_pos_sum_loop _ _ _ _ Hk) as HF.
      destruct (Pb r (b, r) 1 (conj HI HPw) (ev_pl_stop b r Ht)) as (u0 & r0 & H1 & H2).
      pose proof (ev_prod _ _ _ _ _ _ H1 H2) as Hb.
      pose proof (ev_sl_plus a _ _ _ _ _ _ Hb Hk) as Hl.
      destruct (Sa (TPlus :: print_at 1 b ++ r) x _ ltac:(repeat split; reflexivity) Hl) as (p0 & r1 & H3 & H4).
      exists p0, r1. simpl print_at. simpl paren. rewrite <- app_assoc. simpl.
      rewrite app_length. simpl length.
      split; (eapply ev_weaken; [eassumption | lia]). }
    (split; [|split; [|split]]); try assumption.
    + apply low_prod; [reflexivity | exact HS].
    + apply low_un; [reflexivity | exact HS].
    + apply low_pw; [reflexivity | exact HS].
  - (* Sub *)
    destruct IHa as (Sa & _). destruct IHb as (_ & Pb & _).
    assert (HS : MSum (Sub a b)).
    { intros r x F [[HI HPw] Ht] Hk.
      pose proof (ev_pos_sum_loop _ _ _ _ Hk) as HF.
      destruct (Pb r (b, r) 1 (conj HI HPw) (ev_pl_stop b r Ht)) as (u0 & r0 & H1 & H2).
      pose proof (ev_prod _ _ _ _ _ _ H1 H2) as Hb.
      pose proof (ev_sl_minus a _ _ _ _ _ _ Hb Hk) as Hl.
      destruct (Sa (TMinus :: print_at 1 b ++ r) x _ ltac:(repeat split; reflexivity) Hl) as (p0 & r1 & H3 & H4).
      exists p0, r1. simpl print_at. simpl paren. rewrite <- app_assoc. simpl.
      rewrite app_length. simpl length.
      split; (eapply ev_weaken; [eassumption | lia]). }
    (split; [|split; [|split]]); try assumption.
    + apply low_prod; [reflexivity | exact HS].
    + apply low_un; [reflexivity | exact HS].
    + apply low_pw; [reflexivity | exact HS].
  - (* Mul *)
    destruct IHa as (_ & Pa & _). destruct IHb as (_ & _ & Ub & _).
    assert (HP : MProd (Mul a b)).
    { intros r x F HC1 Hk.
      pose proof (ev_pos_prod_loop _ _ _ _ Hk) as HF.
      pose proof (ev_pl_times a _ _ _ _ _ _ (Ub r HC1) Hk) as Hl.
      destruct (Pa (TTimes :: print_at 2 b ++ r) x _ ltac:(repeat split; reflexivity) Hl) as (u0 & r1 & H3 & H4).
      exists u0, r1. simpl print_at. simpl paren. rewrite <- app_assoc. simpl.
      rewrite app_length. simpl length.
      split; (eapply ev_weaken; [eassumption | lia]). }
    assert (HS : MSum (Mul a b)) by (apply up_sum; [reflexivity | exact HP]).
    (split; [|split; [|split]]); try assumption.
    + apply low_un; [reflexivity | exact HS].
    + apply low_pw; [reflexivity | exact HS].
  - (* Neg *)
    destruct IHa as (_ & _ & Ua & _).
    assert (HU : MUn (Neg a)).
    { intros r HC1. simpl print_at. simpl paren. simpl.
      eapply ev_weaken; [apply ev_un_neg; apply Ua; exact HC1 | lia]. }
    assert (HP : MProd (Neg a)) by (apply up_prod; [reflexivity | exact HU]).
    assert (HS : MSum (Neg a)) by (apply up_sum; [reflexivity | exact HP]).
    (split; [|split; [|split]]); try assumption.
    apply low_pw; [reflexivity | exact HS].
  - (* Pow *)
    destruct IHa as (_ & _ & _ & Wa).
    assert (HW : MPw (Pow a k)).
    { intros r x F HI Hk.
      assert (Hk' : Ev (fun f => pow_loop f (Pow a (N.to_nat (N.of_nat k))) r) F x) by (rewrite Nat2N.id; exact Hk).
      pose proof (ev_wl_pow a _ _ _ _ Hk') as Hl.
      destruct (Wa (TPow :: TNum (N.of_nat k) 1 true :: r) x _ ltac:(reflexivity) Hl) as (Hs & a0 & r0 & H1 & H2).
      simpl print_at. simpl paren. rewrite <- app_assoc. simpl.
      split; [exact Hs|]. exists a0, r0. rewrite app_length. simpl length.
      split; (eapply ev_weaken; [eassumption | lia]). }
    assert (HU : MUn (Pow a k)) by (apply up_un; [reflexivity | exact HW]).
    assert (HP : MProd (Pow a k)) by (apply up_prod; [reflexivity | exact HU]).
    (split; [|split; [|split]]); try assumption. apply up_sum; [reflexivity | exact HP].
Qed.

Theorem parse_ref_print_min : forall e, parse_ref (print e) = Some e.
Proof.
  intros e. destruct (all_levels e) as (HS & _).
  destruct (HS [] (e, []) 1 ltac:(repeat split; reflexivity) (ev_sl_stop e [] eq_refl eq_refl)) as (p0 & r0 & H1 & H2).
  rewrite app_nil_r in H1.
  pose proof (ev_sum _ _ _ _ _ _ H1 H2) as H.
  unfold parse_ref, parse_fuel, print. rewrite H; [reflexivity | lia].
Qed.
