(* C11 -- the pipeline with the generated scanner: the rules read from tokenizer.l are the rules this
   development is about ([lexer_shape]); every token the generated scanner hands to the parser carries a
   payload consistent with its name ([glex_ok]); hence the theorems about bison's table apply and the
   property holds for [run_gen] (flex rules -> bison's table -> grammar actions), for strings of any length. *)
Require Import List Ascii String Bool Arith NArith Lia.
Require Import MPSV.Inline.InlineModel MPSV.Inline.InlineDecl MPSV.Inline.InlineGrammar MPSV.Inline.InlineLR
               MPSV.Inline.InlineLRSound MPSV.Inline.Gen.AutomatonGen MPSV.Inline.InlineLRComplete MPSV.Inline.InlineLRAll
               MPSV.Inline.InlineSound MPSV.Inline.InlineFormalCoeff
               MPSV.Inline.LexModel MPSV.Inline.LexSpec MPSV.Inline.Gen.LexerGen MPSV.Inline.LexPipeline.
Import ListNotations.
Open Scope string_scope.
Open Scope list_scope.

(* Any edit of tokenizer.l that changes the language of a pattern, the order of the rules, the token a rule
   returns or whether it stores the text breaks this lemma and everything below it. *)
Lemma lexer_shape : lexer_gen = expected_lexer.
Proof. reflexivity. Qed.

Lemma simple_token_ok : forall nm t, simple_token nm = Some t -> tok_ok nm t.
Proof.
  intros nm t H. unfold simple_token in H.
  repeat match type of H with
  | (if ?n =? ?k then _ else _) = _ => destruct (String.eqb_spec n k); [inversion H; subst; reflexivity|]
  end. discriminate.
Qed.

Lemma conv_token_ok : forall rt y, conv_token rt = Some (Some y) -> ytok_ok y.
Proof.
  intros rt y H. destruct rt as [nm keeps text|c|t|w]; simpl in H; try discriminate.
  destruct ((nm =? "RATIONAL") || (nm =? "FLOATING_POINT")).
  - destruct keeps; [|discriminate].
    destruct (lex_number text) as [[t [|x r]]|] eqn:L; try discriminate.
    destruct (String.eqb_spec (number_name text) nm) as [E|]; [|discriminate].
    inversion H; subst. unfold ytok_ok. simpl. eapply lex_number_ok. exact L.
  - destruct (String.eqb_spec nm "MONOMIAL").
    + destruct keeps; [|discriminate]. inversion H; subst. reflexivity.
    + destruct (simple_token nm) as [t|] eqn:S; [|discriminate]. inversion H; subst.
      unfold ytok_ok. simpl. apply simple_token_ok. exact S.
Qed.

Lemma conv_all_ok : forall rts ys, conv_all rts = Some ys -> Forall ytok_ok ys.
Proof.
  induction rts as [|rt r IH]; intros ys H; simpl in H.
  - inversion H. constructor.
  - destruct (conv_token rt) as [[y|]|] eqn:C; try discriminate;
    destruct (conv_all r) as [ys'|]; try discriminate; inversion H; subst.
    + constructor; [eapply conv_token_ok; exact C | apply IH; reflexivity].
    + apply IH; reflexivity.
Qed.

Lemma glex_ok : forall s ys, glex s = Some ys -> Forall ytok_ok ys.
Proof.
  intros s ys H. unfold glex, glex_with in H.
  destruct (tokenize (with_default lexer_gen) (list_ascii_of_string s)); [|discriminate].
  eapply conv_all_ok. exact H.
Qed.

(* the scanner is total: it never gets stuck (flex's default rule) *)
Lemma raw_tokens_total : forall s, exists rts, raw_tokens_string s = Some rts.
Proof. intro s. apply tokenize_total. Qed.

(* ------------------------------------------------------------------ the property for the generated pipeline *)
Theorem run_gen_sound : forall s cs, run_gen automaton_gen s = Some cs ->
  exists ys e, glex s = Some ys /\ d_sum (map snd ys) e /\ cs = stored (denote e).
Proof.
  intros s cs H. unfold run_gen in H. destruct (glex s) as [ys|] eqn:G; [|discriminate].
  destruct (lr_run automaton_gen ys) as [e| | |] eqn:R; try discriminate. inversion H; subst cs.
  exists ys, e. split; [reflexivity|]. split; [|apply fp_denote_coeffs].
  apply (yacc_iff ys e (glex_ok _ _ G)). exact R.
Qed.

Theorem run_gen_complete : forall s ys e, glex s = Some ys -> d_sum (map snd ys) e ->
  run_gen automaton_gen s = Some (stored (denote e)).
Proof.
  intros s ys e G D. unfold run_gen. rewrite G.
  rewrite (proj2 (yacc_iff ys e (glex_ok _ _ G)) D). rewrite fp_denote_coeffs. reflexivity.
Qed.

Corollary run_gen_rejects_illformed : forall s ys, glex s = Some ys -> ~ well_formed (map snd ys) -> run_gen automaton_gen s = None.
Proof.
  intros s ys G Hn. destruct (run_gen automaton_gen s) as [cs|] eqn:E; [|reflexivity].
  destruct (run_gen_sound _ _ E) as (ys' & e & G' & D & _). rewrite G in G'. inversion G'; subst ys'.
  exfalso. apply Hn. exists e. exact D.
Qed.
Corollary run_gen_rejects_unlexable : forall s, glex s = None -> run_gen automaton_gen s = None.
Proof. intros s G. unfold run_gen. rewrite G. reflexivity. Qed.

(* ------------------------------------------------------------------ flex's default rule is unreachable *)
(* With the catch-all rule `.|\n` every byte is matched by a rule of the file, which comes before the default rule:
   the scanner never ECHOes.  (With the catch-all `.` a newline falls through: [newline_falls_through].) *)
Lemma catch_all_matches : forall c, matches (RCls false [(0, 255)%N]) [c].
Proof. intro c. constructor. destruct c as [[] [] [] [] [] [] [] []]; reflexivity. Qed.

Lemma cls_match_length : forall neg rs s, matches (RCls neg rs) s -> length s = 1.
Proof. intros neg rs s H. inversion H; reflexivity. Qed.

Lemma echo_only_default : forall i r, nth_error (with_default expected_lexer) i = Some (r, AEcho) -> i = 12.
Proof.
  intros i r H. do 13 (destruct i as [|i]; [simpl in H; try discriminate H; try reflexivity|]).
  simpl in H. destruct i; discriminate.
Qed.

Theorem expected_never_echoes : forall l out, tokenize (with_default expected_lexer) l = Some out -> forall t, ~ In (REcho t) out.
Proof.
  intros l out H. apply tokenize_iff in H.
  induction H as [|s i n r a out Hne C E _ IH]; intros t Hin; [exact Hin|].
  apply in_app_or in Hin. destruct Hin as [Hin|Hin]; [|exact (IH t Hin)].
  destruct a as [nm k| | | |w]; simpl in Hin.
  - destruct Hin as [Hin|[]]; discriminate.
  - destruct (firstn n s); [exact Hin | destruct Hin as [Hin|[]]; discriminate].
  - exact Hin.
  - apply echo_only_default in E. subst i.
    destruct C as (Ln & (r' & E' & M) & F & _). simpl in E'. inversion E'; subst r'.
    pose proof (cls_match_length _ _ _ M) as L1.
    apply (F 11); [lia|]. exists (RCls false [(0, 255)%N]). split; [reflexivity|].
    destruct (firstn n s) as [|c [|]]; try discriminate. apply catch_all_matches.
  - destruct Hin as [Hin|[]]; discriminate.
Qed.
