(* C01 - the disc invariant of the solver skeleton (proofs). *)
From mathcomp Require Import all_ssreflect all_algebra.
Require Import MPSV.Roots.NewtonDisc MPSV.Skel.SkelDefs.
Set Implicit Arguments. Unset Strict Implicit. Unset Printing Implicit Defensive.
Import Order.TTheory GRing.Theory Num.Theory.
Local Open Scope ring_scope.

Section SkelProofs.
Variable C : numClosedFieldType.
Implicit Types (p : {poly C}) (z w c r e : C) (st : state C) (a : approx C).

(* Aberth update: the centre moves by c, the radius grows by |c| *)
Lemma move_and_enlarge z w c r : `|z - w| <= r -> `|(z - c) - w| <= r + `|c|.
Proof.
move=> H; have -> : z - c - w = (z - w) + (- c) by rewrite addrAC.
by apply: le_trans (ler_norm_add _ _) _; rewrite normrN ler_add.
Qed.

Lemma enlarge z w r e : 0 <= e -> `|z - w| <= r -> `|z - w| <= r + e.
Proof. by move=> e0 H; apply: le_trans H _; rewrite ler_addl. Qed.

(* a radius meeting the Newton contract is an inclusion radius *)
Lemma newton_radius_establishes p z r :
  p != 0 -> newton_ok p z r -> exists2 w, root p w & `|z - w| <= r.
Proof.
move=> pn0 /andP [dn0 le_r].
have [w rw Hw] := newton_disc pn0 dn0.
by exists w => //; apply: le_trans Hw le_r.
Qed.

Lemma improve_radius_ok z w c r k :
  `|z - w| <= r -> `|(z - c) - w| <= improve_radius r c (z - c) k.
Proof.
move=> H; rewrite /improve_radius; apply: enlarge; last exact: move_and_enlarge.
by rewrite mulr_ge0 ?normr_ge0 // mulr_ge0 ?ler0n // invr_ge0 exprn_ge0 // ler0n.
Qed.

(* upd *)
Lemma size_upd st i f : size (upd st i f) = size st.
Proof.
rewrite /upd; case: ifP => // lt_i; rewrite size_set_nth.
by apply/maxn_idPr.
Qed.

Lemma nth_upd st i f j :
  nth (dflt C) (upd st i f) j =
  if (j == i) && (i < size st)%N then f (nth (dflt C) st i) else nth (dflt C) st j.
Proof.
rewrite /upd; case: ifP => lt_i; last by rewrite andbF.
by rewrite nth_set_nth /= andbT; case: eqP.
Qed.

Lemma inv_upd p st i f :
  inv p st -> ((i < size st)%N -> good p (nth (dflt C) st i) -> good p (f (nth (dflt C) st i))) ->
  inv p (upd st i f).
Proof.
move=> Hinv Hf j; rewrite size_upd nth_upd => lt_j.
case: ifP => [/andP [_ lt_i]|_]; last exact: Hinv.
by apply: Hf => //; apply: Hinv.
Qed.

Lemma keep_min_cases (old : option C) r :
  keep_min old r = r \/ (old = Some (keep_min old r)).
Proof.
rewrite /keep_min; case: old => [r1|]; last by left.
by case: ifP => _; [right | left].
Qed.

(* one enabled step keeps the invariant *)
Lemma step_inv p st s : p != 0 -> inv p st -> step_ok p st s -> inv p (apply_step st s).
Proof.
move=> pn0 Hinv; case: s => [i r|i r|i c|i e|i r c k|i s] /= ok; apply: inv_upd => // lt_i Hg r0 /=.
- (* Newton: established from the contract alone *)
  move=> [<-]; apply: newton_radius_establishes => //.
  by move: ok; rewrite lt_i.
- (* keep the smaller of the old (valid for the same centre) and the new radius *)
  move=> [<-]; case: (keep_min_cases (rad (nth (dflt C) st i)) r) => [->|Hold].
    by apply: newton_radius_establishes => //; move: ok; rewrite lt_i.
  exact: Hg Hold.
- (* Aberth *)
  case Hr: (rad _) => [r1|] //= [<-].
  have [w rw Hw] := Hg _ Hr.
  by exists w => //; apply: move_and_enlarge.
- (* rounding allowance *)
  case Hr: (rad _) => [r1|] //= [<-].
  have [w rw Hw] := Hg _ Hr.
  by exists w => //; apply: enlarge.
- (* improve_root *)
  move=> [<-].
  have [|w rw Hw] := @newton_radius_establishes p (ctr (nth (dflt C) st i)) r pn0.
    by move: ok; rewrite lt_i.
  by exists w => //; apply: improve_radius_ok.
(* status bookkeeping does not touch the disc: that goal is closed by `//` above *)
Qed.

Theorem disc_invariant p st ss :
  p != 0 -> inv p st -> valid_run p st ss -> inv p (foldl (@apply_step C) st ss).
Proof.
move=> pn0; elim: ss st => [|s ss IH] st //= Hinv /andP [ok oks].
by apply: IH => //; apply: step_inv.
Qed.

Lemma inv_init p zs : inv p (init zs).
Proof.
move=> i; rewrite size_map => lt_i r.
by rewrite (nth_map 0) //=.
Qed.

Corollary disc_invariant_from_start p zs ss :
  p != 0 -> valid_run p (init zs) ss -> inv p (foldl (@apply_step C) (init zs) ss).
Proof. by move=> pn0; apply: disc_invariant => //; apply: inv_init. Qed.

(* the discs handed out when every radius is finite *)
Lemma discs_good p st d :
  inv p st -> d \in discs st -> all (fun a => rad a) st -> exists2 w, root p w & `|d.1 - w| <= d.2.
Proof.
move=> Hinv /(nthP (0, 0)) [i]; rewrite size_map => lt_i <- /all_nthP Hall.
rewrite (nth_map (dflt C)) //=.
have := Hall (dflt C) i lt_i; case Hr: (rad _) => [r|] // _.
exact: Hinv Hr.
Qed.

End SkelProofs.
