(* C01 - soundness of the event-trace acceptor (Skel/TraceDefs.v) over the real numbers. *)
Require Import QArith Qreals Reals List Bool Lra Psatz.
Require Import MPSV.Skel.TraceDefs.
Import ListNotations.
Local Open Scope R_scope.

(* a point of the plane (a complex number as a pair of reals) lies in the closed disc *)
Definition in_disc (d : disc) (w : R * R) : Prop :=
  0 <= Q2R (crad d) /\
  (Q2R (cre d) - fst w) * (Q2R (cre d) - fst w) + (Q2R (cim d) - snd w) * (Q2R (cim d) - snd w)
  <= Q2R (crad d) * Q2R (crad d).

(* the disc contains a point of the set Root (for the check: the roots of the input equation) *)
Definition holds (Root : R * R -> Prop) (d : disc) : Prop := exists w, Root w /\ in_disc d w.

Lemma Q2R_sq x : Q2R (sq x) = Q2R x * Q2R x.
Proof. unfold sq; apply Q2R_mult. Qed.

Lemma cauchy2 a1 a2 b1 b2 r s :
  0 <= r -> 0 <= s -> a1 * a1 + a2 * a2 <= r * r -> b1 * b1 + b2 * b2 <= s * s ->
  a1 * b1 + a2 * b2 <= r * s.
Proof.
  intros Hr Hs Ha Hb.
  assert (H1 : (a1 * b1 + a2 * b2) * (a1 * b1 + a2 * b2) <= (a1 * a1 + a2 * a2) * (b1 * b1 + b2 * b2)).
  { assert (0 <= (a1 * b2 - a2 * b1) * (a1 * b2 - a2 * b1)) by apply Rle_0_sqr.
    replace ((a1 * a1 + a2 * a2) * (b1 * b1 + b2 * b2))
      with ((a1 * b1 + a2 * b2) * (a1 * b1 + a2 * b2) + (a1 * b2 - a2 * b1) * (a1 * b2 - a2 * b1)) by ring.
    lra. }
  assert (Ha0 : 0 <= a1 * a1 + a2 * a2).
  { assert (0 <= a1 * a1) by apply Rle_0_sqr. assert (0 <= a2 * a2) by apply Rle_0_sqr. lra. }
  assert (Hb0 : 0 <= b1 * b1 + b2 * b2).
  { assert (0 <= b1 * b1) by apply Rle_0_sqr. assert (0 <= b2 * b2) by apply Rle_0_sqr. lra. }
  assert (H2 : (a1 * a1 + a2 * a2) * (b1 * b1 + b2 * b2) <= (r * r) * (s * s)).
  { apply Rmult_le_compat; assumption. }
  set (x := a1 * b1 + a2 * b2) in *.
  assert (Hrs : 0 <= r * s) by (apply Rmult_le_pos; assumption).
  destruct (Rle_or_lt x (r * s)) as [|Hlt]; [assumption|exfalso].
  assert (r * s * (r * s) < x * x).
  { apply Rle_lt_trans with (r * s * x).
    - apply Rmult_le_compat_l; lra.
    - apply Rmult_lt_compat_r; lra. }
  replace (r * r * (s * s)) with (r * s * (r * s)) in H2 by ring.
  lra.
Qed.

(* the decision procedure is sound: incl d d' -> the closed disc d is a subset of the closed disc d' *)
Lemma incl_sound d d' : incl d d' = true -> forall w, in_disc d w -> in_disc d' w.
Proof.
  unfold incl; intros H w [Hr0 Hin].
  apply andb_true_iff in H; destruct H as [Hle Hd].
  apply Qle_bool_iff in Hle; apply Qle_Rle in Hle.
  apply Qle_bool_iff in Hd; apply Qle_Rle in Hd.
  unfold dist2 in Hd; rewrite Q2R_plus, !Q2R_sq, !Q2R_minus in Hd.
  set (r := Q2R (crad d)) in *; set (r' := Q2R (crad d')) in *.
  set (a1 := Q2R (cre d) - fst w) in *; set (a2 := Q2R (cim d) - snd w) in *.
  set (b1 := Q2R (cre d') - Q2R (cre d)) in *; set (b2 := Q2R (cim d') - Q2R (cim d)) in *.
  unfold in_disc; fold r'.
  split; [lra|].
  replace (Q2R (cre d') - fst w) with (a1 + b1) by (unfold a1, b1; ring).
  replace (Q2R (cim d') - snd w) with (a2 + b2) by (unfold a2, b2; ring).
  assert (Hs : 0 <= r' - r) by lra.
  pose proof (cauchy2 a1 a2 b1 b2 r (r' - r) Hr0 Hs Hin Hd) as Hc.
  replace ((a1 + b1) * (a1 + b1) + (a2 + b2) * (a2 + b2))
    with ((a1 * a1 + a2 * a2) + (b1 * b1 + b2 * b2) + 2 * (a1 * b1 + a2 * b2)) by ring.
  replace (r' * r') with (r * r + (r' - r) * (r' - r) + 2 * (r * (r' - r))) by ring.
  lra.
Qed.

Lemma incl_holds Root d d' : incl d d' = true -> holds Root d -> holds Root d'.
Proof. intros H [w [Hw Hin]]; exists w; split; [assumption|eapply incl_sound; eassumption]. Qed.

Lemma classify_not_fresh_incl prev o d :
  disc_of o = Some d -> is_fresh (classify prev o) = false -> exists p, prev = Some p /\ incl p d = true.
Proof.
  unfold classify; intros Hd; rewrite Hd.
  destruct prev as [p|]; [|discriminate].
  destruct (incl p d) eqn:Hi; [|discriminate].
  intros _; exists p; split; [reflexivity|exact Hi].
Qed.

(* the invariant of the walk: if the disc held before holds (when there is one) and every obligation holds, every
   claimed disc holds *)
Lemma walk_sound Root tr : forall prev,
  (forall p, prev = Some p -> holds Root p) ->
  Forall (holds Root) (obligations prev tr) -> Forall (holds Root) (claims tr).
Proof.
  induction tr as [|o t IH]; intros prev Hprev Hob; [constructor|].
  unfold obligations in Hob; simpl in Hob. unfold claims; simpl.
  destruct (disc_of o) as [d|] eqn:Hd.
  - assert (Hd_holds : holds Root d).
    { destruct (is_fresh (classify prev o)) eqn:Hf.
      + simpl in Hob. inversion Hob; assumption.
      + destruct (classify_not_fresh_incl prev o d Hd Hf) as [p [Hp Hi]].
        eapply incl_holds; [exact Hi|apply Hprev; exact Hp]. }
    simpl. constructor; [exact Hd_holds|].
    apply (IH (Some d)).
    + intros p Hp; inversion Hp; subst; exact Hd_holds.
    + destruct (is_fresh (classify prev o)); simpl in Hob; [inversion Hob; assumption|exact Hob].
  - simpl. apply (IH None); [intros p Hp; discriminate|].
    destruct (is_fresh (classify prev o)); simpl in Hob; exact Hob.
Qed.

Theorem trace_sound Root tr :
  Forall (holds Root) (obligations None tr) -> Forall (holds Root) (claims tr).
Proof. apply walk_sound; intros p Hp; discriminate. Qed.

(* the acceptor invents nothing: every obligation is one of the observed discs (so the converse of trace_sound holds
   as well: the obligations are exactly as strong as the claims) *)
Lemma obligations_observed tr : forall prev d, In d (obligations prev tr) -> In d (claims tr).
Proof.
  induction tr as [|o t IH]; intros prev d Hin; [exact Hin|].
  unfold obligations in Hin; simpl in Hin. unfold claims; simpl.
  apply in_app_or in Hin; apply in_or_app.
  destruct Hin as [Hin|Hin].
  - left. destruct (is_fresh (classify prev o)); [|destruct Hin].
    destruct (disc_of o); exact Hin.
  - right. exact (IH _ _ Hin).
Qed.

Corollary trace_sound_iff Root tr :
  Forall (holds Root) (obligations None tr) <-> Forall (holds Root) (claims tr).
Proof.
  split; [apply trace_sound|].
  intros H; apply Forall_forall; intros d Hd.
  rewrite Forall_forall in H; apply H; eapply obligations_observed; exact Hd.
Qed.

(* improve_root: a step accepted by improve_step_ok carries the claim of the Newton disc over to the final disc *)
Theorem improve_step_sound Root dN dF : improve_step_ok dN dF = true -> holds Root dN -> holds Root dF.
Proof. apply incl_holds. Qed.

(* the number of obligations never exceeds the number of claims, and a trace that only moves-and-enlarges after its
   first claim has exactly one obligation *)
Lemma obligations_le_claims tr : forall prev, (length (obligations prev tr) <= length (claims tr))%nat.
Proof.
  induction tr as [|o t IH]; intros prev; [apply le_n|].
  unfold obligations; simpl; unfold claims; simpl.
  rewrite !app_length.
  apply Nat.add_le_mono; [|apply IH].
  destruct (is_fresh (classify prev o)); destruct (disc_of o); simpl; auto.
Qed.
