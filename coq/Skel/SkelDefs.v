(* C01 - solver skeleton: the part of MPSolve that decides WHAT IS CLAIMED about each root
   (centre, inclusion radius, status), with the numerical work abstracted into an oracle.

   Definitions only.  One approximation = (centre, radius or "not finite: no claim", status).
   A step is one of the writes the solver performs on these fields:

   SNewton i r        monomial/newton.c mps_{f,d,m}newton, secular/secular-newton.c: the radius of root i
                      is replaced by a freshly computed radius r.  Contract (checked per run by the
                      oracle, proved nowhere): r >= n |p(z)/p'(z)| at the CURRENT centre z, p'(z) <> 0.
   SNewtonKeep i r    unisolve/solve.c mps_{f,d,m}polzer, `iter == 0 && !again && rad > rad1 && rad1 != 0`
                      and newton.c `if (rnew < drad) drad = rnew`: a radius is computed at an unchanged
                      centre and the smaller of the old (non-zero) and the new one is kept.
   SAberth i c        polzer: `value -= abcorr; rad += |abcorr|`.
   SEnlarge i e       rounding allowances added to a radius (`drad += 4 eps |z|`), e >= 0.
   SImprove i r c k   common/improve.c improve_root: Newton radius r at the old point, value -= c,
                      rad += |c|, rad += 4 * 2^-k * |new value|.
   SStatus i s        common/modify.c, cluster analysis: status bookkeeping (never touches a disc).  *)
From mathcomp Require Import all_ssreflect all_algebra.
Set Implicit Arguments. Unset Strict Implicit. Unset Printing Implicit Defensive.
Import Order.TTheory GRing.Theory Num.Theory.
Local Open Scope ring_scope.

Inductive rstatus :=
  NewClustered | Clustered | Isolated | Approximated | ApproximatedInCluster | NotFloat | NotDpe | Multiple.

Section SkelDefs.
Variable C : numClosedFieldType.

Record approx := Approx { ctr : C; rad : option C; stat : rstatus }.
Definition state := seq approx.
Definition dflt := Approx 0 None NewClustered.

Inductive step :=
| SNewton of nat & C
| SNewtonKeep of nat & C
| SAberth of nat & C
| SEnlarge of nat & C
| SImprove of nat & C & C & nat
| SStatus of nat & rstatus.

(* the Newton contract: what the numerical kernels are trusted (and validated per run) to deliver *)
Definition newton_ok (p : {poly C}) (z r : C) : bool :=
  (p^`().[z] != 0) && ((size p).-1%:R * `|p.[z] / p^`().[z]| <= r).

Definition upd (st : state) (i : nat) (f : approx -> approx) : state :=
  if (i < size st)%N then set_nth dflt st i (f (nth dflt st i)) else st.

(* polzer, iter == 0: the older radius is kept when it is smaller and not zero *)
Definition keep_min (old : option C) (r : C) : C :=
  if old is Some r1 then (if (r1 < r) && (r1 != 0) then r1 else r) else r.

Definition improve_radius (r corr z' : C) (prec : nat) : C :=
  r + `|corr| + 4%:R * 2%:R ^- prec * `|z'|.

Definition apply_step (st : state) (s : step) : state :=
  match s with
  | SNewton i r => upd st i (fun a => Approx (ctr a) (Some r) (stat a))
  | SNewtonKeep i r => upd st i (fun a => Approx (ctr a) (Some (keep_min (rad a) r)) (stat a))
  | SAberth i c => upd st i (fun a => Approx (ctr a - c) (omap (fun r => r + `|c|) (rad a)) (stat a))
  | SEnlarge i e => upd st i (fun a => Approx (ctr a) (omap (fun r => r + e) (rad a)) (stat a))
  | SImprove i r c k =>
      upd st i (fun a => Approx (ctr a - c) (Some (improve_radius r c (ctr a - c) k)) (stat a))
  | SStatus i s => upd st i (fun a => Approx (ctr a) (rad a) s)
  end.

(* a step is enabled when the oracle-supplied radius meets the contract at the current centre *)
Definition step_ok (p : {poly C}) (st : state) (s : step) : bool :=
  match s with
  | SNewton i r | SNewtonKeep i r | SImprove i r _ _ =>
      (i < size st)%N ==> newton_ok p (ctr (nth dflt st i)) r
  | SEnlarge _ e => 0 <= e
  | SAberth _ _ | SStatus _ _ => true
  end.

Fixpoint valid_run (p : {poly C}) (st : state) (ss : seq step) : bool :=
  if ss is s :: t then step_ok p st s && valid_run p (apply_step st s) t else true.

(* what a stored pair claims: a finite radius claims a root of p in the closed disc *)
Definition good (p : {poly C}) (a : approx) : Prop :=
  forall r, rad a = Some r -> exists2 w, root p w & `|ctr a - w| <= r.

Definition inv (p : {poly C}) (st : state) : Prop :=
  forall i, (i < size st)%N -> good p (nth dflt st i).

(* the state the solver starts from: starting points, no radius claimed yet *)
Definition init (zs : seq C) : state := [seq Approx z None Clustered | z <- zs].

(* the discs handed out (meaningful when every radius is finite) *)
Definition discs (st : state) : seq (C * C) := [seq (ctr a, odflt 0 (rad a)) | a <- st].

End SkelDefs.
