(* C01 - "a disc reported isolated/approximated contains exactly one root":
   (1) all discs pairwise disjoint (every cluster a singleton): from isolate_by_count;
   (2) mixed configuration (some clusters of size > 1): pigeonhole over the multiset of roots, GIVEN the
       component-count half of Gerschgorin's theorem for the rest (hypothesis, not proved here). *)
From mathcomp Require Import all_ssreflect all_algebra.
From mathcomp Require Import polyorder.
Require Import MPSV.Roots.Isolate MPSV.Skel.SkelDefs MPSV.Skel.SkelProofs.
Set Implicit Arguments. Unset Strict Implicit. Unset Printing Implicit Defensive.
Import Order.TTheory GRing.Theory Num.Theory.
Local Open Scope ring_scope.

Section IsolatedOne.
Variable C : numClosedFieldType.
Implicit Types (p : {poly C}) (st : state C) (d e : C * C) (z w : C) (rs : seq C).

Theorem isolated_exactly_one p st :
  p != 0 -> inv p st -> all (fun a => rad a) st -> size st = (size p).-1 ->
  pairwise (@disjoint C) (discs st) ->
  (forall d, d \in discs st ->
     exists z, [/\ root p z, in_disc d z, \mu_z p = 1%N & forall w, root p w -> in_disc d w -> w = z])
  /\ (forall w, root p w -> exists2 d, d \in discs st & in_disc d w).
Proof.
move=> pn0 Hinv fin sz pw.
have [||H1 H2] := @isolate_by_count C p (discs st) pn0 _ pw; rewrite ?size_map //.
by move=> d din; apply: (discs_good Hinv din fin).
Qed.

(* ---- mixed configuration ---- *)
Definition in_some (ds : seq (C * C)) : pred C := fun z => has (fun d => in_disc d z) ds.

Lemma sum_count_disjoint (ds : seq (C * C)) rs :
  pairwise (@disjoint C) ds ->
  (\sum_(d <- ds) count (in_disc d) rs = count (in_some ds) rs)%N.
Proof.
elim: ds => [|d ds IH] /=.
  by move=> _; rewrite big_nil; elim: rs => //= z rs <-.
move=> /andP [dall pw]; rewrite big_cons IH //.
have -> : count (in_some (d :: ds)) rs = count (predU (in_disc d) (in_some ds)) rs by apply: eq_count.
rewrite -count_predUI.
suff -> : count (predI (in_disc d) (in_some ds)) rs = 0%N by rewrite addn0.
apply/eqP; rewrite -leqn0 -(count_pred0 rs); apply: sub_count => z /= /andP [dz /hasP [e ein ez]].
have dj := allP dall e ein.
by have := disjoint_neq dj dz ez; rewrite eqxx.
Qed.

Lemma sum_ge1_le_size (T : eqType) (s : seq T) (f : T -> nat) :
  (forall x, x \in s -> 0 < f x)%N -> (\sum_(x <- s) f x <= size s)%N -> forall x, x \in s -> f x = 1%N.
Proof.
elim: s => [|y s IH] //= pos; rewrite big_cons => le x.
have y0 : (0 < f y)%N by apply: pos; rewrite mem_head.
have poss : forall x, x \in s -> (0 < f x)%N by move=> u uin; apply: pos; rewrite inE uin orbT.
have ges : (size s <= \sum_(j <- s) f j)%N.
  elim: s poss {IH pos le} => [|u s IH] poss; first by rewrite big_nil.
  rewrite big_cons /=; have := poss u (mem_head _ _).
  have := IH (fun v (vin : v \in s) => poss v (@mem_behead _ (u :: s) v vin)).
  by case: (f u) => // k; rewrite addSn ltnS => le _; apply: leq_trans le (leq_addl _ _).
have fy1 : f y = 1%N.
  apply/eqP; rewrite eqn_leq y0 andbT.
  by rewrite -(leq_add2r (\sum_(j <- s) f j)) (leq_trans le) // add1n ltnS.
have les : (\sum_(j <- s) f j <= size s)%N by move: le; rewrite fy1 add1n ltnS.
by rewrite inE => /orP [/eqP -> //|xin]; apply: IH.
Qed.

(* iso: the discs reported isolated/approximated, pairwise disjoint and disjoint from the region U covered by the
   other (clustered) discs; each holds a root; the clustered part holds at least as many roots (with
   multiplicity) as it has discs: size rs - size iso.  Then each isolated disc holds exactly one root. *)
Theorem isolated_exactly_one_mixed (iso : seq (C * C)) (U : pred C) rs :
  pairwise (@disjoint C) iso ->
  (forall d z, d \in iso -> in_disc d z -> ~~ U z) ->
  (forall d, d \in iso -> has (in_disc d) rs) ->
  (size rs <= size iso + count U rs)%N ->
  forall d, d \in iso -> count (in_disc d) rs = 1%N.
Proof.
move=> pw sep nonempty comp.
apply: sum_ge1_le_size => [d din|]; first by rewrite -has_count; apply: nonempty.
rewrite sum_count_disjoint //.
have : (count (in_some iso) rs + count U rs <= size rs)%N.
  rewrite -(count_predUI) -[X in (_ <= X)%N]addn0; apply: leq_add; first exact: count_size.
  rewrite leqn0 -(count_pred0 rs); apply/eqP; apply: eq_in_count => z _ /=.
  by apply/negP => /andP [/hasP [d din dz]]; apply/negP; apply: sep din dz.
move=> le; rewrite -(leq_add2r (count U rs)); exact: leq_trans le comp.
Qed.

End IsolatedOne.
