(* C01 - the count identity under deflation (context.c mps_context_set_input_poly /
   mps_monomial_poly_deflate: the k lowest coefficients, all zero, are stripped and zero_roots := k). *)
From mathcomp Require Import all_ssreflect all_algebra.
From mathcomp Require Import polyorder zify.
Set Implicit Arguments. Unset Strict Implicit. Unset Printing Implicit Defensive.
Import Order.TTheory GRing.Theory Num.Theory.
Local Open Scope ring_scope.

Section Deflate.
Variable C : numClosedFieldType.
Implicit Types (p q : {poly C}) (k : nat) (z : C).

Lemma horner0_neq0 q : q.[0] != 0 -> q != 0.
Proof. by apply: contraNneq => ->; rewrite horner0. Qed.

Lemma deflate_neq0 p q k : p = 'X^k * q -> q.[0] != 0 -> p != 0.
Proof. by move=> -> /horner0_neq0 q0; rewrite mulf_neq0 ?expf_neq0 ?polyX_eq0. Qed.

(* degree: n_returned (= deg q) + zero_roots (= k) = degree of the input *)
Lemma deflate_size p q k : p = 'X^k * q -> q.[0] != 0 -> (size p).-1 = ((size q).-1 + k)%N.
Proof.
move=> Hp /horner0_neq0 qn0.
rewrite Hp size_mul ?expf_neq0 ?polyX_eq0 // size_polyXn.
move: qn0; rewrite -size_poly_gt0; move: (size q) => n n0.
by case: n n0 => // n _; rewrite addSn addnS /= addnC.
Qed.

Lemma X_XsubC0 : 'X = 'X - (0 : C)%:P.
Proof. by rewrite subr0. Qed.

(* the roots of the input are the roots of the deflated polynomial, plus 0 when k > 0 *)
Lemma deflate_root p q k z : p = 'X^k * q -> root p z = ((0 < k)%N && (z == 0)) || root q z.
Proof.
move=> ->; rewrite rootM; congr (_ || _).
case: k => [|k]; first by rewrite expr0 /root hornerC oner_eq0.
by rewrite X_XsubC0 root_exp_XsubC.
Qed.

(* 0 is not a root of the deflated polynomial, and has multiplicity exactly k in the input *)
Lemma deflate_mu0 p q k : p = 'X^k * q -> q.[0] != 0 -> \mu_0 p = k.
Proof.
move=> Hp q0; rewrite Hp mulrC X_XsubC0.
by apply: cofactor_XsubC_mu; rewrite /root.
Qed.

(* every other root keeps its multiplicity *)
Lemma deflate_mu p q k z : p = 'X^k * q -> q.[0] != 0 -> z != 0 -> \mu_z p = \mu_z q.
Proof.
move=> Hp q0 zn0; have pn0 := deflate_neq0 Hp q0.
rewrite Hp mu_mul -?Hp // mu_exp muNroot ?mul0n //.
by rewrite X_XsubC0 root_XsubC.
Qed.

End Deflate.
